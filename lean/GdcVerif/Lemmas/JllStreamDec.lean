import GdcVerif.Model.JpegLosslessStream
import GdcVerif.Lemmas.JpegFrames
import GdcVerif.Lemmas.JllScan
/-!
  Decoder side of the JPEG Lossless / SV1 end-to-end theorem: the model decoder
  `JLL.Stream.decode` run on the bytes the header writers (`JpegC.losslessHeader`,
  `JpegC.sv1Header`) produce, followed by ANY stuffed entropy-coded segment and EOI, is the scan
  decoder `decodeScan` with the frame's parameters and the table the DHT segment carries.
-/
namespace JLL.Stream
open JLL JpegC

/-! ## D1. scan collection -/

/-- the scan collector stops exactly at the EOI marker behind a stuffed segment -/
theorem collect_stuffOk (sv1 : Bool) (tail : List Nat) : ∀ scan : List Nat, StuffOk scan = true →
    collect sv1 (scan ++ [0xFF, 0xD9] ++ tail) = scan := by
  intro scan
  induction scan using StuffOk.induct with
  | case1 => intro _; simp [collect]
  | case2 => intro h; simp [StuffOk] at h
  | case3 b2 rest2 ih =>
    intro h
    simp only [StuffOk, if_true, Bool.and_eq_true, decide_eq_true_eq] at h
    obtain ⟨h1, h2⟩ := h
    subst h1
    have := ih h2
    simp only [List.append_assoc, List.cons_append, List.nil_append] at this ⊢
    simp [collect, this]
  | case4 b rest hb ih =>
    intro h
    rw [StuffOk.eq_def] at h
    simp only [hb, if_false, Bool.and_eq_true, decide_eq_true_eq] at h
    have := ih h.2
    cases rest with
    | nil => simp [collect, hb]
    | cons b2 r2 =>
      simp only [List.append_assoc, List.cons_append, List.nil_append] at this ⊢
      rw [collect]
      simp [hb, this]

/-! ## D2. one table for every component -/

theorem foldlM_congr_mem {m : Type → Type} [Monad m] {α β : Type} (f g : β → α → m β) :
    ∀ (l : List α) (init : β), (∀ a ∈ l, ∀ b, f b a = g b a) → l.foldlM f init = l.foldlM g init := by
  intro l
  induction l with
  | nil => intro init _; rfl
  | cons a r ih =>
    intro init h
    rw [List.foldlM_cons, List.foldlM_cons, h a (by simp) init]
    congr 1
    funext b
    exact ih b (fun x hx => h x (by simp [hx]))

/-- when every component of the scan selects the same table, the per-component loop is `decodeScan` -/
theorem decodeScanSel_const (sv1 : Bool) (P pred w h nc : Nat) (tbl : Nat → Outcome Table) (t : Table)
    (data : List Nat) (ht : ∀ c, c < nc → tbl c = .ok t) :
    decodeScanSel sv1 P pred w h nc tbl data = decodeScan sv1 P pred w h nc t data := by
  unfold decodeScanSel decodeScan
  simp only []
  congr 1
  apply foldlM_congr_mem
  rintro ⟨row, col, c⟩ hp ⟨d, s⟩
  have hc : c < nc := (mem_scanOrder.1 hp).2.2
  simp only [ht c hc, Outcome.ok_bind]
  rfl

/-! ## D3. markers and segments -/

theorem readMarker_marker (m : Nat) (rest : List Nat) (h0 : m ≠ 0) (hff : m ≠ 0xFF) :
    JM.readMarker ([0xFF, m] ++ rest) = some (0xFF00 + m, rest) := by
  simp [JM.readMarker, JM.skipFill, h0, hff]

theorem readSegment_be16 (pl rest : List Nat) (hl : pl.length + 2 < 65536) :
    JM.readSegment (be16 (pl.length + 2) ++ pl ++ rest) = some (pl, rest) := by
  have e : (pl.length + 2) / 256 % 256 * 256 + (pl.length + 2) % 256 - 2 = pl.length := by omega
  simp only [be16, List.cons_append, List.nil_append, JM.readSegment, e]
  simp
  omega

theorem encSeg_eq (m : Nat) (pl rest : List Nat) (hl : pl.length + 2 < 65536) :
    encSeg m pl ++ rest = [0xFF, m] ++ (be16 (pl.length + 2) ++ pl ++ rest) := by
  have : (pl.length + 2) / 256 % 256 = (pl.length + 2) / 256 := by omega
  simp [encSeg, be16, this]

theorem writeSegment_eq (marker : Int) (lo : Nat) (hm : writeMarker marker = [0xFF, lo]) (pl rest : List Nat)
    (hl : pl.length + 2 < 65536) :
    writeSegment marker pl ++ rest = [0xFF, lo] ++ (be16 (pl.length + 2) ++ pl ++ rest) := by
  rw [writeSegment_encSeg marker lo hm pl hl, encSeg_eq lo pl rest hl]

/-- one iteration of the marker loop over a segment, as a function of the marker's low byte -/
def segStep (sv1 : Bool) (fuel : Nat) (d : Dec) (lo : Nat) (pl rest : List Nat) : Outcome Result :=
  if lo = 0xC3 then
    match (if sv1 then sv1SOF3 d pl else jllSOF3 d pl) with
    | none => .err
    | some d' => loop sv1 fuel d' rest
  else if lo = 0xC4 then
    match parseDHT (pl.length + 1) pl d.tables with
    | none => .err
    | some t => loop sv1 fuel { d with tables := t } rest
  else if lo = 0xDA then
    match (if sv1 then sv1SOS d pl else jllSOS d pl) with
    | none => .err
    | some d' => finish sv1 d' rest
  else loop sv1 fuel d rest

/-- markers that carry a length and are none of SOF3 / DHT / SOS / EOI … -/
def plainSeg (lo : Nat) : Prop :=
  lo ≠ 0 ∧ lo < 0xFF ∧ lo ≠ 0xD8 ∧ lo ≠ 0xD9 ∧ ¬ (0xD0 ≤ lo ∧ lo ≤ 0xD7)

theorem loop_encSeg (sv1 : Bool) (fuel : Nat) (d : Dec) (lo : Nat) (pl rest : List Nat)
    (hlo : plainSeg lo) (hl : pl.length + 2 < 65536) :
    loop sv1 (fuel + 1) d (encSeg lo pl ++ rest) = segStep sv1 fuel d lo pl rest := by
  obtain ⟨h0, hff, h8, h9, hr⟩ := hlo
  rw [encSeg_eq lo pl rest hl, loop, readMarker_marker lo _ h0 (by omega)]
  simp only [readSegment_be16 pl rest hl, segStep]
  have e3 : (0xFF00 + lo = 0xFFC3) = (lo = 0xC3) := by apply propext; omega
  have e4 : (0xFF00 + lo = 0xFFC4) = (lo = 0xC4) := by apply propext; omega
  have ea : (0xFF00 + lo = 0xFFDA) = (lo = 0xDA) := by apply propext; omega
  have e9 : ¬ (0xFF00 + lo = 0xFFD9) := by omega
  have hL : JM.hasLength (0xFF00 + lo) = true := by
    simp [JM.hasLength]; omega
  simp only [e3, e4, ea, if_neg e9, hL, if_true]
  by_cases h3 : lo = 0xC3
  · simp only [if_pos h3]; rfl
  by_cases h4 : lo = 0xC4
  · simp only [if_neg h3, if_pos h4]; rfl
  by_cases ha : lo = 0xDA
  · simp only [if_neg h3, if_neg h4, if_pos ha]; rfl
  · simp only [if_neg h3, if_neg h4, if_neg ha]

/-- D3: one iteration of `loop` over `JpegC.writeSegment marker pl ++ rest` -/
theorem loop_writeSegment (sv1 : Bool) (fuel : Nat) (d : Dec) (marker : Int) (lo : Nat)
    (hm : writeMarker marker = [0xFF, lo]) (pl rest : List Nat)
    (hlo : plainSeg lo) (hl : pl.length + 2 < 65536) :
    loop sv1 (fuel + 1) d (writeSegment marker pl ++ rest) = segStep sv1 fuel d lo pl rest := by
  rw [writeSegment_encSeg marker lo hm pl hl, loop_encSeg sv1 fuel d lo pl rest hlo hl]

theorem loop_skip (sv1 : Bool) (fuel : Nat) (d : Dec) (lo : Nat) (pl rest : List Nat)
    (hlo : plainSeg lo) (h3 : lo ≠ 0xC3) (h4 : lo ≠ 0xC4) (ha : lo ≠ 0xDA) (hl : pl.length + 2 < 65536) :
    loop sv1 (fuel + 1) d (encSeg lo pl ++ rest) = loop sv1 fuel d rest := by
  rw [loop_encSeg sv1 fuel d lo pl rest hlo hl, segStep, if_neg h3, if_neg h4, if_neg ha]

theorem loop_sof3 (sv1 : Bool) (fuel : Nat) (d d' : Dec) (pl rest : List Nat) (hl : pl.length + 2 < 65536)
    (h : (if sv1 then sv1SOF3 d pl else jllSOF3 d pl) = some d') :
    loop sv1 (fuel + 1) d (encSeg 0xC3 pl ++ rest) = loop sv1 fuel d' rest := by
  rw [loop_encSeg sv1 fuel d 0xC3 pl rest (by unfold plainSeg; omega) hl, segStep, if_pos rfl, h]

theorem loop_dht (sv1 : Bool) (fuel : Nat) (d : Dec) (tabs : List (Option Table)) (pl rest : List Nat)
    (hl : pl.length + 2 < 65536) (h : parseDHT (pl.length + 1) pl d.tables = some tabs) :
    loop sv1 (fuel + 1) d (encSeg 0xC4 pl ++ rest) = loop sv1 fuel { d with tables := tabs } rest := by
  rw [loop_encSeg sv1 fuel d 0xC4 pl rest (by unfold plainSeg; omega) hl, segStep, if_neg (by omega), if_pos rfl, h]

theorem loop_sos (sv1 : Bool) (fuel : Nat) (d d' : Dec) (pl rest : List Nat) (hl : pl.length + 2 < 65536)
    (h : (if sv1 then sv1SOS d pl else jllSOS d pl) = some d') :
    loop sv1 (fuel + 1) d (encSeg 0xDA pl ++ rest) = finish sv1 d' rest := by
  rw [loop_encSeg sv1 fuel d 0xDA pl rest (by unfold plainSeg; omega) hl, segStep, if_neg (by omega),
    if_neg (by omega), if_pos rfl, h]

theorem loop_sof3_jll (fuel : Nat) (d d' : Dec) (pl rest : List Nat) (hl : pl.length + 2 < 65536)
    (h : jllSOF3 d pl = some d') :
    loop false (fuel + 1) d (encSeg 0xC3 pl ++ rest) = loop false fuel d' rest :=
  loop_sof3 false fuel d d' pl rest hl h

theorem loop_sof3_sv1 (fuel : Nat) (d d' : Dec) (pl rest : List Nat) (hl : pl.length + 2 < 65536)
    (h : sv1SOF3 d pl = some d') :
    loop true (fuel + 1) d (encSeg 0xC3 pl ++ rest) = loop true fuel d' rest :=
  loop_sof3 true fuel d d' pl rest hl h

theorem loop_sos_jll (fuel : Nat) (d d' : Dec) (pl rest : List Nat) (hl : pl.length + 2 < 65536)
    (h : jllSOS d pl = some d') :
    loop false (fuel + 1) d (encSeg 0xDA pl ++ rest) = finish false d' rest :=
  loop_sos false fuel d d' pl rest hl h

theorem loop_sos_sv1 (fuel : Nat) (d d' : Dec) (pl rest : List Nat) (hl : pl.length + 2 < 65536)
    (h : sv1SOS d pl = some d') :
    loop true (fuel + 1) d (encSeg 0xDA pl ++ rest) = finish true d' rest :=
  loop_sos true fuel d d' pl rest hl h

theorem decode_soi (sv1 : Bool) (rest : List Nat) :
    decode sv1 ([0xFF, 0xD8] ++ rest) =
      loop sv1 (rest.length + 3) (if sv1 then { sels := [] } else {}) rest := by
  rw [decode, readMarker_marker 0xD8 rest (by omega) (by omega)]
  simp

/-! ## D4. the segments' contents -/

theorem jllSOF3_ok (d : Dec) (P H W n : Nat) (cs : List Nat) (hP : 2 ≤ P ∧ P ≤ 16) (hW : 1 ≤ W) (hH : 1 ≤ H)
    (hn : n = 1 ∨ n = 3) (hfirst : d.ncomp = 0 := by rfl) :
    jllSOF3 d (P :: H / 256 :: H % 256 :: W / 256 :: W % 256 :: n :: cs) =
      some { d with precision := P, height := H, width := W, ncomp := n } := by
  simp only [jllSOF3, Nat.div_add_mod']
  rw [if_neg (by omega), if_neg (by omega), if_neg (by omega), if_neg (by omega)]

theorem sv1SOF3_ok (d : Dec) (P H W n : Nat) (cs ids : List Nat) (hP : 2 ≤ P ∧ P ≤ 16) (hW : 1 ≤ W) (hH : 1 ≤ H)
    (hn : n = 1 ∨ n = 3) (hl : n * 3 ≤ cs.length) (hcs : sv1Comps n cs = some ids)
    (hfirst : d.ncomp = 0 := by rfl) :
    sv1SOF3 d (P :: H / 256 :: H % 256 :: W / 256 :: W % 256 :: n :: cs) =
      some { d with precision := P, height := H, width := W, ncomp := n, ids := ids, sels := ids.map fun _ => 0 } := by
  simp only [sv1SOF3, Nat.div_add_mod']
  rw [if_neg (by omega)]
  repeat (rw [if_neg (by omega)])
  rw [hcs]

theorem foldl_add_eq_sum (l : List Nat) : l.foldl (· + ·) 0 = l.sum := List.sum_eq_foldl.symm

/-- a DHT payload with one class-0 table for destination 0 -/
theorem parseDHT_single (bits vals : List Nat) (t : Table) (tables : List (Option Table))
    (hlen : bits.length = 16) (hs : bits.sum = vals.length) (hb : Table.build bits vals.toArray = .ok t) :
    parseDHT ((0 :: (bits ++ vals)).length + 1) (0 :: (bits ++ vals)) tables = some (tables.set 0 (some t)) := by
  have t16 : (bits ++ vals).take 16 = bits := take_len_append _ _ _ hlen
  have d16 : (bits ++ vals).drop 16 = vals := drop_len_append _ _ _ hlen
  have hf : bits.foldl (· + ·) 0 = vals.length := by rw [foldl_add_eq_sum, hs]
  have hd : dhtOne (0 :: (bits ++ vals)) = some (0, 0, t, []) := by
    simp [dhtOne, t16, d16, hf, hb, hlen]
  have hl : (0 :: (bits ++ vals)).length = (bits ++ vals).length + 1 := rfl
  rw [parseDHT, hd, hl]
  simp [parseDHT]

theorem tableOf_ok (d : Dec) (t : Table) (nc : Nat) (hs : ∀ c, c < nc → d.sels[c]? = some 0)
    (ht : d.tables[0]? = some (some t)) : ∀ c, c < nc → tableOf d c = .ok t := by
  intro c hc
  simp only [tableOf, hs c hc, ht]

theorem finish_ok (sv1 : Bool) (d : Dec) (t : Table) (scan : List Nat)
    (hs : ∀ c, c < d.ncomp → d.sels[c]? = some 0) (ht : d.tables[0]? = some (some t))
    (hst : StuffOk scan = true) :
    finish sv1 d (scan ++ [0xFF, 0xD9]) =
      (do let s ← decodeScan sv1 d.precision d.predictor d.width d.height d.ncomp t scan
          let pix ← samplesToPixels d.precision d.width d.height d.ncomp s
          pure (pix, d.width, d.height, d.ncomp, d.precision)) := by
  have hc := collect_stuffOk sv1 [] scan hst
  rw [List.append_nil] at hc
  rw [finish, hc, decodeScanSel_const sv1 _ _ _ _ _ _ t scan (tableOf_ok d t d.ncomp hs ht)]

theorem jllSOS_1 (d : Dec) (S : Nat) (hS : 1 ≤ S ∧ S ≤ 7) (hn : d.ncomp = 1) (hs : d.sels = [0, 0, 0]) :
    jllSOS d [1, 1, 0, S, 0, 0] = some { d with predictor := S, sels := [0, 0, 0] } := by
  simp [jllSOS, hn, hs, jllSelLoop, jllSelector]
  omega

theorem jllSOS_3 (d : Dec) (S : Nat) (hS : 1 ≤ S ∧ S ≤ 7) (hn : d.ncomp = 3) (hs : d.sels = [0, 0, 0]) :
    jllSOS d [3, 1, 0, 2, 0, 3, 0, S, 0, 0] = some { d with predictor := S, sels := [0, 0, 0] } := by
  simp [jllSOS, hn, hs, jllSelLoop, jllSelector]
  omega

theorem sv1SOS_1 (d : Dec) (hi : d.ids = [1]) (hs : d.sels = [0]) :
    sv1SOS d [1, 1, 0, 1, 0, 0] = some { d with predictor := 1, sels := [0] } := by
  simp [sv1SOS, hi, hs, sv1SelLoop, sv1Selector, List.findIdx?_cons]

theorem sv1SOS_3 (d : Dec) (hi : d.ids = [1, 2, 3]) (hs : d.sels = [0, 0, 0]) :
    sv1SOS d [3, 1, 0, 2, 0, 3, 0, 1, 0, 0] = some { d with predictor := 1, sels := [0, 0, 0] } := by
  simp [sv1SOS, hi, hs, sv1SelLoop, sv1Selector, List.findIdx?_cons]

/-- the decoded result in terms of the scan decoder -/
def scanResult (sv1 : Bool) (P S W H nc : Nat) (t : Table) (scan : List Nat) : Outcome Result := do
  let s ← decodeScan sv1 P S W H nc t scan
  let pix ← samplesToPixels P W H nc s
  pure (pix, W, H, nc, P)

/-- the header walk over the explicit segment sequence the writers emit -/
theorem loop_walk (sv1 : Bool) (W H nc P S : Nat) (bits vals : List Nat) (t : Table) (scan : List Nat)
    (hW : 1 ≤ W) (hH : 1 ≤ H) (hc : nc = 1 ∨ nc = 3) (hP : 2 ≤ P ∧ P ≤ 16) (hS : 1 ≤ S ∧ S ≤ 7)
    (hsv : sv1 = true → S = 1)
    (hlen : bits.length = 16) (hsum : bits.sum = vals.length) (h256 : vals.length ≤ 256)
    (hb : Table.build bits vals.toArray = .ok t) (hst : StuffOk scan = true)
    (fuel : Nat) (hf : 4 ≤ fuel) :
    loop sv1 fuel (if sv1 then { sels := [] } else {})
      (encSeg 0xE0 jfifData ++ (encSeg 0xC3 ([P, H / 256, H % 256, W / 256, W % 256, nc] ++ compSpecs nc) ++
        (encSeg 0xC4 (0 :: (bits ++ vals)) ++ (encSeg 0xDA ([nc] ++ (scanSels nc ++ [S, 0, 0])) ++
          (scan ++ [0xFF, 0xD9]))))) = scanResult sv1 P S W H nc t scan := by
  obtain ⟨f, rfl⟩ : ∃ f, fuel = f + 1 + 1 + 1 + 1 := ⟨fuel - 4, by omega⟩
  have hcs1 : compSpecs 1 = [1, 0x11, 0] := by decide
  have hss1 : scanSels 1 = [1, 0] := by decide
  have hcs3 : compSpecs 3 = [1, 0x11, 0, 2, 0x11, 0, 3, 0x11, 0] := by decide
  have hss3 : scanSels 3 = [1, 0, 2, 0, 3, 0] := by decide
  have hdl : (0 :: (bits ++ vals)).length + 2 < 65536 := by simp; omega
  rw [loop_skip _ _ _ 0xE0 _ _ (by unfold plainSeg; omega) (by omega) (by omega) (by omega) (by decide)]
  unfold scanResult
  rcases hc with rfl | rfl
  · simp only [hcs1, hss1, List.cons_append, List.nil_append]
    cases sv1 <;> simp only [↓reduceIte, Bool.false_eq_true]
    · rw [loop_sof3_jll _ _ _ _ _ (by simp) (jllSOF3_ok {} P H W 1 [1, 0x11, 0] hP hW hH (Or.inl rfl)),
        loop_dht false _ _ _ _ _ hdl (parseDHT_single bits vals t _ hlen hsum hb),
        loop_sos_jll _ _ _ _ _ (by simp) (jllSOS_1 _ S hS rfl rfl)]
      exact finish_ok false _ t scan (by intro c hc; have : c = 0 := by simp at hc; omega
                                         subst this; rfl) rfl hst
    · obtain rfl := hsv rfl
      rw [loop_sof3_sv1 _ _ _ _ _ (by simp)
          (sv1SOF3_ok { sels := [] } P H W 1 [1, 0x11, 0] [1] hP hW hH (Or.inl rfl) (by simp) (by decide)),
        loop_dht true _ _ _ _ _ hdl (parseDHT_single bits vals t _ hlen hsum hb),
        loop_sos_sv1 _ _ _ _ _ (by simp) (sv1SOS_1 _ rfl rfl)]
      exact finish_ok true _ t scan (by intro c hc; have : c = 0 := by simp at hc; omega
                                        subst this; rfl) rfl hst
  · simp only [hcs3, hss3, List.cons_append, List.nil_append]
    cases sv1 <;> simp only [↓reduceIte, Bool.false_eq_true]
    · rw [loop_sof3_jll _ _ _ _ _ (by simp)
          (jllSOF3_ok {} P H W 3 [1, 0x11, 0, 2, 0x11, 0, 3, 0x11, 0] hP hW hH (Or.inr rfl)),
        loop_dht false _ _ _ _ _ hdl (parseDHT_single bits vals t _ hlen hsum hb),
        loop_sos_jll _ _ _ _ _ (by simp) (jllSOS_3 _ S hS rfl rfl)]
      exact finish_ok false _ t scan (by
        intro c hc
        have hc : c < 3 := hc
        match c, hc with
        | 0, _ => rfl
        | 1, _ => rfl
        | 2, _ => rfl) rfl hst
    · obtain rfl := hsv rfl
      rw [loop_sof3_sv1 _ _ _ _ _ (by simp)
          (sv1SOF3_ok { sels := [] } P H W 3 [1, 0x11, 0, 2, 0x11, 0, 3, 0x11, 0] [1, 2, 3] hP hW hH (Or.inr rfl)
            (by simp) (by decide)),
        loop_dht true _ _ _ _ _ hdl (parseDHT_single bits vals t _ hlen hsum hb),
        loop_sos_sv1 _ _ _ _ _ (by simp) (sv1SOS_3 _ rfl rfl)]
      exact finish_ok true _ t scan (by
        intro c hc
        have hc : c < 3 := hc
        match c, hc with
        | 0, _ => rfl
        | 1, _ => rfl
        | 2, _ => rfl) rfl hst

/-! ## D4. the writers' bytes -/

theorem bits_byteOf (tb : HuffTable) (ht : TableOk tb) : tb.bits.map byteOf = tb.bits.map Int.toNat := by
  apply List.map_congr_left
  intro b hb
  have := ht.range b hb
  unfold byteOf
  omega

/-- `losslessHeader` as SOI followed by four marker segments -/
theorem losslessHeader_eq (W H nc P S : Nat) (tb : HuffTable) (hW : 1 ≤ W ∧ W ≤ 65535) (hH : 1 ≤ H ∧ H ≤ 65535)
    (hc : nc = 1 ∨ nc = 3) (hP : 2 ≤ P ∧ P ≤ 16) (hS : S ≤ 7) (ht : TableOk tb) :
    losslessHeader (W : Int) (H : Int) nc (P : Int) (S : Int) tb =
      .ok ([0xFF, 0xD8] ++ (encSeg 0xE0 jfifData ++
        (encSeg 0xC3 ([P, H / 256, H % 256, W / 256, W % 256, nc] ++ compSpecs nc) ++
          (encSeg 0xC4 (0 :: (tb.bits.map byteOf ++ tb.values)) ++
            encSeg 0xDA ([nc] ++ (scanSels nc ++ [S, 0, 0])))))) := by
  have hfix := sofFixed_nat P H W nc (by omega) (by omega) (by omega) (by omega)
  have hS' : byteOf (S : Int) = S := by rw [byteOf_natCast]; omega
  have hcs1 : compSpecs 1 = [1, 0x11, 0] := by decide
  have hss1 : scanSels 1 = [1, 0] := by decide
  have hcs3 : compSpecs 3 = [1, 0x11, 0, 2, 0x11, 0, 3, 0x11, 0] := by decide
  have hss3 : scanSels 3 = [1, 0, 2, 0, 3, 0] := by decide
  -- argument guards of `losslessHeader` (C16's/C17's text): whatever arithmetic guards there are
  unfold losslessHeader
  repeat (rw [if_neg (by omega)])
  simp only [dhtSegment, dhtPayload_ok 0 0 tb ht, JpegC.Outcome.map]
  rcases hc with rfl | rfl
  · rw [writeSegment_encSeg _ _ mSOF3 _ (by simp [sof3Payload, sofFixed]),
      writeSegment_encSeg _ _ mDHT _ (dht_len tb ht _),
      writeSegment_encSeg _ _ mSOS _ (by simp [sosLosslessPayload]), mSOI, jfif_encSeg]
    simp [sof3Payload, hfix, sosLosslessPayload, hS', byteOf_1, hcs1, hss1]
  · rw [writeSegment_encSeg _ _ mSOF3 _ (by simp [sof3Payload, sofFixed, hcs3]),
      writeSegment_encSeg _ _ mDHT _ (dht_len tb ht _),
      writeSegment_encSeg _ _ mSOS _ (by simp [sosLosslessPayload, hss3]), mSOI, jfif_encSeg]
    simp [sof3Payload, hfix, sosLosslessPayload, hS', byteOf_3, hcs3, hss3]

/-! ## D4 / D5. the decoder on the writers' bytes -/

/-- D4: `decode` on header ++ ANY stuffed scan ++ EOI is the scan decoder with the frame's
    parameters and the table of the DHT segment, followed by `samplesToPixels` -/
theorem decode_header (sv1 : Bool) (w h nc P pred : Nat) (tb : HuffTable) (t : Table) (hdr scan : List Nat)
    (hw : 1 ≤ w ∧ w ≤ 65535) (hh : 1 ≤ h ∧ h ≤ 65535) (hc : nc = 1 ∨ nc = 3) (hP : 2 ≤ P ∧ P ≤ 16)
    (hpred : 1 ≤ pred ∧ pred ≤ 7) (hsv : sv1 = true → pred = 1) (htb : TableOk tb)
    (hb : Table.build (tb.bits.map Int.toNat) tb.values.toArray = .ok t)
    (hhdr : (if sv1 then JpegC.sv1Header w h nc P tb else JpegC.losslessHeader w h nc P pred tb) = .ok hdr)
    (hst : StuffOk scan = true) :
    decode sv1 (hdr ++ scan ++ [0xFF, 0xD9]) =
      (do let s ← decodeScan sv1 P pred w h nc t scan
          let pix ← samplesToPixels P w h nc s
          pure (pix, w, h, nc, P)) := by
  have hh' : losslessHeader (w : Int) (h : Int) nc (P : Int) (pred : Int) tb = .ok hdr := by
    cases sv1
    · simpa using hhdr
    · obtain rfl := hsv rfl
      simpa [sv1Header] using hhdr
  rw [losslessHeader_eq w h nc P pred tb hw hh hc hP hpred.2 htb] at hh'
  injection hh' with hh'
  subst hh'
  rw [← bits_byteOf tb htb] at hb
  simp only [List.append_assoc]
  rw [decode_soi, loop_walk sv1 w h nc P pred (tb.bits.map byteOf) tb.values t scan hw.1 hh.1 hc hP hpred hsv
    (by simp [htb.len]) htb.total htb.le256 hb hst _ (by simp [encSeg])]
  rfl

/-- D5: the decoder returns the pixels of the decoded scan -/
theorem decode_header_ok (sv1 : Bool) (w h nc P pred : Nat) (tb : HuffTable) (t : Table) (hdr scan : List Nat)
    (s : Array (Array Int)) (px : List Nat)
    (hw : 1 ≤ w ∧ w ≤ 65535) (hh : 1 ≤ h ∧ h ≤ 65535) (hc : nc = 1 ∨ nc = 3) (hP : 2 ≤ P ∧ P ≤ 16)
    (hpred : 1 ≤ pred ∧ pred ≤ 7) (hsv : sv1 = true → pred = 1) (htb : TableOk tb)
    (hb : Table.build (tb.bits.map Int.toNat) tb.values.toArray = .ok t)
    (hhdr : (if sv1 then JpegC.sv1Header w h nc P tb else JpegC.losslessHeader w h nc P pred tb) = .ok hdr)
    (hst : StuffOk scan = true)
    (hs : decodeScan sv1 P pred w h nc t scan = .ok s) (hpx : samplesToPixels P w h nc s = .ok px) :
    decode sv1 (hdr ++ scan ++ [0xFF, 0xD9]) = .ok (px, w, h, nc, P) := by
  rw [decode_header sv1 w h nc P pred tb t hdr scan hw hh hc hP hpred hsv htb hb hhdr hst, hs]
  simp only [Outcome.ok_bind, hpx]
  rfl

/-- the header writers succeed on admissible parameters (so `hhdr` above is never vacuous) -/
theorem header_ok (sv1 : Bool) (w h nc P pred : Nat) (tb : HuffTable)
    (hw : 1 ≤ w ∧ w ≤ 65535) (hh : 1 ≤ h ∧ h ≤ 65535) (hc : nc = 1 ∨ nc = 3) (hP : 2 ≤ P ∧ P ≤ 16)
    (hpred : pred ≤ 7) (htb : TableOk tb) :
    ∃ hdr, (if sv1 then JpegC.sv1Header w h nc P tb else JpegC.losslessHeader w h nc P pred tb) = .ok hdr := by
  cases sv1
  · exact ⟨_, by simpa using losslessHeader_eq w h nc P pred tb hw hh hc hP hpred htb⟩
  · exact ⟨_, by simpa [sv1Header] using losslessHeader_eq w h nc P 1 tb hw hh hc hP (by omega) htb⟩

/-- D4 in the shape `JLL.Stream.encode` produces its bytes (`JpegC.withScan`) -/
theorem decode_withScan (sv1 : Bool) (w h nc P pred : Nat) (tb : HuffTable) (t : Table) (scan bytes : List Nat)
    (hw : 1 ≤ w ∧ w ≤ 65535) (hh : 1 ≤ h ∧ h ≤ 65535) (hc : nc = 1 ∨ nc = 3) (hP : 2 ≤ P ∧ P ≤ 16)
    (hpred : 1 ≤ pred ∧ pred ≤ 7) (hsv : sv1 = true → pred = 1) (htb : TableOk tb)
    (hb : Table.build (tb.bits.map Int.toNat) tb.values.toArray = .ok t)
    (hst : StuffOk scan = true)
    (hbytes : ofC (JpegC.withScan
      (if sv1 then JpegC.sv1Header w h nc P tb else JpegC.losslessHeader w h nc P pred tb) scan) = .ok bytes) :
    decode sv1 bytes =
      (do let s ← decodeScan sv1 P pred w h nc t scan
          let pix ← samplesToPixels P w h nc s
          pure (pix, w, h, nc, P)) := by
  obtain ⟨hdr, hhdr⟩ := header_ok sv1 w h nc P pred tb hw hh hc hP hpred.2 htb
  rw [hhdr] at hbytes
  simp only [withScan, JpegC.Outcome.map, ofC, mEOI] at hbytes
  injection hbytes with hbytes
  subst hbytes
  exact decode_header sv1 w h nc P pred tb t hdr scan hw hh hc hP hpred hsv htb hb hhdr hst

end JLL.Stream
