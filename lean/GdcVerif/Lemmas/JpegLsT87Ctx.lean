import GdcVerif.Gen.JpegLs
import GdcVerif.Lemmas.JpegLsT87
import GdcVerif.Spec.T87
import GdcVerif.Lemmas.JpegLsCtx
/-!
  Generated context-update kernels (`Context.UpdateContext`, `RunModeContext.UpdateVariables`,
  `RunModeContext.ComputeMap`) vs T.87 code segments A.12/A.13 and A.21/A.23 (`Spec/T87.lean`).
-/
namespace JpegLsT87
open Gen.JpegLs

/-- the standard's view of the code's regular-mode context -/
def ctxSpec (c : Context) : T87.Ctx := { A := c.A, B := c.B, C := c.C, N := c.N }
/-- the standard's view of the code's run-interruption context -/
def riSpec (c : RunModeContext) : T87.RICtx := { RItype := c.runInterruptionType, A := c.A, N := c.N, Nn := c.NN }

theorem shr1 (x : Int) : Go.shr x 1 = x / 2 := by
  unfold Go.shr; rw [Int.shiftRight_eq_div_pow]; rfl

/-- the `>>` the standard writes for a possibly negative `B` is floor division -/
theorem neg_shift (B : Int) (h : ¬ B ≥ 0) : -((1 - B) / 2) = B / 2 := by omega

theorem updateContext_eq (c : Context) (e near reset : Int) (p : T87.Params)
    (hN : p.NEAR = near) (hR : p.RESET = reset)
    (hA : c.A + Go.abs e < 16777216)
    (hB : -16777216 < c.B + e * (2 * near + 1) ∧ c.B + e * (2 * near + 1) < 16777216) :
    ctxSpec (Context.UpdateContext c e near reset) = T87.contextUpdate p (ctxSpec c) e := by
  unfold Context.UpdateContext
  extract_lets maxC minC ov c1 c2 c3 c4 c5 c6 d1 d2 d3 h1 h2 h3 d4 n1 p1 p2 p3 p4 p5 q1 q2 q3 q4 q5 q6 r1
  have s1 : d3 = { c with A := c.A + Go.abs e, B := c.B + e * (2 * near + 1) } := by
    have hov : ¬ ((decide (c2.A ≥ ov) || decide (Go.abs c2.B ≥ ov)) = true) := by
      simp only [c2, c1, ov, Bool.or_eq_true, decide_eq_true_eq, Go.abs] at *
      by_cases h0 : e < 0 <;> by_cases h00 : c.B + e * (2 * near + 1) < 0 <;> simp only [h0, h00, if_true, if_false, decide_eq_true_eq] at * <;> omega
    simp only [d3, hov, if_false, c2, c1, Bool.false_eq_true]
  have s2 : ctxSpec n1 = T87.updateVariables p (ctxSpec c) e := by
    simp only [n1, d4, h3, h2, h1, s1, shr1, T87.updateVariables, ctxSpec, hN, hR, Go.abs, beq_iff_eq]
    split <;> rename_i hreq <;> simp only [T87.Ctx.mk.injEq]
    refine ⟨trivial, ?_, trivial, trivial⟩
    generalize c.B + e * (2 * near + 1) = b
    split <;> omega
  unfold T87.contextUpdate
  rw [← s2]
  clear_value n1
  obtain ⟨A, N, B, C⟩ := n1
  simp only [r1, q6, q5, q4, q3, q2, q1, p5, p4, p3, p2, p1, maxC, minC, decide_eq_true_eq, ctxSpec,
    T87.updateBias, T87.MIN_C, T87.MAX_C]
  by_cases h1 : B + N ≤ 0 <;> by_cases h2 : B + N ≤ -N <;> by_cases h3 : C > -128 <;> by_cases h4 : B > 0 <;>
    by_cases h5 : B - N > 0 <;> by_cases h6 : C < 127 <;> by_cases h7 : B ≤ -N <;>
    simp only [h1, h2, h3, h4, h5, h6, h7, if_true, if_false, T87.Ctx.mk.injEq] <;> omega

theorem riUpdate_eq (c : RunModeContext) (e em reset : Int) (p : T87.Params) (hR : p.RESET = reset) :
    riSpec (RunModeContext.UpdateVariables c e em reset) = T87.riUpdate p (riSpec c) e em := by
  obtain ⟨t, A, N, NN⟩ := c
  unfold RunModeContext.UpdateVariables T87.riUpdate riSpec
  simp only [shr1, hR, decide_eq_true_eq, beq_iff_eq]
  by_cases h1 : e < 0 <;> by_cases h2 : N = reset <;> simp only [h1, h2, if_true, if_false]

theorem riMap_eq (c : RunModeContext) (e k : Int) :
    RunModeContext.ComputeMap c e k = T87.riMap (riSpec c) k e := by
  unfold RunModeContext.ComputeMap T87.riMap riSpec
  by_cases h1 : k = 0 <;> by_cases h2 : e > 0 <;> by_cases h3 : e < 0 <;> by_cases h4 : 2 * c.NN < c.N <;>
    by_cases h5 : 2 * c.NN ≥ c.N <;>
    simp [h1, h2, h3, h4, h5] <;> omega


/-- the states a scan reaches (RESET = 64, |Errval| ≤ 2^16) -/
def CtxReach (c : Context) : Prop :=
  (0 ≤ c.A ∧ c.A ≤ c.N * 65536) ∧ (1 ≤ c.N ∧ c.N ≤ 64) ∧ (-c.N < c.B ∧ c.B ≤ 0) ∧ (-128 ≤ c.C ∧ c.C ≤ 127)

theorem ctxReach_step (c : Context) (e near : Int) (p : T87.Params) (hN : p.NEAR = near) (hR : p.RESET = 64)
    (h : CtxReach c) (he : -65536 ≤ e ∧ e ≤ 65536)
    (hm : -131072 ≤ e * (2 * near + 1) ∧ e * (2 * near + 1) ≤ 131072) :
    ctxSpec (Context.UpdateContext c e near 64) = T87.contextUpdate p (ctxSpec c) e ∧
    CtxReach (Context.UpdateContext c e near 64) := by
  obtain ⟨hA, hNr, hB, hC⟩ := h
  have hg1 : c.A + Go.abs e < 16777216 := by unfold Go.abs; split <;> omega
  have hg2 : -16777216 < c.B + e * (2 * near + 1) ∧ c.B + e * (2 * near + 1) < 16777216 := by omega
  have heq := updateContext_eq c e near 64 p hN hR hg1 hg2
  have hinv := JpegLsLemmas.updateContext_inv c e near 64 (by omega) hNr hC
  refine ⟨heq, ?_, hinv.1, hinv.2.2, hinv.2.1⟩
  -- the A component, read off the specification side
  have hAeq : (Context.UpdateContext c e near 64).A = (T87.contextUpdate p (ctxSpec c) e).A := by
    rw [← heq]; rfl
  have hNeq : (Context.UpdateContext c e near 64).N = (T87.contextUpdate p (ctxSpec c) e).N := by
    rw [← heq]; rfl
  rw [hAeq, hNeq]
  have hbA : ∀ q : T87.Ctx, (T87.updateBias q).A = q.A ∧ (T87.updateBias q).N = q.N := by
    intro q; unfold T87.updateBias; split
    · exact ⟨rfl, rfl⟩
    · split <;> exact ⟨rfl, rfl⟩
  unfold T87.contextUpdate
  rw [(hbA _).1, (hbA _).2]
  unfold T87.updateVariables
  simp only [ctxSpec, hR]
  unfold Go.abs at hg1
  split <;> simp only [] <;> split at hg1 <;> rename_i hneg <;> simp only [hneg, if_true, if_false] <;> omega

/-- every state reached from a `CtxReach` state by any sequence of bounded error values is again
    `CtxReach`, and the code's run of updates IS the standard's run of A.12 + A.13 -/
theorem ctxReach_run (near : Int) (p : T87.Params) (hN : p.NEAR = near) (hR : p.RESET = 64) :
    ∀ (es : List Int) (c : Context), CtxReach c →
      (∀ e ∈ es, (-65536 ≤ e ∧ e ≤ 65536) ∧ (-131072 ≤ e * (2 * near + 1) ∧ e * (2 * near + 1) ≤ 131072)) →
      ctxSpec (es.foldl (fun c e => Context.UpdateContext c e near 64) c) =
        es.foldl (fun q e => T87.contextUpdate p q e) (ctxSpec c) ∧
      CtxReach (es.foldl (fun c e => Context.UpdateContext c e near 64) c)
  | [], c, h, _ => ⟨rfl, h⟩
  | e :: es, c, h, hes => by
    have he := hes e (List.mem_cons_self ..)
    have st := ctxReach_step c e near p hN hR h he.1 he.2
    have ih := ctxReach_run near p hN hR es _ st.2 (fun e' h' => hes e' (List.mem_cons_of_mem _ h'))
    simp only [List.foldl_cons]
    rw [← st.1]
    exact ih

theorem ctxReach_init (range : Int) (hr : 2 ≤ range ∧ range ≤ 65536) : CtxReach (NewContext range) := by
  unfold NewContext CtxReach
  simp only []
  have : Int.tdiv (range + 32) 64 = (range + 32) / 64 := Int.tdiv_eq_ediv_of_nonneg (by omega)
  rw [this]
  omega
end JpegLsT87
