import GdcVerif.Lemmas.JpegContainer
import GdcVerif.Spec.StrictJ2kTiles
/-!
  C16, JPEG 2000 container level: tile-part length arithmetic (Psot), the TLM scan loop of
  `writeTLM` over the output of the tile-part writer, total length, SIZ field round trip.
-/
namespace JpegC
open Gen.C16J2kMarkers

theorem mSOT : be16 MarkerSOT.toNat = [0xFF, 0x90] := by decide
theorem mSOD : be16 MarkerSOD.toNat = [0xFF, 0x93] := by decide
theorem mEOC : be16 MarkerEOC.toNat = [0xFF, 0xD9] := by decide
theorem mTLM : be16 MarkerTLM.toNat = [0xFF, 0x55] := by decide
theorem mSOC : be16 MarkerSOC.toNat = [0xFF, 0x4F] := by decide
theorem mSIZ : be16 MarkerSIZ.toNat = [0xFF, 0x51] := by decide

/-- a tile-part whose fields fit the SOT marker segment: 16-bit Isot, 32-bit Psot -/
def TilePart.Fits (t : TilePart) : Prop := 0 ≤ t.isot ∧ t.isot < 65536 ∧ t.psot < 4294967296

instance (t : TilePart) : Decidable t.Fits := by unfold TilePart.Fits; infer_instance

theorem writeTilePart_length (t : TilePart) : (writeTilePart t).length = t.psot := by
  simp [writeTilePart, be16, be32, TilePart.psot]; omega

theorem writeTileParts_length (ts : List TilePart) : (writeTileParts ts).length = (ts.map TilePart.psot).sum := by
  induction ts with
  | nil => rfl
  | cons t r ih =>
    simp only [writeTileParts, List.map_cons, List.flatten_cons, List.length_append, List.sum_cons] at ih ⊢
    rw [writeTilePart_length, ih]

theorem be32_decode (v : Nat) (h : v < 4294967296) :
    ((v / 16777216 % 256 * 256 + v / 65536 % 256) * 256 + v / 256 % 256) * 256 + v % 256 = v := by omega

theorem be16_decode (v : Nat) (h : v < 65536) : v / 256 % 256 * 256 + v % 256 = v := by omega

theorem getD_mid (pre x rest : List Nat) (k : Nat) (hk : k < x.length) :
    (pre ++ (x ++ rest)).getD (pre.length + k) 0 = x.getD k 0 := by
  simp only [List.getD_eq_getElem?_getD]
  rw [List.getElem?_append_right (by omega)]
  simp only [Nat.add_sub_cancel_left]
  rw [List.getElem?_append_left hk]

/-- the first twelve bytes of a tile-part, as the TLM loop reads them -/
theorem tilePart_head (t : TilePart) (ht : t.Fits) : ∃ tail,
    writeTilePart t = [0xFF, 0x90, 0, 10, t.isot.toNat / 256 % 256, t.isot.toNat % 256,
      t.psot / 16777216 % 256, t.psot / 65536 % 256, t.psot / 256 % 256, t.psot % 256,
      byteOf t.tpsot, byteOf t.tnsot] ++ tail := by
  obtain ⟨h0, h1, h2⟩ := ht
  refine ⟨t.header ++ be16 MarkerSOD.toNat ++ t.body, ?_⟩
  have e1 : u16Of t.isot = t.isot.toNat := by unfold u16Of; omega
  have e2 : u32Of (t.psot : Int) = t.psot := u32Of_small _ h2
  rw [writeTilePart, mSOT, e1, e2]
  simp [be16, be32]

/-- THE TLM LOOP over the tile-part writer's output: starting at any tile-part boundary it walks
    exactly the tile-parts (each step lands on an SOT marker, `offset += Psot`), consumes the buffer
    exactly, and collects `(Isot, Psot)` of every tile-part in order. -/
theorem tlmScan_parts (ts : List TilePart) : ∀ (pre : List Nat) (fuel : Nat),
    (∀ t ∈ ts, t.Fits) → ts.length ≤ fuel →
    tlmScan fuel (pre ++ writeTileParts ts) pre.length = some (ts.map fun t => (t.isot.toNat, t.psot)) := by
  induction ts with
  | nil =>
    intro pre fuel _ _
    cases fuel <;> simp [tlmScan, writeTileParts]
  | cons t r ih =>
    intro pre fuel hfit hfuel
    obtain ⟨f, rfl⟩ : ∃ f, fuel = f + 1 := ⟨fuel - 1, by simp at hfuel; omega⟩
    have ht := hfit t (by simp)
    obtain ⟨tail, htail⟩ := tilePart_head t ht
    have hlen := writeTilePart_length t
    have hps : 14 ≤ t.psot := by simp [TilePart.psot]
    have e : pre ++ writeTileParts (t :: r) = pre ++ (writeTilePart t ++ writeTileParts r) := by
      simp [writeTileParts]
    have g : ∀ k, k < 12 → (pre ++ (writeTilePart t ++ writeTileParts r)).getD (pre.length + k) 0
        = (writeTilePart t).getD k 0 := fun k hk => getD_mid _ _ _ _ (by omega)
    rw [e, tlmScan]
    have hlt : pre.length < (pre ++ (writeTilePart t ++ writeTileParts r)).length := by
      simp only [List.length_append]; omega
    rw [if_pos hlt]
    have h0 := g 0 (by omega); have h1 := g 1 (by omega)
    have h4 := g 4 (by omega); have h5 := g 5 (by omega)
    have h6 := g 6 (by omega); have h7 := g 7 (by omega); have h8 := g 8 (by omega); have h9 := g 9 (by omega)
    simp only [Nat.add_zero] at h0
    have r32 : rd32 (pre ++ (writeTilePart t ++ writeTileParts r)) (pre.length + 6) = t.psot := by
      unfold rd32
      rw [h6, show pre.length + 6 + 1 = pre.length + 7 from rfl, show pre.length + 6 + 2 = pre.length + 8 from rfl,
        show pre.length + 6 + 3 = pre.length + 9 from rfl, h7, h8, h9, htail]
      simp only [List.cons_append, List.getD_cons_succ, List.getD_cons_zero]
      exact be32_decode _ ht.2.2
    have r16 : rd16 (pre ++ (writeTilePart t ++ writeTileParts r)) (pre.length + 4) = t.isot.toNat := by
      unfold rd16
      rw [h4, show pre.length + 4 + 1 = pre.length + 5 from rfl, h5, htail]
      simp only [List.cons_append, List.getD_cons_succ, List.getD_cons_zero]
      exact be16_decode _ (by have := ht.2.1; omega)
    have c1 : ¬ (pre.length + 12 > (pre ++ (writeTilePart t ++ writeTileParts r)).length ∨
        (pre ++ (writeTilePart t ++ writeTileParts r)).getD pre.length 0 ≠ 0xFF ∨
        (pre ++ (writeTilePart t ++ writeTileParts r)).getD (pre.length + 1) 0 ≠ 0x90) := by
      rw [h0, h1, htail]
      simp only [List.length_append]
      simp
      omega
    rw [if_neg c1]
    simp only [r32, r16]
    have c2 : ¬ (t.psot < 14 ∨ pre.length + t.psot > (pre ++ (writeTilePart t ++ writeTileParts r)).length) := by
      simp only [List.length_append]; omega
    rw [if_neg c2]
    have e2 : pre ++ (writeTilePart t ++ writeTileParts r) = (pre ++ writeTilePart t) ++ writeTileParts r := by simp
    have e3 : pre.length + t.psot = (pre ++ writeTilePart t).length := by simp [hlen]
    rw [e2, e3, ih (pre ++ writeTilePart t) f (fun x hx => hfit x (by simp [hx])) (by simp at hfuel; omega)]
    simp

theorem tlmSegments_nil (fuel z : Nat) : tlmSegments fuel z [] = [] := by
  cases fuel <;> simp [tlmSegments]

/-- up to 10921 entries the segment loop of `writeTLM` writes exactly one segment with `Ztlm = 0` -/
theorem tlmSegments_single (es : List (Nat × Nat)) (h0 : es.length ≠ 0) (h1 : es.length ≤ 10921) :
    tlmSegments es.length 0 es =
      be16 MarkerTLM.toNat ++ be16 (u16Of (4 + es.length * 6)) ++ [0, 0x60] ++ (es.flatMap fun e => be16 e.1 ++ be32 e.2) := by
  cases hl : es.length with
  | zero => exact absurd hl h0
  | succ n =>
    simp only [tlmSegments]
    rw [if_neg (by omega), List.take_of_length_le (by omega), List.drop_of_length_le (by omega), tlmSegments_nil]
    simp [hl]

/-- `writeTLM` on the tile-part writer's output (at most 10921 tile-parts, `hn`): one segment, `Ltlm = 4 + 6n`,
    `Ztlm = 0`, `Stlm = 0x60`, and the n entries are exactly `(Isot, Psot)` of the n tile-parts, in order.
    (Beyond `hn` the code — since fix htj2k-tlm-length-overflow — and the model continue with further segments.) -/
theorem writeTLM_parts (ts : List TilePart) (hne : ts ≠ []) (hfit : ∀ t ∈ ts, t.Fits) (hn : 4 + ts.length * 6 < 65536) :
    writeTLM true (writeTileParts ts) =
      .ok ([0xFF, 0x55] ++ be16 (4 + ts.length * 6) ++ [0, 0x60] ++
        ts.flatMap fun t => be16 t.isot.toNat ++ be32 t.psot) := by
  have hscan := tlmScan_parts ts [] (writeTileParts ts).length hfit (by
    rw [writeTileParts_length]
    clear hne hfit hn
    induction ts with
    | nil => simp
    | cons t r ih => simp [TilePart.psot] at ih ⊢; omega)
  simp only [List.nil_append, List.length_nil] at hscan
  have hl : ts.length ≠ 0 := by cases ts <;> simp_all
  have hu : u16Of (4 + (ts.length : Int) * 6) = 4 + ts.length * 6 := by
    have := u16Of_small (4 + ts.length * 6) hn
    simpa using this
  have hseg := tlmSegments_single (ts.map fun t => (t.isot.toNat, t.psot)) (by simpa using hl) (by simp; omega)
  simp only [List.length_map] at hseg
  simp [writeTLM, hscan, hl, hseg, mTLM, hu, List.flatMap_map]
  omega

/-- TOTAL LENGTH (classic code-blocks): main header + Σ Psot + 2 (EOC) -/
theorem j2k_total_length (p : J2kParams) (info : QcdInfo) (ts : List TilePart) (hht : p.htj2k = false) :
    ∃ bytes, j2kStream p info ts = .ok bytes ∧
      bytes.length = (j2kMainHeader p info).length + (ts.map TilePart.psot).sum + 2 ∧
      bytes.drop (bytes.length - 2) = [0xFF, 0xD9] := by
  refine ⟨j2kMainHeader p info ++ (writeTileParts ts ++ [0xFF, 0xD9]), ?_, ?_, ?_⟩
  · simp [j2kStream, j2kTail, writeTLM, hht, Outcome.map, mEOC]
  · simp [writeTileParts_length]; omega
  · have e : j2kMainHeader p info ++ (writeTileParts ts ++ [0xFF, 0xD9])
        = (j2kMainHeader p info ++ writeTileParts ts) ++ [0xFF, 0xD9] := by simp
    rw [e]
    apply drop_len_append
    simp only [List.length_append, List.length_cons, List.length_nil]
    omega

/-- TOTAL LENGTH (HTJ2K): main header + TLM (6 + 6n) + Σ Psot + 2, and the TLM entries are the tile-part lengths -/
theorem htj2k_total_length (p : J2kParams) (info : QcdInfo) (ts : List TilePart) (hht : p.htj2k = true)
    (hne : ts ≠ []) (hfit : ∀ t ∈ ts, t.Fits) (hn : 4 + ts.length * 6 < 65536) :
    ∃ bytes, j2kStream p info ts = .ok bytes ∧
      bytes = j2kMainHeader p info ++ ([0xFF, 0x55] ++ be16 (4 + ts.length * 6) ++ [0, 0x60] ++
        ts.flatMap fun t => be16 t.isot.toNat ++ be32 t.psot) ++ writeTileParts ts ++ [0xFF, 0xD9] ∧
      bytes.length = (j2kMainHeader p info).length + (6 + 6 * ts.length) + (ts.map TilePart.psot).sum + 2 := by
  refine ⟨_, ?_, rfl, ?_⟩
  · simp [j2kStream, j2kTail, hht, writeTLM_parts ts hne hfit hn, Outcome.map, mEOC]
  · simp only [List.length_append, writeTileParts_length, List.length_cons, List.length_nil]
    have : (ts.flatMap fun t => be16 t.isot.toNat ++ be32 t.psot).length = 6 * ts.length := by
      clear hne hfit hn
      induction ts with
      | nil => rfl
      | cons t r ih =>
        simp only [List.flatMap_cons, List.length_append, ih]
        simp [be16, be32]; omega
    rw [this]
    simp only [be16, List.length_cons, List.length_nil]

/-- arguments that fit the SIZ fields (Table A.9): 32-bit sizes, 16-bit component count, 7-bit depth-1 -/
structure J2kParams.Fits (p : J2kParams) : Prop where
  w : 0 < p.width ∧ p.width < 4294967296
  h : 0 < p.height ∧ p.height < 4294967296
  c : 1 ≤ p.components ∧ p.components ≤ 16384
  d : 1 ≤ p.bitDepth ∧ p.bitDepth ≤ 38

theorem replicate_flatten_len (n : Nat) (x : List Nat) : (List.replicate n x).flatten.length = n * x.length := by
  induction n with
  | zero => simp
  | succ k ih => simp [List.replicate_succ, ih]; rw [Nat.add_mul]; omega

theorem siz_layout (p : J2kParams) (hp : p.Fits) :
    ∃ comps, writeSIZ p = [0xFF, 0x51] ++ be16 (38 + 3 * p.components.toNat) ++ be16 (if p.htj2k then 0x4000 else 0) ++
      be32 p.width.toNat ++ be32 p.height.toNat ++ be32 0 ++ be32 0 ++
      be32 (u32Of (if p.tileWidth = 0 then p.width else p.tileWidth)) ++
      be32 (u32Of (if p.tileHeight = 0 then p.height else p.tileHeight)) ++ be32 0 ++ be32 0 ++
      be16 p.components.toNat ++ comps ∧
      comps.length = 3 * p.components.toNat ∧
      comps.take 3 = [(p.bitDepth - 1).toNat ||| (if p.isSigned then 0x80 else 0), 1, 1] := by
  obtain ⟨hw, hh, hc, hd⟩ := hp
  obtain ⟨C, hC⟩ : ∃ C : Nat, p.components = C := ⟨p.components.toNat, by omega⟩
  have e1 : u32Of p.width = p.width.toNat := by unfold u32Of; omega
  have e2 : u32Of p.height = p.height.toNat := by unfold u32Of; omega
  have e3 : u16Of p.components = p.components.toNat := by unfold u16Of; omega
  have e4 : byteOf (p.bitDepth - 1) = (p.bitDepth - 1).toNat := by unfold byteOf; omega
  refine ⟨(List.replicate p.components.toNat
      [if p.isSigned then byteOf (p.bitDepth - 1) ||| 0x80 else byteOf (p.bitDepth - 1), 1, 1]).flatten, ?_, ?_, ?_⟩
  rotate_left
  · exact (replicate_flatten_len p.components.toNat
      [if p.isSigned then byteOf (p.bitDepth - 1) ||| 0x80 else byteOf (p.bitDepth - 1), 1, 1]).trans (by simp; omega)
  · obtain ⟨k, hk⟩ : ∃ k, p.components.toNat = k + 1 := ⟨p.components.toNat - 1, by omega⟩
    rw [hk, List.replicate_succ]
    cases p.isSigned <;> simp [e4]
  · unfold writeSIZ j2kSegment
    simp only [mSIZ, e1, e2, e3]
    have hl : u16Of (((be16 (if p.htj2k then 0x4000 else 0) ++ be32 p.width.toNat ++ be32 p.height.toNat ++ be32 0 ++ be32 0 ++
        be32 (u32Of (if p.tileWidth = 0 then p.width else p.tileWidth)) ++
        be32 (u32Of (if p.tileHeight = 0 then p.height else p.tileHeight)) ++ be32 0 ++ be32 0 ++ be16 p.components.toNat ++
        (List.replicate p.components.toNat
          [if p.isSigned then byteOf (p.bitDepth - 1) ||| 0x80 else byteOf (p.bitDepth - 1), 1, 1]).flatten).length : Nat) + 2 : Int)
        = 38 + 3 * p.components.toNat := by
      simp only [List.length_append, replicate_flatten_len]
      simp [be16, be32]
      unfold u16Of; omega
    simp only [hl]
    simp

open StrictJ2k in
def sotOf (t : TilePart) : Sot := { isot := t.isot.toNat, psot := t.psot, tpsot := byteOf t.tpsot, tnsot := byteOf t.tnsot }

open StrictJ2k in
theorem tileWalk_parts (ts : List TilePart) : ∀ (fuel : Nat), (∀ t ∈ ts, t.Fits) → ts.length < fuel →
    tileWalk fuel (writeTileParts ts ++ [0xFF, 0xD9]) = some (ts.map sotOf) := by
  induction ts with
  | nil =>
    intro fuel _ hf
    obtain ⟨f, rfl⟩ : ∃ f, fuel = f + 1 := ⟨fuel - 1, by simp at hf; omega⟩
    simp [tileWalk, writeTileParts]
  | cons t r ih =>
    intro fuel hfit hf
    obtain ⟨f, rfl⟩ : ∃ f, fuel = f + 1 := ⟨fuel - 1, by simp at hf; omega⟩
    have ht := hfit t (by simp)
    obtain ⟨tail, htail⟩ := tilePart_head t ht
    have hlen := writeTilePart_length t
    have e : writeTileParts (t :: r) ++ [0xFF, 0xD9] = writeTilePart t ++ (writeTileParts r ++ [0xFF, 0xD9]) := by
      simp [writeTileParts]
    have hd : (writeTilePart t ++ (writeTileParts r ++ [0xFF, 0xD9])).drop t.psot = writeTileParts r ++ [0xFF, 0xD9] :=
      drop_len_append _ _ _ hlen
    have hl : t.psot ≤ (writeTilePart t ++ (writeTileParts r ++ [0xFF, 0xD9])).length := by
      simp only [List.length_append, hlen]; omega
    have hps : 14 ≤ t.psot := by simp [TilePart.psot]
    have hp32 := be32_decode t.psot ht.2.2
    have hi16 := be16_decode t.isot.toNat (by have := ht.2.1; omega)
    rw [e, tileWalk]
    have hl12 : 12 ≤ (writeTilePart t ++ (writeTileParts r ++ [0xFF, 0xD9])).length := by omega
    rw [htail] at hd hl hl12 ⊢
    simp only [List.cons_append, List.nil_append] at hd hl hl12 ⊢
    simp [b16, b32, hp32, hi16, sotOf]
    simp only [List.length_cons, List.length_append, List.length_nil] at hl
    refine ⟨⟨hps, by omega⟩, ?_⟩
    rw [hd]
    exact ih f (fun x hx => hfit x (by simp [hx])) (by simp at hf; omega)

/-! ## TPsot / TNsot consistency (A.4.2), general -/

section
open StrictJ2k
/-- blocks of tile-part headers, block `i` carrying tile index `i` only: filtering by tile index returns the block -/
theorem filter_blocks (G : Nat → List Sot) (hG : ∀ i, ∀ s ∈ G i, s.isot = i) (t : Nat) : ∀ n : Nat,
    ((List.range n).flatMap G).filter (fun s => decide (s.isot = t)) = if t < n then G t else [] := by
  intro n
  induction n with
  | zero => simp
  | succ k ih =>
    rw [List.range_succ, List.flatMap_append, List.filter_append, ih]
    simp only [List.flatMap_cons, List.flatMap_nil, List.append_nil]
    by_cases h1 : t < k
    · have : (G k).filter (fun s => decide (s.isot = t)) = [] := by
        rw [List.filter_eq_nil_iff]; intro a ha; have := hG k a ha; simp; omega
      simp [h1, this, show t < k + 1 by omega]
    · by_cases h2 : t = k
      · subst h2
        have : (G t).filter (fun s => decide (s.isot = t)) = G t := by
          rw [List.filter_eq_self]; intro a ha; simp [hG t a ha]
        simp [this]
      · have : (G k).filter (fun s => decide (s.isot = t)) = [] := by
          rw [List.filter_eq_nil_iff]; intro a ha; have := hG k a ha; simp; omega
        simp [h1, this, show ¬ t < k + 1 by omega]

/-- GENERAL TPsot/TNsot CONSISTENCY: any stream whose tile-part headers come in blocks, block `i` non-empty, all with
    Isot = i, numbered TPsot = 0,1,2,… and all declaring TNsot = the block's length, passes the A.4.2 check — for
    any number of tiles and any block lengths -/
theorem partsConsistent_blocks (n : Nat) (G : Nat → List Sot) (hG : ∀ i, ∀ s ∈ G i, s.isot = i)
    (hne : ∀ i, i < n → G i ≠ [])
    (hnum : ∀ i, i < n → ∀ (k : Nat) (s : Sot), (G i)[k]? = some s → s.tpsot = k ∧ s.tnsot = (G i).length) :
    partsConsistent n ((List.range n).flatMap G) = true := by
  unfold partsConsistent
  rw [List.all_eq_true]
  intro t ht
  have htn : t < n := by simpa using ht
  simp only [filter_blocks G hG t n, htn, if_true]
  simp only [Bool.and_eq_true, Bool.not_eq_true', List.all_eq_true, decide_eq_true_eq]
  refine ⟨⟨?_, ?_⟩, ?_⟩
  · cases h : G t with
    | nil => exact absurd h (hne t htn)
    | cons a r => rfl
  · rintro ⟨s, k⟩ hm
    rw [List.mk_mem_zipIdx_iff_getElem?] at hm
    obtain ⟨h1, h2⟩ := hnum t htn k s hm
    simp [h1, h2]
  · intro s hs
    simp only [List.mem_flatMap, List.mem_range] at hs
    obtain ⟨i, hi, hsi⟩ := hs
    have := hG i s hsi
    omega

/-- the tile-part headers `writeTiles` (and the global rate-distortion path) emit: one part `TPsot = 0, TNsot = 1` per tile -/
theorem classic_parts_consistent (n : Nat) (body : Nat → List Nat) :
    partsConsistent n ((List.range n).flatMap fun i => [sotOf (classicTilePart i [] (body i))]) = true := by
  apply partsConsistent_blocks
  · intro i s hs
    simp only [List.mem_singleton] at hs
    subst hs
    simp [sotOf, classicTilePart]
  · intro i _; simp
  · intro i _ k s hk
    cases k with
    | zero =>
      simp only [List.getElem?_cons_zero, Option.some.injEq] at hk
      subst hk
      exact ⟨by simp [sotOf, classicTilePart, byteOf], by simp [sotOf, classicTilePart, byteOf]⟩
    | succ j => simp at hk

/-- the tile-part headers `writeHTJ2KTileParts` emits: `NumLevels + 1` parts per tile, `TPsot = k`, `TNsot = NumLevels + 1` -/
theorem ht_parts_consistent (n L : Nat) (hL : L + 1 ≤ 255) (bodies : Nat → List (List Nat))
    (hb : ∀ i, (bodies i).length = L + 1) :
    partsConsistent n ((List.range n).flatMap fun i => (htTileParts i (L : Int) [] (bodies i)).map sotOf) = true := by
  apply partsConsistent_blocks
  · intro i s hs
    simp only [htTileParts, List.mem_map, List.mem_mapIdx] at hs
    obtain ⟨t, ⟨k, hk, rfl⟩, rfl⟩ := hs
    simp [sotOf]
  · intro i _ h
    have := congrArg List.length h
    simp [htTileParts, hb] at this
  · intro i _ k s hk
    simp only [htTileParts, List.getElem?_map, List.getElem?_mapIdx] at hk
    have hlen : k < (bodies i).length := by
      cases hh : (bodies i)[k]? with
      | none => simp [hh] at hk
      | some b => exact (List.getElem?_eq_some_iff.1 hh).1
    cases hh : (bodies i)[k]? with
    | none => simp [hh] at hk
    | some b =>
      simp only [hh, Option.map_some, Option.some.injEq] at hk
      subst hk
      rw [hb] at hlen
      simp only [sotOf, htTileParts, List.length_map, List.length_mapIdx, hb]
      refine ⟨?_, ?_⟩
      · rw [byteOf_natCast]; omega
      · have : ((L : Int) + 1) = ((L + 1 : Nat) : Int) := by omega
        rw [this, byteOf_natCast]; omega

end

end JpegC
