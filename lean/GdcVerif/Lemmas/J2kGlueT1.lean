import GdcVerif.Lemmas.J2kGlue
import GdcVerif.Lemmas.T1Lock
import GdcVerif.Lemmas.T1Model
import GdcVerif.Lemmas.T1Termall
import GdcVerif.Lemmas.T1PipeFinal
import GdcVerif.Lemmas.T1Side
/-! T1 hand-over around the packets: encodeCodeBlock → packet header → estimateMaxBitplane → DecodeWithBitplane -/
namespace J2kGlue
open J2k J2kPH T1

theorem estimate_nonzero (mb nb : Nat) : estimateMaxBitplane (3 * (mb + 1) - 2) (nb - (mb + 1)) nb = ((mb + 1 : Nat) : Int) := by
  unfold estimateMaxBitplane
  have h1 : (3 * (mb + 1) - 2 + 2) / 3 = mb + 1 := by omega
  have h0 : 3 * (mb + 1) - 2 > 0 := by omega
  simp only [h0, h1, if_true]
  have h2 : ¬ (mb + 1 ≤ 0) := by omega
  simp only [h2, if_false]
  by_cases hq : nb > 0 ∧ (nb : Int) - ((nb - (mb + 1) : Nat) : Int) > 0
  · simp only [hq, and_self, if_true]
    repeat' split
    all_goals omega
  · simp only [hq, if_false]
    repeat' split
    all_goals omega

theorem estimate_zero (nb : Nat) : estimateMaxBitplane 1 nb nb = 1 := by
  unfold estimateMaxBitplane
  simp

theorem getD_bound25 (c : List Int) (k : Nat) (hc : ∀ v ∈ c, v.natAbs < 2 ^ 25) : (c.getD k 0).natAbs < 2 ^ 25 := by
  rw [List.getD_eq_getElem?_getD]
  by_cases hk : k < c.length
  · rw [List.getElem?_eq_getElem hk]; exact hc _ (List.getElem_mem hk)
  · rw [List.getElem?_eq_none (by omega)]; decide

theorem padBlock_bound25 (w h : Nat) (c : List Int) (hc : ∀ v ∈ c, v.natAbs < 2 ^ 25) :
    ∀ j, (gi (padBlock w h c) j).natAbs < 2 ^ 25 := by
  unfold padBlock
  simp only []
  apply list_foldl_inv (fun (a : Array Int) => ∀ j, (gi a j).natAbs < 2 ^ 25)
  · intro a y ha
    apply list_foldl_inv (fun (a : Array Int) => ∀ j, (gi a j).natAbs < 2 ^ 25) _ _ _ _ ha
    intro a x ha j
    by_cases hi : idxOf w x y < a.size
    · rw [gi_set _ _ _ _ hi]
      split
      · exact getD_bound25 c _ hc
      · exact ha j
    · rw [show a.setIfInBounds (idxOf w x y) (c.getD (y * w + x) 0) = a from by
        apply Array.ext
        · simp
        · intro i h1 h2; rw [Array.getElem_setIfInBounds]; rw [if_neg (by omega)]]
      exact ha j
  · intro j
    unfold gi
    rw [Array.getElem?_replicate]
    split <;> decide

/-- the top bit-plane of a block bounded by 2^k is below k -/
theorem findMaxBitplane_lt (V : Array Int) (k mb : Nat) (hb : ∀ j, (gi V j).natAbs < 2 ^ k)
    (h : findMaxBitplane V = some mb) : mb < k := by
  unfold findMaxBitplane at h
  simp only [] at h
  split at h
  · exact absurd h (by simp)
  · rename_i hm
    injection h with h
    have hlt : V.foldl (fun m v => max m v.natAbs) 0 < 2 ^ k := by
      rw [← Array.foldl_toList]
      have key : ∀ (l : List Int) (m0 : Nat), m0 < 2 ^ k → (∀ v ∈ l, v.natAbs < 2 ^ k) →
          l.foldl (fun m v => max m v.natAbs) m0 < 2 ^ k := by
        intro l
        induction l with
        | nil => intro m0 h0 _; exact h0
        | cons a l ih =>
          intro m0 h0 hl
          simp only [List.foldl_cons]
          apply ih
          · have := hl a (by simp); omega
          · intro v hv; exact hl v (by simp [hv])
      apply key _ 0 (Nat.two_pow_pos k)
      intro v hv
      obtain ⟨j, hj, rfl⟩ := List.getElem_of_mem hv
      have hj' : j < V.size := by simpa using hj
      have := hb j
      rw [gi_get V j hj'] at this
      simpa using this
    rw [← h]
    exact (Nat.log2_lt hm).mpr hlt

/-- admissible block.  Named hypothesis (not proved): `bytes` — the T1 output of a block fits decodePacket's
    `maxSegmentLength` (only the crude bound `C20.mq_len_bound` exists).  Side conditions: length, `|c| < 2^25`
    (Go shifts the coefficient left by 6 in int32), `bandNumbps < 32` (zero-bit-plane tag tree is read with
    threshold 32).  The all-zero block is covered by `C20.t1_pipeline_zero_block`. -/
structure BlkOk (b : Blk) : Prop where
  len : b.coeffs.length = b.w * b.h
  bnd : ∀ c ∈ b.coeffs, c.natAbs < 2 ^ 25
  nb32 : b.nb < 32
  bytes : ∀ np bs, encodeBlock b.w b.h b.orient 0 b.coeffs np = .ok bs → bs.length ≤ 65535

theorem decodeBlockOJ_ok_ne (w h o s np : Nat) (mb : Int) (bytes : List Nat) (out : List Int)
    (h : decodeBlockOJ w h o s np mb bytes = .ok out) : bytes ≠ [] := by
  intro hb
  subst hb
  unfold decodeBlockOJ at h
  simp at h

/-- the top plane of the shifted block -/
theorem findMax_shift6 (w h : Nat) (cs : List Int) :
    findMaxBitplane (padBlock w h (shift6 cs)) = (findMaxBitplane (padBlock w h cs)).map (· + 6) := by
  unfold shift6
  rw [padBlock_map w h cs _ (by simp), findMax_scale]

/-- the real encoder call equals the plain model's (C20 `t1_pipeline_encode`) -/
theorem encodeF_shift6 (w h o : Nat) (cs : List Int) (np : Nat) :
    encodeBlockF 6 w h o 0 (shift6 cs) np = encodeBlock w h o 0 cs np :=
  encodeBlockF_scale 6 w h o 0 cs np (by decide) (by decide) (by decide) (by decide) (by decide)

/-- ONE BLOCK through encodeCodeBlock (shift by 6, T1 with 6 fractional bits), the packet header fields,
    estimateMaxBitplane and decodeCodeBlock (OpenJPEG reconstruction, then halving) -/
theorem blk_roundtrip (b : Blk) (hok : BlkOk b) :
    ∃ np zbp data, t1Encode b = some (np, zbp, data) ∧ data ≠ [] ∧ 1 ≤ np ∧ np ≤ 164 ∧ zbp < 32 ∧
      data.length ≤ 65535 ∧ t1Decode b.w b.h b.orient b.nb ⟨true, np, data.length, zbp⟩ data = some b.coeffs := by
  have hb29 : ∀ c ∈ b.coeffs, c.natAbs < 536870912 := fun c hc => by have := hok.bnd c hc; omega
  cases hmb : findMaxBitplane (padBlock b.w b.h b.coeffs) with
  | none =>
    have henc := (encode_zero_bytes 6 b.w b.h b.orient 0 b.coeffs 1 hok.len hmb).2
    have hdec := decodeBlockOJ_zero b.w b.h b.orient 0 1 (by decide)
    have hzero := zero_of_nomax b.w b.h b.coeffs hok.len hmb
    refine ⟨1, b.nb, [255, 127], ?_, by simp, by omega, by omega, hok.nb32, by simp, ?_⟩
    · unfold t1Encode cblkNumbps passLayout
      rw [findMax_shift6, hmb]
      simp [encodeF_shift6, henc]
    · unfold t1Decode
      simp only [estimate_zero]
      have h31 : ¬ ((1 : Int) ≥ 31) := by decide
      simp only [h31, if_false]
      have h1 : ((1 : Nat) : Int) = 1 := rfl
      rw [h1] at hdec
      simp [hdec, halveT, hzero]
  | some mb =>
    obtain ⟨bytes, out, henc, hdec, hout⟩ := t1_roundtrip_oj b.w b.h b.orient mb b.coeffs hok.len hb29 hmb
    have hne := decodeBlockOJ_ok_ne _ _ _ _ _ _ _ _ hdec
    have hmb25 : mb < 25 := findMaxBitplane_lt _ 25 mb (padBlock_bound25 b.w b.h b.coeffs hok.bnd) hmb
    have hnp : 3 * (mb + 1) - 2 = 3 * mb + 1 := by omega
    refine ⟨3 * (mb + 1) - 2, b.nb - (mb + 1), bytes, ?_, hne, by omega, by omega, by have := hok.nb32; omega,
      hok.bytes _ bytes henc, ?_⟩
    · unfold t1Encode cblkNumbps passLayout
      rw [findMax_shift6, hmb]
      have e1 : mb + 6 + 1 - 6 = mb + 1 := by omega
      have : mb + 1 > 0 := by omega
      simp only [Option.map_some, e1, this, if_true, hnp, encodeF_shift6, henc]
    · unfold t1Decode
      have he : ¬ (bytes.isEmpty = true) := by
        cases bytes with
        | nil => exact absurd rfl hne
        | cons a t => simp
      simp only [estimate_nonzero, he]
      have h31 : ¬ (((mb + 1 : Nat) : Int) ≥ 31) := by omega
      simp only [h31, if_false]
      have hneg : ¬ (((mb + 1 : Nat) : Int) < 0) := by omega
      simp only [hneg]
      rw [hnp, hdec]
      simp [hout]

/-! ### lifting over bands, packets and the tile -/

theorem mapM_all2 {α β : Type} (f : α → Option β) (R : α → β → Prop) : ∀ (l : List α),
    (∀ a ∈ l, ∃ b, f a = some b ∧ R a b) → ∃ bs, l.mapM f = some bs ∧ All2 R l bs := by
  intro l
  induction l with
  | nil => intro _; exact ⟨[], rfl, trivial⟩
  | cons a l ih =>
    intro h
    obtain ⟨b, hb, hr⟩ := h a (by simp)
    obtain ⟨bs, hbs, hrs⟩ := ih (fun a' ha' => h a' (by simp [ha']))
    exact ⟨b :: bs, by simp [List.mapM_cons, hb, hbs], hr, hrs⟩

theorem mapM_cons_some {α β : Type} (f : α → Option β) (a : α) (l : List α) (b : β) (bs : List β)
    (h1 : f a = some b) (h2 : l.mapM f = some bs) : (a :: l).mapM f = some (b :: bs) := by
  simp [List.mapM_cons, h1, h2]

theorem all2_map_eq {α β γ : Type} (R : α → β → Prop) (f : α → γ) (g : β → γ) (h : ∀ a b, R a b → f a = g b) :
    ∀ (l : List α) (m : List β), All2 R l m → l.map f = m.map g := by
  intro l
  induction l with
  | nil => intro m hm; cases m with
    | nil => rfl
    | cons _ _ => exact absurd hm (by simp [All2])
  | cons a l ih => intro m hm; cases m with
    | nil => exact absurd hm (by simp [All2])
    | cons b m => simp only [List.map_cons]; rw [h a b hm.1, ih m hm.2]

theorem all2_mem_right {α β : Type} (R : α → β → Prop) : ∀ (l : List α) (m : List β), All2 R l m →
    ∀ b ∈ m, ∃ a ∈ l, R a b := by
  intro l
  induction l with
  | nil => intro m hm b hb; cases m with
    | nil => exact absurd hb (by simp)
    | cons _ _ => exact absurd hm (by simp [All2])
  | cons a l ih => intro m hm b hb; cases m with
    | nil => exact absurd hb (by simp)
    | cons b0 m =>
      rcases List.mem_cons.mp hb with rfl | hb'
      · exact ⟨a, by simp, hm.1⟩
      · obtain ⟨a', ha', hr⟩ := ih m hm.2 b hb'
        exact ⟨a', by simp [ha'], hr⟩

/-- what `blk_roundtrip` says of a block and its coded form -/
def Coded (pb : PBlk) (cb : CB) : Prop :=
  cb.x = pb.x ∧ cb.y = pb.y ∧ cb.data ≠ [] ∧ 1 ≤ cb.np ∧ cb.np ≤ 164 ∧ cb.zbp < 32 ∧ cb.data.length ≤ 65535 ∧
    t1Decode pb.blk.w pb.blk.h pb.blk.orient pb.blk.nb (CB.expected cb).1 (CB.expected cb).2 = some pb.blk.coeffs

theorem codeBlk_coded (pb : PBlk) (hok : BlkOk pb.blk) : ∃ cb, codeBlk pb = some cb ∧ Coded pb cb := by
  obtain ⟨np, zbp, data, he, hne, h1, h2, h3, h4, hd⟩ := blk_roundtrip pb.blk hok
  refine ⟨⟨pb.x, pb.y, zbp, np, data⟩, by simp [codeBlk, he], rfl, rfl, hne, h1, h2, h3, h4, ?_⟩
  have : data.isEmpty = false := by cases data with
    | nil => exact absurd rfl hne
    | cons _ _ => rfl
  simp only [CB.expected, this, Bool.false_eq_true, if_false]
  exact hd

def BandCoded (b : PBand) (c : Band) : Prop := c.w = b.w ∧ c.h = b.h ∧ All2 Coded b.blks c.cbs

theorem codeBand_coded (b : PBand) (hok : ∀ pb ∈ b.blks, BlkOk pb.blk) : ∃ c, codeBand b = some c ∧ BandCoded b c := by
  obtain ⟨cbs, hm, ha⟩ := mapM_all2 codeBlk Coded b.blks (fun pb hpb => codeBlk_coded pb (hok pb hpb))
  exact ⟨⟨b.w, b.h, cbs⟩, by simp [codeBand, hm], rfl, rfl, ha⟩

theorem decodeBand_coded : ∀ (l : List PBlk) (cbs : List CB), All2 Coded l cbs →
    ((l.map PBlk.geo).zip (cbs.map CB.expected)).mapM (fun q => t1Decode q.1.w q.1.h q.1.orient q.1.nb q.2.1 q.2.2) =
      some (l.map fun pb => pb.blk.coeffs) := by
  intro l
  induction l with
  | nil => intro cbs h; cases cbs with
    | nil => rfl
    | cons _ _ => exact absurd h (by simp [All2])
  | cons pb l ih => intro cbs h; cases cbs with
    | nil => exact absurd h (by simp [All2])
    | cons cb cbs =>
      have hd := h.1.2.2.2.2.2.2.2
      simp only [List.map_cons, List.zip_cons_cons]
      exact mapM_cons_some _ _ _ _ _ hd (ih cbs h.2)

theorem spec_coded (b : PBand) (c : Band) (h : BandCoded b c) : Band.spec c = BandGeo.spec (PBand.geo b) := by
  obtain ⟨hw, hh, ha⟩ := h
  unfold Band.spec BandGeo.spec PBand.geo
  simp only [hw, hh, List.map_map]
  congr 1
  exact (all2_map_eq Coded (fun pb => (PBlk.geo pb).x |> fun x => (x, (PBlk.geo pb).y)) (fun cb => (cb.x, cb.y))
    (fun pb cb hc => by simp [PBlk.geo, hc.1, hc.2.1]) b.blks c.cbs ha).symm

/-- admissible packet of blocks -/
def PPacketOk (p : PPacket) : Prop :=
  (∃ b ∈ p, b.blks ≠ []) ∧ ∀ b ∈ p, (b.blks.map fun pb => (pb.x, pb.y)).Nodup ∧ ∀ pb ∈ b.blks, BlkOk pb.blk

theorem packetOk_coded (p : PPacket) (q : Packet) (hp : PPacketOk p) (ha : All2 BandCoded p q) : PacketOk q := by
  obtain ⟨⟨b0, hb0, hne0⟩, hall⟩ := hp
  constructor
  · -- some band has blocks
    have key : ∀ (p : PPacket) (q : Packet), All2 BandCoded p q → ∀ b ∈ p, b.blks ≠ [] → ∃ c ∈ q, c.cbs ≠ [] := by
      intro p
      induction p with
      | nil => intro q _ b hb; exact absurd hb (by simp)
      | cons a p ih => intro q hq b hb hne; cases q with
        | nil => exact absurd hq (by simp [All2])
        | cons c q =>
          rcases List.mem_cons.mp hb with rfl | hb'
          · refine ⟨c, by simp, ?_⟩
            intro hc
            have h3 := hq.1.2.2
            rw [hc] at h3
            cases hbl : b.blks with
            | nil => exact hne hbl
            | cons _ _ => rw [hbl] at h3; exact absurd h3 (by simp [All2])
          · obtain ⟨c', hc', hn'⟩ := ih q hq.2 b hb' hne
            exact ⟨c', by simp [hc'], hn'⟩
    exact key p q ha b0 hb0 hne0
  · intro c hc
    obtain ⟨b, hb, hbc⟩ := all2_mem_right BandCoded p q ha c hc
    obtain ⟨_, _, hcs⟩ := hbc
    constructor
    · rw [← all2_map_eq Coded (fun pb => (pb.x, pb.y)) (fun cb => (cb.x, cb.y))
        (fun pb cb h => by rw [h.1, h.2.1]) b.blks c.cbs hcs]
      exact (hall b hb).1
    · intro cb hcb
      obtain ⟨pb, _, hcd⟩ := all2_mem_right Coded b.blks c.cbs hcs cb hcb
      exact ⟨hcd.2.2.2.2.2.1, fun _ => ⟨hcd.2.2.2.1, hcd.2.2.2.2.1, hcd.2.2.2.2.2.2.1⟩⟩

theorem codePacket_coded (p : PPacket) (hp : PPacketOk p) : ∃ q, codePacket p = some q ∧ All2 BandCoded p q :=
  mapM_all2 codeBand BandCoded p (fun b hb => codeBand_coded b (hp.2 b hb).2)

theorem decodePacket_coded : ∀ (p : PPacket) (q : Packet), All2 BandCoded p q →
    ((p.map PBand.geo).zip (Packet.expected q)).mapM (fun z => decodeBand z.1 z.2) =
      some (p.map fun b => b.blks.map fun pb => pb.blk.coeffs) := by
  intro p
  induction p with
  | nil => intro q h; cases q with
    | nil => rfl
    | cons _ _ => exact absurd h (by simp [All2])
  | cons b p ih => intro q h; cases q with
    | nil => exact absurd h (by simp [All2])
    | cons c q =>
      have h1 := decodeBand_coded b.blks c.cbs h.1.2.2
      have h2 := ih q h.2
      unfold Packet.expected at h2 ⊢
      simp only [List.map_cons, List.zip_cons_cons]
      exact mapM_cons_some _ _ _ _ _ h1 h2

theorem specs_coded : ∀ (p : PPacket) (q : Packet), All2 BandCoded p q →
    q.map Band.spec = (p.map PBand.geo).map BandGeo.spec := by
  intro p
  induction p with
  | nil => intro q h; cases q with
    | nil => rfl
    | cons _ _ => exact absurd h (by simp [All2])
  | cons b p ih => intro q h; cases q with
    | nil => exact absurd h (by simp [All2])
    | cons c q => simp only [List.map_cons]; rw [spec_coded b c h.1, ih q h.2]

def PacketCoded (p : PPacket) (q : Packet) : Prop := All2 BandCoded p q ∧ PacketOk q

/-- T2 + T1 FOR A TILE: the coefficients of every code-block entering T1 on the encoder are the coefficients leaving
    T1 on the decoder — through encodeCodeBlock's pass/zero-bit-plane layout, the packet headers (tag trees, pass
    count and length codes, bit stuffing), the concatenated bodies, the decoder's cut by decoded lengths and
    estimateMaxBitplane.  Single layer, code-block style 0, any packet sequence both sides agree on. -/
theorem tile_blocks_roundtrip (ps : List PPacket) (tail : List Nat) (hok : ∀ p ∈ ps, PPacketOk p) :
    ∃ bytes, encodeTileBody ps = some bytes ∧
      decodeTileBody (ps.map fun p => p.map PBand.geo) (bytes ++ tail) =
        some (ps.map fun p => p.map fun b => b.blks.map fun pb => pb.blk.coeffs) := by
  obtain ⟨qs, hm, ha⟩ := mapM_all2 codePacket PacketCoded ps (fun p hp => by
    obtain ⟨q, hq, hqa⟩ := codePacket_coded p (hok p hp)
    exact ⟨q, hq, hqa, packetOk_coded p q (hok p hp) hqa⟩)
  refine ⟨encTile qs, by simp [encodeTileBody, hm], ?_⟩
  have hspec : (ps.map fun p => p.map PBand.geo).map (fun g => g.map BandGeo.spec) = qs.map fun q => q.map Band.spec := by
    rw [List.map_map]
    exact all2_map_eq PacketCoded _ _ (fun p q h => (specs_coded p q h.1).symm) ps qs ha
  have hqok : ∀ q ∈ qs, PacketOk q := fun q hq => by
    obtain ⟨_, _, h⟩ := all2_mem_right PacketCoded ps qs ha q hq; exact h.2
  unfold decodeTileBody
  rw [hspec, decTile_encTile qs tail hqok]
  simp only []
  -- the blocks of every packet
  have key : ∀ (ps : List PPacket) (qs : List Packet), All2 PacketCoded ps qs →
      ((ps.map fun p => p.map PBand.geo).zip (qs.map fun q => some (Packet.expected q))).mapM
        (fun z => decodePacketBlocks z.1 z.2) = some (ps.map fun p => p.map fun b => b.blks.map fun pb => pb.blk.coeffs) := by
    intro ps
    induction ps with
    | nil => intro qs h; cases qs with
      | nil => rfl
      | cons _ _ => exact absurd h (by simp [All2])
    | cons p ps ih => intro qs h; cases qs with
      | nil => exact absurd h (by simp [All2])
      | cons q qs =>
        have h1 := decodePacket_coded p q h.1.1
        simp only [List.map_cons, List.zip_cons_cons]
        exact mapM_cons_some _ _ _ _ _ h1 (ih qs h.2)
  exact key ps qs ha

end J2kGlue
