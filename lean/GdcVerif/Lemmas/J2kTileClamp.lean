import GdcVerif.Gen.J2kTileClamp
/-!
  C09: the tile rectangle `t2.NewTileDecoder` derives from the SIZ fields — theorems over the GENERATED
  kernel `Gen.J2kTileClamp.NewTileDecoder` (go2lean translation of the clamps as they are in the source
  now; uint32 fields read as `Int`, no wrap-around: the parser's SIZ validation keeps the sums below 2^33).
  Every TileDecoder buffer (coefficients, samples, sub-band assembly) is sized from this rectangle.
-/
namespace Gen.J2kTileClamp

/-- the tile rectangle lies inside the image area of the reference grid: left/top edges are clamped
    to the IMAGE origin (XOsiz, YOsiz), right/bottom edges to the image extent (Xsiz, Ysiz) — whatever the
    SIZ fields and the tile index are -/
theorem tile_inside_image (tile : Tile) (siz : SIZSegment) (ht : Bool) :
    let td := NewTileDecoder tile siz ht
    siz.XOsiz ≤ td.tileX0 ∧ siz.YOsiz ≤ td.tileY0 ∧ td.tileX1 ≤ siz.Xsiz ∧ td.tileY1 ≤ siz.Ysiz := by
  simp only [NewTileDecoder]
  refine ⟨?_, ?_, ?_, ?_⟩ <;> (repeat' split) <;> simp_all <;> omega

/-- … and inside its cell of the tile grid: at most XTsiz × YTsiz -/
theorem tile_within_cell (tile : Tile) (siz : SIZSegment) (ht : Bool) :
    let td := NewTileDecoder tile siz ht
    td.tileX1 - td.tileX0 ≤ siz.XTsiz ∧ td.tileY1 - td.tileY0 ≤ siz.YTsiz := by
  simp only [NewTileDecoder]
  refine ⟨?_, ?_⟩ <;> (repeat' split) <;> simp_all <;> omega

/-- hence the tile extent is bounded by the DECLARED image extent, independently of where the image
    sits on the reference grid (XOsiz, YOsiz) and of the tile origin: the header-derived size of every
    TileDecoder buffer is at most (Xsiz − XOsiz) × (Ysiz − YOsiz) per component -/
theorem tile_extent_le_image (tile : Tile) (siz : SIZSegment) (ht : Bool) :
    let td := NewTileDecoder tile siz ht
    td.tileX1 - td.tileX0 ≤ siz.Xsiz - siz.XOsiz ∧ td.tileY1 - td.tileY0 ≤ siz.Ysiz - siz.YOsiz := by
  have h := tile_inside_image tile siz ht
  simp only at h ⊢
  omega

/-- the area bound (for a non-degenerate tile) -/
theorem tile_area_le_image (tile : Tile) (siz : SIZSegment) (ht : Bool) :
    let td := NewTileDecoder tile siz ht
    0 ≤ td.tileX1 - td.tileX0 → 0 ≤ td.tileY1 - td.tileY0 →
    (td.tileX1 - td.tileX0) * (td.tileY1 - td.tileY0) ≤ (siz.Xsiz - siz.XOsiz) * (siz.Ysiz - siz.YOsiz) := by
  have h := tile_extent_le_image tile siz ht
  simp only at h ⊢
  intro hx hy
  exact Int.mul_le_mul h.1 h.2 hy (by omega)

/-- `ceilDiv` of a non-negative coordinate by a positive step, between its Euclidean bounds -/
theorem ceilDiv_bounds (a d : Int) (ha : 0 ≤ a) (hd : 1 ≤ d) :
    a ≤ d * ceilDiv a d ∧ d * ceilDiv a d < a + d := by
  have hnd : ¬ d ≤ 0 := by omega
  simp only [ceilDiv, hnd, ha, decide_true, decide_false, if_true, if_false, Bool.false_eq_true]
  rw [Int.tdiv_eq_ediv_of_nonneg (by omega)]
  have h1 := Int.mul_ediv_add_emod (a + d - 1) d
  have h2 := Int.emod_nonneg (a + d - 1) (show d ≠ 0 by omega)
  have h3 := Int.emod_lt_of_pos (a + d - 1) (show 0 < d by omega)
  constructor <;> omega

/-- sub-sampled extent: `ceilDiv hi d − ceilDiv lo d ≤ hi − lo` for 0 ≤ lo ≤ hi, d ≥ 1 -/
theorem ceilDiv_extent_le (lo hi d : Int) (h0 : 0 ≤ lo) (h : lo ≤ hi) (hd : 1 ≤ d) :
    ceilDiv hi d - ceilDiv lo d ≤ hi - lo := by
  obtain ⟨l1, l2⟩ := ceilDiv_bounds lo d h0 hd
  obtain ⟨u1, u2⟩ := ceilDiv_bounds hi d (by omega) hd
  generalize ceilDiv hi d = qh at *
  generalize ceilDiv lo d = ql at *
  by_cases hk : qh - ql ≤ 0
  · omega
  · have hm : 1 * (qh - ql - 1) ≤ d * (qh - ql - 1) := Int.mul_le_mul_of_nonneg_right hd (by omega)
    have he : d * (qh - ql - 1) = d * qh - d * ql - d := by
      rw [Int.mul_sub, Int.mul_sub, Int.mul_one]
    omega

/-- the component rectangle of `TileDecoder.Decode` (tile_decoder.go: compX0 … compWidth, with the
    `dx ≤ 0 → 1` default and the `< 0 → 0` floor), over the generated `ceilDiv` -/
def compExtent (lo hi d : Int) : Int :=
  let d := if d ≤ 0 then 1 else d
  let w := ceilDiv hi d - ceilDiv lo d
  if w < 0 then 0 else w

theorem compExtent_le (lo hi d : Int) (h0 : 0 ≤ lo) (h : lo ≤ hi) : compExtent lo hi d ≤ hi - lo := by
  simp only [compExtent]
  have hd : 1 ≤ (if d ≤ 0 then 1 else d) := by split <;> omega
  generalize (if d ≤ 0 then 1 else d) = d' at hd ⊢
  have := ceilDiv_extent_le lo hi d' h0 h hd
  split <;> omega

/-- C09 allocation bound of the tile decoder as far as it is header-derived: for a tile whose clamped
    rectangle is non-degenerate and an image origin on the non-negative reference grid, every component's
    `comp.width × comp.height` — the length of `comp.coefficients`, `comp.samples` and `decodedData[i]` —
    is at most (Xsiz − XOsiz) × (Ysiz − YOsiz) and at most XTsiz × YTsiz, for every sub-sampling pair -/
theorem comp_area_le (tile : Tile) (siz : SIZSegment) (ht : Bool) (dx dy : Int)
    (hox : 0 ≤ siz.XOsiz) (hoy : 0 ≤ siz.YOsiz) :
    let td := NewTileDecoder tile siz ht
    td.tileX0 ≤ td.tileX1 → td.tileY0 ≤ td.tileY1 →
    compExtent td.tileX0 td.tileX1 dx * compExtent td.tileY0 td.tileY1 dy
        ≤ (siz.Xsiz - siz.XOsiz) * (siz.Ysiz - siz.YOsiz) ∧
    compExtent td.tileX0 td.tileX1 dx * compExtent td.tileY0 td.tileY1 dy ≤ siz.XTsiz * siz.YTsiz := by
  have hi := tile_inside_image tile siz ht
  have hc := tile_within_cell tile siz ht
  simp only at hi hc ⊢
  intro hx hy
  have ex := compExtent_le _ _ dx (by omega) hx
  have ey := compExtent_le _ _ dy (by omega) hy
  have nx : 0 ≤ compExtent (NewTileDecoder tile siz ht).tileX0 (NewTileDecoder tile siz ht).tileX1 dx := by
    simp only [compExtent]; split <;> omega
  have ny : 0 ≤ compExtent (NewTileDecoder tile siz ht).tileY0 (NewTileDecoder tile siz ht).tileY1 dy := by
    simp only [compExtent]; split <;> omega
  exact ⟨Int.mul_le_mul (by omega) (by omega) ny (by omega), Int.mul_le_mul (by omega) (by omega) ny (by omega)⟩

/-- non-vacuity / regression geometry of the seeded clamp change: a 16×64 image at XOsiz = 2^22 in one
    tile anchored at the grid origin decodes a 16×64 rectangle, not a 4194320×64 one -/
example :
    let td := NewTileDecoder ⟨0⟩ { Rsiz := 0, Xsiz := 4194320, Ysiz := 64, XOsiz := 4194304, YOsiz := 0, XTsiz := 4194320, YTsiz := 64, XTOsiz := 0, YTOsiz := 0, Csiz := 1 } false
    (td.tileX0, td.tileY0, td.tileX1, td.tileY1) = (4194304, 0, 4194320, 64) ∧
    compExtent td.tileX0 td.tileX1 1 * compExtent td.tileY0 td.tileY1 1 = 1024 := by decide

end Gen.J2kTileClamp
