import GdcVerif.Model.J2kGlue
import GdcVerif.Lemmas.J2kPacketHeader
import GdcVerif.Lemmas.J2kBio
namespace J2kGlue
open J2k J2kPH

/-! ### the reader's bit supply -/

theorem readBit_avail (r r' : BioR) (b : Bool) (h : r.readBit = some (b, r')) : avail r' < avail r := by
  unfold BioR.readBit at h
  by_cases hc : (r.ct == 0) = true
  · simp only [hc, if_true] at h
    unfold BioR.byteIn at h
    cases hd : r.data with
    | nil => simp [hd] at h
    | cons d rest =>
      simp only [hd] at h
      have hc0 : r.ct = 0 := by simpa using hc
      injection h with h
      injection h with _ h2
      subst h2
      unfold avail
      simp only [hd, List.length_cons, hc0]
      split <;> omega
  · simp only [hc, Bool.false_eq_true, if_false] at h
    injection h with h
    injection h with _ h2
    subst h2
    have : r.ct ≠ 0 := by simpa using hc
    unfold avail
    simp only []
    omega

theorem readBit_none_of_avail (r : BioR) (h : avail r = 0) : r.readBit = none := by
  unfold avail at h
  have hc : r.ct = 0 := by omega
  have hd : r.data = [] := by
    cases hd : r.data with
    | nil => rfl
    | cons a t => simp [hd] at h
  unfold BioR.readBit BioR.byteIn
  simp [hc, hd]

theorem allBitsF_stable : ∀ (f g : Nat) (r : BioR), avail r ≤ f → avail r ≤ g → allBitsF f r = allBitsF g r := by
  intro f
  induction f with
  | zero =>
    intro g r hf _
    have h0 : avail r = 0 := by omega
    cases g with
    | zero => rfl
    | succ g => simp [allBitsF, readBit_none_of_avail r h0]
  | succ f ih =>
    intro g r hf hg
    cases g with
    | zero =>
      have h0 : avail r = 0 := by omega
      simp [allBitsF, readBit_none_of_avail r h0]
    | succ g =>
      unfold allBitsF
      cases hr : r.readBit with
      | none => rfl
      | some q =>
        obtain ⟨b, r'⟩ := q
        have := readBit_avail r r' b hr
        simp only []
        rw [ih g r' (by omega) (by omega)]

theorem allBits_readBit (r r' : BioR) (b : Bool) (h : r.readBit = some (b, r')) : allBits r = b :: allBits r' := by
  have hlt := readBit_avail r r' b h
  unfold allBits
  obtain ⟨k, hk⟩ : ∃ k, avail r = k + 1 := ⟨avail r - 1, by omega⟩
  rw [hk]
  show (match r.readBit with | none => [] | some (b, r') => b :: allBitsF k r') = _
  rw [h]
  simp only []
  rw [allBitsF_stable k (avail r') r' (by omega) (Nat.le_refl _)]

theorem allBits_readBitsList : ∀ (n : Nat) (r r' : BioR) (bs : List Bool),
    r.readBitsList n = some (bs, r') → allBits r = bs ++ allBits r' := by
  intro n
  induction n with
  | zero =>
    intro r r' bs h
    have : r.readBitsList 0 = some ([], r) := rfl
    rw [this] at h
    injection h with h; injection h with h1 h2
    subst h1; subst h2; rfl
  | succ n ih =>
    intro r r' bs h
    rw [readBitsList_succ] at h
    cases hb : r.readBit with
    | none => simp [hb] at h
    | some q =>
      obtain ⟨b, r1⟩ := q
      simp only [hb] at h
      cases hn : r1.readBitsList n with
      | none => simp [hn] at h
      | some q2 =>
        obtain ⟨bs1, r2⟩ := q2
        simp only [hn] at h
        injection h with h; injection h with h1 h2
        subst h1; subst h2
        rw [allBits_readBit r r1 b hb, ih r1 r2 bs1 hn]
        rfl

/-! ### one packet -/

/-- admissible packet: some band has a code-block (the encoder emits no packet otherwise); per band distinct grid
    positions, fewer than 32 missing bit-planes; per included block 1..164 passes and at most 65535 bytes
    (decodePacket's `maxSegmentLength`) -/
def PacketOk (p : Packet) : Prop :=
  (∃ b ∈ p, b.cbs ≠ []) ∧
  ∀ b ∈ p, (b.cbs.map fun c => (c.x, c.y)).Nodup ∧
    ∀ c ∈ b.cbs, c.zbp < 32 ∧ (c.data ≠ [] → 1 ≤ c.np ∧ c.np ≤ 164 ∧ c.data.length ≤ 65535)

theorem flush_ne_nil (w : BioW) : w.flush ≠ [] := by
  unfold BioW.flush BioW.byteOut
  simp only []
  split <;> simp

theorem fresh_spec (b : Band) : (Band.spec b).fresh = BandD.fresh b.w b.h b.geo := by
  unfold BandSpec.fresh Band.spec BandD.fresh Band.geo
  simp [List.map_map, Function.comp_def]

theorem bandsInv_fresh : ∀ (p : Packet),
    (∀ b ∈ p, (b.cbs.map fun c => (c.x, c.y)).Nodup ∧ ∀ c ∈ b.cbs, c.zbp < 32) →
    BandsInv 0 (p.map fun b => BandE.fresh b.w b.h b.geo) ((p.map Band.spec).map BandSpec.fresh) := by
  intro p
  induction p with
  | nil => intro _; trivial
  | cons b bs ih =>
    intro h
    have hb := h b (by simp)
    refine ⟨?_, ih (fun b' hb' => h b' (by simp [hb']))⟩
    rw [fresh_spec]
    apply bandInv_fresh
    · unfold Band.geo; simpa [List.map_map, Function.comp_def] using hb.1
    · intro c hc
      unfold Band.geo at hc
      obtain ⟨c0, hc0, rfl⟩ := List.mem_map.mp hc
      exact hb.2 c0 hc0

theorem csOk_fresh : ∀ (p : Packet),
    (∀ b ∈ p, ∀ c ∈ b.cbs, c.data ≠ [] → 1 ≤ c.np ∧ c.np ≤ 164 ∧ c.data.length ≤ 65535) →
    CsOk (p.map fun b => BandE.fresh b.w b.h b.geo) (p.map fun b => b.cbs.map CB.contrib) := by
  intro p
  induction p with
  | nil => intro _; trivial
  | cons b bs ih =>
    intro h
    refine ⟨by simp [BandE.fresh, Band.geo], ?_, ih (fun b' hb' => h b' (by simp [hb']))⟩
    intro x hx
    obtain ⟨c, hc, rfl⟩ := List.mem_map.mp hx
    intro np len he
    unfold CB.contrib at he
    by_cases hd : c.data.isEmpty = true
    · simp [hd] at he
    · simp only [hd, Bool.false_eq_true, if_false] at he
      injection he with he; injection he with h1 h2
      have hne : c.data ≠ [] := by intro h0; simp [h0] at hd
      have := h b (by simp) c hc hne
      subst h1; subst h2
      exact ⟨this.1, this.2.1, by omega⟩

theorem cutBodies_expected : ∀ (cbs : List CB) (rest : List Nat),
    (∀ c ∈ cbs, c.data.length ≤ 65535) →
    cutBodies (List.zipWith expIncl (cbs.map fun c => ({ x := c.x, y := c.y, zbp := c.zbp, included := false, lblock := 0 } : CbE))
        (cbs.map CB.contrib)) ((cbs.flatMap fun c => c.data) ++ rest) = (cbs.map CB.expected, rest) := by
  intro cbs
  induction cbs with
  | nil => intro rest _; rfl
  | cons c cs ih =>
    intro rest h
    have hc := h c (by simp)
    have ih' := ih rest (fun c' hc' => h c' (by simp [hc']))
    simp only [List.map_cons, List.zipWith_cons_cons, List.flatMap_cons, List.append_assoc]
    unfold cutBodies
    by_cases hd : c.data.isEmpty = true
    · have hnil : c.data = [] := by simpa using hd
      simp only [CB.contrib, hd, if_true, expIncl, Bool.false_and, Bool.false_eq_true, if_false, hnil, List.nil_append]
      rw [ih']
      simp [CB.expected, hnil]
    · have hne : c.data ≠ [] := by intro h0; simp [h0] at hd
      have hpos : 0 < c.data.length := List.length_pos_iff.mpr hne
      simp only [CB.contrib, hd, Bool.false_eq_true, if_false, expIncl, Bool.true_and, decide_eq_true_eq, gt_iff_lt, hpos, if_true]
      have hmin : min c.data.length 65535 = c.data.length := by omega
      rw [hmin, List.drop_left, List.take_left, ih']
      simp [CB.expected, hd]

theorem cutBands_expected : ∀ (p : Packet) (rest : List Nat),
    (∀ b ∈ p, ∀ c ∈ b.cbs, c.data.length ≤ 65535) →
    cutBands (expBands (p.map fun b => BandE.fresh b.w b.h b.geo) (p.map fun b => b.cbs.map CB.contrib))
      (bodyBytes p ++ rest) = (Packet.expected p, rest) := by
  intro p
  induction p with
  | nil => intro rest _; rfl
  | cons b bs ih =>
    intro rest h
    have ih' := ih rest (fun b' hb' => h b' (by simp [hb']))
    have hb := h b (by simp)
    unfold bodyBytes at ih' ⊢
    simp only [List.map_cons, expBands, List.flatMap_cons, List.append_assoc]
    unfold cutBands
    have hfresh : (BandE.fresh b.w b.h b.geo).cbs =
        b.cbs.map fun c => ({ x := c.x, y := c.y, zbp := c.zbp, included := false, lblock := 0 } : CbE) := by
      simp [BandE.fresh, Band.geo, List.map_map, Function.comp_def]
    rw [hfresh, cutBodies_expected b.cbs _ hb]
    simp only []
    rw [ih']
    rfl

theorem all_empty_false (p : Packet) (h : ∃ b ∈ p, b.cbs ≠ []) :
    (p.map fun b => BandE.fresh b.w b.h b.geo).all (fun b => b.cbs.isEmpty) = false := by
  obtain ⟨b, hb, hne⟩ := h
  rw [Bool.eq_false_iff]
  intro hall
  rw [List.all_eq_true] at hall
  have := hall (BandE.fresh b.w b.h b.geo) (List.mem_map.mpr ⟨b, hb, rfl⟩)
  simp [BandE.fresh, Band.geo] at this
  exact hne this

/-- ONE PACKET: the decoder, given the geometry of the precinct's bands, reads the encoder's packet followed by
    anything, reports for every code-block inclusion, pass count, zero bit-planes and the block's bytes, and stands
    exactly at the first byte after the packet -/
theorem decPacket_encPacket (p : Packet) (tail : List Nat) (hok : PacketOk p) :
    decPacket (p.map Band.spec) (encPacket p ++ tail) = some (some (Packet.expected p), tail) := by
  obtain ⟨hne, hb⟩ := hok
  have hinv := bandsInv_fresh p (fun b hb' => ⟨(hb b hb').1, fun c hc => ((hb b hb').2 c hc).1⟩)
  have hcs := csOk_fresh p (fun b hb' c hc => ((hb b hb').2 c hc).2)
  have hlen : ∀ b ∈ p, ∀ c ∈ b.cbs, c.data.length ≤ 65535 := by
    intro b hb' c hc
    by_cases hd : c.data = []
    · simp [hd]
    · exact (((hb b hb').2 c hc).2 hd).2.2
  -- byte level
  have hbits : headerBits p ≠ [] := by
    obtain ⟨_, _, _, h3⟩ := header_sync 0 (by decide) _ _ _ [] hinv hcs
    exact h3
  have hrt := bio_roundtrip' (headerBits p) (bodyBytes p ++ tail) hbits
  unfold headerRoundTrip at hrt
  cases hr1 : (BioR.new ((BioW.new.writeBitsList (headerBits p)).flush ++ (bodyBytes p ++ tail))).readBitsList (headerBits p).length with
  | none => simp [hr1] at hrt
  | some q =>
    obtain ⟨bs, r1⟩ := q
    simp only [hr1] at hrt
    cases hr2 : r1.alignToByte with
    | none => simp [hr2] at hrt
    | some r2 =>
      simp only [hr2] at hrt
      injection hrt with hrt; injection hrt with hbs hdata
      subst hbs
      -- bit level
      have hall := allBits_readBitsList _ _ _ _ hr1
      obtain ⟨bds', hdec, _, _⟩ := header_sync 0 (by decide) _ _ _ (allBits r1) hinv hcs
      rw [all_empty_false p hne] at hdec
      simp only [Bool.false_eq_true, if_false] at hdec
      unfold decPacket encPacket headerBytes
      have hnil : ((BioW.new.writeBitsList (headerBits p)).flush ++ bodyBytes p ++ tail).isEmpty = false := by
        have := flush_ne_nil (BioW.new.writeBitsList (headerBits p))
        cases hf : (BioW.new.writeBitsList (headerBits p)).flush with
        | nil => exact absurd hf this
        | cons a t => simp
      simp only [hnil, Bool.false_eq_true, if_false]
      rw [List.append_assoc, hall]
      have hd' : decHeader 0 ((p.map Band.spec).map BandSpec.fresh) (headerBits p ++ allBits r1) =
          some (bds', some (expBands (p.map fun b => BandE.fresh b.w b.h b.geo) (p.map fun b => b.cbs.map CB.contrib)), allBits r1) := hdec
      simp only [hd']
      have hl : (headerBits p ++ allBits r1).length - (allBits r1).length = (headerBits p).length := by
        rw [List.length_append]; omega
      rw [hl, hr1]
      simp only [hr2, hdata]
      rw [cutBands_expected p tail hlen]

/-! ### the tile body -/

/-- THE TILE BODY: packets back to back — the decoder, walking the same packet sequence with the geometry of each
    precinct, recovers every code-block's contribution and consumes exactly the encoder's bytes -/
theorem decTile_encTile : ∀ (ps : List Packet) (tail : List Nat), (∀ p ∈ ps, PacketOk p) →
    decTile (ps.map fun p => p.map Band.spec) (encTile ps ++ tail) = some (ps.map fun p => some (Packet.expected p), tail) := by
  intro ps
  induction ps with
  | nil => intro tail _; rfl
  | cons p ps ih =>
    intro tail h
    unfold encTile at ih ⊢
    simp only [List.map_cons, List.flatMap_cons, List.append_assoc]
    unfold decTile
    rw [decPacket_encPacket p _ (h p (by simp))]
    simp only []
    rw [ih tail (fun p' hp' => h p' (by simp [hp']))]

end J2kGlue
