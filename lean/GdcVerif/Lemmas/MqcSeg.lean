import GdcVerif.Lemmas.MqcRoundtrip2
/-!
  Codeword segments of the MQ encoder: while a segment that started at buffer position `p0` (its first byte goes to
  `p0 + 1`) is being coded, the bytes at positions `≤ p0` are never touched — in particular the first byte-out of a
  segment carries nothing into the byte before it (`c + a ≤ 2^27` until then).  `InSeg p0 b0 e`: state `e` belongs
  to the segment started at `p0` over the buffer prefix `b0`.
-/
namespace Mqc

/-- `e` is inside the segment that started at position `p0` with buffer `b0` -/
def InSeg (p0 : Nat) (b0 : Array Nat) (e : Enc) : Prop :=
  (∀ j, j ≤ p0 → rd e.buf j = rd b0 j) ∧
  ((e.bp = p0 ∧ (e.c + e.a) * 2 ^ e.ct.toNat ≤ 134217728) ∨ (p0 < e.bp ∧ e.ct ≤ 8))

/-- a byte-out inside a segment -/
theorem seg_byteout (p0 : Nat) (b0 : Array Nat) (e : Enc) (x : Nat) (hb : BufOk e.buf e.bp) (hx1 : 1 ≤ x)
    (hA : e.c + x ≤ 150994944)
    (hB : 1 ≤ e.bp → rd e.buf (e.bp - 1) = 255 → rd e.buf e.bp * 134217728 + e.c + x ≤ 19327352832)
    (hfr : ∀ j, j ≤ p0 → rd e.buf j = rd b0 j) (hp : p0 ≤ e.bp) (h0 : e.bp = p0 → e.c + x ≤ 134217728) :
    ∀ e2, byteout e = some e2 → (∀ j, j ≤ p0 → rd e2.buf j = rd b0 j) ∧ p0 < e2.bp ∧ e2.ct ≤ 8 := by
  intro e2 he2
  obtain ⟨w, W, nb, δ, hwW, hbp2, hct2, hM, hc1, hδ, _, hcur, hpre, _, _, _⟩ := byteout_decomp e x hb hx1 hA hB e2 he2
  refine ⟨?_, by omega, by rcases hwW with ⟨rfl, _⟩ | ⟨rfl, _⟩ <;> rw [hct2] <;> decide⟩
  intro j hj
  rcases Nat.lt_or_ge j e.bp with hlt | hge
  · rw [hpre j hlt]; exact hfr j hj
  · have hjb : j = e.bp := by omega
    have hbp0 : e.bp = p0 := by omega
    have hc := h0 hbp0
    have hδ0 : δ = 0 := by
      rcases Nat.eq_zero_or_pos δ with h' | h'
      · exact h'
      · exfalso
        have hW : 0 < W := by rcases hwW with ⟨_, rfl⟩ | ⟨_, rfl⟩ <;> decide
        have h1 : 1 * W * 134217728 ≤ (δ * W + nb) * 134217728 :=
          Nat.mul_le_mul_right _ (Nat.le_trans (Nat.mul_le_mul_right _ h') (Nat.le_add_right _ _))
        have h2 : e.c * W < 134217728 * W := Nat.mul_lt_mul_of_pos_right (by omega) hW
        rw [Nat.one_mul, Nat.mul_comm W] at h1
        omega
    rw [hjb, hcur, hδ0, Nat.add_zero]
    exact hfr e.bp (by omega)

theorem seg_renormeLoop (p0 : Nat) (b0 : Array Nat) : ∀ (fuel : Nat) (e e' : Enc), RegOk e →
    renormeLoop fuel e = some e' → InSeg p0 b0 e → InSeg p0 b0 e' := by
  intro fuel
  induction fuel with
  | zero =>
    intro e e' _ he hs
    rw [renormeLoop] at he
    split at he
    · exact absurd he (by simp)
    · injection he with he; rw [← he]; exact hs
  | succ fuel ih =>
    intro e e' h he hs
    have hap := h.apos; have hah := h.ahi; have hcl := h.ctlo; have hch := h.cthi
    rw [renormeLoop] at he
    by_cases hlt : e.a < 0x8000
    · rw [if_pos hlt] at he
      have hcA := c_lt_of_A (pow_pos2 _) h.A
      have ha2 : u32 (e.a * 2) = e.a * 2 := by unfold u32; omega
      have hc2 : u32 (e.c * 2) = e.c * 2 := by unfold u32; omega
      have hA1 : (e.c * 2 + e.a * 2) * 2 ^ (e.ct - 1).toNat ≤ 150994944 := by
        rw [scale_step _ _ _ h.ctlo]; exact h.A
      simp only [ha2, hc2] at he
      by_cases hz : e.ct - 1 = 0
      · rw [if_pos hz] at he
        have hA0 : e.c * 2 + e.a * 2 ≤ 150994944 := by
          rw [hz, show (2:Nat) ^ (0:Int).toNat = 1 from rfl, Nat.mul_one] at hA1; exact hA1
        have hB0 : 1 ≤ e.bp → rd e.buf (e.bp - 1) = 255 → rd e.buf e.bp * 134217728 + e.c * 2 + e.a * 2 ≤ 19327352832 := by
          intro h1 h255
          have := h.B h1 h255
          rw [← scale_step _ _ _ h.ctlo, hz, show (2:Nat) ^ (0:Int).toNat = 1 from rfl, Nat.mul_one] at this
          rw [Nat.add_assoc]; exact this
        obtain ⟨e2, he2, hbuf2, hbp2, ha2', hctx2, hct2, hA2, hB2⟩ :=
          byteout_spec { e with a := e.a * 2, c := e.c * 2, ct := e.ct - 1 } (e.a * 2) h.buf
            (by omega) (by omega) hA0 hB0
        rw [he2] at he
        simp only [] at hbp2 ha2' hctx2 he
        have hr2 : RegOk e2 := by
          refine ⟨hbuf2, by omega, by omega, by omega, by omega, ?_, ?_, ?_⟩
          · rw [ha2']; exact hA2
          · intro _ h255; rw [ha2']; exact hB2 h255
          · rw [hctx2]; exact h.ctx
        have hp : p0 ≤ e.bp := by rcases hs.2 with ⟨h', _⟩ | ⟨h', _⟩ <;> omega
        have hseg2 := seg_byteout p0 b0 { e with a := e.a * 2, c := e.c * 2, ct := e.ct - 1 } (e.a * 2) h.buf
          (by omega) hA0 hB0 hs.1 hp
          (by
            intro hbp
            rcases hs.2 with ⟨_, h'⟩ | ⟨h', _⟩
            · rw [← scale_step _ _ _ h.ctlo, hz, show (2:Nat) ^ (0:Int).toNat = 1 from rfl, Nat.mul_one] at h'
              exact h'
            · have : e.bp = p0 := hbp
              omega) e2 he2
        exact ih e2 e' hr2 he ⟨hseg2.1, Or.inr hseg2.2⟩
      · rw [if_neg hz] at he
        have hr1 : RegOk { e with a := e.a * 2, c := e.c * 2, ct := e.ct - 1 } := by
          refine ⟨h.buf, ?_, ?_, ?_, ?_, hA1, ?_, h.ctx⟩
          · show 0 < e.a * 2; omega
          · show e.a * 2 < 65536; omega
          · show 1 ≤ e.ct - 1; omega
          · show e.ct - 1 ≤ 13; omega
          · intro h1 h255
            have := h.B h1 h255
            rw [← scale_step _ _ _ h.ctlo] at this
            exact this
        refine ih _ e' hr1 he ⟨hs.1, ?_⟩
        rcases hs.2 with ⟨h1, h2⟩ | ⟨h1, h2⟩
        · left; refine ⟨h1, ?_⟩
          show (e.c * 2 + e.a * 2) * 2 ^ (e.ct - 1).toNat ≤ 134217728
          rw [scale_step _ _ _ h.ctlo]; exact h2
        · right; exact ⟨h1, by show e.ct - 1 ≤ 8; omega⟩
    · rw [if_neg hlt] at he
      injection he with he; rw [← he]; exact hs

/-- shrinking the interval keeps the segment invariant -/
theorem seg_sub (p0 : Nat) (b0 : Array Nat) (e : Enc) (a' c' : Nat) (ctx' : Array Nat) (hsum : c' + a' ≤ e.c + e.a)
    (hs : InSeg p0 b0 e) : InSeg p0 b0 { e with a := a', c := c', ctx := ctx' } := by
  refine ⟨hs.1, ?_⟩
  rcases hs.2 with ⟨h1, h2⟩ | h'
  · left; exact ⟨h1, Nat.le_trans (Nat.mul_le_mul_right _ hsum) h2⟩
  · right; exact h'

theorem seg_encodeCore (p0 : Nat) (b0 : Array Nat) (e : Enc) (bit cx cxv qe nmps nlps sw : Nat) (h : RegOk e)
    (hn : 0x8000 ≤ e.a) (hcxv : cxv < 256) (q2 : 1 ≤ qe) (q3 : qe ≤ 0x5601) (m2 : nmps < 47) (l2 : nlps < 47)
    (e' : Enc) (he : encodeCore e bit cx cxv qe nmps nlps sw = some e') (hs : InSeg p0 b0 e) : InSeg p0 b0 e' := by
  have hah := h.ahi
  have hcA := c_lt_of_A (pow_pos2 _) h.A
  have hsub : sub32 e.a qe = e.a - qe := sub32_eq _ _ (by omega) (by omega)
  have hcq : u32 (e.c + qe) = e.c + qe := by unfold u32; omega
  have hmC := ctxOk_set e.ctx cx _ h.ctx (mpsCx_ok cxv nmps hcxv m2)
  have hlC := ctxOk_set e.ctx cx _ h.ctx (lpsCx_ok cxv nlps sw hcxv l2)
  have lower : ∀ (ctx' : Array Nat), CtxOk ctx' → renorme { e with a := qe, ctx := ctx' } = some e' → InSeg p0 b0 e' := by
    intro ctx' hctx' hren
    have hreg := regok_sub e h qe e.c ctx' (by omega) (by omega) (by omega) hctx'
    exact seg_renormeLoop p0 b0 16 _ e' hreg hren (seg_sub p0 b0 e qe e.c ctx' (by omega) hs)
  have upper : ∀ (ctx' : Array Nat), CtxOk ctx' →
      renorme { e with a := e.a - qe, c := e.c + qe, ctx := ctx' } = some e' → InSeg p0 b0 e' := by
    intro ctx' hctx' hren
    have hreg := regok_sub e h (e.a - qe) (e.c + qe) ctx' (by omega) (by omega) (by omega) hctx'
    exact seg_renormeLoop p0 b0 16 _ e' hreg hren (seg_sub p0 b0 e (e.a - qe) (e.c + qe) ctx' (by omega) hs)
  unfold encodeCore at he
  rw [hsub, hcq] at he
  by_cases hb : bit = cxv / 128
  · rw [if_pos hb] at he
    by_cases hren : (e.a - qe) / 0x8000 % 2 = 0
    · rw [if_pos hren] at he
      by_cases hx : e.a - qe < qe
      · rw [if_pos hx] at he; exact lower _ hmC he
      · rw [if_neg hx] at he; exact upper _ hmC he
    · rw [if_neg hren] at he
      injection he with he; subst he
      exact seg_sub p0 b0 e (e.a - qe) (e.c + qe) e.ctx (by omega) hs
  · rw [if_neg hb] at he
    by_cases hx : e.a - qe < qe
    · rw [if_pos hx] at he; exact upper _ hlC he
    · rw [if_neg hx] at he; exact lower _ hlC he

/-- `Encode(bit, cx)` keeps the segment invariant -/
theorem seg_encode (p0 : Nat) (b0 : Array Nat) (e e' : Enc) (bit cx : Nat) (h : RegOk e) (hn : 0x8000 ≤ e.a)
    (hcx : cx < e.ctx.size) (he : encode e bit cx = some e') (hs : InSeg p0 b0 e) : InSeg p0 b0 e' := by
  obtain ⟨hst, hcx256⟩ := h.ctx cx
  obtain ⟨qe, nmps, nlps, sw, hlk, q2, q3, m2, l2, s2⟩ := lookup_wf (rd e.ctx cx % 128) hst
  rw [encode_eq e bit cx _ qe nmps nlps sw (rd_some e.ctx cx hcx) hlk] at he
  exact seg_encodeCore p0 b0 e bit cx (rd e.ctx cx) qe nmps nlps sw h hn hcx256 q2 q3 m2 l2 e' he hs
end Mqc
