import GdcVerif.Model.J2kTagTree
/-! Tag tree: encoder/decoder lock-step invariant and round trip. -/
namespace J2kTT

/-- per-node synchronisation invariant between the encoder's and the decoder's tree -/
def NodeInv (se : TTEnc) (sd : TTDec) (n : Node) : Prop :=
  se.low n ≤ se.val n ∧ (se.known n = true → se.low n = se.val n) ∧ se.val n ≤ sentinel ∧
  sd.low n = se.low n ∧ sd.val n = (if se.known n then se.val n else sentinel)

def Inv (se : TTEnc) (sd : TTDec) : Prop := ∀ n, NodeInv se sd n

theorem inv_init : Inv TTEnc.init TTDec.init := by
  intro n; unfold NodeInv TTEnc.init TTDec.init sentinel; simp

/-- values never decrease from root to leaf along the path (what SetValue's minimum propagation gives) -/
def HeapPath (val : Node → Nat) : List Node → Prop
  | [] => True
  | [_] => True
  | a :: b :: rest => val a ≤ val b ∧ HeapPath val (b :: rest)

/-- the two inner loops in lock step, value not yet known: encoder emits, decoder consumes, same `low`;
    the value becomes known exactly when it is below the threshold -/
theorem loops_unknown (v t : Nat) (hv : v ≤ sentinel) (ht : t ≤ sentinel) :
    ∀ fuel low (rest : List Bool), low ≤ v → t + 1 ≤ fuel + low →
      let r := encLoop v t fuel low false
      decLoop t (fuel + 1) sentinel low (r.1 ++ rest) =
        some ((if r.2.2 then v else sentinel), r.2.1, rest) ∧
      r.2.1 ≤ v ∧ (r.2.2 = true → r.2.1 = v) ∧ (r.2.2 = true ↔ v < t) ∧ low ≤ r.2.1 ∧ r.2.1 ≤ max low t := by
  intro fuel
  induction fuel with
  | zero =>
    intro low rest hl hf
    have : ¬ low < t := by omega
    simp only [encLoop, decLoop, this, false_and, if_false, List.nil_append, Bool.false_eq_true]
    refine ⟨trivial, hl, by simp, ?_, by omega, by omega⟩
    constructor
    · intro h; exact absurd h (by simp)
    · intro h; omega
  | succ fuel ih =>
    intro low rest hl hf
    by_cases hlt : low < t
    · by_cases hge : low ≥ v
      · have hlv : low = v := by omega
        subst hlv
        have hs : low < sentinel := by omega
        simp only [encLoop, hlt, if_true, ge_iff_le, Nat.le_refl, Bool.not_false, decLoop, hs, and_self,
          List.cons_append, List.nil_append]
        cases fuel <;> simp [decLoop] <;> omega
      · have hs : low < sentinel := by omega
        have hih := ih (low + 1) rest (by omega) (by omega)
        simp only [] at hih
        obtain ⟨h1, h2, h3, h4, h5, h6⟩ := hih
        simp only [encLoop, hlt, if_true, hge, if_false, decLoop, hs, and_self, List.cons_append,
          Bool.false_eq_true]
        refine ⟨h1, h2, h3, h4, by omega, by omega⟩
    · simp only [encLoop, decLoop, hlt, false_and, if_false, List.nil_append, Bool.false_eq_true]
      refine ⟨trivial, hl, by simp, ?_, by omega, by omega⟩
      constructor
      · intro h; exact absurd h (by simp)
      · intro h; omega

/-- value already known (low = v): neither side touches the bit stream -/
theorem loops_known (v t fuel : Nat) (rest : List Bool) :
    encLoop v t fuel v true = ([], v, true) ∧ decLoop t (fuel + 1) v v rest = some (v, v, rest) := by
  constructor
  · cases fuel with
    | zero => rfl
    | succ f => simp [encLoop]
  · simp [decLoop]

theorem upd_same {β : Type} (f : Node → β) (n : Node) (b : β) : upd f n b n = b := by simp [upd]
theorem upd_other {β : Type} (f : Node → β) (n m : Node) (b : β) (h : m ≠ n) : upd f n b m = f m := by simp [upd, h]

/-- one node of Encode against one node of Decode -/
theorem node_sync (se : TTEnc) (sd : TTDec) (n : Node) (lowIn t : Nat) (rest : List Bool)
    (hinv : Inv se sd) (hin : lowIn ≤ se.val n) (ht : t ≤ sentinel) :
    ∃ sd', decNode sd n lowIn t ((encNode se n lowIn t).2.1 ++ rest) = some (sd', (encNode se n lowIn t).2.2, rest) ∧
      Inv (encNode se n lowIn t).1 sd' ∧
      (encNode se n lowIn t).1.val = se.val ∧ (encNode se n lowIn t).2.2 ≤ se.val n ∧
      (se.val n < t → sd'.val n = se.val n) ∧
      (sd'.val n = se.val n ∨ (sd'.val n = sentinel ∧ t ≤ se.val n)) := by
  obtain ⟨h1, h2, h3, h4, h5⟩ := hinv n
  unfold encNode decNode
  simp only [h4]
  generalize hl0 : (if lowIn > se.low n then lowIn else se.low n) = low0
  have hl0v : low0 ≤ se.val n := by rw [← hl0]; split <;> omega
  cases hk : se.known n with
  | true =>
    have hlv : se.low n = se.val n := h2 hk
    have : low0 = se.val n := by rw [← hl0]; split <;> omega
    subst this
    rw [h5, hk]
    simp only [if_true]
    obtain ⟨e1, e2⟩ := loops_known (se.val n) t (t + 1 - se.val n) rest
    rw [e1]
    simp only [List.nil_append, e2]
    refine ⟨_, by first | rfl | trivial, ?_, by first | rfl | trivial, Nat.le_refl _,
      fun _ => upd_same _ _ _, Or.inl (upd_same _ _ _)⟩
    intro m
    by_cases hm : m = n
    · subst hm
      unfold NodeInv
      simp only [upd_same, hk, if_true]
      refine ⟨Nat.le_refl _, fun _ => by first | rfl | trivial, h3, by first | rfl | trivial, by first | rfl | trivial⟩
    · have := hinv m
      unfold NodeInv at this ⊢
      simp only [upd_other _ _ _ _ hm]
      exact this
  | false =>
    rw [h5, hk]
    simp only [Bool.false_eq_true, if_false]
    have hl := loops_unknown (se.val n) t h3 ht (t + 1 - low0) low0 rest hl0v (by omega)
    simp only [] at hl
    obtain ⟨e, a1, a2, a3, a4, a5⟩ := hl
    rw [e]
    refine ⟨_, by first | rfl | trivial, ?_, by first | rfl | trivial, a1, ?_, ?_⟩
    · intro m
      by_cases hm : m = n
      · subst hm
        unfold NodeInv
        simp only [upd_same]
        refine ⟨a1, a2, h3, by first | rfl | trivial, by first | rfl | trivial⟩
      · have := hinv m
        unfold NodeInv at this ⊢
        simp only [upd_other _ _ _ _ hm]
        exact this
    · intro hvt
      simp only [upd_same, a3.mpr hvt, if_true]
    · simp only [upd_same]
      by_cases hvt : se.val n < t
      · left; simp [a3.mpr hvt]
      · right
        have : (encLoop (se.val n) t (t + 1 - low0) low0 false).2.2 = false := by
          cases hh : (encLoop (se.val n) t (t + 1 - low0) low0 false).2.2 with
          | true => exact absurd (a3.mp hh) hvt
          | false => rfl
        simp [this]; omega

/-- what the decoder knows about node `n` after a query with threshold `t` -/
def Resolved (se : TTEnc) (sd' : TTDec) (t : Nat) (n : Node) : Prop :=
  (se.val n < t → sd'.val n = se.val n) ∧ (sd'.val n = se.val n ∨ (sd'.val n = sentinel ∧ t ≤ se.val n))

/-- Encode against Decode along a whole root→leaf path -/
theorem path_sync (t : Nat) (ht : t ≤ sentinel) :
    ∀ (path : List Node) (se : TTEnc) (sd : TTDec) (lowIn : Nat) (rest : List Bool),
      Inv se sd → HeapPath se.val path → (∀ n, path.head? = some n → lowIn ≤ se.val n) →
      ∃ sd', sd.decodePath t path lowIn ((se.encodePath t path lowIn).2 ++ rest) = some (sd', rest) ∧
        Inv (se.encodePath t path lowIn).1 sd' ∧ (se.encodePath t path lowIn).1.val = se.val ∧
        (∀ n, path.getLast? = some n → Resolved se sd' t n) := by
  intro path
  induction path with
  | nil =>
    intro se sd lowIn rest hinv _ _
    exact ⟨sd, by simp [TTDec.decodePath, TTEnc.encodePath], by simpa [TTEnc.encodePath] using hinv,
      by simp [TTEnc.encodePath], by simp⟩
  | cons n tl ih =>
    intro se sd lowIn rest hinv hheap hlow
    have hn := hlow n (by simp)
    unfold TTEnc.encodePath TTDec.decodePath
    simp only [List.append_assoc]
    obtain ⟨sd1, hd, hinv1, hval1, hle, hres1, hres2⟩ :=
      node_sync se sd n lowIn t ((TTEnc.encodePath (encNode se n lowIn t).1 t tl (encNode se n lowIn t).2.2).2 ++ rest)
        hinv hn ht
    rw [hd]
    simp only []
    have hheap' : HeapPath (encNode se n lowIn t).1.val tl := by
      rw [hval1]
      cases tl with
      | nil => trivial
      | cons m tl' => exact hheap.2
    have hlow' : ∀ m, tl.head? = some m → (encNode se n lowIn t).2.2 ≤ (encNode se n lowIn t).1.val m := by
      intro m hm
      rw [hval1]
      cases tl with
      | nil => simp at hm
      | cons m' tl' =>
        simp at hm; subst hm
        exact Nat.le_trans hle hheap.1
    obtain ⟨sd2, hd2, hinv2, hval2, hlast⟩ := ih (encNode se n lowIn t).1 sd1 (encNode se n lowIn t).2.2 rest hinv1 hheap' hlow'
    refine ⟨sd2, hd2, hinv2, by rw [hval2, hval1], ?_⟩
    intro m hm
    cases tl with
    | nil =>
      simp at hm; subst hm
      -- the path ends here: sd2 = sd1
      simp [TTDec.decodePath] at hd2
      obtain ⟨e1, _⟩ := hd2
      subst e1
      exact ⟨hres1, hres2⟩
    | cons m' tl' =>
      have hm' : (m' :: tl').getLast? = some m := by simpa using hm
      have := hlast m hm'
      unfold Resolved at this ⊢
      rw [hval1] at this
      exact this

/-- what a correct answer to query `(path, t)` is: the leaf value if it is below the threshold (or already
    known), otherwise the sentinel together with the fact `t ≤ value` -/
def Answer (val : Node → Nat) (q : List Node × Nat) (r : Nat) : Prop :=
  ∀ n, q.1.getLast? = some n → (val n < q.2 → r = val n) ∧ (r = val n ∨ (r = sentinel ∧ q.2 ≤ val n))

def AnswersAll (val : Node → Nat) : List (List Node × Nat) → List Nat → Prop
  | [], [] => True
  | q :: qs, r :: rs => Answer val q r ∧ AnswersAll val qs rs
  | _, _ => False

theorem all_sync : ∀ (qs : List (List Node × Nat)) (se : TTEnc) (sd : TTDec) (rest : List Bool),
    Inv se sd → (∀ q ∈ qs, q.2 ≤ sentinel ∧ HeapPath se.val q.1) →
    ∃ sd' rs, sd.decodeAll qs ((se.encodeAll qs).2 ++ rest) = some (sd', rs, rest) ∧
      Inv (se.encodeAll qs).1 sd' ∧ (se.encodeAll qs).1.val = se.val ∧ AnswersAll se.val qs rs := by
  intro qs
  induction qs with
  | nil =>
    intro se sd rest hinv _
    exact ⟨sd, [], by simp [TTDec.decodeAll, TTEnc.encodeAll], by simpa [TTEnc.encodeAll] using hinv,
      by simp [TTEnc.encodeAll], trivial⟩
  | cons q qs ih =>
    intro se sd rest hinv hq
    obtain ⟨p, t⟩ := q
    have hq0 := hq (p, t) (by simp)
    unfold TTEnc.encodeAll TTDec.decodeAll
    simp only [List.append_assoc]
    obtain ⟨sd1, hd1, hinv1, hval1, hres⟩ :=
      path_sync t hq0.1 p se sd 0 ((TTEnc.encodeAll (se.encodePath t p 0).1 qs).2 ++ rest) hinv hq0.2
        (fun n _ => Nat.zero_le _)
    rw [hd1]
    simp only []
    have hq' : ∀ q ∈ qs, q.2 ≤ sentinel ∧ HeapPath (se.encodePath t p 0).1.val q.1 := by
      intro q hqm; rw [hval1]; exact hq q (by simp [hqm])
    obtain ⟨sd2, rs, hd2, hinv2, hval2, hans⟩ := ih (se.encodePath t p 0).1 sd1 rest hinv1 hq'
    rw [hd2]
    refine ⟨sd2, _, rfl, hinv2, by rw [hval2, hval1], ?_⟩
    refine ⟨?_, by rw [hval1] at hans; exact hans⟩
    intro n hn
    simp only [] at hn
    rw [hn]
    exact hres n hn

/-- lowering node values (SetValue between packets) keeps the lock-step invariant as long as the new value is
    not below what has already been signalled (`low`) and the node's value was not yet known -/
theorem inv_lower (se : TTEnc) (sd : TTDec) (val' : Node → Nat) (hinv : Inv se sd)
    (h : ∀ n, val' n = se.val n ∨ (se.known n = false ∧ se.low n ≤ val' n ∧ val' n ≤ sentinel)) :
    Inv { se with val := val' } sd := by
  intro n
  obtain ⟨h1, h2, h3, h4, h5⟩ := hinv n
  unfold NodeInv
  simp only []
  rcases h n with e | ⟨hk, hl, hs⟩
  · rw [e]; exact ⟨h1, h2, h3, h4, h5⟩
  · refine ⟨hl, fun hkt => by rw [hk] at hkt; exact absurd hkt (by decide), hs, h4, ?_⟩
    rw [h5, hk]; simp

/-! ### the tree shape: SetValue keeps every parent ≤ its children, paths are parent chains -/

def par (n : Node) : Node := (n.1 + 1, n.2.1 / 2, n.2.2 / 2)

/-- parent ≤ child on every edge below level `L-1`, except that children of `ex` may only be known to be ≥ `v` -/
def WeakHeap (val : Node → Nat) (L v : Nat) (ex : Node) : Prop :=
  ∀ c : Node, c.1 + 1 < L → val (par c) ≤ val c ∨ (par c = ex ∧ v ≤ val c)

def GlobalHeap (val : Node → Nat) (L : Nat) : Prop := ∀ c : Node, c.1 + 1 < L → val (par c) ≤ val c

theorem stack_cons (k level px py : Nat) :
    ttStack (k + 1) level px py = (level, px, py) :: ttStack k (level + 1) (px / 2) (py / 2) := rfl

/-- SetValue's loop from node `n` (level `n.1`, `k` levels left, `n.1 + k = L`) restores the heap -/
theorem setValue_heap (L v : Nat) : ∀ (k : Nat) (n : Node) (val : Node → Nat), n.1 + k = L →
    WeakHeap val L v n → GlobalHeap (setValueStack val v (ttStack k n.1 n.2.1 n.2.2)) L := by
  intro k
  induction k with
  | zero =>
    intro n val hL hw c hc
    rcases hw c hc with h | ⟨h, _⟩
    · simpa [ttStack, setValueStack] using h
    · have : (par c).1 = n.1 := by rw [h]
      unfold par at this; simp at this; omega
  | succ k ih =>
    intro n val hL hw
    rw [stack_cons]
    unfold setValueStack
    by_cases hgt : val (n.1, n.2.1, n.2.2) > v
    · simp only [hgt, if_true]
      have hn : (n.1, n.2.1, n.2.2) = n := rfl
      rw [hn] at hgt ⊢
      have := ih (par n) (upd val n v) (by unfold par; simp; omega) ?_
      · simpa [par] using this
      · intro c hc
        by_cases hcn : c = n
        · subst hcn
          right
          exact ⟨rfl, by simp [upd]⟩
        · by_cases hpn : par c = n
          · left
            rw [hpn]
            simp only [upd, if_true, hcn, if_false]
            rcases hw c hc with h | ⟨_, h⟩
            · rw [hpn] at h; omega
            · exact h
          · rcases hw c hc with h | ⟨h, _⟩
            · left; simp only [upd, hpn, hcn, if_false]; exact h
            · exact absurd h hpn
    · simp only [hgt, if_false]
      have hn : (n.1, n.2.1, n.2.2) = n := rfl
      rw [hn] at hgt
      intro c hc
      rcases hw c hc with h | ⟨h, hv⟩
      · exact h
      · rw [h]; omega

theorem setValue_globalHeap (val : Node → Nat) (L x y v : Nat) (hh : GlobalHeap val L) :
    GlobalHeap (setValueStack val v (ttStack L 0 x y)) L :=
  setValue_heap L v L (0, x, y) val (by simp) (fun c hc => Or.inl (hh c hc))

/-- leaf-first version of `HeapPath` -/
def Desc (val : Node → Nat) : List Node → Prop
  | [] => True
  | [_] => True
  | a :: b :: rest => val b ≤ val a ∧ Desc val (b :: rest)

theorem heapPath_snoc (val : Node → Nat) (a : Node) : ∀ xs : List Node,
    HeapPath val xs → (∀ b, xs.getLast? = some b → val b ≤ val a) → HeapPath val (xs ++ [a]) := by
  intro xs
  induction xs with
  | nil => intro _ _; trivial
  | cons x tl ih =>
    intro hh hl
    cases tl with
    | nil => exact ⟨hl x (by simp), trivial⟩
    | cons y tl' =>
      refine ⟨hh.1, ih hh.2 ?_⟩
      intro b hb
      exact hl b (by simpa using hb)

theorem heapPath_reverse (val : Node → Nat) : ∀ l : List Node, Desc val l → HeapPath val l.reverse := by
  intro l
  induction l with
  | nil => intro _; trivial
  | cons a tl ih =>
    intro hd
    rw [List.reverse_cons]
    cases tl with
    | nil => trivial
    | cons b tl' =>
      apply heapPath_snoc val a _ (ih hd.2)
      intro c hc
      have : b = c := by simpa using hc
      rw [← this]; exact hd.1

theorem desc_stack (val : Node → Nat) (L : Nat) (hh : GlobalHeap val L) :
    ∀ (k level px py : Nat), level + k ≤ L → Desc val (ttStack k level px py) := by
  intro k
  induction k with
  | zero => intros; trivial
  | succ k ih =>
    intro level px py hL
    cases k with
    | zero => trivial
    | succ k' =>
      refine ⟨?_, ih (level + 1) (px / 2) (py / 2) (by omega)⟩
      exact hh (level, px, py) (by simp; omega)

/-- a tree whose values satisfy the global heap property has heap paths for every leaf -/
theorem heapPath_ttPath (val : Node → Nat) (w h x y : Nat) (hh : GlobalHeap val (ttNumLevels w h)) :
    HeapPath val (ttPath w h x y) :=
  heapPath_reverse val _ (desc_stack val _ hh _ 0 x y (by omega))

theorem globalHeap_init (L : Nat) : GlobalHeap TTEnc.init.val L := by intro c _; exact Nat.le_refl _

/-! ### flattening -/

theorem flatten_inj (lw : Nat) (a b : Node) (ha : a.2.1 < lw) (hb : b.2.1 < lw) (hl : a.1 = b.1)
    (h : flatten lw a = flatten lw b) : a = b := by
  unfold flatten at h
  have h1 : (a.2.2 * lw + a.2.1) / lw = a.2.2 := by
    rw [Nat.mul_comm, Nat.mul_add_div (by omega), Nat.div_eq_of_lt ha]; omega
  have h2 : (b.2.2 * lw + b.2.1) / lw = b.2.2 := by
    rw [Nat.mul_comm, Nat.mul_add_div (by omega), Nat.div_eq_of_lt hb]; omega
  have h3 : (a.2.2 * lw + a.2.1) % lw = a.2.1 := by
    rw [Nat.mul_comm, Nat.mul_add_mod]; exact Nat.mod_eq_of_lt ha
  have h4 : (b.2.2 * lw + b.2.1) % lw = b.2.1 := by
    rw [Nat.mul_comm, Nat.mul_add_mod]; exact Nat.mod_eq_of_lt hb
  have e1 : a.2.2 = b.2.2 := by rw [← h1, ← h2, h]
  have e2 : a.2.1 = b.2.1 := by rw [← h3, ← h4, h]
  obtain ⟨a1, a2, a3⟩ := a
  obtain ⟨b1, b2, b3⟩ := b
  simp at hl e1 e2; subst hl; subst e1; subst e2; rfl

theorem flatten_in_range (lw lh : Nat) (n : Node) (hx : n.2.1 < lw) (hy : n.2.2 < lh) : flatten lw n < lw * lh := by
  unfold flatten
  have : (n.2.2 + 1) * lw ≤ lh * lw := Nat.mul_le_mul_right lw (by omega)
  rw [Nat.add_mul] at this
  rw [Nat.mul_comm lw lh]; omega

theorem lowered_fold (v : Nat) : ∀ (st : List Node) (val : Node → Nat),
    (loweredNodes val v st).foldl (fun f n => upd f n v) val = setValueStack val v st := by
  intro st
  induction st with
  | nil => intro val; rfl
  | cons a tl ih =>
    intro val
    unfold loweredNodes setValueStack
    by_cases hgt : val a > v
    · simp only [hgt, if_true, List.foldl_cons]; exact ih _
    · simp only [hgt, if_false, List.foldl_nil]

theorem setValue_val_eq (s : TTEnc) (w h x y v : Nat) :
    (s.setValue w h x y v).val = setValueStack s.val v (ttStack (ttNumLevels w h) 0 x y) := by
  unfold TTEnc.setValue; exact lowered_fold v _ _

theorem setValueStack_cases (v : Nat) : ∀ (st : List Node) (val : Node → Nat) (n : Node),
    setValueStack val v st n = val n ∨ (setValueStack val v st n = v ∧ v < val n) := by
  intro st
  induction st with
  | nil => intro val n; left; rfl
  | cons a tl ih =>
    intro val n
    unfold setValueStack
    by_cases hgt : val a > v
    · simp only [hgt, if_true]
      rcases ih (upd val a v) n with h | ⟨h1, h2⟩
      · by_cases hna : n = a
        · subst hna; right; rw [h]; simp [upd]; omega
        · left; rw [h]; simp [upd, hna]
      · by_cases hna : n = a
        · subst hna; simp [upd] at h2
        · right; simp [upd, hna] at h2; exact ⟨h1, h2⟩
    · simp only [hgt, if_false]; left; trivial

/-- SetValue between Encode calls keeps encoder and decoder in lock step, provided the value set is not below
    anything already signalled (for inclusion: the current layer ≥ every earlier threshold − 1) -/
theorem setValue_inv (se : TTEnc) (sd : TTDec) (w h x y v : Nat) (hinv : Inv se sd)
    (hlow : ∀ n, se.low n ≤ v) (hv : v ≤ sentinel) : Inv (se.setValue w h x y v) sd := by
  have hE : se.setValue w h x y v = { se with val := setValueStack se.val v (ttStack (ttNumLevels w h) 0 x y) } := by
    have := setValue_val_eq se w h x y v
    unfold TTEnc.setValue at this ⊢
    simp only [] at this ⊢
    rw [this]
  rw [hE]
  apply inv_lower se sd _ hinv
  intro n
  rcases setValueStack_cases v (ttStack (ttNumLevels w h) 0 x y) se.val n with h | ⟨h1, h2⟩
  · left; exact h
  · right
    obtain ⟨a1, a2, _, _, _⟩ := hinv n
    refine ⟨?_, by rw [h1]; exact hlow n, by rw [h1]; exact hv⟩
    cases hk : se.known n with
    | false => rfl
    | true => have := a2 hk; have := hlow n; omega

/-! ### add-ons used by the packet-header composition -/

theorem encLoop_low_le (v t : Nat) : ∀ fuel low k, (encLoop v t fuel low k).2.1 ≤ max low t ∧ low ≤ (encLoop v t fuel low k).2.1 := by
  intro fuel
  induction fuel with
  | zero => intro low k; simp [encLoop]; omega
  | succ f ih =>
    intro low k
    unfold encLoop
    by_cases h1 : low < t
    · by_cases h2 : low ≥ v
      · cases k <;> simp [h1, h2] <;> omega
      · have := ih (low + 1) k
        simp only [h1, if_true, h2, if_false]
        omega
    · simp [h1]; omega

theorem encNode_val (s : TTEnc) (n : Node) (lowIn t : Nat) : (encNode s n lowIn t).1.val = s.val := rfl

theorem encodePath_val (t : Nat) : ∀ (path : List Node) (s : TTEnc) (lowIn : Nat), (s.encodePath t path lowIn).1.val = s.val := by
  intro path
  induction path with
  | nil => intro s lowIn; rfl
  | cons n tl ih => intro s lowIn; unfold TTEnc.encodePath; simp only []; rw [ih]; rfl

/-- `low` never exceeds the largest threshold used so far -/
theorem encodePath_low_bound (t B : Nat) (ht : t ≤ B) : ∀ (path : List Node) (s : TTEnc) (lowIn : Nat),
    (∀ n, s.low n ≤ B) → lowIn ≤ B → ∀ n, (s.encodePath t path lowIn).1.low n ≤ B := by
  intro path
  induction path with
  | nil => intro s lowIn h _ n; exact h n
  | cons a tl ih =>
    intro s lowIn h hl
    unfold TTEnc.encodePath
    simp only []
    have hb := encLoop_low_le (s.val a) t (t + 1 - (if lowIn > s.low a then lowIn else s.low a))
      (if lowIn > s.low a then lowIn else s.low a) (s.known a)
    have h0 : (if lowIn > s.low a then lowIn else s.low a) ≤ B := by
      have := h a
      split <;> omega
    apply ih
    · intro m
      show (upd s.low a _) m ≤ B
      unfold upd
      split
      · show (encLoop (s.val a) t _ _ _).2.1 ≤ B; omega
      · exact h m
    · show (encLoop (s.val a) t _ _ _).2.1 ≤ B; omega

theorem ttStack_level : ∀ (k lvl px py : Nat) (n : Node), n ∈ ttStack k lvl px py →
    lvl ≤ n.1 ∧ (n.1 = lvl → n = (lvl, px, py)) := by
  intro k
  induction k with
  | zero => intro lvl px py n h; simp [ttStack] at h
  | succ k ih =>
    intro lvl px py n h
    unfold ttStack at h
    rcases List.mem_cons.mp h with h | h
    · subst h; exact ⟨Nat.le_refl _, fun _ => rfl⟩
    · have := ih (lvl + 1) (px / 2) (py / 2) n h
      exact ⟨by omega, fun e => by omega⟩

theorem ttNumLevels_pos (w h : Nat) : 1 ≤ ttNumLevels w h := by
  unfold ttNumLevels
  cases hh : w + h with
  | zero => simp [ttLevels]
  | succ f => unfold ttLevels; split <;> simp

theorem ttPath_last (w h x y : Nat) : (ttPath w h x y).getLast? = some (0, x, y) := by
  unfold ttPath
  obtain ⟨k, hk⟩ : ∃ k, ttNumLevels w h = k + 1 := ⟨ttNumLevels w h - 1, by have := ttNumLevels_pos w h; omega⟩
  rw [hk, stack_cons, List.getLast?_reverse]; rfl

/-- other leaves are not on the stack of leaf (x, y) -/
theorem leaf_not_in_stack (L x y x' y' : Nat) (hne : (x', y') ≠ (x, y)) : (0, x', y') ∉ ttStack L 0 x y := by
  intro h
  have := (ttStack_level L 0 x y (0, x', y') h).2 rfl
  simp at this; exact hne (by simp [this.1, this.2])

theorem setValueStack_notin (v : Nat) : ∀ (st : List Node) (val : Node → Nat) (n : Node), n ∉ st →
    setValueStack val v st n = val n := by
  intro st
  induction st with
  | nil => intro val n _; rfl
  | cons a tl ih =>
    intro val n hn
    have hna : n ≠ a := fun e => hn (by simp [e])
    have hnt : n ∉ tl := fun e => hn (by simp [e])
    unfold setValueStack
    split
    · rw [ih _ n hnt]; simp [upd, hna]
    · rfl

theorem setValueStack_head (v : Nat) (a : Node) (tl : List Node) (val : Node → Nat) (ha : a ∉ tl) :
    setValueStack val v (a :: tl) a = min (val a) v := by
  unfold setValueStack
  split
  · next h => rw [setValueStack_notin v tl _ a ha]; simp [upd]; omega
  · next h => omega

theorem stack_head_notin (k x y : Nat) : (0, x, y) ∉ ttStack k 1 (x / 2) (y / 2) := by
  intro h; have := (ttStack_level k 1 (x / 2) (y / 2) (0, x, y) h).1; simp at this

/-- SetValue(x, y, v): the leaf gets min(old, v), every other leaf keeps its value -/
theorem setValue_leaf (s : TTEnc) (w h x y v : Nat) :
    (s.setValue w h x y v).val (0, x, y) = min (s.val (0, x, y)) v ∧
    ∀ x' y', (x', y') ≠ (x, y) → (s.setValue w h x y v).val (0, x', y') = s.val (0, x', y') := by
  rw [setValue_val_eq]
  obtain ⟨k, hk⟩ : ∃ k, ttNumLevels w h = k + 1 := ⟨ttNumLevels w h - 1, by have := ttNumLevels_pos w h; omega⟩
  constructor
  · rw [hk, stack_cons]; exact setValueStack_head v _ _ _ (stack_head_notin k x y)
  · intro x' y' hne
    exact setValueStack_notin v _ _ _ (leaf_not_in_stack _ x y x' y' hne)

theorem setValue_low_known (s : TTEnc) (w h x y v : Nat) :
    (s.setValue w h x y v).low = s.low ∧ (s.setValue w h x y v).known = s.known := ⟨rfl, rfl⟩

/-! ### thresholds above the value are all the same to the encoder -/

theorem encLoop_resolved (v t : Nat) : ∀ fuel low k, low ≤ v → v < t → v + 1 ≤ fuel + low →
    encLoop v t fuel low k = (List.replicate (v - low) false ++ (if k then [] else [true]), v, true) := by
  intro fuel
  induction fuel with
  | zero => intro low k h1 h2 h3; omega
  | succ f ih =>
    intro low k h1 h2 h3
    unfold encLoop
    have hlt : low < t := by omega
    by_cases hge : low ≥ v
    · have : low = v := by omega
      subst this
      cases k <;> simp [hlt]
    · simp only [hlt, if_true, hge, if_false]
      rw [ih (low + 1) k (by omega) h2 (by omega)]
      have : v - low = (v - (low + 1)) + 1 := by omega
      rw [this, List.replicate_succ]; simp

theorem encNode_thr (s : TTEnc) (n : Node) (lowIn t1 t2 : Nat) (h1 : s.val n < t1) (h2 : s.val n < t2)
    (hin : lowIn ≤ s.val n) (hl : s.low n ≤ s.val n) : encNode s n lowIn t1 = encNode s n lowIn t2 := by
  unfold encNode
  have h0 : (if lowIn > s.low n then lowIn else s.low n) ≤ s.val n := by split <;> omega
  simp only []
  rw [encLoop_resolved _ t1 _ _ _ h0 h1 (by omega), encLoop_resolved _ t2 _ _ _ h0 h2 (by omega)]

/-- a query whose path values all lie below both thresholds is encoded identically under either threshold
    (the encoder writes zero-bit-plane trees with threshold 999, the decoder reads them with 32) -/
theorem encodePath_thr (t1 t2 : Nat) : ∀ (path : List Node) (s : TTEnc) (lowIn : Nat),
    (∀ n ∈ path, s.val n < t1 ∧ s.val n < t2 ∧ s.low n ≤ s.val n) → HeapPath s.val path →
    (∀ n, path.head? = some n → lowIn ≤ s.val n) → path.Nodup →
    s.encodePath t1 path lowIn = s.encodePath t2 path lowIn := by
  intro path
  induction path with
  | nil => intro s lowIn _ _ _ _; rfl
  | cons a tl ih =>
    intro s lowIn hall hheap hlow hnd
    obtain ⟨ha1, ha2, ha3⟩ := hall a (by simp)
    have hin := hlow a (by simp)
    unfold TTEnc.encodePath
    simp only []
    rw [encNode_thr s a lowIn t1 t2 ha1 ha2 hin ha3]
    have hnd' := List.nodup_cons.mp hnd
    have hval : (encNode s a lowIn t2).1.val = s.val := rfl
    have hout : (encNode s a lowIn t2).2.2 ≤ s.val a := by
      unfold encNode
      have h0 : (if lowIn > s.low a then lowIn else s.low a) ≤ s.val a := by split <;> omega
      simp only []
      rw [encLoop_resolved _ t2 _ _ _ h0 ha2 (by omega)]
      exact Nat.le_refl _
    rw [ih (encNode s a lowIn t2).1 (encNode s a lowIn t2).2.2 ?_ ?_ ?_ hnd'.2]
    · intro n hn
      obtain ⟨b1, b2, b3⟩ := hall n (by simp [hn])
      have hna : n ≠ a := fun e => hnd'.1 (e ▸ hn)
      refine ⟨by rw [hval]; exact b1, by rw [hval]; exact b2, ?_⟩
      rw [hval]
      show (upd s.low a _) n ≤ s.val n
      simp [upd, hna]; exact b3
    · rw [hval]
      cases tl with
      | nil => trivial
      | cons m tl' => exact hheap.2
    · intro m hm
      rw [hval]
      cases tl with
      | nil => simp at hm
      | cons m' tl' =>
        simp at hm; subst hm
        exact Nat.le_trans hout hheap.1

/-! ### one leaf query, packaged -/

theorem ttStack_nodup : ∀ (k lvl px py : Nat), (ttStack k lvl px py).Nodup := by
  intro k
  induction k with
  | zero => intros; simp [ttStack]
  | succ k ih =>
    intro lvl px py
    rw [stack_cons, List.nodup_cons]
    refine ⟨?_, ih _ _ _⟩
    intro h
    have := (ttStack_level k (lvl + 1) (px / 2) (py / 2) _ h).1
    simp at this
    omega

theorem nodup_reverse' {α : Type} {l : List α} (h : l.Nodup) : l.reverse.Nodup := by
  unfold List.Nodup at *
  rw [List.pairwise_reverse]
  exact h.imp (fun hab => fun e => hab e.symm)

theorem ttPath_nodup (w h x y : Nat) : (ttPath w h x y).Nodup := by
  unfold ttPath; exact nodup_reverse' (ttStack_nodup _ _ _ _)

theorem heap_le_last (val : Node → Nat) : ∀ (path : List Node) (l : Node), HeapPath val path →
    path.getLast? = some l → ∀ n ∈ path, val n ≤ val l := by
  intro path
  induction path with
  | nil => intro l _ h; simp at h
  | cons a tl ih =>
    intro l hh hl n hn
    cases tl with
    | nil =>
      simp at hl hn; subst hl; subst hn; exact Nat.le_refl _
    | cons b tl' =>
      have hl' : (b :: tl').getLast? = some l := by simpa using hl
      rcases List.mem_cons.mp hn with e | e
      · subst e
        exact Nat.le_trans hh.1 (ih l hh.2 hl' b (by simp))
      · exact ih l hh.2 hl' n e

/-- Encode(x, y, t) against Decode(x, y, t) for one leaf -/
theorem query_sync (w h x y t : Nat) (ht : t ≤ sentinel) (se : TTEnc) (sd : TTDec) (rest : List Bool)
    (hinv : Inv se sd) (hheap : GlobalHeap se.val (ttNumLevels w h)) :
    ∃ sd' r, sd.decode w h x y t ((se.encode w h x y t).2 ++ rest) = some (sd', r, rest) ∧
      Inv (se.encode w h x y t).1 sd' ∧ (se.encode w h x y t).1.val = se.val ∧
      (se.val (0, x, y) < t → r = se.val (0, x, y)) ∧
      (r = se.val (0, x, y) ∨ (r = sentinel ∧ t ≤ se.val (0, x, y))) := by
  obtain ⟨sd', hd, hinv', hval, hres⟩ :=
    path_sync t ht (ttPath w h x y) se sd 0 rest hinv (heapPath_ttPath se.val w h x y hheap) (fun n _ => Nat.zero_le _)
  have hr := hres (0, x, y) (ttPath_last w h x y)
  refine ⟨sd', sd'.val (0, x, y), ?_, hinv', hval, hr.1, hr.2⟩
  unfold TTDec.decode TTEnc.encode
  rw [hd]

/-- a zero-bit-plane style query: the encoder uses threshold `te`, the decoder `td`; if the value is below both,
    the decoder obtains it and both stay in lock step -/
theorem query_sync_thr (w h x y te td : Nat) (htd : td ≤ sentinel) (se : TTEnc) (sd : TTDec) (rest : List Bool)
    (hinv : Inv se sd) (hheap : GlobalHeap se.val (ttNumLevels w h))
    (hv1 : se.val (0, x, y) < te) (hv2 : se.val (0, x, y) < td) :
    ∃ sd', sd.decode w h x y td ((se.encode w h x y te).2 ++ rest) = some (sd', se.val (0, x, y), rest) ∧
      Inv (se.encode w h x y te).1 sd' ∧ (se.encode w h x y te).1.val = se.val := by
  have hhp := heapPath_ttPath se.val w h x y hheap
  have hle := heap_le_last se.val (ttPath w h x y) (0, x, y) hhp (ttPath_last w h x y)
  have heq : se.encode w h x y te = se.encode w h x y td := by
    unfold TTEnc.encode
    apply encodePath_thr te td (ttPath w h x y) se 0 _ hhp (fun n _ => Nat.zero_le _) (ttPath_nodup w h x y)
    intro n hn
    have := hle n hn
    exact ⟨by omega, by omega, (hinv n).1⟩
  rw [heq]
  obtain ⟨sd', r, hd, hinv', hval, hr1, _⟩ := query_sync w h x y td htd se sd rest hinv hheap
  refine ⟨sd', ?_, hinv', hval⟩
  rw [hd, hr1 hv2]

end J2kTT
