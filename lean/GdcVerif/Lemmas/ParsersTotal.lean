import GdcVerif.Model.JpegMarkers
import GdcVerif.Model.JlsHeader
import GdcVerif.Model.J2kHeader
/-! Proofs behind the parser parts of `Props/C08.lean` / `Props/C09.lean`. -/

namespace JM

/-! ### HuffmanTable.Build -/

/-- codes of one length: with `p + n ≤ nvalues` the `Values[p]` access is in range, and the
    lookup index is in range exactly when the LAST code of the group fits -/
theorem buildCodes_ok (nvalues l n p : Nat) (hv : p + n ≤ nvalues)
    (hk : n = 0 ∨ (p + n) * 2 ^ (7 - l) ≤ 256) : buildCodes nvalues l n p = .ok (p + n) := by
  induction n generalizing p with
  | zero => simp [buildCodes]
  | succ n ih =>
    unfold buildCodes
    have hk' : (p + (n + 1)) * 2 ^ (7 - l) ≤ 256 := by
      rcases hk with h | h
      · cases h
      · exact h
    have h1 : ¬ (p + 1) * 2 ^ (7 - l) > 256 := by
      have : (p + 1) * 2 ^ (7 - l) ≤ (p + (n + 1)) * 2 ^ (7 - l) :=
        Nat.mul_le_mul_right _ (by omega)
      omega
    have h2 : ¬ p ≥ nvalues := by omega
    rw [if_neg h1, if_neg h2]
    have := ih (p + 1) (by omega) (by
      cases n with
      | zero => exact Or.inl rfl
      | succ m => right; have : p + 1 + (m + 1) = p + (m + 1 + 1) := by omega
                  rw [this]; exact hk')
    rw [this]
    congr 1
    omega

/-- `Values[p]` is never out of range when `nvalues` is at least the number of codes visited -/
theorem buildCodes_no_values_panic (nvalues l n p : Nat) (hv : p + n ≤ nvalues) :
    buildCodes nvalues l n p ≠ .panic .huffValues := by
  induction n generalizing p with
  | zero => simp [buildCodes]
  | succ n ih =>
    unfold buildCodes
    split
    · simp
    · have h2 : ¬ p ≥ nvalues := by omega
      rw [if_neg h2]
      exact ih (p + 1) (by omega)

theorem buildCodes_result (nvalues l n p p' : Nat) (h : buildCodes nvalues l n p = .ok p') : p' = p + n := by
  induction n generalizing p with
  | zero => simp [buildCodes] at h; omega
  | succ n ih =>
    unfold buildCodes at h
    split at h
    · cases h
    · split at h
      · cases h
      · have := ih (p + 1) h; omega

def sumList (xs : List Nat) : Nat := xs.foldl (· + ·) 0

theorem foldl_add (xs : List Nat) (a : Nat) : xs.foldl (· + ·) a = a + xs.foldl (· + ·) 0 := by
  induction xs generalizing a with
  | nil => simp
  | cons x xs ih => simp only [List.foldl_cons, Nat.zero_add]; rw [ih (a + x), ih x]; omega

theorem buildLens_no_values_panic (nvalues : Nat) (bits : List Nat) (l p : Nat)
    (hv : p + sumList bits ≤ nvalues) : buildLens nvalues bits l p ≠ .panic .huffValues := by
  induction bits generalizing l p with
  | nil => simp [buildLens]
  | cons n bits ih =>
    have hs : sumList (n :: bits) = n + sumList bits := by
      unfold sumList; simp only [List.foldl_cons, Nat.zero_add]; exact foldl_add bits n
    unfold buildLens
    split
    · simp
    · have hc := buildCodes_no_values_panic nvalues l n p (by omega)
      cases hb : buildCodes nvalues l n p with
      | ok p' =>
        simp only
        have := buildCodes_result _ _ _ _ _ hb
        exact ih (l + 1) p' (by omega)
      | err => simp
      | panic s =>
        simp only
        intro h; injection h with h; subst h; exact hc hb
      | scan => simp

/-- the prefix-sum (Kraft-style) condition under which Build's `lookupTable[code+j]` stays in range:
    after the codes of length `l+1` the running code count `p` satisfies `p · 2^(7−l) ≤ 256` -/
def kraftOK : List Nat → Nat → Nat → Bool
  | [], _, _ => true
  | n :: bits, l, p => l ≥ 8 || ((n = 0 || (p + n) * 2 ^ (7 - l) ≤ 256) && kraftOK bits (l + 1) (p + n))

theorem buildLens_ok_of_kraft (nvalues : Nat) (bits : List Nat) (l p : Nat)
    (hv : p + sumList bits ≤ nvalues) (hk : kraftOK bits l p = true) :
    buildLens nvalues bits l p = .ok () := by
  induction bits generalizing l p with
  | nil => simp [buildLens]
  | cons n bits ih =>
    have hs : sumList (n :: bits) = n + sumList bits := by
      unfold sumList; simp only [List.foldl_cons, Nat.zero_add]; exact foldl_add bits n
    unfold buildLens
    split
    · rfl
    · rename_i hl
      unfold kraftOK at hk
      simp only [Bool.or_eq_true, Bool.and_eq_true, decide_eq_true_eq] at hk
      rcases hk with hk | ⟨hk1, hk2⟩
      · exact absurd hk hl
      · rw [buildCodes_ok nvalues l n p (by omega) hk1]
        exact ih (l + 1) (p + n) (by omega) hk2

/-! ### SV1 -/

theorem sv1ScanStart_total (st : Sv1) (h : ∀ c ∈ st.comps, c.2 < 4) (s : Site) :
    sv1ScanStart st ≠ .panic s := by
  unfold sv1ScanStart
  split
  · simp
  · split
    · simp
    · rename_i id sel rest hc
      have : sel < 4 := by
        have := h (id, sel) (by rw [hc]; simp)
        exact this
      have hn : ¬ sel ≥ 4 := by omega
      rw [if_neg hn]
      split <;> simp

def Sel4 (cs : List (Nat × Nat)) : Prop := ∀ c ∈ cs, c.2 < 4

theorem sv1Comps_sel (w h n : Nat) (data : Bytes) (acc : List (Nat × Nat)) (al : List Nat)
    (cs : List (Nat × Nat)) (al' : List Nat) (ha : Sel4 acc)
    (h : sv1Comps w h n data acc al = (some cs, al')) : Sel4 cs := by
  induction n generalizing data acc al with
  | zero => simp [sv1Comps] at h; rw [← h.1]; exact ha
  | succ n ih =>
    match data with
    | id :: hv :: tq :: rest =>
      unfold sv1Comps at h
      simp only at h
      split at h
      · cases h
      · apply ih rest (acc ++ [(id, 0)]) _ _ h
        intro c hc
        rw [List.mem_append] at hc
        rcases hc with hc | hc
        · exact ha c hc
        · simp at hc; subst hc; simp
    | [] => simp [sv1Comps] at h
    | [_] => simp [sv1Comps] at h
    | [_, _] => simp [sv1Comps] at h

theorem sv1SOF3_sel (st st' : Sv1) (data : Bytes) (al : List Nat) (h : sv1SOF3 st data = (some st', al)) :
    Sel4 st'.comps := by
  unfold sv1SOF3 at h
  simp only at h
  split at h
  · cases h
  · split at h
    · cases h
    · split at h
      · cases h
      · split at h
        · cases h
        · split at h
          · cases h
          · split at h
            · cases h
            · rename_i cs al2 hc
              injection h with h1 h2
              injection h1 with h1
              subst h1
              exact sv1Comps_sel _ _ _ _ _ _ _ _ (by intro c hc; cases hc) hc

theorem sv1Selectors_sel (n : Nat) (data : Bytes) (comps cs : List (Nat × Nat)) (ha : Sel4 comps)
    (h : sv1Selectors n data comps = some cs) : Sel4 cs := by
  induction n generalizing data comps with
  | zero => simp [sv1Selectors] at h; subst h; exact ha
  | succ n ih =>
    match data with
    | c :: td :: rest =>
      unfold sv1Selectors at h
      split at h
      · cases h
      · split at h
        · cases h
        · rename_i k hk htd
          apply ih rest _ _ h
          intro x hx
          rcases List.mem_or_eq_of_mem_set hx with hx | hx
          · exact ha x hx
          · subst hx; simp; omega
    | [] => simp [sv1Selectors] at h
    | [_] => simp [sv1Selectors] at h

theorem sv1SOS_sel (st st' : Sv1) (data : Bytes) (ha : Sel4 st.comps) (h : sv1SOS st data = some st') :
    Sel4 st'.comps := by
  unfold sv1SOS at h
  split at h
  · cases h
  · split at h
    · cases h
    · split at h
      · cases h
      · rename_i cs hs
        split at h
        · cases h
        · injection h with h; subst h; exact sv1Selectors_sel _ _ _ _ ha hs

theorem buildCodes_site (nv l n p : Nat) : buildCodes nv l n p ≠ .panic .sv1TableSel := by
  induction n generalizing p with
  | zero => simp [buildCodes]
  | succ n ih =>
    unfold buildCodes
    split
    · simp
    · split
      · simp
      · exact ih _

theorem buildLens_site (nv : Nat) (bits : List Nat) (l p : Nat) : buildLens nv bits l p ≠ .panic .sv1TableSel := by
  induction bits generalizing l p with
  | nil => simp [buildLens]
  | cons n bits ih =>
    unfold buildLens
    split
    · simp
    · have hc := buildCodes_site nv l n p
      cases hb : buildCodes nv l n p with
      | ok p' => simp only; exact ih _ _
      | err => simp
      | panic s => simp only; intro h; injection h with h; subst h; exact hc hb
      | scan => simp

theorem dhtTable_site (maxTh : Nat) (data : Bytes) : dhtTable maxTh data ≠ .panic .sv1TableSel := by
  unfold dhtTable
  split
  · simp
  · simp only
    split
    · simp
    · split
      · simp
      · split
        · simp
        · have hb := buildLens_site ((List.take 16 ‹Bytes›).foldl (· + ·) 0) (List.take 16 ‹Bytes›) 0 0
          unfold build
          split
          · simp
          · simp
          · rename_i s hs
            intro h; injection h with h; subst h
            exact hb hs
          · simp

end JM

namespace JlsH

theorem wrap64_id (x : Int) (h1 : -2 ^ 63 ≤ x) (h2 : x < 2 ^ 63) : wrap64 x = x := by
  unfold wrap64; omega

/-- for precisions below 64 MAXVAL + 1 is not zero -/
theorem maxValOf_succ_ne_zero (p : Nat) (hp : p < 64) : wrap64 (maxValOf p + 1) ≠ 0 := by
  have hcases : p ≤ 62 ∨ p = 63 := by omega
  rcases hcases with h | h
  · have h2 : (2 : Int) ^ p ≤ 2 ^ 62 := by
      have : (2 : Nat) ^ p ≤ 2 ^ 62 := Nat.pow_le_pow_right (by omega) h
      exact_mod_cast this
    have h3 : (0 : Int) < 2 ^ p := by
      have : 0 < (2 : Nat) ^ p := Nat.two_pow_pos p
      exact_mod_cast this
    have hn : ¬ p ≥ 64 := by omega
    unfold maxValOf
    rw [if_neg hn]
    rw [wrap64_id (2 ^ p) (by omega) (by omega)]
    rw [wrap64_id (2 ^ p - 1) (by omega) (by omega)]
    rw [wrap64_id (2 ^ p - 1 + 1) (by omega) (by omega)]
    omega
  · subst h; decide

theorem maxValOf_ge (p : Nat) : -1 ≤ maxValOf p := by
  have hcases : p ≤ 62 ∨ p = 63 ∨ p ≥ 64 := by omega
  rcases hcases with h | h | h
  · have h2 : (2 : Int) ^ p ≤ 2 ^ 62 := by
      have : (2 : Nat) ^ p ≤ 2 ^ 62 := Nat.pow_le_pow_right (by omega) h
      exact_mod_cast this
    have h3 : (0 : Int) < 2 ^ p := by
      have : 0 < (2 : Nat) ^ p := Nat.two_pow_pos p
      exact_mod_cast this
    have hn : ¬ p ≥ 64 := by omega
    unfold maxValOf
    rw [if_neg hn]
    rw [wrap64_id (2 ^ p) (by omega) (by omega)]
    rw [wrap64_id (2 ^ p - 1) (by omega) (by omega)]
    omega
  · subst h; decide
  · unfold maxValOf
    rw [if_pos h]
    decide

theorem computeThresholds_some (mv : Int) (h : wrap64 (mv + 1) ≠ 0) (hlo : -1 ≤ mv) :
    (computeThresholds mv 0).isSome := by
  unfold computeThresholds
  simp only
  by_cases h128 : mv ≥ 128
  · rw [if_pos h128]; rfl
  · have hw : wrap64 (mv + 1) = mv + 1 := wrap64_id _ (by omega) (by omega)
    rw [if_neg h128, if_neg h]
    have hpos : 0 < mv + 1 := by rw [hw] at h; omega
    have hf : (256 : Int).tdiv (wrap64 (mv + 1)) ≠ 0 := by
      rw [hw]
      intro h0
      have h1 : (256 : Int).tdiv (mv + 1) = 256 / (mv + 1) := Int.tdiv_eq_ediv_of_nonneg (by omega)
      rw [h1] at h0
      have h2 := Int.mul_ediv_add_emod 256 (mv + 1)
      have h3 := Int.emod_lt_of_pos 256 hpos
      rw [h0] at h2
      omega
    rw [if_neg hf]
    rfl

end JlsH

namespace J2kH

/-- skipSegment after the two marker bytes: net progress of one "unknown marker" iteration ≥ 2,
    also for the length fields 0 and 1 that move the offset backwards -/
theorem skip_iteration_progress (a b : Nat) (rest r : Bytes) (h : skipSegment rest = some r) :
    r.length + 2 ≤ (a :: b :: rest).length := by
  have := skipSegment_le h
  simp; omega

end J2kH
