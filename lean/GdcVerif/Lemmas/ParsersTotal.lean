import GdcVerif.Model.JpegMarkers
import GdcVerif.Model.JlsHeader
import GdcVerif.Model.J2kHeader
/-! Proofs behind the parser parts of `Props/C08.lean` / `Props/C09.lean`. -/
namespace JM
open PC

theorem segTurn_done {σ : Type} {st st' : σ} {rest : Bytes} {fail : σ → Nat → σ} {h : Bytes → Nat → H σ} {o : Res}
    (hs : segTurn st rest fail h = .done st' o) :
    o = .err ∨ ∃ pl u, h pl u = .stop st' o := by
  unfold segTurn at hs
  split at hs
  · injection hs with _ h2; exact Or.inl h2.symm
  · split at hs
    · cases hs
    · injection hs with h1 h2; subst h1; subst h2
      exact Or.inr ⟨_, _, by assumption⟩

theorem segTurn_more {σ : Type} {st st' : σ} {rest r : Bytes} {fail : σ → Nat → σ} {h : Bytes → Nat → H σ}
    (hs : segTurn st rest fail h = .more st' r) : ∃ pl u, h pl u = .cont st' := by
  unfold segTurn at hs
  split at hs
  · cases hs
  · split at hs
    · injection hs with h1 _; subst h1
      exact ⟨_, _, by assumption⟩
    · cases hs

/-! Build -/
theorem buildCodes_total (nv l n p : Nat) (s : Site) : buildCodes nv l n p ≠ .error (.panic s) := by
  induction n generalizing p with
  | zero => simp [buildCodes]
  | succ n ih =>
    unfold buildCodes
    generalize (p + 1) * 2 ^ (7 - l) = x
    by_cases hg : x > 256 ∨ p ≥ nv
    · rw [if_pos hg]; simp
    · rw [if_neg hg]
      have h1 : ¬ x - 1 ≥ 256 := by omega
      have h2 : ¬ p ≥ nv := by omega
      rw [if_neg h1, if_neg h2]
      exact ih _

theorem buildLens_total (nv : Nat) (bits : List Nat) (l p : Nat) (s : Site) :
    buildLens nv bits l p ≠ .error (.panic s) := by
  induction bits generalizing l p with
  | nil => simp [buildLens]
  | cons n bits ih =>
    unfold buildLens
    split
    · simp
    · have hc := buildCodes_total nv l n p s
      cases hb : buildCodes nv l n p with
      | ok p' => simp only; exact ih _ _
      | error e => simp only; intro h; injection h with h; subst h; exact hc hb

theorem dhtTable_total (maxTh : Nat) (data : Bytes) (s : Site) : dhtTable maxTh data ≠ .error (.panic s) := by
  unfold dhtTable
  split
  · simp
  · simp only
    repeat' split
    all_goals first
      | (simp; done)
      | (rename_i e he
         intro h; injection h with h; subst h
         exact buildLens_total _ _ 0 0 s he)

theorem parseDHT_total (maxTh : Nat) (data : Bytes) (dc ac : List Bool) (s : Site) :
    parseDHT maxTh data dc ac ≠ .error (.panic s) := by
  induction hn : data.length using Nat.strongRecOn generalizing data dc ac with
  | _ n ih =>
    unfold parseDHT
    split
    · simp
    · rename_i b tl
      split
      · rename_i tc th rest hd
        have hlt := dhtTable_lt hd
        split
        · exact ih rest.length (by omega) rest _ _ rfl
        · exact ih rest.length (by omega) rest _ _ rfl
      · rename_i e hd
        intro h; injection h with h; subst h
        exact dhtTable_total _ _ s hd

/-! SV1 -/
def Sel4 (cs : List (Nat × Nat)) : Prop := ∀ c ∈ cs, c.2 < 4

theorem sv1Comps_sel (w h n : Nat) (data : Bytes) (acc : List (Nat × Nat)) (al : List Nat)
    (cs : List (Nat × Nat)) (al' : List Nat) (ha : Sel4 acc)
    (h : sv1Comps w h n data acc al = (some cs, al')) : Sel4 cs := by
  induction n generalizing data acc al with
  | zero => simp [sv1Comps] at h; rw [← h.1]; exact ha
  | succ n ih =>
    match data with
    | id :: hv :: tq :: rest =>
      unfold sv1Comps at h
      try simp only at h
      split at h
      · cases h
      · apply ih rest (acc ++ [(id, 0)]) _ _ h
        intro c hc
        rw [List.mem_append] at hc
        rcases hc with hc | hc
        · exact ha c hc
        · simp at hc; subst hc; simp
    | [] => simp [sv1Comps] at h
    | [_] => simp [sv1Comps] at h
    | [_, _] => simp [sv1Comps] at h

theorem sv1SOF3_sel (st st' : Sv1) (data : Bytes) (al : List Nat) (h : sv1SOF3 st data = ((true, st'), al)) :
    Sel4 st'.comps := by
  unfold sv1SOF3 at h
  try simp only at h
  repeat' split at h
  all_goals first
    | (cases h; done)
    | (cases h
       exact sv1Comps_sel _ _ _ _ [] _ _ _ (by intro c hc; cases hc) ‹sv1Comps _ _ _ _ _ _ = _›)

theorem sv1Selectors_sel (n : Nat) (data : Bytes) (comps cs : List (Nat × Nat)) (ha : Sel4 comps)
    (h : sv1Selectors n data comps = some cs) : Sel4 cs := by
  induction n generalizing data comps with
  | zero => simp [sv1Selectors] at h; subst h; exact ha
  | succ n ih =>
    match data with
    | c :: td :: rest =>
      unfold sv1Selectors at h
      split at h
      · cases h
      · split at h
        · cases h
        · apply ih rest _ _ h
          intro x hx
          rcases List.mem_or_eq_of_mem_set hx with hx | hx
          · exact ha x hx
          · subst hx; simp; omega
    | [] => simp [sv1Selectors] at h
    | [_] => simp [sv1Selectors] at h

theorem sv1SOS_sel (st st' : Sv1) (data : Bytes) (ha : Sel4 st.comps) (h : sv1SOS st data = some st') :
    Sel4 st'.comps := by
  unfold sv1SOS at h
  split at h
  · cases h
  · split at h
    · cases h
    · split at h
      · cases h
      · rename_i cs hs
        split at h
        · cases h
        · injection h with h; subst h; exact sv1Selectors_sel _ _ _ _ ha hs

theorem sv1ScanStart_total (st : Sv1) (h : Sel4 st.comps) (s : Site) : sv1ScanStart st ≠ .panic s := by
  unfold sv1ScanStart
  split
  · simp
  · split
    · simp
    · rename_i id sel rest hc
      have : sel < 4 := h (id, sel) (by rw [hc]; simp)
      have hn : ¬ sel ≥ 4 := by omega
      rw [if_neg hn]
      split <;> simp

theorem sv1Step_more_inv {st st' : Sv1} {bs r : Bytes} (hi : Sel4 st.comps)
    (h : sv1Step st bs = .more st' r) : Sel4 st'.comps := by
  unfold sv1Step at h
  split at h
  · cases h
  · try simp only at h
    split at h
    · obtain ⟨pl, u, hh⟩ := segTurn_more h
      try simp only at hh
      split at hh
      · cases hh
      · rename_i st2 al hs
        injection hh with hh; subst hh
        show Sel4 st2.comps; exact sv1SOF3_sel st st2 _ _ hs
    · split at h
      · obtain ⟨pl, u, hh⟩ := segTurn_more h
        try simp only at hh
        split at hh
        · injection hh with hh; subst hh; exact hi
        · cases hh
      · split at h
        · obtain ⟨pl, u, hh⟩ := segTurn_more h
          try simp only at hh
          repeat' split at hh
          all_goals cases hh
        · split at h
          · cases h
          · split at h
            · obtain ⟨pl, u, hh⟩ := segTurn_more h
              try simp only at hh
              injection hh with hh; subst hh; exact hi
            · injection h with h1 _; subst h1; exact hi

theorem sv1Step_done_total {st st' : Sv1} {bs : Bytes} {o : Res} (hi : Sel4 st.comps)
    (h : sv1Step st bs = .done st' o) (s : Site) : o ≠ .panic s := by
  unfold sv1Step at h
  split at h
  · injection h with _ h2; subst h2; simp
  · try simp only at h
    split at h
    · rcases segTurn_done h with he | ⟨pl, u, hh⟩
      · subst he; simp
      · try simp only at hh
        split at hh
        · injection hh with _ h2; subst h2; simp
        · cases hh
    · split at h
      · rcases segTurn_done h with he | ⟨pl, u, hh⟩
        · subst he; simp
        · try simp only at hh
          split at hh
          · cases hh
          · rename_i e hp
            injection hh with _ h2; subst h2
            intro hc; subst hc
            exact parseDHT_total _ _ _ _ s hp
      · split at h
        · rcases segTurn_done h with he | ⟨pl, u, hh⟩
          · subst he; simp
          · try simp only at hh
            split at hh
            · injection hh with _ h2; subst h2; simp
            · rename_i st2 hs
              have hsel := sv1SOS_sel _ _ _ hi hs
              have hsc := sv1ScanStart_total st2 hsel s
              split at hh
              · injection hh with _ h2; subst h2; simp
              · rename_i r hr
                injection hh with _ h2; subst h2
                exact hsc
        · split at h
          · injection h with _ h2; subst h2; simp
          · split at h
            · rcases segTurn_done h with he | ⟨pl, u, hh⟩
              · subst he; simp
              · cases hh
            · cases h

/-- FULL: `lossless14sv1.Decode`, up to the first Huffman symbol, has no panic outcome -/
theorem sv1Decode_total (bs : Bytes) (s : Site) : (sv1Decode bs).2 ≠ .panic s := by
  unfold sv1Decode
  split
  · simp
  · split
    · simp
    · exact run_inv sv1Step sv1Step_lt (fun st _ => Sel4 st.comps) (fun p => p.2 ≠ .panic s)
        (fun st bs st' r hi h => sv1Step_more_inv hi h)
        (fun st bs st' o hi h => sv1Step_done_total hi h s) {} _ (by intro c hc; cases hc)
end JM

namespace JM
open PC

/-! jpeg/lossless -/
def JllInv (st : Jll) : Prop := st.comps ≤ 3 ∧ st.sels.length = 3 ∧ ∀ x ∈ st.sels, x < 4

theorem jllSOF3_inv {st st' : Jll} {data : Bytes} (hi : JllInv st) (h : jllSOF3 st data = some st') : JllInv st' := by
  unfold jllSOF3 at h
  simp only at h
  repeat' split at h
  all_goals first
    | (cases h; done)
    | (injection h with h; subst h
       refine ⟨?_, hi.2.1, hi.2.2⟩
       show data.getD 5 0 ≤ 3
       omega)

theorem jllSelectors_ok (data : Bytes) (ncomp : Nat) (hn : ncomp ≤ 3) (hl : 1 + ncomp * 2 + 3 ≤ data.length)
    (k : Nat) (hk : k ≤ ncomp) (sels : List Nat) (h3 : sels.length = 3) (h4 : ∀ x ∈ sels, x < 4) :
    (∀ s, jllSelectors data ncomp k sels ≠ .error (.panic s)) ∧
    (∀ r, jllSelectors data ncomp k sels = .ok r → r.length = 3 ∧ ∀ x ∈ r, x < 4) := by
  induction k generalizing sels with
  | zero =>
    constructor
    · intro s; simp [jllSelectors]
    · intro r hr; simp [jllSelectors] at hr; subst hr; exact ⟨h3, h4⟩
  | succ k ih =>
    unfold jllSelectors
    simp only
    have h1 : ¬ 2 + (ncomp - (k + 1)) * 2 ≥ data.length := by omega
    have h2 : ¬ ncomp - (k + 1) ≥ 3 := by omega
    rw [if_neg h1]
    by_cases hs : data.getD (2 + (ncomp - (k + 1)) * 2) 0 / 16 ≥ 4
    · rw [if_pos hs]; constructor
      · intro s; simp
      · intro r hr; cases hr
    · rw [if_neg hs, if_neg h2]
      apply ih (by omega)
      · simp [h3]
      · intro x hx
        rcases List.mem_or_eq_of_mem_set hx with hx | hx
        · exact h4 x hx
        · subst hx; omega

theorem jllSOS_spec {st : Jll} {data : Bytes} (hi : JllInv st) :
    (∀ s, jllSOS st data ≠ .error (.panic s)) ∧ (∀ st', jllSOS st data = .ok st' → JllInv st') := by
  unfold jllSOS
  by_cases h1 : data.length < 1 + st.comps * 2 + 3
  · rw [if_pos h1]; exact ⟨by intro s; simp, by intro st' h; cases h⟩
  rw [if_neg h1]
  by_cases h2 : data.getD 0 0 ≠ st.comps
  · rw [if_pos h2]; exact ⟨by intro s; simp, by intro st' h; cases h⟩
  rw [if_neg h2]
  simp only
  by_cases h3 : data.getD (1 + st.comps * 2) 0 < 1 ∨ data.getD (1 + st.comps * 2) 0 > 7
  · rw [if_pos h3]; exact ⟨by intro s; simp, by intro st' h; cases h⟩
  rw [if_neg h3]
  have hs := jllSelectors_ok data st.comps hi.1 (by omega) st.comps (Nat.le_refl _) st.sels hi.2.1 hi.2.2
  cases hj : jllSelectors data st.comps st.comps st.sels with
  | ok r =>
    simp only
    refine ⟨by intro s; simp, ?_⟩
    intro st' h; injection h with h; subst h
    exact ⟨hi.1, hs.2 r hj⟩
  | error e =>
    simp only
    refine ⟨?_, by intro st' h; cases h⟩
    intro s h; injection h with h; subst h; exact hs.1 s hj

theorem jllScanStart_total (st : Jll) (hi : JllInv st) (s : Site) : jllScanStart st ≠ .panic s := by
  unfold jllScanStart
  split
  · simp
  · simp only
    have : st.sels.getD 0 0 < 4 := by
      obtain ⟨_, h3, h4⟩ := hi
      match hs : st.sels with
      | [] => rw [hs] at h3; simp at h3
      | x :: _ => simp; exact h4 x (by rw [hs]; simp)
    have hn : ¬ st.sels.getD 0 0 ≥ 4 := by omega
    rw [if_neg hn]
    split <;> simp

theorem jllStep_more_inv {st st' : Jll} {bs r : Bytes} (hi : JllInv st)
    (h : jllStep st bs = .more st' r) : JllInv st' := by
  unfold jllStep at h
  split at h
  · cases h
  · try simp only at h
    split at h
    · obtain ⟨pl, u, hh⟩ := segTurn_more h
      try simp only at hh
      split at hh
      · cases hh
      · rename_i st2 hs
        injection hh with hh; subst hh
        exact (jllSOF3_inv hi hs : JllInv st2)
    · split at h
      · obtain ⟨pl, u, hh⟩ := segTurn_more h
        try simp only at hh
        split at hh
        · injection hh with hh; subst hh; exact hi
        · cases hh
      · split at h
        · obtain ⟨pl, u, hh⟩ := segTurn_more h
          try simp only at hh
          repeat' split at hh
          all_goals cases hh
        · split at h
          · cases h
          · split at h
            · obtain ⟨pl, u, hh⟩ := segTurn_more h
              try simp only at hh
              injection hh with hh; subst hh; exact hi
            · injection h with h1 _; subst h1; exact hi

theorem jllStep_done_total {st st' : Jll} {bs : Bytes} {o : Res} (hi : JllInv st)
    (h : jllStep st bs = .done st' o) (s : Site) : o ≠ .panic s := by
  unfold jllStep at h
  split at h
  · injection h with _ h2; subst h2; simp
  · try simp only at h
    split at h
    · rcases segTurn_done h with he | ⟨pl, u, hh⟩
      · subst he; simp
      · try simp only at hh
        split at hh
        · injection hh with _ h2; subst h2; simp
        · cases hh
    · split at h
      · rcases segTurn_done h with he | ⟨pl, u, hh⟩
        · subst he; simp
        · try simp only at hh
          split at hh
          · cases hh
          · rename_i e hp
            injection hh with _ h2; subst h2
            intro hc; subst hc
            exact parseDHT_total _ _ _ _ s hp
      · split at h
        · rcases segTurn_done h with he | ⟨pl, u, hh⟩
          · subst he; simp
          · try simp only at hh
            have hsp := @jllSOS_spec st pl hi
            split at hh
            · rename_i e he
              injection hh with _ h2; subst h2
              intro hc; subst hc; exact hsp.1 s he
            · rename_i st2 hs
              have hsc := jllScanStart_total st2 (hsp.2 st2 hs) s
              split at hh
              · injection hh with _ h2; subst h2; simp
              · injection hh with _ h2; subst h2; exact hsc
        · split at h
          · injection h with _ h2; subst h2; simp
          · split at h
            · rcases segTurn_done h with he | ⟨pl, u, hh⟩
              · subst he; simp
              · cases hh
            · cases h

/-- FULL: `jpeg/lossless.Decode`, up to the first Huffman symbol, has no panic outcome -/
theorem jllDecode_total (bs : Bytes) (s : Site) : (jllDecode bs).2 ≠ .panic s := by
  unfold jllDecode
  split
  · simp
  · split
    · simp
    · exact run_inv jllStep jllStep_lt (fun st _ => JllInv st) (fun p => p.2 ≠ .panic s)
        (fun st bs st' r hi h => jllStep_more_inv hi h)
        (fun st bs st' o hi h => jllStep_done_total hi h s) {} _
        ⟨by decide, by decide, by decide⟩
end JM

namespace JM
open PC

/-! baseline -/
def BlInv (st : Bl) : Prop := ∀ c ∈ st.comps, c.td < 4

theorem foldl_max_ge (f : BlComp → Nat) (cs : List BlComp) (init : Nat) :
    init ≤ cs.foldl (fun m c => max m (f c)) init := by
  induction cs generalizing init with
  | nil => simp
  | cons c cs ih => simp only [List.foldl_cons]; have := ih (max init (f c)); omega

theorem maxOf_pos (f : BlComp → Nat) (cs : List BlComp) : 1 ≤ maxOf f cs := foldl_max_ge f cs 1

theorem divCeil_some (a b : Nat) (hb : b ≠ 0) : divCeil a b = some ((a + b - 1) / b) := by
  unfold divCeil; rw [if_neg hb]

theorem blCompAllocs_total (w h maxH maxV : Nat) (hH : 1 ≤ maxH) (hV : 1 ≤ maxV) (cs : List BlComp) (s : Site) :
    blCompAllocs w h maxH maxV cs ≠ .error (.panic s) := by
  induction cs with
  | nil => simp [blCompAllocs]
  | cons c cs ih =>
    unfold blCompAllocs
    rw [divCeil_some _ _ (by omega), divCeil_some _ _ (by omega)]
    simp only
    cases hb : blCompAllocs w h maxH maxV cs with
    | ok al => simp
    | error e => simp only; intro hc; injection hc with hc; subst hc; exact ih hb

theorem blComps_td (n : Nat) (data : Bytes) (acc cs : List BlComp) (ha : ∀ c ∈ acc, c.td < 4)
    (h : blComps n data acc = some cs) : ∀ c ∈ cs, c.td < 4 := by
  induction n generalizing data acc with
  | zero => simp [blComps] at h; subst h; exact ha
  | succ n ih =>
    match data with
    | id :: hv :: tq :: rest =>
      unfold blComps at h
      simp only at h
      split at h
      · cases h
      · apply ih rest _ _ h
        intro c hc
        rw [List.mem_append] at hc
        rcases hc with hc | hc
        · exact ha c hc
        · simp at hc; subst hc; simp
    | [] => simp [blComps] at h
    | [_] => simp [blComps] at h
    | [_, _] => simp [blComps] at h

theorem blSOF_total (st : Bl) (data : Bytes) (s : Site) : blSOF st data ≠ .error (.panic s) := by
  unfold blSOF
  simp only
  repeat' split
  all_goals first
    | (simp; done)
    | (exfalso
       rename_i hd
       rw [divCeil_some _ _ (by have := maxOf_pos (·.h) ‹List BlComp›; omega)] at hd
       cases hd)
    | (exfalso
       rename_i hd
       rw [divCeil_some _ _ (by have := maxOf_pos (·.v) ‹List BlComp›; omega)] at hd
       cases hd)
    | (intro h; injection h with h; subst h
       exact blCompAllocs_total _ _ _ _ (maxOf_pos _ _) (maxOf_pos _ _) _ s ‹blCompAllocs _ _ _ _ _ = _›)

theorem blSOF_inv {st st' : Bl} {data : Bytes} {al : List Nat} (h : blSOF st data = .ok (st', al)) : BlInv st' := by
  unfold blSOF at h
  simp only at h
  repeat' split at h
  all_goals first
    | (cases h; done)
    | (cases h
       intro c hc
       exact blComps_td _ _ [] _ (by intro c hc; cases hc) ‹blComps _ _ _ = _› c hc)

theorem blDQT_total (data : Bytes) (s : Site) : blDQT data ≠ .panic s := by
  induction hn : data.length using Nat.strongRecOn generalizing data with
  | _ n ih =>
    unfold blDQT
    split
    · simp
    · rename_i b rest
      simp only
      by_cases h1 : b % 16 > 3
      · rw [if_pos h1]; simp
      · rw [if_neg h1]
        have h2 : ¬ b % 16 ≥ 4 := by omega
        rw [if_neg h2]
        generalize hnn : (if b / 16 = 0 then 64 else 128) = nn
        have hpos : nn ≥ 64 := by subst hnn; split <;> omega
        by_cases h3 : rest.length < nn
        · rw [if_pos h3]; simp
        · rw [if_neg h3]
          exact ih (rest.drop nn).length (by subst hn; simp [List.length_drop]; omega) _ rfl

theorem blSelectors_td (n : Nat) (data : Bytes) (comps cs : List BlComp) (ha : ∀ c ∈ comps, c.td < 4)
    (h : blSelectors n data comps = some cs) : ∀ c ∈ cs, c.td < 4 := by
  induction n generalizing data comps with
  | zero => simp [blSelectors] at h; subst h; exact ha
  | succ n ih =>
    match data with
    | c :: td :: rest =>
      unfold blSelectors at h
      split at h
      · split at h
        · cases h
        · apply ih rest _ _ h
          intro x hx
          rcases List.mem_or_eq_of_mem_set hx with hx | hx
          · exact ha x hx
          · subst hx; simp; omega
      · cases h
    | [] => simp [blSelectors] at h
    | [_] => simp [blSelectors] at h

theorem blSOS_inv {st st' : Bl} {data : Bytes} (hi : BlInv st) (h : blSOS st data = some st') : BlInv st' := by
  unfold blSOS at h
  split at h
  · cases h
  · split at h
    · cases h
    · split at h
      · cases h
      · injection h with h; subst h
        exact blSelectors_td _ _ _ _ hi ‹blSelectors _ _ _ = _›

theorem blScanStart_total (st : Bl) (hi : BlInv st) (s : Site) : blScanStart st ≠ .panic s := by
  unfold blScanStart
  split
  · simp
  · rename_i hm
    rw [divCeil_some _ _ (by omega), divCeil_some _ _ (by omega)]
    simp only
    split
    · simp
    · split
      · simp
      · rename_i c rest hc
        have : c.td < 4 := hi c (by rw [hc]; simp)
        have hn : ¬ c.td ≥ 4 := by omega
        rw [if_neg hn]
        split <;> simp

theorem blStep_more_inv {st st' : Bl} {bs r : Bytes} (hi : BlInv st)
    (h : blStep st bs = .more st' r) : BlInv st' := by
  unfold blStep at h
  split at h
  · cases h
  · try simp only at h
    split at h
    · obtain ⟨pl, u, hh⟩ := segTurn_more h
      try simp only at hh
      split at hh
      · rename_i st2 al hs
        injection hh with hh; subst hh
        exact (blSOF_inv hs : BlInv st2)
      · cases hh
    · split at h
      · obtain ⟨pl, u, hh⟩ := segTurn_more h
        try simp only at hh
        split at hh
        · injection hh with hh; subst hh; exact hi
        · cases hh
      · split at h
        · obtain ⟨pl, u, hh⟩ := segTurn_more h
          try simp only at hh
          split at hh
          · injection hh with hh; subst hh; exact hi
          · cases hh
        · split at h
          · obtain ⟨pl, u, hh⟩ := segTurn_more h
            try simp only at hh
            split at hh
            · cases hh
            · injection hh with hh; subst hh; exact hi
          · split at h
            · obtain ⟨pl, u, hh⟩ := segTurn_more h
              try simp only at hh
              split at hh <;> cases hh
            · split at h
              · cases h
              · split at h
                · obtain ⟨pl, u, hh⟩ := segTurn_more h
                  try simp only at hh
                  injection hh with hh; subst hh; exact hi
                · injection h with h1 _; subst h1; exact hi

theorem blStep_done_total {st st' : Bl} {bs : Bytes} {o : Res} (hi : BlInv st)
    (h : blStep st bs = .done st' o) (s : Site) : o ≠ .panic s := by
  unfold blStep at h
  split at h
  · injection h with _ h2; subst h2; simp
  · try simp only at h
    split at h
    · rcases segTurn_done h with he | ⟨pl, u, hh⟩
      · subst he; simp
      · try simp only at hh
        split at hh
        · cases hh
        · rename_i e he
          injection hh with _ h2; subst h2
          intro hc; subst hc; exact blSOF_total _ _ s he
    · split at h
      · rcases segTurn_done h with he | ⟨pl, u, hh⟩
        · subst he; simp
        · try simp only at hh
          split at hh
          · cases hh
          · rename_i r hr _
            injection hh with _ h2; subst h2
            exact blDQT_total pl s
      · split at h
        · rcases segTurn_done h with he | ⟨pl, u, hh⟩
          · subst he; simp
          · try simp only at hh
            split at hh
            · cases hh
            · rename_i e hp
              injection hh with _ h2; subst h2
              intro hc; subst hc
              exact parseDHT_total _ _ _ _ s hp
        · split at h
          · rcases segTurn_done h with he | ⟨pl, u, hh⟩
            · subst he; simp
            · try simp only at hh
              split at hh
              · injection hh with _ h2; subst h2; simp
              · cases hh
          · split at h
            · rcases segTurn_done h with he | ⟨pl, u, hh⟩
              · subst he; simp
              · try simp only at hh
                split at hh
                · injection hh with _ h2; subst h2; simp
                · rename_i st2 hs
                  injection hh with _ h2; subst h2
                  exact blScanStart_total st2 (blSOS_inv hi hs) s
            · split at h
              · injection h with _ h2; subst h2; simp
              · split at h
                · rcases segTurn_done h with he | ⟨pl, u, hh⟩
                  · subst he; simp
                  · cases hh
                · cases h

/-- FULL: `baseline.Decode`, up to the first Huffman symbol, has no panic outcome -/
theorem blDecode_total (bs : Bytes) (s : Site) : (blDecode bs).2 ≠ .panic s := by
  unfold blDecode
  split
  · simp
  · split
    · simp
    · exact run_inv blStep blStep_lt (fun st _ => BlInv st) (fun p => p.2 ≠ .panic s)
        (fun st bs st' r hi h => blStep_more_inv hi h)
        (fun st bs st' o hi h => blStep_done_total hi h s) {} _ (by intro c hc; cases hc)
end JM

namespace JlsH
open PC JM

theorem wrap64_id (x : Int) (h1 : -2 ^ 63 ≤ x) (h2 : x < 2 ^ 63) : wrap64 x = x := by
  unfold wrap64; omega

/-- the divisions of computeThresholds are safe for every non-negative MAXVAL -/
theorem thresholdsDivOk_of_nonneg (mv : Int) (h : 0 ≤ mv) : thresholdsDivOk mv = true := by
  unfold thresholdsDivOk
  by_cases h128 : mv ≥ 128
  · rw [if_pos h128]
  · rw [if_neg h128]
    have hw : wrap64 (mv + 1) = mv + 1 := wrap64_id _ (by omega) (by omega)
    rw [hw]
    have h0 : ¬ mv + 1 = 0 := by omega
    rw [if_neg h0]
    have hf : ¬ (256 : Int).tdiv (mv + 1) = 0 := by
      intro h0'
      have h1 : (256 : Int).tdiv (mv + 1) = 256 / (mv + 1) := Int.tdiv_eq_ediv_of_nonneg (by omega)
      rw [h1] at h0'
      have h2 := Int.mul_ediv_add_emod 256 (mv + 1)
      have h3 := Int.emod_lt_of_pos 256 (show (0 : Int) < mv + 1 by omega)
      rw [h0'] at h2
      omega
    rw [if_neg hf]

/-- 2·near+1 is odd, so it is not 0 modulo 2^64: the range division of ComputeCodingParameters is safe -/
theorem codingParamsPanic_none (mv : Int) (near : Nat) (h : 0 ≤ mv) : codingParamsPanic mv near = none := by
  unfold codingParamsPanic
  have h1 : ¬ ((near : Int) > 0 ∧ wrap64 (2 * (near : Int) + 1) = 0) := by
    intro ⟨_, hw⟩
    unfold wrap64 at hw
    omega
  rw [if_neg h1, thresholdsDivOk_of_nonneg mv h]
  rfl

theorem maxValOf_nonneg (p : Nat) (h2 : 2 ≤ p) (h16 : p ≤ 16) : 0 ≤ maxValOf p := by
  have : p = 2 ∨ p = 3 ∨ p = 4 ∨ p = 5 ∨ p = 6 ∨ p = 7 ∨ p = 8 ∨ p = 9 ∨ p = 10 ∨ p = 11 ∨ p = 12 ∨
      p = 13 ∨ p = 14 ∨ p = 15 ∨ p = 16 := by omega
  rcases this with h | h | h | h | h | h | h | h | h | h | h | h | h | h | h <;> subst h <;> decide

theorem sofFields_p {data : Bytes} {p h w nc : Nat} (hs : sofFields data = some (p, h, w, nc)) : 2 ≤ p ∧ p ≤ 16 := by
  unfold sofFields at hs
  simp only at hs
  repeat' split at hs
  all_goals first
    | (cases hs; done)
    | (injection hs with hs; injection hs with h1 _; subst h1; omega)

def Inv (st : St) : Prop := 0 ≤ st.maxVal

theorem sof55Core_spec (st : St) (data : Bytes) :
    (∀ st' s, sof55Core st data ≠ .stop st' (.panic s)) ∧ (∀ st', sof55Core st data = .cont st' → Inv st') := by
  unfold sof55Core
  cases hs : sofFields data with
  | none => exact ⟨by intro st' s; simp, by intro st' h; cases h⟩
  | some q =>
    obtain ⟨p, h, w, nc⟩ := q
    have hp := sofFields_p hs
    have hn := maxValOf_nonneg p hp.1 hp.2
    simp only
    have hcp : codingParamsPanic (maxValOf p) 0 = none := codingParamsPanic_none (maxValOf p) 0 hn
    have hcp' : codingParamsPanic (maxValOf p) (0 : Int) = none := by simpa using hcp
    rw [hcp']
    exact ⟨by intro st' s; simp, by intro st' h; injection h with h; subst h; exact hn⟩

theorem sof55_spec (st : St) (data : Bytes) :
    (∀ st' s, sof55 st data ≠ .stop st' (.panic s)) ∧ (∀ st', sof55 st data = .cont st' → Inv st') := by
  unfold sof55
  by_cases hc : st.comps ≠ 0
  · rw [if_pos hc]; exact ⟨(fun st' s h => by cases h), (fun st' h => by cases h)⟩
  · rw [if_neg hc]; exact sof55Core_spec st data

theorem codingParamsPanic_zero (mv : Int) (h : 0 ≤ mv) : codingParamsPanic mv (0 : Int) = none := by
  have := codingParamsPanic_none mv 0 h; simpa using this

theorem lse_mv_nonneg (st : St) (hi : Inv st) (x : Int) : 0 ≤ (if x ≤ 0 then st.maxVal else x) := by
  split
  · exact hi
  · omega

theorem lse_spec (st : St) (data : Bytes) (hi : Inv st) :
    (∀ st' s, lse st data ≠ .stop st' (.panic s)) ∧ (∀ st', lse st data = .cont st' → Inv st') := by
  unfold lse
  split
  · exact ⟨by intro st' s; simp, by intro st' h; cases h⟩
  · split
    · exact ⟨by intro st' s; simp, by intro st' h; injection h with h; subst h; exact hi⟩
    · split
      · exact ⟨by intro st' s; simp, by intro st' h; cases h⟩
      · simp only
        rw [codingParamsPanic_zero _ (lse_mv_nonneg st hi _)]
        exact ⟨by intro st' s; simp, by intro st' h; injection h with h; subst h; exact lse_mv_nonneg st hi _⟩

theorem step_more_inv {st st' : St} {bs r : Bytes} (hi : Inv st) (h : step st bs = .more st' r) : Inv st' := by
  unfold step at h
  split at h
  · cases h
  · try simp only at h
    split at h
    · obtain ⟨pl, u, hh⟩ := segTurn_more h
      exact (sof55_spec _ pl).2 _ hh
    · split at h
      · obtain ⟨pl, u, hh⟩ := segTurn_more h
        exact (lse_spec _ pl (by exact hi)).2 _ hh
      · split at h
        · obtain ⟨pl, u, hh⟩ := segTurn_more h
          try simp only at hh
          split at hh <;> cases hh
        · split at h
          · cases h
          · split at h
            · obtain ⟨pl, u, hh⟩ := segTurn_more h
              try simp only at hh
              injection hh with hh; subst hh; exact hi
            · injection h with h1 _; subst h1; exact hi

theorem step_done_total {st st' : St} {bs : Bytes} {o : Res} (hi : Inv st)
    (h : step st bs = .done st' o) (s : Site) : o ≠ .panic s := by
  unfold step at h
  split at h
  · injection h with _ h2; subst h2; simp
  · try simp only at h
    split at h
    · rcases segTurn_done h with he | ⟨pl, u, hh⟩
      · subst he; simp
      · intro hc; subst hc; exact (sof55_spec _ pl).1 _ s hh
    · split at h
      · rcases segTurn_done h with he | ⟨pl, u, hh⟩
        · subst he; simp
        · intro hc; subst hc; exact (lse_spec _ pl (by exact hi)).1 _ s hh
      · split at h
        · rcases segTurn_done h with he | ⟨pl, u, hh⟩
          · subst he; simp
          · try simp only at hh
            split at hh
            · injection hh with _ h2; subst h2; simp
            · injection hh with _ h2; subst h2; simp
        · split at h
          · injection h with _ h2; subst h2; simp
          · split at h
            · rcases segTurn_done h with he | ⟨pl, u, hh⟩
              · subst he; simp
              · cases hh
            · cases h

/-- FULL: `jpegls/lossless.Decode`, up to the start of the scan, has no panic outcome -/
theorem header_total (bs : Bytes) (s : Site) : (header bs).2 ≠ .panic s := by
  unfold header
  split
  · simp
  · split
    · simp
    · exact run_inv step step_lt (fun st _ => Inv st) (fun p => p.2 ≠ .panic s)
        (fun st bs st' r hi h => step_more_inv hi h)
        (fun st bs st' o hi h => step_done_total hi h s) {} _ (by unfold Inv; decide)

/-! near-lossless -/

theorem nsof55_inv (st : St) (data : Bytes) (st' : St) (h : nsof55 st data = .cont st') : Inv st' := by
  unfold nsof55 at h
  by_cases hc : st.comps ≠ 0
  · rw [if_pos hc] at h; cases h
  rw [if_neg hc] at h
  unfold nsof55Core at h
  cases hs : sofFields data with
  | none => rw [hs] at h; cases h
  | some q =>
    obtain ⟨p, hh, w, nc⟩ := q
    rw [hs] at h
    simp only at h
    injection h with h; subst h
    have hp := sofFields_p hs
    exact maxValOf_nonneg p hp.1 hp.2

theorem nlse_inv (st : St) (data : Bytes) (hi : Inv st) (st' : St) (h : nlse st data = .cont st') : Inv st' := by
  unfold nlse at h
  split at h
  · cases h
  · split at h
    · simp only at h
      injection h with h; subst h
      unfold Inv
      simp only
      split
      · omega
      · exact hi
    · injection h with h; subst h; exact hi

theorem nsos_total (st : St) (data : Bytes) (u : Nat) (hi : Inv st) (st' : St) (s : Site) :
    nsos st data u ≠ .stop st' (.panic s) := by
  unfold nsos
  split
  · simp only
    rw [codingParamsPanic_none st.maxVal _ hi]
    simp
  · simp

theorem nsos_not_cont (st : St) (data : Bytes) (u : Nat) (st' : St) : nsos st data u ≠ .cont st' := by
  unfold nsos
  split
  · simp only; split <;> simp
  · simp

theorem nstep_more_inv {st st' : St} {bs r : Bytes} (hi : Inv st) (h : nstep st bs = .more st' r) : Inv st' := by
  unfold nstep at h
  split at h
  · cases h
  · try simp only at h
    split at h
    · obtain ⟨pl, u, hh⟩ := segTurn_more h
      exact nsof55_inv _ pl _ hh
    · split at h
      · obtain ⟨pl, u, hh⟩ := segTurn_more h
        exact nlse_inv _ pl (by exact hi) _ hh
      · split at h
        · obtain ⟨pl, u, hh⟩ := segTurn_more h
          exact absurd hh (nsos_not_cont _ _ _ _)
        · split at h
          · cases h
          · split at h
            · obtain ⟨pl, u, hh⟩ := segTurn_more h
              try simp only at hh
              injection hh with hh; subst hh; exact hi
            · injection h with h1 _; subst h1; exact hi

theorem nstep_done_total {st st' : St} {bs : Bytes} {o : Res} (hi : Inv st)
    (h : nstep st bs = .done st' o) (s : Site) : o ≠ .panic s := by
  unfold nstep at h
  split at h
  · injection h with _ h2; subst h2; simp
  · try simp only at h
    split at h
    · rcases segTurn_done h with he | ⟨pl, u, hh⟩
      · subst he; simp
      · intro hc; subst hc
        unfold nsof55 nsof55Core at hh
        repeat' split at hh
        all_goals cases hh
    · split at h
      · rcases segTurn_done h with he | ⟨pl, u, hh⟩
        · subst he; simp
        · intro hc; subst hc
          unfold nlse at hh
          repeat' split at hh
          all_goals cases hh
      · split at h
        · rcases segTurn_done h with he | ⟨pl, u, hh⟩
          · subst he; simp
          · intro hc; subst hc; exact nsos_total _ pl u (by exact hi) _ s hh
        · split at h
          · injection h with _ h2; subst h2; simp
          · split at h
            · rcases segTurn_done h with he | ⟨pl, u, hh⟩
              · subst he; simp
              · cases hh
            · cases h

/-- FULL: `jpegls/nearlossless.Decode`, up to the start of the scan, has no panic outcome -/
theorem nheader_total (bs : Bytes) (s : Site) : (nheader bs).2 ≠ .panic s := by
  unfold nheader
  split
  · simp
  · split
    · simp
    · exact run_inv nstep nstep_lt (fun st _ => Inv st) (fun p => p.2 ≠ .panic s)
        (fun st bs st' r hi h => nstep_more_inv hi h)
        (fun st bs st' o hi h => nstep_done_total hi h s) {} _ (by unfold Inv; decide)
end JlsH

/-! ## evaluating the decoders on concrete byte strings (regression examples) -/
namespace JM
open PC
theorem sv1Decode_eval {bs rest : Bytes} {x : Sv1 × Res} (n : Nat) (h1 : readMarker bs = some (0xFFD8, rest))
    (h2 : runN sv1Step n {} rest = some x) : sv1Decode bs = x := by
  unfold sv1Decode; rw [h1]; simp only [ne_eq, not_true_eq_false, if_false]
  exact run_eq_of_runN _ _ n _ _ _ h2
theorem jllDecode_eval {bs rest : Bytes} {x : Jll × Res} (n : Nat) (h1 : readMarker bs = some (0xFFD8, rest))
    (h2 : runN jllStep n {} rest = some x) : jllDecode bs = x := by
  unfold jllDecode; rw [h1]; simp only [ne_eq, not_true_eq_false, if_false]
  exact run_eq_of_runN _ _ n _ _ _ h2
theorem blDecode_eval {bs rest : Bytes} {x : Bl × Res} (n : Nat) (h1 : readMarker bs = some (0xFFD8, rest))
    (h2 : runN blStep n {} rest = some x) : blDecode bs = x := by
  unfold blDecode; rw [h1]; simp only [ne_eq, not_true_eq_false, if_false]
  exact run_eq_of_runN _ _ n _ _ _ h2
end JM
namespace JlsH
open PC JM
theorem header_eval {bs rest : Bytes} {x : St × Res} (n : Nat) (h1 : readMarker bs = some (0xFFD8, rest))
    (h2 : runN step n {} rest = some x) : header bs = x := by
  unfold header; rw [h1]; simp only [ne_eq, not_true_eq_false, if_false]
  exact run_eq_of_runN _ _ n _ _ _ h2
theorem nheader_eval {bs rest : Bytes} {x : St × Res} (n : Nat) (h1 : readMarker bs = some (0xFFD8, rest))
    (h2 : runN nstep n {} rest = some x) : nheader bs = x := by
  unfold nheader; rw [h1]; simp only [ne_eq, not_true_eq_false, if_false]
  exact run_eq_of_runN _ _ n _ _ _ h2
end JlsH
