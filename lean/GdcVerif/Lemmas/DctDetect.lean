import GdcVerif.Model.Dct
/-! detectBitDepth skips segment payloads: whatever bytes DQT/APPn/COM payloads contain, the precision is read
    from the first SOF0..3 header. -/
namespace Dct

theorem detect_skip_seg (fuel m : Nat) (payload rest : List Nat) (hm : plainMarker m = true)
    (hl : payload.length + 2 < 65536) :
    detectLoop (fuel + 1) (segBytes m payload ++ rest) = detectLoop fuel rest := by
  simp only [plainMarker, Bool.and_eq_true, bne_iff_ne, Bool.not_eq_true', Bool.and_eq_false_imp,
    decide_eq_true_eq] at hm
  obtain ⟨⟨⟨⟨⟨h1, h2⟩, h3⟩, h4⟩, h5⟩, h6⟩ := hm
  have e : (payload.length + 2) / 256 * 256 + (payload.length + 2) % 256 = payload.length + 2 := by
    have := Nat.div_add_mod (payload.length + 2) 256; omega
  have h3' : ¬ (m = 1 ∨ 208 ≤ m ∧ m ≤ 215) := by
    intro h; rcases h with h | h
    · exact h2 h
    · have := h3; simp at this; omega
  have h4' : ¬ (192 ≤ m ∧ m ≤ 195) := by
    intro h; have := h4; simp at this; omega
  have h56 : ¬ (m = 218 ∨ m = 217) := by
    intro h; rcases h with h | h
    · exact h5 h
    · exact h6 h
  simp only [segBytes, List.cons_append, List.nil_append, detectLoop]
  simp only [ne_eq, not_true_eq_false, if_false, h1, h3', h4', h56, e]
  rw [if_neg (by omega)]
  congr 1
  have h4e : 2 + (payload.length + 2) = payload.length + 4 := by omega
  rw [h4e]
  simp only [List.drop_succ_cons]
  rw [List.drop_append_of_le_length (Nat.le_refl _), List.drop_length, List.nil_append]

def segsBytes : List (Nat × List Nat) → List Nat
  | [] => []
  | (m, p) :: t => segBytes m p ++ segsBytes t

theorem detect_segments (segs : List (Nat × List Nat)) :
    ∀ (fuel : Nat) (sofm l1 l2 prec : Nat) (tail : List Nat),
    (∀ s ∈ segs, plainMarker s.1 = true ∧ s.2.length + 2 < 65536) →
    192 ≤ sofm ∧ sofm ≤ 195 → segs.length < fuel →
    detectLoop fuel (segsBytes segs ++ 0xFF :: sofm :: l1 :: l2 :: prec :: tail) = if prec = 12 then 12 else 8 := by
  induction segs with
  | nil =>
    intro fuel sofm l1 l2 prec tail _ hs hf
    obtain ⟨k, rfl⟩ : ∃ k, fuel = k + 1 := ⟨fuel - 1, by simp at hf; omega⟩
    have h1 : ¬ sofm = 255 := by omega
    have h2 : ¬ (sofm = 1 ∨ 208 ≤ sofm ∧ sofm ≤ 215) := by omega
    simp [segsBytes, detectLoop, h1, h2, hs]
  | cons s t ih =>
    intro fuel sofm l1 l2 prec tail hall hs hf
    obtain ⟨k, rfl⟩ : ∃ k, fuel = k + 1 := ⟨fuel - 1, by simp at hf; omega⟩
    obtain ⟨m, p⟩ := s
    have hsm := hall (m, p) (by simp)
    simp only [segsBytes, List.append_assoc]
    rw [detect_skip_seg k m p _ hsm.1 hsm.2]
    exact ih k sofm l1 l2 prec tail (fun s hs' => hall s (by simp [hs'])) hs (by simp at hf; omega)

end Dct
