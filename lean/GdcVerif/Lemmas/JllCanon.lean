import GdcVerif.Model.JpegLossless
/-!
  Layer L5 of C02: canonical Huffman lemmas about the hand model of
  `standard/huffman.go` (Build, Decode) and `standard/huffman_encoder.go` (BuildHuffmanCodes).

  Plan: `specCodes` is the clean T.81 Annex C code assignment (no wrap-around), `KInv` is the
  Kraft invariant carried through every loop.  `buildHuffmanCodes` is shown to be the sequence of
  writes `values[j] ↦ specCodes[j]`, `buildCodes` is the decoder's view of the same recursion,
  and the DECODE loop is followed bit by bit.
-/
namespace JLL

/-! ## Definitions required by the interface -/

/-- Kraft sum of BITS scaled to length 16: Σ bits[l] * 2^(15-l) -/
def kraft : List Nat → Nat → Nat
  | [], _ => 0
  | n :: rest, l => n * 2 ^ (15 - l) + kraft rest (l + 1)

/-- decidable validity of a DHT table: 16 counts, counts sum to the number of values, values are
    distinct bytes, Kraft inequality (Σ bits[l]·2^(15-l) ≤ 2^16) -/
def ValidTable (bits : List Nat) (values : Array Nat) : Bool :=
  bits.length == 16 && bits.sum == values.size && decide values.toList.Nodup
    && values.toList.all (· < 256) && decide (kraft bits 0 ≤ 65536)

/-- T.81's stronger condition: the all-ones code of the longest length is unused (strict Kraft) -/
def KraftStrict (bits : List Nat) : Bool := decide (kraft bits 0 < 65536)

/-! ## Specification-level code assignment -/

/-- the codes of one length: `n` consecutive codes starting at `code`, all of length `l+1` -/
def specLen (code l : Nat) : Nat → List (Nat × Nat)
  | 0 => []
  | i + 1 => (code, l + 1) :: specLen (code + 1) l i

/-- (code, length) of the symbols in `HUFFVAL` order; `code` is the first code of length `l+1` -/
def specCodes : List Nat → Nat → Nat → List (Nat × Nat)
  | [], _, _ => []
  | n :: rest, l, code => specLen code l n ++ specCodes rest (l + 1) ((code + n) * 2)

/-- Kraft sum indexed from the end: the last count has weight 1 -/
def kraftR : List Nat → Nat
  | [] => 0
  | n :: rest => n * 2 ^ rest.length + kraftR rest

/-- Kraft invariant of the code-assignment recursion: `F` is the first code of the current
    length, `rest` the counts of the current and all longer lengths -/
def KInv (rest : List Nat) (F : Nat) : Prop := F * 2 ^ rest.length + 2 * kraftR rest ≤ 2 ^ 17

theorem kraft_eq_kraftR : ∀ (bits : List Nat) (l : Nat), l + bits.length = 16 →
    kraft bits l = kraftR bits
  | [], _, _ => rfl
  | n :: rest, l, h => by
    simp only [List.length_cons] at h
    simp only [kraft, kraftR]
    rw [kraft_eq_kraftR rest (l + 1) (by omega)]
    have : 15 - l = rest.length := by omega
    rw [this]

theorem KInv_init (bits : List Nat) (hl : bits.length = 16) (hk : kraft bits 0 ≤ 65536) :
    KInv bits 0 := by
  rw [kraft_eq_kraftR bits 0 (by omega)] at hk
  unfold KInv
  omega

theorem KInv_step {n : Nat} {rest : List Nat} {F : Nat} (h : KInv (n :: rest) F) :
    KInv rest ((F + n) * 2) := by
  unfold KInv at *
  simp only [List.length_cons, kraftR, Nat.pow_succ] at h
  have e : (F + n) * 2 * 2 ^ rest.length = F * (2 ^ rest.length * 2) + 2 * (n * 2 ^ rest.length) := by
    grind
  omega

theorem KInv_le {n : Nat} {rest : List Nat} {F : Nat} (h : KInv (n :: rest) F) :
    (F + n) * 2 ^ (rest.length + 1) ≤ 2 ^ 17 := by
  unfold KInv at h
  simp only [List.length_cons, kraftR] at h
  have e : (F + n) * 2 ^ (rest.length + 1) =
      F * 2 ^ (rest.length + 1) + 2 * (n * 2 ^ rest.length) := by
    rw [Nat.pow_succ]; grind
  omega

/-- no 16-bit wrap-around in `BuildHuffmanCodes`, no int32 wrap-around in `Build` -/
theorem KInv_le_65536 {n : Nat} {rest : List Nat} {F : Nat} (h : KInv (n :: rest) F) :
    F + n ≤ 65536 := by
  have h1 := KInv_le h
  have h2 : 2 ≤ 2 ^ (rest.length + 1) := by
    have := Nat.pow_le_pow_right (n := 2) (by omega) (show 1 ≤ rest.length + 1 by omega)
    simpa using this
  have h3 : (F + n) * 2 ≤ (F + n) * 2 ^ (rest.length + 1) := Nat.mul_le_mul_left _ h2
  omega

/-- the Kraft bound proper: the codes of length `l+1` fit in `l+1` bits -/
theorem KInv_le_pow {n : Nat} {rest : List Nat} {F l : Nat} (h : KInv (n :: rest) F)
    (hl : l + (n :: rest).length = 16) : F + n ≤ 2 ^ (l + 1) := by
  have h1 := KInv_le h
  simp only [List.length_cons] at hl
  have e : (2 : Nat) ^ 17 = 2 ^ (l + 1) * 2 ^ (rest.length + 1) := by
    rw [← Nat.pow_add]; congr 1; omega
  rw [e] at h1
  exact Nat.le_of_mul_le_mul_right h1 (Nat.two_pow_pos _)

theorem sum_le_kraftR : ∀ rest : List Nat, rest.sum ≤ kraftR rest
  | [] => by simp [kraftR]
  | n :: rest => by
    have ih := sum_le_kraftR rest
    have : n * 1 ≤ n * 2 ^ rest.length := Nat.mul_le_mul_left _ (Nat.two_pow_pos _)
    simp only [List.sum_cons, kraftR]
    omega

theorem KInv_sum_le {rest : List Nat} {F : Nat} (h : KInv rest F) : rest.sum ≤ 65536 := by
  have := sum_le_kraftR rest
  unfold KInv at h
  omega

/-! ## Facts about the specification -/

theorem specLen_length (code l : Nat) : ∀ n, (specLen code l n).length = n := by
  intro n
  induction n generalizing code with
  | zero => rfl
  | succ i ih => simp [specLen, ih]

theorem specLen_getElem? (l : Nat) : ∀ (n code j : Nat),
    (specLen code l n)[j]? = if j < n then some (code + j, l + 1) else none
  | 0, _, _ => by simp [specLen]
  | i + 1, code, 0 => by simp [specLen]
  | i + 1, code, j + 1 => by
    simp only [specLen, List.getElem?_cons_succ, specLen_getElem? l i (code + 1) j]
    by_cases h : j < i
    · simp [h]; omega
    · simp [h]

theorem specCodes_length : ∀ (rest : List Nat) (l F : Nat), (specCodes rest l F).length = rest.sum
  | [], _, _ => rfl
  | n :: rest, l, F => by
    simp [specCodes, specLen_length, specCodes_length rest]

/-- monotonicity of the recursion: a code of a later length, cut to `l+1` bits, is at least `F` -/
theorem specCodes_mono : ∀ (rest : List Nat) (l F j c len : Nat),
    (specCodes rest l F)[j]? = some (c, len) → ∃ d, len = l + 1 + d ∧ F * 2 ^ d ≤ c
  | [], _, _, _, _, _, h => by simp [specCodes] at h
  | n :: rest, l, F, j, c, len, h => by
    simp only [specCodes, List.getElem?_append, specLen_length] at h
    by_cases hj : j < n
    · simp only [hj, if_true, specLen_getElem?] at h
      simp only [Option.some.injEq, Prod.mk.injEq] at h
      exact ⟨0, by omega, by simp; omega⟩
    · simp only [hj, if_false] at h
      obtain ⟨d, h1, h2⟩ := specCodes_mono rest (l + 1) ((F + n) * 2) (j - n) c len h
      refine ⟨d + 1, by omega, ?_⟩
      have : F * 2 ^ (d + 1) ≤ (F + n) * 2 * 2 ^ d := by
        rw [Nat.pow_succ, Nat.mul_assoc (F + n), Nat.mul_comm 2 (2 ^ d)]
        exact Nat.mul_le_mul_right _ (by omega)
      omega

/-- L5b at the specification level -/
theorem specCodes_wf : ∀ (rest : List Nat) (l F j c len : Nat),
    l + rest.length = 16 → KInv rest F →
    (specCodes rest l F)[j]? = some (c, len) → l + 1 ≤ len ∧ len ≤ 16 ∧ c < 2 ^ len
  | [], _, _, _, _, _, _, _, h => by simp [specCodes] at h
  | n :: rest, l, F, j, c, len, hl, hk, h => by
    simp only [specCodes, List.getElem?_append, specLen_length] at h
    by_cases hj : j < n
    · simp only [hj, if_true, specLen_getElem?] at h
      simp only [Option.some.injEq, Prod.mk.injEq] at h
      have := KInv_le_pow hk hl
      simp only [List.length_cons] at hl
      obtain ⟨h1, h2⟩ := h
      subst h2
      exact ⟨by omega, by omega, by omega⟩
    · simp only [hj, if_false] at h
      simp only [List.length_cons] at hl
      have := specCodes_wf rest (l + 1) ((F + n) * 2) (j - n) c len (by omega) (KInv_step hk) h
      omega

/-! ## `BuildHuffmanCodes` as a sequence of writes -/

/-- a sequence of `codes[k] = v` assignments -/
def writeAllC (cs : Array (Nat × Nat)) : List (Nat × (Nat × Nat)) → Array (Nat × Nat)
  | [] => cs
  | (k, v) :: ws => writeAllC (cs.setIfInBounds k v) ws

theorem writeAllC_size : ∀ (ws : List (Nat × (Nat × Nat))) (cs : Array (Nat × Nat)),
    (writeAllC cs ws).size = cs.size
  | [], _ => rfl
  | (k, v) :: ws, cs => by simp [writeAllC, writeAllC_size ws]

theorem writeAllC_not_mem : ∀ (ws : List (Nat × (Nat × Nat))) (cs : Array (Nat × Nat)) (k : Nat),
    k ∉ ws.map Prod.fst → (writeAllC cs ws)[k]? = cs[k]?
  | [], _, _, _ => rfl
  | (k0, v0) :: ws, cs, k, h => by
    simp only [List.map_cons, List.mem_cons, not_or] at h
    simp only [writeAllC]
    rw [writeAllC_not_mem ws _ k h.2, Array.getElem?_setIfInBounds_ne (Ne.symm h.1)]

/-- with distinct keys, no write is overwritten -/
theorem writeAllC_mem : ∀ (ws : List (Nat × (Nat × Nat))) (cs : Array (Nat × Nat)) (k : Nat)
    (v : Nat × Nat), (ws.map Prod.fst).Nodup → (k, v) ∈ ws → k < cs.size →
    (writeAllC cs ws)[k]? = some v
  | [], _, _, _, _, h, _ => by simp at h
  | (k0, v0) :: ws, cs, k, v, hn, hm, hk => by
    simp only [List.map_cons, List.nodup_cons] at hn
    simp only [writeAllC]
    rcases List.mem_cons.1 hm with h | h
    · simp only [Prod.mk.injEq] at h
      obtain ⟨rfl, rfl⟩ := h
      rw [writeAllC_not_mem ws _ k hn.1, Array.getElem?_setIfInBounds_self_of_lt hk]
    · exact writeAllC_mem ws _ k v hn.2 h (by simpa using hk)

theorem huffLen_spec (values : Array Nat) (l : Nat) :
    ∀ (n : Nat) (cs : Array (Nat × Nat)) (code p : Nat) (tail : List (Nat × Nat)),
    code + n ≤ 65536 → p + n ≤ values.size →
    (buildHuffmanCodesLen values l n cs (code % 65536) p).2.1 = (code + n) % 65536 ∧
    (buildHuffmanCodesLen values l n cs (code % 65536) p).2.2 = p + n ∧
    writeAllC cs ((values.toList.drop p).zip (specLen code l n ++ tail)) =
      writeAllC (buildHuffmanCodesLen values l n cs (code % 65536) p).1
        ((values.toList.drop (p + n)).zip tail)
  | 0, cs, code, p, tail, _, _ => by simp [buildHuffmanCodesLen, specLen]
  | i + 1, cs, code, p, tail, hc, hp => by
    have hp' : p < values.size := by omega
    have hcm : code % 65536 = code := Nat.mod_eq_of_lt (by omega)
    have ih := huffLen_spec values l i (cs.setIfInBounds values[p] (code, l + 1)) (code + 1) (p + 1)
      tail (by omega) (by omega)
    simp only [buildHuffmanCodesLen, hp', dite_true, hcm]
    refine ⟨?_, ?_, ?_⟩
    · rw [ih.1]; congr 1; omega
    · rw [ih.2.1]; omega
    · rw [List.drop_eq_getElem_cons (by simpa using hp')]
      simp only [specLen, List.cons_append, List.zip_cons_cons, writeAllC, Array.getElem_toList]
      rw [ih.2.2, show p + 1 + i = p + (i + 1) by omega]

theorem huffGo_spec (values : Array Nat) :
    ∀ (rest : List Nat) (l : Nat) (cs : Array (Nat × Nat)) (F p : Nat),
    KInv rest F → p + rest.sum ≤ values.size →
    buildHuffmanCodesGo values rest l cs (F % 65536) p =
      writeAllC cs ((values.toList.drop p).zip (specCodes rest l F))
  | [], _, _, _, _, _, _ => by simp [buildHuffmanCodesGo, specCodes, writeAllC]
  | n :: rest, l, cs, F, p, hk, hp => by
    simp only [List.sum_cons] at hp
    have hb := KInv_le_65536 hk
    obtain ⟨h1, h2, h3⟩ := huffLen_spec values l n cs F p (specCodes rest (l + 1) ((F + n) * 2))
      hb (by omega)
    simp only [buildHuffmanCodesGo, specCodes]
    rw [h3, h1, h2]
    have e : (F + n) % 65536 * 2 % 65536 = ((F + n) * 2) % 65536 := by omega
    rw [e]
    exact huffGo_spec values rest (l + 1) _ ((F + n) * 2) (p + n) (KInv_step hk) (by omega)

/-! ## Validity unpacked; the encoder table entry of every symbol -/

theorem ValidTable.unpack {bits : List Nat} {values : Array Nat} (hv : ValidTable bits values = true) :
    bits.length = 16 ∧ bits.sum = values.size ∧ values.toList.Nodup ∧
    (∀ x ∈ values.toList, x < 256) ∧ KInv bits 0 := by
  simp only [ValidTable, Bool.and_eq_true, beq_iff_eq, decide_eq_true_eq, List.all_eq_true] at hv
  obtain ⟨⟨⟨⟨h1, h2⟩, h3⟩, h4⟩, h5⟩ := hv
  exact ⟨h1, h2, h3, h4, KInv_init bits h1 h5⟩

/-- the table built by `BuildHuffmanCodes` maps the `j`-th value to the `j`-th canonical code -/
theorem huff_at {bits : List Nat} {values : Array Nat} (hv : ValidTable bits values = true)
    {j sym : Nat} (hj : values[j]? = some sym) :
    ∃ c len, (specCodes bits 0 0)[j]? = some (c, len) ∧
      (buildHuffmanCodes bits values)[sym]? = some (c, len) := by
  obtain ⟨hl, hs, hnd, h256, hk⟩ := ValidTable.unpack hv
  have hjlt : j < values.size := by
    rcases Array.getElem?_eq_some_iff.1 hj with ⟨h, _⟩; exact h
  have hlen : (specCodes bits 0 0).length = values.size := by rw [specCodes_length, hs]
  have hjs : j < (specCodes bits 0 0).length := by omega
  refine ⟨((specCodes bits 0 0)[j]).1, ((specCodes bits 0 0)[j]).2, by simp [hjs], ?_⟩
  have e := huffGo_spec values bits 0 (Array.replicate 256 (0, 0)) 0 0 hk (by omega)
  simp only [Nat.zero_mod, List.drop_zero] at e
  unfold buildHuffmanCodes
  rw [e]
  apply writeAllC_mem
  · rw [List.map_fst_zip (by simp [hlen])]; exact hnd
  · apply List.mem_of_getElem? (i := j)
    rw [List.getElem?_zip_eq_some]
    refine ⟨by simpa using hj, by simp [hjs]⟩
  · simp only [Array.size_replicate]
    apply h256
    have := Array.getElem?_eq_some_iff.1 hj
    rcases this with ⟨h, rfl⟩
    simp

/-- L5b: every symbol of a valid table gets a code of length 1..16 that fits its length -/
theorem codes_wf (bits : List Nat) (values : Array Nat) (hv : ValidTable bits values = true)
    (sym : Nat) (hs : sym ∈ values.toList) :
    ∃ c len, (buildHuffmanCodes bits values)[sym]? = some (c, len) ∧ 1 ≤ len ∧ len ≤ 16 ∧ c < 2 ^ len := by
  obtain ⟨j, hj⟩ := List.mem_iff_getElem?.1 hs
  obtain ⟨c, len, h1, h2⟩ := huff_at hv (j := j) (sym := sym) (by simpa using hj)
  obtain ⟨hl, _, _, _, hk⟩ := ValidTable.unpack hv
  have := specCodes_wf bits 0 0 j c len (by omega) hk h1
  exact ⟨c, len, h2, by omega, this.2.1, this.2.2⟩

/-! ## Absent symbols -/

theorem huffLen_absent (values : Array Nat) (l sym : Nat) (hs : sym ∉ values.toList) :
    ∀ (n : Nat) (cs : Array (Nat × Nat)) (code p : Nat),
    (buildHuffmanCodesLen values l n cs code p).1[sym]? = cs[sym]?
  | 0, _, _, _ => rfl
  | i + 1, cs, code, p => by
    unfold buildHuffmanCodesLen
    by_cases hp : p < values.size
    · simp only [hp, dite_true]
      rw [huffLen_absent values l sym hs i]
      apply Array.getElem?_setIfInBounds_ne
      intro h
      apply hs
      rw [← h]
      simp
    · simp only [hp, dite_false]
      exact huffLen_absent values l sym hs i cs code p

theorem huffGo_absent (values : Array Nat) (sym : Nat) (hs : sym ∉ values.toList) :
    ∀ (rest : List Nat) (l : Nat) (cs : Array (Nat × Nat)) (code p : Nat),
    (buildHuffmanCodesGo values rest l cs code p)[sym]? = cs[sym]?
  | [], _, _, _, _ => rfl
  | n :: rest, l, cs, code, p => by
    simp only [buildHuffmanCodesGo]
    rw [huffGo_absent values sym hs rest, huffLen_absent values l sym hs]

/-- symbols that are not in the table have Len = 0 (the encoder would silently write nothing for them) -/
theorem codes_absent (bits : List Nat) (values : Array Nat) (sym : Nat) (h256 : sym < 256)
    (hs : sym ∉ values.toList) : (buildHuffmanCodes bits values)[sym]? = some (0, 0) := by
  unfold buildHuffmanCodes
  rw [huffGo_absent values sym hs]
  simp [h256]

/-! ## L5a: `Build` does not panic -/

theorem buildLookupLen_ok (values : Array Nat) (l : Nat) (hl : l < 8) :
    ∀ (n : Nat) (lk : Array Int) (p : Nat), p + n ≤ values.size → p + n ≤ 2 ^ (l + 1) →
    ∃ lk', buildLookupLen values l n lk p = some (lk', p + n)
  | 0, lk, p, _, _ => ⟨lk, rfl⟩
  | i + 1, lk, p, hp, hq => by
    have hp' : p < values.size := by omega
    have hspan : p <<< (7 - l) + 1 <<< (7 - l) ≤ 256 := by
      simp only [Nat.shiftLeft_eq]
      have e : (256 : Nat) = 2 ^ (l + 1) * 2 ^ (7 - l) := by
        rw [← Nat.pow_add, show l + 1 + (7 - l) = 8 by omega]
      have h1 : (p + 1) * 2 ^ (7 - l) ≤ 2 ^ (l + 1) * 2 ^ (7 - l) :=
        Nat.mul_le_mul_right _ (by omega)
      rw [Nat.add_mul] at h1
      omega
    simp only [buildLookupLen, hp', dite_true, hspan, if_true]
    obtain ⟨lk', h⟩ := buildLookupLen_ok values l hl i
      (fillLookup lk (p <<< (7 - l)) (Go.wrap16 (Go.or (Go.shl (↑l + 1) 8) ↑values[p])) (1 <<< (7 - l)))
      (p + 1) (by omega) (by omega)
    exact ⟨lk', by rw [h, show p + 1 + i = p + (i + 1) by omega]⟩

theorem buildLookup_ok (values : Array Nat) :
    ∀ (rest : List Nat) (l : Nat) (lk : Array Int) (p F : Nat),
    l + rest.length = 16 → KInv rest F → p ≤ F → p + rest.sum ≤ values.size →
    ∃ lk', buildLookup values rest l lk p = some lk'
  | [], _, lk, _, _, _, _, _, _ => ⟨lk, rfl⟩
  | n :: rest, l, lk, p, F, hl, hk, hpF, hp => by
    simp only [List.sum_cons] at hp
    by_cases h8 : l < 8
    · have hb := KInv_le_pow hk hl
      obtain ⟨lk1, h1⟩ := buildLookupLen_ok values l h8 n lk p (by omega) (by omega)
      simp only [buildLookup, h8, if_true, h1]
      simp only [List.length_cons] at hl
      exact buildLookup_ok values rest (l + 1) lk1 (p + n) ((F + n) * 2) (by omega) (KInv_step hk)
        (by omega) (by omega)
    · exact ⟨lk, by simp [buildLookup, h8]⟩

/-- L5a: `HuffmanTable.Build` does not hit the lookupTable / Values index panic on a valid table -/
theorem build_ok (bits : List Nat) (values : Array Nat) (hv : ValidTable bits values = true) :
    ∃ t, Table.build bits values = .ok t ∧ t.values = values ∧ t.codes = buildCodes bits 0 0 := by
  obtain ⟨hl, hs, _, _, hk⟩ := ValidTable.unpack hv
  obtain ⟨lk, h⟩ := buildLookup_ok values bits 0 (Array.replicate 256 (-1)) 0 0 (by omega) hk
    (by omega) (by omega)
  exact ⟨{ bits := bits, values := values, codes := buildCodes bits 0 0, lookup := lk },
    by simp only [Table.build, h], rfl, rfl⟩

/-! ## The DECODE loop -/

theorem wrap32_nat (x : Nat) (h : x < 2147483648) : Go.wrap32 (x : Int) = x := by
  unfold Go.wrap32; omega

/-- one `code = code<<1 | bit` step, following the bits of `c` from the top -/
theorem shift_step (c m : Nat) (hc : c < 4294967296) :
    u32 (u32 ((c >>> (m + 1)) <<< 1) ||| (if c.testBit m then 1 else 0)) = c >>> m := by
  have hb : (if c.testBit m then 1 else 0) = c >>> m % 2 := by
    rw [Nat.testBit_eq_decide_div_mod_eq, Nat.shiftRight_eq_div_pow]
    by_cases h : c / 2 ^ m % 2 = 1
    · simp [h]
    · simp [h]; omega
  have hle : c >>> m ≤ c := by rw [Nat.shiftRight_eq_div_pow]; exact Nat.div_le_self _ _
  have hs : (c >>> (m + 1)) <<< 1 = 2 * (c >>> m / 2) := by
    rw [Nat.shiftRight_succ, Nat.shiftLeft_eq]; omega
  have h1 : u32 ((c >>> (m + 1)) <<< 1) = (c >>> (m + 1)) <<< 1 := by
    unfold u32; rw [hs]; omega
  have hlt : (if c.testBit m then 1 else 0) < 2 ^ 1 := by split <;> omega
  rw [h1, ← Nat.shiftLeft_add_eq_or_of_lt hlt, hs, hb]
  unfold u32; omega

theorem decodeLoop_hit (values : Array Nat) (minC maxC vp : Int) (rest : List (Int × Int × Int))
    (acc : Nat) (b : Bool) (s : List Bool) (acc' k v : Nat)
    (hacc : u32 (u32 (acc <<< 1) ||| (if b then 1 else 0)) = acc') (h31 : acc' < 2147483648)
    (hmax : (acc' : Int) ≤ maxC) (hk : vp + acc' - minC = k) (hk31 : k < 2147483648)
    (hv : values[k]? = some v) :
    decodeLoop values listBit ((minC, maxC, vp) :: rest) acc (b :: s) = .ok (v, s) := by
  obtain ⟨hks, rfl⟩ := Array.getElem?_eq_some_iff.1 hv
  have hm0 : maxC ≥ 0 := by omega
  simp only [decodeLoop, listBit, hacc, wrap32_nat _ h31, hk, wrap32_nat _ hk31, hmax, hm0,
    and_self, if_true]
  simp [hks]

theorem decodeLoop_miss (values : Array Nat) (minC maxC vp : Int) (rest : List (Int × Int × Int))
    (acc : Nat) (b : Bool) (s : List Bool) (acc' : Nat)
    (hacc : u32 (u32 (acc <<< 1) ||| (if b then 1 else 0)) = acc') (h31 : acc' < 2147483648)
    (hmax : maxC < (acc' : Int)) :
    decodeLoop values listBit ((minC, maxC, vp) :: rest) acc (b :: s) =
      decodeLoop values listBit rest acc' s := by
  have hc : ¬ ((acc' : Int) ≤ maxC) := by omega
  simp only [decodeLoop, listBit, hacc, wrap32_nat _ h31, hc, false_and, if_false]

/-- the DECODE loop, started in the middle: `l` bits of the code `c` have been consumed, the
    remaining table is that of the lengths `l+1 ..`, and `c` is the `j`-th code from here -/
theorem decode_spec (values : Array Nat) (tail : List Bool) (hsz : values.size ≤ 65536) :
    ∀ (rest : List Nat) (l F p j c len : Nat),
    l + rest.length = 16 → KInv rest F → p + rest.sum ≤ values.size →
    (specCodes rest l F)[j]? = some (c, len) →
    ∃ v, values[p + j]? = some v ∧
      decodeLoop values listBit (buildCodes rest F p) (c >>> (len - l))
        (bitsOf c (len - l) ++ tail) = .ok (v, tail)
  | [], _, _, _, _, _, _, _, _, _, h => by simp [specCodes] at h
  | n :: rest, l, F, p, j, c, len, hl, hk, hp, h => by
    obtain ⟨hlen1, hlen16, hc⟩ := specCodes_wf _ _ _ _ _ _ hl hk h
    have hc16 : c < 65536 :=
      Nat.lt_of_lt_of_le hc (Nat.pow_le_pow_right (n := 2) (by omega) hlen16)
    obtain ⟨m, hm⟩ : ∃ m, len - l = m + 1 := ⟨len - l - 1, by omega⟩
    rw [hm]
    simp only [bitsOf, List.cons_append]
    have hstep := shift_step c m (by omega)
    have hacc31 : c >>> m < 2147483648 := by
      have : c >>> m ≤ c := by rw [Nat.shiftRight_eq_div_pow]; exact Nat.div_le_self _ _
      omega
    have hb := KInv_le_65536 hk
    simp only [List.sum_cons] at hp
    simp only [List.length_cons] at hl
    have h0 := h
    simp only [specCodes, List.getElem?_append, specLen_length] at h
    by_cases hj : j < n
    · simp only [hj, if_true, specLen_getElem?, Option.some.injEq, Prod.mk.injEq] at h
      obtain ⟨rfl, rfl⟩ := h
      have hm0 : m = 0 := by omega
      subst hm0
      have hn : n ≠ 0 := by omega
      have hlt : p + j < values.size := by omega
      refine ⟨values[p + j], by simp [hlt], ?_⟩
      simp only [buildCodes, hn, if_false]
      apply decodeLoop_hit (acc' := F + j) (k := p + j)
      · simpa using hstep
      · omega
      · omega
      · omega
      · omega
      · simp [hlt]
    · simp only [hj, if_false] at h
      obtain ⟨v, hv1, hv2⟩ := decode_spec values tail hsz rest (l + 1) ((F + n) * 2) (p + n) (j - n)
        c len (by omega) (KInv_step hk) (by omega) h
      refine ⟨v, by rw [← hv1]; congr 1; omega, ?_⟩
      obtain ⟨d, hd1, hd2⟩ := specCodes_mono _ _ _ _ _ _ h
      have hm' : len - (l + 1) = m := by omega
      rw [hm'] at hv2
      have hge : F + n ≤ c >>> m := by
        rw [Nat.shiftRight_eq_div_pow, Nat.le_div_iff_mul_le (Nat.two_pow_pos _)]
        have : m = d + 1 := by omega
        rw [this, Nat.pow_succ, Nat.mul_comm (2 ^ d) 2, ← Nat.mul_assoc]
        exact hd2
      have hw := wrap32_nat ((F + n) * 2) (by omega)
      push_cast at hw hv2
      by_cases hn : n = 0
      · subst hn
        simp only [buildCodes, if_true]
        rw [decodeLoop_miss (acc' := c >>> m) (hacc := hstep) (h31 := hacc31) (hmax := by omega)]
        simp only [Int.natCast_zero, Int.add_zero] at hw hv2
        rw [hw]
        exact hv2
      · simp only [buildCodes, hn, if_false]
        rw [decodeLoop_miss (acc' := c >>> m) (hacc := hstep) (h31 := hacc31) (hmax := by omega)]
        rw [hw]
        exact hv2

/-- L5: canonical_decode_encode: the decoder's slow path, fed the encoder's code of `sym` followed by
    anything, returns `sym` and consumes exactly the code's bits -/
theorem canonical_decode_encode (bits : List Nat) (values : Array Nat) (hv : ValidTable bits values = true)
    (sym : Nat) (hs : sym ∈ values.toList) (c len : Nat)
    (hc : (buildHuffmanCodes bits values)[sym]? = some (c, len)) (rest : List Bool) :
    decodeLoop values listBit (buildCodes bits 0 0) 0 (bitsOf c len ++ rest) = .ok (sym, rest) := by
  obtain ⟨j, hj⟩ := List.mem_iff_getElem?.1 hs
  have hj' : values[j]? = some sym := by simpa using hj
  obtain ⟨c', len', h1, h2⟩ := huff_at hv hj'
  rw [hc] at h2
  simp only [Option.some.injEq, Prod.mk.injEq] at h2
  obtain ⟨rfl, rfl⟩ := h2
  obtain ⟨hl, hsum, _, _, hk⟩ := ValidTable.unpack hv
  have hsz : values.size ≤ 65536 := by rw [← hsum]; exact KInv_sum_le hk
  obtain ⟨v, hv1, hv2⟩ := decode_spec values rest hsz bits 0 0 0 j c len (by omega) hk (by omega) h1
  have hwf := specCodes_wf bits 0 0 j c len (by omega) hk h1
  simp only [Nat.zero_add] at hv1
  rw [hj'] at hv1
  simp only [Option.some.injEq] at hv1
  subst hv1
  have hz : c >>> len = 0 := by
    rw [Nat.shiftRight_eq_div_pow]; exact Nat.div_eq_of_lt hwf.2.2
  simpa [hz] using hv2

/-! ## Sanity checks: the standard luminance DC table (T.81 Table K.3) -/

example : ValidTable [0,1,5,1,1,1,1,1,1,0,0,0,0,0,0,0] #[0,1,2,3,4,5,6,7,8,9,10,11] = true := by decide

example : KraftStrict [0,1,5,1,1,1,1,1,1,0,0,0,0,0,0,0] = true := by decide

/-- a complete code (every leaf used) is valid for the lemmas but not `KraftStrict` -/
example : ValidTable [2,0,0,0,0,0,0,0,0,0,0,0,0,0,0,0] #[7,9] = true ∧
    KraftStrict [2,0,0,0,0,0,0,0,0,0,0,0,0,0,0,0] = false := by decide

/-- category 6 has code 1110 (4 bits) -/
example : (buildHuffmanCodes [0,1,5,1,1,1,1,1,1,0,0,0,0,0,0,0] #[0,1,2,3,4,5,6,7,8,9,10,11])[6]?
    = some (14, 4) := by decide +kernel

example : decodeLoop #[0,1,2,3,4,5,6,7,8,9,10,11] listBit
    (buildCodes [0,1,5,1,1,1,1,1,1,0,0,0,0,0,0,0] 0 0) 0 (bitsOf 14 4 ++ [true, false])
    = .ok (6, [true, false]) := by decide

end JLL
