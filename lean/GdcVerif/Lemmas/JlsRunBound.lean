import GdcVerif.Model.JpegLsRun
/-!
  C08: the run length `RunModeScanner.DecodeRunLength` hands back never exceeds the number of
  samples left in the line, and its `J[RunIndex]` lookups never leave the table — theorems over
  wp-jpegls's model `Model/JpegLsRun.lean` (tied to the real function by their `jls-runseg-dec`
  correspondence lines).  `decodeSampleRunMode` / `doRunMode` write `runLength` samples (times the
  number of components for ILV = 2) starting at the current position: the bound is what keeps those
  writes inside the pixel buffer.
-/
namespace JpegLsRun

theorem J?_ok (idx : Int) (h0 : 0 ≤ idx) (h31 : idx ≤ 31) : ∃ v, J? idx = .ok v ∧ 0 ≤ v ∧ v ≤ 15 := by
  have hn : idx.toNat < 32 := by omega
  have hc : idx = (idx.toNat : Int) := by omega
  generalize idx.toNat = n at hn hc
  subst hc
  unfold J?
  have h1 : ¬ ((n : Int) < 0) := by omega
  rw [if_neg h1]
  simp only [Int.toNat_natCast]
  have : n = 0 ∨ n = 1 ∨ n = 2 ∨ n = 3 ∨ n = 4 ∨ n = 5 ∨ n = 6 ∨ n = 7 ∨ n = 8 ∨ n = 9 ∨ n = 10 ∨ n = 11 ∨ n = 12 ∨
      n = 13 ∨ n = 14 ∨ n = 15 ∨ n = 16 ∨ n = 17 ∨ n = 18 ∨ n = 19 ∨ n = 20 ∨ n = 21 ∨ n = 22 ∨ n = 23 ∨ n = 24 ∨
      n = 25 ∨ n = 26 ∨ n = 27 ∨ n = 28 ∨ n = 29 ∨ n = 30 ∨ n = 31 := by omega
  rcases this with h | h | h | h | h | h | h | h | h | h | h | h | h | h | h | h | h | h | h | h | h | h | h | h | h | h |
      h | h | h | h | h | h <;> subst h <;> exact ⟨_, rfl, by decide, by decide⟩

theorem incRunIndex_range (idx : Int) (h0 : 0 ≤ idx) (h31 : idx ≤ 31) :
    0 ≤ incRunIndex idx ∧ incRunIndex idx ≤ 31 := by
  unfold incRunIndex; split <;> omega

/-- the loop of DecodeRunLength: no table panic, the index stays in 0..31, the run stays within the line -/
theorem decRunLoop_spec (bs : List Bool) (idx rl remaining : Int) (h0 : 0 ≤ idx) (h31 : idx ≤ 31)
    (hrl : 0 ≤ rl) (hle : rl ≤ remaining) :
    decRunLoop bs idx rl remaining ≠ .error .panic ∧
    (∀ r i rest, decRunLoop bs idx rl remaining = .ok (.inl (r, i, rest)) → r = remaining ∧ 0 ≤ i ∧ i ≤ 31) ∧
    (∀ r i rest, decRunLoop bs idx rl remaining = .ok (.inr (r, i, rest)) → 0 ≤ r ∧ r ≤ remaining ∧ 0 ≤ i ∧ i ≤ 31) := by
  induction bs generalizing idx rl with
  | nil => simp [decRunLoop]
  | cons b rest ih =>
    cases b with
    | false =>
      simp only [decRunLoop]
      refine ⟨by simp, (fun r i rest' h => by cases h), ?_⟩
      intro r i rest' h
      injection h with h; injection h with h; injection h with h1 h2; injection h2 with h2 _
      subst h1; subst h2; exact ⟨hrl, hle, h0, h31⟩
    | true =>
      obtain ⟨j, hj, hj0, _⟩ := J?_ok idx h0 h31
      simp only [decRunLoop, hj, bind, Except.bind]
      have hp : (0 : Int) < 2 ^ j.toNat := by
        have : 0 < (2 : Nat) ^ j.toNat := Nat.two_pow_pos _
        exact_mod_cast this
      have hcnt0 : 0 ≤ min ((2 : Int) ^ j.toNat) (remaining - rl) := by omega
      have hcntle : min ((2 : Int) ^ j.toNat) (remaining - rl) ≤ remaining - rl := Int.min_le_right _ _
      have hir := incRunIndex_range idx h0 h31
      split
      · refine ⟨by simp, ?_, by intro r i rest' h; cases h⟩
        intro r i rest' h
        injection h with h; injection h with h; injection h with h1 h2; injection h2 with h2 _
        subst h1; subst h2
        refine ⟨rfl, ?_⟩
        split <;> omega
      · apply ih
        · split <;> omega
        · split <;> omega
        · omega
        · omega

/-- FULL: `DecodeRunLength` returns a run length within `0..remainingInLine` (and a run index within
    the J table), or an error — for every bit sequence, every run index 0..31 and every remaining ≥ 0;
    and it never indexes outside the J table -/
theorem decodeRunLength_bound (bs : List Bool) (idx remaining : Int) (h0 : 0 ≤ idx) (h31 : idx ≤ 31)
    (hrem : 0 ≤ remaining) :
    decodeRunLength bs idx remaining ≠ .error .panic ∧
    ∀ rl i rest, decodeRunLength bs idx remaining = .ok (rl, i, rest) → 0 ≤ rl ∧ rl ≤ remaining ∧ 0 ≤ i ∧ i ≤ 31 := by
  have hs := decRunLoop_spec bs idx 0 remaining h0 h31 (by omega) hrem
  unfold decodeRunLength decodeRunLengthFrom
  cases hl : decRunLoop bs idx 0 remaining with
  | error e =>
    simp only [bind, Except.bind]
    refine ⟨?_, by intro rl i rest h; cases h⟩
    intro h; injection h with h; subst h; exact hs.1 hl
  | ok v =>
    simp only [bind, Except.bind]
    cases v with
    | inl r =>
      obtain ⟨r, i, rest⟩ := r
      have := hs.2.1 r i rest hl
      simp only
      refine ⟨by simp, ?_⟩
      intro rl i' rest' h
      injection h with h; injection h with h1 h2; injection h2 with h2 _
      subst h1; subst h2
      omega
    | inr r =>
      obtain ⟨r, i, rest⟩ := r
      have hr := hs.2.2 r i rest hl
      obtain ⟨j, hj, hj0, _⟩ := J?_ok i hr.2.2.1 hr.2.2.2
      simp only [hj]
      split
      · split
        · exact ⟨by simp, by intro rl i' rest' h; cases h⟩
        · rename_i v rest2 _
          split
          · exact ⟨by simp, by intro rl i' rest' h; cases h⟩
          · refine ⟨by simp, ?_⟩
            intro rl i' rest' h
            injection h with h; injection h with h1 h2; injection h2 with h2 _
            subst h1; subst h2
            omega
      · split
        · exact ⟨by simp, by intro rl i' rest' h; cases h⟩
        · refine ⟨by simp, ?_⟩
          intro rl i' rest' h
          injection h with h; injection h with h1 h2; injection h2 with h2 _
          subst h1; subst h2
          omega

end JpegLsRun
