import GdcVerif.Lemmas.RleDec
/-! Layout of the encoded frame: header, offsets, segment slices. -/
namespace Rle

/-! ### 32-bit fields -/

theorem le32_length (v : Nat) : (le32 v).length = 4 := rfl

theorem rd32_le32 (A R : List Byte) (v : Nat) (hv : v < 4294967296) :
    rd32 (A ++ (le32 v ++ R)) A.length = v := by
  simp [rd32, le32, List.getD_eq_getElem?_getD]
  omega

theorem flatMap_le32_length (L : List Nat) : (L.flatMap le32).length = 4 * L.length := by
  induction L with
  | nil => rfl
  | cons v L ih => simp [le32_length, ih]; omega

theorem rd32_flatMap (L : List Nat) : ∀ (A Z : List Byte) (k : Nat), k < L.length →
    L.getD k 0 < 4294967296 →
    rd32 (A ++ (L.flatMap le32 ++ Z)) (A.length + 4 * k) = L.getD k 0 := by
  induction L with
  | nil => intro A Z k h; simp at h
  | cons v L ih =>
    intro A Z k hk hv
    cases k with
    | zero =>
      simp only [List.flatMap_cons, List.append_assoc, Nat.mul_zero, Nat.add_zero]
      simpa using rd32_le32 A (L.flatMap le32 ++ Z) v (by simpa using hv)
    | succ k =>
      have := ih (A ++ le32 v) Z k (by simpa using hk) (by simpa using hv)
      simp only [List.length_append, le32_length, List.append_assoc] at this
      simp only [List.flatMap_cons, List.append_assoc, List.getD_cons_succ]
      rw [show A.length + 4 * (k + 1) = A.length + 4 + 4 * k by omega]
      exact this

theorem u32_eq_rd32 (d : List Nat) (o : Nat) : AnnexG.u32 d o = rd32 d o := by
  simp only [AnnexG.u32, rd32]; omega

/-! ### chunks and offsets -/

def padOf (x : List Byte) : List Byte := if x.length % 2 = 1 then [0] else []

def padE (b : List Byte) : List Byte := if (64 + b.length) % 2 = 1 then b ++ [0] else b

def offsOf (base : Nat) : List (List Byte) → List Nat
  | [] => []
  | c :: cs => base :: offsOf (base + c.length) cs

/-- length of the first `k` chunks -/
def pre (cs : List (List Byte)) (k : Nat) : Nat := (cs.take k).flatten.length

theorem padOf_length_le (x : List Byte) : (padOf x).length ≤ 1 := by
  unfold padOf; split <;> simp

theorem padE_length_even (b : List Byte) : (64 + (padE b).length) % 2 = 0 := by
  unfold padE; split
  · simp; omega
  · omega

theorem padE_append (b x : List Byte) (hb : (64 + b.length) % 2 = 0) :
    padE (b ++ x) = b ++ (x ++ padOf x) := by
  unfold padE padOf
  have : (64 + (b ++ x).length) % 2 = x.length % 2 := by simp; omega
  rw [this]
  split <;> simp

theorem chunk_even (x : List Byte) : (x ++ padOf x).length % 2 = 0 := by
  unfold padOf; split
  · simp; omega
  · simp; omega

theorem offsOf_length (cs : List (List Byte)) (base : Nat) : (offsOf base cs).length = cs.length := by
  induction cs generalizing base with
  | nil => rfl
  | cons c cs ih => simp [offsOf, ih]

theorem pre_zero (cs : List (List Byte)) : pre cs 0 = 0 := by simp [pre]

theorem pre_succ (cs : List (List Byte)) (k : Nat) (hk : k < cs.length) :
    pre cs (k + 1) = pre cs k + cs[k].length := by
  unfold pre
  rw [List.take_succ_eq_append_getElem hk]
  simp only [List.flatten_append, List.length_append, List.flatten_cons, List.flatten_nil,
    List.append_nil]

theorem pre_all (cs : List (List Byte)) : pre cs cs.length = cs.flatten.length := by
  simp [pre]

theorem pre_cons_succ (c : List Byte) (cs : List (List Byte)) (k : Nat) :
    pre (c :: cs) (k + 1) = c.length + pre cs k := by
  simp [pre]

theorem offsOf_getD (cs : List (List Byte)) : ∀ (base k : Nat), k < cs.length →
    (offsOf base cs).getD k 0 = base + pre cs k := by
  induction cs with
  | nil => intro _ k h; simp at h
  | cons c cs ih =>
    intro base k hk
    cases k with
    | zero => simp [offsOf, pre]
    | succ k =>
      simp only [offsOf, List.getD_cons_succ]
      rw [ih _ _ (by simpa using hk), pre_cons_succ]
      omega

theorem pre_le (cs : List (List Byte)) (k : Nat) : pre cs k ≤ cs.flatten.length := by
  have h := List.take_append_drop k cs
  have : cs.flatten = (cs.take k).flatten ++ (cs.drop k).flatten := by
    rw [← List.flatten_append, h]
  rw [this]; simp [pre]

/-- the `k`-th chunk sits at `[pre k, pre (k+1))` of the body -/
theorem slice_chunk (H : List Byte) (cs : List (List Byte)) (k : Nat) (hk : k < cs.length) :
    ((H ++ cs.flatten).take (H.length + pre cs (k + 1))).drop (H.length + pre cs k) = cs[k] := by
  have h := List.take_append_drop k cs
  have h2 : cs.flatten = (cs.take k).flatten ++ (cs[k] ++ (cs.drop (k + 1)).flatten) := by
    have h1 : cs = cs.take k ++ (cs[k] :: cs.drop (k + 1)) := by
      rw [← List.drop_eq_getElem_cons hk, List.take_append_drop]
    have h3 := congrArg List.flatten h1
    rw [List.flatten_append, List.flatten_cons] at h3
    exact h3
  rw [pre_succ cs k hk]
  rw [h2]
  have e1 : H.length + (pre cs k + cs[k].length) = (H ++ (cs.take k).flatten ++ cs[k]).length := by
    simp [pre]
  have e2 : H.length + pre cs k = (H ++ (cs.take k).flatten).length := by simp [pre]
  rw [show H ++ ((cs.take k).flatten ++ (cs[k] ++ (cs.drop (k + 1)).flatten)) =
    (H ++ (cs.take k).flatten ++ cs[k]) ++ (cs.drop (k + 1)).flatten by simp [List.append_assoc]]
  rw [e1, List.take_left' rfl, e2, List.drop_left' rfl]

/-! ### the segment loop -/


def chunkOf (plane : List Byte) : List Byte :=
  (encodeSegment plane).1 ++ padOf (encodeSegment plane).1

theorem encodeSegments_spec (i : Info) (src : Array Byte) (P : Nat → List Byte) :
    ∀ (n s : Nat) (body : List Byte) (offs : List Nat) (oob : Bool),
    (∀ t, s ≤ t → t < s + n →
      readPlane src (i.segStart t) i.segStride i.pixelCount = some (P t)) →
    64 + (padE body).length + ((List.range' s n).map fun t => chunkOf (P t)).flatten.length
      ≤ maxEncodedFrameLength →
    ∃ B, encodeSegments i src n s body offs oob =
        .ok (B, offs ++ offsOf (64 + (padE body).length)
          ((List.range' s n).map fun t => chunkOf (P t)), oob) ∧
      padE B = padE body ++ ((List.range' s n).map fun t => chunkOf (P t)).flatten := by
  intro n
  induction n with
  | zero =>
    intro s body offs oob _ _
    exact ⟨body, by simp [encodeSegments, offsOf], by simp⟩
  | succ n ih =>
    intro s body offs oob hP hfit
    have hb : (if (64 + body.length) % 2 = 1 then body ++ [0] else body) = padE body := rfl
    have hr := hP s (Nat.le_refl _) (by omega)
    have hfl : ((List.range' s (n + 1)).map fun t => chunkOf (P t)).flatten.length =
        (chunkOf (P s)).length + ((List.range' (s + 1) n).map fun t => chunkOf (P t)).flatten.length := by
      simp [List.range'_succ]
    rw [hfl] at hfit
    have hck : (chunkOf (P s)).length = (encodeSegment (P s)).1.length + (padOf (encodeSegment (P s)).1).length := by
      simp [chunkOf]
    have hpe := padE_append (padE body) (encodeSegment (P s)).1 (padE_length_even body)
    have hguard : ¬ (64 + (padE body ++ (encodeSegment (P s)).1).length > maxEncodedFrameLength) := by
      simp only [List.length_append]; omega
    obtain ⟨B, hB, hpad⟩ := ih (s + 1) (padE body ++ (encodeSegment (P s)).1)
      (offs ++ [64 + (padE body).length]) oob (fun t h1 h2 => hP t (by omega) (by omega))
      (by rw [hpe]; simp only [List.length_append] at hck ⊢; omega)
    refine ⟨B, ?_, ?_⟩
    · rw [encodeSegments]
      simp only [hb, hr, (encodeSegment_spec (P s)).2, Bool.or_false, if_neg hguard]
      rw [hB, padE_append _ _ (padE_length_even body)]
      simp [List.range'_succ, offsOf, chunkOf, Nat.add_assoc]
    · rw [hpad, padE_append _ _ (padE_length_even body)]
      simp [List.range'_succ, chunkOf]

/-! ### the assembled stream -/


def hdr (cs : List (List Byte)) : List Byte :=
  le32 cs.length ++ (offsOf 64 cs ++ List.replicate (15 - cs.length) 0).flatMap le32

def mkStream (cs : List (List Byte)) : List Byte := hdr cs ++ cs.flatten

theorem hdr_length (cs : List (List Byte)) (h : cs.length ≤ 15) : (hdr cs).length = 64 := by
  simp only [hdr, List.length_append, le32_length, flatMap_le32_length, offsOf_length,
    List.length_replicate]
  omega

theorem encodeFrame_of_segments (i : Info) (src : Array Byte) (B : List Byte) (O : List Nat)
    (h0 : src.size ≠ 0)
    (hn' : ¬ (i.numberOfSegments < 1 ∨ i.numberOfSegments > 15 ∨ i.pixelCount < 1))
    (hB : encodeSegments i src i.numberOfSegments 0 [] [] false = .ok (B, O, false)) :
    encodeFrame i src =
      .ok (le32 O.length ++ (O ++ List.replicate (15 - O.length) 0).flatMap le32 ++ padE B) := by
  rw [encodeFrame, if_neg h0, if_neg hn', hB]
  rfl

theorem padE_nil : padE [] = [] := by simp [padE]

theorem encodeSegments_all (i : Info) (src : Array Byte) (P : Nat → List Byte)
    (hP : ∀ t, t < i.numberOfSegments →
      readPlane src (i.segStart t) i.segStride i.pixelCount = some (P t))
    (hfit : 64 + ((List.range' 0 i.numberOfSegments).map fun t => chunkOf (P t)).flatten.length
      ≤ maxEncodedFrameLength) :
    ∃ B, encodeSegments i src i.numberOfSegments 0 [] [] false =
        .ok (B, offsOf 64 ((List.range' 0 i.numberOfSegments).map fun t => chunkOf (P t)), false) ∧
      padE B = ((List.range' 0 i.numberOfSegments).map fun t => chunkOf (P t)).flatten := by
  obtain ⟨B, hB, hpad⟩ := encodeSegments_spec i src P i.numberOfSegments 0 [] [] false
    (fun t _ h => hP t (by omega)) (by rw [padE_nil]; simpa using hfit)
  rw [padE_nil, List.nil_append] at hB hpad
  rw [List.length_nil, Nat.add_zero] at hB
  exact ⟨B, hB, hpad⟩

/-- the other branch of the size guard: while the stream written so far fits, a total beyond
    `maxEncodedFrameLength` makes the segment loop return the error at the first segment that passes it -/
theorem encodeSegments_reject (i : Info) (src : Array Byte) (P : Nat → List Byte) :
    ∀ (n s : Nat) (body : List Byte) (offs : List Nat) (oob : Bool),
    (∀ t, s ≤ t → t < s + n →
      readPlane src (i.segStart t) i.segStride i.pixelCount = some (P t)) →
    64 + (padE body).length ≤ maxEncodedFrameLength →
    64 + (padE body).length + ((List.range' s n).map fun t => chunkOf (P t)).flatten.length
      > maxEncodedFrameLength →
    encodeSegments i src n s body offs oob = .error .tooBig := by
  intro n
  induction n with
  | zero =>
    intro s body offs oob _ h1 h2
    simp at h2
    omega
  | succ n ih =>
    intro s body offs oob hP h1 h2
    have hb : (if (64 + body.length) % 2 = 1 then body ++ [0] else body) = padE body := rfl
    have hr := hP s (Nat.le_refl _) (by omega)
    have hfl : ((List.range' s (n + 1)).map fun t => chunkOf (P t)).flatten.length =
        (chunkOf (P s)).length + ((List.range' (s + 1) n).map fun t => chunkOf (P t)).flatten.length := by
      simp [List.range'_succ]
    rw [hfl] at h2
    have hck : (chunkOf (P s)).length = (encodeSegment (P s)).1.length + (padOf (encodeSegment (P s)).1).length := by
      simp [chunkOf]
    have hpe := padE_append (padE body) (encodeSegment (P s)).1 (padE_length_even body)
    have hev := padE_length_even body
    have hpo : (padOf (encodeSegment (P s)).1).length = (encodeSegment (P s)).1.length % 2 := by
      unfold padOf; split <;> rename_i h <;> simp <;> omega
    rw [encodeSegments]
    simp only [hb, hr]
    by_cases hguard : 64 + (padE body ++ (encodeSegment (P s)).1).length > maxEncodedFrameLength
    · rw [if_pos hguard]
    · rw [if_neg hguard]
      simp only [List.length_append] at hguard
      have hmax : maxEncodedFrameLength % 2 = 0 := by decide
      apply ih (s + 1) _ _ _ (fun t h1 h2 => hP t (by omega) (by omega))
      · rw [hpe]; simp only [List.length_append]; omega
      · rw [hpe]; simp only [List.length_append]; omega

theorem encodeFrame_stream (i : Info) (src : Array Byte) (cs : List (List Byte))
    (h0 : src.size ≠ 0) (hn : i.numberOfSegments ≤ 15) (hn1 : 1 ≤ i.numberOfSegments)
    (hpc : 1 ≤ i.pixelCount)
    (hP : ∃ B, encodeSegments i src i.numberOfSegments 0 [] [] false = .ok (B, offsOf 64 cs, false) ∧
      padE B = cs.flatten) :
    encodeFrame i src = .ok (mkStream cs) := by
  obtain ⟨B, hB, hpad⟩ := hP
  have hn' : ¬ (i.numberOfSegments < 1 ∨ i.numberOfSegments > 15 ∨ i.pixelCount < 1) := by omega
  rw [encodeFrame_of_segments i src B _ h0 hn' hB, hpad]
  simp [mkStream, hdr, offsOf_length]

theorem encodeFrame_eq (i : Info) (src : Array Byte) (P : Nat → List Byte)
    (h0 : src.size ≠ 0) (hn : i.numberOfSegments ≤ 15) (hn1 : 1 ≤ i.numberOfSegments)
    (hpc : 1 ≤ i.pixelCount)
    (hP : ∀ t, t < i.numberOfSegments →
      readPlane src (i.segStart t) i.segStride i.pixelCount = some (P t))
    (hfit : 64 + ((List.range' 0 i.numberOfSegments).map fun t => chunkOf (P t)).flatten.length
      ≤ maxEncodedFrameLength) :
    encodeFrame i src =
      .ok (mkStream ((List.range' 0 i.numberOfSegments).map fun t => chunkOf (P t))) :=
  encodeFrame_stream i src _ h0 hn hn1 hpc (encodeSegments_all i src P hP hfit)

theorem encodeFrame_reject (i : Info) (src : Array Byte) (P : Nat → List Byte)
    (h0 : src.size ≠ 0) (hn : i.numberOfSegments ≤ 15) (hn1 : 1 ≤ i.numberOfSegments)
    (hpc : 1 ≤ i.pixelCount)
    (hP : ∀ t, t < i.numberOfSegments →
      readPlane src (i.segStart t) i.segStride i.pixelCount = some (P t))
    (hbig : 64 + ((List.range' 0 i.numberOfSegments).map fun t => chunkOf (P t)).flatten.length
      > maxEncodedFrameLength) :
    encodeFrame i src = .err := by
  have hn' : ¬ (i.numberOfSegments < 1 ∨ i.numberOfSegments > 15 ∨ i.pixelCount < 1) := by omega
  have := encodeSegments_reject i src P i.numberOfSegments 0 [] [] false
    (fun t _ h => hP t (by omega)) (by rw [padE_nil]; decide) (by rw [padE_nil]; simpa using hbig)
  rw [encodeFrame, if_neg h0, if_neg hn', this]

theorem stream_rd_count (cs : List (List Byte)) (h : cs.length ≤ 15) :
    rd32 (mkStream cs) 0 = cs.length := by
  have := rd32_le32 [] ((offsOf 64 cs ++ List.replicate (15 - cs.length) 0).flatMap le32 ++ cs.flatten)
    cs.length (by omega)
  simpa [mkStream, hdr] using this

theorem stream_rd_off (cs : List (List Byte)) (h : cs.length ≤ 15)
    (hb : 64 + cs.flatten.length < 4294967296) (k : Nat) (hk : k < 15) :
    rd32 (mkStream cs) (4 + 4 * k) = if k < cs.length then 64 + pre cs k else 0 := by
  have hL : (offsOf 64 cs ++ List.replicate (15 - cs.length) 0).getD k 0 =
      if k < cs.length then 64 + pre cs k else 0 := by
    split
    · next h1 =>
      rw [← offsOf_getD cs 64 k h1]
      simp [List.getD_eq_getElem?_getD, List.getElem?_append_left, offsOf_length, h1]
    · next h1 =>
      simp [List.getD_eq_getElem?_getD, List.getElem?_append_right, offsOf_length, Nat.le_of_not_lt h1,
        List.getElem?_replicate]
      split <;> rfl
  have := rd32_flatMap (offsOf 64 cs ++ List.replicate (15 - cs.length) 0) (le32 cs.length)
    cs.flatten k (by simp [offsOf_length]; omega)
    (by rw [hL]; split
        · have := pre_le cs k; omega
        · omega)
  rw [hL, le32_length] at this
  rw [← this]
  simp [mkStream, hdr]




theorem mkStream_length (cs : List (List Byte)) (h : cs.length ≤ 15) :
    (mkStream cs).length = 64 + cs.flatten.length := by
  simp only [mkStream, List.length_append, hdr_length cs h]

theorem stream_slice (cs : List (List Byte)) (h : cs.length ≤ 15) (k : Nat) (hk : k < cs.length) :
    ((mkStream cs).take (64 + pre cs (k + 1))).drop (64 + pre cs k) = cs[k] := by
  have := slice_chunk (hdr cs) cs k hk
  rwa [hdr_length cs h] at this

theorem parseHeader_stream (cs : List (List Byte)) (h1 : 1 ≤ cs.length) (h : cs.length ≤ 15)
    (hb : 64 + cs.flatten.length < 4294967296) :
    ∃ offs, parseHeader (mkStream cs) = some (cs.length, offs) ∧
      ∀ k, k < cs.length → offs.getD k 0 = 64 + pre cs k := by
  have hget : ∀ k, k < 15 →
      ((List.range 15).map fun k => rd32 (mkStream cs) (4 + 4 * k)).getD k 0 =
        if k < cs.length then 64 + pre cs k else 0 := by
    intro k hk
    rw [← stream_rd_off cs h hb k hk]
    simp [List.getD_eq_getElem?_getD, List.getElem?_map, List.getElem?_range hk]
  refine ⟨_, ?_, fun k hk => by rw [hget k (by omega)]; simp [hk]⟩
  unfold parseHeader
  have hl : ¬ ((mkStream cs).length < 64) := by rw [mkStream_length cs h]; omega
  have hc : ¬ (cs.length < 1 ∨ cs.length > 15) := by omega
  simp only [hl, ↓reduceIte, stream_rd_count cs h, hc]
  rw [if_pos]
  simp only [List.all_eq_true, List.mem_range, decide_eq_true_eq]
  intro k hk
  rw [hget k (by omega), mkStream_length cs h]
  simp only [hk, ↓reduceIte]
  have := pre_le cs k
  omega

theorem segmentSlice_stream (cs : List (List Byte)) (h : cs.length ≤ 15) (offs : List Nat)
    (hoffs : ∀ k, k < cs.length → offs.getD k 0 = 64 + pre cs k) (k : Nat) (hk : k < cs.length) :
    segmentSlice (mkStream cs) cs.length offs k = cs[k] := by
  unfold segmentSlice
  simp only [hoffs k hk]
  rw [← stream_slice cs h k hk]
  congr 2
  split
  · next h1 => exact hoffs _ h1
  · next h1 =>
    have : k + 1 = cs.length := by omega
    rw [this, pre_all, mkStream_length cs h]

theorem flatten_length_even (L : List (List Byte)) (hL : ∀ c, c ∈ L → c.length % 2 = 0) :
    L.flatten.length % 2 = 0 := by
  induction L with
  | nil => rfl
  | cons c L ih =>
    have h1 := hL c (by simp)
    have h2 := ih (fun c hc => hL c (by simp [hc]))
    simp only [List.flatten_cons, List.length_append]
    omega

theorem pre_even (cs : List (List Byte)) (hL : ∀ c, c ∈ cs → c.length % 2 = 0) (k : Nat) :
    pre cs k % 2 = 0 :=
  flatten_length_even _ (fun c hc => hL c (List.mem_of_mem_take hc))

theorem headerOk_stream (cs : List (List Byte)) (_h1 : 1 ≤ cs.length) (h : cs.length ≤ 15)
    (hb : 64 + cs.flatten.length < 4294967296)
    (hL : ∀ c, c ∈ cs → c.length % 2 = 0 ∧ 2 ≤ c.length) :
    AnnexG.headerOk (mkStream cs) cs.length = true := by
  have hev := fun c hc => (hL c hc).1
  simp only [AnnexG.headerOk, Bool.and_eq_true, decide_eq_true_eq, List.all_eq_true,
    List.mem_range, u32_eq_rd32]
  refine ⟨⟨⟨⟨?_, ?_⟩, ?_⟩, h⟩, ?_⟩
  · rw [mkStream_length cs h]
    have := flatten_length_even cs hev
    omega
  · rw [mkStream_length cs h]; omega
  · exact stream_rd_count cs h
  · intro k hk
    rw [stream_rd_off cs h hb k hk]
    split
    · next hkn =>
      have hs := pre_succ cs k hkn
      have hle := pre_le cs (k + 1)
      have h2 := (hL cs[k] (List.getElem_mem hkn)).2
      have he := pre_even cs hev k
      simp only [Bool.and_eq_true, decide_eq_true_eq]
      refine ⟨⟨by omega, by rw [mkStream_length cs h]; omega⟩, ?_⟩
      split
      · next hk0 => subst hk0; simp [pre_zero]
      · next hk0 =>
        obtain ⟨j, rfl⟩ : ∃ j, k = j + 1 := ⟨k - 1, by omega⟩
        rw [show 4 * (j + 1) = 4 + 4 * j by omega, stream_rd_off cs h hb j (by omega)]
        have hjn : j < cs.length := by omega
        have := pre_succ cs j hjn
        have := (hL cs[j] (List.getElem_mem hjn)).2
        simp only [hjn, ↓reduceIte, decide_eq_true_eq]
        omega
    · simp

theorem mapM_some_of_forall {α β : Type} {f : α → Option β} {g : α → β} (l : List α)
    (h : ∀ x, x ∈ l → f x = some (g x)) : l.mapM f = some (l.map g) := by
  induction l with
  | nil => rfl
  | cons a l ih =>
    rw [List.mapM_cons, h a (by simp), ih (fun x hx => h x (by simp [hx]))]
    rfl

theorem readPlanes_stream (cs : List (List Byte)) (h1 : 1 ≤ cs.length) (h : cs.length ≤ 15)
    (hb : 64 + cs.flatten.length < 4294967296)
    (hL : ∀ c, c ∈ cs → c.length % 2 = 0 ∧ 2 ≤ c.length) (pixels : Nat) (g : Nat → List Nat)
    (hg : ∀ k (hk : k < cs.length), AnnexG.unpack cs[k] pixels = some (g k)) :
    AnnexG.readPlanes (mkStream cs) cs.length pixels = some ((List.range cs.length).map g) := by
  unfold AnnexG.readPlanes
  rw [if_pos (headerOk_stream cs h1 h hb hL)]
  apply mapM_some_of_forall
  intro k hk
  rw [List.mem_range] at hk
  simp only [u32_eq_rd32]
  rw [stream_rd_off cs h hb k (by omega), if_pos hk, ← hg k hk, ← stream_slice cs h k hk]
  congr 3
  split
  · next h1 => rw [stream_rd_off cs h hb (k + 1) (by omega), if_pos h1]
  · next h1 =>
    have : k + 1 = cs.length := by omega
    rw [this, pre_all, mkStream_length cs h]


end Rle
