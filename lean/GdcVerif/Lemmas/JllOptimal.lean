import GdcVerif.Model.OptimalHuffman
/-!
  L6: `BuildOptimalHuffmanTable` (model `JLL.Opt.buildOptimal`, T.81 Annex K.2).

  * L6a `buildOptimal_total`: the construction cannot panic or diverge for ANY 256 frequencies:
    257 leaves (with the pseudo-symbol) mean at most 256 merges, so every code size is ≤ 256 =
    `maxHuffmanCodeLength` and `bits[size]++` stays inside the 257-entry work array; the
    length-limiting loop of Figure K.3 (sizes 256 down to 17) always finds its prefix and
    terminates.  (`buildOptimal_ok_of_count`, `buildOptimal_lossless_ok`: the former restricted
    forms, now corollaries.  Before fix PENDING:c11-huffman-depth-over-32 the array had 33 entries and the
    function panicked when a code size exceeded 32.)
  * L6b `buildOptimal_valid` (`buildOptimal_valid_of_count`, `buildOptimal_lossless_valid`): the
    result is a valid table specification (16 non-negative counts summing to the number of values,
    the values are exactly the symbols of non-zero frequency without repetition, Kraft sum < 1).

  Proof: merge-loop invariant `Inv` (disjoint duplicate-free `others` chains per live index, code
  sizes bounded by the number of merges, per-chain Kraft equality), then the invariant `BInv` of
  the limiting loop (Kraft equality at budget 256 + parity + counting give the prefix and termination:
  257 codes of length ≥ 16 weigh at most 257·2^240 < 2^256).
-/
namespace JLL.Opt

/-! ## 0. small generic facts -/

theorem nodup_length_le : ∀ (n : Nat) (l : List Nat), l.Nodup → (∀ a ∈ l, a < n) → l.length ≤ n
  | 0, l, _, h => by
    cases l with
    | nil => simp
    | cons a t => exact absurd (h a (by simp)) (by omega)
  | n + 1, l, hnd, h => by
    have ih := nodup_length_le n (l.erase n) (hnd.erase n) (by
      intro a ha
      have := (hnd.mem_erase_iff).1 ha
      have := h a this.2
      omega)
    rw [List.length_erase] at ih
    split at ih <;> omega

/-! ## 1. `smallestFrequencySymbol` -/

theorem smallestGo_nonneg (excluded : Int) : ∀ (l : List Nat) (i : Nat) (symbol : Int) (smallest : Nat),
    0 ≤ symbol → 0 ≤ smallestGo excluded l i symbol smallest
  | [], _, _, _, h => by simpa [smallestGo] using h
  | v :: rest, i, symbol, smallest, h => by
    unfold smallestGo
    split
    · exact smallestGo_nonneg excluded rest (i + 1) i v (by omega)
    · exact smallestGo_nonneg excluded rest (i + 1) symbol smallest h

/-- the result is the incoming candidate or a valid position -/
theorem smallestGo_spec (excluded : Int) : ∀ (l : List Nat) (i : Nat) (symbol : Int) (smallest : Nat),
    smallestGo excluded l i symbol smallest = symbol ∨
    ∃ j, smallestGo excluded l i symbol smallest = ((i + j : Nat) : Int) ∧ j < l.length ∧
      l[j]?.getD 0 ≠ 0 ∧ ((i + j : Nat) : Int) ≠ excluded
  | [], _, _, _ => by simp [smallestGo]
  | v :: rest, i, symbol, smallest => by
    unfold smallestGo
    split
    · next hc =>
      rcases smallestGo_spec excluded rest (i + 1) i v with h | ⟨j, h1, h2, h3, h4⟩
      · right
        exact ⟨0, by simpa using h, by simp, by simpa using hc.1, by simpa using hc.2.1⟩
      · right
        refine ⟨j + 1, ?_, by simpa using h2, by simpa using h3, ?_⟩
        · rw [h1]; congr 1; omega
        · have : i + (j + 1) = i + 1 + j := by omega
          rw [this]; exact h4
    · rcases smallestGo_spec excluded rest (i + 1) symbol smallest with h | ⟨j, h1, h2, h3, h4⟩
      · left; exact h
      · right
        refine ⟨j + 1, ?_, by simpa using h2, by simpa using h3, ?_⟩
        · rw [h1]; congr 1; omega
        · have : i + (j + 1) = i + 1 + j := by omega
          rw [this]; exact h4

/-- a negative result means there was no admissible entry -/
theorem smallestGo_neg (excluded : Int) : ∀ (l : List Nat) (i : Nat) (symbol : Int) (smallest : Nat),
    smallestGo excluded l i symbol smallest < 0 →
    symbol < 0 ∧ ∀ j, j < l.length → l[j]?.getD 0 ≠ 0 → ((i + j : Nat) : Int) = excluded
  | [], _, _, _, h => by
    simp [smallestGo] at h
    exact ⟨h, by simp⟩
  | v :: rest, i, symbol, smallest, h => by
    unfold smallestGo at h
    split at h
    · have := smallestGo_nonneg excluded rest (i + 1) i v (by omega)
      omega
    · next hc =>
      have ⟨h1, h2⟩ := smallestGo_neg excluded rest (i + 1) symbol smallest h
      refine ⟨h1, ?_⟩
      intro j hj hne
      cases j with
      | zero =>
        simp at hne
        apply Classical.byContradiction
        intro hx
        exact hc ⟨hne, by simpa using hx, Or.inl h1⟩
      | succ j =>
        have := h2 j (by simpa using hj) (by simpa using hne)
        have e : i + (j + 1) = i + 1 + j := by omega
        rw [e]; exact this

/-- `live freq i`: index `i` has a non-zero frequency -/
def live (freq : Array Nat) (i : Nat) : Prop := freq[i]?.getD 0 ≠ 0

theorem live_lt {freq : Array Nat} {i : Nat} (h : live freq i) : i < freq.size := by
  unfold live at h
  apply Classical.byContradiction
  intro hn
  have : freq[i]? = none := by simp; omega
  simp [this] at h

theorem sfs_spec (freq : Array Nat) (excluded : Int) :
    smallestFrequencySymbol freq excluded = -1 ∨
    ∃ j : Nat, smallestFrequencySymbol freq excluded = (j : Int) ∧ live freq j ∧ (j : Int) ≠ excluded := by
  unfold smallestFrequencySymbol
  rcases smallestGo_spec excluded freq.toList 0 (-1) 0 with h | ⟨j, h1, _, h3, h4⟩
  · left; exact h
  · right
    refine ⟨j, by simpa using h1, ?_, by simpa using h4⟩
    unfold live
    simpa using h3

theorem sfs_neg (freq : Array Nat) (excluded : Int) (h : smallestFrequencySymbol freq excluded < 0) :
    ∀ j, live freq j → (j : Int) = excluded := by
  intro j hj
  have := (smallestGo_neg excluded freq.toList 0 (-1) 0 h).2 j (by simpa using live_lt hj)
    (by unfold live at hj; simpa using hj)
  simpa using this

/-! ## 2. chains of `others` links -/

/-- walking the `others` links from pointer `s` visits exactly the indices `l`, then reaches a
    negative link -/
def IsChain (o : Array Int) : Int → List Nat → Prop
  | s, [] => s < 0
  | s, a :: l => s = (a : Int) ∧ ∃ nxt, o[a]? = some nxt ∧ IsChain o nxt l

theorem IsChain.mem_lt {o : Array Int} : ∀ {l : List Nat} {s : Int}, IsChain o s l → ∀ a ∈ l, a < o.size
  | [], _, _, a, ha => by simp at ha
  | b :: l, s, h, a, ha => by
    obtain ⟨_, nxt, h2, h3⟩ := h
    rcases List.mem_cons.1 ha with rfl | ha
    · apply Classical.byContradiction
      intro hn
      have : o[a]? = none := by simp; omega
      simp [this] at h2
    · exact h3.mem_lt a ha

theorem IsChain.frame {o : Array Int} (x : Nat) (v : Int) :
    ∀ {l : List Nat} {s : Int}, IsChain o s l → x ∉ l → IsChain (o.setIfInBounds x v) s l
  | [], _, h, _ => h
  | b :: l, s, h, hx => by
    obtain ⟨h1, nxt, h2, h3⟩ := h
    simp at hx
    refine ⟨h1, nxt, ?_, h3.frame x v hx.2⟩
    rw [Array.getElem?_setIfInBounds_ne (by omega)]
    exact h2

theorem IsChain.append {o : Array Int} (v : Nat) (l2 : List Nat) :
    ∀ {l : List Nat} {s : Int} (hne : l ≠ []), IsChain o s l → l.Nodup →
      IsChain (o.setIfInBounds (l.getLast hne) v) v l2 →
      IsChain (o.setIfInBounds (l.getLast hne) v) s (l ++ l2)
  | [], _, hne, _, _, _ => absurd rfl hne
  | [b], s, _, h, _, h2 => by
    obtain ⟨h1, nxt, h3, _⟩ := h
    simp at h2 ⊢
    refine ⟨h1, (v : Int), ?_, h2⟩
    rw [Array.getElem?_setIfInBounds_self]
    have : b < o.size := by
      apply Classical.byContradiction
      intro hn
      have : o[b]? = none := by simp; omega
      simp [this] at h3
    simp [this]
  | b :: c :: l, s, _, h, hnd, h2 => by
    obtain ⟨h1, nxt, h3, h4⟩ := h
    have hnd' : (c :: l).Nodup := (List.nodup_cons.1 hnd).2
    have hb : b ∉ (c :: l) := (List.nodup_cons.1 hnd).1
    have hlast : (b :: c :: l).getLast (by simp) = (c :: l).getLast (by simp) := by simp
    rw [hlast] at h2 ⊢
    have ih := IsChain.append v l2 (by simp) h4 hnd' h2
    refine ⟨h1, nxt, ?_, ih⟩
    rw [Array.getElem?_setIfInBounds_ne]
    · exact h3
    · intro e
      apply hb
      rw [← e]
      exact List.getLast_mem _

theorem IsChain.head {o : Array Int} {s : Nat} {l : List Nat} (h : IsChain o (s : Int) l) :
    ∃ t, l = s :: t := by
  cases l with
  | nil => simp [IsChain] at h; omega
  | cons a t =>
    obtain ⟨h1, _⟩ := h
    have : s = a := by omega
    exact ⟨t, by rw [this]⟩

/-! ## 3. the two chain walks -/

theorem incrementCodeSize_ok (o : Array Int) :
    ∀ (l : List Nat) (fuel : Nat) (cs : Array Nat) (s : Int), IsChain o s l → l.length < fuel →
      cs.size = o.size →
      ∃ cs', incrementCodeSize o fuel cs s = .ok cs' ∧ cs'.size = cs.size ∧
        ∀ a, cs'[a]?.getD 0 = cs[a]?.getD 0 + l.count a
  | [], fuel, cs, s, h, hf, _ => by
    cases fuel with
    | zero => omega
    | succ fuel =>
      simp [IsChain] at h
      refine ⟨cs, ?_, rfl, by simp⟩
      unfold incrementCodeSize
      rw [if_neg (by omega)]
  | b :: l, fuel, cs, s, h, hf, hsz => by
    cases fuel with
    | zero => simp at hf
    | succ fuel =>
      have hb : b < o.size := h.mem_lt b (by simp)
      obtain ⟨h1, nxt, h2, h3⟩ := h
      have ⟨cs', e1, e2, e3⟩ := incrementCodeSize_ok o l fuel (cs.setIfInBounds b (cs[b]?.getD 0 + 1)) nxt h3
        (by simpa using hf) (by simpa using hsz)
      refine ⟨cs', ?_, by simpa using e2, ?_⟩
      · unfold incrementCodeSize
        rw [if_pos (by omega)]
        have hs : s.toNat = b := by omega
        rw [hs, h2]
        have hcb : b < cs.size := by omega
        have : cs[b]? = some cs[b] := by simp
        rw [this] at e1 ⊢
        simpa using e1
      · intro a
        rw [e3 a, Array.getElem?_setIfInBounds, List.count_cons]
        by_cases hab : b = a
        · subst hab
          have : b < cs.size := by omega
          simp [this]; omega
        · simp [hab]

theorem lastBranchSymbol_ok (o : Array Int) :
    ∀ (l : List Nat) (fuel : Nat) (s : Int) (hne : l ≠ []), IsChain o s l → l.length ≤ fuel →
      lastBranchSymbol o fuel s = .ok (l.getLast hne)
  | [], _, _, hne, _, _ => absurd rfl hne
  | [b], fuel, s, _, h, hf => by
    cases fuel with
    | zero => simp at hf
    | succ fuel =>
      obtain ⟨h1, nxt, h2, h3⟩ := h
      simp [IsChain] at h3
      unfold lastBranchSymbol
      rw [if_neg (by omega)]
      have hs : s.toNat = b := by omega
      rw [hs, h2]
      simp
      omega
  | b :: c :: l, fuel, s, _, h, hf => by
    cases fuel with
    | zero => simp at hf
    | succ fuel =>
      obtain ⟨h1, nxt, h2, h3⟩ := h
      have ih := lastBranchSymbol_ok o (c :: l) fuel nxt (by simp) h3 (by simpa using hf)
      unfold lastBranchSymbol
      rw [if_neg (by omega)]
      have hs : s.toNat = b := by omega
      rw [hs, h2]
      have hn : nxt ≥ 0 := by
        obtain ⟨h4, _⟩ := h3
        omega
      simp only [hn, if_true]
      rw [ih]
      simp

/-! ## 4. the merge-loop invariant -/

/-- number of non-zero frequencies -/
def nz (freq : Array Nat) : Nat := freq.toList.countP (fun x => x != 0)

theorem nz_pos_of_live {freq : Array Nat} {i : Nat} (h : live freq i) : 0 < nz freq := by
  have hi := live_lt h
  unfold nz
  rw [List.countP_pos_iff]
  refine ⟨freq[i], by simp, ?_⟩
  unfold live at h
  have : freq[i]? = some freq[i] := by simp
  rw [this] at h
  simpa using h

theorem nz_set (freq : Array Nat) (i v : Nat) (hi : i < freq.size) :
    nz (freq.setIfInBounds i v) + (if freq[i] ≠ 0 then 1 else 0) = nz freq + (if v ≠ 0 then 1 else 0) := by
  unfold nz
  rw [Array.toList_setIfInBounds, List.countP_set (by simpa using hi)]
  have hpos : freq[i] ≠ 0 → 0 < List.countP (fun x => x != 0) freq.toList := by
    intro h
    have : live freq i := by
      unfold live
      have : freq[i]? = some freq[i] := by simp
      rw [this]; simpa using h
    exact nz_pos_of_live this
  by_cases hv : v = 0 <;> by_cases hf : freq[i] = 0
  · simp [hv, hf]
  · have := hpos hf; simp only [Array.countP_toList] at this; simp [hv, hf]; omega
  · simp [hv, hf]
  · have := hpos hf; simp only [Array.countP_toList] at this; simp [hv, hf]; omega

abbrev St.cs (st : St) (a : Nat) : Nat := st.codeSize[a]?.getD 0

theorem sum_map_double (g g' : Nat → Nat) : ∀ (l : List Nat), (∀ a ∈ l, 2 * g' a = g a) →
    2 * (l.map g').sum = (l.map g).sum
  | [], _ => by simp
  | b :: l, h => by
    have := sum_map_double g g' l (fun a ha => h a (by simp [ha]))
    have := h b (by simp)
    simp only [List.map_cons, List.sum_cons]
    omega

/-- invariant of the merge loop: `ch i` is the `others` chain of the live index `i`; `k` merges have
    been performed; `N` = initial number of non-zero frequencies; `K` a code-length budget -/
structure Inv (P : Nat → Prop) (N K : Nat) (st : St) (ch : Nat → List Nat) (k : Nat) : Prop where
  szF : st.freq.size = 257
  szC : st.codeSize.size = 257
  szO : st.others.size = 257
  chain : ∀ i, live st.freq i → IsChain st.others (i : Int) (ch i)
  nodup : ∀ i, live st.freq i → (ch i).Nodup
  disj : ∀ i j, live st.freq i → live st.freq j → i ≠ j → ∀ a, a ∈ ch i → a ∉ ch j
  cnt : nz st.freq + k = N
  csle : ∀ a, st.cs a ≤ k
  kraft : ∀ i, live st.freq i → ((ch i).map (fun a => 2 ^ (K - st.cs a))).sum = 2 ^ K
  pos : ∀ i, live st.freq i → (ch i = [i] ∧ st.cs i = 0) ∨ (∀ a ∈ ch i, 1 ≤ st.cs a)
  cover : ∀ a, st.cs a ≠ 0 → ∃ i, live st.freq i ∧ a ∈ ch i
  orig : ∀ a, P a → ∃ i, live st.freq i ∧ a ∈ ch i
  memP : ∀ i, live st.freq i → ∀ a ∈ ch i, P a

theorem Inv.self_mem {P N K st ch k} (h : Inv P N K st ch k) {i : Nat} (hi : live st.freq i) : i ∈ ch i := by
  obtain ⟨t, ht⟩ := (h.chain i hi).head
  rw [ht]; simp

theorem Inv.chain_len {P N K st ch k} (h : Inv P N K st ch k) {i : Nat} (hi : live st.freq i) :
    (ch i).length ≤ 257 :=
  nodup_length_le 257 (ch i) (h.nodup i hi) (fun a ha => by
    have := (h.chain i hi).mem_lt a ha
    rw [h.szO] at this; exact this)

/-- one iteration of the merge loop on live `c1 ≠ c2` -/
theorem Inv.step {P N K st ch k} (h : Inv P N K st ch k) (hK : N ≤ K + 1) {c1 c2 : Nat}
    (h1 : live st.freq c1) (h2 : live st.freq c2) (hne : c1 ≠ c2) :
    ∃ cs1 cs2 last,
      incrementCodeSize st.others 258 st.codeSize (c1 : Int) = .ok cs1 ∧
      lastBranchSymbol st.others 258 (c1 : Int) = .ok last ∧
      incrementCodeSize (st.others.setIfInBounds last (c2 : Int)) 258 cs1 (c2 : Int) = .ok cs2 ∧
      Inv P N K (St.mk ((st.freq.setIfInBounds c1 (st.freq[c1]?.getD 0 + st.freq[c2]?.getD 0)).setIfInBounds c2 0)
                cs2 (st.others.setIfInBounds last (c2 : Int)))
        (fun i => if i = c1 then ch c1 ++ ch c2 else ch i) (k + 1) := by
  have hc1 := h.chain c1 h1
  have hc2 := h.chain c2 h2
  have hl1 := h.chain_len h1
  have hl2 := h.chain_len h2
  have hne1 : ch c1 ≠ [] := by
    have := h.self_mem h1
    intro e; rw [e] at this; simp at this
  obtain ⟨cs1, e1, s1, v1⟩ := incrementCodeSize_ok st.others (ch c1) 258 st.codeSize c1 hc1 (by omega)
    (by rw [h.szC, h.szO])
  have e2 := lastBranchSymbol_ok st.others (ch c1) 258 c1 hne1 hc1 (by omega)
  have hlast1 : (ch c1).getLast hne1 ∈ ch c1 := List.getLast_mem _
  have hlast2 : (ch c1).getLast hne1 ∉ ch c2 := h.disj c1 c2 h1 h2 hne _ hlast1
  have hc2' : IsChain (st.others.setIfInBounds ((ch c1).getLast hne1) (c2 : Int)) (c2 : Int) (ch c2) :=
    hc2.frame _ _ hlast2
  obtain ⟨cs2, e3, s2, v2⟩ := incrementCodeSize_ok _ (ch c2) 258 cs1 c2 hc2' (by omega)
    (by rw [s1, h.szC, Array.size_setIfInBounds, h.szO])
  refine ⟨cs1, cs2, _, e1, e2, e3, ?_⟩
  -- liveness in the new frequency array
  have hF1 : c1 < st.freq.size := live_lt h1
  have hF2 : c2 < st.freq.size := live_lt h2
  have hlive : ∀ i, live ((st.freq.setIfInBounds c1 (st.freq[c1]?.getD 0 + st.freq[c2]?.getD 0)).setIfInBounds c2 0) i
      ↔ (i ≠ c2 ∧ live st.freq i) := by
    intro i
    unfold live at h1 h2 ⊢
    rw [Array.getElem?_setIfInBounds, Array.getElem?_setIfInBounds]
    by_cases hi2 : c2 = i
    · subst hi2; simp [hF2]
    · by_cases hi1 : c1 = i
      · subst hi1
        rw [if_neg hi2, if_pos rfl, if_pos hF1]
        simp only [Option.getD_some]
        constructor
        · intro _; exact ⟨Ne.symm hi2, h1⟩
        · intro _; omega
      · simp [hi1, hi2, Ne.symm hi2]
  -- the new code sizes
  have hcs : ∀ a, cs2[a]?.getD 0 = st.cs a + (ch c1).count a + (ch c2).count a := by
    intro a; rw [v2, v1]
  have hcs_in : ∀ a, a ∈ ch c1 ++ ch c2 → cs2[a]?.getD 0 = st.cs a + 1 := by
    intro a ha
    rw [hcs, (h.nodup c1 h1).count, (h.nodup c2 h2).count]
    rcases List.mem_append.1 ha with ha | ha
    · have := h.disj c1 c2 h1 h2 hne a ha
      simp [ha, this]
    · have : a ∉ ch c1 := fun hx => h.disj c1 c2 h1 h2 hne a hx ha
      simp [ha, this]
  have hcs_out : ∀ a, a ∉ ch c1 → a ∉ ch c2 → cs2[a]?.getD 0 = st.cs a := by
    intro a ha hb
    rw [hcs, List.count_eq_zero_of_not_mem ha, List.count_eq_zero_of_not_mem hb]
    rfl
  have hcs_le : ∀ a, cs2[a]?.getD 0 ≤ st.cs a + 1 := by
    intro a
    by_cases ha : a ∈ ch c1 ++ ch c2
    · rw [hcs_in a ha]; exact Nat.le_refl _
    · simp at ha
      rw [hcs_out a ha.1 ha.2]; omega
  -- counting
  have hnz : nz ((st.freq.setIfInBounds c1 (st.freq[c1]?.getD 0 + st.freq[c2]?.getD 0)).setIfInBounds c2 0) + 1
      = nz st.freq := by
    have a1 := nz_set st.freq c1 (st.freq[c1]?.getD 0 + st.freq[c2]?.getD 0) hF1
    have a2 := nz_set (st.freq.setIfInBounds c1 (st.freq[c1]?.getD 0 + st.freq[c2]?.getD 0)) c2 0
      (by simpa using hF2)
    have g1 : st.freq[c1] ≠ 0 := by
      unfold live at h1
      have : st.freq[c1]? = some st.freq[c1] := by simp
      rw [this] at h1; simpa using h1
    have g2 : (st.freq.setIfInBounds c1 (st.freq[c1]?.getD 0 + st.freq[c2]?.getD 0))[c2]'(by simpa using hF2) ≠ 0 := by
      unfold live at h2
      rw [Array.getElem_setIfInBounds (by simpa using hF2), if_neg hne]
      have : st.freq[c2]? = some st.freq[c2] := by simp
      rw [this] at h2; simpa using h2
    have g3 : st.freq[c1]?.getD 0 + st.freq[c2]?.getD 0 ≠ 0 := by
      unfold live at h1; omega
    simp only [g1, g2, g3, if_true, ne_eq, not_false_eq_true, not_true_eq_false, if_false] at a1 a2
    omega
  have hlive1 : live ((st.freq.setIfInBounds c1 (st.freq[c1]?.getD 0 + st.freq[c2]?.getD 0)).setIfInBounds c2 0) c1 :=
    (hlive c1).2 ⟨hne, h1⟩
  have hnzpos := nz_pos_of_live hlive1
  have hcnt := h.cnt
  have hk : k + 1 ≤ K := by omega
  refine
    { szF := by simp [h.szF], szC := by simp [s2, s1, h.szC], szO := by simp [h.szO],
      chain := ?_, nodup := ?_, disj := ?_, cnt := ?_, csle := ?_, kraft := ?_, pos := ?_, cover := ?_, orig := ?_, memP := ?_ }
  · -- chain
    intro i hi
    have ⟨hi2, hi'⟩ := (hlive i).1 hi
    by_cases hi1 : i = c1
    · subst hi1
      simp only [if_true]
      exact IsChain.append c2 (ch c2) hne1 hc1 (h.nodup _ h1) hc2'
    · simp only [if_neg hi1]
      exact (h.chain i hi').frame _ _ (fun hx => h.disj c1 i h1 hi' (Ne.symm hi1) _ hlast1 hx)
  · -- nodup
    intro i hi
    have ⟨hi2, hi'⟩ := (hlive i).1 hi
    by_cases hi1 : i = c1
    · subst hi1
      simp only [if_true]
      rw [List.nodup_append]
      refine ⟨h.nodup _ h1, h.nodup _ h2, ?_⟩
      intro a ha b hb e
      subst e
      exact h.disj _ c2 h1 h2 hne a ha hb
    · simp only [if_neg hi1]
      exact h.nodup i hi'
  · -- disj
    intro i j hi hj hij a
    have ⟨hi2, hi'⟩ := (hlive i).1 hi
    have ⟨hj2, hj'⟩ := (hlive j).1 hj
    by_cases hi1 : i = c1
    · subst hi1
      have hj1 : j ≠ i := Ne.symm hij
      simp only [if_true, if_neg hj1]
      intro ha
      rcases List.mem_append.1 ha with ha | ha
      · exact h.disj i j h1 hj' hij a ha
      · exact h.disj c2 j h2 hj' (Ne.symm hj2) a ha
    · simp only [if_neg hi1]
      by_cases hj1 : j = c1
      · subst hj1
        simp only [if_true]
        intro ha hb
        rcases List.mem_append.1 hb with hb | hb
        · exact h.disj i j hi' h1 hij a ha hb
        · exact h.disj i c2 hi' h2 hi2 a ha hb
      · simp only [if_neg hj1]
        exact h.disj i j hi' hj' hij a
  · -- cnt
    show nz (Array.setIfInBounds _ _ _) + (k + 1) = N
    omega
  · -- csle
    intro a
    show cs2[a]?.getD 0 ≤ k + 1
    have := hcs_le a
    have := h.csle a
    omega
  · -- kraft
    intro i hi
    have ⟨hi2, hi'⟩ := (hlive i).1 hi
    show (List.map (fun a => 2 ^ (K - cs2[a]?.getD 0)) _).sum = 2 ^ K
    by_cases hi1 : i = c1
    · subst hi1
      simp only [if_true]
      have := sum_map_double (fun a => 2 ^ (K - st.cs a)) (fun a => 2 ^ (K - cs2[a]?.getD 0)) (ch i ++ ch c2)
        (by
          intro a ha
          rw [hcs_in a ha]
          have := h.csle a
          have e : K - st.cs a = (K - (st.cs a + 1)) + 1 := by omega
          show 2 * 2 ^ (K - (st.cs a + 1)) = 2 ^ (K - st.cs a)
          rw [e, Nat.pow_succ]; omega)
      simp only [List.map_append, List.sum_append] at this ⊢
      rw [h.kraft i h1, h.kraft c2 h2] at this
      omega
    · simp only [if_neg hi1]
      rw [← h.kraft i hi']
      congr 1
      apply List.map_congr_left
      intro a ha
      have n1 : a ∉ ch c1 := fun hx => h.disj c1 i h1 hi' (Ne.symm hi1) a hx ha
      have n2 : a ∉ ch c2 := fun hx => h.disj c2 i h2 hi' (Ne.symm hi2) a hx ha
      rw [hcs_out a n1 n2]
  · -- pos
    intro i hi
    have ⟨hi2, hi'⟩ := (hlive i).1 hi
    by_cases hi1 : i = c1
    · subst hi1
      right
      simp only [if_true]
      intro a ha
      show 1 ≤ cs2[a]?.getD 0
      rw [hcs_in a ha]; omega
    · simp only [if_neg hi1]
      have n1 : ∀ a ∈ ch i, a ∉ ch c1 := fun a ha hx => h.disj c1 i h1 hi' (Ne.symm hi1) a hx ha
      have n2 : ∀ a ∈ ch i, a ∉ ch c2 := fun a ha hx => h.disj c2 i h2 hi' (Ne.symm hi2) a hx ha
      rcases h.pos i hi' with ⟨p1, p2⟩ | p
      · left
        refine ⟨p1, ?_⟩
        show cs2[i]?.getD 0 = 0
        have hm := h.self_mem hi'
        rw [hcs_out i (n1 i hm) (n2 i hm)]; exact p2
      · right
        intro a ha
        show 1 ≤ cs2[a]?.getD 0
        rw [hcs_out a (n1 a ha) (n2 a ha)]; exact p a ha
  · -- cover
    intro a ha
    change cs2[a]?.getD 0 ≠ 0 at ha
    by_cases hin : a ∈ ch c1 ++ ch c2
    · exact ⟨c1, hlive1, by simpa using hin⟩
    · simp at hin
      rw [hcs_out a hin.1 hin.2] at ha
      obtain ⟨i, hi, hai⟩ := h.cover a ha
      have hi1 : i ≠ c1 := fun e => hin.1 (e ▸ hai)
      have hi2 : i ≠ c2 := fun e => hin.2 (e ▸ hai)
      exact ⟨i, (hlive i).2 ⟨hi2, hi⟩, by simpa [hi1] using hai⟩
  · -- orig
    intro a ha
    obtain ⟨i, hi, hai⟩ := h.orig a ha
    by_cases hi1 : i = c1
    · exact ⟨c1, hlive1, by simp [← hi1, hai]⟩
    · by_cases hi2 : i = c2
      · exact ⟨c1, hlive1, by simp [← hi2, hai]⟩
      · exact ⟨i, (hlive i).2 ⟨hi2, hi⟩, by simpa [hi1] using hai⟩
  · -- memP
    intro i hi a ha
    have ⟨hi2, hi'⟩ := (hlive i).1 hi
    by_cases hi1 : i = c1
    · subst hi1
      simp only [if_true] at ha
      rcases List.mem_append.1 ha with ha | ha
      · exact h.memP i h1 a ha
      · exact h.memP c2 h2 a ha
    · simp only [if_neg hi1] at ha
      exact h.memP i hi' a ha

/-- the state on which the merge loop stops: exactly one live index -/
def Final (st : St) : Prop := ∃ c, live st.freq c ∧ ∀ j, live st.freq j → j = c

theorem mergeLoop_ok {P : Nat → Prop} {N K : Nat} (hK : N ≤ K + 1) : ∀ (fuel : Nat) (st : St) (ch : Nat → List Nat) (k : Nat),
    Inv P N K st ch k → (∃ i, live st.freq i) → nz st.freq ≤ fuel →
    ∃ st' ch' k', mergeLoop fuel st = .ok st' ∧ Inv P N K st' ch' k' ∧ Final st'
  | 0, st, _, _, _, ⟨i, hi⟩, hf => by
    have := nz_pos_of_live hi
    omega
  | fuel + 1, st, ch, k, h, ⟨i, hi⟩, hf => by
    rcases sfs_spec st.freq (smallestFrequencySymbol st.freq (-1)) with e2 | ⟨j2, e2, l2, n2⟩
    · -- loop exit
      refine ⟨st, ch, k, ?_, h, i, hi, ?_⟩
      · rw [mergeLoop]
        simp only [e2]
        simp
      · intro j hj
        have a := sfs_neg st.freq _ (by rw [e2]; omega) j hj
        have b := sfs_neg st.freq _ (by rw [e2]; omega) i hi
        omega
    · rcases sfs_spec st.freq (-1) with e1 | ⟨j1, e1, l1, _⟩
      · have := sfs_neg st.freq (-1) (by rw [e1]; omega) j2 l2
        omega
      · have hne : j1 ≠ j2 := by
          intro e; apply n2; rw [e1, e]
        obtain ⟨cs1, cs2, last, a1, a2, a3, hinv⟩ := h.step hK l1 l2 hne
        have hF1 := live_lt l1
        have hF2 := live_lt l2
        have g1 : st.freq[j1]? = some st.freq[j1] := by simp
        have g2 : st.freq[j2]? = some st.freq[j2] := by simp
        rw [g1, g2] at hinv
        simp only [Option.getD_some] at hinv
        have hlive1 : live ((st.freq.setIfInBounds j1 (st.freq[j1] + st.freq[j2])).setIfInBounds j2 0) j1 := by
          unfold live at l1 ⊢
          rw [Array.getElem?_setIfInBounds_ne (Ne.symm hne), Array.getElem?_setIfInBounds_self, if_pos hF1]
          rw [g1] at l1
          simp at l1 ⊢
          omega
        have hnz : nz ((st.freq.setIfInBounds j1 (st.freq[j1] + st.freq[j2])).setIfInBounds j2 0) ≤ fuel := by
          have c1 := hinv.cnt
          have c2 := h.cnt
          simp only [] at c1
          omega
        obtain ⟨st', ch', k', r1, r2, r3⟩ := mergeLoop_ok hK fuel _ _ _ hinv ⟨j1, hlive1⟩ hnz
        refine ⟨st', ch', k', ?_, r2, r3⟩
        rw [mergeLoop]
        have e2' := e2
        rw [e1] at e2'
        simp only [e1, e2']
        rw [if_neg (by omega), if_neg (by omega)]
        simp only [Int.toNat_natCast, g1, g2]
        simp only [bind, a1, a2, a3]
        exact r1

/-! ## 5. weighted sums over the `bits` array -/

/-- `Σ_j l[j] * w (s + j)` -/
def wsum (w : Nat → Int) : List Int → Nat → Int
  | [], _ => 0
  | x :: xs, s => x * w s + wsum w xs (s + 1)

theorem wsum_set (w : Nat → Int) : ∀ (l : List Int) (s i : Nat) (v : Int), i < l.length →
    wsum w (l.set i v) s = wsum w l s + (v - l[i]?.getD 0) * w (s + i)
  | [], _, _, _, h => by simp at h
  | x :: xs, s, 0, v, _ => by
    simp only [List.set_cons_zero, wsum, List.getElem?_cons_zero, Option.getD_some, Nat.add_zero]
    rw [Int.sub_mul]; omega
  | x :: xs, s, i + 1, v, h => by
    simp only [List.set_cons_succ, wsum, List.getElem?_cons_succ]
    rw [wsum_set w xs (s + 1) i v (by simpa using h)]
    have : s + 1 + i = s + (i + 1) := by omega
    rw [this]; omega

theorem wsum_le (w : Nat → Int) (W : Int) (hW : 0 ≤ W) : ∀ (l : List Int) (s : Nat),
    (∀ j : Nat, 0 ≤ l[j]?.getD 0) → (∀ j : Nat, l[j]?.getD 0 ≠ 0 → w (s + j) ≤ W) →
    wsum w l s ≤ W * wsum (fun _ => 1) l s
  | [], _, _, _ => by simp [wsum]
  | x :: xs, s, h1, h2 => by
    have ih := wsum_le w W hW xs (s + 1) (fun j => by simpa using h1 (j + 1)) (fun j hj => by
      have := h2 (j + 1) (by simpa using hj)
      have e : s + 1 + j = s + (j + 1) := by omega
      rw [e]; exact this)
    simp only [wsum]
    have hx : 0 ≤ x := by simpa using h1 0
    have : x * w s ≤ W * x := by
      by_cases hx0 : x = 0
      · subst hx0; simp
      · have := h2 0 (by simpa using hx0)
        rw [Int.mul_comm W x]
        exact Int.mul_le_mul_of_nonneg_left (by simpa using this) hx
    rw [Int.mul_add, Int.mul_one]
    omega

theorem wsum_dvd (w : Nat → Int) (D : Int) : ∀ (l : List Int) (s : Nat),
    (∀ j : Nat, l[j]?.getD 0 ≠ 0 → D ∣ w (s + j)) → D ∣ wsum w l s
  | [], _, _ => by simp [wsum]
  | x :: xs, s, h => by
    have ih := wsum_dvd w D xs (s + 1) (fun j hj => by
      have := h (j + 1) (by simpa using hj)
      have e : s + 1 + j = s + (j + 1) := by omega
      rw [e]; exact this)
    simp only [wsum]
    apply Int.dvd_add _ ih
    by_cases hx0 : x = 0
    · subst hx0; simp
    · have := h 0 (by simpa using hx0)
      exact Int.dvd_trans (by simpa using this) (Int.dvd_mul_left x (w s))

theorem wsum_nonneg_entry : ∀ (l : List Int) (s : Nat), (∀ j : Nat, 0 ≤ l[j]?.getD 0) →
    ∀ i : Nat, l[i]?.getD 0 ≤ wsum (fun _ => 1) l s
  | [], _, _, i => by simp [wsum]
  | x :: xs, s, h, i => by
    have hx : 0 ≤ x := by simpa using h 0
    have h' : ∀ j : Nat, 0 ≤ xs[j]?.getD 0 := fun j => by simpa using h (j + 1)
    simp only [wsum]
    cases i with
    | zero =>
      have := wsum_nonneg_entry xs (s + 1) h' 0
      have := h' 0
      simp; omega
    | succ i =>
      have := wsum_nonneg_entry xs (s + 1) h' i
      simp; omega

theorem wsum_zero (w : Nat → Int) : ∀ (l : List Int) (s : Nat), (∀ x ∈ l, x = 0) → wsum w l s = 0
  | [], _, _ => rfl
  | x :: l, s, h => by
    have := h x (by simp)
    subst this
    simp only [wsum]
    rw [wsum_zero w l (s + 1) (fun y hy => h y (by simp [hy]))]
    simp

/-- Kraft weight of a code of length `l` (budget 256 = `maxLen`: `kw l = 2^(256 - l)`) -/
def kw (l : Nat) : Int := ((2 ^ (256 - l) : Nat) : Int)

theorem kw_succ (l : Nat) (h : l + 1 ≤ 256) : kw l = 2 * kw (l + 1) := by
  unfold kw
  have e : 256 - l = (256 - (l + 1)) + 1 := by omega
  rw [e, Nat.pow_succ]
  omega

theorem kw_pos (l : Nat) : 0 < kw l := by
  unfold kw
  have := Nat.pow_pos (n := 256 - l) (show 0 < 2 by omega)
  omega

/-- `2^256 = 2^16 · 2^240` -/
theorem kw_0_16 : kw 0 = 65536 * kw 16 := by
  unfold kw
  have : (2 : Nat) ^ (256 - 0) = 65536 * 2 ^ (256 - 16) := by decide
  rw [this, Int.natCast_mul]
  rfl

def kraftB (b : Array Int) : Int := wsum kw b.toList 0
def cntB (b : Array Int) : Int := wsum (fun _ => 1) b.toList 0

theorem wsum_setIfInBounds (w : Nat → Int) (b : Array Int) (i : Nat) (v : Int) (hi : i < b.size) :
    wsum w (b.setIfInBounds i v).toList 0 = wsum w b.toList 0 + (v - b[i]?.getD 0) * w i := by
  rw [Array.toList_setIfInBounds, wsum_set w b.toList 0 i v (by simpa using hi)]
  simp

/-! ## 6. `countSizes` -/

theorem countSizes_ok : ∀ (l : List Nat) (bits : Array Int), bits.size = 257 → (∀ x ∈ l, x ≤ 256) →
    ∃ bits', countSizes l bits = .ok bits' ∧ bits'.size = 257 ∧
      (∀ w : Nat → Int, wsum w bits'.toList 0 = wsum w bits.toList 0 + (l.map (fun x => if x > 0 then w x else 0)).sum) ∧
      ((∀ j : Nat, 0 ≤ bits[j]?.getD 0) → ∀ j : Nat, 0 ≤ bits'[j]?.getD 0) ∧
      bits'[0]?.getD 0 = bits[0]?.getD 0
  | [], bits, hs, _ => ⟨bits, rfl, hs, by simp, fun h => h, rfl⟩
  | x :: l, bits, hs, hl => by
    have hx : x ≤ 256 := hl x (by simp)
    have hl' : ∀ y ∈ l, y ≤ 256 := fun y hy => hl y (by simp [hy])
    by_cases hx0 : x > 0
    · have hxs' : x < bits.size := by omega
      have hb : bits[x]? = some bits[x] := by simp
      obtain ⟨bits', e1, e2, e3, e4, e5⟩ := countSizes_ok l (bits.setIfInBounds x (bits[x] + 1)) (by simpa using hs) hl'
      refine ⟨bits', ?_, e2, ?_, ?_, ?_⟩
      · rw [countSizes, if_pos hx0, hb]; exact e1
      · intro w
        rw [e3 w, wsum_setIfInBounds w bits x _ (by omega), hb]
        simp only [Option.getD_some, List.map_cons, List.sum_cons, if_pos hx0]
        have : bits[x] + 1 - bits[x] = 1 := by omega
        rw [this]; omega
      · intro h
        apply e4
        intro j
        rw [Array.getElem?_setIfInBounds]
        have hxs : x < bits.size := by omega
        by_cases hj : x = j
        · subst hj
          have := h x
          rw [hb] at this
          simp [hxs] at this ⊢; omega
        · simp [hj]; exact h j
      · rw [e5, Array.getElem?_setIfInBounds_ne (by omega)]
    · obtain ⟨bits', e1, e2, e3, e4, e5⟩ := countSizes_ok l bits hs hl'
      refine ⟨bits', ?_, e2, ?_, e4, e5⟩
      · rw [countSizes, if_neg hx0]; exact e1
      · intro w
        rw [e3 w]
        simp [hx0]

/-! ## 7. the length-limiting loop (Figure K.3) -/

theorem kw_dvd {i j : Nat} (h : i ≤ j) : kw j ∣ kw i := by
  unfold kw
  exact Int.natCast_dvd_natCast.2 (Nat.pow_dvd_pow 2 (by omega))

theorem kw_le {i j : Nat} (h : i ≤ j) : kw j ≤ kw i := by
  unfold kw
  have := Nat.pow_le_pow_right (n := 2) (by omega) (show 256 - j ≤ 256 - i by omega)
  omega

/-- `a[i] += d` -/
def bump (a : Array Int) (i : Nat) (d : Int) : Array Int := a.setIfInBounds i (a[i]?.getD 0 + d)

theorem bump_size (a : Array Int) (i : Nat) (d : Int) : (bump a i d).size = a.size := by simp [bump]

theorem bump_get (a : Array Int) (i : Nat) (d : Int) (hi : i < a.size) (j : Nat) :
    (bump a i d)[j]?.getD 0 = a[j]?.getD 0 + (if i = j then d else 0) := by
  unfold bump
  rw [Array.getElem?_setIfInBounds]
  by_cases h : i = j
  · subst h; simp [hi]
  · simp [h]

theorem bump_wsum (w : Nat → Int) (a : Array Int) (i : Nat) (d : Int) (hi : i < a.size) :
    wsum w (bump a i d).toList 0 = wsum w a.toList 0 + d * w i := by
  unfold bump
  rw [wsum_setIfInBounds w a i _ hi]
  have : a[i]?.getD 0 + d - a[i]?.getD 0 = d := by omega
  rw [this]

/-- invariant of the limiting loop: `bits` describes a complete prefix code (Kraft equality with
    budget 256), no code longer than `s` -/
structure BInv (b : Array Int) (s : Nat) : Prop where
  sz : b.size = 257
  nn : ∀ j : Nat, 0 ≤ b[j]?.getD 0
  kr : kraftB b = kw 0
  ct : cntB b ≤ 257
  hi : ∀ j : Nat, s < j → b[j]?.getD 0 = 0
  z0 : b[0]?.getD 0 = 0

theorem BInv.even {b : Array Int} {s : Nat} (h : BInv b s) (h1 : 1 ≤ s) (h256 : s ≤ 256) :
    (2 : Int) ∣ b[s]?.getD 0 := by
  have hs : s < b.size := by rw [h.sz]; omega
  have e := wsum_setIfInBounds kw b s 0 hs
  have hd : kw (s - 1) ∣ wsum kw (b.setIfInBounds s 0).toList 0 := by
    apply wsum_dvd
    intro j hj
    rw [Array.getElem?_toList, Array.getElem?_setIfInBounds] at hj
    have hjs : j < s := by
      apply Classical.byContradiction
      intro hn
      by_cases hjs : s = j
      · subst hjs; simp [hs] at hj
      · simp [hjs] at hj
        exact hj (h.hi j (by omega))
    rw [Nat.zero_add]
    exact kw_dvd (by omega)
  have hk : kw (s - 1) = 2 * kw s := by
    have := kw_succ (s - 1) (by omega)
    have e : s - 1 + 1 = s := by omega
    rw [e] at this; exact this
  have h0 : kw (s - 1) ∣ kw 0 := kw_dvd (by omega)
  have hkr := h.kr
  unfold kraftB at hkr
  rw [hkr] at e
  rw [e] at hd
  have : kw (s - 1) ∣ (b[s]?.getD 0) * kw s := by
    have := Int.dvd_sub h0 hd
    have e2 : kw 0 - (kw 0 + (0 - b[s]?.getD 0) * kw s) = (b[s]?.getD 0) * kw s := by
      rw [Int.sub_mul]; omega
    rw [e2] at this; exact this
  rw [hk] at this
  exact (Int.mul_dvd_mul_iff_right (by have := kw_pos s; omega)).1 this

theorem BInv.prefix_exists {b : Array Int} {s : Nat} (h : BInv b s) (h17 : 17 ≤ s) :
    ∃ p0, p0 ≤ s - 2 ∧ b[p0]?.getD 0 ≠ 0 := by
  apply Classical.byContradiction
  intro hn
  have hz : ∀ p0, p0 ≤ s - 2 → b[p0]?.getD 0 = 0 := by
    intro p0 hp
    apply Classical.byContradiction
    intro hx
    exact hn ⟨p0, hp, hx⟩
  have hle := wsum_le kw (kw 16) (by have := kw_pos 16; omega) b.toList 0
    (fun j => by simpa using h.nn j)
    (fun j hj => by
      rw [Nat.zero_add]
      apply kw_le
      apply Classical.byContradiction
      intro hlt
      apply hj
      simpa using hz j (by omega))
  have hkr := h.kr
  have hct := h.ct
  unfold kraftB at hkr
  unfold cntB at hct
  rw [hkr] at hle
  have : kw 16 * wsum (fun _ => 1) b.toList 0 ≤ kw 16 * 257 :=
    Int.mul_le_mul_of_nonneg_left hct (by have := kw_pos 16; omega)
  -- `kw 0 = 65536 · kw 16 ≤ kw 16 · cnt ≤ 257 · kw 16`
  have e0 := kw_0_16
  have := kw_pos 16
  omega

theorem findPrefix_ok (b : Array Int) : ∀ (f p : Nat), p < f → (∃ p0, p0 ≤ p ∧ b[p0]?.getD 0 ≠ 0) →
    p < b.size → ∃ q, limitAt.findPrefix b f p = .ok q ∧ q ≤ p ∧ b[q]?.getD 0 ≠ 0
  | 0, _, h, _, _ => by omega
  | f + 1, p, hf, ⟨p0, hp0, hb0⟩, hp => by
    have hb : b[p]? = some b[p] := by simp
    rw [limitAt.findPrefix, hb]
    by_cases hv : b[p] = 0
    · have hpp : p0 ≠ p := by
        intro e; subst e
        rw [hb] at hb0; simp at hb0; exact hb0 hv
      have hp' : p ≠ 0 := by omega
      obtain ⟨q, e1, e2, e3⟩ := findPrefix_ok b f (p - 1) (by omega) ⟨p0, by omega, hb0⟩ (by omega)
      refine ⟨q, ?_, by omega, e3⟩
      simp only [hv, if_true, if_neg hp']
      exact e1
    · refine ⟨p, ?_, Nat.le_refl _, ?_⟩
      · simp only [hv, if_false]
      · rw [hb]; simpa using hv

theorem limitAt_ok (size : Nat) (h17 : 17 ≤ size) (h256 : size ≤ 256) : ∀ (fuel : Nat) (b : Array Int),
    BInv b size → b[size]?.getD 0 < 2 * (fuel : Int) →
    ∃ b', limitAt size fuel b = .ok b' ∧ BInv b' (size - 1) ∧ cntB b' = cntB b
  | 0, b, h, hf => by
    have := h.nn size
    omega
  | fuel + 1, b, h, hf => by
    have hs : size < b.size := by rw [h.sz]; omega
    have hb : b[size]? = some b[size] := by simp
    have hnn := h.nn size
    rw [hb] at hnn hf
    simp only [Option.getD_some] at hnn hf
    by_cases hp : b[size] > 0
    · -- one round of Figure K.3
      have hev := h.even (by omega) h256
      rw [hb] at hev
      simp only [Option.getD_some] at hev
      have h2 : 2 ≤ b[size] := by omega
      obtain ⟨p, f1, f2, f3⟩ := findPrefix_ok b (size + 1) (size - 2) (by omega) (h.prefix_exists h17) (by omega)
      have hp1 : 1 ≤ b[p]?.getD 0 := by have := h.nn p; omega
      have hp0 : p ≠ 0 := by
        intro e; subst e; exact f3 h.z0
      have sz := h.sz
      -- the four sequential updates
      have u1 : (bump b size (-2)).size = 257 := by rw [bump_size]; exact sz
      have u2 : (bump (bump b size (-2)) (size - 1) 1).size = 257 := by rw [bump_size]; exact u1
      have u3 : (bump (bump (bump b size (-2)) (size - 1) 1) (p + 1) 2).size = 257 := by rw [bump_size]; exact u2
      have u4 : (bump (bump (bump (bump b size (-2)) (size - 1) 1) (p + 1) 2) p (-1)).size = 257 := by
        rw [bump_size]; exact u3
      have hget : ∀ j : Nat, (bump (bump (bump (bump b size (-2)) (size - 1) 1) (p + 1) 2) p (-1))[j]?.getD 0
          = b[j]?.getD 0 + (if size = j then -2 else 0) + (if size - 1 = j then 1 else 0)
            + (if p + 1 = j then 2 else 0) + (if p = j then -1 else 0) := by
        intro j
        rw [bump_get _ _ _ (by omega), bump_get _ _ _ (by omega), bump_get _ _ _ (by omega),
          bump_get _ _ _ (by omega)]
      have hw : ∀ w : Nat → Int,
          wsum w (bump (bump (bump (bump b size (-2)) (size - 1) 1) (p + 1) 2) p (-1)).toList 0
          = wsum w b.toList 0 + (-2) * w size + 1 * w (size - 1) + 2 * w (p + 1) + (-1) * w p := by
        intro w
        rw [bump_wsum _ _ _ _ (by omega), bump_wsum _ _ _ _ (by omega), bump_wsum _ _ _ _ (by omega),
          bump_wsum _ _ _ _ (by omega)]
      have hinv : BInv (bump (bump (bump (bump b size (-2)) (size - 1) 1) (p + 1) 2) p (-1)) size := by
        refine ⟨u4, ?_, ?_, ?_, ?_, ?_⟩
        · intro j
          rw [hget j]
          have := h.nn j
          by_cases hj : size = j
          · subst hj
            rw [hb]
            simp only [Option.getD_some, if_true]
            rw [if_neg (by omega), if_neg (by omega), if_neg (by omega)]
            omega
          · by_cases hjp : p = j
            · subst hjp
              rw [if_neg hj, if_neg (by omega), if_neg (by omega), if_pos rfl]
              omega
            · rw [if_neg hj, if_neg hjp]
              split <;> split <;> omega
        · unfold kraftB
          rw [hw kw]
          have k1 := kw_succ (size - 1) (by omega)
          have e : size - 1 + 1 = size := by omega
          rw [e] at k1
          have k2 := kw_succ p (by omega)
          have := h.kr
          unfold kraftB at this
          omega
        · unfold cntB
          rw [hw (fun _ => 1)]
          have := h.ct
          unfold cntB at this
          omega
        · intro j hj
          rw [hget j, h.hi j hj, if_neg (by omega), if_neg (by omega), if_neg (by omega), if_neg (by omega)]
          rfl
        · rw [hget 0, h.z0, if_neg (by omega), if_neg (by omega), if_neg (by omega), if_neg (by omega)]
          rfl
      have hdec : (bump (bump (bump (bump b size (-2)) (size - 1) 1) (p + 1) 2) p (-1))[size]?.getD 0
          < 2 * (fuel : Int) := by
        rw [hget size, hb, if_pos rfl, if_neg (by omega), if_neg (by omega), if_neg (by omega)]
        simp only [Option.getD_some]
        omega
      obtain ⟨b', r1, r2, r3⟩ := limitAt_ok size h17 h256 fuel _ hinv hdec
      refine ⟨b', ?_, r2, ?_⟩
      · rw [limitAt, hb]
        simp only [hp, if_true, f1]
        have key : ∀ (a : Array Int) (i : Nat), i < a.size → a[i]? = some (a[i]?.getD 0) := by
          intro a i hi
          have : a[i]? = some a[i] := by simp
          rw [this]; rfl
        have q1 : b.setIfInBounds size (b[size] + -2) = bump b size (-2) := by simp [bump, hb]
        simp only [bind, hb, q1]
        rw [key (bump b size (-2)) (size - 1) (by omega)]
        simp only []
        rw [key ((bump b size (-2)).setIfInBounds (size - 1) ((bump b size (-2))[size - 1]?.getD 0 + 1)) (p + 1)
          (by rw [Array.size_setIfInBounds]; omega)]
        simp only []
        rw [key (((bump b size (-2)).setIfInBounds (size - 1) ((bump b size (-2))[size - 1]?.getD 0 + 1)).setIfInBounds
          (p + 1) (((bump b size (-2)).setIfInBounds (size - 1) ((bump b size (-2))[size - 1]?.getD 0 + 1))[p + 1]?.getD 0 + 2)) p
          (by rw [Array.size_setIfInBounds, Array.size_setIfInBounds]; omega)]
        simp only []
        exact r1
      · rw [r3]
        unfold cntB
        rw [hw (fun _ => 1)]
        omega
    · refine ⟨b, ?_, ?_, rfl⟩
      · rw [limitAt, hb]
        simp only [hp, if_false]
      · refine ⟨h.sz, h.nn, h.kr, h.ct, ?_, h.z0⟩
        intro j hj
        by_cases hjs : j = size
        · subst hjs; rw [hb]; simp only [Option.getD_some]; omega
        · exact h.hi j (by omega)

theorem limitLoop_ok : ∀ (n s : Nat) (b : Array Int), 16 ≤ s → s + n ≤ 256 → BInv b (s + n) →
    ∃ b', limitLoop ((List.range' (s + 1) n).reverse) b = .ok b' ∧ BInv b' s ∧ cntB b' = cntB b
  | 0, s, b, _, _, h => ⟨b, rfl, h, rfl⟩
  | n + 1, s, b, h16, h256, h => by
    have hsz := h.sz
    have hlt : b[s + (n + 1)]?.getD 0 < 2 * ((300 : Nat) : Int) := by
      have := wsum_nonneg_entry b.toList 0 (fun j => by simpa using h.nn j) (s + (n + 1))
      have hc := h.ct
      unfold cntB at hc
      rw [Array.getElem?_toList] at this
      omega
    obtain ⟨b1, e1, e2, e3⟩ := limitAt_ok (s + (n + 1)) (by omega) h256 300 b h hlt
    have e : s + (n + 1) - 1 = s + n := by omega
    rw [e] at e2
    obtain ⟨b2, r1, r2, r3⟩ := limitLoop_ok n s b1 h16 (by omega) e2
    refine ⟨b2, ?_, r2, by rw [r3, e3]⟩
    rw [List.range'_concat, List.reverse_append]
    simp only [List.reverse_cons, List.reverse_nil, List.nil_append, List.cons_append, Nat.one_mul]
    have e' : s + 1 + n = s + (n + 1) := by omega
    rw [e', limitLoop]
    simp only [bind, e1]
    exact r1

/-! ## 8. from the merge-loop invariant to the Kraft equality of `bits` -/

theorem sum_map_zero (g : Nat → Int) : ∀ (l : List Nat), (∀ x ∈ l, g x = 0) → (l.map g).sum = 0
  | [], _ => rfl
  | x :: l, h => by
    have := sum_map_zero g l (fun y hy => h y (by simp [hy]))
    have := h x (by simp)
    simp only [List.map_cons, List.sum_cons]
    omega

theorem sum_range_split (g : Nat → Int) (a : Nat) : ∀ n, a < n →
    ((List.range n).map g).sum = g a + ((List.range n).map (fun i => if i = a then 0 else g i)).sum
  | 0, h => by omega
  | n + 1, h => by
    rw [List.range_succ, List.map_append, List.map_append, List.sum_append, List.sum_append]
    simp only [List.map_cons, List.map_nil, List.sum_cons, List.sum_nil]
    by_cases han : a = n
    · subst han
      have : (List.range a).map (fun i => if i = a then 0 else g i) = (List.range a).map g := by
        apply List.map_congr_left
        intro i hi
        have : i < a := by simpa using hi
        rw [if_neg (by omega)]
      rw [this]
      simp only [if_true]
      omega
    · have := sum_range_split g a n (by omega)
      rw [this, if_neg (Ne.symm han)]
      omega

theorem sum_range_eq_sum_support : ∀ (c : List Nat) (g : Nat → Int) (n : Nat), c.Nodup → (∀ a ∈ c, a < n) →
    (∀ i, i < n → i ∉ c → g i = 0) → ((List.range n).map g).sum = (c.map g).sum
  | [], g, n, _, _, h => by
    rw [sum_map_zero g _ (fun x hx => h x (by simpa using hx) (by simp))]
    rfl
  | a :: c, g, n, hnd, hlt, h => by
    have ha : a ∉ c := (List.nodup_cons.1 hnd).1
    rw [sum_range_split g a n (hlt a (by simp))]
    rw [sum_range_eq_sum_support c (fun i => if i = a then 0 else g i) n (List.nodup_cons.1 hnd).2
      (fun x hx => hlt x (by simp [hx]))
      (fun i hi hic => by
        by_cases hia : i = a
        · simp [hia]
        · simp only [if_neg hia]
          exact h i hi (by simp [hia, hic]))]
    have : c.map (fun i => if i = a then 0 else g i) = c.map g := by
      apply List.map_congr_left
      intro i hi
      have : i ≠ a := fun e => ha (e ▸ hi)
      rw [if_neg this]
    rw [this]
    simp

theorem sum_map_cast (f : Nat → Nat) : ∀ (l : List Nat),
    (((l.map f).sum : Nat) : Int) = (l.map (fun a => ((f a : Nat) : Int))).sum
  | [] => rfl
  | x :: l => by
    have := sum_map_cast f l
    simp only [List.map_cons, List.sum_cons]
    omega

theorem codeSize_toList (st : St) (hsz : st.codeSize.size = 257) :
    st.codeSize.toList = (List.range 257).map (fun i => st.cs i) := by
  apply List.ext_getElem?
  intro i
  rw [Array.getElem?_toList, List.getElem?_map]
  by_cases hi : i < 257
  · have : st.codeSize[i]? = some st.codeSize[i] := by simp
    rw [List.getElem?_range hi]
    simp [St.cs, this]
  · have : st.codeSize[i]? = none := by simp; omega
    have h2 : (List.range 257)[i]? = none := by simp; omega
    rw [this, h2]; rfl

/-! ## 9. the initial state -/

def st0 (f : List Nat) : St :=
  { freq := (f ++ [1]).toArray, codeSize := Array.replicate 257 0, others := Array.replicate 257 (-1) }

theorem live_st0_256 (f : List Nat) (hlen : f.length = 256) : live (st0 f).freq 256 := by
  unfold live st0
  simp [← hlen]

theorem inv_st0 (f : List Nat) (hlen : f.length = 256) (K : Nat) :
    Inv (live (st0 f).freq) (nz (st0 f).freq) K (st0 f) (fun i => [i]) 0 := by
  have hcs : ∀ a, (st0 f).cs a = 0 := by
    intro a
    unfold St.cs st0
    simp only [Array.getElem?_replicate]
    split <;> rfl
  refine
    { szF := by simp [st0, hlen], szC := by simp [st0], szO := by simp [st0],
      chain := ?_, nodup := by simp, disj := ?_, cnt := rfl, csle := ?_, kraft := ?_, pos := ?_,
      cover := ?_, orig := ?_, memP := ?_ }
  · intro i hi
    have hi' := live_lt hi
    have : i < 257 := by simpa [st0, hlen] using hi'
    refine ⟨rfl, -1, ?_, ?_⟩
    · simp [st0, this]
    · simp [IsChain]
  · intro i j _ _ hij a ha hb
    simp at ha hb
    omega
  · intro a; rw [hcs a]; exact Nat.le_refl _
  · intro i _
    simp [hcs]
  · intro i _
    left; exact ⟨rfl, hcs i⟩
  · intro a ha
    exact absurd (hcs a) ha
  · intro a ha
    exact ⟨a, ha, by simp⟩
  · intro i hi a ha
    simp at ha
    subst ha; exact hi

/-! ## 10. after the merge loop -/

theorem countSizes_zero : ∀ (l : List Nat) (bits : Array Int), (∀ x ∈ l, x = 0) → countSizes l bits = .ok bits
  | [], _, _ => rfl
  | x :: l, bits, h => by
    have := h x (by simp)
    subst this
    rw [countSizes, if_neg (by omega)]
    exact countSizes_zero l bits (fun y hy => h y (by simp [hy]))

theorem limitLoop_zero : ∀ (l : List Nat), (∀ x ∈ l, x < 257) →
    limitLoop l (Array.replicate 257 (0 : Int)) = .ok (Array.replicate 257 0)
  | [], _ => rfl
  | x :: l, h => by
    have hx := h x (by simp)
    have : limitAt x 300 (Array.replicate 257 (0 : Int)) = .ok (Array.replicate 257 0) := by
      rw [limitAt]
      simp [hx]
    rw [limitLoop]
    simp only [bind, this]
    exact limitLoop_zero l (fun y hy => h y (by simp [hy]))

/-- what the merge loop leaves behind: either nothing was merged (only the pseudo-symbol is
    present, all code sizes are 0), or the code sizes of the single remaining chain satisfy the
    Kraft equality -/
theorem Inv.final {P N st ch k} (h : Inv P N 256 st ch k) (hfin : Final st) (hN : N ≤ 257) :
    (∀ a, st.cs a ≤ 256) ∧
    ∃ c, live st.freq c ∧ (∀ j, live st.freq j → j = c) ∧
    ((ch c = [c] ∧ ∀ a, st.cs a = 0) ∨
     ((∀ a ∈ ch c, 1 ≤ st.cs a) ∧
      ∃ b1, countSizes st.codeSize.toList (Array.replicate 257 0) = .ok b1 ∧ BInv b1 256 ∧
        cntB b1 = (st.codeSize.toList.map (fun x => if x > 0 then (1 : Int) else 0)).sum)) := by
  obtain ⟨c, hc, hall⟩ := hfin
  have hk : k ≤ 256 := by
    have := nz_pos_of_live hc
    have := h.cnt
    omega
  have hle : ∀ a, st.cs a ≤ 256 := fun a => Nat.le_trans (h.csle a) hk
  refine ⟨hle, c, hc, hall, ?_⟩
  rcases h.pos c hc with ⟨p1, p2⟩ | hp
  · left
    refine ⟨p1, ?_⟩
    intro a
    apply Classical.byContradiction
    intro ha
    obtain ⟨i, hi, hai⟩ := h.cover a ha
    have := hall i hi
    subst this
    rw [p1] at hai
    simp at hai
    subst hai
    exact ha p2
  · right
    have hl256 : ∀ x ∈ st.codeSize.toList, x ≤ 256 := by
      rw [codeSize_toList st h.szC]
      intro x hx
      simp only [List.mem_map] at hx
      obtain ⟨i, _, rfl⟩ := hx
      exact hle i
    obtain ⟨b1, e1, e2, e3, e4, e5⟩ := countSizes_ok st.codeSize.toList (Array.replicate 257 0) (by simp) hl256
    have hz : ∀ w : Nat → Int, wsum w (Array.replicate 257 (0 : Int)).toList 0 = 0 := by
      intro w
      apply wsum_zero
      intro x hx
      rw [Array.toList_replicate] at hx
      exact List.eq_of_mem_replicate hx
    refine ⟨hp, b1, e1, ?_, by unfold cntB; rw [e3 (fun _ => 1), hz]; simp⟩
    have hnn0 : ∀ j : Nat, 0 ≤ (Array.replicate 257 (0 : Int))[j]?.getD 0 := by
      intro j
      rw [Array.getElem?_replicate]
      split <;> simp
    -- sums over the code sizes = sums over the chain
    have hsum : ∀ g : Nat → Int, g 0 = 0 →
        (st.codeSize.toList.map g).sum = ((ch c).map (fun a => g (st.cs a))).sum := by
      intro g hg
      rw [codeSize_toList st h.szC, List.map_map]
      exact sum_range_eq_sum_support (ch c) (g ∘ fun i => st.cs i) 257 (h.nodup c hc)
        (fun a ha => by
          have := (h.chain c hc).mem_lt a ha
          rw [h.szO] at this; exact this)
        (fun i _ hic => by
          have : st.cs i = 0 := by
            apply Classical.byContradiction
            intro hne
            obtain ⟨j, hj, hij⟩ := h.cover i hne
            have := hall j hj
            subst this
            exact hic hij
          simp [this, hg])
    refine ⟨e2, e4 hnn0, ?_, ?_, ?_, ?_⟩
    · unfold kraftB
      rw [e3 kw, hz, hsum _ (by simp)]
      have hk := h.kraft c hc
      have := sum_map_cast (fun a => 2 ^ (256 - st.cs a)) (ch c)
      rw [hk] at this
      have e : (ch c).map (fun a => if st.cs a > 0 then kw (st.cs a) else 0)
          = (ch c).map (fun a => (((2 ^ (256 - st.cs a) : Nat)) : Int)) := by
        apply List.map_congr_left
        intro a ha
        have := hp a ha
        rw [if_pos (by omega)]
        rfl
      rw [e, ← this]
      simp [kw]
    · unfold cntB
      rw [e3 (fun _ => 1), hz, hsum _ (by simp)]
      have hlen := h.chain_len hc
      have : ∀ l : List Nat, (l.map (fun a => if st.cs a > 0 then (1 : Int) else 0)).sum ≤ l.length := by
        intro l
        induction l with
        | nil => simp
        | cons x l ih =>
          simp only [List.map_cons, List.sum_cons, List.length_cons]
          split <;> omega
      have := this (ch c)
      omega
    · intro j hj
      have : b1[j]? = none := by simp; omega
      rw [this]; rfl
    · rw [e5]
      simp

/-! ## 11. L6a: `buildOptimal` cannot panic or diverge -/

theorem nz_st0 (f : List Nat) : nz (st0 f).freq = f.countP (fun x => x != 0) + 1 := by
  simp [nz, st0, List.countP_append]

theorem buildOptimal_unfold (f : List Nat) : buildOptimal f = (do
    let st ← mergeLoop 258 (st0 f)
    let bits ← countSizes st.codeSize.toList (Array.replicate 257 (0 : Int))
    let bits ← limitLoop ((List.range' 17 240).reverse) bits
    let bits := removePseudo ((List.range' 1 256).reverse) bits
    pure ((bits.toList.drop 1).take 16, sortValues st.codeSize)) := by
  simp only [buildOptimal, maxLen, st0, Nat.reduceAdd]

/-- the anatomy of a run of `buildOptimal` on ANY 256 frequencies (at most 257 leaves with the
    pseudo-symbol, hence at most 256 merges and code sizes ≤ 256 = `maxLen`) -/
theorem buildOptimal_spec (f : List Nat) (hlen : f.length = 256) :
    ∃ st ch k c b2,
      Inv (live (st0 f).freq) (nz (st0 f).freq) 256 st ch k ∧
      live st.freq c ∧ (∀ j, live st.freq j → j = c) ∧ (∀ a, st.cs a ≤ 256) ∧
      buildOptimal f = .ok ((((removePseudo ((List.range' 1 256).reverse) b2).toList.drop 1).take 16),
        sortValues st.codeSize) ∧
      ((ch c = [c] ∧ (∀ a, st.cs a = 0) ∧ b2 = Array.replicate 257 0) ∨
       ((∀ a ∈ ch c, 1 ≤ st.cs a) ∧ BInv b2 16 ∧
         cntB b2 = (st.codeSize.toList.map (fun x => if x > 0 then (1 : Int) else 0)).sum)) := by
  have hN : nz (st0 f).freq ≤ 257 := by
    rw [nz_st0]
    have : f.countP (fun x => x != 0) ≤ f.length := List.countP_le_length
    omega
  have h0 := inv_st0 f hlen 256
  have hnz257 : nz (st0 f).freq ≤ 258 := by omega
  obtain ⟨st, ch, k, m1, m2, m3⟩ := mergeLoop_ok (by omega) 258 (st0 f) _ 0 h0 ⟨256, live_st0_256 f hlen⟩ hnz257
  obtain ⟨hle, c, hlc, hall, hcase⟩ := m2.final m3 hN
  rw [buildOptimal_unfold, m1]
  rcases hcase with ⟨hch, hz⟩ | ⟨hp, b1, c1, c2, c3⟩
  · have hz' : ∀ x ∈ st.codeSize.toList, x = 0 := by
      rw [codeSize_toList st m2.szC]
      intro x hx
      simp only [List.mem_map] at hx
      obtain ⟨i, _, rfl⟩ := hx
      exact hz i
    have l1 := limitLoop_zero ((List.range' 17 240).reverse) (by
      intro x hx
      simp only [List.mem_reverse, List.mem_range'_1] at hx
      omega)
    refine ⟨st, ch, k, c, Array.replicate 257 0, m2, hlc, hall, hle, ?_, Or.inl ⟨hch, hz, rfl⟩⟩
    simp only [bind, countSizes_zero _ _ hz', l1]
    rfl
  · obtain ⟨b2, l1, l2, l3⟩ := limitLoop_ok 240 16 b1 (by omega) (by omega) c2
    refine ⟨st, ch, k, c, b2, m2, hlc, hall, hle, ?_, Or.inr ⟨hp, l2, by rw [l3, c3]⟩⟩
    simp only [bind, c1, l1]
    rfl

/-- **L6a, total**: for ANY 256 frequencies the table construction returns normally: no index
    panic (`bits[size]` with a code size beyond the 257-entry work array, `findPrefix` below 0, …)
    and no non-terminating chain walk.  No hypothesis on the counts, their total or the depth. -/
theorem buildOptimal_total (f : List Nat) (hlen : f.length = 256) : ∃ r, buildOptimal f = .ok r := by
  obtain ⟨st, ch, k, c, b2, _, _, _, _, h, _⟩ := buildOptimal_spec f hlen
  exact ⟨_, h⟩

/-- **L6a, count form** (kept for its users; before fix PENDING:c11-huffman-depth-over-32 the hypothesis was
    needed: ≤ 32 non-zero frequencies kept every code size within the then 33-entry array) -/
theorem buildOptimal_ok_of_count (f : List Nat) (hlen : f.length = 256)
    (_hc : f.countP (fun x => x != 0) ≤ 32) : ∃ r, buildOptimal f = .ok r :=
  buildOptimal_total f hlen

/-- frequencies of the lossless alphabet: 256 entries, non-zero only at the 17 difference
    categories 0..16 -/
def LosslessFreq (f : List Nat) : Prop := f.length = 256 ∧ ∀ i, 17 ≤ i → f[i]?.getD 0 = 0

theorem LosslessFreq.count_le {f : List Nat} (hf : LosslessFreq f) : f.countP (fun x => x != 0) ≤ 17 := by
  have e : f = f.take 17 ++ f.drop 17 := (List.take_append_drop 17 f).symm
  rw [e, List.countP_append]
  have h1 : (f.take 17).countP (fun x => x != 0) ≤ 17 :=
    Nat.le_trans List.countP_le_length (by simp; omega)
  have h2 : (f.drop 17).countP (fun x => x != 0) = 0 := by
    rw [List.countP_eq_zero]
    intro x hx
    obtain ⟨j, hj, rfl⟩ := List.getElem_of_mem hx
    have := hf.2 (17 + j) (by omega)
    rw [List.getElem_drop]
    have hlt : 17 + j < f.length := by simp at hj; omega
    have e2 : f[17 + j]? = some f[17 + j] := by simp [hlt]
    rw [e2] at this
    simpa using this
  omega

/-- **L6a**: on the lossless alphabet `BuildOptimalHuffmanTable` neither panics nor diverges. -/
theorem buildOptimal_lossless_ok (f : List Nat) (hf : LosslessFreq f) : ∃ r, buildOptimal f = .ok r :=
  buildOptimal_ok_of_count f hf.1 (Nat.le_trans hf.count_le (by omega))

/-! ## 12. L6b: validity of the produced table -/

theorem removePseudo_spec : ∀ (l : List Nat) (b : Array Int), (∀ s ∈ l, s < b.size) →
    (removePseudo l b = b ∧ ∀ s ∈ l, b[s]?.getD 0 ≤ 0) ∨
    (∃ s ∈ l, 0 < b[s]?.getD 0 ∧ removePseudo l b = bump b s (-1))
  | [], b, _ => Or.inl ⟨rfl, by simp⟩
  | x :: l, b, h => by
    have hx : x < b.size := h x (by simp)
    have hb : b[x]? = some b[x] := by simp
    rw [removePseudo, hb]
    by_cases hp : b[x] > 0
    · right
      refine ⟨x, by simp, by rw [hb]; exact hp, ?_⟩
      simp only [hp, if_true]
      simp [bump, hb]
      rfl
    · simp only [hp, if_false]
      rcases removePseudo_spec l b (fun s hs => h s (by simp [hs])) with ⟨e1, e2⟩ | ⟨s, hs, e1, e2⟩
      · left
        refine ⟨e1, ?_⟩
        intro s hs
        rcases List.mem_cons.1 hs with rfl | hs
        · rw [hb]; simp only [Option.getD_some]; omega
        · exact e2 s hs
      · right
        exact ⟨s, by simp [hs], e1, e2⟩

theorem wsum_append (w : Nat → Int) : ∀ (l1 l2 : List Int) (s : Nat),
    wsum w (l1 ++ l2) s = wsum w l1 s + wsum w l2 (s + l1.length)
  | [], l2, s => by simp [wsum]
  | x :: l1, l2, s => by
    simp only [List.cons_append, wsum, List.length_cons]
    rw [wsum_append w l1 l2 (s + 1)]
    have : s + 1 + l1.length = s + (l1.length + 1) := by omega
    rw [this]; omega

theorem wsum_congr (w w' : Nat → Int) : ∀ (l : List Int) (s s' : Nat),
    (∀ j, j < l.length → w (s + j) = w' (s' + j)) → wsum w l s = wsum w' l s'
  | [], _, _, _ => rfl
  | x :: l, s, s', h => by
    simp only [wsum]
    rw [wsum_congr w w' l (s + 1) (s' + 1) (fun j hj => by
      have := h (j + 1) (by simpa using hj)
      have e1 : s + 1 + j = s + (j + 1) := by omega
      have e2 : s' + 1 + j = s' + (j + 1) := by omega
      rw [e1, e2]; exact this)]
    have := h 0 (by simp)
    simp only [Nat.add_zero] at this
    rw [this]

theorem wsum_mul (c : Int) (w : Nat → Int) : ∀ (l : List Int) (s : Nat),
    wsum (fun i => c * w i) l s = c * wsum w l s
  | [], _ => by simp [wsum]
  | x :: l, s => by
    simp only [wsum]
    rw [wsum_mul c w l (s + 1), Int.mul_add, ← Int.mul_assoc, ← Int.mul_assoc, Int.mul_comm x c]

theorem wsum_toNat : ∀ (l : List Int) (s : Nat), (∀ x ∈ l, 0 ≤ x) →
    (((l.map Int.toNat).sum : Nat) : Int) = wsum (fun _ => 1) l s
  | [], _, _ => rfl
  | x :: l, s, h => by
    have := wsum_toNat l (s + 1) (fun y hy => h y (by simp [hy]))
    have := h x (by simp)
    simp only [List.map_cons, List.sum_cons, wsum]
    omega

/-- the 16 table entries `Bits[0..15]` cut out of the 257-entry work array -/
def cut (b : Array Int) : List Int := (b.toList.drop 1).take 16

theorem cut_length (b : Array Int) (hsz : b.size = 257) : (cut b).length = 16 := by
  simp [cut, hsz]

theorem cut_mem (b : Array Int) (x : Int) (hx : x ∈ cut b) : ∃ j : Nat, j < b.size ∧ b[j]?.getD 0 = x := by
  have h1 := List.mem_of_mem_drop (List.mem_of_mem_take hx)
  obtain ⟨j, hj, rfl⟩ := List.getElem_of_mem h1
  have hj' : j < b.size := by simpa using hj
  refine ⟨j, hj', ?_⟩
  have : b[j]? = some b[j] := by simp
  rw [this]; simp

/-- a work array whose entries 0 and 17..256 vanish is summed by its cut -/
theorem wsum_cut (w : Nat → Int) (b : Array Int) (hsz : b.size = 257) (h0 : b[0]?.getD 0 = 0)
    (hhi : ∀ j : Nat, 16 < j → b[j]?.getD 0 = 0) : wsum w b.toList 0 = wsum w (cut b) 1 := by
  have e1 : b.toList = b.toList.take 1 ++ ((b.toList.drop 1).take 16 ++ (b.toList.drop 1).drop 16) := by
    rw [List.take_append_drop, List.take_append_drop]
  have z1 : ∀ x ∈ b.toList.take 1, x = 0 := by
    intro x hx
    obtain ⟨j, hj, rfl⟩ := List.getElem_of_mem hx
    have hj1 : j < 1 := by simp at hj; omega
    have : j = 0 := by omega
    subst this
    rw [List.getElem_take]
    have : b[0]? = some b[0] := by simp
    rw [this] at h0
    simpa using h0
  have z2 : ∀ x ∈ (b.toList.drop 1).drop 16, x = 0 := by
    intro x hx
    obtain ⟨j, hj, rfl⟩ := List.getElem_of_mem hx
    rw [List.getElem_drop, List.getElem_drop]
    have hj' : 1 + (16 + j) < b.size := by simp at hj; omega
    have := hhi (1 + (16 + j)) (by omega)
    have e : b[1 + (16 + j)]? = some b[1 + (16 + j)] := by simp [hj']
    rw [e] at this
    simpa using this
  have hl1 : (b.toList.take 1).length = 1 := by simp [hsz]
  rw [e1, wsum_append, wsum_append, wsum_zero w _ 0 z1, wsum_zero w _ _ z2, hl1]
  unfold cut
  simp

/-- Kraft sum of the 16-entry `Bits` list in units of 2^-16: `Σ_l bits[l] · 2^(15-l)` -/
def kraft16 (bits : List Int) : Int := wsum (fun l => ((2 ^ (15 - l) : Nat) : Int)) bits 0

/-- a work array with nothing beyond length 16: its Kraft sum at budget 256 is `2^240` (= `kw 16`)
    times the 16-bit Kraft sum of the cut -/
theorem kraftB_cut (b : Array Int) (hsz : b.size = 257) (h0 : b[0]?.getD 0 = 0)
    (hhi : ∀ j : Nat, 16 < j → b[j]?.getD 0 = 0) : kraftB b = kw 16 * kraft16 (cut b) := by
  unfold kraftB kraft16
  rw [wsum_cut kw b hsz h0 hhi, ← wsum_mul]
  apply wsum_congr
  intro j hj
  rw [cut_length b hsz] at hj
  unfold kw
  have e : 256 - (1 + j) = (256 - 16) + (15 - (0 + j)) := by omega
  rw [e, Nat.pow_add, Int.natCast_mul]

theorem kw_16 : kw 16 = 2 ^ 240 := by decide

/-! ### the value list -/

theorem sum_map_add (a b : Nat → Nat) : ∀ l : List Nat,
    (l.map (fun s => a s + b s)).sum = (l.map a).sum + (l.map b).sum
  | [] => rfl
  | x :: l => by
    have := sum_map_add a b l
    simp only [List.map_cons, List.sum_cons]
    omega

theorem sum_map_ite_eq (v : Nat) : ∀ l : List Nat,
    (l.map (fun s => if v = s then 1 else 0)).sum = l.count v
  | [] => rfl
  | x :: l => by
    have := sum_map_ite_eq v l
    simp only [List.map_cons, List.sum_cons, List.count_cons]
    rw [this]
    by_cases h : v = x
    · subst h; simp; omega
    · have : ¬ x = v := fun e => h e.symm
      simp [h, this]

theorem sortValues_length (cs : Array Nat) (hsz : cs.size = 257) :
    (sortValues cs).length
      = ((List.range 256).map (fun i => (List.range' 1 256).count (cs[i]?.getD 0))).sum := by
  have key : ∀ (L S : List Nat), (∀ x ∈ L, x < 257) →
      (S.map (fun size => (L.filter (fun symbol => decide (cs[symbol]? = some size))).length)).sum
        = (L.map (fun i => S.count (cs[i]?.getD 0))).sum := by
    intro L S
    induction L with
    | nil =>
      intro _
      simp only [List.filter_nil, List.length_nil, List.map_nil, List.sum_nil]
      induction S with
      | nil => rfl
      | cons s S ih => simpa using ih
    | cons x L ih =>
      intro hL
      have hx : x < 257 := hL x (by simp)
      have hcx : cs[x]? = some cs[x] := by simp
      have : ∀ size, (List.filter (fun symbol => decide (cs[symbol]? = some size)) (x :: L)).length
          = (if cs[x]?.getD 0 = size then 1 else 0)
            + (List.filter (fun symbol => decide (cs[symbol]? = some size)) L).length := by
        intro size
        rw [List.filter_cons, hcx]
        simp only [Option.getD_some, Option.some.injEq, decide_eq_true_eq]
        split <;> simp <;> omega
      simp only [this]
      rw [sum_map_add, sum_map_ite_eq, ih (fun y hy => hL y (by simp [hy]))]
      simp only [List.map_cons, List.sum_cons]
  unfold sortValues
  rw [List.length_flatMap]
  exact key (List.range 256) (List.range' 1 256) (fun x hx => by
    have : x < 256 := by simpa using hx
    omega)

theorem count_range'_maxLen (v : Nat) : (List.range' 1 256).count v = if 1 ≤ v ∧ v ≤ 256 then 1 else 0 := by
  rw [(List.nodup_range' (s := 1) (n := 256)).count]
  simp only [List.mem_range'_1]
  by_cases h : 1 ≤ v ∧ v ≤ 256
  · rw [if_pos h, if_pos (by omega)]
  · rw [if_neg h, if_neg (by omega)]

theorem sortValues_mem (cs : Array Nat) (hsz : cs.size = 257) (i : Nat) :
    i ∈ sortValues cs ↔ i < 256 ∧ 1 ≤ cs[i]?.getD 0 ∧ cs[i]?.getD 0 ≤ 256 := by
  unfold sortValues
  simp only [List.mem_flatMap, List.mem_filter, List.mem_range, List.mem_range'_1, decide_eq_true_eq, maxLen]
  constructor
  · rintro ⟨size, hs, hi, he⟩
    rw [he]
    exact ⟨hi, by simp; omega, by simp; omega⟩
  · rintro ⟨hi, h1, h2⟩
    have : cs[i]? = some cs[i] := by simp
    rw [this] at h1 h2 ⊢
    simp only [Option.getD_some] at h1 h2
    exact ⟨cs[i], by omega, hi, rfl⟩

theorem sortValues_nodup (cs : Array Nat) : (sortValues cs).Nodup := by
  unfold sortValues List.Nodup
  rw [List.pairwise_flatMap]
  constructor
  · intro a _
    exact List.Pairwise.filter _ List.nodup_range
  · have := List.pairwise_lt_range' (s := 1) (n := maxLen) 1
    refine List.Pairwise.imp ?_ this
    intro a b hab x hx y hy e
    subst e
    simp only [List.mem_filter, decide_eq_true_eq] at hx hy
    rw [hx.2] at hy
    have := hy.2
    simp at this
    omega

theorem live_st0_iff (f : List Nat) (hlen : f.length = 256) (i : Nat) :
    live (st0 f).freq i ↔ (i < 256 ∧ f[i]?.getD 0 ≠ 0) ∨ i = 256 := by
  unfold live st0
  simp only [List.getElem?_toArray, List.getElem?_append]
  by_cases hi : i < 256
  · rw [if_pos (by omega)]
    constructor
    · intro h; exact Or.inl ⟨hi, h⟩
    · rintro (h | h)
      · exact h.2
      · omega
  · rw [if_neg (by omega)]
    by_cases h2 : i = 256
    · subst h2; simp [hlen]
    · have : i - f.length ≠ 0 := by omega
      have e : ([1] : List Nat)[i - f.length]? = none := by
        simp; omega
      rw [e]
      simp; omega

theorem sortValues_length_int (st : St) (hsz : st.codeSize.size = 257) (hle : ∀ a, st.cs a ≤ 256) :
    ((sortValues st.codeSize).length : Int)
      = ((List.range 256).map (fun i => if st.cs i > 0 then (1 : Int) else 0)).sum := by
  rw [sortValues_length st.codeSize hsz, sum_map_cast]
  congr 1
  apply List.map_congr_left
  intro i _
  rw [count_range'_maxLen]
  have := hle i
  unfold St.cs at this ⊢
  by_cases h : st.codeSize[i]?.getD 0 > 0
  · rw [if_pos (by omega), if_pos h]; rfl
  · rw [if_neg (by omega), if_neg h]; rfl

theorem codeSize_count_int (st : St) (hsz : st.codeSize.size = 257) :
    (st.codeSize.toList.map (fun x => if x > 0 then (1 : Int) else 0)).sum
      = ((List.range 256).map (fun i => if st.cs i > 0 then (1 : Int) else 0)).sum
        + (if st.cs 256 > 0 then 1 else 0) := by
  rw [codeSize_toList st hsz, List.map_map]
  rw [show (257 : Nat) = 256 + 1 from rfl, List.range_succ, List.map_append, List.sum_append]
  simp only [List.map_cons, List.map_nil, List.sum_cons, List.sum_nil, Function.comp_def]
  omega

/-- **L6b, total** (ANY 256 frequencies): the produced `(Bits, Values)` is a valid table
    specification.  `Values` are exactly the symbols with non-zero frequency, each once; `Bits` has
    16 non-negative entries summing to `len(Values)`, and the Kraft sum is strictly below 1 (the
    all-ones code word stays reserved). -/
theorem buildOptimal_valid (f : List Nat) (hlen : f.length = 256) :
    ∃ bits values, buildOptimal f = .ok (bits, values) ∧
      bits.length = 16 ∧ (∀ x ∈ bits, 0 ≤ x) ∧
      (bits.map Int.toNat).sum = values.length ∧
      values.Nodup ∧
      (∀ i, i ∈ values ↔ i < 256 ∧ f[i]?.getD 0 ≠ 0) ∧
      kraft16 bits < 65536 := by
  obtain ⟨st, ch, k, c, b2, hinv, hlc, hall, hle, hrun, hcase⟩ := buildOptimal_spec f hlen
  refine ⟨_, _, hrun, ?_⟩
  have hszC := hinv.szC
  -- 256 sits in the final chain
  have h256 : 256 ∈ ch c := by
    obtain ⟨j, hj, hm⟩ := hinv.orig 256 (live_st0_256 f hlen)
    have := hall j hj
    subst this; exact hm
  -- membership in the value list
  have hmem : ∀ i, i ∈ sortValues st.codeSize ↔ i < 256 ∧ f[i]?.getD 0 ≠ 0 := by
    intro i
    rw [sortValues_mem st.codeSize hszC]
    constructor
    · rintro ⟨hi, h1, _⟩
      refine ⟨hi, ?_⟩
      obtain ⟨j, hj, hm⟩ := hinv.cover i (by unfold St.cs; omega)
      have := (live_st0_iff f hlen i).1 (hinv.memP j hj i hm)
      rcases this with h | h
      · exact h.2
      · omega
    · rintro ⟨hi, hf⟩
      refine ⟨hi, ?_, hle i⟩
      obtain ⟨j, hj, hm⟩ := hinv.orig i ((live_st0_iff f hlen i).2 (Or.inl ⟨hi, hf⟩))
      have := hall j hj
      subst this
      rcases hcase with ⟨hch, _, _⟩ | ⟨hp, _, _⟩
      · rw [hch] at hm h256
        simp at hm h256
        omega
      · exact hp i hm
  have hlenV := sortValues_length_int st hszC hle
  have L256 : ∀ s ∈ (List.range' 1 256).reverse, s < 257 := by
    intro s hs
    simp only [List.mem_reverse, List.mem_range'_1] at hs
    omega
  rcases hcase with ⟨hch, hz, hb2⟩ | ⟨hp, hB, hcnt⟩
  · -- only the pseudo-symbol: empty table
    subst hb2
    have hrp : removePseudo ((List.range' 1 256).reverse) (Array.replicate 257 (0 : Int)) = Array.replicate 257 0 := by
      rcases removePseudo_spec ((List.range' 1 256).reverse) (Array.replicate 257 (0 : Int))
        (by simp) with ⟨e, _⟩ | ⟨s, hs, h1, _⟩
      · exact e
      · rw [Array.getElem?_replicate] at h1
        split at h1 <;> simp at h1
    rw [hrp]
    have hcut : ((Array.replicate 257 (0 : Int)).toList.drop 1).take 16 = List.replicate 16 0 := by
      rw [Array.toList_replicate, List.drop_replicate, List.take_replicate]
      rfl
    rw [hcut]
    have hV0 : (sortValues st.codeSize).length = 0 := by
      have : ((List.range 256).map (fun i => if st.cs i > 0 then (1 : Int) else 0)).sum = 0 := by
        apply sum_map_zero
        intro x _
        rw [hz x]; rfl
      rw [this] at hlenV
      omega
    refine ⟨by simp, ?_, ?_, sortValues_nodup _, hmem, by decide⟩
    · intro x hx
      have := List.eq_of_mem_replicate hx
      omega
    · rw [hV0]; decide
  · -- a proper code
    rcases removePseudo_spec ((List.range' 1 256).reverse) b2 (by rw [hB.sz]; exact L256) with
      ⟨_, e2⟩ | ⟨s, hs, h1, e2⟩
    · -- impossible: a complete code has a code word
      exfalso
      have hz : ∀ x ∈ b2.toList, x = 0 := by
        intro x hx
        obtain ⟨j, hj, rfl⟩ := List.getElem_of_mem hx
        have hj' : j < b2.size := by simpa using hj
        have hj33 : j < 257 := by rw [hB.sz] at hj'; exact hj'
        have hbj : b2[j]? = some b2[j] := by simp
        have hn := hB.nn j
        rw [hbj] at hn
        simp only [Option.getD_some] at hn
        rw [Array.getElem_toList]
        by_cases hj0 : j = 0
        · subst hj0
          have := hB.z0
          rw [hbj] at this
          simpa using this
        · have := e2 j (by simp only [List.mem_reverse, List.mem_range'_1]; omega)
          rw [hbj] at this
          simp only [Option.getD_some] at this
          omega
      have := hB.kr
      unfold kraftB at this
      rw [wsum_zero kw _ 0 hz] at this
      have := kw_pos 0
      omega
    · simp only [List.mem_reverse, List.mem_range'_1] at hs
      have hs16 : s ≤ 16 := by
        apply Classical.byContradiction
        intro hn
        have := hB.hi s (by omega)
        omega
      rw [e2]
      have hsz' : (bump b2 s (-1)).size = 257 := by rw [bump_size]; exact hB.sz
      have hs33 : s < b2.size := by rw [hB.sz]; omega
      have hget : ∀ j : Nat, (bump b2 s (-1))[j]?.getD 0 = b2[j]?.getD 0 + (if s = j then -1 else 0) :=
        bump_get b2 s (-1) hs33
      have hnn' : ∀ j : Nat, 0 ≤ (bump b2 s (-1))[j]?.getD 0 := by
        intro j
        rw [hget j]
        have := hB.nn j
        by_cases hsj : s = j
        · subst hsj; rw [if_pos rfl]; omega
        · rw [if_neg hsj]; omega
      have h0' : (bump b2 s (-1))[0]?.getD 0 = 0 := by
        rw [hget 0, hB.z0, if_neg (by omega)]; rfl
      have hhi' : ∀ j : Nat, 16 < j → (bump b2 s (-1))[j]?.getD 0 = 0 := by
        intro j hj
        rw [hget j, hB.hi j hj, if_neg (by omega)]; rfl
      have hcs256 : st.cs 256 > 0 := hp 256 h256
      refine ⟨cut_length _ hsz', ?_, ?_, sortValues_nodup _, hmem, ?_⟩
      · intro x hx
        obtain ⟨j, _, rfl⟩ := cut_mem _ x hx
        exact hnn' j
      · have t1 := wsum_toNat (cut (bump b2 s (-1))) 1 (by
          intro x hx
          obtain ⟨j, _, rfl⟩ := cut_mem _ x hx
          exact hnn' j)
        rw [← wsum_cut (fun _ => 1) _ hsz' h0' hhi', bump_wsum _ _ _ _ hs33] at t1
        have t2 := codeSize_count_int st hszC
        rw [if_pos hcs256] at t2
        unfold cntB at hcnt
        change (((List.map Int.toNat (cut (bump b2 s (-1)))).sum : Nat) : Int) = _ at t1
        show (List.map Int.toNat (cut (bump b2 s (-1)))).sum = (sortValues st.codeSize).length
        omega
      · have t1 := kraftB_cut _ hsz' h0' hhi'
        unfold kraftB at t1
        rw [bump_wsum _ _ _ _ hs33] at t1
        have t2 := hB.kr
        unfold kraftB at t2
        have e0 := kw_0_16
        have hs0 := kw_pos s
        have h16 := kw_pos 16
        show kraft16 (cut (bump b2 s (-1))) < 65536
        have hlt : kw 16 * kraft16 (cut (bump b2 s (-1))) < kw 16 * 65536 := by omega
        exact Int.lt_of_mul_lt_mul_left hlt (Int.le_of_lt h16)

/-- **L6b, count form** (kept for its users) -/
theorem buildOptimal_valid_of_count (f : List Nat) (hlen : f.length = 256)
    (_hc : f.countP (fun x => x != 0) ≤ 32) :
    ∃ bits values, buildOptimal f = .ok (bits, values) ∧
      bits.length = 16 ∧ (∀ x ∈ bits, 0 ≤ x) ∧
      (bits.map Int.toNat).sum = values.length ∧
      values.Nodup ∧
      (∀ i, i ∈ values ↔ i < 256 ∧ f[i]?.getD 0 ≠ 0) ∧
      kraft16 bits < 65536 :=
  buildOptimal_valid f hlen

/-- **L6b** for the lossless alphabet -/
theorem buildOptimal_lossless_valid (f : List Nat) (hf : LosslessFreq f) :
    ∃ bits values, buildOptimal f = .ok (bits, values) ∧
      bits.length = 16 ∧ (∀ x ∈ bits, 0 ≤ x) ∧
      (bits.map Int.toNat).sum = values.length ∧
      values.Nodup ∧
      (∀ i, i ∈ values ↔ i < 256 ∧ f[i]?.getD 0 ≠ 0) ∧
      kraft16 bits < 65536 :=
  buildOptimal_valid_of_count f hf.1 (Nat.le_trans hf.count_le (by omega))

/-- on the lossless alphabet all values are difference categories 0..16 and there are at most 17 -/
theorem buildOptimal_lossless_values (f : List Nat) (hf : LosslessFreq f) (bits : List Int) (values : List Nat)
    (h : buildOptimal f = .ok (bits, values)) : (∀ v ∈ values, v ≤ 16) ∧ values.length ≤ 17 := by
  obtain ⟨bits', values', h', _, _, _, hnd, hmem, _⟩ := buildOptimal_lossless_valid f hf
  rw [h] at h'
  injection h' with h'
  injection h' with _ hv
  subst hv
  have hv : ∀ v ∈ values, v ≤ 16 := by
    intro v hv
    have := (hmem v).1 hv
    apply Classical.byContradiction
    intro hn
    exact this.2 (hf.2 v (by omega))
  exact ⟨hv, nodup_length_le 17 values hnd (fun a ha => by have := hv a ha; omega)⟩

/-! ## 13. sanity
  The model is evaluated on every check run by the driver op `jll-opt` against the real
  `BuildOptimalHuffmanTable` (several hundred frequency vectors, including ones whose unrestricted
  code is deeper than 32, on which the function panicked before fix PENDING:c11-huffman-depth-over-32);
  e.g. `buildOptimal ([5,3,0,9,1,1,2] ++ replicate 249 0) = .ok ([1,1,1,1,1,1,0,…], [3,0,1,6,4,5])`.
  (A `decide +kernel` example of that equation cost 34 s and was removed; a kernel-checked instance
  of `LosslessFreq` is the `example` after `optimal_table_valid` in Props/C02.lean.) -/

end JLL.Opt
