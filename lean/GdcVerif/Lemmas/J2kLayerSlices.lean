import GdcVerif.Lemmas.J2kBodies
import GdcVerif.Model.T1Layered
import GdcVerif.Model.JpegContainer
/-!
  C16, multi-layer tile-part bodies.  With several quality layers one code-block's MQ stream `data` is cut at the
  cumulative pass rates that `t1/encoder_layered.go` `normalizePassRates` returns (model `T1.normalizeRates`, C20), and
  the slices `data[a:b]` go to different packets (`finalizeBlock` / `allocateRDLayerData` in jpeg2000/encoder.go: the
  end points are 0, a normalised rate, or `len(data)`).  Here: every normalised rate is a cut that is NOT immediately
  after an 0xFF byte, so no slice ends on 0xFF, and every slice of a marker-free stream is marker free.
-/
namespace JpegC
open StrictJ2k

/-- no two consecutive 0xFF bytes (a consequence of the MQ stream invariant: 0xFF is followed by a byte ≤ 0x8F) -/
def NoDoubleFF (data : List Nat) : Prop := ∀ j, data.getD j 0 = 0xFF → data.getD (j + 1) 0 ≠ 0xFF

theorem streamOk_noDoubleFF (data : List Nat) (h : Mqc.StreamOk data) : NoDoubleFF data := by
  intro j hj hj1
  by_cases hlt : j < data.length
  · have e : data[j]? = some 255 := by
      rw [List.getD_eq_getElem?_getD, List.getElem?_eq_getElem hlt] at hj
      rw [List.getElem?_eq_getElem hlt]; simpa using hj
    obtain ⟨b, hb, hle⟩ := h.2 j e
    rw [List.getD_eq_getElem?_getD, hb] at hj1
    simp at hj1; omega
  · rw [List.getD_eq_getElem?_getD, List.getElem?_eq_none (by omega)] at hj
    simp at hj

/-- one round of the `for i := len(passes)-1; i >= 0; i--` loop of `normalizePassRates`, on (rate, lastRate) -/
def normStep (data : List Nat) (rate lastRate : Nat) : Nat × Nat :=
  let (rate, lastRate) := if rate > lastRate then (lastRate, lastRate) else (rate, rate)
  if rate > 0 ∧ rate ≤ data.length ∧ data.getD (rate - 1) 0 = 0xFF then (rate - 1, rate - 1) else (rate, lastRate)

/-- the step keeps `lastRate` a good cut that bounds the emitted rate, and the emitted rate is a good cut -/
theorem normStep_ok (data : List Nat) (hd : NoDoubleFF data) (rate lastRate : Nat) (hl : lastRate ≤ data.length) :
    CutOk data (normStep data rate lastRate).1 ∧ (normStep data rate lastRate).2 ≤ data.length ∧
    (normStep data rate lastRate).1 ≤ lastRate ∧ (normStep data rate lastRate).2 ≤ (normStep data rate lastRate).1 ∧
    (normStep data rate lastRate).2 ≤ lastRate := by
  unfold normStep
  by_cases h1 : rate > lastRate
  · simp only [h1, if_true]
    by_cases h2 : lastRate > 0 ∧ lastRate ≤ data.length ∧ data.getD (lastRate - 1) 0 = 0xFF
    · simp only [h2, and_self, if_true]
      refine ⟨⟨by omega, fun hp hff => ?_⟩, by omega, by omega, by omega, by omega⟩
      have := hd (lastRate - 1 - 1) hff
      have e : lastRate - 1 - 1 + 1 = lastRate - 1 := by omega
      rw [e] at this
      exact this h2.2.2
    · simp only [h2, if_false]
      refine ⟨⟨hl, fun hp hff => h2 ⟨hp, hl, hff⟩⟩, hl, by omega, by omega, by omega⟩
  · simp only [h1, if_false]
    have hr : rate ≤ data.length := by omega
    by_cases h2 : rate > 0 ∧ rate ≤ data.length ∧ data.getD (rate - 1) 0 = 0xFF
    · simp only [h2, and_self, if_true]
      refine ⟨⟨by omega, fun hp hff => ?_⟩, by omega, by omega, by omega, by omega⟩
      have := hd (rate - 1 - 1) hff
      have e : rate - 1 - 1 + 1 = rate - 1 := by omega
      rw [e] at this
      exact this h2.2.2
    · simp only [h2, if_false]
      refine ⟨⟨hr, fun hp hff => h2 ⟨hp, hr, hff⟩⟩, hr, by omega, by omega, by omega⟩

/-- the fold of `normalizeRates` in terms of `normStep` -/
def normFold (data : List Nat) : List Nat → List Nat × Nat
  | [] => ([], data.length)
  | r :: rs =>
    let acc := normFold data rs
    let s := normStep data r acc.2
    (s.1 :: acc.1, s.2)

theorem normalizeRates_eq_normFold (data : List Nat) (rs : List Nat) :
    T1.normalizeRates rs data = (normFold data rs).1 := by
  unfold T1.normalizeRates
  suffices h : ∀ rs : List Nat, (rs.foldr (fun rate (acc : List Nat × Nat) =>
      let lastRate := acc.2
      let (rate, lastRate) := if rate > lastRate then (lastRate, lastRate) else (rate, rate)
      let (rate, lastRate) :=
        if rate > 0 ∧ rate ≤ data.length ∧ data.getD (rate - 1) 0 = 0xFF then (rate - 1, rate - 1) else (rate, lastRate)
      (rate :: acc.1, lastRate)) (([] : List Nat), data.length)) = normFold data rs by rw [h]
  intro rs
  induction rs with
  | nil => rfl
  | cons r rs ih =>
    simp only [List.foldr_cons, ih, normFold, normStep]

/-- NORMALISED RATES ARE GOOD CUTS: whatever the raw per-pass rates are, every cumulative rate `normalizePassRates`
    leaves is inside the stream and not immediately after an 0xFF byte, and the rates are non-decreasing -/
theorem normFold_ok (data : List Nat) (hd : NoDoubleFF data) : ∀ rs : List Nat,
    (∀ r ∈ (normFold data rs).1, CutOk data r) ∧ (normFold data rs).2 ≤ data.length ∧
    (∀ r ∈ (normFold data rs).1, (normFold data rs).2 ≤ r) ∧ (normFold data rs).1.Pairwise (· ≤ ·)
  | [] => ⟨by simp [normFold], by simp [normFold], by simp [normFold], by simp [normFold]⟩
  | r :: rs => by
    obtain ⟨h1, h2, h3, h4⟩ := normFold_ok data hd rs
    obtain ⟨s1, s2, s3, s4, s5⟩ := normStep_ok data hd r (normFold data rs).2 h2
    simp only [normFold]
    refine ⟨?_, s2, ?_, ?_⟩
    · intro x hx
      simp only [List.mem_cons] at hx
      rcases hx with rfl | hx
      · exact s1
      · exact h1 x hx
    · intro x hx
      simp only [List.mem_cons] at hx
      rcases hx with rfl | hx
      · exact s4
      · exact Nat.le_trans s5 (h3 x hx)
    · rw [List.pairwise_cons]
      exact ⟨fun x hx => Nat.le_trans s3 (h3 x hx), h4⟩

theorem normalizeRates_cuts_ok (data rates : List Nat) (hd : NoDoubleFF data) :
    (∀ r ∈ T1.normalizeRates rates data, CutOk data r) ∧ (T1.normalizeRates rates data).Pairwise (· ≤ ·) := by
  rw [normalizeRates_eq_normFold]
  exact ⟨(normFold_ok data hd rates).1, (normFold_ok data hd rates).2.2.2⟩

/-! ### slices -/

theorem getLast_slice (data : List Nat) (a b : Nat) (hab : a < b) (hb : b ≤ data.length) :
    ((data.take b).drop a).getLast? = some (data.getD (b - 1) 0) := by
  rw [List.getLast?_eq_getElem?]
  have hl : ((data.take b).drop a).length = b - a := by simp; omega
  rw [hl, List.getElem?_drop, List.getElem?_take]
  have : a + (b - a - 1) = b - 1 := by omega
  rw [this, if_pos (by omega), List.getD_eq_getElem?_getD, List.getElem?_eq_getElem (by omega)]
  simp

/-- a slice `data[a:b]` of a marker-free stream, ending at a good cut, is an admissible piece -/
theorem slice_bodyOk (data : List Nat) (a b : Nat) (hp : PairBelow 0x90 data) (hb : CutOk data b) :
    BodyOk ((data.take b).drop a) := by
  refine ⟨PairBelow.drop a _ (PairBelow.take b _ hp), ?_⟩
  by_cases hab : a < b
  · rw [getLast_slice data a b hab hb.1]
    intro h
    exact hb.2 (by omega) (by simpa using h)
  · have : (data.take b).drop a = [] := by
      apply List.drop_eq_nil_of_le; simp; omega
    simp [this]

theorem cutOk_zero (data : List Nat) : CutOk data 0 := ⟨Nat.zero_le _, fun h => absurd h (by omega)⟩

theorem cutOk_length (data : List Nat) (hl : data.getLast? ≠ some 255) : CutOk data data.length := by
  refine ⟨Nat.le_refl _, fun hp hff => hl ?_⟩
  rw [List.getLast?_eq_getElem?, List.getElem?_eq_getElem (by omega)]
  rw [List.getD_eq_getElem?_getD, List.getElem?_eq_getElem (by omega)] at hff
  simpa using hff

/-- J2K LAYER SLICES: for the byte string of ANY MQ run (`Flush`), ANY raw pass rates, and any two end points taken
    from 0, the normalised rates and the stream length — i.e. every slice `finalizeBlock` / `allocateRDLayerData` can
    form — the slice is marker free and does not end on 0xFF -/
theorem layer_slice_bodyOk (n : Nat) (ds : List (Nat × Nat)) (hds : ∀ d ∈ ds, d.2 < n) (rates : List Nat) :
    ∃ bytes, Mqc.encodeBytes n ds = some bytes ∧
      ∀ a b, b ∈ 0 :: bytes.length :: T1.normalizeRates rates bytes → BodyOk ((bytes.take b).drop a) := by
  obtain ⟨bytes, h1, h2⟩ := Mqc.encoder_stream n ds hds
  refine ⟨bytes, h1, fun a b hb => ?_⟩
  have hp := streamOk_pairBelow bytes h2
  have hd := streamOk_noDoubleFF bytes h2
  simp only [List.mem_cons] at hb
  rcases hb with rfl | rfl | hb
  · exact slice_bodyOk bytes a 0 hp (cutOk_zero _)
  · exact slice_bodyOk bytes a _ hp (cutOk_length _ h2.no_trailing_ff)
  · exact slice_bodyOk bytes a b hp ((normalizeRates_cuts_ok bytes rates hd).1 b hb)

/-! ### multi-layer bodies -/

/-- pieces of a multi-layer body: packet headers and LAYER SLICES of MQ streams -/
inductive LPiece where
  | header (bits : List Bool)
  | mqSlice (numContexts : Nat) (decisions : List (Nat × Nat)) (rawRates : List Nat) (a b : Nat)

open J2k in
def LPiece.bytes : LPiece → List Nat
  | .header bits => (BioW.new.writeBitsList bits).flush
  | .mqSlice n ds _ a b => (((Mqc.encodeBytes n ds).getD []).take b).drop a

/-- the end point of a slice is 0, the stream length or one of the rates `normalizePassRates` returned for this block -/
def LPiece.Wf : LPiece → Prop
  | .header _ => True
  | .mqSlice n ds rates _ b => (∀ d ∈ ds, d.2 < n) ∧
      b ∈ 0 :: ((Mqc.encodeBytes n ds).getD []).length :: T1.normalizeRates rates ((Mqc.encodeBytes n ds).getD [])

theorem lpiece_bodyOk (p : LPiece) (h : p.Wf) : BodyOk p.bytes := by
  cases p with
  | header bits => exact bio_header_bodyOk bits
  | mqSlice n ds rates a b =>
    obtain ⟨bytes, h1, h2⟩ := layer_slice_bodyOk n ds h.1 rates
    have hb := h.2
    simp only [h1, Option.getD_some] at hb
    simpa [LPiece.bytes, h1] using h2 a b hb

theorem multilayer_body_marker_free (ps : List LPiece) (h : ∀ p ∈ ps, p.Wf) : BodyOk (ps.map LPiece.bytes).flatten := by
  apply bodyOk_flatten
  intro q hq
  simp only [List.mem_map] at hq
  obtain ⟨p, hp, rfl⟩ := hq
  exact lpiece_bodyOk p (h p hp)

end JpegC

namespace JpegC
open StrictJ2k

/-- HTJ2K tile-part partition: every part is the concatenation of the pieces (header, body) of the packets of its
    resolution, so it is marker free as soon as every packet header and body is; nothing is dropped: a packet whose
    resolution is in range contributes to exactly one part -/
theorem htPartition_bodyOk (numLevels : Int) (packets : List (Int × List Nat × List Nat)) (parts : List (List Nat))
    (h : htPartition numLevels packets = .ok parts)
    (hp : ∀ p ∈ packets, BodyOk p.2.1 ∧ BodyOk p.2.2) :
    parts.length = (numLevels + 1).toNat ∧ ∀ part ∈ parts, BodyOk part := by
  simp only [htPartition] at h
  split at h
  · cases h
  · have hparts := Outcome.ok.inj h
    subst hparts
    refine ⟨by simp, ?_⟩
    intro part hpart
    simp only [List.mem_map, List.mem_range] at hpart
    obtain ⟨r, _, rfl⟩ := hpart
    have e : ((packets.filter fun p => decide (p.1 = (r : Int))).flatMap fun p => p.2.1 ++ p.2.2)
        = (((packets.filter fun p => decide (p.1 = (r : Int))).flatMap fun p => [p.2.1, p.2.2])).flatten := by
      induction (packets.filter fun p => decide (p.1 = (r : Int))) with
      | nil => rfl
      | cons x xs ih => simp [List.flatMap_cons, ih]
    rw [e]
    apply bodyOk_flatten
    intro q hq
    simp only [List.mem_flatMap, List.mem_filter] at hq
    obtain ⟨p, ⟨hpm, _⟩, hq⟩ := hq
    simp only [List.mem_cons, List.not_mem_nil, or_false] at hq
    rcases hq with rfl | rfl
    · exact (hp p hpm).1
    · exact (hp p hpm).2

end JpegC
