import GdcVerif.Model.JpegLsScan
import GdcVerif.Model.JpegLsRun
import GdcVerif.Lemmas.JpegLsT87Ctx
import GdcVerif.Spec.T87
import GdcVerif.Lemmas.JlsRunBound
/-!
  The Golomb parameter loops (`Context.ComputeGolombParameter` = model `JpegLsScan.golombParam`,
  `RunModeContext.GetGolombCode` = model `JpegLsRun.getGolombCode`) compute T.87's `k`
  (code segments A.10 and A.20: the least `k` with `N·2^k ≥ A` resp. `≥ TEMP`) whenever the caps
  the code adds to the loops (k < 16, k > 32) are not what stops them.
-/
namespace JpegLsT87
open Gen.JpegLs JpegLsScan JpegLsRun

theorem golombParam_inv (ctx : Context) : ∀ (f : Nat) (k : Int), 0 ≤ k → k ≤ 16 → 17 ≤ f + k.toNat →
    (∀ j : Nat, (j : Int) < k → ctx.N * 2 ^ j < ctx.A) →
    (k ≤ golombParam ctx f k ∧ golombParam ctx f k ≤ 16) ∧
    (∀ j : Nat, (j : Int) < golombParam ctx f k → ctx.N * 2 ^ j < ctx.A) ∧
    (golombParam ctx f k < 16 → ctx.A ≤ ctx.N * 2 ^ (golombParam ctx f k).toNat)
  | 0, k, h0, h16, hf, hj => by
    have : k = 16 := by omega
    subst this
    simp only [golombParam]
    exact ⟨⟨by omega, by omega⟩, hj, fun h => by omega⟩
  | f + 1, k, h0, h16, hf, hj => by
    unfold golombParam
    split
    · rename_i hc
      have ih := golombParam_inv ctx f (k + 1) (by omega) (by omega) (by omega) (by
        intro j hjk
        by_cases hjk' : (j : Int) < k
        · exact hj j hjk'
        · have : j = k.toNat := by omega
          subst this; exact hc.1)
      exact ⟨⟨by omega, ih.1.2⟩, ih.2.1, ih.2.2⟩
    · rename_i hc
      refine ⟨⟨by omega, h16⟩, hj, fun hk => ?_⟩
      have : ¬ ctx.N * 2 ^ k.toNat < ctx.A := fun h => hc ⟨h, hk⟩
      omega

theorem golombParam_eq (ctx : Context) (hA : ctx.A ≤ ctx.N * 2 ^ 16) :
    ∃ k : Nat, golombParam ctx 17 0 = (k : Int) ∧ T87.IsGolombK ctx.N ctx.A k := by
  have h := golombParam_inv ctx 17 0 (by omega) (by omega) (by simp) (by intro j hj; omega)
  generalize golombParam ctx 17 0 = r at h
  refine ⟨r.toNat, by omega, ?_, ?_⟩
  · by_cases h16 : r < 16
    · exact h.2.2 h16
    · have : r.toNat = 16 := by omega
      rw [this]; exact hA
  · intro j hj; exact h.2.1 j (by omega)

theorem golombLoop_inv (N temp : Int) : ∀ (f : Nat) (nTest k : Int), 0 ≤ k → k ≤ 32 → 34 ≤ f + k.toNat →
    nTest = N * 2 ^ k.toNat →
    (∀ j : Nat, (j : Int) < k → N * 2 ^ j < temp) →
    (k ≤ golombLoop f nTest temp k ∧ golombLoop f nTest temp k ≤ 33) ∧
    (∀ j : Nat, (j : Int) < golombLoop f nTest temp k → N * 2 ^ j < temp) ∧
    (golombLoop f nTest temp k ≤ 32 → temp ≤ N * 2 ^ (golombLoop f nTest temp k).toNat)
  | 0, nTest, k, h0, h32, hf, hn, hj => by omega
  | f + 1, nTest, k, h0, h32, hf, hn, hj => by
    unfold golombLoop
    have hj' : ∀ j : Nat, (j : Int) < k + 1 → nTest < temp → N * 2 ^ j < temp := by
      intro j hjk hlt
      by_cases hjk' : (j : Int) < k
      · exact hj j hjk'
      · have : j = k.toNat := by omega
        subst this; rw [← hn]; exact hlt
    split
    · rename_i hc
      simp only []
      split
      · rename_i hk
        exact ⟨⟨by omega, by omega⟩, fun j hjk => hj' j hjk hc, fun h => by omega⟩
      · rename_i hk
        have hn' : nTest * 2 = N * 2 ^ (k + 1).toNat := by
          have : (k + 1).toNat = k.toNat + 1 := by omega
          rw [this, Int.pow_succ, hn, Int.mul_assoc]
        have ih := golombLoop_inv N temp f (nTest * 2) (k + 1) (by omega) (by omega) (by omega) hn'
          (fun j hjk => hj' j hjk hc)
        exact ⟨⟨by omega, ih.1.2⟩, ih.2.1, ih.2.2⟩
    · rename_i hc
      refine ⟨⟨by omega, by omega⟩, hj, fun _ => ?_⟩
      rw [← hn]; omega

theorem getGolombCode_eq (c : RunModeContext) (hrit : c.runInterruptionType = 0 ∨ c.runInterruptionType = 1)
    (hA : c.A + c.N / 2 * c.runInterruptionType ≤ c.N * 2 ^ 32) :
    ∃ k : Nat, getGolombCode c = (k : Int) ∧
      T87.IsGolombK c.N (if c.runInterruptionType = 1 then c.A + c.N / 2 else c.A) k := by
  have ht : (if c.runInterruptionType = 1 then c.A + c.N / 2 else c.A) = c.A + c.N / 2 * c.runInterruptionType := by
    rcases hrit with h | h <;> simp [h]
  rw [ht]
  unfold getGolombCode
  rw [shr1]
  generalize c.A + c.N / 2 * c.runInterruptionType = temp at *
  have h := golombLoop_inv c.N temp 40 c.N 0 (by omega) (by omega) (by simp) (by simp) (by intro j hj; omega)
  generalize golombLoop 40 c.N temp 0 = r at h
  refine ⟨r.toNat, by omega, ?_, ?_⟩
  · by_cases h32 : r ≤ 32
    · exact h.2.2 h32
    · have hr : r = 33 := by omega
      have := h.2.1 32 (by omega)
      omega
  · intro j hj; exact h.2.1 j (by omega)

theorem encodeRunInterruption_eq (t : Traits) (idx : Int) (c : RunModeContext) (e : Int)
    (hidx : 0 ≤ idx ∧ idx ≤ 31)
    (hrit : c.runInterruptionType = 0 ∨ c.runInterruptionType = 1)
    (hA : c.A + c.N / 2 * c.runInterruptionType ≤ c.N * 2 ^ 32) :
    ∃ (k : Nat) (j : Int),
      T87.IsGolombK c.N (if c.runInterruptionType = 1 then c.A + c.N / 2 else c.A) k ∧
      J? idx = .ok j ∧
      encodeRunInterruption t idx c e =
        .ok (Golomb.encodeWrites k (T87.riEMErrval (riSpec c) k e) (t.Limit - j - 1) t.Qbpp,
             RunModeContext.UpdateVariables c e (T87.riEMErrval (riSpec c) k e) t.Reset) ∧
      riSpec (RunModeContext.UpdateVariables c e (T87.riEMErrval (riSpec c) k e) t.Reset) =
        T87.riUpdate (specOf t) (riSpec c) e (T87.riEMErrval (riSpec c) k e) := by
  obtain ⟨k, hk, hK⟩ := getGolombCode_eq c hrit hA
  obtain ⟨j, hj, _, _⟩ := J?_ok idx hidx.1 hidx.2
  refine ⟨k, j, hK, hj, ?_, riUpdate_eq c e _ t.Reset (specOf t) rfl⟩
  have hem : (if RunModeContext.ComputeMap c e k = true then 2 * Go.abs e - c.runInterruptionType - 1
        else 2 * Go.abs e - c.runInterruptionType) = T87.riEMErrval (riSpec c) k e := by
    unfold T87.riEMErrval
    rw [riMap_eq]
    generalize T87.riMap (riSpec c) (↑k) e = b
    cases b <;> simp [Go.abs, riSpec]
  unfold encodeRunInterruption
  simp only [hk, hj, bind, Except.bind, hem]
end JpegLsT87
