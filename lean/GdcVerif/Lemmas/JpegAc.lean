import GdcVerif.Model.JpegAc
import GdcVerif.Lemmas.DctHuff
/-! decodeBlock's AC loop inverts encodeBlock's AC loop. -/
namespace JpegAc
open Dct List

theorem emitZRL_spec : ∀ f run, run ≤ f → emitZRL f run = (replicate (run / 16) ZRL, run % 16)
  | 0, run, h => by
    have : run = 0 := by omega
    subst this; simp [emitZRL]
  | f + 1, run, h => by
    by_cases h16 : run ≥ 16
    · have ih := emitZRL_spec f (run - 16) (by omega)
      have e1 : run / 16 = (run - 16) / 16 + 1 := by omega
      have e2 : run % 16 = (run - 16) % 16 := by omega
      simp only [emitZRL, h16, if_true, ih, e1, e2, List.replicate_succ]
    · have e1 : run / 16 = 0 := by omega
      have e2 : run % 16 = run := by omega
      simp [emitZRL, h16, e1, e2]

theorem pad63_of_len (l : List Int) (h : l.length = 63) : pad63 l = l := by
  simp [pad63, List.take_append_of_le_length, h]

theorem pad63_zeros (out : List Int) (run : Nat) (h : out.length + run = 63) : pad63 out = out ++ replicate run 0 := by
  simp only [pad63]
  have : replicate 63 (0 : Int) = replicate run 0 ++ replicate (63 - run) 0 := by
    rw [List.replicate_append_replicate]; congr 1; omega
  rw [this, ← List.append_assoc, List.take_append_of_le_length (by simp; omega)]
  rw [List.take_of_length_le (by simp; omega)]

/-- the decoder consumes n ZRL symbols -/
theorem dec_zrls : ∀ (n fuel : Nat) (rest : List Sym) (out : List Int), (n ≥ 1 → out.length + 16 * (n - 1) + 1 < 64) →
    decAC (fuel + n) (replicate n ZRL ++ rest) out = decAC fuel rest (out ++ replicate (16 * n) 0)
  | 0, fuel, rest, out, _ => by simp
  | n + 1, fuel, rest, out, h => by
    have hk : out.length + 1 < 64 := by have := h (by omega); omega
    have e : fuel + (n + 1) = (fuel + n) + 1 := by omega
    rw [e, List.replicate_succ, List.cons_append]
    simp only [decAC, hk, if_true, ZRL]
    have ih := dec_zrls n fuel rest (out ++ replicate 16 0) (by
      intro hn; have := h (by omega); simp; omega)
    simp only [ZRL] at ih
    rw [ih, List.append_assoc, List.replicate_append_replicate]
    congr 3; omega

/-- main invariant: `out` = decoded prefix, `run` zeros pending in the encoder -/
theorem dec_enc : ∀ (suf : List Int) (out : List Int) (run fuel : Nat),
    out.length + run + suf.length = 63 →
    (∀ v ∈ suf, v.natAbs < 2 ^ 15) →
    (encAC suf run).length + 1 ≤ fuel →
    decAC fuel (encAC suf run) out = some (out ++ replicate run 0 ++ suf)
  | [], out, run, fuel, hl, _, hf => by
    obtain ⟨f, rfl⟩ : ∃ f, fuel = f + 1 := ⟨fuel - 1, by omega⟩
    by_cases hr : run > 0
    · have hk : out.length + 1 < 64 := by simp at hl; omega
      simp only [encAC, hr, if_true, decAC, hk, EOB]
      have e2 : (0 : Nat) % 16 = 0 := by decide
      have e3 : ¬ ((0 : Nat) / 16 = 15) := by decide
      simp only [e2, e3, if_true, if_false]
      rw [pad63_zeros out run (by simpa using hl)]; simp
    · have hr0 : run = 0 := by omega
      subst hr0
      have hk : ¬ (out.length + 1 < 64) := by simp at hl; omega
      simp only [encAC, decAC, hk, if_false]
      rw [pad63_of_len out (by simpa using hl)]; simp
  | v :: t, out, run, fuel, hl, hb, hf => by
    by_cases hv : v = 0
    · subst hv
      have ih := dec_enc t out (run + 1) fuel (by simp at hl ⊢; omega) (fun x hx => hb x (by simp [hx]))
        (by simpa [encAC] using hf)
      simp only [encAC, if_true]
      rw [ih, List.replicate_succ']
      simp
    · -- non-zero coefficient
      have hvb := hb v (by simp)
      obtain ⟨c1, c0, chi, cext⟩ := category_roundtrip v hv (Nat.lt_of_lt_of_le hvb (Nat.pow_le_pow_right (by decide) (by decide)))
      -- category ≤ 15
      have hc15 : (encodeCategory v).1 ≤ 15 := by
        have hs := category_spec v.natAbs (by omega) (Nat.lt_of_lt_of_le hvb (Nat.pow_le_pow_right (by decide) (by decide)))
        have : (encodeCategory v).1 = catLoop v.natAbs 64 1 := by simp [encodeCategory, hv]
        rw [this]
        have h2 : 2 ^ (catLoop v.natAbs 64 1 - 1) < 2 ^ 15 := Nat.lt_of_le_of_lt hs.2.2.1 hvb
        have := (Nat.pow_lt_pow_iff_right (by decide : 1 < 2)).1 h2
        omega
      have hz := emitZRL_spec run run (Nat.le_refl _)
      simp only [encAC, hv, if_false, hz] at hf ⊢
      simp only [List.length_append, List.length_replicate, List.length_cons] at hf
      obtain ⟨f, rfl⟩ : ∃ f, fuel = f + (run / 16) := ⟨fuel - run / 16, by omega⟩
      have hlen : out.length + run + (t.length + 1) = 63 := by simpa using hl
      rw [dec_zrls (run / 16) f _ out (by intro hn; omega)]
      obtain ⟨f', rfl⟩ : ∃ f', f = f' + 1 := ⟨f - 1, by omega⟩
      generalize hcat : (encodeCategory v).1 = cat at *
      generalize hbits : (encodeCategory v).2 = bits at *
      have hk : (out ++ replicate (16 * (run / 16)) (0 : Int)).length + 1 < 64 := by simp; omega
      have e1 : (run % 16 * 16 + cat) / 16 = run % 16 := by omega
      have e2 : (run % 16 * 16 + cat) % 16 = cat := by omega
      have hc0 : ¬ cat = 0 := by omega
      have hk2 : ¬ ((out ++ replicate (16 * (run / 16)) (0 : Int)).length + 1 + run % 16 ≥ 64) := by simp; omega
      simp only [decAC, hk, if_true, e1, e2, hc0, if_false, hk2, cext]
      have ih := dec_enc t (out ++ replicate (16 * (run / 16)) 0 ++ replicate (run % 16) 0 ++ [v]) 0 f'
        (by simp; omega) (fun x hx => hb x (by simp [hx])) (by omega)
      rw [ih]
      have : replicate run (0 : Int) = replicate (16 * (run / 16)) 0 ++ replicate (run % 16) 0 := by
        rw [List.replicate_append_replicate]; congr 1; omega
      rw [this]; simp

theorem decode_encode (ac : List Int) (hl : ac.length = 63) (hb : ∀ v ∈ ac, v.natAbs < 2 ^ 15) :
    decodeAC (encAC ac 0) = some ac := by
  have := dec_enc ac [] 0 ((encAC ac 0).length + 1) (by simpa using hl) hb (Nat.le_refl _)
  simpa [decodeAC] using this

end JpegAc
