import GdcVerif.Gen.JpegLs
import GdcVerif.Lemmas.JpegLs
/-! Per-sample and parameter theorems over the generated JPEG-LS kernels (shared by C03, C07, C14). -/
namespace JpegLsNear
open Gen.JpegLs JpegLsLemmas

/-- admissible (P, NEAR): P in 2..16, NEAR in 0..min(255, MAXVAL/2) -/
def Admissible (P : Nat) (N : Int) : Prop := (2 ≤ P ∧ P ≤ 16) ∧ 0 ≤ N ∧ N ≤ 255 ∧ 2 * N ≤ (2 : Int) ^ P - 1

instance (P : Nat) (N : Int) : Decidable (Admissible P N) := by unfold Admissible; infer_instance

/-- the parameter object both encoder and decoder build (`NewTraits(maxVal, near, 64)`) -/
def traits (P : Nat) (N : Int) : Traits := NewTraits ((2 : Int) ^ P - 1) N 64

/-- (1) derived parameters are well-formed: RANGE formula (T.87 A.2.1), the period
    `RANGE·(2NEAR+1)` covers `[−NEAR, MAXVAL+NEAR]`, `2^(qbpp−1) < RANGE ≤ 2^qbpp`, `qbpp ≤ P`,
    thresholds ordered with `T1 ≥ NEAR+1`, `LIMIT = 2(P + max(8,P)) > qbpp + 1`, `RESET = 64`. -/
theorem near_params_wf (P : Nat) (N : Int) (h : Admissible P N) :
    (traits P N).MaxVal = (2 : Int) ^ P - 1 ∧ (traits P N).Near = N ∧
    (traits P N).Range = ((traits P N).MaxVal + 2 * N) / (2 * N + 1) + 1 ∧
    (traits P N).MaxVal + 2 * N + 1 ≤ (traits P N).Range * (2 * N + 1) ∧
    (∃ q : Nat, (traits P N).Qbpp = q ∧ 1 ≤ q ∧ q ≤ P ∧ (2 : Int) ^ (q - 1) < (traits P N).Range ∧
        (traits P N).Range ≤ (2 : Int) ^ q) ∧
    (N + 1 ≤ (traits P N).T1 ∧ (traits P N).T1 ≤ (traits P N).T2 ∧ (traits P N).T2 ≤ (traits P N).T3 ∧
        (traits P N).T3 ≤ (traits P N).MaxVal) ∧
    (traits P N).Limit = 2 * (P + max 8 (P : Int)) ∧ (traits P N).Qbpp + 1 < (traits P N).Limit ∧
    (traits P N).Reset = 64 := by
  obtain ⟨hP, hN0, hN255, hN2⟩ := h
  have wf : WF (traits P N) P := newTraits_wf P N hP ⟨hN0, hN2⟩ 64
  have f := cp_fields ((2 : Int) ^ P - 1) N 64
  have hM : (traits P N).MaxVal = (2 : Int) ^ P - 1 := rfl
  have hNear : (traits P N).Near = N := rfl
  have hR := wf.hR
  have hper := wf.period
  rw [hNear] at hR hper
  have hm3 := wf.maxval_ge
  have hRge := wf.range_ge
  have hpos : (0 : Int) < 2 ^ P := Int.pow_pos (by decide)
  have hRle : (traits P N).Range ≤ (2 : Int) ^ P := by
    by_cases hc : (traits P N).Range ≤ 2 ^ P
    · exact hc
    · have h1 : (2 : Int) ^ P ≤ (traits P N).Range - 1 := by omega
      have h2 := Int.mul_le_mul_of_nonneg_right h1 (by omega : (0:Int) ≤ 2 * N + 1)
      have e : (2 : Int) ^ P * (2 * N + 1) = 2 * ((2 : Int) ^ P * N) + 2 ^ P := by
        rw [Int.mul_add, Int.mul_one, Int.mul_left_comm]
      by_cases hN1 : N = 0
      · subst hN1; simp only [Int.mul_zero, Int.zero_add, Int.mul_one, Int.add_zero] at *; omega
      · have h3 : (2 : Int) ^ P * 1 ≤ (2 : Int) ^ P * N := Int.mul_le_mul_of_nonneg_left (by omega) (by omega)
        omega
  have hq := JpegLsBits.bitsLen_spec (traits P N).Range hRge (by
    have : (2 : Int) ^ P ≤ 2 ^ 63 := two_pow_mono (by omega)
    omega)
  obtain ⟨q, hq1, hq2, hq3, hq4⟩ := hq
  have hQ : (traits P N).Qbpp = q := by
    show (ComputeCodingParameters ((2 : Int) ^ P - 1) N 64).Qbpp = _
    rw [f.2.1]; exact hq1
  have hqP : q ≤ P := by
    by_cases hc : q ≤ P
    · exact hc
    · have : (2 : Int) ^ P ≤ 2 ^ (q - 1) := two_pow_mono (by omega)
      omega
  have hT := thresholds_ordered ((2 : Int) ^ P - 1) N (by rw [hM] at hm3; omega)
  have hTe := f.2.2.2.1
  have hT1 : (traits P N).T1 = (computeThresholds ((2 : Int) ^ P - 1) N).1 := congrArg Prod.fst hTe
  have hT2 : (traits P N).T2 = (computeThresholds ((2 : Int) ^ P - 1) N).2.1 := congrArg (fun p => p.2.1) hTe
  have hT3 : (traits P N).T3 = (computeThresholds ((2 : Int) ^ P - 1) N).2.2 := congrArg (fun p => p.2.2) hTe
  have hL : (traits P N).Limit = 2 * (P + max 8 (P : Int)) := by
    show (ComputeCodingParameters ((2 : Int) ^ P - 1) N 64).Limit = _
    rw [f.2.2.1, bitsLen_maxval P hP]
  refine ⟨hM, hNear, hR, hper.2, ⟨q, hQ, hq2, hqP, hq3, hq4⟩, ?_, hL, ?_, ?_⟩
  · rw [hT1, hT2, hT3, hM]; exact hT
  · rw [hL, hQ]; omega
  · show (ComputeCodingParameters ((2 : Int) ^ P - 1) N 64).Reset = 64
    rw [f.2.2.2.2.1]; rfl

example : Admissible 12 3 := by decide
example : (traits 12 3).Range = 586 ∧ (traits 12 3).Qbpp = 10 ∧ (traits 12 3).Limit = 48 ∧
    (traits 12 3).T1 = 27 ∧ (traits 12 3).T2 = 82 ∧ (traits 12 3).T3 = 297 := by decide

/-- the error value the encoder transmits for source sample `x`, prediction `Px`, sign `s` -/
def err (P : Nat) (N Px x s : Int) : Int := Traits.ComputeErrorValue (traits P N) (s * (x - Px))
/-- the reconstruction encoder and decoder both compute from it -/
def recon (P : Nat) (N Px x s : Int) : Int :=
  Traits.ComputeReconstructedSample (traits P N) Px (s * err P N Px x s)

/-- (2) the per-sample bound, regular mode and run interruption alike (`sign` is the context
    sign resp. `sign(Rb−Ra)`; `Px` the corrected prediction resp. `Ra`/`Rb`):
    the reconstruction both sides compute is within NEAR of the source sample, inside
    `[0, MAXVAL]`, and the transmitted error lies in the modulo range `[⌈RANGE/2⌉−RANGE, ⌈RANGE/2⌉)`. -/
theorem near_sample_bound (P : Nat) (N : Int) (h : Admissible P N) (Px x sign : Int)
    (hPx : 0 ≤ Px ∧ Px ≤ (2 : Int) ^ P - 1) (hx : 0 ≤ x ∧ x ≤ (2 : Int) ^ P - 1)
    (hs : sign = 1 ∨ sign = -1) :
    (-N ≤ recon P N Px x sign - x ∧ recon P N Px x sign - x ≤ N) ∧
    (0 ≤ recon P N Px x sign ∧ recon P N Px x sign ≤ (2 : Int) ^ P - 1) ∧
    (((traits P N).Range + 1) / 2 - (traits P N).Range ≤ err P N Px x sign ∧
      err P N Px x sign < ((traits P N).Range + 1) / 2) :=
  sample_bound (newTraits_wf P N h.1 ⟨h.2.1, h.2.2.2⟩ 64) Px x sign hPx hx hs

example : Admissible 8 2 ∧ (0 ≤ (250 : Int) ∧ (250 : Int) ≤ 2 ^ 8 - 1) := by decide
example : err 8 2 250 3 1 = 3 ∧ recon 8 2 250 3 1 = 5 := by decide

/-- (3) the mapped error value fits the LIMIT escape code: `MErrval − 1 < 2^qbpp`, also after the
    `k = 0` error-correction XOR (`−1 ^ e = −e−1`) -/
theorem near_mapped_fits (P : Nat) (N : Int) (h : Admissible P N) (Px x sign : Int)
    (hPx : 0 ≤ Px ∧ Px ≤ (2 : Int) ^ P - 1) (hx : 0 ≤ x ∧ x ≤ (2 : Int) ^ P - 1)
    (hs : sign = 1 ∨ sign = -1) (c : Int) (hc : c = 0 ∨ c = -1) :
    0 ≤ MapErrorValue (Go.xor c (err P N Px x sign)) ∧
      MapErrorValue (Go.xor c (err P N Px x sign)) - 1 < (2 : Int) ^ (traits P N).Qbpp.toNat := by
  have hb := (near_sample_bound P N h Px x sign hPx hx hs).2.2
  obtain ⟨_, _, _, _, ⟨q, hQ, _, hqP, _, hq4⟩, _⟩ := near_params_wf P N h
  have hR16 : (traits P N).Range ≤ 65536 := by
    have : (2 : Int) ^ q ≤ 2 ^ 16 := two_pow_mono (by have := h.1; omega)
    have h16 : (2:Int)^16 = 65536 := by decide
    omega
  have hR1 := (newTraits_wf P N h.1 ⟨h.2.1, h.2.2.2⟩ 64).range_ge
  have hQ' : (2 : Int) ^ (traits P N).Qbpp.toNat = 2 ^ q := by rw [hQ]; simp
  rw [hQ']
  generalize (traits P N).Range = R at *
  generalize err P N Px x sign = e at *
  rcases hc with rfl | rfl
  · rw [Go.zero_xor e (by unfold Go.I64; omega), map_spec e (by omega)]
    split <;> omega
  · rw [Go.neg_one_xor e (by unfold Go.I64; omega), map_spec _ (by omega)]
    split <;> omega

/-- (4) NEAR = 0 reconstructs exactly -/
theorem near_zero_exact (P : Nat) (hP : 2 ≤ P ∧ P ≤ 16) (Px x sign : Int)
    (hPx : 0 ≤ Px ∧ Px ≤ (2 : Int) ^ P - 1) (hx : 0 ≤ x ∧ x ≤ (2 : Int) ^ P - 1)
    (hs : sign = 1 ∨ sign = -1) : recon P 0 Px x sign = x := by
  have hm : (3 : Int) ≤ 2 ^ P - 1 := by
    have : (2 : Int) ^ 2 ≤ 2 ^ P := two_pow_mono hP.1
    simp only [Int.reducePow] at this; omega
  have := (near_sample_bound P 0 ⟨hP, by omega, by omega, by omega⟩ Px x sign hPx hx hs).1
  omega

example : recon 12 0 0 4095 1 = 4095 ∧ err 12 0 0 4095 1 = -1 := by decide

end JpegLsNear
