import GdcVerif.Lemmas.MqcExact
/-!
  The interval-containment argument of the MQ coder in exact arithmetic.

  `J` is the joint ideal machine: the ideal encoder interval `[L, L+a)` together with the prefix `P` of the
  code value read so far (`p` bits), all in the same units; a renormalisation shift doubles `L`, `a` and
  appends the next code bit to `P`.  The ideal decoder keeps only `D = P − L`, `a`, `p` and decides from
  `D < Qe` exactly like `decodeCore` (conditional exchange included).

  `ideal_roundtrip`: if the code value lies in the FINAL interval of the encoder, the ideal decoder returns
  every decision (MPS / LPS) the encoder was given — by interval nesting.
-/
set_option linter.unusedVariables false
namespace Mqc

structure J where
  L : Nat
  a : Nat
  P : Nat
  p : Nat

/-- ideal decoder state -/
structure IDec where
  D : Nat
  a : Nat
  p : Nat
deriving DecidableEq

def jrenorm (src : Nat → Nat) : Nat → J → J
  | 0, j => j
  | f + 1, j => if j.a < 0x8000 then jrenorm src f { L := j.L * 2, a := j.a * 2, P := j.P * 2 + src j.p, p := j.p + 1 } else j

def jstep (src : Nat → Nat) (j : J) (qe : Nat) (m : Bool) : J :=
  if m then
    if (j.a - qe) / 0x8000 % 2 = 0 then
      if j.a - qe < qe then jrenorm src 16 { j with a := qe }
      else jrenorm src 16 { j with L := j.L + qe, a := j.a - qe }
    else { j with L := j.L + qe, a := j.a - qe }
  else
    if j.a - qe < qe then jrenorm src 16 { j with L := j.L + qe, a := j.a - qe }
    else jrenorm src 16 { j with a := qe }

def irenormD (src : Nat → Nat) : Nat → IDec → IDec
  | 0, d => d
  | f + 1, d => if d.a < 0x8000 then irenormD src f { D := d.D * 2 + src d.p, a := d.a * 2, p := d.p + 1 } else d

/-- ideal decoding step: returns "the decision is the MPS" and the next state (mirrors `decodeCore`) -/
def idecStep (src : Nat → Nat) (d : IDec) (qe : Nat) : Bool × IDec :=
  if d.D < qe then
    if d.a - qe < qe then (true, irenormD src 16 { d with a := qe })
    else (false, irenormD src 16 { d with a := qe })
  else
    if (d.a - qe) / 0x8000 % 2 ≠ 0 then (true, { d with D := d.D - qe, a := d.a - qe })
    else if d.a - qe < qe then (false, irenormD src 16 { d with D := d.D - qe, a := d.a - qe })
    else (true, irenormD src 16 { d with D := d.D - qe, a := d.a - qe })

/-- the code value prefix lies in the current interval -/
def J.In (j : J) : Prop := j.L ≤ j.P ∧ j.P < j.L + j.a

/-- the joint machine's `(L, a)` is the ideal encoder -/
theorem jrenorm_enc (src : Nat → Nat) : ∀ f j, (jrenorm src f j).L = (irenorm f { L := j.L, a := j.a }).L ∧
    (jrenorm src f j).a = (irenorm f { L := j.L, a := j.a }).a := by
  intro f
  induction f with
  | zero => intro j; exact ⟨rfl, rfl⟩
  | succ f ih =>
    intro j
    rw [jrenorm, irenorm]
    by_cases h : j.a < 0x8000
    · simp only [if_pos h]; exact ih _
    · simp only [if_neg h, and_self]

theorem jstep_enc (src : Nat → Nat) (j : J) (qe : Nat) (m : Bool) :
    (jstep src j qe m).L = (iencStep { L := j.L, a := j.a } qe m).L ∧
    (jstep src j qe m).a = (iencStep { L := j.L, a := j.a } qe m).a := by
  unfold jstep iencStep
  cases m
  · simp only [Bool.false_eq_true, if_false]
    split
    · exact jrenorm_enc src 16 _
    · exact jrenorm_enc src 16 _
  · simp only [if_true]
    split
    · split
      · exact jrenorm_enc src 16 _
      · exact jrenorm_enc src 16 _
    · exact ⟨rfl, rfl⟩

/-- interval nesting through a renormalisation: containment afterwards implies containment before -/
theorem jrenorm_in_back (src : Nat → Nat) (hsrc : ∀ k, src k ≤ 1) : ∀ f j, (jrenorm src f j).In → j.In := by
  intro f
  induction f with
  | zero => intro j h; exact h
  | succ f ih =>
    intro j h
    rw [jrenorm] at h
    by_cases ha : j.a < 0x8000
    · rw [if_pos ha] at h
      have := ih _ h
      unfold J.In at this ⊢
      simp only [] at this
      have hb := hsrc j.p
      omega
    · rw [if_neg ha] at h; exact h

/-- the ideal decoder follows the joint machine through a renormalisation -/
theorem irenormD_sync (src : Nat → Nat) : ∀ f j, j.L ≤ j.P →
    irenormD src f { D := j.P - j.L, a := j.a, p := j.p } =
      { D := (jrenorm src f j).P - (jrenorm src f j).L, a := (jrenorm src f j).a, p := (jrenorm src f j).p } ∧
    (jrenorm src f j).L ≤ (jrenorm src f j).P := by
  intro f
  induction f with
  | zero => intro j h; exact ⟨rfl, h⟩
  | succ f ih =>
    intro j h
    rw [jrenorm, irenormD]
    by_cases ha : j.a < 0x8000
    · simp only [if_pos ha]
      have := ih { L := j.L * 2, a := j.a * 2, P := j.P * 2 + src j.p, p := j.p + 1 } (by show j.L * 2 ≤ j.P * 2 + src j.p; omega)
      simp only [] at this
      have e : (j.P - j.L) * 2 + src j.p = j.P * 2 + src j.p - j.L * 2 := by omega
      rw [e]; exact this
    · simp only [if_neg ha, true_and]; exact h

/-- **one step of the interval-containment argument**: if after the encoder's step the code value prefix
is inside the new interval, then the ideal decoder — knowing only `D = P − L` — takes the same decision
and lands on the joint machine's next state -/
theorem idec_step (src : Nat → Nat) (hsrc : ∀ k, src k ≤ 1) (j : J) (qe : Nat) (m : Bool)
    (ha : 0x8000 ≤ j.a) (ha2 : j.a < 65536) (q1 : 1 ≤ qe) (q2 : qe ≤ 0x5601)
    (hin : (jstep src j qe m).In) :
    j.In ∧
    idecStep src { D := j.P - j.L, a := j.a, p := j.p } qe =
      (m, { D := (jstep src j qe m).P - (jstep src j qe m).L, a := (jstep src j qe m).a, p := (jstep src j qe m).p }) := by
  unfold jstep at hin ⊢
  unfold idecStep
  cases m
  · -- the decision is the LPS
    simp only [Bool.false_eq_true, if_false] at hin ⊢
    by_cases hx : j.a - qe < qe
    · simp only [if_pos hx] at hin ⊢
      have hb := jrenorm_in_back src hsrc 16 _ hin
      unfold J.In at hb; simp only [] at hb
      have hs := irenormD_sync src 16 { j with L := j.L + qe, a := j.a - qe } hb.1
      simp only [] at hs
      refine ⟨⟨by omega, by omega⟩, ?_⟩
      have e : j.P - j.L - qe = j.P - (j.L + qe) := by omega
      rw [if_neg (show ¬ j.P - j.L < qe by omega), if_neg (show ¬ ((j.a - qe) / 0x8000 % 2 ≠ 0) by omega), e, hs.1]
    · simp only [if_neg hx] at hin ⊢
      have hb := jrenorm_in_back src hsrc 16 _ hin
      unfold J.In at hb; simp only [] at hb
      have hs := irenormD_sync src 16 { j with a := qe } hb.1
      simp only [] at hs
      refine ⟨⟨by omega, by omega⟩, ?_⟩
      rw [if_pos (show j.P - j.L < qe by omega), hs.1]
  · -- the decision is the MPS
    simp only [if_true] at hin ⊢
    by_cases hren : (j.a - qe) / 0x8000 % 2 = 0
    · simp only [if_pos hren] at hin ⊢
      by_cases hx : j.a - qe < qe
      · simp only [if_pos hx] at hin ⊢
        have hb := jrenorm_in_back src hsrc 16 _ hin
        unfold J.In at hb; simp only [] at hb
        have hs := irenormD_sync src 16 { j with a := qe } hb.1
        simp only [] at hs
        refine ⟨⟨by omega, by omega⟩, ?_⟩
        rw [if_pos (show j.P - j.L < qe by omega), hs.1]
      · simp only [if_neg hx] at hin ⊢
        have hb := jrenorm_in_back src hsrc 16 _ hin
        unfold J.In at hb; simp only [] at hb
        have hs := irenormD_sync src 16 { j with L := j.L + qe, a := j.a - qe } hb.1
        simp only [] at hs
        refine ⟨⟨by omega, by omega⟩, ?_⟩
        have e : j.P - j.L - qe = j.P - (j.L + qe) := by omega
        rw [if_neg (show ¬ j.P - j.L < qe by omega), if_neg (show ¬ ((j.a - qe) / 0x8000 % 2 ≠ 0) by omega), e, hs.1]
    · simp only [if_neg hren] at hin ⊢
      unfold J.In at hin; simp only [] at hin
      refine ⟨⟨by omega, by omega⟩, ?_⟩
      have e : j.P - j.L - qe = j.P - (j.L + qe) := by omega
      rw [if_neg (show ¬ j.P - j.L < qe by omega), if_pos hren, e]

/-! ### whole decision sequences -/

theorem jrenorm_norm (src : Nat → Nat) : ∀ f j, 0 < j.a → j.a < 65536 → 0x8000 ≤ j.a * 2 ^ f →
    0x8000 ≤ (jrenorm src f j).a ∧ (jrenorm src f j).a < 65536 := by
  intro f
  induction f with
  | zero => intro j h0 h1 h2; rw [jrenorm]; omega
  | succ f ih =>
    intro j h0 h1 h2
    rw [jrenorm]
    by_cases ha : j.a < 0x8000
    · rw [if_pos ha]
      apply ih
      · show 0 < j.a * 2; omega
      · show j.a * 2 < 65536; omega
      · show 0x8000 ≤ j.a * 2 * 2 ^ f
        rw [Nat.pow_succ] at h2
        rw [Nat.mul_assoc, Nat.mul_comm 2]; exact h2
    · rw [if_neg ha]; omega

theorem jstep_norm (src : Nat → Nat) (j : J) (qe : Nat) (m : Bool) (ha : 0x8000 ≤ j.a) (ha2 : j.a < 65536)
    (q1 : 1 ≤ qe) (q2 : qe ≤ 0x5601) :
    0x8000 ≤ (jstep src j qe m).a ∧ (jstep src j qe m).a < 65536 := by
  have h16 : (2 : Nat) ^ 16 = 65536 := by decide
  unfold jstep
  cases m
  · simp only [Bool.false_eq_true, if_false]
    split
    · exact jrenorm_norm src 16 _ (by show 0 < j.a - qe; omega) (by show j.a - qe < 65536; omega)
        (by show 0x8000 ≤ (j.a - qe) * 2 ^ 16; rw [h16]; omega)
    · exact jrenorm_norm src 16 _ (by show 0 < qe; omega) (by show qe < 65536; omega)
        (by show 0x8000 ≤ qe * 2 ^ 16; rw [h16]; omega)
  · simp only [if_true]
    split
    · split
      · exact jrenorm_norm src 16 _ (by show 0 < qe; omega) (by show qe < 65536; omega)
          (by show 0x8000 ≤ qe * 2 ^ 16; rw [h16]; omega)
      · exact jrenorm_norm src 16 _ (by show 0 < j.a - qe; omega) (by show j.a - qe < 65536; omega)
          (by show 0x8000 ≤ (j.a - qe) * 2 ^ 16; rw [h16]; omega)
    · next hren => exact ⟨by show 0x8000 ≤ j.a - qe; omega, by show j.a - qe < 65536; omega⟩

/-- the joint machine over a sequence of `(qe, isMPS)` steps -/
def jrun (src : Nat → Nat) : J → List (Nat × Bool) → J
  | j, [] => j
  | j, (qe, m) :: rest => jrun src (jstep src j qe m) rest

/-- the ideal decoder over a sequence of probabilities; returns the decisions -/
def idecRun (src : Nat → Nat) : IDec → List Nat → List Bool × IDec
  | d, [] => ([], d)
  | d, qe :: rest =>
    let r := idecStep src d qe
    let t := idecRun src r.2 rest
    (r.1 :: t.1, t.2)

/-- **ideal round trip (interval containment)**: if the code value lies in the encoder's FINAL interval, the
ideal decoder returns every decision, and its state is `(P − L, a)` of the final joint state -/
theorem ideal_roundtrip (src : Nat → Nat) (hsrc : ∀ k, src k ≤ 1) :
    ∀ (steps : List (Nat × Bool)) (j : J), 0x8000 ≤ j.a → j.a < 65536 →
      (∀ s ∈ steps, 1 ≤ s.1 ∧ s.1 ≤ 0x5601) → (jrun src j steps).In →
      j.In ∧
      idecRun src { D := j.P - j.L, a := j.a, p := j.p } (steps.map (·.1)) =
        (steps.map (·.2), { D := (jrun src j steps).P - (jrun src j steps).L, a := (jrun src j steps).a,
                            p := (jrun src j steps).p }) := by
  intro steps
  induction steps with
  | nil => intro j _ _ _ hin; exact ⟨hin, rfl⟩
  | cons s rest ih =>
    intro j ha ha2 hq hin
    obtain ⟨qe, m⟩ := s
    have hq1 := hq (qe, m) List.mem_cons_self
    have hn := jstep_norm src j qe m ha ha2 hq1.1 hq1.2
    rw [jrun] at hin
    obtain ⟨hin1, hrest⟩ := ih (jstep src j qe m) hn.1 hn.2 (fun s hs => hq s (List.mem_cons_of_mem _ hs)) hin
    obtain ⟨hin0, hstep⟩ := idec_step src hsrc j qe m ha ha2 hq1.1 hq1.2 hin1
    refine ⟨hin0, ?_⟩
    simp only [List.map_cons, idecRun, hstep, hrest, jrun]

/-- the `(qe, isMPS)` trace of a decision sequence as the code-shaped encoder sees it (adaptive contexts) -/
def trace : Enc → List (Nat × Nat) → Option (List (Nat × Bool))
  | _, [] => some []
  | e, (bit, cx) :: ds =>
    match stepOf e.ctx bit cx, encode e bit cx with
    | some s, some e' => (trace e' ds).map (s :: ·)
    | _, _ => none

/-- the ghost ideal encoder of `MqcExact` is the `(L, a)` part of the joint machine run on the trace -/
theorem idealRun_eq_jrun (src : Nat → Nat) : ∀ (ds : List (Nat × Nat)) (e : Enc) (j : J) (i' : IEnc),
    idealRun e { L := j.L, a := j.a } ds = some i' →
    ∃ steps, trace e ds = some steps ∧ (jrun src j steps).L = i'.L ∧ (jrun src j steps).a = i'.a := by
  intro ds
  induction ds with
  | nil =>
    intro e j i' h
    rw [idealRun] at h; injection h with h; subst h
    exact ⟨[], rfl, rfl, rfl⟩
  | cons d ds ih =>
    intro e j i' h
    obtain ⟨bit, cx⟩ := d
    rw [idealRun] at h
    cases hs : stepOf e.ctx bit cx with
    | none => rw [hs] at h; exact absurd h (by simp)
    | some s =>
      obtain ⟨qe, m⟩ := s
      cases he : encode e bit cx with
      | none => rw [hs, he] at h; exact absurd h (by simp)
      | some e' =>
        rw [hs, he] at h
        simp only [] at h
        have hj := jstep_enc src j qe m
        have hi : iencStep { L := j.L, a := j.a } qe m =
            { L := (jstep src j qe m).L, a := (jstep src j qe m).a } := by
          rw [hj.1, hj.2]
        rw [hi] at h
        obtain ⟨steps, ht, hL, ha⟩ := ih e' (jstep src j qe m) i' h
        refine ⟨(qe, m) :: steps, ?_, ?_, ?_⟩
        · rw [trace, hs, he]; simp only [ht, Option.map_some]
        · rw [jrun]; exact hL
        · rw [jrun]; exact ha

theorem trace_qe_range : ∀ (ds : List (Nat × Nat)) (e : Enc) (steps : List (Nat × Bool)),
    trace e ds = some steps → RegOk e → 0x8000 ≤ e.a → (∀ d ∈ ds, d.2 < e.ctx.size) →
    ∀ s ∈ steps, 1 ≤ s.1 ∧ s.1 ≤ 0x5601 := by
  intro ds
  induction ds with
  | nil =>
    intro e steps h _ _ _ s hs
    rw [trace] at h; injection h with h; subst h; exact absurd hs (by simp)
  | cons d ds ih =>
    intro e steps h hr hn hds s hs
    obtain ⟨bit, cx⟩ := d
    have hcx := hds (bit, cx) List.mem_cons_self
    obtain ⟨hst, hcx256⟩ := hr.ctx cx
    obtain ⟨qe, nmps, nlps, sw, hlk, q2, q3, m2, l2, s2⟩ := lookup_wf (rd e.ctx cx % 128) hst
    obtain ⟨e1, he1, hr1, hn1, hs1, _⟩ := encode_spec e bit cx hr hn hcx
    have hstep : stepOf e.ctx bit cx = some (qe, decide (bit = rd e.ctx cx / 128)) := by
      unfold stepOf; rw [rd_some e.ctx cx hcx]; simp only [hlk]
    rw [trace, hstep, he1] at h
    simp only [] at h
    cases ht : trace e1 ds with
    | none => rw [ht] at h; exact absurd h (by simp)
    | some rest =>
      rw [ht] at h
      simp only [Option.map_some] at h
      injection h with h; subst h
      rcases List.mem_cons.mp hs with rfl | hs'
      · exact ⟨q2, q3⟩
      · exact ih e1 rest ht hr1 hn1 (by intro d hd; rw [hs1]; exact hds d (List.mem_cons_of_mem _ hd)) s hs'

/-- **MQ round trip, proved part**: for every decision sequence `ds` (context ids `< n`)
1. the code-shaped encoder does not panic and its registers + emitted bytes denote EXACTLY the ideal
   interval `[L, L + a)` reached by the ideal encoder on the `(Qe, MPS?)` trace of `ds` (`Exact`), carries
   and stuffed bytes included;
2. for ANY code bit source `src` whose value lies in that final interval, the ideal decoder — which sees only
   `D = value − L` and `a`, and decides by `D < Qe` with the same conditional exchange as `Decode` — returns
   exactly the MPS/LPS decisions of `ds`.
What is NOT proved: that the bytes returned by `Flush`, read with the 0xFF-stuffing rule and 1-padding,
are such a bit source, and that the code-shaped decoder refines the ideal decoder on it. -/
theorem roundtrip_ideal_partial (n : Nat) (ds : List (Nat × Nat)) (hds : ∀ d ∈ ds, d.2 < n)
    (src : Nat → Nat) (hsrc : ∀ k, src k ≤ 1) (P0 p0 : Nat) :
    ∃ e steps, encodeAll (Enc.new n) ds = some e ∧ trace (Enc.new n) ds = some steps ∧
      Exact e (jrun src { L := 0, a := 0x8000, P := P0, p := p0 } steps).L ∧
      e.a = (jrun src { L := 0, a := 0x8000, P := P0, p := p0 } steps).a ∧
      ((jrun src { L := 0, a := 0x8000, P := P0, p := p0 } steps).In →
        (idecRun src { D := P0, a := 0x8000, p := p0 } (steps.map (·.1))).1 = steps.map (·.2)) := by
  obtain ⟨h0, hn0, hs0⟩ := new_ok n
  obtain ⟨e, i', he, hi, hr, hn, hx, ha⟩ := encodeAll_exact ds (Enc.new n) 0 h0 hn0 (exact_new n) (by rw [hs0]; exact hds)
  obtain ⟨steps, ht, hL, hA⟩ := idealRun_eq_jrun src ds (Enc.new n) { L := 0, a := 0x8000, P := P0, p := p0 } i' hi
  have hq := trace_qe_range ds (Enc.new n) steps ht h0 hn0 (by rw [hs0]; exact hds)
  refine ⟨e, steps, he, ht, by rw [hL]; exact hx, by rw [hA]; exact ha, ?_⟩
  intro hin
  have := (ideal_roundtrip src hsrc steps { L := 0, a := 0x8000, P := P0, p := p0 } (by show 0x8000 ≤ 0x8000; decide) (by show 0x8000 < 65536; decide) hq hin).2
  simp only [Nat.sub_zero] at this
  rw [this]

end Mqc
