import GdcVerif.Model.J2kLossless
namespace J2kL

/-- the facts about a parameter object that the steps of Validate establish or preserve -/
structure VFacts (p0 q : LParams) (lv ly rt rl pg tr : Bool) : Prop where
  app : q.AppendLosslessLayer = p0.AppendLosslessLayer
  lv : lv = true → 0 ≤ q.NumLevels ∧ q.NumLevels ≤ 6
  ly : ly = true → 1 ≤ q.NumLayers
  rt : rt = true → 0 ≤ q.Rate
  rt0 : p0.Rate = 0 → q.Rate = 0
  rl : rl = true → q.Rate > 0 → q.RateLevels.length ≠ 0
  pg : pg = true → 0 ≤ p0.ProgressionOrder → 0 ≤ q.ProgressionOrder ∧ q.ProgressionOrder ≤ 4
  pg0 : 0 ≤ p0.ProgressionOrder → 0 ≤ q.ProgressionOrder
  tr : tr = true → 0 ≤ q.TargetRatio.num
  tr0 : p0.TargetRatio.num = 0 → q.TargetRatio.num = 0

theorem validate_spec (p : LParams) : VFacts p (validate p) true true true true true true := by
  have s1 : VFacts p (v1 p) true false false false false false := by
    unfold v1; split
    · exact ⟨rfl, fun _ => by simp, by simp, by simp, fun h => h, by simp, by simp, fun h => h, by simp, fun h => h⟩
    · next h => exact ⟨rfl, fun _ => by omega, by simp, by simp, fun h => h, by simp, by simp, fun h => h, by simp, fun h => h⟩
  have s2 : VFacts p (v2 (v1 p)) true true false false false false := by
    generalize v1 p = p1 at s1
    unfold v2; split
    · exact ⟨s1.app, s1.lv, fun _ => by simp, by simp, s1.rt0, by simp, by simp, s1.pg0, by simp, s1.tr0⟩
    · next h => exact ⟨s1.app, s1.lv, fun _ => by omega, by simp, s1.rt0, by simp, by simp, s1.pg0, by simp, s1.tr0⟩
  have s3 : VFacts p (v3 (v2 (v1 p))) true true true false false false := by
    generalize v2 (v1 p) = p2 at s2
    unfold v3; split
    · exact ⟨s2.app, s2.lv, s2.ly, fun _ => by simp, fun _ => rfl, by simp, by simp, s2.pg0, by simp, s2.tr0⟩
    · next h => exact ⟨s2.app, s2.lv, s2.ly, fun _ => by omega, s2.rt0, by simp, by simp, s2.pg0, by simp, s2.tr0⟩
  have s4 : VFacts p (v4 (v3 (v2 (v1 p)))) true true true true false false := by
    generalize v3 (v2 (v1 p)) = p3 at s3
    unfold v4; split
    · exact ⟨s3.app, s3.lv, s3.ly, s3.rt, s3.rt0, fun _ _ => by simp [defaultRateLevels], by simp, s3.pg0, by simp, s3.tr0⟩
    · next h => exact ⟨s3.app, s3.lv, s3.ly, s3.rt, s3.rt0, fun _ hr hl => h ⟨hr, hl⟩, by simp, s3.pg0, by simp, s3.tr0⟩
  have s5 : VFacts p (v5 (v4 (v3 (v2 (v1 p))))) true true true true true false := by
    generalize v4 (v3 (v2 (v1 p))) = p4 at s4
    unfold v5; split
    · exact ⟨s4.app, s4.lv, s4.ly, s4.rt, s4.rt0, s4.rl, fun _ _ => by simp, fun _ => by simp, by simp, s4.tr0⟩
    · next h => exact ⟨s4.app, s4.lv, s4.ly, s4.rt, s4.rt0, s4.rl, fun _ h0 => ⟨s4.pg0 h0, by omega⟩, s4.pg0, by simp, s4.tr0⟩
  have s6 : VFacts p (v6 (v5 (v4 (v3 (v2 (v1 p)))))) true true true true true true := by
    generalize v5 (v4 (v3 (v2 (v1 p)))) = p5 at s5
    unfold v6; split
    · exact ⟨s5.app, s5.lv, s5.ly, s5.rt, s5.rt0, s5.rl, s5.pg, s5.pg0, fun _ => by simp [Frac.zero], fun _ => by simp [Frac.zero]⟩
    · next h =>
      have : 0 ≤ p5.TargetRatio.num := by
        unfold Frac.neg at h; simp at h; exact h
      exact ⟨s5.app, s5.lv, s5.ly, s5.rt, s5.rt0, s5.rl, s5.pg, s5.pg0, fun _ => this, s5.tr0⟩
  unfold validate
  generalize v6 (v5 (v4 (v3 (v2 (v1 p))))) = p6 at s6
  unfold v7; split
  · exact ⟨s6.app, s6.lv, fun _ => by simp, s6.rt, s6.rt0, s6.rl, s6.pg, s6.pg0, s6.tr, s6.tr0⟩
  · exact s6

theorem layersFromRateLevels_pos (rate : Int) (levels : List Int) : 1 ≤ layersFromRateLevels rate levels := by
  unfold layersFromRateLevels
  split
  · omega
  · simp only []; split <;> omega

theorem rateToTargetRatio_pos (rate bs ba : Int) (hr : 0 < rate) (hbs : 1 ≤ bs) (hba : 1 ≤ ba) :
    (rateToTargetRatio rate bs ba).pos = true := by
  unfold rateToTargetRatio Frac.pos
  have c1 : ¬ rate ≤ 0 := by omega
  have c2 : ¬ ba ≤ 0 := by omega
  have c3 : ¬ (bs ≤ 0 ∨ ba ≤ 0) := by omega
  rw [if_neg c1]
  simp only [if_neg c2, if_neg c3, decide_eq_true_eq]
  exact Int.mul_pos hr (by omega)

theorem layerRates_last (rate : Int) (levels : List Int) (bs ba : Int) (hr : 0 < rate) :
    (openJPEGLayerRates rate levels bs ba true).getLast? = some Frac.zero := by
  unfold openJPEGLayerRates
  have c1 : ¬ rate ≤ 0 := by omega
  simp only [c1, if_false, if_true, List.getLast?_append, List.getLast?_singleton, Option.some_or]

theorem configure_sound (q : LParams) (bs ba : Int) (hbs : 1 ≤ bs) (hba : 1 ≤ ba)
    (hly : 1 ≤ q.NumLayers) (hrt : 0 ≤ q.Rate) (htr : 0 ≤ q.TargetRatio.num)
    (hs : q.AppendLosslessLayer = true ∨ (q.Rate = 0 ∧ q.TargetRatio.num = 0)) :
    let e := configure bs ba q
    e.Lossless = true ∧ 1 ≤ e.NumLayers ∧ e.NumLevels = q.NumLevels ∧ e.ProgressionOrder = q.ProgressionOrder ∧
    e.AppendLosslessLayer = q.AppendLosslessLayer ∧
    (e.TargetRatio.pos = true → e.AppendLosslessLayer = true ∧ 2 ≤ e.NumLayers) ∧
    (q.Rate > 0 → q.AppendLosslessLayer = true → e.LayerRates.getLast? = some Frac.zero) ∧
    (useLayered e = true → appendLosslessFlag e = true) := by
  have hl := layersFromRateLevels_pos q.Rate q.RateLevels
  -- the effective target ratio and the resulting layer count, by cases
  have key : ((configure bs ba q).TargetRatio.pos = true ∧ q.AppendLosslessLayer = true ∧
        (configure bs ba q).NumLayers = (if q.NumLayers ≤ 1 then layersFromRateLevels q.Rate q.RateLevels else q.NumLayers) + 1)
      ∨ ((configure bs ba q).TargetRatio.pos = false ∧ ¬ q.Rate > 0 ∧ (configure bs ba q).NumLayers = q.NumLayers) := by
    by_cases hpos : q.TargetRatio.pos = true
    · have happ : q.AppendLosslessLayer = true := by
        rcases hs with h | ⟨_, h⟩
        · exact h
        · unfold Frac.pos at hpos; simp at hpos; omega
      left
      refine ⟨by simp [configure, hpos], happ, by simp [configure, hpos, happ]⟩
    · have hnp : q.TargetRatio.pos = false := by simpa using hpos
      by_cases hr : q.Rate > 0
      · have happ : q.AppendLosslessLayer = true := by
          rcases hs with h | ⟨h, _⟩
          · exact h
          · omega
        have hp2 := rateToTargetRatio_pos q.Rate bs ba hr hbs hba
        left
        refine ⟨by simp [configure, hnp, hr, hp2], happ, by simp [configure, hnp, hr, hp2, happ]⟩
      · right
        refine ⟨by simp [configure, hnp, hr], hr, by simp [configure, hnp, hr]⟩
  have hA : (configure bs ba q).AppendLosslessLayer = q.AppendLosslessLayer := rfl
  have hL : (configure bs ba q).Lossless = true := rfl
  have hR : (configure bs ba q).LayerRates =
      openJPEGLayerRates q.Rate q.RateLevels bs ba q.AppendLosslessLayer := rfl
  intro e
  show (configure bs ba q).Lossless = true ∧ 1 ≤ (configure bs ba q).NumLayers ∧ _
  refine ⟨rfl, ?_, rfl, rfl, rfl, ?_, ?_, ?_⟩
  · rcases key with ⟨_, _, h⟩ | ⟨_, _, h⟩ <;> rw [h]
    · split <;> omega
    · exact hly
  · intro hp
    rcases key with ⟨_, ha, h⟩ | ⟨h, _, _⟩
    · rw [hA, h]; exact ⟨ha, by split <;> omega⟩
    · rw [h] at hp; exact absurd hp (by decide)
  · intro hr ha
    rw [hR, ha]; exact layerRates_last _ _ _ _ hr
  · unfold useLayered appendLosslessFlag
    rw [hL, hA]
    intro hu
    rcases key with ⟨_, ha, h⟩ | ⟨ht, _, h⟩
    · have : (configure bs ba q).NumLayers > 1 := by rw [h]; split <;> omega
      simp; exact Or.inr this
    · rw [ht] at hu
      simp at hu ⊢
      exact Or.inr hu

theorem layerLoop_length (rate : Int → Int) (n total : Int) (alloc : List Int) (pe : Int) :
    (layerLoop rate n total alloc pe).length = alloc.length := by
  induction alloc generalizing pe with
  | nil => rfl
  | cons a rest ih => simp only [layerLoop, List.length_cons, ih]

theorem appendLast_last (rate : Int → Int) (n total : Int) (ls : List (Int × Int × Int)) (h : ls ≠ []) :
    ((appendLast rate n total ls).getLast?).map (·.1) = some n ∧ (appendLast rate n total ls).length = ls.length := by
  unfold appendLast
  have hr : ls.reverse ≠ [] := by simpa using h
  cases hrev : ls.reverse with
  | nil => exact absurd hrev hr
  | cons x before =>
    simp only [List.getLast?_append, List.getLast?_singleton, Option.some_or, Option.map_some,
      List.length_append, List.length_reverse, List.length_singleton, true_and]
    have : ls.length = (x :: before).length := by rw [← hrev, List.length_reverse]
    rw [this]; simp

theorem finalize_last' (rate : Int → Int) (n total : Int) (alloc : List Int) (hn : 1 ≤ n) (ha : alloc ≠ []) :
    ((finalize rate n total alloc true).getLast?).map (·.1) = some n ∧
    (finalize rate n total alloc true).length = alloc.length := by
  unfold finalize
  have c : (true = true ∧ n > 0) := ⟨rfl, by omega⟩
  simp only [c, and_self, if_true]
  have hne : layerLoop rate n total alloc 0 ≠ [] := by
    intro h
    have := layerLoop_length rate n total alloc 0
    rw [h] at this
    cases alloc with
    | nil => exact ha rfl
    | cons a r => simp at this
  have := appendLast_last rate n total _ hne
  rw [layerLoop_length] at this
  exact this

/-! ### generic parameter extraction: each key only touches its own field -/
theorem g1_Rate (g : GParams) (p : LParams) : (g1 g p).Rate = p.Rate := by
  unfold g1; cases g.numLevels <;> simp only [] <;> (try split) <;> rfl

theorem g2_Rate (g : GParams) (p : LParams) : (g2 g p).Rate = p.Rate := by
  unfold g2; cases g.allowMCT <;> simp only [] <;> (try split) <;> rfl

theorem g4_Rate (g : GParams) (p : LParams) : (g4 g p).Rate = p.Rate := by
  unfold g4; cases g.rateLevels <;> simp only [] <;> (try split) <;> rfl

theorem g5_Rate (g : GParams) (p : LParams) : (g5 g p).Rate = p.Rate := by
  unfold g5; cases g.progressionOrder <;> simp only [] <;> (try split) <;> rfl

theorem g6_Rate (g : GParams) (p : LParams) : (g6 g p).Rate = p.Rate := by
  unfold g6; cases g.numLayers <;> simp only [] <;> (try split) <;> rfl

theorem g7_Rate (g : GParams) (p : LParams) : (g7 g p).Rate = p.Rate := by
  unfold g7; cases g.targetRatio <;> simp only [] <;> (try split) <;> rfl

theorem g8_Rate (g : GParams) (p : LParams) : (g8 g p).Rate = p.Rate := by
  unfold g8; cases g.usePCRDOpt <;> simp only [] <;> (try split) <;> rfl

theorem g9_Rate (g : GParams) (p : LParams) : (g9 g p).Rate = p.Rate := by
  unfold g9; cases g.appendLosslessLayer <;> simp only [] <;> (try split) <;> rfl

theorem g1_ProgressionOrder (g : GParams) (p : LParams) : (g1 g p).ProgressionOrder = p.ProgressionOrder := by
  unfold g1; cases g.numLevels <;> simp only [] <;> (try split) <;> rfl

theorem g2_ProgressionOrder (g : GParams) (p : LParams) : (g2 g p).ProgressionOrder = p.ProgressionOrder := by
  unfold g2; cases g.allowMCT <;> simp only [] <;> (try split) <;> rfl

theorem g3_ProgressionOrder (g : GParams) (p : LParams) : (g3 g p).ProgressionOrder = p.ProgressionOrder := by
  unfold g3; cases g.rate <;> simp only [] <;> (try split) <;> rfl

theorem g4_ProgressionOrder (g : GParams) (p : LParams) : (g4 g p).ProgressionOrder = p.ProgressionOrder := by
  unfold g4; cases g.rateLevels <;> simp only [] <;> (try split) <;> rfl

theorem g6_ProgressionOrder (g : GParams) (p : LParams) : (g6 g p).ProgressionOrder = p.ProgressionOrder := by
  unfold g6; cases g.numLayers <;> simp only [] <;> (try split) <;> rfl

theorem g7_ProgressionOrder (g : GParams) (p : LParams) : (g7 g p).ProgressionOrder = p.ProgressionOrder := by
  unfold g7; cases g.targetRatio <;> simp only [] <;> (try split) <;> rfl

theorem g8_ProgressionOrder (g : GParams) (p : LParams) : (g8 g p).ProgressionOrder = p.ProgressionOrder := by
  unfold g8; cases g.usePCRDOpt <;> simp only [] <;> (try split) <;> rfl

theorem g9_ProgressionOrder (g : GParams) (p : LParams) : (g9 g p).ProgressionOrder = p.ProgressionOrder := by
  unfold g9; cases g.appendLosslessLayer <;> simp only [] <;> (try split) <;> rfl

theorem g1_AppendLosslessLayer (g : GParams) (p : LParams) : (g1 g p).AppendLosslessLayer = p.AppendLosslessLayer := by
  unfold g1; cases g.numLevels <;> simp only [] <;> (try split) <;> rfl

theorem g2_AppendLosslessLayer (g : GParams) (p : LParams) : (g2 g p).AppendLosslessLayer = p.AppendLosslessLayer := by
  unfold g2; cases g.allowMCT <;> simp only [] <;> (try split) <;> rfl

theorem g3_AppendLosslessLayer (g : GParams) (p : LParams) : (g3 g p).AppendLosslessLayer = p.AppendLosslessLayer := by
  unfold g3; cases g.rate <;> simp only [] <;> (try split) <;> rfl

theorem g4_AppendLosslessLayer (g : GParams) (p : LParams) : (g4 g p).AppendLosslessLayer = p.AppendLosslessLayer := by
  unfold g4; cases g.rateLevels <;> simp only [] <;> (try split) <;> rfl

theorem g5_AppendLosslessLayer (g : GParams) (p : LParams) : (g5 g p).AppendLosslessLayer = p.AppendLosslessLayer := by
  unfold g5; cases g.progressionOrder <;> simp only [] <;> (try split) <;> rfl

theorem g6_AppendLosslessLayer (g : GParams) (p : LParams) : (g6 g p).AppendLosslessLayer = p.AppendLosslessLayer := by
  unfold g6; cases g.numLayers <;> simp only [] <;> (try split) <;> rfl

theorem g7_AppendLosslessLayer (g : GParams) (p : LParams) : (g7 g p).AppendLosslessLayer = p.AppendLosslessLayer := by
  unfold g7; cases g.targetRatio <;> simp only [] <;> (try split) <;> rfl

theorem g8_AppendLosslessLayer (g : GParams) (p : LParams) : (g8 g p).AppendLosslessLayer = p.AppendLosslessLayer := by
  unfold g8; cases g.usePCRDOpt <;> simp only [] <;> (try split) <;> rfl

theorem g8_TargetRatio (g : GParams) (p : LParams) : (g8 g p).TargetRatio = p.TargetRatio := by
  unfold g8; cases g.usePCRDOpt <;> simp only [] <;> (try split) <;> rfl

theorem g9_TargetRatio (g : GParams) (p : LParams) : (g9 g p).TargetRatio = p.TargetRatio := by
  unfold g9; cases g.appendLosslessLayer <;> simp only [] <;> (try split) <;> rfl

theorem g1_TargetRatio (g : GParams) (p : LParams) : (g1 g p).TargetRatio = p.TargetRatio := by
  unfold g1; cases g.numLevels <;> simp only [] <;> (try split) <;> rfl
theorem g2_TargetRatio (g : GParams) (p : LParams) : (g2 g p).TargetRatio = p.TargetRatio := by
  unfold g2; cases g.allowMCT <;> simp only [] <;> (try split) <;> rfl
theorem g3_TargetRatio (g : GParams) (p : LParams) : (g3 g p).TargetRatio = p.TargetRatio := by
  unfold g3; cases g.rate <;> simp only [] <;> (try split) <;> rfl
theorem g4_TargetRatio (g : GParams) (p : LParams) : (g4 g p).TargetRatio = p.TargetRatio := by
  unfold g4; cases g.rateLevels <;> simp only [] <;> (try split) <;> rfl
theorem g5_TargetRatio (g : GParams) (p : LParams) : (g5 g p).TargetRatio = p.TargetRatio := by
  unfold g5; cases g.progressionOrder <;> simp only [] <;> (try split) <;> rfl
theorem g6_TargetRatio (g : GParams) (p : LParams) : (g6 g p).TargetRatio = p.TargetRatio := by
  unfold g6; cases g.numLayers <;> simp only [] <;> (try split) <;> rfl

/-- the extracted Rate: the generic "rate" when it is an int ≥ 0 (0 included: it switches the default ladder off),
    the default 20 otherwise -/
theorem extract_rate_eq (g : GParams) :
    (extractGeneric g).Rate = (match g.rate with | some r => if r ≥ 0 then r else 20 | none => 20) := by
  unfold extractGeneric
  rw [g9_Rate, g8_Rate, g7_Rate, g6_Rate, g5_Rate, g4_Rate]
  have h0 : (g2 g (g1 g defaultLParams)).Rate = 20 := by rw [g2_Rate, g1_Rate]; rfl
  unfold g3
  cases g.rate with
  | none => simp only []; exact h0
  | some r => simp only []; split <;> simp_all

theorem extract_rate (g : GParams) : (extractGeneric g).Rate ≥ 0 := by
  rw [extract_rate_eq]
  cases g.rate with
  | none => simp
  | some r => simp only []; split <;> omega

theorem extract_rate_zero (g : GParams) : (extractGeneric g).Rate = 0 ↔ g.rate = some 0 := by
  rw [extract_rate_eq]
  cases g.rate with
  | none => simp
  | some r =>
    simp only [Option.some.injEq]
    split
    · exact Iff.rfl
    · constructor <;> intro h <;> omega

/-- the extracted TargetRatio: the generic "targetRatio" when present, the default 0 otherwise -/
theorem extract_target (g : GParams) :
    (extractGeneric g).TargetRatio = (match g.targetRatio with | some t => t | none => Frac.zero) := by
  unfold extractGeneric
  rw [g9_TargetRatio, g8_TargetRatio]
  have h0 : (g6 g (g5 g (g4 g (g3 g (g2 g (g1 g defaultLParams)))))).TargetRatio = Frac.zero := by
    rw [g6_TargetRatio, g5_TargetRatio, g4_TargetRatio, g3_TargetRatio, g2_TargetRatio, g1_TargetRatio]; rfl
  unfold g7
  cases g.targetRatio with
  | none => simp only []; exact h0
  | some t => rfl

theorem extract_prog (g : GParams) : 0 ≤ (extractGeneric g).ProgressionOrder := by
  unfold extractGeneric
  rw [g9_ProgressionOrder, g8_ProgressionOrder, g7_ProgressionOrder, g6_ProgressionOrder]
  have h0 : (g4 g (g3 g (g2 g (g1 g defaultLParams)))).ProgressionOrder = 0 := by
    rw [g4_ProgressionOrder, g3_ProgressionOrder, g2_ProgressionOrder, g1_ProgressionOrder]; rfl
  unfold g5
  cases g.progressionOrder with
  | none => simp only []; omega
  | some x => simp only []; split <;> simp_all <;> omega

theorem extract_append (g : GParams) :
    (extractGeneric g).AppendLosslessLayer = true ↔ g.appendLosslessLayer ≠ some false := by
  unfold extractGeneric
  have h0 : (g8 g (g7 g (g6 g (g5 g (g4 g (g3 g (g2 g (g1 g defaultLParams)))))))).AppendLosslessLayer = true := by
    rw [g8_AppendLosslessLayer, g7_AppendLosslessLayer, g6_AppendLosslessLayer, g5_AppendLosslessLayer,
      g4_AppendLosslessLayer, g3_AppendLosslessLayer, g2_AppendLosslessLayer, g1_AppendLosslessLayer]; rfl
  unfold g9
  cases h : g.appendLosslessLayer with
  | none => simp [h0]
  | some b => cases b <;> simp

theorem validate_rate_pos (p : LParams) (h : p.Rate > 0) : (validate p).Rate = p.Rate := by
  have r1 : (v1 p).Rate = p.Rate := by unfold v1; split <;> rfl
  have r2 : ∀ q : LParams, (v2 q).Rate = q.Rate := by intro q; unfold v2; split <;> rfl
  have r3 : ∀ q : LParams, q.Rate > 0 → (v3 q).Rate = q.Rate := by
    intro q hq; unfold v3; split
    · omega
    · rfl
  have r4 : ∀ q : LParams, (v4 q).Rate = q.Rate := by intro q; unfold v4; split <;> rfl
  have r5 : ∀ q : LParams, (v5 q).Rate = q.Rate := by intro q; unfold v5; split <;> rfl
  have r6 : ∀ q : LParams, (v6 q).Rate = q.Rate := by intro q; unfold v6; split <;> rfl
  have r7 : ∀ q : LParams, (v7 q).Rate = q.Rate := by intro q; unfold v7; split <;> rfl
  unfold validate
  rw [r7, r6, r5, r4, r3 _ (by rw [r2, r1]; exact h), r2, r1]

end J2kL
