import GdcVerif.Model.J2kGlue
/-!
  C09, claimed coding passes: `buildAndDecodeCodeBlocks` treats a code-block whose accumulated pass count makes
  `estimateMaxBitplane` return 31 or more as corrupt (`info.maxBitplane = -1`): the T1 decoder is not called, the
  block is zero.  With 91 or more claimed passes `(totalPasses + 2) / 3 ≥ 31`, whatever QCD and the zero-bit-plane
  count say, so the T1 decoder never runs more than 3·31 passes over a code-block — for every list of packet headers.
-/
namespace J2kGlue
open J2k J2kPH

theorem estimate_ge_of_passes (np zbp nb : Nat) (h : 91 ≤ np) : estimateMaxBitplane np zbp nb ≥ 31 := by
  unfold estimateMaxBitplane
  have h1 : np > 0 := by omega
  have h2 : ¬ ((np + 2) / 3 ≤ 0) := by omega
  have h3 : (31 : Int) ≤ (((np + 2) / 3 : Nat) : Int) := by
    have : 31 ≤ (np + 2) / 3 := by omega
    exact Int.ofNat_le.mpr this
  simp only [h1, h2, if_true, if_false]
  split
  · split <;> omega
  · split
    · omega
    · split <;> omega

/-- a code-block whose packet headers claim 91 or more coding passes is never handed to T1: it is left at zero -/
theorem t1Decode_claimed_passes_zero (w h orient nb : Nat) (i : Incl) (data : List Nat) (hp : 91 ≤ i.numPasses) :
    t1Decode w h orient nb i data = some (List.replicate (w * h) 0) := by
  unfold t1Decode
  have := estimate_ge_of_passes i.numPasses i.zbp nb hp
  simp [this]

end J2kGlue
