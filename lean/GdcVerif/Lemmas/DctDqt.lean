import GdcVerif.Model.Dct
/-! General DQT round trip: the bytes writeDQT emits, parsed by parseDQT, give back the table — for EVERY table
    with 64 entries in 0..255 (hence for all 100 qualities × both base tables, by c11_scaled_table_valid). -/
namespace Dct
open Gen.JpegStd List
set_option maxRecDepth 100000

/-- zig-zag table as a function on positions -/
def zzN (j : Nat) : Nat := ((ZigZag[j]?).getD 0).toNat

theorem zz_facts : (List.range 64).all (fun j => getI ZigZag (j : Int) == some (zzN j : Int) && decide (zzN j < 64)) = true := by decide
theorem zz_inj_b : (List.range 64).all (fun i => (List.range 64).all (fun j => zzN i != zzN j || i == j)) = true := by decide
theorem zz_surj_b : (List.range 64).all (fun n => (List.range 64).any (fun j => zzN j == n)) = true := by decide

theorem zz_get (j : Nat) (hj : j < 64) : getI ZigZag (j : Int) = some (zzN j : Int) ∧ zzN j < 64 := by
  have := List.all_eq_true.1 zz_facts j (List.mem_range.2 hj)
  simpa using this
theorem zz_inj (i j : Nat) (hi : i < 64) (hj : j < 64) (h : zzN i = zzN j) : i = j := by
  have := List.all_eq_true.1 (List.all_eq_true.1 zz_inj_b i (List.mem_range.2 hi)) j (List.mem_range.2 hj)
  simp at this
  rcases this with h' | h'
  · exact absurd h h'
  · exact h'
theorem zz_surj (n : Nat) (hn : n < 64) : ∃ j, j < 64 ∧ zzN j = n := by
  have := List.all_eq_true.1 zz_surj_b n (List.mem_range.2 hn)
  simp at this
  obtain ⟨j, hj, e⟩ := this
  exact ⟨j, hj, e⟩

theorem getI_nat (a : Array Int) (n : Nat) : getI a (n : Int) = a[n]? := by simp [getI]
theorem setI_nat (a : Array Int) (n : Nat) (v : Int) (h : n < a.size) : setI a (n : Int) v = some (a.set n v h) := by
  simp [setI, h]

theorem mapM_some {α β : Type} (f : α → Option β) (g : α → β) :
    ∀ l : List α, (∀ a ∈ l, f a = some (g a)) → l.mapM f = some (l.map g)
  | [], _ => by simp
  | a :: t, h => by
    have h1 := h a (by simp)
    have h2 := mapM_some f g t (fun x hx => h x (by simp [hx]))
    simp [List.mapM_cons, h1, h2]

/-- the byte writeDQT stores at position 1+j -/
def dqtByte (q : Array Int) (j : Nat) : Int := Go.uwrap8 ((q[zzN j]?).getD 0)

theorem dqtPayload_eq (id : Int) (q : Array Int) (hq : q.size = 64) :
    dqtPayload id q = some (Go.uwrap8 id :: (List.range 64).map (dqtByte q)) := by
  have hm : (List.range 64).mapM (fun (j : Nat) => do
      let z ← getI ZigZag j
      let v ← getI q z
      pure (Go.uwrap8 v)) = some ((List.range 64).map (dqtByte q)) := by
    apply mapM_some
    intro j hj
    have hj' := List.mem_range.1 hj
    obtain ⟨h1, h2⟩ := zz_get j hj'
    have h3 : q[zzN j]? = some q[zzN j] := Array.getElem?_eq_getElem (by omega)
    simp [h1, getI_nat, dqtByte, h3]
  simp only [dqtPayload, hm]
  rfl

/-- parseDQT's scatter loop, first n iterations -/
theorem scatter_inv (data : List Int) (hlen : data.length = 64) : ∀ n, n ≤ 64 →
    ∃ t : Array Int, parseDQTn n data = some t ∧ t.size = 64 ∧ ∀ i, i < n → t[zzN i]? = data[i]?
  | 0, _ => ⟨Array.replicate 64 0, by simp [parseDQTn], by simp, by intro i hi; omega⟩
  | n + 1, hn => by
    obtain ⟨t, ht, hs, hinv⟩ := scatter_inv data hlen n (by omega)
    obtain ⟨h1, h2⟩ := zz_get n (by omega)
    have hd : data[n]? = some data[n] := List.getElem?_eq_getElem (by omega)
    refine ⟨t.set (zzN n) data[n] (by omega), ?_, by simp [hs], ?_⟩
    · unfold parseDQTn at ht ⊢
      rw [List.range_succ, List.foldlM_append, ht]
      simp [h1, hd, setI_nat t (zzN n) data[n] (by omega)]
    · intro i hi
      by_cases hin : i = n
      · subst hin; simp [hd]
      · have hne : zzN n ≠ zzN i := fun e => hin (zz_inj i n (by omega) (by omega) e.symm)
        rw [Array.getElem?_set_ne _ hne]
        exact hinv i (by omega)



theorem scatter_final (q t : Array Int) (hq : q.size = 64) (hs : t.size = 64)
    (hinv : ∀ i, i < 64 → t[zzN i]? = some (dqtByte q i))
    (hr : ∀ (n : Nat) (h : n < q.size), 0 ≤ q[n] ∧ q[n] ≤ 255) : t = q := by
  apply Array.ext (hs.trans hq.symm)
  intro n h1 h2
  obtain ⟨j, hj, e⟩ := zz_surj n (hs ▸ h1)
  have h3 := hinv j hj
  rw [e, Array.getElem?_eq_getElem h1] at h3
  have h5 : t[n] = dqtByte q j := Option.some.inj h3
  rw [h5]
  simp only [dqtByte, e, Array.getElem?_eq_getElem h2, Option.getD_some, Go.uwrap8]
  have := hr n h2
  omega

theorem map_range_get (g : Nat → Int) (j : Nat) (hj : j < 64) : ((List.range 64).map g)[j]? = some (g j) := by
  rw [List.getElem?_map, List.getElem?_range hj]; rfl

theorem parse_of_inv (q : Array Int) (L : List Int) (hq : q.size = 64) (hL : L.length = 64)
    (hLi : ∀ i, i < 64 → L[i]? = some (dqtByte q i))
    (hr : ∀ (n : Nat) (h : n < q.size), 0 ≤ q[n] ∧ q[n] ≤ 255) : parseDQT8 L = some q := by
  obtain ⟨t, ht, hs, hinv⟩ := scatter_inv L hL 64 (Nat.le_refl _)
  unfold parseDQT8
  rw [ht]
  exact congrArg some (scatter_final q t hq hs (fun i hi => (hinv i hi).trans (hLi i hi)) hr)

theorem bind_tail (a : Int) (L : List Int) : (some (a :: L)).bind (fun p => parseDQT8 p.tail) = parseDQT8 L := rfl

theorem dqt_roundtrip_general (id : Int) (q : Array Int) (hq : q.size = 64)
    (hr : ∀ (n : Nat) (h : n < q.size), 0 ≤ q[n] ∧ q[n] ≤ 255) :
    (dqtPayload id q).bind (fun p => parseDQT8 p.tail) = some q := by
  rw [dqtPayload_eq id q hq, bind_tail]
  exact parse_of_inv q _ hq (by rw [List.length_map, List.length_range]) (fun i hi => map_range_get _ i hi) hr
end Dct
