import GdcVerif.Lemmas.GolombReader2
/-! `GolombReader` model, part 3: `fillReadCache`, `ReadBit`, `ReadBits` against the bit stream. -/
namespace GolombReader
open Golomb

theorem an_le (r : Reader) : an r ≤ 1 := by unfold an; split <;> omega

/-- at the end of well-stuffed data no 0xFF bit is pending -/
theorem an_end (r : Reader) (S : List Bool) (h : Rep r S) (he : r.pos = r.data.length) : an r = 0 := by
  unfold an
  by_cases hx : aff r = true
  · unfold aff at hx
    simp only [Bool.and_eq_true, decide_eq_true_eq, beq_iff_eq] at hx
    have := (h.hdata.2 (r.pos - 1) (by omega) hx.2).1
    omega
  · simp [hx]

theorem rep_all_shown (r : Reader) (S : List Bool) (h : Rep r S) (he : r.pos = r.data.length) :
    S.length = r.valid.toNat := by
  have ha := an_end r S h he
  have hS := h.hS
  rw [ha, he, List.drop_length] at hS
  simp only [destuff, Nat.add_zero] at hS
  have hl := h.hlen
  rw [ha] at hl
  have := congrArg List.length hS
  simp at this
  omega

theorem fillOptimistic_spec (r : Reader) (S : List Bool) (h : Rep r S) (hv : r.valid ≤ 32) :
    ∃ r1 done, fillOptimistic r = .ok (r1, done) ∧ Rep r1 S ∧ r1.data = r.data := by
  unfold fillOptimistic
  by_cases hc : (r.pos : Int) < (r.posFF : Int) - 7
  · simp only [hc, if_true]
    have hv0 := h.hv
    have ht : Int.tdiv (64 - r.valid) 8 = (64 - r.valid) / 8 := Int.tdiv_eq_ediv_of_nonneg (by omega)
    rw [ht]
    generalize hn3 : (if (if (64 - r.valid) / 8 > (r.posFF : Int) - r.pos then (r.posFF : Int) - r.pos else (64 - r.valid) / 8) > 8
        then (8 : Int) else (if (64 - r.valid) / 8 > (r.posFF : Int) - r.pos then (r.posFF : Int) - r.pos else (64 - r.valid) / 8)) = n3
    have hb : 0 ≤ n3 ∧ n3 ≤ (64 - r.valid) / 8 ∧ n3 ≤ (r.posFF : Int) - r.pos := by
      rw [← hn3]; split <;> split <;> omega
    obtain ⟨r1, he, hr, _, _, hd, _⟩ := optLoop_spec S n3.toNat r h (by omega)
      (by by_cases h0 : n3.toNat = 0
          · exact Or.inl h0
          · right; omega)
    simp only [bind, Except.bind, he]
    exact ⟨r1, _, rfl, hr, hd⟩
  · simp only [hc, if_false]
    exact ⟨r, false, rfl, h, rfl⟩

/-- `fillReadCache` keeps the remaining stream; it fails only when nothing is left -/
theorem fill_spec (r : Reader) (S : List Bool) (h : Rep r S) (hv : r.valid ≤ 32) :
    (fill r = .error .err ∧ S = []) ∨
    ∃ r', fill r = .ok r' ∧ Rep r' S ∧ 1 ≤ r'.valid ∧ (56 ≤ r'.valid ∨ r'.pos = r'.data.length) ∧ r'.data = r.data := by
  obtain ⟨r1, done, ho, hr1, hd1⟩ := fillOptimistic_spec r S h hv
  unfold fill
  simp only [ho, bind, Except.bind]
  by_cases hdone : done = true
  · -- optimistic path filled the cache: validBits >= 56
    simp only [hdone, if_true]
    right
    have hv56 : 56 ≤ r1.valid := by
      unfold fillOptimistic at ho
      split at ho
      · simp only [bind, Except.bind] at ho
        split at ho
        · simp at ho
        · simp only [Except.ok.injEq, Prod.mk.injEq] at ho
          rw [← ho.1]; rw [← ho.2] at hdone
          simpa using hdone
      · simp only [Except.ok.injEq, Prod.mk.injEq] at ho
        rw [← ho.2] at hdone; simp at hdone
    exact ⟨r1, rfl, hr1, by omega, Or.inl hv56, hd1⟩
  · simp only [hdone, if_false]
    have hv1 := hr1.hv
    rcases slowLoop_spec S 10 r1 hr1 (by push_cast; omega) with ⟨he, h0, hp⟩ | ⟨r', hok, hr, hfin, hd⟩
    · left
      rw [he]
      refine ⟨rfl, ?_⟩
      have := rep_all_shown r1 S hr1 hp
      rw [h0] at this
      exact List.length_eq_zero_iff.mp (by simpa using this)
    · right
      rcases hok with hok | hok
      · rw [hok]
        refine ⟨r', rfl, hr, ?_, ?_, by rw [hd, hd1]⟩
        · rcases hfin with h56 | ⟨_, h1⟩ <;> omega
        · rcases hfin with h56 | ⟨hp, _⟩
          · exact Or.inl h56
          · exact Or.inr hp
      · rw [hok]
        obtain ⟨hf1, hf2⟩ := findFFfrom_spec r'.data r'.pos hr.hpos
        refine ⟨Reader.mk r'.data r'.cache r'.valid r'.pos (findFFfrom r'.data r'.pos), rfl, ?_, ?_, ?_, by show r'.data = r.data; rw [hd, hd1]⟩
        · exact ⟨hr.hc, hr.hv, hr.hn, hr.hw, hr.hpos, hr.hS, hr.hlen, hf2, hf1, hr.hdata⟩
        · show 1 ≤ r'.valid
          rcases hfin with h56 | ⟨_, h1⟩ <;> omega
        · show 56 ≤ r'.valid ∨ r'.pos = r'.data.length
          rcases hfin with h56 | ⟨hp, _⟩
          · exact Or.inl h56
          · exact Or.inr hp

/-- consuming `k` valid bits: the value read and the new state -/
theorem rep_consume (r : Reader) (S : List Bool) (h : Rep r S) (k : Nat) (hk1 : 1 ≤ k) (hk : (k : Int) ≤ r.valid) :
    r.cache >>> (64 - k) = natOfBits (S.take k) ∧
    Rep (Reader.mk r.data ((r.cache <<< k) % M64) (r.valid - k) r.pos r.posFF) (S.drop k) := by
  have hv := h.hv
  have hn := h.hn
  have hkn : k ≤ r.valid.toNat + an r := by omega
  have hk64 : k ≤ 64 := by omega
  refine ⟨top_value r.cache S _ k h.hw hkn hk64 hk1 (by have := h.hlen; omega) h.hc, ?_⟩
  have han : an (Reader.mk r.data ((r.cache <<< k) % M64) (r.valid - k) r.pos r.posFF) = an r := rfl
  have haff : aff (Reader.mk r.data ((r.cache <<< k) % M64) (r.valid - k) r.pos r.posFF) = aff r := rfl
  have hvk : (r.valid - (k : Int)).toNat + an r = r.valid.toNat + an r - k := by omega
  refine ⟨Nat.mod_lt _ (by decide), by show 0 ≤ r.valid - (k : Int); omega, ?_, ?_, h.hpos, ?_, ?_, h.hff, h.hposFF, h.hdata⟩
  · rw [han]; show (r.valid - (k : Int)).toNat + an r ≤ 64; omega
  · rw [han]; show Win64 _ _ ((r.valid - (k : Int)).toNat + an r)
    rw [hvk]
    exact win64_shift r.cache S _ k h.hw hn hkn
  · rw [han, haff]; show List.drop ((r.valid - (k : Int)).toNat + an r) (S.drop k) = _
    rw [hvk, List.drop_drop]
    have : k + (r.valid.toNat + an r - k) = r.valid.toNat + an r := by omega
    rw [this]; exact h.hS
  · rw [han]; show (r.valid - (k : Int)).toNat + an r ≤ (S.drop k).length
    rw [hvk, List.length_drop]; have := h.hlen; omega

end GolombReader

namespace GolombReader
open Golomb

theorem readBit_aux (r : Reader) (S : List Bool) (h : Rep r S) :
    (S = [] ∧ readBit r = .error .err) ∨
    ∃ b S' r', S = b :: S' ∧ readBit r = .ok ((if b then 1 else 0), r') ∧ Rep r' S' ∧ r'.data = r.data := by
  -- the state after the optional fill
  have hfill : (S = [] ∧ (if r.valid = 0 then fill r else pure r) = .error .err) ∨
      ∃ r1, (if r.valid = 0 then fill r else pure r) = .ok r1 ∧ Rep r1 S ∧ 1 ≤ r1.valid ∧ r1.data = r.data := by
    by_cases h0 : r.valid = 0
    · simp only [h0, if_true]
      rcases fill_spec r S h (by omega) with ⟨he, hs⟩ | ⟨r', he, hr, h1, _, hd⟩
      · exact Or.inl ⟨hs, he⟩
      · exact Or.inr ⟨r', he, hr, h1, hd⟩
    · simp only [h0, if_false]
      exact Or.inr ⟨r, rfl, h, by have := h.hv; omega, rfl⟩
  unfold readBit
  rcases hfill with ⟨hs, he⟩ | ⟨r1, he, hr1, h1, hd1⟩
  · left
    rw [he]
    exact ⟨hs, rfl⟩
  · right
    rw [he]
    simp only [bind, Except.bind]
    obtain ⟨hval, hrep⟩ := rep_consume r1 S hr1 1 (by omega) (by simpa using h1)
    have hlen : 1 ≤ S.length := by have := hr1.hlen; omega
    cases S with
    | nil => simp at hlen
    | cons b S' =>
      refine ⟨b, S', _, rfl, ?_, hrep, hd1⟩
      have e63 : (64 : Nat) - 1 = 63 := rfl
      rw [e63] at hval
      rw [hval]
      have : natOfBits (List.take 1 (b :: S')) = if b then 1 else 0 := by
        cases b <;> simp [natOfBits]
      rw [this]
      have hm : (if b = true then 1 else 0) % 2 = (if b = true then 1 else 0) := by cases b <;> rfl
      rw [hm]
      rfl

/-- `ReadBit` returns the next bit of the stream; it fails exactly when the stream is exhausted -/
theorem readBit_spec (r : Reader) (S : List Bool) (h : Rep r S) :
    match S with
    | [] => readBit r = .error .err
    | b :: S' => ∃ r', readBit r = .ok ((if b then 1 else 0), r') ∧ Rep r' S' ∧ r'.data = r.data := by
  rcases readBit_aux r S h with ⟨hs, he⟩ | ⟨b, S', r', hs, he, hr, hd⟩
  · subst hs; exact he
  · subst hs; exact ⟨r', he, hr, hd⟩

/-- `ReadBits(n)`, 1 ≤ n ≤ 32, returns the next `n` bits as a number; it fails exactly when fewer
    than `n` bits are left -/
theorem readBits_spec (r : Reader) (S : List Bool) (h : Rep r S) (n : Nat) (hn1 : 1 ≤ n) (hn32 : n ≤ 32) :
    if S.length < n then readBits r (n : Int) = .error .err
    else ∃ r', readBits r (n : Int) = .ok (natOfBits (S.take n), r') ∧ Rep r' (S.drop n) ∧ r'.data = r.data := by
  have hn0 : ¬ (n : Int) = 0 := by omega
  have hn33 : ¬ (n : Int) > 32 := by omega
  have hnn : ¬ (n : Int) < 0 := by omega
  have hstate : (S.length < n ∧ (if r.valid < (n : Int) then (do
        let r ← fill r
        if r.valid < (n : Int) then .error .err else pure r) else pure r : R Reader) = .error .err) ∨
      ∃ r1, (if r.valid < (n : Int) then (do
        let r ← fill r
        if r.valid < (n : Int) then .error .err else pure r) else pure r : R Reader) = .ok r1 ∧ Rep r1 S ∧
        (n : Int) ≤ r1.valid ∧ r1.data = r.data := by
    by_cases hlt : r.valid < (n : Int)
    · simp only [hlt, if_true]
      rcases fill_spec r S h (by omega) with ⟨he, hs⟩ | ⟨r', he, hr, _, hfin, hd⟩
      · left
        simp only [he, bind, Except.bind]
        exact ⟨by rw [hs]; simp; omega, trivial⟩
      · simp only [he, bind, Except.bind]
        by_cases hlt2 : r'.valid < (n : Int)
        · left
          simp only [hlt2, if_true]
          refine ⟨?_, trivial⟩
          rcases hfin with h56 | hp
          · omega
          · have := rep_all_shown r' S hr hp
            have := hr.hv
            omega
        · right
          simp only [hlt2, if_false]
          exact ⟨r', rfl, hr, by omega, hd⟩
    · simp only [hlt, if_false]
      exact Or.inr ⟨r, rfl, h, by omega, rfl⟩
  unfold readBits
  simp only [hn0, hn33, if_false]
  rcases hstate with ⟨hs, he⟩ | ⟨r1, he, hr1, hge, hd1⟩
  · simp only [hs, if_true]
    rw [he]; rfl
  · have hlen : ¬ S.length < n := by have := hr1.hlen; have := hr1.hv; omega
    simp only [hlen, if_false]
    rw [he]
    simp only [bind, Except.bind, hnn, if_false, Int.toNat_natCast]
    obtain ⟨hval, hrep⟩ := rep_consume r1 S hr1 n hn1 hge
    refine ⟨_, ?_, hrep, hd1⟩
    rw [hval]
    have hlt : natOfBits (S.take n) < 4294967296 := by
      rw [← hval]
      have := shr_lt r1.cache n hr1.hc (by omega)
      have h32 : (2 : Nat) ^ n ≤ 2 ^ 32 := Nat.pow_le_pow_right (by decide) hn32
      have e : (2 : Nat) ^ 32 = 4294967296 := by decide
      omega
    rw [Nat.mod_eq_of_lt hlt]

/-- a fresh reader on well-stuffed scan data represents the un-stuffed bit stream of the data -/
theorem rep_new (d : List Nat) (hd : WellStuffed d) : Rep (new d) (destuff d false) := by
  obtain ⟨hf1, hf2⟩ := findFFfrom_spec d 0 (Nat.zero_le _)
  have han : an (new d) = 0 := by unfold an aff new; simp
  have haff : aff (new d) = false := by unfold aff new; simp
  refine ⟨by show (0 : Nat) < M64; decide, by show (0 : Int) ≤ 0; decide, ?_, ?_, Nat.zero_le _, ?_, ?_, hf2, hf1, hd⟩
  · rw [han]; show (0 : Int).toNat + 0 ≤ 64; decide
  · rw [han]
    intro q hq
    show (0 : Nat).testBit q = (decide (63 - q < (0 : Int).toNat + 0) && _)
    rw [Nat.zero_testBit]
    have : ¬ 63 - q < (0 : Int).toNat + 0 := by simp
    rw [decide_eq_false this, Bool.false_and]
  · rw [han, haff]; rfl
  · rw [han]; show (0 : Int).toNat + 0 ≤ _; simp

end GolombReader
