import GdcVerif.Lemmas.RleEnc
import GdcVerif.Spec.PackBits
/-! Both PackBits readers (`Rle.decodeLoop`, `AnnexG.unpack`) invert `Enc`. -/
namespace Rle

theorem writeStrided_size (buf : Array Byte) (pos stride : Nat) (l : List Byte) :
    (writeStrided buf pos stride l).size = buf.size := by
  induction l generalizing buf pos with
  | nil => rfl
  | cons b bs ih => simp [writeStrided, ih]

theorem writeStrided_append (buf : Array Byte) (pos stride : Nat) (l1 l2 : List Byte) :
    writeStrided buf pos stride (l1 ++ l2) =
      writeStrided (writeStrided buf pos stride l1) (pos + l1.length * stride) stride l2 := by
  induction l1 generalizing buf pos with
  | nil => simp [writeStrided]
  | cons b bs ih =>
    simp only [List.cons_append, writeStrided, List.length_cons, ih]
    congr 1
    rw [Nat.add_mul]; omega

theorem decodeLoop_enc {out d : List Byte} (h : Enc out d) :
    ∀ (stride : Nat) (buf : Array Byte) (pos : Nat) (pad : List Byte), pad.length ≤ 1 →
      1 ≤ d.length → pos + (d.length - 1) * stride < buf.size →
      decodeLoop stride buf pos (out ++ pad) = .ok (writeStrided buf pos stride d) := by
  induction h with
  | nil => intro _ _ _ _ _ h; simp at h
  | lit l out d hl1 hl2 henc ih =>
    intro stride buf pos pad hpad _ hb
    have hlen : (l ++ d).length - 1 = (l.length - 1) + d.length := by simp; omega
    rw [hlen, Nat.add_mul] at hb
    have hpos : ¬ pos ≥ buf.size := by omega
    have hc : l.length - 1 < 128 := by omega
    have hc1 : l.length - 1 + 1 = l.length := by omega
    rw [List.cons_append, decodeLoop]
    simp only [hpos, hc, ↓reduceIte, hc1]
    have h1 : ¬ ((l ++ out ++ pad).length < l.length) := by simp
    have h2 : ¬ (pos + (l.length - 1) * stride ≥ buf.size) := by omega
    simp only [h1, h2, ↓reduceIte]
    have ht : (l ++ out ++ pad).take l.length = l := by simp [List.append_assoc]
    have hd : (l ++ out ++ pad).drop l.length = out ++ pad := by simp [List.append_assoc]
    rw [ht, hd, writeStrided_append]
    rcases henc.shape with ⟨ho, hd0⟩ | ⟨ho, hd1⟩
    · subst ho; subst hd0
      simp [hpad, writeStrided]
    · have h3 : ¬ ((out ++ pad).length ≤ 1) := by simp; omega
      simp only [h3, ↓reduceIte]
      apply ih _ _ _ _ hpad hd1
      rw [writeStrided_size]
      have : l.length * stride = (l.length - 1) * stride + stride := by
        conv => lhs; rw [← hc1, Nat.add_mul, Nat.one_mul]
      have : d.length * stride = (d.length - 1) * stride + stride := by
        have : d.length = d.length - 1 + 1 := by omega
        conv => lhs; rw [this, Nat.add_mul, Nat.one_mul]
      omega
  | run n b out d hn1 hn2 henc ih =>
    intro stride buf pos pad hpad _ hb
    have hlen : (List.replicate n b ++ d).length - 1 = (n - 1) + d.length := by simp; omega
    rw [hlen, Nat.add_mul] at hb
    have hpos : ¬ pos ≥ buf.size := by omega
    have hc : ¬ (257 - n < 128) := by omega
    have hc' : 257 - n ≥ 129 := by omega
    have hc1 : 257 - (257 - n) = n := by omega
    rw [List.cons_append, List.cons_append, decodeLoop]
    simp only [hpos, hc, hc', ↓reduceIte, hc1]
    have h2 : ¬ (pos + (n - 1) * stride ≥ buf.size) := by omega
    simp only [h2, ↓reduceIte]
    rw [writeStrided_append]
    rcases henc.shape with ⟨ho, hd0⟩ | ⟨ho, hd1⟩
    · subst ho; subst hd0
      simp [hpad, writeStrided]
    · have h3 : ¬ ((out ++ pad).length ≤ 1) := by simp; omega
      simp only [h3, ↓reduceIte, List.length_replicate]
      apply ih _ _ _ _ hpad hd1
      rw [writeStrided_size]
      have : n * stride = (n - 1) * stride + stride := by
        have : n = n - 1 + 1 := by omega
        conv => lhs; rw [this, Nat.add_mul, Nat.one_mul]
      have : d.length * stride = (d.length - 1) * stride + stride := by
        have : d.length = d.length - 1 + 1 := by omega
        conv => lhs; rw [this, Nat.add_mul, Nat.one_mul]
      omega

theorem unpack_enc {out d : List Byte} (h : Enc out d) (pad : List Byte) :
    AnnexG.unpack (out ++ pad) d.length = some d := by
  induction h with
  | nil => rw [AnnexG.unpack.eq_def]; simp
  | lit l out d hl1 hl2 henc ih =>
    have hne : ¬ ((l ++ d).length = 0) := by simp only [List.length_append]; omega
    have hc : l.length - 1 < 128 := by omega
    have hc1 : l.length - 1 + 1 = l.length := by omega
    rw [List.cons_append, AnnexG.unpack.eq_def]
    simp only [hne, hc, ↓reduceIte, hc1]
    have h1 : ¬ ((l ++ out ++ pad).length < l.length ∨ (l ++ d).length < l.length) := by simp
    have ht : (l ++ out ++ pad).take l.length = l := by simp [List.append_assoc]
    have hd : (l ++ out ++ pad).drop l.length = out ++ pad := by simp [List.append_assoc]
    have hn : (l ++ d).length - l.length = d.length := by simp
    simp only [h1, ↓reduceIte, ht, hd, hn, ih, Option.map_some]
  | run n b out d hn1 hn2 henc ih =>
    have hne : ¬ ((List.replicate n b ++ d).length = 0) := by
      simp only [List.length_append, List.length_replicate]; omega
    have hc : ¬ (257 - n < 128) := by omega
    have hc' : ¬ (257 - n = 128) := by omega
    have hc1 : 257 - (257 - n) = n := by omega
    rw [List.cons_append, List.cons_append, AnnexG.unpack.eq_def]
    simp only [hne, hc, hc', ↓reduceIte, hc1]
    have h1 : ¬ ((List.replicate n b ++ d).length < n) := by simp
    have hn : (List.replicate n b ++ d).length - n = d.length := by simp
    simp only [h1, ↓reduceIte, hn, ih, Option.map_some]

end Rle
