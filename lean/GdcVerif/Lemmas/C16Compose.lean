import GdcVerif.Lemmas.JpegFrames
import GdcVerif.Lemmas.JllScan
import GdcVerif.Lemmas.Golomb
namespace JpegC
open StrictJpeg

theorem stuffOk_eq_noMarker : ∀ s : List Nat, JLL.StuffOk s = NoMarker s := by
  intro s
  induction s using NoMarker.induct with
  | case1 => rfl
  | case2 => rfl
  | case3 b2 rest ih => simp [JLL.StuffOk, NoMarker, ih]
  | case4 b rest hb ih =>
    cases rest with
    | nil => simp [JLL.StuffOk, NoMarker, hb]
    | cons c r =>
      rw [JLL.StuffOk.eq_def, NoMarker.eq_def]
      simp only [hb, if_false, ih]

theorem drain_small (bits n : Nat) (h : n < 8) : JLL.drain bits n = ([], n) := by
  rw [JLL.drain]; simp; omega

theorem drain_big_ne (bits n : Nat) (h : 8 ≤ n) : (JLL.drain bits n).1 ≠ [] := by
  rw [JLL.drain]
  simp only [ge_iff_le, h, dite_true]
  unfold JLL.stuff
  split <;> simp

/-- a write sequence that carries at least one bit (or starts with buffered bits) emits at least one byte -/
theorem writeAll_ne_nil : ∀ (ws : List (Nat × Nat)) (e : JLL.HuffEnc), (1 ≤ e.nBits ∨ ∃ w ∈ ws, 1 ≤ w.2) →
    JLL.writeAll e ws ≠ [] := by
  intro ws
  induction ws with
  | nil =>
    intro e h
    rcases h with h | ⟨w, hw, _⟩
    · simp only [JLL.writeAll, JLL.HuffEnc.flush]
      have : e.nBits > 0 := by omega
      simp only [this, if_true]
      unfold JLL.stuff
      split <;> simp
    · simp at hw
  | cons x r ih =>
    intro e h
    obtain ⟨v, n⟩ := x
    simp only [JLL.writeAll]
    by_cases hn : n = 0
    · subst hn
      simp only [JLL.HuffEnc.writeBits, if_true, List.nil_append]
      apply ih
      rcases h with h | ⟨w, hw, hw1⟩
      · exact Or.inl h
      · simp only [List.mem_cons] at hw
        rcases hw with rfl | hw
        · simp at hw1
        · exact Or.inr ⟨w, hw, hw1⟩
    · simp only [JLL.HuffEnc.writeBits, hn, if_false]
      by_cases hb : 8 ≤ e.nBits + n
      · intro hcontra
        have := drain_big_ne (JLL.u32 (JLL.u32 (e.bits <<< n) ||| (v &&& JLL.mask32 n))) (e.nBits + n) hb
        simp only [List.append_eq_nil_iff] at hcontra
        exact this hcontra.1
      · have hs := drain_small (JLL.u32 (JLL.u32 (e.bits <<< n) ||| (v &&& JLL.mask32 n))) (e.nBits + n) (by omega)
        rw [hs]
        simp only [List.nil_append]
        apply ih
        left
        show 1 ≤ e.nBits + n
        omega

/-! ## what `.ok` of a header model says about the arguments (the encoders' own guards) -/

theorem losslessHeader_ok_args {w h p pred : Int} {c : Nat} {t : HuffTable} {hdr : List Nat}
    (hok : losslessHeader w h c p pred t = .ok hdr) :
    (0 < w ∧ w ≤ 65535) ∧ (0 < h ∧ h ≤ 65535) ∧ (c = 1 ∨ c = 3) ∧ (2 ≤ p ∧ p ≤ 16) ∧ (0 ≤ pred ∧ pred ≤ 7) := by
  unfold losslessHeader at hok
  split at hok; · cases hok
  split at hok; · cases hok
  split at hok; · cases hok
  split at hok; · cases hok
  omega

theorem jpeglsHeader_ok_args {w h p near : Int} {c : Nat} {hdr : List Nat}
    (hok : jpeglsHeader w h c p near = .ok hdr) :
    (0 < w ∧ w ≤ 65535) ∧ (0 < h ∧ h ≤ 65535) ∧ (c = 1 ∨ c = 3) ∧ (2 ≤ p ∧ p ≤ 16) ∧ (0 ≤ near ∧ near ≤ 255) := by
  unfold jpeglsHeader at hok
  split at hok; · cases hok
  split at hok; · cases hok
  split at hok; · cases hok
  split at hok; · cases hok
  omega

theorem baselineHeader_ok_args {w h : Int} {c : Nat} {t : BaseTables} {hdr : List Nat}
    (hok : baselineHeader w h c t = .ok hdr) :
    (0 < w ∧ w ≤ 65535) ∧ (0 < h ∧ h ≤ 65535) ∧ (c = 1 ∨ c = 3) := by
  unfold baselineHeader at hok
  split at hok; · cases hok
  split at hok; · cases hok
  omega

theorem ext12Header_ok_args {w h : Int} {q : List Int} {dc ac : HuffTable} {hdr : List Nat}
    (hok : ext12Header w h q dc ac = .ok hdr) : (0 < w ∧ w ≤ 65535) ∧ (0 < h ∧ h ≤ 65535) := by
  unfold ext12Header at hok
  split at hok; · cases hok
  omega

/-- admissible Huffman write lists: every width ≤ 16 (what `WriteBits` is called with) and at least one bit -/
def WritesOk (ws : List (Nat × Nat)) : Prop := (∀ w ∈ ws, w.2 ≤ 16) ∧ ∃ w ∈ ws, 1 ≤ w.2

/-- C02's stuffing invariant in C16's vocabulary: the bytes of ANY admissible write list followed by Flush
    are a non-empty scan without an unescaped marker -/
theorem huffman_scan_ok (ws : List (Nat × Nat)) (h : WritesOk ws) :
    NoMarker (JLL.writeAll {} ws) = true ∧ JLL.writeAll {} ws ≠ [] :=
  ⟨by rw [← stuffOk_eq_noMarker]; exact JLL.writeAll_stuffOk ws h.1, writeAll_ne_nil ws {} (Or.inr h.2)⟩

/-! ## frames whose scan is ANY admissible sequence of `HuffmanEncoder.WriteBits` calls + `Flush` -/

theorem withScan_ok {hdrO : Outcome (List Nat)} {hdr scan bytes : List Nat} (hok : hdrO = .ok hdr)
    (h : withScan hdrO scan = .ok bytes) : bytes = hdr ++ scan ++ [0xFF, 0xD9] := by
  rw [hok] at h
  simp only [withScan, Outcome.map, mEOI] at h
  exact (Outcome.ok.inj h).symm

/-- COMPOSED (C02 ∘ C16), baseline and 8-bit extended: NO hypothesis on the scan bytes — they are whatever
    `standard.HuffmanEncoder` emits for any sequence of writes (widths ≤ 16, at least one bit) and `Flush`. -/
theorem baseline_stream_any_writes (w h : Int) (c : Nat) (t : BaseTables) (ws : List (Nat × Nat)) (hdr : List Nat)
    (hok : baselineHeader w h c t = .ok hdr) (ht : BaseOk c t) (hws : WritesOk ws) :
    ∃ r, StrictJpeg.parse (hdr ++ JLL.writeAll {} ws ++ [0xFF, 0xD9]) = some r ∧
      r.frame.sof = 0xC0 ∧ r.frame.p = 8 ∧ r.frame.y = h.toNat ∧ r.frame.x = w.toNat ∧ r.frame.comps.length = c ∧
      (∀ k ∈ r.frame.comps, k.h = 1 ∧ k.v = 1) ∧
      r.scan.ss = 0 ∧ r.scan.se = 63 ∧ r.scan.ah = 0 ∧ r.scan.al = 0 ∧
      r.hdrEnd = hdr.length ∧ r.scanEnd = hdr.length + (JLL.writeAll {} ws).length ∧
      (hdr ++ JLL.writeAll {} ws ++ [0xFF, 0xD9]).drop r.scanEnd = [0xFF, 0xD9] := by
  obtain ⟨hw, hh, hc⟩ := baselineHeader_ok_args hok
  obtain ⟨hnm, hne⟩ := huffman_scan_ok ws hws
  obtain ⟨bytes, r, h1, h2, a1, a2, a3, a4, a5, a6, a7, a8, a9, a10, _, _, h7, h8, h9⟩ :=
    baseline_frame w h c t (JLL.writeAll {} ws) hw hh hc ht hnm hne
  have hb := withScan_ok hok h1
  subst hb
  simp only [List.length_append, List.length_cons, List.length_nil] at h7
  exact ⟨r, h2, a1, a2, a3, a4, a5, a6, a7, a8, a9, a10, by omega, by omega, h9⟩

/-- COMPOSED (C02 ∘ C16), 12-bit extended sequential -/
theorem ext12_stream_any_writes (w h : Int) (q : List Int) (dc ac : HuffTable) (ws : List (Nat × Nat)) (hdr : List Nat)
    (hok : ext12Header w h q dc ac = .ok hdr) (hq : QOk q) (hdc : TableOk dc) (hac : TableOk ac) (hws : WritesOk ws) :
    ∃ r, StrictJpeg.parse (hdr ++ JLL.writeAll {} ws ++ [0xFF, 0xD9]) = some r ∧
      r.frame = { sof := 0xC1, p := 12, y := h.toNat, x := w.toNat, comps := [⟨1, 1, 1, 0⟩] } ∧
      r.scan = { sels := [⟨1, 0, 0⟩], ss := 0, se := 63, ah := 0, al := 0 } ∧
      r.hdrEnd = hdr.length ∧ r.scanEnd = hdr.length + (JLL.writeAll {} ws).length ∧
      (hdr ++ JLL.writeAll {} ws ++ [0xFF, 0xD9]).drop r.scanEnd = [0xFF, 0xD9] := by
  obtain ⟨hw, hh⟩ := ext12Header_ok_args hok
  obtain ⟨hnm, hne⟩ := huffman_scan_ok ws hws
  obtain ⟨bytes, r, h1, h2, h3, h4, _, _, h7, h8, h9⟩ :=
    ext12_frame w h q dc ac (JLL.writeAll {} ws) hw hh hq hdc hac hnm hne
  have hb := withScan_ok hok h1
  subst hb
  simp only [List.length_append, List.length_cons, List.length_nil] at h7
  exact ⟨r, h2, h3, h4, by omega, by omega, h9⟩

/-- lossless / SV1 with ANY admissible write list (weaker than `lossless_stream_composed`, but free of the
    image model): the container level does not depend on what the predictor loop writes -/
theorem lossless_stream_any_writes (w h p pred : Int) (c : Nat) (t : HuffTable) (ws : List (Nat × Nat)) (hdr : List Nat)
    (hok : losslessHeader w h c p pred t = .ok hdr) (hpred : 1 ≤ pred) (ht : TableOk t) (hws : WritesOk ws) :
    ∃ r, StrictJpeg.parse (hdr ++ JLL.writeAll {} ws ++ [0xFF, 0xD9]) = some r ∧
      r.frame = { sof := 0xC3, p := p.toNat, y := h.toNat, x := w.toNat, comps := comps111 c } ∧
      r.scan.ss = pred.toNat ∧ r.scan.se = 0 ∧ r.scan.ah = 0 ∧ r.scan.al = 0 ∧
      r.hdrEnd = hdr.length ∧ r.scanEnd = hdr.length + (JLL.writeAll {} ws).length ∧
      (hdr ++ JLL.writeAll {} ws ++ [0xFF, 0xD9]).drop r.scanEnd = [0xFF, 0xD9] := by
  obtain ⟨hw, hh, hc, hp, hpr⟩ := losslessHeader_ok_args hok
  obtain ⟨hnm, hne⟩ := huffman_scan_ok ws hws
  obtain ⟨bytes, r, h1, h2, h3, h4, _, _, h7, h8, h9⟩ :=
    lossless_frame w h p pred c t (JLL.writeAll {} ws) hw hh hc hp ⟨hpred, hpr.2⟩ ht hnm hne
  have hb := withScan_ok hok h1
  subst hb
  simp only [List.length_append, List.length_cons, List.length_nil] at h7
  exact ⟨r, h2, h3, by simp [h4], by simp [h4], by simp [h4], by simp [h4], by omega, by omega, h9⟩

/-- the `standard.HuffmanTable` the lossless encoders hand to `writeDHT`, from JLL's (bits, values) -/
def tableOf (bits : List Nat) (values : Array Nat) : HuffTable :=
  { bits := bits.map Int.ofNat, values := values.toList }

theorem map_byteOf_ofNat (bits : List Nat) (h : ∀ b ∈ bits, b ≤ 255) : (bits.map Int.ofNat).map byteOf = bits := by
  induction bits with
  | nil => rfl
  | cons b r ih =>
    have hb := h b (by simp)
    have e := ih (fun x hx => h x (by simp [hx]))
    simp only [List.map_cons, Int.ofNat_eq_natCast, byteOf_natCast] at e ⊢
    rw [e]
    congr 1
    omega

/-- COMPOSED (C02 ∘ C16), JPEG Lossless and SV1: header model + the scan model of C02, NO hypothesis on the scan.
    The strict reader accepts the whole frame, returns the arguments, delimits exactly the bytes `encodeScan`
    produced, and the library decoder model maps those bytes back to the source planes. -/
theorem lossless_stream_composed (sv1 : Bool) (P predictor w h nc : Nat) (bits : List Nat) (values : Array Nat)
    (t : JLL.Table) (s : JLL.Planes) (hdr : List Nat)
    (hP : 2 ≤ P ∧ P ≤ 16)
    (hv : JLL.ValidTable bits values = true) (ht : JLL.Table.build bits values = .ok t)
    (hcat : ∀ k ∈ JLL.emittedCats sv1 P predictor w h nc s, k ∈ values.toList)
    (hsz : JLL.Sized w h nc s) (hrng : JLL.InRange P s)
    (htab : TableOk (tableOf bits values))
    (hpred : 1 ≤ (if sv1 then 1 else predictor))
    (hok : losslessHeader w h nc P ((if sv1 then 1 else predictor : Nat) : Int) (tableOf bits values) = .ok hdr) :
    ∃ scan r, JLL.encodeScan sv1 P predictor w h nc (JLL.buildHuffmanCodes bits values) s = .ok scan ∧
      StrictJpeg.parse (hdr ++ scan ++ [0xFF, 0xD9]) = some r ∧
      r.frame = { sof := 0xC3, p := P, y := h, x := w, comps := comps111 nc } ∧
      r.scan.ss = (if sv1 then 1 else predictor) ∧ r.scan.se = 0 ∧ r.scan.ah = 0 ∧ r.scan.al = 0 ∧
      r.dht = [{ tc := 0, th := 0, bits := bits, vals := values.toList }] ∧
      (hdr ++ scan ++ [0xFF, 0xD9]).drop r.scanEnd = [0xFF, 0xD9] ∧
      ((hdr ++ scan ++ [0xFF, 0xD9]).drop r.hdrEnd).take (r.scanEnd - r.hdrEnd) = scan ∧
      JLL.decodeScan sv1 P predictor w h nc t scan = .ok s := by
  obtain ⟨hw, hh, hc, hp, hpr⟩ := losslessHeader_ok_args hok
  obtain ⟨scan, henc, hscan, hst, hdec⟩ :=
    JLL.lossless_scan_roundtrip' sv1 P predictor w h nc bits values t s hP hv ht hcat hsz hrng
  -- the scan is a non-empty admissible write list
  have hne : scan ≠ [] := by
    rw [hscan]
    apply writeAll_ne_nil
    right
    have hpos : (0, 0, 0) ∈ JLL.scanOrder w h nc := by
      rw [JLL.mem_scanOrder]; simp; omega
    have hx : JLL.symOf sv1 P predictor w s (0, 0, 0) ∈ JLL.scanSyms sv1 P predictor w h nc s := by
      simp only [JLL.scanSyms, List.mem_map]; exact ⟨_, hpos, rfl⟩
    have hm : (JLL.symOf sv1 P predictor w s (0, 0, 0)).1 ∈ values.toList := by
      apply hcat
      simp only [JLL.emittedCats, List.mem_map]
      exact ⟨_, hx, rfl⟩
    obtain ⟨c, len, hcl, h1, _, _⟩ := JLL.codes_wf bits values hv _ hm
    refine ⟨(c, len), ?_, h1⟩
    simp only [JLL.symWrites, List.mem_flatMap]
    refine ⟨_, hx, ?_⟩
    simp [JLL.symWrite, hcl]
  have hnm : NoMarker scan = true := by rw [← stuffOk_eq_noMarker]; exact hst
  obtain ⟨bytes, r, h1, h2, h3, h4, _, h6, h7, h8, h9⟩ :=
    lossless_frame w h P ((if sv1 then 1 else predictor : Nat) : Int) nc (tableOf bits values) scan
      hw hh hc hp ⟨by omega, hpr.2⟩ htab hnm hne
  have hb : bytes = hdr ++ scan ++ [0xFF, 0xD9] := by
    rw [hok] at h1
    simp only [withScan, Outcome.map, mEOI] at h1
    exact (Outcome.ok.inj h1).symm
  subst hb
  have hbits : (tableOf bits values).bits.map byteOf = bits :=
    map_byteOf_ofNat bits (fun b hb => by
      have := htab.range (Int.ofNat b) (by simp only [tableOf, List.mem_map]; exact ⟨b, hb, rfl⟩)
      simp only [Int.ofNat_eq_natCast] at this; omega)
  refine ⟨scan, r, henc, h2, ?_, ?_, ?_, ?_, ?_, ?_, h9, ?_, hdec⟩
  · simpa using h3
  · simp [h4]
  · simp [h4]
  · simp [h4]
  · simp [h4]
  · rw [h6, hbits]; rfl
  · have hl : r.hdrEnd = hdr.length := by
      have := congrArg List.length (rfl : hdr ++ scan ++ [0xFF, 0xD9] = hdr ++ scan ++ [0xFF, 0xD9])
      simp only [List.length_append, List.length_cons, List.length_nil] at h7
      omega
    have hd : r.scanEnd - hdr.length = scan.length := by omega
    rw [hl, List.append_assoc, List.drop_left, hd, List.take_left]

/-! ## JPEG-LS: scan = ANY sequence of `GolombWriter.WriteBits` calls + `Flush` (C03's writer model) -/

theorem golombStuffed_pairStuffed : ∀ (l : List Nat), Golomb.Stuffed l → PairStuffed l
  | [], _ => trivial
  | [_], _ => trivial
  | a :: b :: rest, h => ⟨h.1, golombStuffed_pairStuffed (b :: rest) h.2⟩

/-- what C03 still has to supply about the end of the scan (its `golomb_scan_end`, proved in wp-jpegls's tree from the
    `freeBitCount` bookkeeping of `Flush`, not yet in this tree): the flushed scan does not end on 0xFF and is not empty -/
def GolombScanEnd_pending_C03 (ws : List (Nat × Int)) : Prop :=
  (Golomb.finish (Golomb.writeAll Golomb.Writer.new ws)).out.getLast? ≠ some 255 ∧
  (Golomb.finish (Golomb.writeAll Golomb.Writer.new ws)).out ≠ []

/-- COMPOSED (C03 ∘ C16), JPEG-LS lossless and near-lossless: the stuffing part of the scan predicate is C03's
    `golomb_writer_stuffed` (proved, any write list); the only remaining input is `GolombScanEnd_pending_C03`. -/
theorem jpegls_stream_golomb_writes (w h p near : Int) (c : Nat) (ws : List (Nat × Int)) (hdr : List Nat)
    (hok : jpeglsHeader w h c p near = .ok hdr)
    (hnear : near.toNat ≤ min 255 ((2 ^ p.toNat - 1) / 2))
    (hv : ∀ q ∈ ws, q.1 < Golomb.M32) (hend : GolombScanEnd_pending_C03 ws) :
    ∃ r, StrictJpeg.parse (hdr ++ (Golomb.finish (Golomb.writeAll Golomb.Writer.new ws)).out ++ [0xFF, 0xD9]) = some r ∧
      r.frame = { sof := 0xF7, p := p.toNat, y := h.toNat, x := w.toNat, comps := comps111 c } ∧
      r.scan.ss = near.toNat ∧ r.scan.se = (if c = 1 then 0 else 2) ∧ r.scan.ah = 0 ∧ r.scan.al = 0 ∧
      r.hdrEnd = hdr.length ∧
      (hdr ++ (Golomb.finish (Golomb.writeAll Golomb.Writer.new ws)).out ++ [0xFF, 0xD9]).drop r.scanEnd = [0xFF, 0xD9] := by
  obtain ⟨hw, hh, hc, hp, hn⟩ := jpeglsHeader_ok_args hok
  have hst := Golomb.inv_finish _ (Golomb.inv_writeAll ws _ Golomb.inv_new hv)
  have hnm := noMarkerLS_of_pairStuffed _ (golombStuffed_pairStuffed _ hst.2.1) hst.2.2.2 hend.1
  obtain ⟨bytes, r, h1, h2, h3, h4, _, _, h7, h8, h9⟩ :=
    jpegls_frame w h p near c _ hw hh hc hp ⟨hn.1, hnear⟩ hnm hend.2
  have hb := withScan_ok hok h1
  subst hb
  simp only [List.length_append, List.length_cons, List.length_nil] at h7
  exact ⟨r, h2, h3, by simp [h4], by simp [h4], by simp [h4], by simp [h4], by omega, h9⟩

end JpegC
