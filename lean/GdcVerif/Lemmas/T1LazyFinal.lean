import GdcVerif.Lemmas.T1LazyA
/-!
  C20 — layered T1 round trip for the 32 code-block styles with LAZY.
-/
namespace T1
open Gen

/-- `normalizePassRates` keeps the rate of every terminated pass -/
theorem normalize_anchor (data : List Nat) : ∀ (recs : List PassRec) (lo : Nat), RecsOk lo recs →
    (∀ r, (r, true) ∈ recs → r ≤ data.length ∧ (0 < r → data.getD (r - 1) 0 ≠ 0xFF)) →
    lo ≤ data.length → (0 < lo → data.getD (lo - 1) 0 ≠ 0xFF) →
    ∃ (out : List Nat) (L : Nat), (recs.map (·.1)).foldr (fun rate (acc : List Nat × Nat) =>
        let lastRate := acc.2
        let (rate, lastRate) := if rate > lastRate then (lastRate, lastRate) else (rate, rate)
        let (rate, lastRate) :=
          if rate > 0 ∧ rate ≤ data.length ∧ data.getD (rate - 1) 0 = 0xFF then (rate - 1, rate - 1) else (rate, lastRate)
        (rate :: acc.1, lastRate)) (([] : List Nat), data.length) = (out, L) ∧
      out.length = recs.length ∧ lo ≤ L ∧ L ≤ data.length ∧ ∀ (k r : Nat), recs[k]? = some (r, true) → out[k]? = some r := by
  intro recs
  induction recs with
  | nil => intro lo _ _ hlo _; exact ⟨[], data.length, rfl, rfl, hlo, Nat.le_refl _, fun k r hk => absurd hk (by simp)⟩
  | cons x rest ih =>
    intro lo hok hall hlo hff
    obtain ⟨r, t⟩ := x
    obtain ⟨hlr, hok'⟩ := hok
    cases t with
    | true =>
      simp only [if_true] at hok'
      have hr := hall r List.mem_cons_self
      obtain ⟨out', L', he, hl', hlo', hL', hidx'⟩ := ih r hok' (fun r' hr' => hall r' (List.mem_cons_of_mem _ hr')) hr.1 hr.2
      refine ⟨r :: out', r, ?_, by simp only [List.length_cons]; omega, hlr, hr.1, ?_⟩
      · rw [List.map_cons, List.foldr_cons, he]
        simp only []
        rw [if_neg (show ¬ r > L' by omega)]
        simp only []
        rw [if_neg (show ¬(r > 0 ∧ r ≤ data.length ∧ data.getD (r - 1) 0 = 0xFF) from fun hh => hr.2 hh.1 hh.2.2)]
      · intro k r' hk
        cases k with
        | zero =>
          rw [List.getElem?_cons_zero] at hk ⊢
          injection hk with hk; injection hk with hk _
          rw [hk]
        | succ k =>
          rw [List.getElem?_cons_succ] at hk ⊢
          exact hidx' k r' hk
    | false =>
      simp only [Bool.false_eq_true, if_false] at hok'
      obtain ⟨out', L', he, hl', hlo', hL', hidx'⟩ := ih lo hok' (fun r' hr' => hall r' (List.mem_cons_of_mem _ hr')) hlo hff
      rw [List.map_cons, List.foldr_cons, he]
      simp only []
      have key : ∃ m, (if r > L' then (L', L') else (r, r)) = (m, m) ∧ lo ≤ m ∧ m ≤ L' := by
        by_cases hgt : r > L'
        · exact ⟨L', by rw [if_pos hgt], hlo', Nat.le_refl _⟩
        · exact ⟨r, by rw [if_neg hgt], hlr, by omega⟩
      obtain ⟨m, hm, hm1, hm2⟩ := key
      rw [hm]
      simp only []
      by_cases hF : m > 0 ∧ m ≤ data.length ∧ data.getD (m - 1) 0 = 0xFF
      · rw [if_pos hF]
        have : lo < m := by
          rcases Nat.lt_or_ge lo m with h' | h'
          · exact h'
          · exfalso
            have hmm : m = lo := by omega
            rw [hmm] at hF
            exact hff hF.1 hF.2.2
        refine ⟨(m - 1) :: out', m - 1, rfl, by simp only [List.length_cons]; omega, by omega, by omega, ?_⟩
        intro k r' hk
        cases k with
        | zero =>
          rw [List.getElem?_cons_zero] at hk
          injection hk with hk; injection hk with _ hk
          exact absurd hk (by decide)
        | succ k =>
          rw [List.getElem?_cons_succ] at hk ⊢
          exact hidx' k r' hk
      · rw [if_neg hF]
        refine ⟨m :: out', m, rfl, by simp only [List.length_cons]; omega, hm1, by omega, ?_⟩
        intro k r' hk
        cases k with
        | zero =>
          rw [List.getElem?_cons_zero] at hk
          injection hk with hk; injection hk with _ hk
          exact absurd hk (by decide)
        | succ k =>
          rw [List.getElem?_cons_succ] at hk ⊢
          exact hidx' k r' hk

theorem normalizeRates_anchor (data : List Nat) (recs : List PassRec) (hok : RecsOk 0 recs)
    (hall : ∀ r, (r, true) ∈ recs → r ≤ data.length ∧ (0 < r → data.getD (r - 1) 0 ≠ 0xFF)) :
    (normalizeRates (recs.map (·.1)) data).length = recs.length ∧
      ∀ (k r : Nat), recs[k]? = some (r, true) → (normalizeRates (recs.map (·.1)) data)[k]? = some r := by
  obtain ⟨out, L, he, hl, _, _, hidx⟩ := normalize_anchor data recs 0 hok hall (Nat.zero_le _) (fun hh => absurd hh (by omega))
  unfold normalizeRates
  rw [he]
  exact ⟨hl, hidx⟩

theorem recsOk_prefix (A B : List PassRec) (hA : ∀ x ∈ A, x.2 = false) (hB : RecsOk 0 B) : RecsOk 0 (A ++ B) := by
  induction A with
  | nil => exact hB
  | cons x A ih =>
    obtain ⟨r, t⟩ := x
    have ht : t = false := hA (r, t) List.mem_cons_self
    subst ht
    refine ⟨Nat.zero_le _, ?_⟩
    simp only [Bool.false_eq_true, if_false]
    exact ih (fun y hy => hA y (List.mem_cons_of_mem _ hy))

/-- the start state of the block encoder -/
def es0 (w h : Nat) : EncSt :=
  { flags := Array.replicate ((w + 2) * (h + 2)) 0,
    mq := { Mqc.Enc.new NUMCONTEXTS with ctx := ctx3 (Mqc.Enc.new NUMCONTEXTS).ctx } }

/-- what the two pass loops deliver for a whole block, and how `EncodeLayered` / `DecodeLayeredWithMode` use it -/
def LoopsOk (w h orient style mb : Nat) (V : Array Int) (u : Bool) : Prop :=
  ∃ esF recs, encLoopL w h orient style V mb (3 * mb + 1) (3 * mb + 1 + 1) (es0 w h) (mb : Int) 0 2 false [] = some (esF, true, recs) ∧
    TermOk esF.mq ∧ recs.length = 3 * mb + 1 ∧ (styPterm style = false → 2 ≤ esF.mq.bp) ∧ RecsOk 0 recs ∧
    (∀ r, (r, true) ∈ recs → r + 1 ≤ esF.mq.bp) ∧
    (∀ (bytesF : List Nat), Agree bytesF esF.mq →
      (∀ r, (r, true) ∈ recs → 0 < r → bytesF.getD (r - 1) 0 ≠ 0xFF) ∧
      (∀ (PL : List Nat), (∀ (k r : Nat), recs[k]? = some (r, true) → PL[k]? = some r) → PL.length = recs.length →
        ∀ (s : LDec), s.newSegment = true → s.prevEnd = 0 → PInv w h V (fun _ _ => True) mb 0 2 (es0 w h) s.st →
        ∃ dsF, decLoopL w h orient style u (styReset style) (mb : Int) PL bytesF (3 * mb + 1 + 1) s (mb : Int) 0 2 = .ok dsF ∧
          dsF.data.size = (w + 2) * (h + 2) ∧ ∀ j, InB w h j → gi dsF.data j = gi V j))

theorem layered_finish (w h orient style mb : Nat) (coeffs : List Int) (hlen : coeffs.length = w * h)
    (hmb : findMaxBitplane (padBlock w h coeffs) = some mb)
    (hseg : ¬(¬ styTermall style = true ∧ ¬ styLazy style = true))
    (hloop : LoopsOk w h orient style mb (padBlock w h coeffs) (styTermall style)) :
    ∃ rates bytes, encodeLayered w h orient style coeffs (3 * mb + 1) = .ok (rates, (mb : Int), bytes) ∧
      (styPterm style = false → bytes ≠ []) ∧
      (bytes ≠ [] → decodeLayered w h orient style (mb : Int) rates bytes = .ok coeffs) := by
  obtain ⟨hVsz, hVget⟩ := padBlock_get w h coeffs
  have hz := maxbp_zero _ mb hmb
  obtain ⟨h0, n0, s0⟩ := Mqc.new_ok NUMCONTEXTS
  have hi0 := initCtx_eq (Mqc.Enc.new NUMCONTEXTS) s0
  obtain ⟨esF, recs, henc, htermF, hlenR, hbpF2, hrok, hrt, hdec⟩ := hloop
  obtain ⟨hgl, hgg⟩ := getBuffer_get esF.mq htermF.sz htermF.bp1
  have hag : Agree (Mqc.getBuffer esF.mq) esF.mq := ⟨fun k hk => hgg k (by omega), by rw [hgl]; omega⟩
  obtain ⟨hnff, hdecode⟩ := hdec _ hag
  obtain ⟨hnl, hnidx⟩ := normalizeRates_anchor (Mqc.getBuffer esF.mq) recs hrok
    (fun r hr => ⟨by rw [hgl]; have := hrt r hr; omega, hnff r hr⟩)
  refine ⟨normalizeRates (recs.map (·.1)) (Mqc.getBuffer esF.mq), Mqc.getBuffer esF.mq, ?_, ?_, ?_⟩
  · unfold encodeLayered
    rw [if_neg (by rw [hlen]; exact fun hc => hc rfl)]
    simp only []
    rw [hmb]
    simp only []
    rw [hi0]
    simp only []
    have henc' : encLoopL w h orient style (padBlock w h coeffs) mb (3 * mb + 1) (3 * mb + 1 + 1)
        { flags := Array.replicate ((w + 2) * (h + 2)) 0, mq := { Mqc.Enc.new NUMCONTEXTS with ctx := ctx3 (Mqc.Enc.new NUMCONTEXTS).ctx } }
        (mb : Int) 0 2 false [] = some (esF, true, recs) := henc
    rw [henc']
    simp only [if_true]
  · intro hp hb
    have h0' : (Mqc.getBuffer esF.mq).length = 0 := by rw [hb]; rfl
    rw [hgl] at h0'
    have := hbpF2 hp
    omega
  · intro hne
    have hrep : ∀ j, gi (Array.replicate ((w + 2) * (h + 2)) (0 : Int)) j = 0 := by
      intro j; unfold gi; rw [Array.getElem?_replicate]; split <;> rfl
    have hrepf : ∀ j, sigA (Array.replicate ((w + 2) * (h + 2)) (0 : Nat)) j = false := by
      intro j; unfold sigA gf; rw [Array.getElem?_replicate]; split <;> rfl
    obtain ⟨dsF, hdF, hdsz, hdata⟩ := hdecode (normalizeRates (recs.map (·.1)) (Mqc.getBuffer esF.mq)) hnidx hnl
      { st := { flags := Array.replicate ((w + 2) * (h + 2)) 0, data := Array.replicate ((w + 2) * (h + 2)) 0,
                mq := Mqc.Dec.newRaw [] },
        prevEnd := 0, prevCtx := #[], newSegment := true } rfl rfl
      ⟨fun _ => mb + 1, ⟨rfl, by simp, True.intro, fun j _ =>
          ⟨Or.inr rfl, by show gi (Array.replicate _ 0) j = _; rw [hrep, tr_zero _ _ (hz j)],
           by show sigA (Array.replicate _ 0) j = true ↔ _; rw [hrepf, hz j]; simp⟩⟩,
        fun hh => absurd hh (by decide), fun hh => absurd hh (by decide),
        fun _ => ⟨fun _ => ⟨fun j _ => rfl, fun j _ => hrepf j⟩, fun hh => absurd rfl hh⟩⟩
    unfold decodeLayered
    rw [if_neg (by intro h0; exact hne (List.length_eq_zero_iff.mp h0)), if_neg (by rw [hnl, hlenR]; omega)]
    simp only []
    rw [if_neg hseg]
    try simp only []
    rw [show (normalizeRates (recs.map (·.1)) (Mqc.getBuffer esF.mq)).length + 1 = 3 * mb + 1 + 1 by rw [hnl, hlenR], hdF]
    simp only []
    rw [mapM_get dsF.data _ (by
      intro i hi
      simp only [List.mem_flatMap, List.mem_range, List.mem_map] at hi
      obtain ⟨y, hy, x, hx, rfl⟩ := hi
      rw [hdsz]; exact idx_lt w h x y hx hy)]
    simp only []
    congr 1
    rw [List.map_flatMap]
    rw [← rows_eq w h coeffs hlen]
    apply flatMap_congr'
    intro y hy
    rw [List.map_map]
    apply List.map_congr_left
    intro x hx
    have hy' := List.mem_range.mp hy
    have hx' := List.mem_range.mp hx
    show gi dsF.data (idxOf w x y) = _
    rw [hdata _ ⟨x, y, hx', hy', rfl⟩, hVget x y hx' hy']

theorem es0_ok (w h : Nat) (V : Array Int) (hVsz : V.size = (w + 2) * (h + 2)) :
    EncOk w h V (es0 w h) ∧ StartOk (es0 w h).mq ∧ (es0 w h).mq.ctx = ctx3 (Array.replicate 19 0) ∧ (es0 w h).mq.bp = 0 := by
  obtain ⟨h0, n0, s0⟩ := Mqc.new_ok NUMCONTEXTS
  have hi0 := initCtx_eq (Mqc.Enc.new NUMCONTEXTS) s0
  obtain ⟨e0, he0, hr0, hn0, hsz0⟩ := initCtx_ok
  have hee : e0 = { Mqc.Enc.new NUMCONTEXTS with ctx := ctx3 (Mqc.Enc.new NUMCONTEXTS).ctx } :=
    Option.some.inj (he0.symm.trans hi0)
  subst hee
  exact ⟨⟨by unfold es0; simp, hVsz, hr0, hn0, hsz0⟩, ⟨rfl, rfl, rfl, by show Mqc.rd (#[0] : Array Nat) 0 ≠ 255; decide⟩, rfl, rfl⟩

/-- **layered T1 round trip under LAZY and TERMALL**: every pass is a codeword segment of its own, raw for the
significance and refinement passes below plane `mb - 3` -/
theorem t1_layered_roundtrip_lazyT (w h orient style mb : Nat) (coeffs : List Int) (hlen : coeffs.length = w * h)
    (hbnd : ∀ c ∈ coeffs, c.natAbs < 2147483648) (hmb : findMaxBitplane (padBlock w h coeffs) = some mb)
    (hLz : Go.and (style : Int) J2kT1.CblkStyleLazy ≠ 0) (hT : Go.and (style : Int) J2kT1.CblkStyleTermAll ≠ 0)
    (hTs : styTermall style = true) :
    ∃ rates bytes, encodeLayered w h orient style coeffs (3 * mb + 1) = .ok (rates, (mb : Int), bytes) ∧
      (styPterm style = false → bytes ≠ []) ∧
      (bytes ≠ [] → decodeLayered w h orient style (mb : Int) rates bytes = .ok coeffs) := by
  obtain ⟨hVsz, _⟩ := padBlock_get w h coeffs
  have hVb := padBlock_bound w h coeffs hbnd
  obtain ⟨hs0, hst0, hctx0, hbp0⟩ := es0_ok w h (padBlock w h coeffs) hVsz
  apply layered_finish w h orient style mb coeffs hlen hmb (fun hh => absurd hTs hh.1)
  have hin0 : EncOkT w h (padBlock w h coeffs) (es0 w h) false :=
    ⟨hs0.fsz, hVsz, hs0.nctx, by simp only [Bool.false_eq_true, if_false]; exact ⟨hs0.reg, hs0.norm⟩⟩
  obtain ⟨esF, recs, henc, htermF, hlenR, hbpF, hbpF2, hrok, hrt, hdec⟩ :=
    lloop_lock w h (padBlock w h coeffs) hVb orient style mb (3 * mb + 1) hLz (Or.inl ⟨hT, hTs⟩) (3 * mb + 1) (3 * mb + 1 + 1)
      (es0 w h) false mb 0 2 [] (by omega) hin0 hst0 (fun _ => rfl) (fun _ => rfl)
      (fun hh => absurd hh hT) (by omega) (by omega) (by omega)
  have hpe0 : (restartIf false (es0 w h)).mq.bp = 0 := rfl
  rw [hpe0] at hbpF hbpF2 hrok
  refine ⟨esF, recs, by rw [henc]; rfl, htermF, by omega, fun hp => hbpF2 hp rfl, hrok, hrt, ?_⟩
  intro bytesF hag
  obtain ⟨_, hnff, hdecode⟩ := hdec bytesF hag
  refine ⟨hnff, ?_⟩
  intro PL hPL hPLl s hns hpe hP
  rw [hTs]
  rw [hTs] at hdecode
  exact hdecode PL (by intro k r hk; rw [Nat.zero_add]; exact hPL k r hk) (by omega) s hns (by rw [hpe, hpe0])
    ⟨fun _ => hctx0, fun hh => absurd (Or.inl rfl) hh⟩ hP

/-- **layered T1 round trip under LAZY without TERMALL**: the first codeword segment runs down to the cleanup pass of
plane `mb - 3`; below, every plane has a raw segment (significance + refinement) and an MQ segment (cleanup) -/
theorem t1_layered_roundtrip_lazyN (w h orient style mb : Nat) (coeffs : List Int) (hlen : coeffs.length = w * h)
    (hbnd : ∀ c ∈ coeffs, c.natAbs < 2147483648) (hmb : findMaxBitplane (padBlock w h coeffs) = some mb)
    (hLz : Go.and (style : Int) J2kT1.CblkStyleLazy ≠ 0) (hT0 : Go.and (style : Int) J2kT1.CblkStyleTermAll = 0)
    (hTs : styTermall style = false) (hLs : styLazy style = true) :
    ∃ rates bytes, encodeLayered w h orient style coeffs (3 * mb + 1) = .ok (rates, (mb : Int), bytes) ∧
      (styPterm style = false → bytes ≠ []) ∧
      (bytes ≠ [] → decodeLayered w h orient style (mb : Int) rates bytes = .ok coeffs) := by
  obtain ⟨hVsz, _⟩ := padBlock_get w h coeffs
  have hVb := padBlock_bound w h coeffs hbnd
  obtain ⟨hs0, hst0, hctx0, hbp0⟩ := es0_ok w h (padBlock w h coeffs) hVsz
  apply layered_finish w h orient style mb coeffs hlen hmb (fun hh => absurd hLs hh.2)
  rw [hTs]
  obtain ⟨ef, es5, recsA, hrl, hrall, hencA, hin5, hbp5, hterm5, hbpA, hbpA2, hagreeA, hdecA⟩ :=
    phaseA_lock w h (padBlock w h coeffs) hVb orient style mb (3 * mb + 1) hLz hT0 (es0 w h) hs0 hst0 hctx0
      (3 * (mb - (mb - 3))) rfl (by omega)
  rw [hbp0] at hbpA hbpA2
  have hencA' := hencA (3 * mb + 1 + 1) [] (by omega)
  obtain ⟨_, _, _, _, hprT5, _⟩ := restartIf_ok w h (padBlock w h coeffs) es5 true hin5
  obtain ⟨hbp5r, _, hst5⟩ := hprT5 rfl
  rcases Nat.lt_or_ge 3 mb with hmb4 | hmb3
  · -- planes below `mb - 3` follow
    have hn10 : 3 * (mb - (mb - 3)) = 9 := by omega
    obtain ⟨esF, recs', hencF, htermF, hlenF, hbpF, _, hrokF, hrtF, hdecF⟩ :=
      lloop_lock w h (padBlock w h coeffs) hVb orient style mb (3 * mb + 1) hLz (Or.inr ⟨hT0, hTs⟩) (3 * (mb - 4) + 3)
        (3 * mb + 1 + 1 - (3 * (mb - (mb - 3)) + 1)) es5 true (mb - 4) (3 * (mb - (mb - 3)) + 1) 0
        ([] ++ recsA ++ [(ef.bp - 1, true)]) (by omega) hin5 hst5 (fun hh => absurd hh (by simp)) (fun hh => by omega)
        (fun _ => by omega) (by omega) (by omega) (by omega)
    rw [hbp5r, hbp5] at hbpF hrokF
    rw [show (((mb - 3 : Nat) : Int) - 1) = ((mb - 4 : Nat) : Int) by omega, hencF] at hencA'
    refine ⟨esF, recsA ++ [(ef.bp - 1, true)] ++ recs', by rw [hencA']; simp, htermF,
      by simp only [List.length_append, List.length_cons, List.length_nil]; omega,
      fun hp => by have := hbpA2 hp; omega, ?_, ?_, ?_⟩
    · rw [List.append_assoc]
      exact recsOk_prefix recsA _ hrall ⟨Nat.zero_le _, by simp only [if_true]; exact hrokF⟩
    · intro r hr
      rcases List.mem_append.mp hr with hr | hr
      · rcases List.mem_append.mp hr with hr | hr
        · exact absurd (hrall _ hr) (by simp)
        · have : r = ef.bp - 1 := by
            rcases List.mem_cons.mp hr with hr | hr
            · injection hr
            · exact absurd hr (by simp)
          omega
      · exact hrtF r hr
    · intro bytesF hagF
      obtain ⟨hback', hnff', hdec'⟩ := hdecF bytesF hagF
      rw [hTs] at hdec'
      have hag5 : Agree bytesF es5.mq := by
        refine ⟨fun k hk => hback' k (by rw [hbp5r]; omega), ?_⟩
        have := hagF.2
        omega
      obtain ⟨hagf, _, hnff⟩ := hagreeA bytesF hag5
      refine ⟨?_, ?_⟩
      · intro r hr hpos'
        rcases List.mem_append.mp hr with hr | hr
        · rcases List.mem_append.mp hr with hr | hr
          · exact absurd (hrall _ hr) (by simp)
          · have : r = ef.bp - 1 := by
              rcases List.mem_cons.mp hr with hr | hr
              · injection hr
              · exact absurd hr (by simp)
            subst this; exact hnff hpos'
        · exact hnff' r hr hpos'
      · intro PL hPL hPLl s hns hpe hP
        have hPLn : PL[3 * (mb - (mb - 3))]? = some (ef.bp - 1) := by
          apply hPL
          rw [List.getElem?_append_left (by simp only [List.length_append, List.length_cons, List.length_nil]; omega),
            List.getElem?_append_right (by omega), hrl, Nat.sub_self]; rfl
        simp only [List.length_append, List.length_cons, List.length_nil] at hPLl
        obtain ⟨ds3, hPost, hci', hstep⟩ := hdecA bytesF PL hagf hPLn (by omega) s hns (by rw [hpe, hbp0]) hP (3 * mb + 1 + 1) (by omega)
        obtain ⟨lev, hLS, q0, q1, q2⟩ := hPost
        have hall := q2 rfl
        have hPnext : PInv w h (padBlock w h coeffs) (fun _ _ => True) (mb - 4) (3 * (mb - (mb - 3)) + 1) 0 es5 ds3 := by
          have := hLS.replane hall (show 1 ≤ mb - 3 by omega)
          rw [show mb - 3 - 1 = mb - 4 by omega] at this
          exact ⟨lev, this, fun _ j hj => by rw [hall j hj]; omega,
            fun hh => absurd hh (by decide), fun hh => absurd hh (by decide)⟩
        obtain ⟨dsF, hdF, hszF, hdataF⟩ := hdec' PL
          (by
            intro k r hk
            apply hPL
            rw [List.getElem?_append_right (by simp only [List.length_append, List.length_cons, List.length_nil]; omega)]
            simp only [List.length_append, List.length_cons, List.length_nil]
            rw [show 3 * (mb - (mb - 3)) + 1 + k - (recsA.length + (0 + 1)) = k by omega]; exact hk)
          (by omega)
          { st := ds3, prevEnd := ef.bp - 1, prevCtx := if ¬ styReset style = true then ds3.mq.ctx else s.prevCtx, newSegment := true }
          rfl (by show ef.bp - 1 = _; rw [hbp5r, hbp5]) hci' hPnext
        refine ⟨dsF, ?_, hszF, hdataF⟩
        rw [hstep, show (((mb - 3 : Nat) : Int) - 1) = ((mb - 4 : Nat) : Int) by omega]
        exact hdF
  · -- `mb ≤ 3`: the first segment is the whole block
    have hn3 : 3 * (mb - (mb - 3)) = 3 * mb := by omega
    have hm0 : mb - 3 = 0 := by omega
    rw [encLoopL_exit w h orient style (padBlock w h coeffs) mb (3 * mb + 1) _ es5 _ _ _ _ _ (by omega)] at hencA'
    refine ⟨es5, recsA ++ [(ef.bp - 1, true)], by rw [hencA']; simp, hterm5,
      by simp only [List.length_append, List.length_cons, List.length_nil]; omega,
      fun hp => by have := hbpA2 hp; omega, ?_, ?_, ?_⟩
    · exact recsOk_prefix recsA _ hrall ⟨Nat.zero_le _, True.intro⟩
    · intro r hr
      rcases List.mem_append.mp hr with hr | hr
      · exact absurd (hrall _ hr) (by simp)
      · have : r = ef.bp - 1 := by
          rcases List.mem_cons.mp hr with hr | hr
          · injection hr
          · exact absurd hr (by simp)
        omega
    · intro bytesF hag5
      obtain ⟨hagf, _, hnff⟩ := hagreeA bytesF hag5
      refine ⟨?_, ?_⟩
      · intro r hr hpos'
        rcases List.mem_append.mp hr with hr | hr
        · exact absurd (hrall _ hr) (by simp)
        · have : r = ef.bp - 1 := by
            rcases List.mem_cons.mp hr with hr | hr
            · injection hr
            · exact absurd hr (by simp)
          subst this; exact hnff hpos'
      · intro PL hPL hPLl s hns hpe hP
        have hPLn : PL[3 * (mb - (mb - 3))]? = some (ef.bp - 1) := by
          apply hPL
          rw [List.getElem?_append_right (by omega), hrl, Nat.sub_self]; rfl
        simp only [List.length_append, List.length_cons, List.length_nil] at hPLl
        obtain ⟨ds3, hPost, _, hstep⟩ := hdecA bytesF PL hagf hPLn (by omega) s hns (by rw [hpe, hbp0]) hP (3 * mb + 1 + 1) (by omega)
        obtain ⟨lev, hLS, _, _, q2⟩ := hPost
        refine ⟨ds3, ?_, hLS.dsz, ?_⟩
        · rw [hstep, decLoopL_exit _ _ _ _ _ _ _ _ _ _ _ _ _ _ (by omega)]
        · intro j hj
          rw [(hLS.smp j hj).d, q2 rfl j hj, hm0, tr_0]

/-- the 32 code-block styles with LAZY -/
def stylesLazy : List Nat := [1, 3, 5, 7, 9, 11, 13, 15, 17, 19, 21, 23, 25, 27, 29, 31,
  33, 35, 37, 39, 41, 43, 45, 47, 49, 51, 53, 55, 57, 59, 61, 63]

/-- **layered T1 round trip for every style with LAZY** -/
theorem t1_layered_roundtrip_lazy (w h orient style mb : Nat) (coeffs : List Int) (hlen : coeffs.length = w * h)
    (hbnd : ∀ c ∈ coeffs, c.natAbs < 2147483648) (hmb : findMaxBitplane (padBlock w h coeffs) = some mb)
    (hs : style ∈ stylesLazy) :
    ∃ rates bytes, encodeLayered w h orient style coeffs (3 * mb + 1) = .ok (rates, (mb : Int), bytes) ∧
      (styPterm style = false → bytes ≠ []) ∧
      (bytes ≠ [] → decodeLayered w h orient style (mb : Int) rates bytes = .ok coeffs) := by
  unfold stylesLazy at hs
  simp only [List.mem_cons, List.mem_nil_iff, or_false] at hs
  rcases hs with rfl | rfl | rfl | rfl | rfl | rfl | rfl | rfl | rfl | rfl | rfl | rfl | rfl | rfl | rfl | rfl |
    rfl | rfl | rfl | rfl | rfl | rfl | rfl | rfl | rfl | rfl | rfl | rfl | rfl | rfl | rfl | rfl
  all_goals first
    | exact t1_layered_roundtrip_lazyN w h orient _ mb coeffs hlen hbnd hmb (by decide) (by decide) (by decide) (by decide)
    | exact t1_layered_roundtrip_lazyT w h orient _ mb coeffs hlen hbnd hmb (by decide) (by decide) (by decide)

theorem styles_all : ∀ s, s < 64 → s ∈ stylesMq ∨ s ∈ stylesLazy := by decide

/-- **layered T1 round trip, all 64 code-block styles** -/
theorem t1_layered_roundtrip_all (w h orient style mb : Nat) (coeffs : List Int) (hlen : coeffs.length = w * h)
    (hbnd : ∀ c ∈ coeffs, c.natAbs < 2147483648) (hmb : findMaxBitplane (padBlock w h coeffs) = some mb)
    (hs : style < 64) :
    ∃ rates bytes, encodeLayered w h orient style coeffs (3 * mb + 1) = .ok (rates, (mb : Int), bytes) ∧
      (styPterm style = false → bytes ≠ []) ∧
      (bytes ≠ [] → decodeLayered w h orient style (mb : Int) rates bytes = .ok coeffs) := by
  rcases styles_all style hs with h1 | h1
  · exact t1_layered_roundtrip_mq w h orient style mb coeffs hlen hbnd hmb h1
  · exact t1_layered_roundtrip_lazy w h orient style mb coeffs hlen hbnd hmb h1

end T1
