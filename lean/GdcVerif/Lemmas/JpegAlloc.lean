import GdcVerif.Lemmas.ParsersTotal
/-! C09: allocation bounds of the JPEG-family header walks (jpeg/lossless, JPEG-LS lossless, lossless14sv1, baseline). -/
namespace JM
open PC

def IsBytes (bs : Bytes) : Prop := ∀ b ∈ bs, b < 256

theorem isBytes_drop {bs : Bytes} (h : IsBytes bs) (k : Nat) : IsBytes (bs.drop k) :=
  fun b hb => h b (List.mem_of_mem_drop hb)

theorem isBytes_tail {a : Nat} {bs : Bytes} (h : IsBytes (a :: bs)) : IsBytes bs :=
  fun b hb => h b (List.mem_cons_of_mem _ hb)

theorem skipFill_isBytes {bs rest : Bytes} {m : Nat} (hb : IsBytes bs) (h : skipFill bs = some (m, rest)) : IsBytes rest := by
  induction bs with
  | nil => simp [skipFill] at h
  | cons b tl ih =>
    unfold skipFill at h
    split at h
    · exact ih (isBytes_tail hb) h
    · injection h with h; injection h with _ h2; subst h2; exact isBytes_tail hb

theorem readMarker_isBytes {bs rest : Bytes} {m : Nat} (hb : IsBytes bs) (h : readMarker bs = some (m, rest)) : IsBytes rest := by
  cases bs with
  | nil => simp [readMarker] at h
  | cons b tl =>
    unfold readMarker at h
    by_cases hb' : b ≠ 0xFF
    · simp [hb'] at h
    · simp only [hb', if_false] at h
      cases hs : skipFill tl with
      | none => simp [hs] at h
      | some p =>
        obtain ⟨m', rest'⟩ := p
        simp only [hs] at h
        by_cases hm : m' = 0
        · simp [hm] at h
        · simp only [hm, if_false] at h
          injection h with h; injection h with _ h2; subst h2
          exact skipFill_isBytes (isBytes_tail hb) hs

theorem readSegment_isBytes {bs pl rest : Bytes} (hb : IsBytes bs) (h : readSegment bs = some (pl, rest)) : IsBytes rest := by
  match bs, h with
  | hi :: lo :: tl, h =>
    unfold readSegment at h
    simp only at h
    split at h
    · cases h
    · split at h
      · cases h
      · injection h with h; injection h with _ h2; subst h2
        exact isBytes_drop (isBytes_tail (isBytes_tail hb)) _

theorem readSegmentAlloc_le {bs : Bytes} (hb : IsBytes bs) : readSegmentAlloc bs ≤ 65533 := by
  match bs with
  | [] => simp [readSegmentAlloc]
  | [_] => simp [readSegmentAlloc]
  | hi :: lo :: r =>
    have h1 := hb hi (by simp)
    have h2 := hb lo (by simp)
    unfold readSegmentAlloc
    simp only
    split <;> omega

theorem segTurn_more' {σ : Type} {st st' : σ} {rest r : Bytes} {fail : σ → Nat → σ} {h : Bytes → Nat → H σ}
    (hs : segTurn st rest fail h = .more st' r) :
    ∃ pl, readSegment rest = some (pl, r) ∧ h pl r.length = .cont st' := by
  unfold segTurn at hs
  split at hs
  · cases hs
  · split at hs
    · injection hs with h1 h2; subst h1; subst h2
      exact ⟨_, by assumption, by assumption⟩
    · cases hs

theorem segTurn_done' {σ : Type} {st st' : σ} {rest : Bytes} {fail : σ → Nat → σ} {h : Bytes → Nat → H σ} {o : Res}
    (hs : segTurn st rest fail h = .done st' o) :
    (st' = fail st (readSegmentAlloc rest) ∧ o = .err) ∨
    ∃ pl rest2, readSegment rest = some (pl, rest2) ∧ h pl rest2.length = .stop st' o := by
  unfold segTurn at hs
  split at hs
  · injection hs with h1 h2; exact Or.inl ⟨h1.symm, h2.symm⟩
  · split at hs
    · cases hs
    · injection hs with h1 h2; subst h1; subst h2
      exact Or.inr ⟨_, _, by assumption, by assumption⟩

/-- allocations that do not depend on the declared frame: at most the input length, or the
    64 KiB a failing ReadSegment may have allocated -/
def Small (N : Nat) (a : Nat) : Prop := a ≤ N ∨ a ≤ 65533

def JllGood (N : Nat) (st : Jll) (bs : Bytes) : Prop :=
  IsBytes bs ∧ bs.length ≤ N ∧ st.comps ≤ 3 ∧ st.precision ≤ 16 ∧ ∀ a ∈ st.allocs, Small N a

def JllFinal (N : Nat) (p : Jll × Res) : Prop :=
  ∀ a ∈ p.1.allocs, Small N a ∨ a ≤ 8 * (p.1.width * p.1.height)

theorem small_list {N : Nat} (xs : List Nat) (h : ∀ x ∈ xs, x ≤ N) : ∀ a ∈ xs, Small N a :=
  fun a ha => Or.inl (h a ha)

theorem mem_append_small {N : Nat} {l : List Nat} {xs : List Nat} (hl : ∀ a ∈ l, Small N a) (hx : ∀ a ∈ xs, Small N a) :
    ∀ a ∈ l ++ xs, Small N a := by
  intro a ha
  rcases List.mem_append.mp ha with h | h
  · exact hl a h
  · exact hx a h

theorem jllSOF3_fields {st st' : Jll} {data : Bytes} (h : jllSOF3 st data = some st') :
    st'.comps ≤ 3 ∧ st'.precision ≤ 16 ∧ st'.allocs = st.allocs := by
  unfold jllSOF3 at h
  simp only at h
  repeat' split at h
  all_goals first
    | (cases h; done)
    | (injection h with h; subst h
       refine ⟨?_, ?_, rfl⟩
       · show data.getD 5 0 ≤ 3; omega
       · show data.getD 0 0 ≤ 16; omega)

theorem jllSOS_fields {st st' : Jll} {data : Bytes} (h : jllSOS st data = .ok st') :
    st'.comps = st.comps ∧ st'.precision = st.precision ∧ st'.width = st.width ∧ st'.height = st.height := by
  unfold jllSOS at h
  simp only at h
  repeat' split at h
  all_goals first
    | (cases h; done)
    | (injection h with h; subst h; exact ⟨rfl, rfl, rfl, rfl⟩)

theorem jllStep_more_good {N : Nat} {st st' : Jll} {bs r : Bytes} (hg : JllGood N st bs)
    (h : jllStep st bs = .more st' r) : JllGood N st' r := by
  obtain ⟨hb, hl, hc, hp, ha⟩ := hg
  unfold jllStep at h
  split at h
  · cases h
  · rename_i m rest hm
    have hrb := readMarker_isBytes hb hm
    have hrl := readMarker_progress hm
    try simp only at h
    split at h
    · obtain ⟨pl, hr, hh⟩ := segTurn_more' h
      have hpl := readSegment_progress hr
      try simp only at hh
      split at hh
      · cases hh
      · rename_i st2 hs
        injection hh with hh; subst hh
        have hf := jllSOF3_fields hs
        refine ⟨readSegment_isBytes hrb hr, by omega, hf.1, hf.2.1, ?_⟩
        exact mem_append_small ha (small_list _ (by intro x hx; simp at hx; omega))
    · split at h
      · obtain ⟨pl, hr, hh⟩ := segTurn_more' h
        have hpl := readSegment_progress hr
        try simp only at hh
        split at hh
        · injection hh with hh; subst hh
          refine ⟨readSegment_isBytes hrb hr, by omega, hc, hp, ?_⟩
          exact mem_append_small ha (small_list _ (by intro x hx; simp at hx; omega))
        · cases hh
      · split at h
        · obtain ⟨pl, hr, hh⟩ := segTurn_more' h
          try simp only at hh
          repeat' split at hh
          all_goals cases hh
        · split at h
          · cases h
          · split at h
            · obtain ⟨pl, hr, hh⟩ := segTurn_more' h
              have hpl := readSegment_progress hr
              try simp only at hh
              injection hh with hh; subst hh
              refine ⟨readSegment_isBytes hrb hr, by omega, hc, hp, ?_⟩
              exact mem_append_small ha (small_list _ (by intro x hx; simp at hx; omega))
            · injection h with h1 h2; subst h1; subst h2
              exact ⟨hrb, by omega, hc, hp, ha⟩

theorem small_final {N : Nat} {st : Jll} (ha : ∀ a ∈ st.allocs, Small N a) (o : Res) : JllFinal N (st, o) :=
  fun a h => Or.inl (ha a h)

theorem jllStep_done_final {N : Nat} {st st' : Jll} {bs : Bytes} {o : Res} (hg : JllGood N st bs)
    (h : jllStep st bs = .done st' o) : JllFinal N (st', o) := by
  obtain ⟨hb, hl, hc, hp, ha⟩ := hg
  unfold jllStep at h
  split at h
  · injection h with h1 h2; subst h1; exact small_final ha _
  · rename_i m rest hm
    have hrb := readMarker_isBytes hb hm
    have hrl := readMarker_progress hm
    have hfail : ∀ a ∈ st.allocs ++ [readSegmentAlloc rest], Small N a :=
      mem_append_small ha (by intro a h'; simp at h'; subst h'; right; exact readSegmentAlloc_le hrb)
    try simp only at h
    split at h
    · rcases segTurn_done' h with ⟨h1, _⟩ | ⟨pl, rest2, hr, hh⟩
      · subst h1; exact small_final hfail _
      · have hpl := readSegment_progress hr
        try simp only at hh
        split at hh
        · injection hh with h1 _; subst h1
          exact small_final (mem_append_small ha (small_list _ (by intro x hx; simp at hx; omega))) _
        · cases hh
    · split at h
      · rcases segTurn_done' h with ⟨h1, _⟩ | ⟨pl, rest2, hr, hh⟩
        · subst h1; exact small_final hfail _
        · have hpl := readSegment_progress hr
          try simp only at hh
          split at hh
          · cases hh
          · injection hh with h1 _; subst h1
            exact small_final (mem_append_small ha (small_list _ (by intro x hx; simp at hx; omega))) _
      · split at h
        · rcases segTurn_done' h with ⟨h1, _⟩ | ⟨pl, rest2, hr, hh⟩
          · subst h1; exact small_final hfail _
          · have hpl := readSegment_progress hr
            try simp only at hh
            split at hh
            · injection hh with h1 _; subst h1
              exact small_final (mem_append_small ha (small_list _ (by intro x hx; simp at hx; omega))) _
            · rename_i st2 hs
              have hf := jllSOS_fields hs
              have hbase : ∀ a ∈ st.allocs ++ [pl.length, rest2.length] ++ List.replicate st2.comps (8 * (st2.width * st2.height)),
                  Small N a ∨ a ≤ 8 * (st2.width * st2.height) := by
                intro a h'
                rcases List.mem_append.mp h' with h' | h'
                · rcases List.mem_append.mp h' with h' | h'
                  · exact Or.inl (ha a h')
                  · left; exact small_list _ (by intro x hx; simp at hx; omega) a h'
                · right; have := List.eq_of_mem_replicate h'; omega
              split at hh
              · injection hh with h1 _; subst h1
                intro a h'
                simp only at h'
                rcases List.mem_append.mp h' with h' | h'
                · exact hbase a h'
                · simp at h'; subst h'
                  right
                  have h3 : st2.comps ≤ 3 := by rw [hf.1]; exact hc
                  have h16 : (st2.precision + 7) / 8 ≤ 2 := by rw [hf.2.1]; omega
                  calc st2.width * st2.height * st2.comps * ((st2.precision + 7) / 8)
                      ≤ st2.width * st2.height * 3 * 2 := Nat.mul_le_mul (Nat.mul_le_mul_left _ h3) h16
                    _ ≤ 8 * (st2.width * st2.height) := by omega
              · injection hh with h1 _; subst h1
                exact hbase
        · split at h
          · injection h with h1 _; subst h1; exact small_final ha _
          · split at h
            · rcases segTurn_done' h with ⟨h1, _⟩ | ⟨pl, rest2, hr, hh⟩
              · subst h1; exact small_final hfail _
              · cases hh
            · cases h

/-- C09, jpeg/lossless: every allocation up to the start of entropy decoding is at most the input
    length, or 65533 (a failing ReadSegment), or 8·w·h of the frame header in force at the scan -/
theorem jllDecode_allocs (bs : Bytes) (hb : IsBytes bs) :
    ∀ a ∈ (jllDecode bs).1.allocs, a ≤ bs.length ∨ a ≤ 65533 ∨ a ≤ 8 * ((jllDecode bs).1.width * (jllDecode bs).1.height) := by
  unfold jllDecode
  split
  · simp
  · rename_i m rest hm
    split
    · simp
    · have hl := readMarker_progress hm
      have h := run_inv jllStep jllStep_lt (JllGood bs.length) (JllFinal bs.length)
        (fun st b st' r hi hs => jllStep_more_good hi hs)
        (fun st b st' o hi hs => jllStep_done_final hi hs)
        {} rest ⟨readMarker_isBytes hb hm, by omega, by decide, by decide, by intro a h; cases h⟩
      intro a ha
      rcases h a ha with (h1 | h1) | h1
      · exact Or.inl h1
      · exact Or.inr (Or.inl h1)
      · exact Or.inr (Or.inr h1)
end JM

namespace JlsH
open PC JM

def Good (N : Nat) (st : St) (bs : Bytes) : Prop :=
  IsBytes bs ∧ bs.length ≤ N ∧ ∀ a ∈ st.allocs, Small N a

def Final (N : Nat) (p : St × Res) : Prop :=
  ∀ a ∈ p.1.allocs, Small N a ∨ a ≤ 8 * (p.1.width * p.1.height * p.1.comps)

theorem ctxAlloc_small (N : Nat) : Small N ctxAlloc := Or.inr (by decide)

theorem sof55Core_allocs {N : Nat} {st st' : St} {data : Bytes} (ha : ∀ a ∈ st.allocs, Small N a) :
    (sof55Core st data = .cont st' → ∀ a ∈ st'.allocs, Small N a) ∧
    (∀ o, sof55Core st data = .stop st' o → ∀ a ∈ st'.allocs, Small N a) := by
  unfold sof55Core
  repeat' split
  all_goals first
    | (constructor
       · intro h; cases h; done
       · intro o h; injection h with h1 _; subst h1; exact ha)
    | (constructor
       · intro h; injection h with h1; subst h1
         exact mem_append_small ha (by intro a h'; simp at h'; subst h'; exact ctxAlloc_small N)
       · intro o h; cases h; done)

theorem sof55_allocs {N : Nat} {st st' : St} {data : Bytes} (ha : ∀ a ∈ st.allocs, Small N a) :
    (sof55 st data = .cont st' → ∀ a ∈ st'.allocs, Small N a) ∧
    (∀ o, sof55 st data = .stop st' o → ∀ a ∈ st'.allocs, Small N a) := by
  unfold sof55
  by_cases hc : st.comps ≠ 0
  · rw [if_pos hc]
    exact ⟨(fun h => by cases h), (fun o h => by cases h; exact ha)⟩
  · rw [if_neg hc]; exact sof55Core_allocs ha

theorem lse_allocs {N : Nat} {st st' : St} {data : Bytes} (ha : ∀ a ∈ st.allocs, Small N a) :
    (lse st data = .cont st' → ∀ a ∈ st'.allocs, Small N a) ∧
    (∀ o, lse st data = .stop st' o → ∀ a ∈ st'.allocs, Small N a) := by
  have stopCase : ∀ r : Res, (H.stop st r = H.cont st' → ∀ a ∈ st'.allocs, Small N a) ∧
      (∀ o, H.stop st r = H.stop st' o → ∀ a ∈ st'.allocs, Small N a) := by
    intro r
    constructor
    · intro h; cases h
    · intro o h; injection h with h1 _; subst h1; exact ha
  unfold lse
  split
  · exact stopCase _
  · split
    · constructor
      · intro h; injection h with h1; subst h1; exact ha
      · intro o h; cases h
    · split
      · exact stopCase _
      · simp only
        split
        · exact stopCase _
        · constructor
          · intro h; injection h with h1; subst h1
            exact mem_append_small ha (by intro a h'; simp at h'; subst h'; exact ctxAlloc_small N)
          · intro o h; cases h

theorem step_more_good {N : Nat} {st st' : St} {bs r : Bytes} (hg : Good N st bs)
    (h : step st bs = .more st' r) : Good N st' r := by
  obtain ⟨hb, hl, ha⟩ := hg
  unfold step at h
  split at h
  · cases h
  · rename_i m rest hm
    have hrb := readMarker_isBytes hb hm
    have hrl := readMarker_progress hm
    try simp only at h
    split at h
    · obtain ⟨pl, hr, hh⟩ := segTurn_more' h
      have hpl := readSegment_progress hr
      refine ⟨readSegment_isBytes hrb hr, by omega, ?_⟩
      exact (sof55_allocs (N := N) (mem_append_small ha (small_list _ (by intro x hx; simp at hx; omega)))).1 hh
    · split at h
      · obtain ⟨pl, hr, hh⟩ := segTurn_more' h
        have hpl := readSegment_progress hr
        refine ⟨readSegment_isBytes hrb hr, by omega, ?_⟩
        exact (lse_allocs (N := N) (mem_append_small ha (small_list _ (by intro x hx; simp at hx; omega)))).1 hh
      · split at h
        · obtain ⟨pl, hr, hh⟩ := segTurn_more' h
          try simp only at hh
          split at hh <;> cases hh
        · split at h
          · cases h
          · split at h
            · obtain ⟨pl, hr, hh⟩ := segTurn_more' h
              have hpl := readSegment_progress hr
              try simp only at hh
              injection hh with hh; subst hh
              exact ⟨readSegment_isBytes hrb hr, by omega,
                mem_append_small ha (small_list _ (by intro x hx; simp at hx; omega))⟩
            · injection h with h1 h2; subst h1; subst h2
              exact ⟨hrb, by omega, ha⟩

theorem small_final {N : Nat} {st : St} (ha : ∀ a ∈ st.allocs, Small N a) (o : Res) : Final N (st, o) :=
  fun a h => Or.inl (ha a h)

theorem step_done_final {N : Nat} {st st' : St} {bs : Bytes} {o : Res} (hg : Good N st bs)
    (h : step st bs = .done st' o) : Final N (st', o) := by
  obtain ⟨hb, hl, ha⟩ := hg
  unfold step at h
  split at h
  · injection h with h1 h2; subst h1; exact small_final ha _
  · rename_i m rest hm
    have hrb := readMarker_isBytes hb hm
    have hrl := readMarker_progress hm
    have hfail : ∀ a ∈ st.allocs ++ [readSegmentAlloc rest], Small N a :=
      mem_append_small ha (by intro a h'; simp at h'; subst h'; right; exact readSegmentAlloc_le hrb)
    try simp only at h
    split at h
    · rcases segTurn_done' h with ⟨h1, _⟩ | ⟨pl, rest2, hr, hh⟩
      · subst h1; exact small_final hfail _
      · have hpl := readSegment_progress hr
        exact small_final ((sof55_allocs (N := N) (mem_append_small ha (small_list _ (by intro x hx; simp at hx; omega)))).2 _ hh) _
    · split at h
      · rcases segTurn_done' h with ⟨h1, _⟩ | ⟨pl, rest2, hr, hh⟩
        · subst h1; exact small_final hfail _
        · have hpl := readSegment_progress hr
          exact small_final ((lse_allocs (N := N) (mem_append_small ha (small_list _ (by intro x hx; simp at hx; omega)))).2 _ hh) _
      · split at h
        · rcases segTurn_done' h with ⟨h1, _⟩ | ⟨pl, rest2, hr, hh⟩
          · subst h1; exact small_final hfail _
          · have hpl := readSegment_progress hr
            try simp only at hh
            split at hh
            · injection hh with h1 _; subst h1
              intro a h'
              simp only [scanAllocs] at h'
              rcases List.mem_append.mp h' with h' | h'
              · left
                exact mem_append_small ha (small_list _ (by intro x hx; simp at hx; omega)) a h'
              · simp at h'
                rcases h' with h' | h'
                · subst h'; left; left; omega
                · subst h'; right; exact Nat.le_refl _
            · injection hh with h1 _; subst h1
              exact small_final (mem_append_small ha (small_list _ (by intro x hx; simp at hx; omega))) _
        · split at h
          · injection h with h1 _; subst h1; exact small_final ha _
          · split at h
            · rcases segTurn_done' h with ⟨h1, _⟩ | ⟨pl, rest2, hr, hh⟩
              · subst h1; exact small_final hfail _
              · cases hh
            · cases h

/-- C09, JPEG-LS lossless: every allocation up to the start of the scan is at most the input length,
    or 65533, or the sample buffer 8·w·h·comps of the frame header in force at the scan -/
theorem header_allocs (bs : Bytes) (hb : IsBytes bs) :
    ∀ a ∈ (header bs).1.allocs, a ≤ bs.length ∨ a ≤ 65533 ∨
      a ≤ 8 * ((header bs).1.width * (header bs).1.height * (header bs).1.comps) := by
  unfold header
  split
  · simp
  · rename_i m rest hm
    split
    · simp
    · have hl := readMarker_progress hm
      have h := run_inv step step_lt (Good bs.length) (Final bs.length)
        (fun st b st' r hi hs => step_more_good hi hs)
        (fun st b st' o hi hs => step_done_final hi hs)
        {} rest ⟨readMarker_isBytes hb hm, by omega, by intro a h; cases h⟩
      intro a ha
      rcases h a ha with (h1 | h1) | h1
      · exact Or.inl h1
      · exact Or.inr (Or.inl h1)
      · exact Or.inr (Or.inr h1)
end JlsH

namespace JM
open PC

/-! ## lossless14sv1 (after 7825a71: a second frame header is rejected) -/

theorem sv1Comps_spec (w h n : Nat) (data : Bytes) (acc : List (Nat × Nat)) (al : List Nat) :
    (∀ a ∈ (sv1Comps w h n data acc al).2, a ∈ al ∨ a = 8 * (w * h)) ∧
    (∀ cs, (sv1Comps w h n data acc al).1 = some cs → cs.length = acc.length + n) := by
  induction n generalizing data acc al with
  | zero =>
    constructor
    · intro a ha; simp [sv1Comps] at ha; exact Or.inl ha
    · intro cs h; simp [sv1Comps] at h; subst h; rfl
  | succ n ih =>
    match data with
    | id :: hv :: tq :: rest =>
      unfold sv1Comps
      simp only
      split
      · constructor
        · intro a ha
          rcases List.mem_append.mp ha with ha | ha
          · exact Or.inl ha
          · exact Or.inr (List.mem_singleton.mp ha)
        · intro cs h; cases h
      · have := ih rest (acc ++ [(id, 0)]) (al ++ [8 * (w * h)])
        constructor
        · intro a ha
          rcases this.1 a ha with h1 | h1
          · rcases List.mem_append.mp h1 with h1 | h1
            · exact Or.inl h1
            · exact Or.inr (List.mem_singleton.mp h1)
          · exact Or.inr h1
        · intro cs h
          have := this.2 cs h
          simp at this; omega
    | [] => exact ⟨fun a ha => by simp [sv1Comps] at ha; exact Or.inl ha, fun cs h => by simp [sv1Comps] at h⟩
    | [_] => exact ⟨fun a ha => by simp [sv1Comps] at ha; exact Or.inl ha, fun cs h => by simp [sv1Comps] at h⟩
    | [_, _] => exact ⟨fun a ha => by simp [sv1Comps] at ha; exact Or.inl ha, fun cs h => by simp [sv1Comps] at h⟩

/-- what parseSOF3 does to the decoder state and what it allocates -/
theorem sv1SOF3_spec (st : Sv1) (data : Bytes) :
    let r := sv1SOF3 st data
    r.1.2.allocs = st.allocs ∧
    (∀ a ∈ r.2, a ≤ 24 ∨ a ≤ 8 * (r.1.2.width * r.1.2.height)) ∧
    (st.comps ≠ [] → r.1.2 = st ∧ r.2 = [] ∧ r.1.1 = false) ∧
    (r.1.1 = true → 1 ≤ r.1.2.comps.length ∧ r.1.2.comps.length ≤ 3 ∧ r.1.2.precision ≤ 16) := by
  simp only
  unfold sv1SOF3
  by_cases h1 : data.length < 6
  · rw [if_pos h1]; simp
  rw [if_neg h1]
  by_cases h2 : st.comps.length > 0
  · rw [if_pos h2]; simp
  rw [if_neg h2]
  have hc : st.comps = [] := by
    cases hcs : st.comps with
    | nil => rfl
    | cons a b => rw [hcs] at h2; simp at h2
  simp only
  by_cases h3 : data.getD 0 0 < 2 ∨ data.getD 0 0 > 16
  · rw [if_pos h3]; simp [hc]
  rw [if_neg h3]
  by_cases h4 : data.getD 3 0 * 256 + data.getD 4 0 = 0 ∨ data.getD 1 0 * 256 + data.getD 2 0 = 0
  · rw [if_pos h4]; simp [hc]
  rw [if_neg h4]
  by_cases h5 : data.getD 5 0 ≠ 1 ∧ data.getD 5 0 ≠ 3
  · rw [if_pos h5]; simp [hc]
  rw [if_neg h5]
  by_cases h6 : data.length < 6 + data.getD 5 0 * 3
  · rw [if_pos h6]; simp [hc]
  rw [if_neg h6]
  have hs := sv1Comps_spec (data.getD 3 0 * 256 + data.getD 4 0) (data.getD 1 0 * 256 + data.getD 2 0)
    (data.getD 5 0) (data.drop 6) [] [8 * data.getD 5 0]
  cases hr : sv1Comps (data.getD 3 0 * 256 + data.getD 4 0) (data.getD 1 0 * 256 + data.getD 2 0)
      (data.getD 5 0) (data.drop 6) [] [8 * data.getD 5 0] with
  | mk o al =>
    rw [hr] at hs
    have hal : ∀ a ∈ al, a ≤ 24 ∨ a ≤ 8 * ((data.getD 3 0 * 256 + data.getD 4 0) * (data.getD 1 0 * 256 + data.getD 2 0)) := by
      intro a ha
      rcases hs.1 a ha with h | h
      · have := List.mem_singleton.mp h; left; omega
      · right; omega
    cases o with
    | none => simp only; exact ⟨by first | rfl | trivial, hal, by simp [hc], by simp⟩
    | some cs =>
      simp only
      have hl := hs.2 cs rfl
      simp only [List.length_nil, Nat.zero_add] at hl
      exact ⟨by first | rfl | trivial, hal, by simp [hc], by intro _; omega⟩

theorem sv1Selectors_len (n : Nat) (data : Bytes) (comps cs : List (Nat × Nat))
    (h : sv1Selectors n data comps = some cs) : cs.length = comps.length := by
  induction n generalizing data comps with
  | zero => simp [sv1Selectors] at h; subst h; rfl
  | succ n ih =>
    match data with
    | c :: td :: rest =>
      unfold sv1Selectors at h
      split at h
      · cases h
      · split at h
        · cases h
        · have := ih rest _ h; simpa using this
    | [] => simp [sv1Selectors] at h
    | [_] => simp [sv1Selectors] at h

theorem sv1SOS_fields {st st' : Sv1} {data : Bytes} (h : sv1SOS st data = some st') :
    st'.width = st.width ∧ st'.height = st.height ∧ st'.precision = st.precision ∧
    st'.comps.length = st.comps.length ∧ st'.allocs = st.allocs := by
  unfold sv1SOS at h
  split at h
  · cases h
  · split at h
    · cases h
    · split at h
      · cases h
      · rename_i cs hs
        split at h
        · cases h
        · injection h with h; subst h
          exact ⟨rfl, rfl, rfl, sv1Selectors_len _ _ _ _ hs, rfl⟩

def Sv1Good (N : Nat) (st : Sv1) (bs : Bytes) : Prop :=
  IsBytes bs ∧ bs.length ≤ N ∧ st.comps.length ≤ 3 ∧ st.precision ≤ 16 ∧
  (st.comps = [] → ∀ a ∈ st.allocs, Small N a) ∧
  (∀ a ∈ st.allocs, Small N a ∨ a ≤ 8 * (st.width * st.height))

def Sv1Final (N : Nat) (p : Sv1 × Res) : Prop :=
  ∀ a ∈ p.1.allocs, Small N a ∨ a ≤ 8 * (p.1.width * p.1.height)

theorem or_append {N : Nat} {B : Nat} {l xs : List Nat} (hl : ∀ a ∈ l, Small N a ∨ a ≤ B) (hx : ∀ a ∈ xs, Small N a ∨ a ≤ B) :
    ∀ a ∈ l ++ xs, Small N a ∨ a ≤ B := by
  intro a ha
  rcases List.mem_append.mp ha with h | h
  · exact hl a h
  · exact hx a h

theorem outBytes_le (w h c p : Nat) (hc : c ≤ 3) (hp : p ≤ 16) : w * h * c * ((p + 7) / 8) ≤ 8 * (w * h) := by
  have h16 : (p + 7) / 8 ≤ 2 := by omega
  calc w * h * c * ((p + 7) / 8) ≤ w * h * 3 * 2 := Nat.mul_le_mul (Nat.mul_le_mul_left _ hc) h16
    _ ≤ 8 * (w * h) := by omega

theorem sv1Step_more_good {N : Nat} {st st' : Sv1} {bs r : Bytes} (hg : Sv1Good N st bs)
    (h : sv1Step st bs = .more st' r) : Sv1Good N st' r := by
  obtain ⟨hb, hl, hc, hp, h0, ha⟩ := hg
  unfold sv1Step at h
  split at h
  · cases h
  · rename_i m rest hm
    have hrb := readMarker_isBytes hb hm
    have hrl := readMarker_progress hm
    try simp only at h
    split at h
    · obtain ⟨pl, hr, hh⟩ := segTurn_more' h
      have hpl := readSegment_progress hr
      have hspec := sv1SOF3_spec st pl
      try simp only at hh hspec
      split at hh
      · cases hh
      · rename_i st2 al hs
        rw [hs] at hspec
        simp only at hspec
        obtain ⟨_, hal, hne, htrue⟩ := hspec
        have ht := htrue (by first | rfl | trivial)
        have hcs : st.comps = [] := by
          cases hcc : st.comps with
          | nil => rfl
          | cons a b => have := (hne (by rw [hcc]; simp)).2.2; cases this
        injection hh with hh; subst hh
        refine ⟨readSegment_isBytes hrb hr, by omega, ht.2.1, ht.2.2, ?_, ?_⟩
        · intro he
          exfalso
          have : st2.comps.length = 0 := by simp at he; rw [he]; rfl
          omega
        · intro a h'
          simp only at h'
          rcases List.mem_append.mp h' with h' | h'
          · left
            exact mem_append_small (h0 hcs) (small_list _ (by intro x hx; simp at hx; omega)) a h'
          · rcases hal a h' with h2 | h2
            · left; right; omega
            · right; exact h2
    · have keep : ∀ (xs : List Nat), (∀ x ∈ xs, x ≤ N) → ∀ (st1 : Sv1), st1.width = st.width → st1.height = st.height →
          st1.comps = st.comps → st1.precision = st.precision → st1.allocs = st.allocs ++ xs → ∀ r', IsBytes r' → r'.length ≤ N →
          Sv1Good N st1 r' := by
        intro xs hxs st1 e1 e2 e3 e4 e5 r' hr1 hr2
        refine ⟨hr1, hr2, by rw [e3]; exact hc, by rw [e4]; exact hp, ?_, ?_⟩
        · intro he; rw [e3] at he; rw [e5]
          exact mem_append_small (h0 he) (small_list _ hxs)
        · rw [e5, e1, e2]
          exact or_append ha (fun a h' => Or.inl (small_list _ hxs a h'))
      split at h
      · obtain ⟨pl, hr, hh⟩ := segTurn_more' h
        have hpl := readSegment_progress hr
        try simp only at hh
        split at hh
        · injection hh with hh; subst hh
          apply keep [pl.length, pl.length] (by intro x hx; simp at hx; omega) <;>
            first | rfl | exact readSegment_isBytes hrb hr | omega
        · cases hh
      · split at h
        · obtain ⟨pl, hr, hh⟩ := segTurn_more' h
          try simp only at hh
          repeat' split at hh
          all_goals cases hh
        · split at h
          · cases h
          · split at h
            · obtain ⟨pl, hr, hh⟩ := segTurn_more' h
              have hpl := readSegment_progress hr
              try simp only at hh
              injection hh with hh; subst hh
              apply keep [pl.length] (by intro x hx; simp at hx; omega) <;>
                first | rfl | exact readSegment_isBytes hrb hr | omega
            · injection h with h1 h2; subst h1; subst h2
              exact ⟨hrb, by omega, hc, hp, h0, ha⟩

theorem sv1Step_done_final {N : Nat} {st st' : Sv1} {bs : Bytes} {o : Res} (hg : Sv1Good N st bs)
    (h : sv1Step st bs = .done st' o) : Sv1Final N (st', o) := by
  obtain ⟨hb, hl, hc, hp, h0, ha⟩ := hg
  unfold sv1Step at h
  split at h
  · injection h with h1 h2; subst h1; exact ha
  · rename_i m rest hm
    have hrb := readMarker_isBytes hb hm
    have hrl := readMarker_progress hm
    have hfail : Sv1Final N ({ st with allocs := st.allocs ++ [readSegmentAlloc rest] }, Res.err) :=
      or_append ha (by intro a h'; simp at h'; subst h'; left; right; exact readSegmentAlloc_le hrb)
    try simp only at h
    split at h
    · rcases segTurn_done' h with ⟨h1, _⟩ | ⟨pl, rest2, hr, hh⟩
      · subst h1; exact hfail
      · have hpl := readSegment_progress hr
        have hspec := sv1SOF3_spec st pl
        try simp only at hh hspec
        split at hh
        · rename_i st2 al hs
          rw [hs] at hspec
          simp only at hspec
          obtain ⟨_, hal, hne, _⟩ := hspec
          injection hh with h1 _; subst h1
          intro a h'
          simp only at h'
          by_cases hcs : st.comps = []
          · rcases List.mem_append.mp h' with h' | h'
            · left
              exact mem_append_small (h0 hcs) (small_list _ (by intro x hx; simp at hx; omega)) a h'
            · rcases hal a h' with h2 | h2
              · left; right; omega
              · right; exact h2
          · obtain ⟨e1, e2, _⟩ := hne hcs
            rw [e1]
            rw [e2] at h'
            simp only [List.append_nil] at h'
            exact or_append ha (fun a h'' => Or.inl (small_list _ (by intro x hx; simp at hx; omega) a h'')) a h'
        · cases hh
    · split at h
      · rcases segTurn_done' h with ⟨h1, _⟩ | ⟨pl, rest2, hr, hh⟩
        · subst h1; exact hfail
        · have hpl := readSegment_progress hr
          try simp only at hh
          split at hh
          · cases hh
          · injection hh with h1 _; subst h1
            exact or_append ha (fun a h'' => Or.inl (small_list _ (by intro x hx; simp at hx; omega) a h''))
      · split at h
        · rcases segTurn_done' h with ⟨h1, _⟩ | ⟨pl, rest2, hr, hh⟩
          · subst h1; exact hfail
          · have hpl := readSegment_progress hr
            try simp only at hh
            split at hh
            · injection hh with h1 _; subst h1
              exact or_append ha (fun a h'' => Or.inl (small_list _ (by intro x hx; simp at hx; omega) a h''))
            · rename_i st2 hs
              have hf := sv1SOS_fields hs
              have hbase : ∀ a ∈ st.allocs ++ [pl.length, rest2.length], Small N a ∨ a ≤ 8 * (st2.width * st2.height) := by
                rw [hf.1, hf.2.1]
                exact or_append ha (fun a h'' => Or.inl (small_list _ (by intro x hx; simp at hx; omega) a h''))
              split at hh
              · injection hh with h1 _; subst h1
                intro a h'
                simp only at h'
                rcases List.mem_append.mp h' with h' | h'
                · exact hbase a h'
                · simp at h'; subst h'
                  right
                  unfold Sv1.outBytes
                  exact outBytes_le _ _ _ _ (by rw [hf.2.2.2.1]; exact hc) (by rw [hf.2.2.1]; exact hp)
              · injection hh with h1 _; subst h1
                exact hbase
        · split at h
          · injection h with h1 _; subst h1
            intro a h'
            simp only at h'
            rcases List.mem_append.mp h' with h' | h'
            · exact ha a h'
            · simp at h'; subst h'
              right
              unfold Sv1.outBytes
              exact outBytes_le _ _ _ _ hc hp
          · split at h
            · rcases segTurn_done' h with ⟨h1, _⟩ | ⟨pl, rest2, hr, hh⟩
              · subst h1; exact hfail
              · cases hh
            · cases h

/-- C09, lossless14sv1 (with the second-SOF rejection): every allocation up to the first Huffman
    symbol is at most len(input), or 65533, or 8·w·h of the decoder's frame header -/
theorem sv1Decode_allocs (bs : Bytes) (hb : IsBytes bs) :
    ∀ a ∈ (sv1Decode bs).1.allocs, a ≤ bs.length ∨ a ≤ 65533 ∨
      a ≤ 8 * ((sv1Decode bs).1.width * (sv1Decode bs).1.height) := by
  unfold sv1Decode
  split
  · simp
  · rename_i m rest hm
    split
    · simp
    · have hl := readMarker_progress hm
      have h := run_inv sv1Step sv1Step_lt (Sv1Good bs.length) (Sv1Final bs.length)
        (fun st b st' r hi hs => sv1Step_more_good hi hs)
        (fun st b st' o hi hs => sv1Step_done_final hi hs)
        {} rest ⟨readMarker_isBytes hb hm, by omega, by decide, by decide, (fun _ a h => by cases h), (fun a h => by cases h)⟩
      intro a ha
      rcases h a ha with (h1 | h1) | h1
      · exact Or.inl h1
      · exact Or.inr (Or.inl h1)
      · exact Or.inr (Or.inr h1)
end JM

namespace JM
open PC

/-! ## baseline (after 7825a71) -/

theorem divCeil_comp_le (w H M cw : Nat) (hH : H ≤ M) (hM : 1 ≤ M) (hw : 1 ≤ w)
    (h : divCeil (w * H) (M * 8) = some cw) : cw ≤ w := by
  unfold divCeil at h
  have hd : ¬ M * 8 = 0 := by omega
  rw [if_neg hd] at h
  injection h with h
  have h1 : cw * (M * 8) ≤ w * H + M * 8 - 1 := by rw [← h]; exact Nat.div_mul_le_self _ _
  have h2 : w * H ≤ w * M := Nat.mul_le_mul_left _ hH
  by_cases hcon : 8 * cw ≤ w + 7
  · omega
  · exfalso
    have h3 : (w + 8) * M ≤ (8 * cw) * M := Nat.mul_le_mul_right _ (by omega)
    have h4 : (8 * cw) * M = cw * (M * 8) := by
      rw [Nat.mul_comm 8 cw, Nat.mul_assoc, Nat.mul_comm 8 M]
    have h5 : (w + 8) * M = w * M + 8 * M := Nat.add_mul _ _ _
    omega

theorem le_foldl_max (f : BlComp → Nat) (cs : List BlComp) (init : Nat) (c : BlComp) (hc : c ∈ cs) :
    f c ≤ cs.foldl (fun m c => max m (f c)) init := by
  induction cs generalizing init with
  | nil => cases hc
  | cons x xs ih =>
    simp only [List.foldl_cons]
    rcases List.mem_cons.mp hc with h | h
    · subst h
      have := foldl_max_ge f xs (max init (f c))
      omega
    · exact ih _ h

theorem blCompAllocs_bound (w h maxH maxV : Nat) (hH : 1 ≤ maxH) (hV : 1 ≤ maxV) (hw : 1 ≤ w) (hh : 1 ≤ h)
    (cs : List BlComp) (hcs : ∀ c ∈ cs, c.h ≤ maxH ∧ c.v ≤ maxV) (al : List Nat)
    (ha : blCompAllocs w h maxH maxV cs = .ok al) : ∀ a ∈ al, a ≤ 64 * (w * h) := by
  induction cs generalizing al with
  | nil => simp [blCompAllocs] at ha; subst ha; intro a h'; cases h'
  | cons c cs ih =>
    unfold blCompAllocs at ha
    split at ha
    · cases ha
    · rename_i cw hcw
      split at ha
      · cases ha
      · rename_i ch hch
        split at ha
        · rename_i al' hal
          injection ha with ha; subst ha
          have hc := hcs c (by simp)
          have h1 := divCeil_comp_le w c.h maxH cw hc.1 hH hw hcw
          have h2 := divCeil_comp_le h c.v maxV ch hc.2 hV hh hch
          intro a h'
          rcases List.mem_cons.mp h' with h' | h'
          · subst h'
            have : cw * ch ≤ w * h := Nat.mul_le_mul h1 h2
            omega
          · exact ih (fun c' hc' => hcs c' (List.mem_cons_of_mem _ hc')) al' hal a h'
        · cases ha

theorem blComps_len (n : Nat) (data : Bytes) (acc cs : List BlComp) (h : blComps n data acc = some cs) :
    cs.length = acc.length + n := by
  induction n generalizing data acc with
  | zero => simp [blComps] at h; subst h; rfl
  | succ n ih =>
    match data with
    | id :: hv :: tq :: rest =>
      unfold blComps at h
      simp only at h
      split at h
      · cases h
      · have := ih rest _ h; simp at this; omega
    | [] => simp [blComps] at h
    | [_] => simp [blComps] at h
    | [_, _] => simp [blComps] at h

/-- what an accepted baseline frame header does -/
theorem blSOF_spec {st st' : Bl} {data : Bytes} {al : List Nat} (h : blSOF st data = .ok (st', al)) :
    st.comps = [] ∧ st'.comps ≠ [] ∧ st'.allocs = st.allocs ∧
    ∀ a ∈ al, a ≤ 24 ∨ a ≤ 64 * (st'.width * st'.height) := by
  unfold blSOF at h
  by_cases h1 : data.length < 6
  · rw [if_pos h1] at h; cases h
  rw [if_neg h1] at h
  by_cases h2 : st.comps.length > 0
  · rw [if_pos h2] at h; cases h
  rw [if_neg h2] at h
  have hc : st.comps = [] := by
    cases hcs : st.comps with
    | nil => rfl
    | cons a b => rw [hcs] at h2; simp at h2
  by_cases h3 : data.getD 0 0 ≠ 8
  · rw [if_pos h3] at h; cases h
  rw [if_neg h3] at h
  simp only at h
  by_cases h4 : data.getD 3 0 * 256 + data.getD 4 0 = 0 ∨ data.getD 1 0 * 256 + data.getD 2 0 = 0
  · rw [if_pos h4] at h; cases h
  rw [if_neg h4] at h
  by_cases h5 : data.getD 5 0 ≠ 1 ∧ data.getD 5 0 ≠ 3
  · rw [if_pos h5] at h; cases h
  rw [if_neg h5] at h
  by_cases h6 : data.length < 6 + data.getD 5 0 * 3
  · rw [if_pos h6] at h; cases h
  rw [if_neg h6] at h
  split at h
  · cases h
  · rename_i cs hcs
    have hlen := blComps_len _ _ _ _ hcs
    simp only [List.length_nil, Nat.zero_add] at hlen
    split at h
    · cases h
    · split at h
      · cases h
      · split at h
        · rename_i al' hal
          injection h with h; injection h with e1 e2; subst e1; subst e2
          refine ⟨hc, ?_, rfl, ?_⟩
          · intro he
            have : cs.length = 0 := by simp at he; rw [he]; rfl
            omega
          · intro a h'
            rcases List.mem_cons.mp h' with h' | h'
            · left; omega
            · right
              exact blCompAllocs_bound _ _ _ _ (maxOf_pos _ _) (maxOf_pos _ _) (by omega) (by omega) cs
                (fun c hc' => ⟨le_foldl_max (·.h) cs 1 c hc', le_foldl_max (·.v) cs 1 c hc'⟩) al' hal a h'
        · cases h

theorem blSelectors_len (n : Nat) (data : Bytes) (comps cs : List BlComp)
    (h : blSelectors n data comps = some cs) : cs.length = comps.length := by
  induction n generalizing data comps with
  | zero => simp [blSelectors] at h; subst h; rfl
  | succ n ih =>
    match data with
    | c :: td :: rest =>
      unfold blSelectors at h
      split at h
      · split at h
        · cases h
        · have := ih rest _ h; simpa using this
      · cases h
    | [] => simp [blSelectors] at h
    | [_] => simp [blSelectors] at h

theorem blSOS_fields {st st' : Bl} {data : Bytes} (h : blSOS st data = some st') :
    st'.width = st.width ∧ st'.height = st.height ∧ st'.allocs = st.allocs ∧ st'.comps.length = st.comps.length := by
  unfold blSOS at h
  split at h
  · cases h
  · split at h
    · cases h
    · split at h
      · cases h
      · rename_i cs hs
        injection h with h; subst h
        exact ⟨rfl, rfl, rfl, blSelectors_len _ _ _ _ hs⟩

def BlGood (N : Nat) (st : Bl) (bs : Bytes) : Prop :=
  IsBytes bs ∧ bs.length ≤ N ∧ (st.comps = [] → ∀ a ∈ st.allocs, Small N a) ∧
  (∀ a ∈ st.allocs, Small N a ∨ a ≤ 64 * (st.width * st.height))

def BlFinal (N : Nat) (p : Bl × Res) : Prop :=
  ∀ a ∈ p.1.allocs, Small N a ∨ a ≤ 64 * (p.1.width * p.1.height)

theorem blStep_more_good {N : Nat} {st st' : Bl} {bs r : Bytes} (hg : BlGood N st bs)
    (h : blStep st bs = .more st' r) : BlGood N st' r := by
  obtain ⟨hb, hl, h0, ha⟩ := hg
  unfold blStep at h
  split at h
  · cases h
  · rename_i m rest hm
    have hrb := readMarker_isBytes hb hm
    have hrl := readMarker_progress hm
    have keep : ∀ (xs : List Nat), (∀ x ∈ xs, x ≤ N) → ∀ (st1 : Bl), st1.width = st.width → st1.height = st.height →
        st1.comps = st.comps → st1.allocs = st.allocs ++ xs → ∀ r', IsBytes r' → r'.length ≤ N → BlGood N st1 r' := by
      intro xs hxs st1 e1 e2 e3 e5 r' hr1 hr2
      refine ⟨hr1, hr2, ?_, ?_⟩
      · intro he; rw [e3] at he; rw [e5]
        exact mem_append_small (h0 he) (small_list _ hxs)
      · rw [e5, e1, e2]
        exact or_append ha (fun a h' => Or.inl (small_list _ hxs a h'))
    try simp only at h
    split at h
    · obtain ⟨pl, hr, hh⟩ := segTurn_more' h
      have hpl := readSegment_progress hr
      try simp only at hh
      split at hh
      · rename_i st2 al hs
        obtain ⟨hcs, hne, hal0, hal⟩ := blSOF_spec hs
        injection hh with hh; subst hh
        refine ⟨readSegment_isBytes hrb hr, by omega, ?_, ?_⟩
        · intro he; exact absurd he hne
        · intro a h'
          simp only at h'
          rcases List.mem_append.mp h' with h' | h'
          · left
            exact mem_append_small (h0 hcs) (small_list _ (by intro x hx; simp at hx; omega)) a h'
          · rcases hal a h' with h2 | h2
            · left; right; omega
            · right; exact h2
      · cases hh
    · split at h
      · obtain ⟨pl, hr, hh⟩ := segTurn_more' h
        have hpl := readSegment_progress hr
        try simp only at hh
        split at hh
        · injection hh with hh; subst hh
          apply keep [pl.length] (by intro x hx; simp at hx; omega) <;>
            first | rfl | exact readSegment_isBytes hrb hr | omega
        · cases hh
      · split at h
        · obtain ⟨pl, hr, hh⟩ := segTurn_more' h
          have hpl := readSegment_progress hr
          try simp only at hh
          split at hh
          · injection hh with hh; subst hh
            apply keep [pl.length, pl.length] (by intro x hx; simp at hx; omega) <;>
              first | rfl | exact readSegment_isBytes hrb hr | omega
          · cases hh
        · split at h
          · obtain ⟨pl, hr, hh⟩ := segTurn_more' h
            have hpl := readSegment_progress hr
            try simp only at hh
            split at hh
            · cases hh
            · injection hh with hh; subst hh
              apply keep [pl.length] (by intro x hx; simp at hx; omega) <;>
                first | rfl | exact readSegment_isBytes hrb hr | omega
          · split at h
            · obtain ⟨pl, hr, hh⟩ := segTurn_more' h
              try simp only at hh
              split at hh <;> cases hh
            · split at h
              · cases h
              · split at h
                · obtain ⟨pl, hr, hh⟩ := segTurn_more' h
                  have hpl := readSegment_progress hr
                  try simp only at hh
                  injection hh with hh; subst hh
                  apply keep [pl.length] (by intro x hx; simp at hx; omega) <;>
                    first | rfl | exact readSegment_isBytes hrb hr | omega
                · injection h with h1 h2; subst h1; subst h2
                  exact ⟨hrb, by omega, h0, ha⟩

theorem blStep_done_final {N : Nat} {st st' : Bl} {bs : Bytes} {o : Res} (hg : BlGood N st bs)
    (h : blStep st bs = .done st' o) : BlFinal N (st', o) := by
  obtain ⟨hb, hl, h0, ha⟩ := hg
  unfold blStep at h
  split at h
  · injection h with h1 h2; subst h1; exact ha
  · rename_i m rest hm
    have hrb := readMarker_isBytes hb hm
    have hrl := readMarker_progress hm
    have hfail : BlFinal N ({ st with allocs := st.allocs ++ [readSegmentAlloc rest] }, Res.err) :=
      or_append ha (by intro a h'; simp at h'; subst h'; left; right; exact readSegmentAlloc_le hrb)
    have same : ∀ (xs : List Nat), (∀ x ∈ xs, x ≤ N) → ∀ (st1 : Bl) (o1 : Res), st1.width = st.width → st1.height = st.height →
        st1.allocs = st.allocs ++ xs → BlFinal N (st1, o1) := by
      intro xs hxs st1 o1 e1 e2 e5
      show ∀ a ∈ st1.allocs, Small N a ∨ a ≤ 64 * (st1.width * st1.height)
      rw [e5, e1, e2]
      exact or_append ha (fun a h' => Or.inl (small_list _ hxs a h'))
    try simp only at h
    split at h
    · rcases segTurn_done' h with ⟨h1, _⟩ | ⟨pl, rest2, hr, hh⟩
      · subst h1; exact hfail
      · have hpl := readSegment_progress hr
        try simp only at hh
        split at hh
        · cases hh
        · injection hh with h1 _; subst h1
          apply same [pl.length] (by intro x hx; simp at hx; omega) <;> rfl
    · split at h
      · rcases segTurn_done' h with ⟨h1, _⟩ | ⟨pl, rest2, hr, hh⟩
        · subst h1; exact hfail
        · have hpl := readSegment_progress hr
          try simp only at hh
          split at hh
          · cases hh
          · injection hh with h1 _; subst h1
            apply same [pl.length] (by intro x hx; simp at hx; omega) <;> rfl
      · split at h
        · rcases segTurn_done' h with ⟨h1, _⟩ | ⟨pl, rest2, hr, hh⟩
          · subst h1; exact hfail
          · have hpl := readSegment_progress hr
            try simp only at hh
            split at hh
            · cases hh
            · injection hh with h1 _; subst h1
              apply same [pl.length, pl.length] (by intro x hx; simp at hx; omega) <;> rfl
        · split at h
          · rcases segTurn_done' h with ⟨h1, _⟩ | ⟨pl, rest2, hr, hh⟩
            · subst h1; exact hfail
            · have hpl := readSegment_progress hr
              try simp only at hh
              split at hh
              · injection hh with h1 _; subst h1
                apply same [pl.length] (by intro x hx; simp at hx; omega) <;> rfl
              · cases hh
          · split at h
            · rcases segTurn_done' h with ⟨h1, _⟩ | ⟨pl, rest2, hr, hh⟩
              · subst h1; exact hfail
              · have hpl := readSegment_progress hr
                try simp only at hh
                split at hh
                · injection hh with h1 _; subst h1
                  apply same [pl.length] (by intro x hx; simp at hx; omega) <;> rfl
                · rename_i st2 hs
                  have hf := blSOS_fields hs
                  injection hh with h1 _; subst h1
                  apply same [pl.length, rest2.length] (by intro x hx; simp at hx; omega)
                  · exact hf.1
                  · exact hf.2.1
                  · rfl
            · split at h
              · injection h with h1 _; subst h1; exact ha
              · split at h
                · rcases segTurn_done' h with ⟨h1, _⟩ | ⟨pl, rest2, hr, hh⟩
                  · subst h1; exact hfail
                  · cases hh
                · cases h

/-- C09, baseline (with the second-SOF rejection): every allocation up to the first Huffman symbol is
    at most len(input), or 65533, or 64·w·h of the decoder's frame header (component planes are padded
    to whole 8×8 blocks of the MCU grid) -/
theorem blDecode_allocs (bs : Bytes) (hb : IsBytes bs) :
    ∀ a ∈ (blDecode bs).1.allocs, a ≤ bs.length ∨ a ≤ 65533 ∨
      a ≤ 64 * ((blDecode bs).1.width * (blDecode bs).1.height) := by
  unfold blDecode
  split
  · simp
  · rename_i m rest hm
    split
    · simp
    · have hl := readMarker_progress hm
      have h := run_inv blStep blStep_lt (BlGood bs.length) (BlFinal bs.length)
        (fun st b st' r hi hs => blStep_more_good hi hs)
        (fun st b st' o hi hs => blStep_done_final hi hs)
        {} rest ⟨readMarker_isBytes hb hm, by omega, (fun _ a h => by cases h), (fun a h => by cases h)⟩
      intro a ha
      rcases h a ha with (h1 | h1) | h1
      · exact Or.inl h1
      · exact Or.inr (Or.inl h1)
      · exact Or.inr (Or.inr h1)
end JM

namespace JlsH
open PC JM

/-! near-lossless JPEG-LS: allocations up to the start of the scan -/

theorem nsof55Core_allocs {st st' : St} {data : Bytes} :
    (nsof55Core st data = .cont st' → st'.allocs = st.allocs) ∧
    (∀ o, nsof55Core st data = .stop st' o → st'.allocs = st.allocs) := by
  unfold nsof55Core
  split
  · exact ⟨fun h => (by cases h), fun o h => (by injection h with h1 _; subst h1; rfl)⟩
  · exact ⟨fun h => (by injection h with h1; subst h1; rfl), fun o h => (by cases h)⟩

theorem nsof55_allocs {st st' : St} {data : Bytes} :
    (nsof55 st data = .cont st' → st'.allocs = st.allocs) ∧
    (∀ o, nsof55 st data = .stop st' o → st'.allocs = st.allocs) := by
  unfold nsof55
  by_cases hc : st.comps ≠ 0
  · rw [if_pos hc]
    exact ⟨(fun h => by cases h), (fun o h => by cases h; rfl)⟩
  · rw [if_neg hc]; exact nsof55Core_allocs

theorem nlse_allocs {st st' : St} {data : Bytes} :
    (nlse st data = .cont st' → st'.allocs = st.allocs) ∧
    (∀ o, nlse st data = .stop st' o → st'.allocs = st.allocs) := by
  unfold nlse
  split
  · exact ⟨fun h => (by cases h), fun o h => (by injection h with h1 _; subst h1; rfl)⟩
  · split
    · exact ⟨fun h => (by injection h with h1; subst h1; rfl), fun o h => (by cases h)⟩
    · exact ⟨fun h => (by injection h with h1; subst h1; rfl), fun o h => (by cases h)⟩

/-- what the near-lossless parseSOS leaves behind: nothing new on an error, context table + scan
    buffer + sample buffer of the frame header in force when the scan starts -/
theorem nsos_allocs {N : Nat} {st st' : St} {data : Bytes} {u : Nat} {o : Res} (hu : u ≤ N)
    (ha : ∀ a ∈ st.allocs, Small N a) (h : nsos st data u = .stop st' o) :
    ∀ a ∈ st'.allocs, Small N a ∨ a ≤ 8 * (st'.width * st'.height * st'.comps) := by
  unfold nsos at h
  split at h
  · simp only at h
    split at h
    · injection h with h1 _; subst h1; exact fun a h' => Or.inl (ha a h')
    · injection h with h1 _; subst h1
      intro a h'
      simp only [scanAllocs] at h'
      rcases List.mem_append.mp h' with h' | h'
      · rcases List.mem_append.mp h' with h' | h'
        · exact Or.inl (ha a h')
        · simp at h'; subst h'; exact Or.inl (ctxAlloc_small N)
      · simp at h'
        rcases h' with h' | h'
        · subst h'; left; left; exact hu
        · subst h'; right; exact Nat.le_refl _
  · injection h with h1 _; subst h1; exact fun a h' => Or.inl (ha a h')

theorem nstep_more_good {N : Nat} {st st' : St} {bs r : Bytes} (hg : Good N st bs)
    (h : nstep st bs = .more st' r) : Good N st' r := by
  obtain ⟨hb, hl, ha⟩ := hg
  unfold nstep at h
  split at h
  · cases h
  · rename_i m rest hm
    have hrb := readMarker_isBytes hb hm
    have hrl := readMarker_progress hm
    try simp only at h
    split at h
    · obtain ⟨pl, hr, hh⟩ := segTurn_more' h
      have hpl := readSegment_progress hr
      refine ⟨readSegment_isBytes hrb hr, by omega, ?_⟩
      rw [nsof55_allocs.1 hh]
      exact mem_append_small ha (small_list _ (by intro x hx; simp at hx; omega))
    · split at h
      · obtain ⟨pl, hr, hh⟩ := segTurn_more' h
        have hpl := readSegment_progress hr
        refine ⟨readSegment_isBytes hrb hr, by omega, ?_⟩
        rw [nlse_allocs.1 hh]
        exact mem_append_small ha (small_list _ (by intro x hx; simp at hx; omega))
      · split at h
        · obtain ⟨pl, hr, hh⟩ := segTurn_more' h
          exact absurd hh (nsos_not_cont _ _ _ _)
        · split at h
          · cases h
          · split at h
            · obtain ⟨pl, hr, hh⟩ := segTurn_more' h
              have hpl := readSegment_progress hr
              try simp only at hh
              injection hh with hh; subst hh
              exact ⟨readSegment_isBytes hrb hr, by omega,
                mem_append_small ha (small_list _ (by intro x hx; simp at hx; omega))⟩
            · injection h with h1 h2; subst h1; subst h2
              exact ⟨hrb, by omega, ha⟩

theorem nstep_done_final {N : Nat} {st st' : St} {bs : Bytes} {o : Res} (hg : Good N st bs)
    (h : nstep st bs = .done st' o) : Final N (st', o) := by
  obtain ⟨hb, hl, ha⟩ := hg
  unfold nstep at h
  split at h
  · injection h with h1 h2; subst h1; exact small_final ha _
  · rename_i m rest hm
    have hrb := readMarker_isBytes hb hm
    have hrl := readMarker_progress hm
    have hfail : ∀ a ∈ st.allocs ++ [readSegmentAlloc rest], Small N a :=
      mem_append_small ha (by intro a h'; simp at h'; subst h'; right; exact readSegmentAlloc_le hrb)
    try simp only at h
    split at h
    · rcases segTurn_done' h with ⟨h1, _⟩ | ⟨pl, rest2, hr, hh⟩
      · subst h1; exact small_final hfail _
      · have hpl := readSegment_progress hr
        apply small_final
        rw [nsof55_allocs.2 _ hh]
        exact mem_append_small ha (small_list _ (by intro x hx; simp at hx; omega))
    · split at h
      · rcases segTurn_done' h with ⟨h1, _⟩ | ⟨pl, rest2, hr, hh⟩
        · subst h1; exact small_final hfail _
        · have hpl := readSegment_progress hr
          apply small_final
          rw [nlse_allocs.2 _ hh]
          exact mem_append_small ha (small_list _ (by intro x hx; simp at hx; omega))
      · split at h
        · rcases segTurn_done' h with ⟨h1, _⟩ | ⟨pl, rest2, hr, hh⟩
          · subst h1; exact small_final hfail _
          · have hpl := readSegment_progress hr
            have hr2 := (readSegment_progress hr).1
            exact nsos_allocs (N := N) (by omega)
              (mem_append_small ha (small_list _ (by intro x hx; simp at hx; omega))) hh
        · split at h
          · injection h with h1 _; subst h1; exact small_final ha _
          · split at h
            · rcases segTurn_done' h with ⟨h1, _⟩ | ⟨pl, rest2, hr, hh⟩
              · subst h1; exact small_final hfail _
              · cases hh
            · cases h

/-- C09, JPEG-LS near-lossless: every allocation up to the start of the scan is at most the input length,
    or 65533, or the sample buffer 8·w·h·comps of the frame header in force at the scan -/
theorem nheader_allocs (bs : Bytes) (hb : IsBytes bs) :
    ∀ a ∈ (nheader bs).1.allocs, a ≤ bs.length ∨ a ≤ 65533 ∨
      a ≤ 8 * ((nheader bs).1.width * (nheader bs).1.height * (nheader bs).1.comps) := by
  unfold nheader
  split
  · simp
  · rename_i m rest hm
    split
    · simp
    · have hl := readMarker_progress hm
      have h := run_inv nstep nstep_lt (Good bs.length) (Final bs.length)
        (fun st b st' r hi hs => nstep_more_good hi hs)
        (fun st b st' o hi hs => nstep_done_final hi hs)
        {} rest ⟨readMarker_isBytes hb hm, by omega, by intro a h; cases h⟩
      intro a ha
      rcases h a ha with (h1 | h1) | h1
      · exact Or.inl h1
      · exact Or.inr (Or.inl h1)
      · exact Or.inr (Or.inr h1)
end JlsH
