import GdcVerif.Lemmas.ParsersTotal
/-! C09: allocation bounds of the JPEG-family header walks (jpeg/lossless, JPEG-LS lossless). -/
namespace JM
open PC

def IsBytes (bs : Bytes) : Prop := ∀ b ∈ bs, b < 256

theorem isBytes_drop {bs : Bytes} (h : IsBytes bs) (k : Nat) : IsBytes (bs.drop k) :=
  fun b hb => h b (List.mem_of_mem_drop hb)

theorem isBytes_tail {a : Nat} {bs : Bytes} (h : IsBytes (a :: bs)) : IsBytes bs :=
  fun b hb => h b (List.mem_cons_of_mem _ hb)

theorem skipFill_isBytes {bs rest : Bytes} {m : Nat} (hb : IsBytes bs) (h : skipFill bs = some (m, rest)) : IsBytes rest := by
  induction bs with
  | nil => simp [skipFill] at h
  | cons b tl ih =>
    unfold skipFill at h
    split at h
    · exact ih (isBytes_tail hb) h
    · injection h with h; injection h with _ h2; subst h2; exact isBytes_tail hb

theorem readMarker_isBytes {bs rest : Bytes} {m : Nat} (hb : IsBytes bs) (h : readMarker bs = some (m, rest)) : IsBytes rest := by
  cases bs with
  | nil => simp [readMarker] at h
  | cons b tl =>
    unfold readMarker at h
    by_cases hb' : b ≠ 0xFF
    · simp [hb'] at h
    · simp only [hb', if_false] at h
      cases hs : skipFill tl with
      | none => simp [hs] at h
      | some p =>
        obtain ⟨m', rest'⟩ := p
        simp only [hs] at h
        by_cases hm : m' = 0
        · simp [hm] at h
        · simp only [hm, if_false] at h
          injection h with h; injection h with _ h2; subst h2
          exact skipFill_isBytes (isBytes_tail hb) hs

theorem readSegment_isBytes {bs pl rest : Bytes} (hb : IsBytes bs) (h : readSegment bs = some (pl, rest)) : IsBytes rest := by
  match bs, h with
  | hi :: lo :: tl, h =>
    unfold readSegment at h
    simp only at h
    split at h
    · cases h
    · split at h
      · cases h
      · injection h with h; injection h with _ h2; subst h2
        exact isBytes_drop (isBytes_tail (isBytes_tail hb)) _

theorem readSegmentAlloc_le {bs : Bytes} (hb : IsBytes bs) : readSegmentAlloc bs ≤ 65533 := by
  match bs with
  | [] => simp [readSegmentAlloc]
  | [_] => simp [readSegmentAlloc]
  | hi :: lo :: r =>
    have h1 := hb hi (by simp)
    have h2 := hb lo (by simp)
    unfold readSegmentAlloc
    simp only
    split <;> omega

theorem segTurn_more' {σ : Type} {st st' : σ} {rest r : Bytes} {fail : σ → Nat → σ} {h : Bytes → Nat → H σ}
    (hs : segTurn st rest fail h = .more st' r) :
    ∃ pl, readSegment rest = some (pl, r) ∧ h pl r.length = .cont st' := by
  unfold segTurn at hs
  split at hs
  · cases hs
  · split at hs
    · injection hs with h1 h2; subst h1; subst h2
      exact ⟨_, by assumption, by assumption⟩
    · cases hs

theorem segTurn_done' {σ : Type} {st st' : σ} {rest : Bytes} {fail : σ → Nat → σ} {h : Bytes → Nat → H σ} {o : Res}
    (hs : segTurn st rest fail h = .done st' o) :
    (st' = fail st (readSegmentAlloc rest) ∧ o = .err) ∨
    ∃ pl rest2, readSegment rest = some (pl, rest2) ∧ h pl rest2.length = .stop st' o := by
  unfold segTurn at hs
  split at hs
  · injection hs with h1 h2; exact Or.inl ⟨h1.symm, h2.symm⟩
  · split at hs
    · cases hs
    · injection hs with h1 h2; subst h1; subst h2
      exact Or.inr ⟨_, _, by assumption, by assumption⟩

/-- allocations that do not depend on the declared frame: at most the input length, or the
    64 KiB a failing ReadSegment may have allocated -/
def Small (N : Nat) (a : Nat) : Prop := a ≤ N ∨ a ≤ 65533

def JllGood (N : Nat) (st : Jll) (bs : Bytes) : Prop :=
  IsBytes bs ∧ bs.length ≤ N ∧ st.comps ≤ 3 ∧ st.precision ≤ 16 ∧ ∀ a ∈ st.allocs, Small N a

def JllFinal (N : Nat) (p : Jll × Res) : Prop :=
  ∀ a ∈ p.1.allocs, Small N a ∨ a ≤ 8 * (p.1.width * p.1.height)

theorem small_list {N : Nat} (xs : List Nat) (h : ∀ x ∈ xs, x ≤ N) : ∀ a ∈ xs, Small N a :=
  fun a ha => Or.inl (h a ha)

theorem mem_append_small {N : Nat} {l : List Nat} {xs : List Nat} (hl : ∀ a ∈ l, Small N a) (hx : ∀ a ∈ xs, Small N a) :
    ∀ a ∈ l ++ xs, Small N a := by
  intro a ha
  rcases List.mem_append.mp ha with h | h
  · exact hl a h
  · exact hx a h

theorem jllSOF3_fields {st st' : Jll} {data : Bytes} (h : jllSOF3 st data = some st') :
    st'.comps ≤ 3 ∧ st'.precision ≤ 16 ∧ st'.allocs = st.allocs := by
  unfold jllSOF3 at h
  simp only at h
  repeat' split at h
  all_goals first
    | (cases h; done)
    | (injection h with h; subst h
       refine ⟨?_, ?_, rfl⟩
       · show data.getD 5 0 ≤ 3; omega
       · show data.getD 0 0 ≤ 16; omega)

theorem jllSOS_fields {st st' : Jll} {data : Bytes} (h : jllSOS st data = .ok st') :
    st'.comps = st.comps ∧ st'.precision = st.precision ∧ st'.width = st.width ∧ st'.height = st.height := by
  unfold jllSOS at h
  simp only at h
  repeat' split at h
  all_goals first
    | (cases h; done)
    | (injection h with h; subst h; exact ⟨rfl, rfl, rfl, rfl⟩)

theorem jllStep_more_good {N : Nat} {st st' : Jll} {bs r : Bytes} (hg : JllGood N st bs)
    (h : jllStep st bs = .more st' r) : JllGood N st' r := by
  obtain ⟨hb, hl, hc, hp, ha⟩ := hg
  unfold jllStep at h
  split at h
  · cases h
  · rename_i m rest hm
    have hrb := readMarker_isBytes hb hm
    have hrl := readMarker_progress hm
    try simp only at h
    split at h
    · obtain ⟨pl, hr, hh⟩ := segTurn_more' h
      have hpl := readSegment_progress hr
      try simp only at hh
      split at hh
      · cases hh
      · rename_i st2 hs
        injection hh with hh; subst hh
        have hf := jllSOF3_fields hs
        refine ⟨readSegment_isBytes hrb hr, by omega, hf.1, hf.2.1, ?_⟩
        exact mem_append_small ha (small_list _ (by intro x hx; simp at hx; omega))
    · split at h
      · obtain ⟨pl, hr, hh⟩ := segTurn_more' h
        have hpl := readSegment_progress hr
        try simp only at hh
        split at hh
        · injection hh with hh; subst hh
          refine ⟨readSegment_isBytes hrb hr, by omega, hc, hp, ?_⟩
          exact mem_append_small ha (small_list _ (by intro x hx; simp at hx; omega))
        · cases hh
      · split at h
        · obtain ⟨pl, hr, hh⟩ := segTurn_more' h
          try simp only at hh
          repeat' split at hh
          all_goals cases hh
        · split at h
          · cases h
          · split at h
            · obtain ⟨pl, hr, hh⟩ := segTurn_more' h
              have hpl := readSegment_progress hr
              try simp only at hh
              injection hh with hh; subst hh
              refine ⟨readSegment_isBytes hrb hr, by omega, hc, hp, ?_⟩
              exact mem_append_small ha (small_list _ (by intro x hx; simp at hx; omega))
            · injection h with h1 h2; subst h1; subst h2
              exact ⟨hrb, by omega, hc, hp, ha⟩

theorem small_final {N : Nat} {st : Jll} (ha : ∀ a ∈ st.allocs, Small N a) (o : Res) : JllFinal N (st, o) :=
  fun a h => Or.inl (ha a h)

theorem jllStep_done_final {N : Nat} {st st' : Jll} {bs : Bytes} {o : Res} (hg : JllGood N st bs)
    (h : jllStep st bs = .done st' o) : JllFinal N (st', o) := by
  obtain ⟨hb, hl, hc, hp, ha⟩ := hg
  unfold jllStep at h
  split at h
  · injection h with h1 h2; subst h1; exact small_final ha _
  · rename_i m rest hm
    have hrb := readMarker_isBytes hb hm
    have hrl := readMarker_progress hm
    have hfail : ∀ a ∈ st.allocs ++ [readSegmentAlloc rest], Small N a :=
      mem_append_small ha (by intro a h'; simp at h'; subst h'; right; exact readSegmentAlloc_le hrb)
    try simp only at h
    split at h
    · rcases segTurn_done' h with ⟨h1, _⟩ | ⟨pl, rest2, hr, hh⟩
      · subst h1; exact small_final hfail _
      · have hpl := readSegment_progress hr
        try simp only at hh
        split at hh
        · injection hh with h1 _; subst h1
          exact small_final (mem_append_small ha (small_list _ (by intro x hx; simp at hx; omega))) _
        · cases hh
    · split at h
      · rcases segTurn_done' h with ⟨h1, _⟩ | ⟨pl, rest2, hr, hh⟩
        · subst h1; exact small_final hfail _
        · have hpl := readSegment_progress hr
          try simp only at hh
          split at hh
          · cases hh
          · injection hh with h1 _; subst h1
            exact small_final (mem_append_small ha (small_list _ (by intro x hx; simp at hx; omega))) _
      · split at h
        · rcases segTurn_done' h with ⟨h1, _⟩ | ⟨pl, rest2, hr, hh⟩
          · subst h1; exact small_final hfail _
          · have hpl := readSegment_progress hr
            try simp only at hh
            split at hh
            · injection hh with h1 _; subst h1
              exact small_final (mem_append_small ha (small_list _ (by intro x hx; simp at hx; omega))) _
            · rename_i st2 hs
              have hf := jllSOS_fields hs
              have hbase : ∀ a ∈ st.allocs ++ [pl.length, rest2.length] ++ List.replicate st2.comps (8 * (st2.width * st2.height)),
                  Small N a ∨ a ≤ 8 * (st2.width * st2.height) := by
                intro a h'
                rcases List.mem_append.mp h' with h' | h'
                · rcases List.mem_append.mp h' with h' | h'
                  · exact Or.inl (ha a h')
                  · left; exact small_list _ (by intro x hx; simp at hx; omega) a h'
                · right; have := List.eq_of_mem_replicate h'; omega
              split at hh
              · injection hh with h1 _; subst h1
                intro a h'
                simp only at h'
                rcases List.mem_append.mp h' with h' | h'
                · exact hbase a h'
                · simp at h'; subst h'
                  right
                  have h3 : st2.comps ≤ 3 := by rw [hf.1]; exact hc
                  have h16 : (st2.precision + 7) / 8 ≤ 2 := by rw [hf.2.1]; omega
                  calc st2.width * st2.height * st2.comps * ((st2.precision + 7) / 8)
                      ≤ st2.width * st2.height * 3 * 2 := Nat.mul_le_mul (Nat.mul_le_mul_left _ h3) h16
                    _ ≤ 8 * (st2.width * st2.height) := by omega
              · injection hh with h1 _; subst h1
                exact hbase
        · split at h
          · injection h with h1 _; subst h1; exact small_final ha _
          · split at h
            · rcases segTurn_done' h with ⟨h1, _⟩ | ⟨pl, rest2, hr, hh⟩
              · subst h1; exact small_final hfail _
              · cases hh
            · cases h

/-- C09, jpeg/lossless: every allocation up to the start of entropy decoding is at most the input
    length, or 65533 (a failing ReadSegment), or 8·w·h of the frame header in force at the scan -/
theorem jllDecode_allocs (bs : Bytes) (hb : IsBytes bs) :
    ∀ a ∈ (jllDecode bs).1.allocs, a ≤ bs.length ∨ a ≤ 65533 ∨ a ≤ 8 * ((jllDecode bs).1.width * (jllDecode bs).1.height) := by
  unfold jllDecode
  split
  · simp
  · rename_i m rest hm
    split
    · simp
    · have hl := readMarker_progress hm
      have h := run_inv jllStep jllStep_lt (JllGood bs.length) (JllFinal bs.length)
        (fun st b st' r hi hs => jllStep_more_good hi hs)
        (fun st b st' o hi hs => jllStep_done_final hi hs)
        {} rest ⟨readMarker_isBytes hb hm, by omega, by decide, by decide, by intro a h; cases h⟩
      intro a ha
      rcases h a ha with (h1 | h1) | h1
      · exact Or.inl h1
      · exact Or.inr (Or.inl h1)
      · exact Or.inr (Or.inr h1)
end JM

namespace JlsH
open PC JM

def Good (N : Nat) (st : St) (bs : Bytes) : Prop :=
  IsBytes bs ∧ bs.length ≤ N ∧ ∀ a ∈ st.allocs, Small N a

def Final (N : Nat) (p : St × Res) : Prop :=
  ∀ a ∈ p.1.allocs, Small N a ∨ a ≤ 8 * (p.1.width * p.1.height * p.1.comps)

theorem ctxAlloc_small (N : Nat) : Small N ctxAlloc := Or.inr (by decide)

theorem sof55_allocs {N : Nat} {st st' : St} {data : Bytes} (ha : ∀ a ∈ st.allocs, Small N a) :
    (sof55 st data = .cont st' → ∀ a ∈ st'.allocs, Small N a) ∧
    (∀ o, sof55 st data = .stop st' o → ∀ a ∈ st'.allocs, Small N a) := by
  unfold sof55
  repeat' split
  all_goals first
    | (constructor
       · intro h; cases h; done
       · intro o h; injection h with h1 _; subst h1; exact ha)
    | (constructor
       · intro h; injection h with h1; subst h1
         exact mem_append_small ha (by intro a h'; simp at h'; subst h'; exact ctxAlloc_small N)
       · intro o h; cases h; done)

theorem lse_allocs {N : Nat} {st st' : St} {data : Bytes} (ha : ∀ a ∈ st.allocs, Small N a) :
    (lse st data = .cont st' → ∀ a ∈ st'.allocs, Small N a) ∧
    (∀ o, lse st data = .stop st' o → ∀ a ∈ st'.allocs, Small N a) := by
  have stopCase : ∀ r : Res, (H.stop st r = H.cont st' → ∀ a ∈ st'.allocs, Small N a) ∧
      (∀ o, H.stop st r = H.stop st' o → ∀ a ∈ st'.allocs, Small N a) := by
    intro r
    constructor
    · intro h; cases h
    · intro o h; injection h with h1 _; subst h1; exact ha
  unfold lse
  split
  · exact stopCase _
  · split
    · constructor
      · intro h; injection h with h1; subst h1; exact ha
      · intro o h; cases h
    · split
      · exact stopCase _
      · simp only
        split
        · exact stopCase _
        · constructor
          · intro h; injection h with h1; subst h1
            exact mem_append_small ha (by intro a h'; simp at h'; subst h'; exact ctxAlloc_small N)
          · intro o h; cases h

theorem step_more_good {N : Nat} {st st' : St} {bs r : Bytes} (hg : Good N st bs)
    (h : step st bs = .more st' r) : Good N st' r := by
  obtain ⟨hb, hl, ha⟩ := hg
  unfold step at h
  split at h
  · cases h
  · rename_i m rest hm
    have hrb := readMarker_isBytes hb hm
    have hrl := readMarker_progress hm
    try simp only at h
    split at h
    · obtain ⟨pl, hr, hh⟩ := segTurn_more' h
      have hpl := readSegment_progress hr
      refine ⟨readSegment_isBytes hrb hr, by omega, ?_⟩
      exact (sof55_allocs (N := N) (mem_append_small ha (small_list _ (by intro x hx; simp at hx; omega)))).1 hh
    · split at h
      · obtain ⟨pl, hr, hh⟩ := segTurn_more' h
        have hpl := readSegment_progress hr
        refine ⟨readSegment_isBytes hrb hr, by omega, ?_⟩
        exact (lse_allocs (N := N) (mem_append_small ha (small_list _ (by intro x hx; simp at hx; omega)))).1 hh
      · split at h
        · obtain ⟨pl, hr, hh⟩ := segTurn_more' h
          try simp only at hh
          split at hh <;> cases hh
        · split at h
          · cases h
          · split at h
            · obtain ⟨pl, hr, hh⟩ := segTurn_more' h
              have hpl := readSegment_progress hr
              try simp only at hh
              injection hh with hh; subst hh
              exact ⟨readSegment_isBytes hrb hr, by omega,
                mem_append_small ha (small_list _ (by intro x hx; simp at hx; omega))⟩
            · injection h with h1 h2; subst h1; subst h2
              exact ⟨hrb, by omega, ha⟩

theorem small_final {N : Nat} {st : St} (ha : ∀ a ∈ st.allocs, Small N a) (o : Res) : Final N (st, o) :=
  fun a h => Or.inl (ha a h)

theorem step_done_final {N : Nat} {st st' : St} {bs : Bytes} {o : Res} (hg : Good N st bs)
    (h : step st bs = .done st' o) : Final N (st', o) := by
  obtain ⟨hb, hl, ha⟩ := hg
  unfold step at h
  split at h
  · injection h with h1 h2; subst h1; exact small_final ha _
  · rename_i m rest hm
    have hrb := readMarker_isBytes hb hm
    have hrl := readMarker_progress hm
    have hfail : ∀ a ∈ st.allocs ++ [readSegmentAlloc rest], Small N a :=
      mem_append_small ha (by intro a h'; simp at h'; subst h'; right; exact readSegmentAlloc_le hrb)
    try simp only at h
    split at h
    · rcases segTurn_done' h with ⟨h1, _⟩ | ⟨pl, rest2, hr, hh⟩
      · subst h1; exact small_final hfail _
      · have hpl := readSegment_progress hr
        exact small_final ((sof55_allocs (N := N) (mem_append_small ha (small_list _ (by intro x hx; simp at hx; omega)))).2 _ hh) _
    · split at h
      · rcases segTurn_done' h with ⟨h1, _⟩ | ⟨pl, rest2, hr, hh⟩
        · subst h1; exact small_final hfail _
        · have hpl := readSegment_progress hr
          exact small_final ((lse_allocs (N := N) (mem_append_small ha (small_list _ (by intro x hx; simp at hx; omega)))).2 _ hh) _
      · split at h
        · rcases segTurn_done' h with ⟨h1, _⟩ | ⟨pl, rest2, hr, hh⟩
          · subst h1; exact small_final hfail _
          · have hpl := readSegment_progress hr
            try simp only at hh
            split at hh
            · injection hh with h1 _; subst h1
              intro a h'
              simp only [scanAllocs] at h'
              rcases List.mem_append.mp h' with h' | h'
              · left
                exact mem_append_small ha (small_list _ (by intro x hx; simp at hx; omega)) a h'
              · simp at h'
                rcases h' with h' | h'
                · subst h'; left; left; omega
                · subst h'; right; exact Nat.le_refl _
            · injection hh with h1 _; subst h1
              exact small_final (mem_append_small ha (small_list _ (by intro x hx; simp at hx; omega))) _
        · split at h
          · injection h with h1 _; subst h1; exact small_final ha _
          · split at h
            · rcases segTurn_done' h with ⟨h1, _⟩ | ⟨pl, rest2, hr, hh⟩
              · subst h1; exact small_final hfail _
              · cases hh
            · cases h

/-- C09, JPEG-LS lossless: every allocation up to the start of the scan is at most the input length,
    or 65533, or the sample buffer 8·w·h·comps of the frame header in force at the scan -/
theorem header_allocs (bs : Bytes) (hb : IsBytes bs) :
    ∀ a ∈ (header bs).1.allocs, a ≤ bs.length ∨ a ≤ 65533 ∨
      a ≤ 8 * ((header bs).1.width * (header bs).1.height * (header bs).1.comps) := by
  unfold header
  split
  · simp
  · rename_i m rest hm
    split
    · simp
    · have hl := readMarker_progress hm
      have h := run_inv step step_lt (Good bs.length) (Final bs.length)
        (fun st b st' r hi hs => step_more_good hi hs)
        (fun st b st' o hi hs => step_done_final hi hs)
        {} rest ⟨readMarker_isBytes hb hm, by omega, by intro a h; cases h⟩
      intro a ha
      rcases h a ha with (h1 | h1) | h1
      · exact Or.inl h1
      · exact Or.inr (Or.inl h1)
      · exact Or.inr (Or.inr h1)
end JlsH
