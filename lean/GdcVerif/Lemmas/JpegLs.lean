import GdcVerif.Gen.JpegLs
import GdcVerif.Lemmas.GoBits
import GdcVerif.Model.JpegLsBits
/-!
  Lemmas about the GENERATED JPEG-LS kernels (`Gen/JpegLs.lean`, regenerated from
  /repo/jpegls/lossless on every run).  Proof scripts only `unfold` the generated names and
  then use `split`/`omega`, so they survive harmless rewrites of the Go text.
-/
namespace JpegLsLemmas
open Gen.JpegLs

/-! ### arithmetic helpers -/

theorem tdiv_nonneg_eq {a b : Int} (h : 0 ≤ a) : Int.tdiv a b = a / b := Int.tdiv_eq_ediv_of_nonneg h

/-- Euclid for a positive divisor, in the shape `omega` can use after `generalize` -/
theorem ediv_bounds (a d : Int) (hd : 0 < d) : d * (a / d) ≤ a ∧ a < d * (a / d) + d := by
  have h1 := Int.mul_ediv_add_emod a d
  have h2 := Int.emod_nonneg a (by omega : d ≠ 0)
  have h3 := Int.emod_lt_of_pos a hd
  constructor <;> omega

theorem two_pow_mono {a b : Nat} (h : a ≤ b) : (2 : Int) ^ a ≤ 2 ^ b := by
  have := Nat.pow_le_pow_right (by decide : 0 < 2) h
  exact_mod_cast this

/-! ### quantiser (traits.go `quantize`) -/

/-- |e − quantize(e)·(2·NEAR+1)| ≤ NEAR -/
theorem quantize_bound (t : Traits) (e : Int) (hn : 0 ≤ t.Near) :
    -t.Near ≤ e - Traits.quantize t e * (2 * t.Near + 1) ∧
      e - Traits.quantize t e * (2 * t.Near + 1) ≤ t.Near := by
  unfold Traits.quantize
  generalize t.Near = N at *
  split
  · rename_i h; simp at h; subst h; omega
  · split
    · rename_i _ h; simp at h
      rw [tdiv_nonneg_eq (by omega)]
      have := ediv_bounds (e + N) (2 * N + 1) (by omega)
      generalize (e + N) / (2 * N + 1) = k at *
      have : k * (2 * N + 1) = (2 * N + 1) * k := Int.mul_comm _ _
      constructor <;> omega
    · rename_i _ h; simp at h
      have hneg : (-(N - e)) = -(N - e) := rfl
      rw [Int.neg_tdiv, tdiv_nonneg_eq (by omega)]
      have := ediv_bounds (N - e) (2 * N + 1) (by omega)
      generalize (N - e) / (2 * N + 1) = k at *
      have : -k * (2 * N + 1) = -((2 * N + 1) * k) := by rw [Int.neg_mul, Int.mul_comm]
      constructor <;> omega

/-! ### ModuloRange (traits.go) -/

/-- for `−R < q < R`: the result is `q`, `q+R` or `q−R` and lies in `[(R+1)/2 − R, (R+1)/2)` -/
theorem moduloRange_spec (t : Traits) (q : Int) (hR : 1 ≤ t.Range) (hq : -t.Range < q ∧ q < t.Range) :
    (Traits.ModuloRange t q = q ∨ Traits.ModuloRange t q = q + t.Range ∨ Traits.ModuloRange t q = q - t.Range) ∧
      (t.Range + 1) / 2 - t.Range ≤ Traits.ModuloRange t q ∧ Traits.ModuloRange t q < (t.Range + 1) / 2 := by
  unfold Traits.ModuloRange
  generalize t.Range = R at *
  rw [tdiv_nonneg_eq (by omega : 0 ≤ R + 1)]
  simp only [decide_eq_true_eq]
  split <;> split <;> omega

/-! ### correctPrediction / fixReconstructedValue (traits.go) -/

/-- with `MaxVal = 2^P − 1`: `correctPrediction` clamps to `[0, MaxVal]` -/
theorem correctPrediction_clamp (t : Traits) (P : Nat) (hP : P ≤ 62) (hM : t.MaxVal = (2 : Int) ^ P - 1) (v : Int) :
    Traits.correctPrediction t v = if v < 0 then 0 else if v > t.MaxVal then t.MaxVal else v := by
  unfold Traits.correctPrediction
  rw [hM, Go.and_mask v P hP]
  have hpos : (0 : Int) < 2 ^ P := Int.pow_pos (by decide)
  have h1 := Int.emod_nonneg v (by omega : (2 : Int) ^ P ≠ 0)
  have h2 := Int.emod_lt_of_pos v hpos
  by_cases hv : 0 ≤ v ∧ v < 2 ^ P
  · have : v % 2 ^ P = v := Int.emod_eq_of_lt hv.1 hv.2
    simp only [this, beq_self_eq_true, if_true]
    split
    · omega
    · split <;> omega
  · have hne : ¬ (v % 2 ^ P = v) := by intro h; rw [h] at h1 h2; exact hv ⟨h1, h2⟩
    have : (v % 2 ^ P == v) = false := by simpa using hne
    simp only [this, Bool.false_eq_true, if_false, decide_eq_true_eq]
    split
    · rfl
    · split
      · rfl
      · omega

/-- `(MaxVal+1) & MaxVal == 0` holds for `MaxVal = 2^P − 1` -/
theorem range_pow2 (P : Nat) (hP : P ≤ 62) : Go.and (((2 : Int) ^ P - 1) + 1) ((2 : Int) ^ P - 1) = 0 := by
  rw [Go.and_mask _ P hP]
  have : ((2 : Int) ^ P - 1) + 1 = 2 ^ P := by omega
  rw [this]; exact Int.emod_self

/-- `fixReconstructedValue` undoes one period `RANGE·(2·NEAR+1)` and clamps:
    if `v = w + j·RANGE·(2NEAR+1)` (j ∈ {−1,0,1}) with `w ∈ [−NEAR, MAXVAL+NEAR]` and the period is at
    least `MAXVAL+2NEAR+1`, the result is `w` clamped to `[0, MAXVAL]`.  For NEAR = 0 the code takes
    the `& MaxVal` shortcut, which needs `RANGE = MAXVAL+1`. -/
theorem fixReconstructedValue_spec (t : Traits) (P : Nat) (hP : P ≤ 62) (hM : t.MaxVal = (2 : Int) ^ P - 1)
    (hR0 : t.Near = 0 → t.Range = t.MaxVal + 1)
    (hper : t.MaxVal + 2 * t.Near + 1 ≤ t.Range * (2 * t.Near + 1))
    (v w : Int) (hw : -t.Near ≤ w ∧ w ≤ t.MaxVal + t.Near)
    (hv : v = w ∨ v = w + t.Range * (2 * t.Near + 1) ∨ v = w - t.Range * (2 * t.Near + 1)) :
    Traits.fixReconstructedValue t v = if w < 0 then 0 else if w > t.MaxVal then t.MaxVal else w := by
  unfold Traits.fixReconstructedValue
  have hp2 : (Go.and (t.MaxVal + 1) t.MaxVal == 0) = true := by
    rw [hM, range_pow2 P hP]; rfl
  simp only [hp2, Bool.and_true]
  by_cases h0 : t.Near = 0
  · -- shortcut: value & MaxVal
    have hR := hR0 h0
    simp only [h0, beq_self_eq_true, if_true]
    rw [h0] at hw hv
    rw [hR] at hv
    simp only [Int.mul_zero, Int.zero_add, Int.mul_one, Int.neg_zero, Int.add_zero] at hv hw
    rw [hM] at hv hw ⊢
    rw [Go.and_mask v P hP]
    have e1 : (2 : Int) ^ P - 1 + 1 = 2 ^ P := by omega
    rw [e1] at hv
    have hpos : (0 : Int) < 2 ^ P := Int.pow_pos (by decide)
    have hwm : w % 2 ^ P = w := Int.emod_eq_of_lt hw.1 (by omega)
    have : v % 2 ^ P = w := by
      rcases hv with h | h | h
      · rw [h]; exact hwm
      · rw [h, Int.add_emod_right]; exact hwm
      · rw [h, Int.sub_emod_right]; exact hwm
    rw [this]
    split
    · omega
    · split <;> omega
  · have hb : (t.Near == 0) = false := by simpa using h0
    simp only [hb, Bool.false_eq_true, if_false, decide_eq_true_eq]
    rw [correctPrediction_clamp t P hP hM]
    generalize t.Range * (2 * t.Near + 1) = RD at *
    generalize t.Near = N at *
    generalize t.MaxVal = M at *
    have : (if v < -N then v + RD else if v > M + N then v - RD else v) = w := by
      rcases hv with h | h | h <;> subst h <;> split <;> (try split) <;> omega
    -- the generated text nests the lets; normalise it to the flat if above
    have e : (if v < -N then v + RD else (if v > M + N then v - RD else v)) = w := this
    simp only [e]

/-! ### well-formed parameter sets -/

/-- what the per-sample theorems need from a `Traits` value: `MaxVal = 2^P − 1`, `0 ≤ NEAR ≤ MaxVal/2`
    and `RANGE` as in T.87 A.2.1 (the lossless `MaxVal+1` being the NEAR = 0 instance) -/
structure WF (t : Traits) (P : Nat) : Prop where
  hP : 2 ≤ P ∧ P ≤ 16
  hM : t.MaxVal = (2 : Int) ^ P - 1
  hN : 0 ≤ t.Near ∧ 2 * t.Near ≤ t.MaxVal
  hR : t.Range = (t.MaxVal + 2 * t.Near) / (2 * t.Near + 1) + 1

theorem WF.maxval_ge (h : WF t P) : 3 ≤ t.MaxVal := by
  rw [h.hM]
  have : (2 : Int) ^ 2 ≤ 2 ^ P := two_pow_mono h.hP.1
  simp only [Int.reducePow] at this
  omega

/-- `(RANGE−1)·(2NEAR+1) ≤ MAXVAL+2NEAR < RANGE·(2NEAR+1)` -/
theorem WF.period (h : WF t P) :
    (t.Range - 1) * (2 * t.Near + 1) ≤ t.MaxVal + 2 * t.Near ∧
      t.MaxVal + 2 * t.Near + 1 ≤ t.Range * (2 * t.Near + 1) := by
  have hb := ediv_bounds (t.MaxVal + 2 * t.Near) (2 * t.Near + 1) (by have := h.hN; omega)
  rw [h.hR]
  generalize (t.MaxVal + 2 * t.Near) / (2 * t.Near + 1) = k at *
  have e1 : (k + 1 - 1) * (2 * t.Near + 1) = (2 * t.Near + 1) * k := by
    rw [Int.add_sub_cancel, Int.mul_comm]
  have e2 : (k + 1) * (2 * t.Near + 1) = (2 * t.Near + 1) * k + (2 * t.Near + 1) := by
    rw [Int.add_mul, Int.one_mul, Int.mul_comm]
  rw [e1, e2]; omega

theorem WF.range_lossless (h : WF t P) (h0 : t.Near = 0) : t.Range = t.MaxVal + 1 := by
  rw [h.hR, h0]; simp

theorem WF.range_ge (h : WF t P) : 2 ≤ t.Range := by
  have hp := h.period
  have hm := h.maxval_ge
  have hn := h.hN
  -- RANGE·d ≥ MAXVAL+2NEAR+1 > d  ⇒ RANGE ≥ 2
  by_cases hr : t.Range ≤ 1
  · have : t.Range * (2 * t.Near + 1) ≤ 1 * (2 * t.Near + 1) :=
      Int.mul_le_mul_of_nonneg_right hr (by omega)
    omega
  · omega

/-- the quantised error lies strictly inside (−RANGE, RANGE) -/
theorem quantize_range (h : WF t P) (e : Int) (he : -t.MaxVal ≤ e ∧ e ≤ t.MaxVal) :
    -t.Range < Traits.quantize t e ∧ Traits.quantize t e < t.Range := by
  have hq := quantize_bound t e h.hN.1
  have hp := h.period
  have hn := h.hN
  generalize Traits.quantize t e = q at *
  constructor
  · by_cases hc : q ≤ -t.Range
    · have : q * (2 * t.Near + 1) ≤ (-t.Range) * (2 * t.Near + 1) :=
        Int.mul_le_mul_of_nonneg_right hc (by omega)
      rw [Int.neg_mul] at this
      omega
    · omega
  · by_cases hc : t.Range ≤ q
    · have : t.Range * (2 * t.Near + 1) ≤ q * (2 * t.Near + 1) :=
        Int.mul_le_mul_of_nonneg_right hc (by omega)
      omega
    · omega

/-! ### the per-sample theorem (regular mode and run interruption share it) -/

theorem sample_bound_aux (h : WF t P) (Px x s e : Int) (hPx : 0 ≤ Px ∧ Px ≤ t.MaxVal)
    (hx : 0 ≤ x ∧ x ≤ t.MaxVal) (hs : s = 1 ∨ s = -1)
    (he : e = Traits.ModuloRange t (Traits.quantize t (s * (x - Px)))) :
    (-t.Near ≤ Traits.fixReconstructedValue t (Px + (s * e) * (2 * t.Near + 1)) - x ∧
      Traits.fixReconstructedValue t (Px + (s * e) * (2 * t.Near + 1)) - x ≤ t.Near) ∧
    (0 ≤ Traits.fixReconstructedValue t (Px + (s * e) * (2 * t.Near + 1)) ∧
      Traits.fixReconstructedValue t (Px + (s * e) * (2 * t.Near + 1)) ≤ t.MaxVal) ∧
    ((t.Range + 1) / 2 - t.Range ≤ e ∧ e < (t.Range + 1) / 2) := by
  have hP62 : P ≤ 62 := by have := h.hP; omega
  have hdelta : -t.MaxVal ≤ s * (x - Px) ∧ s * (x - Px) ≤ t.MaxVal := by
    rcases hs with rfl | rfl <;> omega
  have hqb := quantize_bound t (s * (x - Px)) h.hN.1
  have hqr := quantize_range h (s * (x - Px)) hdelta
  have hmod := moduloRange_spec t (Traits.quantize t (s * (x - Px))) (by have := h.range_ge; omega) hqr
  have hper := h.period
  rw [← he] at hmod
  obtain ⟨hcase, hlo, hhi⟩ := hmod
  generalize Traits.quantize t (s * (x - Px)) = q at *
  -- w: the reconstruction before the period fix-up
  have key : ∃ w, (-t.Near ≤ w - x ∧ w - x ≤ t.Near) ∧
      (Px + (s * e) * (2 * t.Near + 1) = w ∨
       Px + (s * e) * (2 * t.Near + 1) = w + t.Range * (2 * t.Near + 1) ∨
       Px + (s * e) * (2 * t.Near + 1) = w - t.Range * (2 * t.Near + 1)) := by
    rcases hs with rfl | rfl
    · simp only [Int.one_mul] at hqb ⊢
      refine ⟨Px + q * (2 * t.Near + 1), by omega, ?_⟩
      rcases hcase with hc | hc | hc <;> rw [hc]
      · left; rfl
      · right; left; rw [Int.add_mul]; omega
      · right; right; rw [Int.sub_mul]; omega
    · simp only [Int.neg_mul, Int.one_mul] at hqb ⊢
      refine ⟨Px - q * (2 * t.Near + 1), by omega, ?_⟩
      rcases hcase with hc | hc | hc <;> rw [hc]
      · left; omega
      · right; right; rw [Int.add_mul]; omega
      · right; left; rw [Int.sub_mul]; omega
  obtain ⟨w, hwx, hv⟩ := key
  have hfix := fixReconstructedValue_spec t P hP62 h.hM (h.range_lossless) hper.2
    (Px + (s * e) * (2 * t.Near + 1)) w (by omega) hv
  have hm3 := h.maxval_ge
  refine ⟨?_, ?_, hlo, hhi⟩
  · rw [hfix]; split
    · omega
    · split <;> omega
  · rw [hfix]; split
    · omega
    · split <;> omega

/-- `near_sample_bound` over the generated `Traits.ComputeErrorValue` / `ComputeReconstructedSample` -/
theorem sample_bound (h : WF t P) (Px x s : Int) (hPx : 0 ≤ Px ∧ Px ≤ t.MaxVal)
    (hx : 0 ≤ x ∧ x ≤ t.MaxVal) (hs : s = 1 ∨ s = -1) :
    let e := Traits.ComputeErrorValue t (s * (x - Px))
    let Rx := Traits.ComputeReconstructedSample t Px (s * e)
    (-t.Near ≤ Rx - x ∧ Rx - x ≤ t.Near) ∧ (0 ≤ Rx ∧ Rx ≤ t.MaxVal) ∧
      ((t.Range + 1) / 2 - t.Range ≤ e ∧ e < (t.Range + 1) / 2) :=
  sample_bound_aux h Px x s _ hPx hx hs rfl

/-! ### coding parameters (context.go `ComputeCodingParameters`, `computeThresholds`, `bitsLen`; traits.go `NewTraits`) -/

theorem cp_fields (M N r : Int) :
    (ComputeCodingParameters M N r).Range = (if N > 0 then Int.tdiv (M + 2*N) (2*N+1) + 1 else M + 1) ∧
    (ComputeCodingParameters M N r).Qbpp = JpegLsBits.bitsLen (ComputeCodingParameters M N r).Range ∧
    (ComputeCodingParameters M N r).Limit = 2 * (JpegLsBits.bitsLen M + max 8 (JpegLsBits.bitsLen M)) ∧
    ((ComputeCodingParameters M N r).T1, (ComputeCodingParameters M N r).T2, (ComputeCodingParameters M N r).T3)
        = computeThresholds M N ∧
    (ComputeCodingParameters M N r).Reset = (if r = 0 then 64 else r) ∧
    (ComputeCodingParameters M N r).MaxVal = M ∧ (ComputeCodingParameters M N r).Near = N := by
  unfold ComputeCodingParameters
  generalize computeThresholds M N = p
  obtain ⟨a, b, c⟩ := p
  simp only [decide_eq_true_eq, beq_iff_eq, and_self]

theorem clamp_range (v lo hi : Int) (h : lo ≤ hi) : lo ≤ clamp v lo hi ∧ clamp v lo hi ≤ hi := by
  unfold clamp
  by_cases h1 : v < lo <;> by_cases h2 : v > hi <;> simp [h1, h2] <;> omega

/-- `NEAR+1 ≤ T1 ≤ T2 ≤ T3 ≤ MAXVAL` whenever `NEAR+1 ≤ MAXVAL` -/
theorem thresholds_ordered (M N : Int) (h : N + 1 ≤ M) :
    N + 1 ≤ (computeThresholds M N).1 ∧ (computeThresholds M N).1 ≤ (computeThresholds M N).2.1 ∧
      (computeThresholds M N).2.1 ≤ (computeThresholds M N).2.2 ∧ (computeThresholds M N).2.2 ≤ M := by
  unfold computeThresholds
  simp only [decide_eq_true_eq]
  split
  · simp only []
    have h1 := clamp_range (Int.tdiv (min M 4095 + 128) 256 * (3 - 2) + 2 + 3 * N) (N + 1) M h
    generalize clamp (Int.tdiv (min M 4095 + 128) 256 * (3 - 2) + 2 + 3 * N) (N + 1) M = t1 at *
    have h2 := clamp_range (Int.tdiv (min M 4095 + 128) 256 * (7 - 3) + 3 + 5 * N) t1 M h1.2
    generalize clamp (Int.tdiv (min M 4095 + 128) 256 * (7 - 3) + 3 + 5 * N) t1 M = t2 at *
    have h3 := clamp_range (Int.tdiv (min M 4095 + 128) 256 * (21 - 4) + 4 + 7 * N) t2 M h2.2
    omega
  · simp only []
    have h1 := clamp_range (max 2 (Int.tdiv 3 (Int.tdiv 256 (M + 1)) + 3 * N)) (N + 1) M h
    generalize clamp (max 2 (Int.tdiv 3 (Int.tdiv 256 (M + 1)) + 3 * N)) (N + 1) M = t1 at *
    have h2 := clamp_range (max 3 (Int.tdiv 7 (Int.tdiv 256 (M + 1)) + 5 * N)) t1 M h1.2
    generalize clamp (max 3 (Int.tdiv 7 (Int.tdiv 256 (M + 1)) + 5 * N)) t1 M = t2 at *
    have h3 := clamp_range (max 4 (Int.tdiv 21 (Int.tdiv 256 (M + 1)) + 7 * N)) t2 M h2.2
    omega

/-- bits per pixel: `bitsLen (2^P − 1) = P` for P in 2..16 -/
theorem bitsLen_maxval (P : Nat) (h : 2 ≤ P ∧ P ≤ 16) : JpegLsBits.bitsLen ((2 : Int) ^ P - 1) = P := by
  have : P = 2 ∨ P = 3 ∨ P = 4 ∨ P = 5 ∨ P = 6 ∨ P = 7 ∨ P = 8 ∨ P = 9 ∨ P = 10 ∨ P = 11 ∨ P = 12 ∨
      P = 13 ∨ P = 14 ∨ P = 15 ∨ P = 16 := by omega
  rcases this with rfl | rfl | rfl | rfl | rfl | rfl | rfl | rfl | rfl | rfl | rfl | rfl | rfl | rfl | rfl <;> decide

/-- the parameter set the encoders and decoders build is well-formed -/
theorem newTraits_wf (P : Nat) (N : Int) (hP : 2 ≤ P ∧ P ≤ 16) (hN : 0 ≤ N ∧ 2 * N ≤ (2 : Int) ^ P - 1) (r : Int) :
    WF (NewTraits ((2 : Int) ^ P - 1) N r) P := by
  have f := cp_fields ((2 : Int) ^ P - 1) N r
  refine ⟨hP, rfl, hN, ?_⟩
  show (ComputeCodingParameters ((2 : Int) ^ P - 1) N r).Range = _
  rw [f.1]
  show _ = ((2 : Int) ^ P - 1 + 2 * N) / (2 * N + 1) + 1
  split
  · rw [tdiv_nonneg_eq (by omega)]
  · have : N = 0 := by omega
    subst this; simp

/-! ### shifts, map/unmap (context.go), sign application and context id (predictor.go) -/

theorem shr_eq (x : Int) (k : Nat) : Go.shr x (k : Int) = x / 2 ^ k := by
  unfold Go.shr; simp [Int.shiftRight_eq_div_pow]

theorem shl_eq (x : Int) (k : Nat) : Go.shl x (k : Int) = x * 2 ^ k := by
  unfold Go.shl; simp

/-- `MapErrorValue e = (e<<1) ^ (e>>31)` is the T.87 A.5.2 mapping for 32-bit errors -/
theorem map_spec (e : Int) (h : -2147483648 ≤ e ∧ e < 2147483648) :
    MapErrorValue e = if e ≥ 0 then 2 * e else -2 * e - 1 := by
  unfold MapErrorValue
  have h1 : Go.shr e 31 = e / 2 ^ 31 := shr_eq e 31
  have h2 : Go.shl e 1 = e * 2 ^ 1 := shl_eq e 1
  rw [h1, h2]
  simp only [Int.reducePow]
  split
  · have : e / 2147483648 = 0 := by omega
    rw [this, Go.xor_zero _ (by unfold Go.I64; omega)]; omega
  · have : e / 2147483648 = -1 := by omega
    rw [this, Go.xor_neg_one _ (by unfold Go.I64; omega)]; omega

theorem unmap_spec (m : Int) (h : 0 ≤ m ∧ m < 4294967296) :
    UnmapErrorValue m = if m % 2 = 0 then m / 2 else -((m + 1) / 2) := by
  unfold UnmapErrorValue
  have h1 : Go.shr m 1 = m / 2 ^ 1 := shr_eq m 1
  rw [h1, Go.and_one]
  simp only [Int.reducePow]
  have : m % 2 = 0 ∨ m % 2 = 1 := by omega
  rcases this with h0 | h0 <;> rw [h0]
  · simp only [Int.neg_zero, if_true]
    rw [Go.xor_zero _ (by unfold Go.I64; omega)]
  · rw [Go.xor_neg_one _ (by unfold Go.I64; omega)]
    simp only [Int.one_ne_zero, if_false]; omega

/-- decoder's unmap inverts the encoder's map -/
theorem unmap_map (e : Int) (h : -2147483648 ≤ e ∧ e < 2147483648) : UnmapErrorValue (MapErrorValue e) = e := by
  rw [map_spec e h]
  split
  · rw [unmap_spec _ (by omega)]; split <;> omega
  · rw [unmap_spec _ (by omega)]; split <;> omega

theorem bitwiseSign_cases (i : Int) : (i < 0 ∧ BitwiseSign i = -1) ∨ (0 ≤ i ∧ BitwiseSign i = 0) := by
  unfold BitwiseSign; simp only [decide_eq_true_eq]; split <;> omega

theorem applySign_zero (i : Int) (h : Go.I64 i) : ApplySign i 0 = i := by
  unfold ApplySign; rw [Go.zero_xor i h]; omega

theorem applySign_neg (i : Int) (h : Go.I64 i) : ApplySign i (-1) = -i := by
  unfold ApplySign; rw [Go.neg_one_xor i h]; omega

/-- `ApplySign · sign` is an involution for the two sign values the code uses -/
theorem applySign_involutive (i s : Int) (hs : s = 0 ∨ s = -1)
    (h : -9223372036854775807 ≤ i ∧ i < 9223372036854775808) : ApplySign (ApplySign i s) s = i := by
  rcases hs with rfl | rfl
  · rw [applySign_zero i (by unfold Go.I64; omega), applySign_zero i (by unfold Go.I64; omega)]
  · rw [applySign_neg i (by unfold Go.I64; omega), applySign_neg (-i) (by unfold Go.I64; omega)]; omega

theorem gq_range (g : GradientQuantizer) (d : Int) :
    -4 ≤ GradientQuantizer.quantizeGradient g d ∧ GradientQuantizer.quantizeGradient g d ≤ 4 := by
  unfold GradientQuantizer.quantizeGradient
  simp only [decide_eq_true_eq]
  repeat' split
  all_goals omega

/-- the context index `ApplySign qs (BitwiseSign qs)` of a quantised gradient triple is in 0..364 -/
theorem context_index_range (g : GradientQuantizer) (a b c d : Int) :
    let q := GradientQuantizer.ComputeContext g a b c d
    let qs := ComputeContextID q.1 q.2.1 q.2.2
    (-364 ≤ qs ∧ qs ≤ 364) ∧
      (0 ≤ ApplySign qs (BitwiseSign qs) ∧ ApplySign qs (BitwiseSign qs) ≤ 364) := by
  intro q qs
  have h1 := gq_range g (d - b)
  have h2 := gq_range g (b - c)
  have h3 := gq_range g (c - a)
  have hq : qs = (GradientQuantizer.quantizeGradient g (d - b) * 9 + GradientQuantizer.quantizeGradient g (b - c)) * 9
      + GradientQuantizer.quantizeGradient g (c - a) := rfl
  generalize GradientQuantizer.quantizeGradient g (d - b) = q1 at *
  generalize GradientQuantizer.quantizeGradient g (b - c) = q2 at *
  generalize GradientQuantizer.quantizeGradient g (c - a) = q3 at *
  have hr : -364 ≤ qs ∧ qs ≤ 364 := by omega
  refine ⟨hr, ?_⟩
  rcases bitwiseSign_cases qs with ⟨hn, hb⟩ | ⟨hn, hb⟩ <;> rw [hb]
  · rw [applySign_neg qs (by unfold Go.I64; omega)]; omega
  · rw [applySign_zero qs (by unfold Go.I64; omega)]; omega


/-! ### the lossless package's own error reduction (encoder.go / decoder.go `computeErrorValue`) -/

/-- `int8(δ)` is the modulo-256 reduction T.87 asks for when RANGE = 256 -/
theorem wrap8_eq_modulo (t : Traits) (hR : t.Range = 256) (d : Int) (hd : -256 < d ∧ d < 256) :
    Go.wrap8 d = Traits.ModuloRange t d := by
  unfold Traits.ModuloRange Go.wrap8
  rw [hR]
  simp only [decide_eq_true_eq]
  have : Int.tdiv (256 + 1) 2 = 128 := by decide
  rw [this]
  split <;> split <;> omega

/-- `int16(δ)` is the modulo-65536 reduction when RANGE = 65536 -/
theorem wrap16_eq_modulo (t : Traits) (hR : t.Range = 65536) (d : Int) (hd : -65536 < d ∧ d < 65536) :
    Go.wrap16 d = Traits.ModuloRange t d := by
  unfold Traits.ModuloRange Go.wrap16
  rw [hR]
  simp only [decide_eq_true_eq]
  have : Int.tdiv (65536 + 1) 2 = 32768 := by decide
  rw [this]
  split <;> split <;> omega

/-- NEAR = 0: `ComputeErrorValue = ModuloRange` -/
theorem computeErrorValue_near0 (t : Traits) (h0 : t.Near = 0) (d : Int) :
    Traits.ComputeErrorValue t d = Traits.ModuloRange t d := by
  unfold Traits.ComputeErrorValue Traits.quantize
  simp [h0]
