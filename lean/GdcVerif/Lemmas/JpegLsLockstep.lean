import GdcVerif.Model.JpegLsScanL
import GdcVerif.Lemmas.JpegLsScanStep
import GdcVerif.Lemmas.JpegLsRunCtx
import GdcVerif.Lemmas.Lockstep
import GdcVerif.Lemmas.GolombFit
/-!
  Lock-step composition for the JPEG-LS scan model `Model/JpegLsScanL.lean`:
  per-step agreement of regular pixels and run segments (from `regular_roundtrip`,
  `runlength_roundtrip'`, `run_interruption_roundtrip'`, the context invariants and the per-sample
  bound), composed over a line by `Lockstep.lockstep_var` and over the lines of an image.
-/
namespace JpegLsScanL
open Gen.JpegLs JpegLsLemmas JpegLsNear JpegLsRun Golomb Lockstep

/-- reconstructed sample `r` vs source sample `x` -/
def SClose (N : Int) (r x : Int) : Prop := -N ≤ r - x ∧ r - x ≤ N

def SampOk (M v : Int) : Prop := 0 ≤ v ∧ v ≤ M

def PixOk (comps : Nat) (M : Int) (p : Pixel) : Prop := p.length = comps ∧ ∀ v ∈ p, SampOk M v

def PixClose (N : Int) (r p : Pixel) : Prop := AllRel (SClose N) r p

theorem AllRel.append {α : Type} {R : α → α → Prop} {a b c d : List α} (h1 : AllRel R a c) (h2 : AllRel R b d) :
    AllRel R (a ++ b) (c ++ d) := by
  induction h1 with
  | nil => simpa using h2
  | cons h0 _ ih => exact AllRel.cons h0 ih

theorem AllRel.refl' {α : Type} {R : α → α → Prop} (hr : ∀ x, R x x) : ∀ l : List α, AllRel R l l
  | [] => AllRel.nil
  | x :: xs => AllRel.cons (hr x) (AllRel.refl' hr xs)

theorem cmp_ok {comps : Nat} {M : Int} {p : Pixel} (h : PixOk comps M p) (k : Nat) (hk : k < comps) :
    SampOk M (cmp p k) := by
  unfold cmp
  have hl : k < p.length := by rw [h.1]; exact hk
  rw [← List.getElem_eq_getD (h := hl) 0]
  exact h.2 _ (List.getElem_mem hl)

/-! ### regular-mode pixel -/

/-- the encoder's regular-mode sample succeeds when the context index is valid; its reconstruction is
    within NEAR of the source sample and inside [0, MAXVAL] -/
theorem encRegular_spec (P : Nat) (N : Int) (h : Admissible P N) (cs : Array Context) (qs a b c xs : Int)
    (hsz : cs.size = 365) (hidx : 0 ≤ ApplySign qs (BitwiseSign qs) ∧ ApplySign qs (BitwiseSign qs) ≤ 364)
    (hxs : SampOk ((2 : Int) ^ P - 1) xs) :
    ∃ ws cs' rec, JpegLsScan.encRegular (traits P N) cs qs a b c xs = .ok (ws, cs', rec) ∧ cs'.size = 365 ∧
      SClose N rec xs ∧ SampOk ((2 : Int) ^ P - 1) rec ∧ WritesFit ws := by
  obtain ⟨hM, hNear, _, _, ⟨q0, hQ0, hq01, hq0P, _, _⟩, _, hL0, _, _⟩ := near_params_wf P N h
  unfold JpegLsScan.encRegular
  dsimp only
  have hget : ∃ ctx, JpegLsScan.getCtx cs (ApplySign qs (BitwiseSign qs)) = .ok ctx := by
    unfold JpegLsScan.getCtx
    have h0 : ¬ ApplySign qs (BitwiseSign qs) < 0 := by omega
    have hlt : (ApplySign qs (BitwiseSign qs)).toNat < cs.size := by omega
    simp only [h0, if_false, Array.getElem?_eq_getElem hlt]
    exact ⟨_, rfl⟩
  obtain ⟨ctx, hctx⟩ := hget
  simp only [hctx, bind, Except.bind]
  refine ⟨_, _, _, rfl, by simp [hsz], ?_⟩
  have hMpos : (0 : Int) ≤ (traits P N).MaxVal := by
    rw [hM]; have : (0 : Int) < 2 ^ P := Int.pow_pos (by decide); omega
  have hpx := JpegLsScan.correctPrediction_range (traits P N) hMpos (Predict a b c + ApplySign ctx.C (BitwiseSign qs))
  generalize Traits.CorrectPrediction (traits P N) (Predict a b c + ApplySign ctx.C (BitwiseSign qs)) = pxv at *
  rw [hM] at hpx
  have h16 : (2 : Int) ^ P ≤ 2 ^ 16 := two_pow_mono h.1.2
  simp only [Int.reducePow] at h16
  unfold SampOk at hxs
  obtain ⟨s, hs, hmul⟩ := JpegLsScan.applySign_mul (xs - pxv) qs (by omega)
  rw [hmul (xs - pxv) (by omega)]
  have hb := near_sample_bound P N h pxv xs s hpx hxs hs
  have he : err P N pxv xs s = Traits.ComputeErrorValue (traits P N) (s * (xs - pxv)) := rfl
  have hR16 : (traits P N).Range ≤ 65536 := by
    obtain ⟨_, _, _, _, ⟨q', _, _, _, _, hq4'⟩, _⟩ := near_params_wf P N h
    have : (2 : Int) ^ q' ≤ 2 ^ 16 := two_pow_mono (by have := h.1; omega)
    simp only [Int.reducePow] at this; omega
  have hR1 : 2 ≤ (traits P N).Range := (newTraits_wf P N h.1 ⟨h.2.1, h.2.2.2⟩ 64).range_ge
  rw [← he]
  have hrange := hb.2.2
  rw [hmul (err P N pxv xs s) (by omega)]
  refine ⟨hb.1, hb.2.1, ?_⟩
  have hk := JpegLsScan.golombParam_range ctx 17 0 (by omega) (by omega)
  have hcorr := JpegLsScan.errorCorrection_cases ctx (JpegLsScan.golombParam ctx 17 0) (traits P N).Near
  have hfit := near_mapped_fits P N h pxv xs s hpx hxs hs _ hcorr.1
  exact fit_encodeWrites _ _ _ _ ⟨hk.1, by omega⟩ (by rw [hQ0]; have := h.1; omega)
    (by rw [hL0, hQ0]; have := h.1; constructor <;> omega) hfit.1

/-- all components of a regular-mode pixel: encoder succeeds, reconstruction within NEAR and in range,
    decoder reads the same pixel and context table back -/
theorem regs_roundtrip (P : Nat) (N : Int) (h : Admissible P N) :
    ∀ (q : List (Int × Int × Int × Int)) (xi : List Int) (cs : Array Context), q.length = xi.length →
      cs.size = 365 → (∀ i ∈ q, 0 ≤ ApplySign i.1 (BitwiseSign i.1) ∧ ApplySign i.1 (BitwiseSign i.1) ≤ 364) →
      (∀ x ∈ xi, SampOk ((2 : Int) ^ P - 1) x) →
      ∃ ws cs' rec, encRegs (traits P N) q xi cs = .ok (ws, cs', rec) ∧ cs'.size = 365 ∧ PixClose N rec xi ∧
        (∀ v ∈ rec, SampOk ((2 : Int) ^ P - 1) v) ∧ rec.length = xi.length ∧
        (∀ rest, decRegs (traits P N) q cs (writesBits ws ++ rest) = .ok (cs', rec, rest)) ∧ WritesFit ws
  | [], [], cs, _, hsz, _, _ =>
    ⟨[], cs, [], rfl, hsz, AllRel.nil, by simp, rfl, fun rest => by simp [decRegs, writesBits], fit_nil⟩
  | [], _ :: _, _, hl, _, _, _ => by simp at hl
  | _ :: _, [], _, hl, _, _, _ => by simp at hl
  | (qs, a, b, c) :: qrest, x :: xrest, cs, hl, hsz, hidx, hx => by
    obtain ⟨w1, cs1, r, he1, hsz1, hc1, hr1, hf1⟩ :=
      encRegular_spec P N h cs qs a b c x hsz (hidx (qs, a, b, c) (by simp)) (hx x (by simp))
    have hd1 := fun rest => JpegLsScan.regular_roundtrip P N h cs qs a b c x rest (hx x (by simp)) w1 cs1 r he1
    obtain ⟨w2, cs2, rs, he2, hsz2, hc2, hr2, hlen2, hd2, hf2⟩ :=
      regs_roundtrip P N h qrest xrest cs1 (by simpa using hl) hsz1 (fun i hi => hidx i (by simp [hi]))
        (fun y hy => hx y (by simp [hy]))
    refine ⟨w1 ++ w2, cs2, r :: rs, ?_, hsz2, AllRel.cons hc1 hc2, ?_, by simp [hlen2], ?_, fit_append hf1 hf2⟩
    · simp only [encRegs, he1, he2]
    · intro v hv
      simp only [List.mem_cons] at hv
      rcases hv with rfl | hv
      · exact hr1
      · exact hr2 v hv
    · intro rest
      simp only [decRegs]
      rw [writesBits_append, List.append_assoc, hd1 (writesBits w2 ++ rest)]
      simp only [hd2 rest]

/-! ### run-interruption samples -/

theorem updateVariables_rit (ctx : RunModeContext) (e em reset : Int) :
    (RunModeContext.UpdateVariables ctx e em reset).runInterruptionType = ctx.runInterruptionType := by
  unfold RunModeContext.UpdateVariables
  simp only [decide_eq_true_eq, beq_iff_eq]
  repeat' split
  all_goals rfl

/-- the successor context of an encoded run-interruption sample keeps the run-context invariant -/
theorem encodeRunInterruption_inv (t : Traits) (idx : Int) (ctx : RunModeContext) (e : Int)
    (ws : List (Nat × Int)) (ctx' : RunModeContext) (hidx : 0 ≤ idx ∧ idx ≤ 31)
    (hinv : RunCtxInv ctx t.Reset) (hr : 2 ≤ t.Reset) (he0 : ctx.runInterruptionType = 1 → e ≠ 0)
    (hmag : 2 * Go.abs e ≤ 131072)
    (henc : encodeRunInterruption t idx ctx e = .ok (ws, ctx')) :
    RunCtxInv ctx' t.Reset ∧ ctx'.runInterruptionType = ctx.runInterruptionType := by
  unfold encodeRunInterruption at henc
  rw [J?_eq idx hidx] at henc
  simp only [bind, Except.bind, Except.ok.injEq, Prod.mk.injEq] at henc
  obtain ⟨_, hc⟩ := henc
  have ha : 0 ≤ Go.abs e := by unfold Go.abs; split <;> omega
  have ha0 : e ≠ 0 → 1 ≤ Go.abs e := by intro h; unfold Go.abs; split <;> omega
  have hrit := hinv.1
  rw [← hc]
  refine ⟨updateVariables_inv ctx e _ t.Reset hinv hr ?_, updateVariables_rit _ _ _ _⟩
  by_cases hmap : RunModeContext.ComputeMap ctx e (getGolombCode ctx) = true
  · have := ha0 (computeMap_ne ctx e _ hmap)
    simp only [hmap, if_true]
    rcases hrit with h | h <;> rw [h] <;> omega
  · simp only [hmap, Bool.false_eq_true, if_false]
    rcases hrit with h | h
    · rw [h]; omega
    · have := ha0 (he0 h); rw [h]; omega

/-- parameters of `traits P N` the run lemmas need -/
theorem traits_run_facts (P : Nat) (N : Int) (h : Admissible P N) :
    (traits P N).Reset = 64 ∧ (traits P N).MaxVal = (2 : Int) ^ P - 1 ∧ (traits P N).Near = N ∧
    2 ≤ (traits P N).Range ∧ (traits P N).Range ≤ 65536 := by
  obtain ⟨hM, hNear, _, _, ⟨q', _, _, _, _, hq4'⟩, _, _, _, hReset⟩ := near_params_wf P N h
  have : (2 : Int) ^ q' ≤ 2 ^ 16 := two_pow_mono (by have := h.1; omega)
  simp only [Int.reducePow] at this
  exact ⟨hReset, hM, hNear, (newTraits_wf P N h.1 ⟨h.2.1, h.2.2.2⟩ 64).range_ge, by omega⟩

/-- one run-interruption sample with prediction `px` and sign `s`: encoder succeeds, context invariant
    kept, reconstruction within NEAR and in range, decoder recovers error value and context -/
theorem interruption_sample (P : Nat) (N : Int) (h : Admissible P N) (idx : Int) (ctx : RunModeContext)
    (px x s : Int) (hidx : 0 ≤ idx ∧ idx ≤ 31) (hinv : RunCtxInv ctx 64)
    (hpx : SampOk ((2 : Int) ^ P - 1) px) (hx : SampOk ((2 : Int) ^ P - 1) x) (hs : s = 1 ∨ s = -1)
    (hne : ctx.runInterruptionType = 1 → Traits.ComputeErrorValue (traits P N) (s * (x - px)) ≠ 0) :
    ∃ ws ctx', encodeRunInterruption (traits P N) idx ctx (Traits.ComputeErrorValue (traits P N) (s * (x - px)))
        = .ok (ws, ctx') ∧
      RunCtxInv ctx' 64 ∧ ctx'.runInterruptionType = ctx.runInterruptionType ∧
      SClose N (Traits.ComputeReconstructedSample (traits P N) px (s * Traits.ComputeErrorValue (traits P N) (s * (x - px)))) x ∧
      SampOk ((2 : Int) ^ P - 1)
        (Traits.ComputeReconstructedSample (traits P N) px (s * Traits.ComputeErrorValue (traits P N) (s * (x - px)))) ∧
      (∀ rest, decodeRunInterruption (traits P N) idx ctx (writesBits ws ++ rest) =
        .ok (Traits.ComputeErrorValue (traits P N) (s * (x - px)), ctx', rest)) ∧ WritesFit ws := by
  obtain ⟨hReset, hM, hNear, hR2, hR16⟩ := traits_run_facts P N h
  have hb := near_sample_bound P N h px x s hpx hx hs
  have hrange : ((traits P N).Range + 1) / 2 - (traits P N).Range ≤ Traits.ComputeErrorValue (traits P N) (s * (x - px)) ∧
      Traits.ComputeErrorValue (traits P N) (s * (x - px)) < ((traits P N).Range + 1) / 2 := hb.2.2
  have hinv' : RunCtxInv ctx (traits P N).Reset := by rw [hReset]; exact hinv
  have hk := getGolombCode_le ctx (traits P N).Reset hinv' (by rw [hReset]; decide)
  obtain ⟨ws, ctx', henc, hdec⟩ := run_interruption_roundtrip_traits P N h idx ctx _ [] hidx hk hinv.1 hne hrange
  have hmag : 2 * Go.abs (Traits.ComputeErrorValue (traits P N) (s * (x - px))) ≤ 131072 := by
    unfold Go.abs; split <;> omega
  obtain ⟨hi', hr'⟩ := encodeRunInterruption_inv (traits P N) idx ctx _ ws ctx' hidx hinv' (by rw [hReset]; decide) hne hmag henc
  rw [hReset] at hi'
  refine ⟨ws, ctx', henc, hi', hr', hb.1, hb.2.1, ?_, ?_⟩
  · intro rest
    obtain ⟨ws2, ctx2, henc2, hdec2⟩ := run_interruption_roundtrip_traits P N h idx ctx _ rest hidx hk hinv.1 hne hrange
    rw [henc] at henc2
    simp only [Except.ok.injEq, Prod.mk.injEq] at henc2
    rw [henc2.1, henc2.2]; exact hdec2
  · -- the calls are those of EncodeMappedValue with a non-negative mapped value
    obtain ⟨hq, hl⟩ := run_limit_ok P N h idx hidx
    have henc' := henc
    unfold encodeRunInterruption at henc'
    rw [J?_eq idx hidx] at henc'
    simp only [bind, Except.bind, Except.ok.injEq, Prod.mk.injEq] at henc'
    rw [← henc'.1]
    have ha0 : ∀ e : Int, e ≠ 0 → 1 ≤ Go.abs e := by intro e he; unfold Go.abs; split <;> omega
    have ha : ∀ e : Int, 0 ≤ Go.abs e := by intro e; unfold Go.abs; split <;> omega
    refine fit_encodeWrites _ _ _ _ ⟨getGolombCode_nonneg ctx, hk⟩ hq hl ?_
    have := ha (Traits.ComputeErrorValue (traits P N) (s * (x - px)))
    by_cases hmap : RunModeContext.ComputeMap ctx (Traits.ComputeErrorValue (traits P N) (s * (x - px))) (getGolombCode ctx) = true
    · have := ha0 _ (computeMap_ne ctx _ _ hmap)
      simp only [hmap, if_true]
      rcases hinv.1 with h0 | h1 <;> rw [‹ctx.runInterruptionType = _›] <;> omega
    · simp only [hmap, Bool.false_eq_true, if_false]
      rcases hinv.1 with h0 | h1
      · rw [h0]; omega
      · have := ha0 _ (hne h1); rw [h1]; omega

theorem sign_cases (n : Int) : Gen.JpegLsRun.Sign n = 1 ∨ Gen.JpegLsRun.Sign n = -1 := by
  unfold Gen.JpegLsRun.Sign; split <;> simp

/-- interruption pixel of a sample-interleaved run (context 0 for every component) -/
theorem ints_roundtrip (P : Nat) (N : Int) (h : Admissible P N) (comps : Nat) (idx : Int) (left above xi : Pixel)
    (hidx : 0 ≤ idx ∧ idx ≤ 31) (hl : PixOk comps ((2 : Int) ^ P - 1) left)
    (ha : PixOk comps ((2 : Int) ^ P - 1) above) (hx : PixOk comps ((2 : Int) ^ P - 1) xi) :
    ∀ (ks : List Nat) (ctx : RunModeContext), (∀ k ∈ ks, k < comps) → RunCtxInv ctx 64 → ctx.runInterruptionType = 0 →
      ∃ ws ctx' rec, encInts (traits P N) idx left above xi ks ctx = .ok (ws, ctx', rec) ∧
        RunCtxInv ctx' 64 ∧ ctx'.runInterruptionType = 0 ∧ rec.length = ks.length ∧
        AllRel (SClose N) rec (ks.map (cmp xi)) ∧ (∀ v ∈ rec, SampOk ((2 : Int) ^ P - 1) v) ∧
        (∀ rest, decInts (traits P N) idx left above ks ctx (writesBits ws ++ rest) = .ok (ctx', rec, rest)) ∧
        WritesFit ws
  | [], ctx, _, hinv, hrit =>
    ⟨[], ctx, [], rfl, hinv, hrit, rfl, AllRel.nil, by simp, fun rest => by simp [decInts, writesBits], fit_nil⟩
  | k :: ks, ctx, hk, hinv, hrit => by
    have hk0 : k < comps := hk k (by simp)
    have hsg := sign_cases (cmp above k - cmp left k)
    generalize hS : Gen.JpegLsRun.Sign (cmp above k - cmp left k) = sg at hsg
    obtain ⟨w1, ctx1, he1, hi1, hr1, hc1, ho1, hd1, hf1⟩ :=
      interruption_sample P N h idx ctx (cmp above k) (cmp xi k) sg hidx hinv (cmp_ok ha k hk0) (cmp_ok hx k hk0) hsg
        (by intro h1; rw [hrit] at h1; exact absurd h1 (by decide))
    obtain ⟨w2, ctx2, rs, he2, hi2, hr2, hlen2, hc2, ho2, hd2, hf2⟩ :=
      ints_roundtrip P N h comps idx left above xi hidx hl ha hx ks ctx1 (fun j hj => hk j (by simp [hj])) hi1
        (by rw [hr1]; exact hrit)
    have hcomm : ∀ e : Int, e * sg = sg * e := fun e => Int.mul_comm e sg
    refine ⟨w1 ++ w2, ctx2, Traits.ComputeReconstructedSample (traits P N) (cmp above k)
        (Traits.ComputeErrorValue (traits P N) (sg * (cmp xi k - cmp above k)) * sg) :: rs, ?_, hi2, hr2, by simp [hlen2], ?_, ?_, ?_, fit_append hf1 hf2⟩
    · simp only [encInts, hS, he1, he2]
    · simp only [List.map_cons]
      refine AllRel.cons ?_ hc2
      rw [hcomm]; exact hc1
    · intro v hv
      simp only [List.mem_cons] at hv
      rcases hv with rfl | hv
      · rw [hcomm]; exact ho1
      · exact ho2 v hv
    · intro rest
      simp only [decInts]
      rw [writesBits_append, List.append_assoc, hd1 (writesBits w2 ++ rest)]
      simp only [hd2 rest, hS]

/-- a difference outside the NEAR tolerance never quantises to the error value 0 -/
theorem cev_ne_zero (P : Nat) (N : Int) (h : Admissible P N) (d : Int)
    (hd : -((2 : Int) ^ P - 1) ≤ d ∧ d ≤ (2 : Int) ^ P - 1) (hout : Go.abs d > N) :
    Traits.ComputeErrorValue (traits P N) d ≠ 0 := by
  have wf : WF (traits P N) P := newTraits_wf P N h.1 ⟨h.2.1, h.2.2.2⟩ 64
  obtain ⟨_, hM, hNear, hR2, _⟩ := traits_run_facts P N h
  have hqb := quantize_bound (traits P N) d wf.hN.1
  have hqr := quantize_range wf d (by rw [hM]; exact hd)
  have hmod := moduloRange_spec (traits P N) (Traits.quantize (traits P N) d) (by omega) hqr
  have he : Traits.ComputeErrorValue (traits P N) d = Traits.ModuloRange (traits P N) (Traits.quantize (traits P N) d) := rfl
  rw [he]
  rw [hNear] at hqb
  generalize Traits.quantize (traits P N) d = q at *
  have hq0 : q ≠ 0 := by
    intro h0; subst h0
    simp only [Int.zero_mul, Int.sub_zero] at hqb
    unfold Go.abs at hout
    split at hout <;> omega
  intro hz
  rw [hz] at hmod
  rcases hmod.1 with h1 | h1 | h1 <;> omega

def StInv (run : St) : Prop :=
  (0 ≤ run.runIndex ∧ run.runIndex ≤ 31) ∧ RunCtxInv run.ctx0 64 ∧ run.ctx0.runInterruptionType = 0 ∧
  RunCtxInv run.ctx1 64 ∧ run.ctx1.runInterruptionType = 1

theorem dec_range (idx : Int) (h : 0 ≤ idx ∧ idx ≤ 31) : 0 ≤ decRunIndex idx ∧ decRunIndex idx ≤ 31 := by
  unfold decRunIndex; split <;> omega

/-- interruption sample of a one-component run (both run-interruption contexts) -/
theorem int0_roundtrip (P : Nat) (N : Int) (h : Admissible P N) (idx ra rb xi : Int) (run : St)
    (hidx : 0 ≤ idx ∧ idx ≤ 31) (hinv : StInv run)
    (hra : SampOk ((2 : Int) ^ P - 1) ra) (hrb : SampOk ((2 : Int) ^ P - 1) rb) (hxi : SampOk ((2 : Int) ^ P - 1) xi)
    (hout : Go.abs (xi - ra) > N) :
    ∃ ws run' r, encInt0 (traits P N) idx ra rb xi run = .ok (ws, run', r) ∧ StInv run' ∧ SClose N r xi ∧
      SampOk ((2 : Int) ^ P - 1) r ∧
      (∀ rest, decInt0 (traits P N) idx ra rb run (writesBits ws ++ rest) = .ok (run', r, rest)) ∧ WritesFit ws := by
  obtain ⟨_, hM, hNear, _, _⟩ := traits_run_facts P N h
  obtain ⟨_, hi0, hr0, hi1, hr1⟩ := hinv
  unfold SampOk at hra hrb hxi
  unfold encInt0 decInt0
  rw [hNear]
  by_cases hnear : Go.abs (ra - rb) ≤ N
  · simp only [hnear, if_true]
    have e1 : xi - ra = 1 * (xi - ra) := by omega
    rw [e1]
    obtain ⟨ws, ctx', he, hi', hr', hc, ho, hd, hfw⟩ :=
      interruption_sample P N h idx run.ctx1 ra xi 1 hidx hi1 hra hxi (Or.inl rfl)
        (fun _ => by
          have := cev_ne_zero P N h (xi - ra) (by omega) hout
          rw [e1] at this; exact this)
    simp only [Int.one_mul] at hc ho hd ⊢ he
    refine ⟨ws, { runIndex := decRunIndex idx, ctx0 := run.ctx0, ctx1 := ctx' },
      Traits.ComputeReconstructedSample (traits P N) ra (Traits.ComputeErrorValue (traits P N) (xi - ra)),
      by rw [he], ⟨dec_range idx hidx, hi0, hr0, hi', by rw [hr', hr1]⟩, hc, ho, ?_, hfw⟩
    intro rest
    rw [hd rest]
  · simp only [hnear, if_false]
    have hsg := sign_cases (rb - ra)
    generalize Gen.JpegLsRun.Sign (rb - ra) = sg at hsg
    have e1 : (xi - rb) * sg = sg * (xi - rb) := Int.mul_comm _ _
    rw [e1]
    obtain ⟨ws, ctx', he, hi', hr', hc, ho, hd, hfw⟩ :=
      interruption_sample P N h idx run.ctx0 rb xi sg hidx hi0 hrb hxi hsg
        (by intro h1; rw [hr0] at h1; exact absurd h1 (by decide))
    have hcomm : ∀ e : Int, e * sg = sg * e := fun e => Int.mul_comm e sg
    refine ⟨ws, { runIndex := decRunIndex idx, ctx0 := ctx', ctx1 := run.ctx1 },
      Traits.ComputeReconstructedSample (traits P N) rb (Traits.ComputeErrorValue (traits P N) (sg * (xi - rb)) * sg),
      by rw [he], ⟨dec_range idx hidx, hi', by rw [hr', hr0], hi1, hr1⟩, ?_, ?_, ?_, hfw⟩
    · rw [hcomm]; exact hc
    · rw [hcomm]; exact ho
    · intro rest
      rw [hd rest]

/-! ### helpers for the step lemma -/

theorem ids_length (t : Traits) (s : LSt) (ks : List Nat) : (ids t s ks).length = ks.length := by
  simp [ids]

theorem ids_idx_ok (t : Traits) (s : LSt) (ks : List Nat) :
    ∀ i ∈ ids t s ks, 0 ≤ ApplySign i.1 (BitwiseSign i.1) ∧ ApplySign i.1 (BitwiseSign i.1) ≤ 364 := by
  intro i hi
  simp only [ids, List.mem_map] at hi
  obtain ⟨k, _, rfl⟩ := hi
  exact (context_index_range _ _ _ _ _).2

theorem map_cmp_range : ∀ (p : Pixel), (List.range p.length).map (cmp p) = p := by
  intro p
  apply List.ext_getElem
  · simp
  · intro i h1 h2
    simp only [List.getElem_map, List.getElem_range, cmp]
    rw [← List.getElem_eq_getD (h := by simpa using h2) 0]

theorem allRel_of_getD {R : Int → Int → Prop} : ∀ (p q : List Int), p.length = q.length →
    (∀ k, k < p.length → R (p.getD k 0) (q.getD k 0)) → AllRel R p q
  | [], [], _, _ => AllRel.nil
  | [], _ :: _, h, _ => by simp at h
  | _ :: _, [], h, _ => by simp at h
  | a :: p, b :: q, hl, h => by
    refine AllRel.cons ?_ (allRel_of_getD p q (by simpa using hl) (fun k hk => ?_))
    · have := h 0 (by simp); simpa using this
    · have := h (k + 1) (by simp; omega); simpa using this

/-- a run pixel is within NEAR of the left neighbour in every component -/
theorem isRun_close {comps : Nat} {M N : Int} {left p : Pixel} (hl : PixOk comps M left) (hp : PixOk comps M p)
    (hr : isRun N left p (List.range comps) = true) : PixClose N left p := by
  apply allRel_of_getD left p (by rw [hl.1, hp.1])
  intro k hk
  unfold isRun at hr
  rw [List.all_eq_true] at hr
  have := hr k (by rw [hl.1] at hk; simpa using hk)
  simp only [decide_eq_true_eq, cmp] at this
  have habs : ∀ v : Int, Go.abs v ≤ N → -N ≤ v ∧ v ≤ N := by
    intro v hv; unfold Go.abs at hv; split at hv <;> omega
  have := habs _ (of_decide_eq_true this)
  unfold SClose
  omega

theorem not_isRun_one {N : Int} {left p : Pixel} (hr : ¬ isRun N left p (List.range 1) = true) :
    Go.abs (cmp p 0 - cmp left 0) > N := by
  unfold isRun at hr
  have : List.range 1 = [0] := by decide
  rw [this] at hr
  simp only [List.all_cons, List.all_nil, Bool.and_true, decide_eq_true_eq] at hr
  omega

theorem allRel_replicate {α : Type} {R : α → α → Prop} (a : α) : ∀ (l : List α), (∀ p ∈ l, R a p) →
    AllRel R (List.replicate l.length a) l
  | [], _ => AllRel.nil
  | p :: l, h => by
    simp only [List.length_cons, List.replicate_succ]
    exact AllRel.cons (h p (by simp)) (allRel_replicate a l (fun q hq => h q (by simp [hq])))

theorem take_drop_split {α : Type} (line : List α) (x : Nat) (a b : List α) (h : line.drop x = a ++ b) (hx : x ≤ line.length) :
    line.take (x + a.length) = line.take x ++ a ∧ line.drop (x + a.length) = b := by
  have hline : line = line.take x ++ (a ++ b) := by rw [← h, List.take_append_drop]
  have hlen : (line.take x).length = x := by simp [List.length_take]; omega
  constructor
  · conv => lhs; rw [hline, ← List.append_assoc]
    have : (line.take x ++ a).length = x + a.length := by simp [hlen]
    rw [← this, List.take_left']
    rfl
  · conv => lhs; rw [hline, ← List.append_assoc]
    have : (line.take x ++ a).length = x + a.length := by simp [hlen]
    rw [← this, List.drop_left']
    rfl

/-! ### the step lemma -/

/-- invariant of the shared state -/
def SInv (comps : Nat) (M : Int) (w : Nat) (s : LSt) : Prop :=
  (∀ p ∈ s.prev, PixOk comps M p) ∧ (∀ p ∈ s.done, PixOk comps M p) ∧ s.prev.length = w ∧
  s.ctxs.size = 365 ∧ StInv s.run

/-- invariant of the walk along one line: `todo` is the not yet coded part of `line`, and the
    reconstructed part is within NEAR of the coded part -/
def LInv (comps : Nat) (M N : Int) (line : List Pixel) (s : LSt) (todo : List Pixel) : Prop :=
  SInv comps M line.length s ∧ (∀ p ∈ line, PixOk comps M p) ∧ s.done.length ≤ line.length ∧
  todo = line.drop s.done.length ∧ AllRel (PixClose N) s.done.reverse (line.take s.done.length)

theorem leftPixel_ok {comps : Nat} {M : Int} {w : Nat} {s : LSt} (h : SInv comps M w s) (hw : 0 < w) :
    PixOk comps M (leftPixel s) := by
  unfold leftPixel
  split
  · rename_i p rest hd
    exact h.2.1 p (by rw [hd]; simp)
  · apply h.1
    unfold pixAt
    have hl : 0 < s.prev.length := by rw [h.2.2.1]; exact hw
    rw [← List.getElem_eq_getD (h := hl) []]
    exact List.getElem_mem hl

theorem pixAt_ok {comps : Nat} {M : Int} {w : Nat} {s : LSt} (h : SInv comps M w s) (i : Nat) (hi : i < w) :
    PixOk comps M (pixAt s.prev i) := by
  apply h.1
  unfold pixAt
  have hl : i < s.prev.length := by rw [h.2.2.1]; exact hi
  rw [← List.getElem_eq_getD (h := hl) []]
  exact List.getElem_mem hl

theorem step_regular (P : Nat) (N : Int) (h : Admissible P N) (comps : Nat) (line : List Pixel) (s : LSt)
    (xi : Pixel) (rest : List Pixel) (hinv : LInv comps ((2 : Int) ^ P - 1) N line s (xi :: rest))
    (hq : ¬ ((ids (traits P N) s (List.range comps)).all (fun i => i.1 == 0)) = true) :
    ∃ ws s', encStep (traits P N) (List.range comps) s (xi :: rest) = .ok (ws, s', rest) ∧
      LInv comps ((2 : Int) ^ P - 1) N line s' rest ∧
      (∀ tl, decStep (traits P N) (List.range comps) s (xi :: rest).length (writesBits ws ++ tl) = .ok (s', rest.length, tl)) ∧
      WritesFit ws := by
  obtain ⟨hS, hline, hle, htodo, hclose⟩ := hinv
  have hxi_mem : xi ∈ line := by
    have : xi ∈ line.drop s.done.length := by rw [← htodo]; simp
    exact List.mem_of_mem_drop this
  have hxi := hline xi hxi_mem
  obtain ⟨ws, cs', rec, he, hsz, hc, hr, hlen, hd, hfw⟩ :=
    regs_roundtrip P N h (ids (traits P N) s (List.range comps)) xi s.ctxs
      (by rw [ids_length, List.length_range, hxi.1]) hS.2.2.2.1 (ids_idx_ok _ _ _) hxi.2
  have hsplit := take_drop_split line s.done.length [xi] rest (by rw [← htodo]; rfl) hle
  simp only [List.length_singleton] at hsplit
  refine ⟨ws, { s with done := rec :: s.done, ctxs := cs' }, ?_, ?_, ?_, hfw⟩
  · simp only [encStep, hq, Bool.false_eq_true, if_false, he]
  · refine ⟨⟨hS.1, ?_, hS.2.2.1, hsz, hS.2.2.2.2⟩, hline, ?_, ?_, ?_⟩
    · intro p hp
      simp only [List.mem_cons] at hp
      rcases hp with rfl | hp
      · exact ⟨by rw [hlen, hxi.1], hr⟩
      · exact hS.2.1 p hp
    · simp only [List.length_cons]
      have : (line.drop s.done.length).length = rest.length + 1 := by rw [← htodo]; simp
      simp only [List.length_drop] at this
      omega
    · simp only [List.length_cons]; exact hsplit.2.symm
    · simp only [List.length_cons, List.reverse_cons]
      rw [hsplit.1]
      exact AllRel.append hclose (AllRel.cons hc AllRel.nil)
  · intro tl
    have hne : (xi :: rest).length ≠ 0 := by simp
    simp only [decStep, hne, if_false, hq, Bool.false_eq_true, hd tl]
    simp

theorem dropWhile_head_false {α : Type} (f : α → Bool) : ∀ (l : List α) (a : α) (r : List α),
    l.dropWhile f = a :: r → f a = false
  | [], _, _, h => by simp at h
  | x :: l, a, r, h => by
    simp only [List.dropWhile_cons] at h
    split at h
    · exact dropWhile_head_false f l a r h
    · rename_i hx
      simp only [List.cons.injEq] at h
      rw [← h.1]; simpa using hx

theorem mem_takeWhile_true {α : Type} (f : α → Bool) : ∀ (l : List α) (a : α), a ∈ l.takeWhile f → f a = true
  | [], _, h => by simp at h
  | x :: l, a, h => by
    simp only [List.takeWhile_cons] at h
    split at h
    · rename_i hx
      simp only [List.mem_cons] at h
      rcases h with rfl | h
      · exact hx
      · exact mem_takeWhile_true f l a h
    · simp at h

/-- run-length round trip with the written calls independent of what follows -/
theorem runlength_rt (idx rl remaining : Int) (hidx : 0 ≤ idx ∧ idx ≤ 31) (hrl : 0 ≤ rl ∧ rl ≤ remaining)
    (hrem : 1 ≤ remaining) :
    ∃ idx' ws, encodeRunLength idx rl (rl == remaining) = .ok (idx', ws) ∧ (0 ≤ idx' ∧ idx' ≤ 31) ∧
      (∀ tl, decodeRunLength (writesBits ws ++ tl) idx remaining = .ok (rl, idx', tl)) ∧ WritesFit ws := by
  obtain ⟨idx', ws, he, hi, _⟩ := runlength_roundtrip' idx rl remaining [] hidx hrl hrem
  refine ⟨idx', ws, he, hi, fun tl => ?_, fit_encodeRunLength idx rl _ hidx hrl.1 idx' ws he⟩
  obtain ⟨idx2, ws2, he2, _, hd2⟩ := runlength_roundtrip' idx rl remaining tl hidx hrl hrem
  rw [he] at he2
  simp only [Except.ok.injEq, Prod.mk.injEq] at he2
  rw [he2.1, he2.2]; exact hd2

end JpegLsScanL
