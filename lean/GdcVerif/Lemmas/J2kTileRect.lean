import GdcVerif.Lemmas.J2kTileClamp
import GdcVerif.Lemmas.J2kTiles
/-!
  The tile rectangle for an image with a reference-grid offset: the decoder's t2.NewTileDecoder (generated,
  `Gen.J2kTileClamp`, unit owned by the parsers work package) against T.800 B.3 and against the assembler's
  TileLayout.GetTileBounds (generated, `Gen.J2kTiles`).
-/
namespace J2k
open Gen.J2kTileClamp

/-- tile_assembler.go NewTileLayout for an arbitrary SIZ -/
def layoutOf (siz : SIZSegment) : Gen.J2kTiles.TileLayout :=
  { imageWidth := siz.Xsiz - siz.XOsiz, imageHeight := siz.Ysiz - siz.YOsiz,
    imageX0 := siz.XOsiz, imageY0 := siz.YOsiz, imageX1 := siz.Xsiz, imageY1 := siz.Ysiz,
    tileWidth := siz.XTsiz, tileHeight := siz.YTsiz, tileOffsetX := siz.XTOsiz, tileOffsetY := siz.YTOsiz,
    numTilesX := Gen.J2kTiles.ceilDiv (siz.Xsiz - siz.XTOsiz) siz.XTsiz,
    numTilesY := Gen.J2kTiles.ceilDiv (siz.Ysiz - siz.YTOsiz) siz.YTsiz }

/-- T.800 B.3: numXtiles (B-5) and the tile rectangle (B-7 … B-10) of tile index t = p + q·numXtiles -/
def b3NumX (siz : SIZSegment) : Int := (siz.Xsiz - siz.XTOsiz + siz.XTsiz - 1) / siz.XTsiz
def b3NumY (siz : SIZSegment) : Int := (siz.Ysiz - siz.YTOsiz + siz.YTsiz - 1) / siz.YTsiz
def b3Rect (siz : SIZSegment) (t : Int) : Int × Int × Int × Int :=
  let p := t % b3NumX siz
  let q := t / b3NumX siz
  (max (siz.XTOsiz + p * siz.XTsiz) siz.XOsiz, max (siz.YTOsiz + q * siz.YTsiz) siz.YOsiz,
   min (siz.XTOsiz + (p + 1) * siz.XTsiz) siz.Xsiz, min (siz.YTOsiz + (q + 1) * siz.YTsiz) siz.Ysiz)

/-- a SIZ segment as T.800 A.5.1 allows it (what the parser accepts), restricted to what matters here -/
def SizOk (siz : SIZSegment) : Prop :=
  0 ≤ siz.XTOsiz ∧ 0 ≤ siz.YTOsiz ∧ siz.XTOsiz ≤ siz.XOsiz ∧ siz.YTOsiz ≤ siz.YOsiz ∧
  siz.XOsiz < siz.Xsiz ∧ siz.YOsiz < siz.Ysiz ∧ 1 ≤ siz.XTsiz ∧ 1 ≤ siz.YTsiz

theorem tileDecoder_rect_eq_b3 (siz : SIZSegment) (t : Int) (ht : Bool) (hok : SizOk siz) (h0 : 0 ≤ t) :
    let td := NewTileDecoder ⟨t⟩ siz ht
    (td.tileX0, td.tileY0, td.tileX1, td.tileY1) = b3Rect siz t := by
  obtain ⟨a1, a2, a3, a4, a5, a6, a7, a8⟩ := hok
  have hnx : 0 < (siz.Xsiz - siz.XTOsiz + siz.XTsiz - 1) / siz.XTsiz := by
    have := numTiles_pos (n := siz.Xsiz - siz.XTOsiz) (t := siz.XTsiz) (by omega) (by omega)
    have e : siz.Xsiz - siz.XTOsiz + siz.XTsiz - 1 = siz.Xsiz - siz.XTOsiz + siz.XTsiz - 1 := rfl
    omega
  unfold NewTileDecoder b3Rect b3NumX
  simp only []
  rw [tdiv_eq_ediv (by omega : 0 ≤ siz.Xsiz - siz.XTOsiz + siz.XTsiz - 1)]
  have c0 : ¬ ((siz.Xsiz - siz.XTOsiz + siz.XTsiz - 1) / siz.XTsiz ≤ 0) := by omega
  simp only [c0, decide_false, Bool.false_eq_true, if_false]
  rw [tdiv_eq_ediv h0, tmod_eq_emod h0]
  generalize t % ((siz.Xsiz - siz.XTOsiz + siz.XTsiz - 1) / siz.XTsiz) = p
  generalize t / ((siz.Xsiz - siz.XTOsiz + siz.XTsiz - 1) / siz.XTsiz) = q
  have e1 : siz.XTOsiz + (p + 1) * siz.XTsiz = siz.XTOsiz + p * siz.XTsiz + siz.XTsiz := by rw [Int.add_mul]; omega
  have e2 : siz.YTOsiz + (q + 1) * siz.YTsiz = siz.YTOsiz + q * siz.YTsiz + siz.YTsiz := by rw [Int.add_mul]; omega
  rw [e1, e2]
  generalize siz.XTOsiz + p * siz.XTsiz = gx
  generalize siz.YTOsiz + q * siz.YTsiz = gy
  simp only [decide_eq_true_eq]
  refine Prod.ext ?_ (Prod.ext ?_ (Prod.ext ?_ ?_)) <;> simp only [] <;> split <;> omega

/-- the assembler places the tile at the same rectangle, in image-local coordinates -/
theorem tileDecoder_rect_eq_assembler (siz : SIZSegment) (t : Int) (ht : Bool) (hok : SizOk siz) (h0 : 0 ≤ t)
    (hlt : t < b3NumX siz * b3NumY siz) :
    let td := NewTileDecoder ⟨t⟩ siz ht
    Gen.J2kTiles.TileLayout.GetTileBounds (layoutOf siz) t =
      (td.tileX0 - siz.XOsiz, td.tileY0 - siz.YOsiz, td.tileX1 - siz.XOsiz, td.tileY1 - siz.YOsiz) := by
  have hb := tileDecoder_rect_eq_b3 siz t ht hok h0
  simp only [] at hb
  intro td
  have hx0 : td.tileX0 = (b3Rect siz t).1 := by have := congrArg Prod.fst hb; exact this
  have hy0 : td.tileY0 = (b3Rect siz t).2.1 := by have := congrArg (fun r => r.2.1) hb; exact this
  have hx1 : td.tileX1 = (b3Rect siz t).2.2.1 := by have := congrArg (fun r => r.2.2.1) hb; exact this
  have hy1 : td.tileY1 = (b3Rect siz t).2.2.2 := by have := congrArg (fun r => r.2.2.2) hb; exact this
  rw [hx0, hy0, hx1, hy1]
  obtain ⟨a1, a2, a3, a4, a5, a6, a7, a8⟩ := hok
  unfold b3NumX b3NumY at hlt
  unfold Gen.J2kTiles.TileLayout.GetTileBounds Gen.J2kTiles.TileLayout.GetTileCount layoutOf b3Rect b3NumX
  simp only []
  rw [ceilDiv_eq (by omega) a7, ceilDiv_eq (by omega) a8]
  have c1 : ¬ t < 0 := by omega
  have c2 : ¬ t ≥ (siz.Xsiz - siz.XTOsiz + siz.XTsiz - 1) / siz.XTsiz * ((siz.Ysiz - siz.YTOsiz + siz.YTsiz - 1) / siz.YTsiz) := by omega
  simp only [c1, c2, decide_false, Bool.or_self, Bool.false_eq_true, if_false]
  rw [tdiv_eq_ediv h0, tmod_eq_emod h0]
  generalize t % ((siz.Xsiz - siz.XTOsiz + siz.XTsiz - 1) / siz.XTsiz) = p
  generalize t / ((siz.Xsiz - siz.XTOsiz + siz.XTsiz - 1) / siz.XTsiz) = q
  have e1 : siz.XTOsiz + (p + 1) * siz.XTsiz = p * siz.XTsiz + siz.XTOsiz + siz.XTsiz := by rw [Int.add_mul]; omega
  have e2 : siz.YTOsiz + (q + 1) * siz.YTsiz = q * siz.YTsiz + siz.YTOsiz + siz.YTsiz := by rw [Int.add_mul]; omega
  have e3 : siz.XTOsiz + p * siz.XTsiz = p * siz.XTsiz + siz.XTOsiz := by omega
  have e4 : siz.YTOsiz + q * siz.YTsiz = q * siz.YTsiz + siz.YTOsiz := by omega
  rw [e1, e2, e3, e4]
  -- when the source writes the clamps with max/min the two sides already coincide here (rw closed the goal)
  all_goals (
    generalize p * siz.XTsiz + siz.XTOsiz = gx
    generalize q * siz.YTsiz + siz.YTOsiz = gy
    simp only [decide_eq_true_eq]
    refine Prod.ext ?_ (Prod.ext ?_ (Prod.ext ?_ ?_)) <;> simp only [] <;> (repeat' split) <;> omega)

end J2k
