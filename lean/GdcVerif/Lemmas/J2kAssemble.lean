import GdcVerif.Lemmas.J2kTiles
/-! split (transformTile copy) / assemble (AssembleTile) identity on index-function planes. -/
namespace J2k

theorem row_iff {W r c w i : Nat} (hcw : c + w ≤ W) :
    (r * W + c ≤ i ∧ i < r * W + c + w) ↔ (i / W = r ∧ c ≤ i % W ∧ i % W < c + w) := by
  have hdm := Nat.div_add_mod i W
  constructor
  · intro ⟨h1, h2⟩
    have hW : 0 < W := by omega
    have hq : i / W = r := by
      apply Nat.div_eq_of_lt_le
      · rw [Nat.mul_comm] at h1 ⊢; omega
      · have : (r + 1) * W = r * W + W := by rw [Nat.add_mul]; omega
        omega
    rw [hq, Nat.mul_comm] at hdm
    omega
  · intro ⟨hq, h1, h2⟩
    rw [hq, Nat.mul_comm] at hdm
    omega

theorem split_spec (img : Plane) (W x0 y0 w : Nat) (tile : Plane) :
    ∀ h ty tx, ty < h → tx < w →
      splitTile img W x0 y0 w h tile (ty * w + tx) = img ((y0 + ty) * W + x0 + tx) := by
  intro h
  induction h with
  | zero => intro ty tx h; omega
  | succ h ih =>
    intro ty tx hty htx
    unfold splitTile copyRow
    by_cases he : ty = h
    · subst he
      have c : ty * w ≤ ty * w + tx ∧ ty * w + tx < ty * w + w := by omega
      simp only [c, and_self, if_true]
      congr 1; omega
    · have hlt : ty < h := by omega
      have hm : (ty + 1) * w ≤ h * w := Nat.mul_le_mul_right w (by omega)
      have hm2 : (ty + 1) * w = ty * w + w := by rw [Nat.add_mul]; omega
      have c : ¬ (h * w ≤ ty * w + tx ∧ ty * w + tx < h * w + w) := by omega
      simp only [c, if_false]
      exact ih ty tx hlt htx

theorem assemble_spec (tile : Plane) (W x0 y0 w : Nat) (out : Plane) (hcw : x0 + w ≤ W) :
    ∀ h i, assembleTile tile W x0 y0 w h out i =
      if (y0 ≤ i / W ∧ i / W < y0 + h ∧ x0 ≤ i % W ∧ i % W < x0 + w)
      then tile ((i / W - y0) * w + (i % W - x0)) else out i := by
  intro h
  induction h with
  | zero =>
    intro i; unfold assembleTile
    have c : ¬ (y0 ≤ i / W ∧ i / W < y0 + 0 ∧ x0 ≤ i % W ∧ i % W < x0 + w) := by omega
    simp only [c, if_false]
  | succ h ih =>
    intro i
    unfold assembleTile copyRow
    have hr := row_iff (W := W) (r := y0 + h) (c := x0) (w := w) (i := i) hcw
    by_cases hc : (y0 + h) * W + x0 ≤ i ∧ i < (y0 + h) * W + x0 + w
    · have ⟨hq, h1, h2⟩ := hr.mp hc
      have c2 : y0 ≤ i / W ∧ i / W < y0 + (h + 1) ∧ x0 ≤ i % W ∧ i % W < x0 + w := by omega
      simp only [hc, and_self, if_true, c2]
      have e1 : i / W - y0 = h := by omega
      rw [e1]
      congr 1
      have hdm := Nat.div_add_mod i W
      rw [hq, Nat.mul_comm] at hdm
      omega
    · simp only [hc, if_false]
      rw [ih i]
      have hne : ¬ (i / W = y0 + h ∧ x0 ≤ i % W ∧ i % W < x0 + w) := fun hx => hc (hr.mpr hx)
      by_cases hin : y0 ≤ i / W ∧ i / W < y0 + h ∧ x0 ≤ i % W ∧ i % W < x0 + w
      · have c2 : y0 ≤ i / W ∧ i / W < y0 + (h + 1) ∧ x0 ≤ i % W ∧ i % W < x0 + w := by omega
        simp only [hin, and_self, if_true, c2]
      · have c2 : ¬ (y0 ≤ i / W ∧ i / W < y0 + (h + 1) ∧ x0 ≤ i % W ∧ i % W < x0 + w) := by omega
        simp only [hin, if_false, c2]

/-- one tile: cut out of `src`, copied into `out`: inside the rectangle the result is `src`, outside `out` -/
theorem tile_roundtrip (src out z : Plane) (W x0 y0 w h : Nat) (hcw : x0 + w ≤ W) (i : Nat) :
    assembleTile (splitTile src W x0 y0 w h z) W x0 y0 w h out i =
      if (y0 ≤ i / W ∧ i / W < y0 + h ∧ x0 ≤ i % W ∧ i % W < x0 + w) then src i else out i := by
  rw [assemble_spec _ _ _ _ _ _ hcw]
  by_cases hin : y0 ≤ i / W ∧ i / W < y0 + h ∧ x0 ≤ i % W ∧ i % W < x0 + w
  · simp only [hin, and_self, if_true]
    rw [split_spec src W x0 y0 w z h (i / W - y0) (i % W - x0) (by omega) (by omega)]
    congr 1
    have hdm := Nat.div_add_mod i W
    have e : y0 + (i / W - y0) = i / W := by omega
    rw [e, Nat.mul_comm]
    omega
  · simp only [hin, if_false]

end J2k

namespace J2k

def InTile (W H TW TH : Nat) (j i : Nat) : Prop :=
  let r := tileRectNat W H TW TH j
  r.2.1 ≤ i / W ∧ i / W < r.2.1 + r.2.2.2 ∧ r.1 ≤ i % W ∧ i % W < r.1 + r.2.2.1

theorem encNumTiles_eq (n t : Nat) : encNumTiles n t = ((n : Int) + t - 1) / t := by
  unfold encNumTiles
  by_cases h : (n : Int) + t - 1 < 0
  · have : n = 0 ∧ t = 0 := by omega
    rw [this.1, this.2]; decide
  · exact tdiv_eq_ediv (by omega)

theorem tileRectNat_eq (W H TW TH j : Nat) (hW : 1 ≤ W) (hTW : 1 ≤ TW) :
    tileRectNat W H TW TH j =
      let r := rectOf W H TW TH j
      (r.1.toNat, r.2.1.toNat, (r.2.2.1 - r.1).toNat, (r.2.2.2 - r.2.1).toNat) := by
  unfold tileRectNat
  rw [encTileBounds_eq (W : Int) H TW TH j (by omega) (by omega) (by omega)]
  rfl

theorem sa_covered (src out : Plane) (W H TW TH : Nat) (hW : 1 ≤ W) (hH : 1 ≤ H) (hTW : 1 ≤ TW) (hTH : 1 ≤ TH) :
    ∀ k, k ≤ numTilesNat W H TW TH → ∀ i, (∃ j, j < k ∧ InTile W H TW TH j i) →
      splitAssemble src W H TW TH k out i = src i := by
  intro k
  induction k with
  | zero => intro _ i ⟨j, hj, _⟩; omega
  | succ k ih =>
    intro hk i ⟨j, hj, hin⟩
    unfold splitAssemble
    simp only []
    have hkI : (k : Int) < ((W : Int) + TW - 1) / TW * (((H : Int) + TH - 1) / TH) := by
      unfold numTilesNat at hk
      rw [encNumTiles_eq, encNumTiles_eq] at hk
      omega
    have hri := rect_in_image' (W : Int) H TW TH k (by omega) (by omega) (by omega) (by omega) (by omega) hkI
    have hre := tileRectNat_eq W H TW TH k hW hTW
    simp only [] at hri hre
    have hcw : (tileRectNat W H TW TH k).1 + (tileRectNat W H TW TH k).2.2.1 ≤ W := by
      rw [hre]; simp only []; omega
    rw [tile_roundtrip src _ _ W _ _ _ _ hcw i]
    by_cases hc : InTile W H TW TH k i
    · unfold InTile at hc; simp only [] at hc
      simp only [hc, and_self, if_true]
    · have hc' := hc
      unfold InTile at hc'; simp only [] at hc'
      simp only [hc', if_false]
      apply ih (by omega) i
      refine ⟨j, ?_, hin⟩
      by_cases hjk : j = k
      · subst hjk; exact absurd hin hc
      · omega

theorem split_assemble_identity' (src out : Plane) (W H TW TH : Nat) (hW : 1 ≤ W) (hH : 1 ≤ H)
    (hTW : 1 ≤ TW) (hTH : 1 ≤ TH) (i : Nat) (hi : i < W * H) :
    splitAssemble src W H TW TH (numTilesNat W H TW TH) out i = src i := by
  apply sa_covered src out W H TW TH hW hH hTW hTH _ (Nat.le_refl _) i
  have hx : i % W < W := Nat.mod_lt _ (by omega)
  have hy : i / W < H := Nat.div_lt_of_lt_mul hi
  have hc := cover' (W : Int) H TW TH (i % W : Nat) (i / W : Nat) (by omega) (by omega)
    (Int.natCast_nonneg _) (Int.ofNat_lt.mpr hx) (Int.natCast_nonneg _) (Int.ofNat_lt.mpr hy)
  simp only [] at hc
  obtain ⟨h0, h1, hin⟩ := hc
  generalize hidx : ((i / W : Nat) : Int) / TH * (((W : Int) + TW - 1) / TW) + ((i % W : Nat) : Int) / TW = idx at h0 h1 hin
  refine ⟨idx.toNat, ?_, ?_⟩
  · unfold numTilesNat; rw [encNumTiles_eq, encNumTiles_eq]; omega
  · unfold InTile
    simp only []
    rw [tileRectNat_eq W H TW TH idx.toNat hW hTW]
    simp only []
    have e : ((idx.toNat : Nat) : Int) = idx := by omega
    rw [e]
    have hri := rect_in_image' (W : Int) H TW TH idx (by omega) (by omega) (by omega) (by omega) h0 h1
    simp only [] at hri
    unfold inRect at hin
    omega

end J2k
