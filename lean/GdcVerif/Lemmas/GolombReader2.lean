import GdcVerif.Lemmas.GolombReader
/-! `GolombReader` model, part 2: the fill loops, `ReadBit`, `ReadBits`. -/
namespace GolombReader
open Golomb

theorem findFF_le (d : List Nat) : ∀ (fuel i : Nat), i ≤ d.length → findFF d fuel i ≤ d.length
  | 0, i, h => h
  | fuel + 1, i, h => by
    unfold findFF
    split
    · split
      · exact h
      · exact findFF_le d fuel (i + 1) (by omega)
    · exact Nat.le_refl _

theorem findFF_none (d : List Nat) : ∀ (fuel i : Nat), ∀ j, i ≤ j → j < findFF d fuel i → d.getD j 0 ≠ 255
  | 0, i, j, h1, h2 => by simp [findFF] at h2; omega
  | fuel + 1, i, j, h1, h2 => by
    unfold findFF at h2
    split at h2
    · split at h2
      · omega
      · rename_i hne
        by_cases hij : j = i
        · subst hij; exact hne
        · exact findFF_none d fuel (i + 1) j (by omega) h2
    · rename_i hlen
      -- j < d.length ≤ i ≤ j is impossible
      omega

theorem findFFfrom_spec (d : List Nat) (i : Nat) (hi : i ≤ d.length) :
    findFFfrom d i ≤ d.length ∧ ∀ j, i ≤ j → j < findFFfrom d i → d.getD j 0 ≠ 255 := by
  unfold findFFfrom
  split
  · exact ⟨findFF_le d _ i hi, findFF_none d _ i⟩
  · exact ⟨Nat.le_refl _, fun j h1 h2 => by omega⟩

theorem byteAt_ok (d : List Nat) (i : Nat) (h : i < d.length) : byteAt d i = .ok (d.getD i 0) := by
  unfold byteAt
  rw [List.getElem?_eq_getElem h, ← List.getElem_eq_getD (h := h) 0]

theorem shl64_ok (b : Nat) (k : Int) (h0 : 0 ≤ k) (h64 : k < 64) : shl64 b k = .ok ((b <<< k.toNat) % M64) := by
  unfold shl64
  have h1 : ¬ k < 0 := by omega
  have h2 : ¬ k ≥ 64 := by omega
  simp only [h1, h2, if_false]

/-- the byte loop of the optimistic path: whole bytes, none of them 0xFF -/
theorem optLoop_spec (S : List Bool) : ∀ (n : Nat) (r : Reader), Rep r S → r.pos + n ≤ r.posFF →
    (n = 0 ∨ r.valid + 8 * ((n : Int) - 1) ≤ 56) →
    ∃ r', optLoop n r = .ok r' ∧ Rep r' S ∧ r'.valid = r.valid + 8 * (n : Int) ∧ r'.posFF = r.posFF ∧
      r'.data = r.data ∧ r'.pos = r.pos + n
  | 0, r, h, _, _ => ⟨r, rfl, h, by simp, rfl, rfl, rfl⟩
  | n + 1, r, h, hp, hv => by
    have hv' : r.valid + 8 * (n : Int) ≤ 56 := by
      rcases hv with h0 | h1
      · omega
      · push_cast at h1; omega
    have hlen : r.pos < r.data.length := by have := h.hposFF; omega
    have hne : r.data.getD r.pos 0 ≠ 255 := h.hff r.pos (Nat.le_refl _) (by omega)
    have hvn := h.hv
    have hstep : Rep (addByte r (r.data.getD r.pos 0)) S := rep_byte r S h hlen (by omega)
    unfold optLoop
    rw [byteAt_ok _ _ hlen]
    simp only [bind, Except.bind]
    rw [shl64_ok _ _ (by omega) (by omega)]
    simp only []
    have heq : ({ r with cache := r.cache ||| (r.data.getD r.pos 0 <<< (64 - 8 - r.valid).toNat) % M64,
                         valid := r.valid + 8, pos := r.pos + 1 } : Reader) = addByte r (r.data.getD r.pos 0) := by
      unfold addByte
      have e : (64 - 8 - r.valid).toNat = (56 - r.valid).toNat := by omega
      simp only [hne, if_false, e]
    rw [heq]
    obtain ⟨r', he, hr, hval, hpf, hd, hps⟩ := optLoop_spec S n (addByte r (r.data.getD r.pos 0)) hstep
      (by show r.pos + 1 + n ≤ r.posFF; omega)
      (by
        by_cases hn0 : n = 0
        · exact Or.inl hn0
        · right
          show (if r.data.getD r.pos 0 = 255 then r.valid + 8 - 1 else r.valid + 8) + 8 * ((n : Int) - 1) ≤ 56
          simp only [hne, if_false]; omega)
    refine ⟨r', he, hr, ?_, by rw [hpf]; rfl, by rw [hd]; rfl, ?_⟩
    · rw [hval]
      show (if r.data.getD r.pos 0 = 255 then r.valid + 8 - 1 else r.valid + 8) + 8 * (n : Int) = _
      simp only [hne, if_false]; push_cast; omega
    · rw [hps]; show r.pos + 1 + n = _; omega

/-- the slow path loop on well-stuffed data: never a marker; ends with ≥ 56 valid bits or at the end of data -/
theorem slowLoop_spec (S : List Bool) : ∀ (f : Nat) (r : Reader), Rep r S → 56 ≤ r.valid + 7 * (f : Int) →
    (slowLoop f r = .error .err ∧ r.valid = 0 ∧ r.pos = r.data.length) ∨
    ∃ r', (slowLoop f r = .ok (.inl r') ∨ slowLoop f r = .ok (.inr r')) ∧ Rep r' S ∧
      (56 ≤ r'.valid ∨ (r'.pos = r'.data.length ∧ 1 ≤ r'.valid)) ∧ r'.data = r.data
  | 0, r, h, hf => by
    right
    exact ⟨r, Or.inr rfl, h, Or.inl (by simpa using hf), rfl⟩
  | f + 1, r, h, hf => by
    unfold slowLoop
    by_cases hv : r.valid < 56
    · simp only [hv, if_true]
      by_cases hend : r.pos ≥ r.data.length
      · simp only [hend, if_true]
        have hpe : r.pos = r.data.length := by have := h.hpos; omega
        by_cases h0 : r.valid = 0
        · left; simp only [h0, if_true]; exact ⟨trivial, trivial, hpe⟩
        · right
          simp only [h0, if_false]
          exact ⟨r, Or.inl rfl, h, Or.inr ⟨hpe, by have := h.hv; omega⟩, rfl⟩
      · simp only [hend, if_false]
        have hlen : r.pos < r.data.length := by omega
        rw [byteAt_ok _ _ hlen]
        simp only [bind, Except.bind]
        -- on well-stuffed data the marker test is always false
        have hmark : markerAt r.data r.pos (r.data.getD r.pos 0) = .ok false := by
          unfold markerAt
          by_cases h255 : r.data.getD r.pos 0 = 255
          · obtain ⟨h1, h2⟩ := h.hdata.2 r.pos hlen h255
            have hnl : ¬ r.pos = r.data.length - 1 := by omega
            have hb2 : ¬ r.data.getD (r.pos + 1) 0 % 256 ≥ 128 := by omega
            simp only [h255, if_true, hnl, if_false, byteAt_ok _ _ h1, bind, Except.bind, pure, Except.pure, hb2,
              decide_false]
          · simp only [h255, if_false]; rfl
        rw [hmark]
        simp only [Bool.false_eq_true, if_false]
        have hvn0 := h.hv
        rw [shl64_ok _ _ (by omega) (by omega)]
        simp only []
        have heq : (Reader.mk r.data (r.cache ||| (r.data.getD r.pos 0 <<< (56 - r.valid).toNat) % M64)
            (if r.data.getD r.pos 0 = 255 then r.valid + 8 - 1 else r.valid + 8) (r.pos + 1) r.posFF)
              = addByte r (r.data.getD r.pos 0) := rfl
        rw [heq]
        have hstep := rep_byte r S h hlen (by omega)
        have hvn : r.valid + 7 ≤ (addByte r (r.data.getD r.pos 0)).valid := by
          show r.valid + 7 ≤ (if r.data.getD r.pos 0 = 255 then r.valid + 8 - 1 else r.valid + 8)
          split <;> omega
        rcases slowLoop_spec S f (addByte r (r.data.getD r.pos 0)) hstep (by push_cast at hf; omega) with he | ⟨r', hok, hr, hfin, hd⟩
        · -- cannot fail with valid = 0 after a byte was added
          have := he.2.1; have := h.hv; omega
        · right
          exact ⟨r', hok, hr, hfin, by rw [hd]; rfl⟩
    · right
      simp only [hv, if_false]
      exact ⟨r, Or.inr rfl, h, Or.inl (by omega), rfl⟩

end GolombReader
