import GdcVerif.Model.J2kPacketBody
/-!
  C09: every buffer `gatherCBData` allocates is at most the packet body, the bodies are at most the tile
  data that was left — also through the end-of-data `break` of `decodePacket`, which hands over untrimmed
  declared lengths.
-/
namespace PktBody

/-- the body `decodePacket` assembles is exactly what it consumed, and it never reads past the tile data -/
theorem bodyLoop_body (total : Nat) (mode : Mode) (off : Nat) (cs : List Incl) (r : BodyRes)
    (h : bodyLoop total mode off cs = some r) :
    r.off = off + r.body ∧ (off ≤ total → r.off ≤ total) ∧ (total ≤ off → r.body = 0) := by
  induction cs generalizing off r with
  | nil => unfold bodyLoop at h; cases h; exact ⟨rfl, fun h => h, fun _ => rfl⟩
  | cons c cs ih =>
    unfold bodyLoop at h
    by_cases hc : c.included = true ∧ c.len > 0
    · rw [if_pos hc] at h
      by_cases h1 : off ≥ total
      · rw [if_pos h1] at h; cases h; exact ⟨rfl, fun h => h, fun _ => rfl⟩
      · rw [if_neg h1] at h
        by_cases h2 : off + c.len > total ∧ mode = .strict
        · rw [if_pos h2] at h; cases h
        · rw [if_neg h2] at h
          simp only at h
          by_cases h3 : (if off + c.len > total then total - off else c.len) > 65535 ∧ mode = .strict
          · rw [if_pos h3] at h; cases h
          · rw [if_neg h3] at h
            generalize hl2 : (if (if off + c.len > total then total - off else c.len) > 65535 then
                (if total - off < 65535 then total - off else 65535)
                else (if off + c.len > total then total - off else c.len)) = l2 at h
            have hl2le : off + l2 ≤ total := by
              rw [← hl2]
              by_cases hx : off + c.len > total
              · simp only [hx, ↓reduceIte]; split <;> (try split) <;> omega
              · simp only [hx, ↓reduceIte]; split <;> (try split) <;> omega
            cases hr : bodyLoop total mode (off + l2) cs with
            | none => rw [hr] at h; cases h
            | some r' =>
              rw [hr] at h
              cases h
              obtain ⟨e1, e2, _⟩ := ih (off + l2) r' hr
              simp only
              exact ⟨by omega, fun _ => e2 hl2le, fun hge => absurd hge (by omega)⟩
    · rw [if_neg hc] at h
      cases hr : bodyLoop total mode off cs with
      | none => rw [hr] at h; cases h
      | some r' =>
        rw [hr] at h
        cases h
        exact ih off r' hr

/-- every buffer of one packet is within the packet body … -/
theorem gatherAllocs_le (bodyLen ncb idx off : Nat) (cs : List Incl) :
    ∀ a ∈ gatherAllocs bodyLen ncb idx off cs, a ≤ bodyLen := by
  induction cs generalizing idx off with
  | nil => intro a ha; cases ha
  | cons c cs ih =>
    intro a ha
    unfold gatherAllocs at ha
    by_cases h1 : ¬ c.included = true
    · rw [if_pos h1] at ha; exact ih _ _ a ha
    · rw [if_neg h1] at ha
      by_cases h2 : idx ≥ ncb
      · rw [if_pos h2] at ha; exact ih _ _ a ha
      · rw [if_neg h2] at ha
        rcases List.mem_append.mp ha with h | h
        · by_cases h3 : c.len > 0 ∧ off + c.len ≤ bodyLen
          · rw [if_pos h3] at h
            have : a = c.len := by simpa using h
            omega
          · rw [if_neg h3] at h; cases h
        · exact ih _ _ a h

/-- … and all buffers of one packet together are within the part of the body behind `dataOffset` -/
theorem gatherAllocs_sum (bodyLen ncb idx off : Nat) (cs : List Incl) :
    (gatherAllocs bodyLen ncb idx off cs).sum ≤ bodyLen - off := by
  induction cs generalizing idx off with
  | nil => simp [gatherAllocs]
  | cons c cs ih =>
    unfold gatherAllocs
    by_cases h1 : ¬ c.included = true
    · rw [if_pos h1]; exact ih _ _
    · rw [if_neg h1]
      by_cases h2 : idx ≥ ncb
      · rw [if_pos h2]; have := ih (idx + 1) (off + c.len); omega
      · rw [if_neg h2]
        have := ih (idx + 1) (off + c.len)
        rw [List.sum_append]
        by_cases h3 : c.len > 0 ∧ off + c.len ≤ bodyLen
        · rw [if_pos h3]; simp; omega
        · rw [if_neg h3]; simp; omega

/-- packets consume the tile data monotonically: the bodies of a tile are disjoint parts of what was left -/
theorem decodeSeq_sum (total : Nat) (mode : Mode) (off : Nat) (ps : List Pkt) (rs : List PktRes)
    (h : decodeSeq total mode off ps = some rs) : (tileAllocs rs).sum ≤ total - off := by
  induction ps generalizing off rs with
  | nil => simp [decodeSeq] at h; subst h; simp [tileAllocs]
  | cons p ps ih =>
    unfold decodeSeq at h
    by_cases h0 : off ≥ total
    · rw [if_pos h0] at h; cases h; simp [tileAllocs]
    · rw [if_neg h0] at h
      cases hp : p.incls with
      | none =>
        rw [hp] at h
        simp only at h
        cases hr : decodeSeq total mode (off + p.hdrLen) ps with
        | none => rw [hr] at h; cases h
        | some rs' =>
          rw [hr] at h; cases h
          have := ih _ _ hr
          simp only [tileAllocs]
          omega
      | some cs =>
        rw [hp] at h
        simp only at h
        cases hb : bodyLoop total mode (off + p.hdrLen) cs with
        | none => rw [hb] at h; cases h
        | some r =>
          rw [hb] at h
          simp only at h
          cases hr : decodeSeq total mode r.off ps with
          | none => rw [hr] at h; cases h
          | some rs' =>
            rw [hr] at h; cases h
            obtain ⟨e1, e2, e3⟩ := bodyLoop_body _ _ _ _ _ hb
            have s1 := gatherAllocs_sum r.body r.incls.length 0 0 r.incls
            have s2 := ih _ _ hr
            simp only [tileAllocs, List.sum_append]
            by_cases hh : off + p.hdrLen ≤ total
            · have := e2 hh; omega
            · have := e3 (by omega); omega

end PktBody
