import GdcVerif.Model.J2kProgression
/-!
  C09, LRCP / RLCP without precincts: the repaired loops of t2/packet_decoder.go leave the iteration when one
  whole pass over (resolution, component) — LRCP: of a layer; RLCP: of a layer at one resolution — visited no
  precinct.  `decLRCPx` / `decRLCPx` are the loops WITH that exit; they generate exactly the packet sequence of the
  loops without it (`J2kProg.decLRCP` / `decRLCP`), for every precinct table: the exit only skips turns that
  contribute nothing, because what a pass visits does not depend on the layer.
-/
namespace J2kProg

/-- one layer's pass of decodeLRCP over (resolution, component, precinct) -/
def layerPass (nR nC : Nat) (idx : Nat → Nat → List Nat) (l : Nat) : List Pkt :=
  (range nR).flatMap fun r => (range nC).flatMap fun c => (idx c r).map fun p => (l, r, c, p)

/-- decodeLRCP with the exit `if visited == 0 { return }` at the end of a layer -/
def decLRCPx (nR nC : Nat) (idx : Nat → Nat → List Nat) : List Nat → List Pkt
  | [] => []
  | l :: ls => if (layerPass nR nC idx l).isEmpty then [] else layerPass nR nC idx l ++ decLRCPx nR nC idx ls

/-- one (resolution, layer) pass of decodeRLCP over (component, precinct) -/
def resLayerPass (nC : Nat) (idx : Nat → Nat → List Nat) (r l : Nat) : List Pkt :=
  (range nC).flatMap fun c => (idx c r).map fun p => (l, r, c, p)

/-- the layer loop of decodeRLCP at one resolution with the exit `if visited == 0 { break }` -/
def resLayersx (nC : Nat) (idx : Nat → Nat → List Nat) (r : Nat) : List Nat → List Pkt
  | [] => []
  | l :: ls => if (resLayerPass nC idx r l).isEmpty then [] else resLayerPass nC idx r l ++ resLayersx nC idx r ls

def decRLCPx (nL nR nC : Nat) (idx : Nat → Nat → List Nat) : List Pkt :=
  (range nR).flatMap fun r => resLayersx nC idx r (range nL)

theorem layerPass_eq_map (nR nC : Nat) (idx : Nat → Nat → List Nat) (l : Nat) :
    layerPass nR nC idx l = (layerPass nR nC idx 0).map fun q => (l, q.2.1, q.2.2.1, q.2.2.2) := by
  unfold layerPass
  simp [List.map_flatMap, Function.comp_def]

theorem layerPass_empty_iff (nR nC : Nat) (idx : Nat → Nat → List Nat) (l l' : Nat) :
    layerPass nR nC idx l = [] ↔ layerPass nR nC idx l' = [] := by
  rw [layerPass_eq_map nR nC idx l, layerPass_eq_map nR nC idx l']
  simp

theorem resLayerPass_eq_map (nC : Nat) (idx : Nat → Nat → List Nat) (r l : Nat) :
    resLayerPass nC idx r l = (resLayerPass nC idx r 0).map fun q => (l, q.2.1, q.2.2.1, q.2.2.2) := by
  unfold resLayerPass
  simp [List.map_flatMap, Function.comp_def]

theorem resLayerPass_empty_iff (nC : Nat) (idx : Nat → Nat → List Nat) (r l l' : Nat) :
    resLayerPass nC idx r l = [] ↔ resLayerPass nC idx r l' = [] := by
  rw [resLayerPass_eq_map nC idx r l, resLayerPass_eq_map nC idx r l']
  simp

theorem decLRCPx_eq (nR nC : Nat) (idx : Nat → Nat → List Nat) (ls : List Nat) :
    decLRCPx nR nC idx ls = ls.flatMap (layerPass nR nC idx) := by
  induction ls with
  | nil => rfl
  | cons l ls ih =>
    unfold decLRCPx
    by_cases he : layerPass nR nC idx l = []
    · have hall : ∀ l' ∈ ls, layerPass nR nC idx l' = [] := fun l' _ => (layerPass_empty_iff nR nC idx l l').mp he
      simp [he, List.flatMap_eq_nil_iff.mpr hall]
    · have : (layerPass nR nC idx l).isEmpty = false := by
        cases h : layerPass nR nC idx l with
        | nil => exact absurd h he
        | cons a t => rfl
      simp [this, ih]

theorem resLayersx_eq (nC : Nat) (idx : Nat → Nat → List Nat) (r : Nat) (ls : List Nat) :
    resLayersx nC idx r ls = ls.flatMap (resLayerPass nC idx r) := by
  induction ls with
  | nil => rfl
  | cons l ls ih =>
    unfold resLayersx
    by_cases he : resLayerPass nC idx r l = []
    · have hall : ∀ l' ∈ ls, resLayerPass nC idx r l' = [] := fun l' _ => (resLayerPass_empty_iff nC idx r l l').mp he
      simp [he, List.flatMap_eq_nil_iff.mpr hall]
    · have : (resLayerPass nC idx r l).isEmpty = false := by
        cases h : resLayerPass nC idx r l with
        | nil => exact absurd h he
        | cons a t => rfl
      simp [this, ih]

/-- the repaired LRCP loop generates the packet sequence of the loop without the exit -/
theorem decLRCPx_eq_decLRCP (nL nR nC : Nat) (idx : Nat → Nat → List Nat) :
    decLRCPx nR nC idx (range nL) = decLRCP nL nR nC idx := by
  rw [decLRCPx_eq]; rfl

/-- the same for RLCP -/
theorem decRLCPx_eq_decRLCP (nL nR nC : Nat) (idx : Nat → Nat → List Nat) :
    decRLCPx nL nR nC idx = decRLCP nL nR nC idx := by
  unfold decRLCPx decRLCP
  congr 1
  funext r
  rw [resLayersx_eq]; rfl

/-- the cost side: when no (component, resolution) has a precinct the repaired LRCP loop stops after ONE layer pass
    (layers are not iterated): for every list of layers the loop is the first layer's pass -/
theorem decLRCPx_no_precinct (nR nC : Nat) (idx : Nat → Nat → List Nat) (h : ∀ c r, idx c r = []) (ls : List Nat) :
    decLRCPx nR nC idx ls = [] := by
  cases ls with
  | nil => rfl
  | cons l ls =>
    have : layerPass nR nC idx l = [] := by unfold layerPass; simp [h]
    unfold decLRCPx; simp [this]

end J2kProg
