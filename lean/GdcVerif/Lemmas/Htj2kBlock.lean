import GdcVerif.Lemmas.Htj2k
import GdcVerif.Model.Htj2kBlock
/-!
  Lemmas about the HT cleanup pass model (`Model/Htj2kBlock.lean`): context-VLC table round trip, the single
  sample, one quad, the first quad pair.  Property theorems are in `Props/C06.lean`.
-/
namespace Htj2k

/-! ## Context VLC: prefix-free rows decode to themselves -/

def rowClash (a b : VlcRow) : Bool :=
  let l := min a.len b.len
  a.cwd % 2 ^ l == b.cwd % 2 ^ l

def noRowClash (a : VlcRow) : List VlcRow → Bool
  | [] => true
  | b :: bs => !rowClash a b && noRowClash a bs

def rowsPF : List VlcRow → Bool
  | [] => true
  | a :: rest => noRowClash a rest && rowsPF rest

def rowWF (r : VlcRow) : Bool :=
  decide (1 ≤ r.len) && decide (r.len ≤ 7) && decide (r.cwd < 2 ^ r.len) && decide (r.cq < 8) && decide (r.rho < 16) &&
  decide (r.uoff < 2) && decide (r.ek < 16) && decide (r.e1 < 16) &&
  (decide (r.uoff = 1) || (decide (r.ek = 0) && decide (r.e1 = 0)))

/-- all rows well-formed; within each context the codewords are prefix-free -/
def rowsOk (rows : List VlcRow) : Bool :=
  rows.all rowWF && (List.range 8).all fun c => rowsPF (rows.filter (fun r => r.cq == c))

set_option maxRecDepth 1000000 in
theorem rows0_ok : rowsOk (vlcRows Gen.Htj2k.VLCTbl0) = true ∧ (vlcRows Gen.Htj2k.VLCTbl0).length = Gen.Htj2k.VLCTbl0.size := by
  decide +kernel
set_option maxRecDepth 1000000 in
theorem rows1_ok : rowsOk (vlcRows Gen.Htj2k.VLCTbl1) = true ∧ (vlcRows Gen.Htj2k.VLCTbl1).length = Gen.Htj2k.VLCTbl1.size := by
  decide +kernel

theorem noRowClash_mem (a : VlcRow) (l : List VlcRow) (h : noRowClash a l = true) (b : VlcRow) (hb : b ∈ l) :
    rowClash a b = false := by
  induction l with
  | nil => cases hb
  | cons x xs ih =>
    simp only [noRowClash, Bool.and_eq_true, Bool.not_eq_true'] at h
    rcases List.mem_cons.mp hb with rfl | hm
    · exact h.1
    · exact ih h.2 hm

theorem match_clash (a b : VlcRow) (w : Nat) (ha : a.cwd = w % 2 ^ a.len) (hb : b.cwd = w % 2 ^ b.len) :
    rowClash a b = true := by
  unfold rowClash
  simp only [beq_iff_eq]
  have h1 : 2 ^ min a.len b.len ∣ 2 ^ a.len := Nat.pow_dvd_pow 2 (Nat.min_le_left _ _)
  have h2 : 2 ^ min a.len b.len ∣ 2 ^ b.len := Nat.pow_dvd_pow 2 (Nat.min_le_right _ _)
  rw [ha, hb, Nat.mod_mod_of_dvd _ h1, Nat.mod_mod_of_dvd _ h2]

theorem pf_find (l : List VlcRow) (w : Nat) (hpf : rowsPF l = true) (r : VlcRow) (hr : r ∈ l)
    (hm : r.cwd = w % 2 ^ r.len) :
    l.find? (fun x => decide (x.cwd = w % 2 ^ x.len)) = some r := by
  induction l with
  | nil => cases hr
  | cons a rest ih =>
    simp only [rowsPF, Bool.and_eq_true] at hpf
    rw [List.find?_cons]
    by_cases hp : a.cwd = w % 2 ^ a.len
    · simp only [hp, decide_true]
      rcases List.mem_cons.mp hr with rfl | hrest
      · rfl
      · have h1 := noRowClash_mem a rest hpf.1 r hrest
        have h2 := match_clash a r w hp hm
        rw [h1] at h2; cases h2
    · simp only [hp, decide_false]
      rcases List.mem_cons.mp hr with rfl | hrest
      · exact absurd hm hp
      · exact ih hpf.2 hrest

theorem decLookup_eq_filter (rows : List VlcRow) (cq w : Nat) :
    decLookup rows cq w = (rows.filter (fun r => r.cq == cq)).find? (fun x => decide (x.cwd = w % 2 ^ x.len)) := by
  unfold decLookup
  induction rows with
  | nil => rfl
  | cons a rest ih =>
    by_cases hc : a.cq = cq
    · simp only [List.find?_cons, List.filter_cons, hc, beq_self_eq_true, if_true, true_and]
      by_cases hp : a.cwd = w % 2 ^ a.len
      · simp [hp]
      · simp only [hp, decide_false]; exact ih
    · have : (a.cq == cq) = false := by simpa using hc
      simp only [List.find?_cons, List.filter_cons, this, hc, false_and, decide_false]
      exact ih

/-- decoding a row's own codeword, followed by anything, in its own context finds that row -/
theorem decLookup_self (rows : List VlcRow) (hok : rowsOk rows = true) (r : VlcRow) (hr : r ∈ rows) (rest : Nat) :
    decLookup rows r.cq ((r.cwd + rest * 2 ^ r.len) % 128) = some r := by
  unfold rowsOk at hok
  rw [Bool.and_eq_true, List.all_eq_true, List.all_eq_true] at hok
  have hwf := hok.1 r hr
  simp only [rowWF, Bool.and_eq_true, decide_eq_true_eq] at hwf
  have hcq : r.cq < 8 := hwf.1.1.1.1.1.2
  have hlen7 : r.len ≤ 7 := hwf.1.1.1.1.1.1.1.2
  have hcwd : r.cwd < 2 ^ r.len := hwf.1.1.1.1.1.1.2
  have hpf := hok.2 r.cq (List.mem_range.mpr hcq)
  rw [decLookup_eq_filter]
  apply pf_find _ _ hpf r
  · exact List.mem_filter.mpr ⟨hr, by simp⟩
  · have hd : 2 ^ r.len ∣ 128 := by
      have : (128 : Nat) = 2 ^ 7 := by decide
      rw [this]; exact Nat.pow_dvd_pow 2 hlen7
    rw [Nat.mod_mod_of_dvd _ hd, Nat.add_mul_mod_self_right, Nat.mod_eq_of_lt hcwd]

theorem foldl_best (cq rho eps : Nat) (l : List VlcRow) : ∀ (acc : Option VlcRow × Nat) (r : VlcRow),
    (l.foldl (fun (acc : Option VlcRow × Nat) r =>
      if r.cq = cq ∧ r.rho = rho ∧ r.uoff = 1 ∧ eps &&& r.ek = r.e1 then
        (if popCount4 r.ek + 1 ≥ acc.2 then (some r, popCount4 r.ek + 1) else acc)
      else acc) acc).1 = some r →
    (acc.1 = some r) ∨ (r ∈ l ∧ r.cq = cq ∧ r.rho = rho ∧ r.uoff = 1 ∧ eps &&& r.ek = r.e1) := by
  induction l with
  | nil => intro acc r h; exact Or.inl h
  | cons a rest ih =>
    intro acc r h
    simp only [List.foldl_cons] at h
    by_cases hc : a.cq = cq ∧ a.rho = rho ∧ a.uoff = 1 ∧ eps &&& a.ek = a.e1
    · simp only [hc, and_self, if_true] at h
      by_cases hb : popCount4 a.ek + 1 ≥ acc.2
      · simp only [hb, if_true] at h
        rcases ih _ r h with h1 | h1
        · simp only [Option.some.injEq] at h1
          subst h1
          exact Or.inr ⟨List.mem_cons_self, hc⟩
        · exact Or.inr ⟨List.mem_cons_of_mem _ h1.1, h1.2⟩
      · simp only [hb, if_false] at h
        rcases ih _ r h with h1 | h1
        · exact Or.inl h1
        · exact Or.inr ⟨List.mem_cons_of_mem _ h1.1, h1.2⟩
    · simp only [hc, if_false] at h
      rcases ih _ r h with h1 | h1
      · exact Or.inl h1
      · exact Or.inr ⟨List.mem_cons_of_mem _ h1.1, h1.2⟩

theorem encSelect_some (rows : List VlcRow) (cq rho eps : Nat) (r : VlcRow) (h : encSelect rows cq rho eps = some r) :
    r ∈ rows ∧ r.cq = cq ∧ r.rho = rho ∧ (eps ≠ 0 → r.uoff = 1 ∧ eps &&& r.ek = r.e1) ∧ (eps = 0 → r.uoff = 0) := by
  unfold encSelect at h
  split at h
  · cases h
  · split at h
    · rename_i he
      rcases foldl_best cq rho eps rows (none, 0) r h with h1 | h1
      · cases h1
      · exact ⟨h1.1, h1.2.1, h1.2.2.1, fun _ => ⟨h1.2.2.2.1, h1.2.2.2.2⟩, fun h0 => absurd h0 he⟩
    · rename_i he
      have he0 : eps = 0 := by simpa using he
      have hm := List.mem_of_find?_eq_some h
      have hp := List.find?_some h
      simp only [decide_eq_true_eq] at hp
      exact ⟨hm, hp.1, hp.2.1, fun hne => absurd he0 hne, fun _ => hp.2.2⟩

/-- (VLC context coder round trip) whatever row the encoder table holds for `(cq, rho, eps)`, the decoder table finds
    the same row from the codeword followed by any further bits, in the same context -/
theorem vlc_cxt_roundtrip' (rows : List VlcRow) (hok : rowsOk rows = true) (cq rho eps : Nat) (r : VlcRow)
    (h : encSelect rows cq rho eps = some r) (rest : Nat) :
    decLookup rows cq ((r.cwd + rest * 2 ^ r.len) % 128) = some r ∧ r.rho = rho ∧
    r.uoff = (if eps = 0 then 0 else 1) ∧ eps &&& r.ek = r.e1 ∧ 1 ≤ r.len ∧ r.len ≤ 7 ∧ r.cwd < 2 ^ r.len ∧ r.ek < 16 := by
  obtain ⟨hm, h1, h2, h3, h4⟩ := encSelect_some rows cq rho eps r h
  have hd := decLookup_self rows hok r hm rest
  rw [h1] at hd
  have hok' := hok
  unfold rowsOk at hok'
  rw [Bool.and_eq_true, List.all_eq_true] at hok'
  have hwf := hok'.1 r hm
  simp only [rowWF, Bool.and_eq_true, Bool.or_eq_true, decide_eq_true_eq] at hwf
  refine ⟨hd, h2, ?_, ?_, hwf.1.1.1.1.1.1.1.1, hwf.1.1.1.1.1.1.1.2, hwf.1.1.1.1.1.1.2, hwf.1.1.2⟩
  · by_cases he : eps = 0
    · simp [he, h4 he]
    · simp [he, (h3 he).1]
  · by_cases he : eps = 0
    · have hu := h4 he
      rcases hwf.2 with hx | hx
      · omega
      · rw [he, hx.1, hx.2]; rfl
    · exact (h3 he).2

/-- is there a candidate row for (rho, eps) among the rows of one context -/
def hasCand (rc : List VlcRow) (rho eps : Nat) : Bool :=
  if eps ≠ 0 then rc.any (fun r => decide (r.rho = rho) && decide (r.uoff = 1) && decide (eps &&& r.ek = r.e1))
  else rc.any (fun r => decide (r.rho = rho) && decide (r.uoff = 0))

def ctxComplete (cq : Nat) (rc : List VlcRow) : Bool :=
  (List.range 16).all fun rho => (List.range 16).all fun eps =>
    (decide (eps &&& rho ≠ eps) || (decide (rho = 0) && decide (cq = 0))) || hasCand rc rho eps

/-- every index the cleanup encoder can form — `eps ⊆ rho`, not (`rho = 0` in context 0) — has a candidate row -/
def encComplete (rows : List VlcRow) : Bool :=
  (List.range 8).all fun cq => ctxComplete cq (rows.filter (fun r => r.cq == cq))

set_option maxRecDepth 1000000 in
theorem enc0_complete : encComplete (vlcRows Gen.Htj2k.VLCTbl0) = true := by decide +kernel

set_option maxRecDepth 1000000 in
theorem enc1_complete : encComplete (vlcRows Gen.Htj2k.VLCTbl1) = true := by decide +kernel

theorem foldl_best_some (cq rho eps : Nat) (l : List VlcRow) : ∀ (acc : Option VlcRow × Nat),
    (acc.1.isSome = true ∨ (acc.2 = 0 ∧ ∃ r ∈ l, r.cq = cq ∧ r.rho = rho ∧ r.uoff = 1 ∧ eps &&& r.ek = r.e1)) →
    ((l.foldl (fun (acc : Option VlcRow × Nat) r =>
      if r.cq = cq ∧ r.rho = rho ∧ r.uoff = 1 ∧ eps &&& r.ek = r.e1 then
        (if popCount4 r.ek + 1 ≥ acc.2 then (some r, popCount4 r.ek + 1) else acc)
      else acc) acc).1).isSome = true := by
  induction l with
  | nil =>
    intro acc h
    rcases h with h | ⟨_, r, hr, _⟩
    · exact h
    · cases hr
  | cons a rest ih =>
    intro acc h
    simp only [List.foldl_cons]
    apply ih
    by_cases hc : a.cq = cq ∧ a.rho = rho ∧ a.uoff = 1 ∧ eps &&& a.ek = a.e1
    · simp only [hc, and_self, if_true]
      by_cases hb : popCount4 a.ek + 1 ≥ acc.2
      · simp only [hb, if_true]; exact Or.inl rfl
      · simp only [hb, if_false]
        rcases h with h | ⟨h0, _⟩
        · exact Or.inl h
        · omega
    · simp only [hc, if_false]
      rcases h with h | ⟨h0, r, hr, hp⟩
      · exact Or.inl h
      · rcases List.mem_cons.mp hr with rfl | hm
        · exact absurd hp hc
        · exact Or.inr ⟨h0, r, hm, hp⟩

theorem encSelect_isSome (rows : List VlcRow) (hc : encComplete rows = true) (cq rho eps : Nat)
    (hcq : cq < 8) (hrho : rho < 16) (heps : eps < 16) (hsub : eps &&& rho = eps) (hnz : ¬ (rho = 0 ∧ cq = 0)) :
    (encSelect rows cq rho eps).isSome = true := by
  unfold encComplete at hc
  rw [List.all_eq_true] at hc
  have h1 := hc cq (List.mem_range.mpr hcq)
  unfold ctxComplete at h1
  rw [List.all_eq_true] at h1
  have h2 := h1 rho (List.mem_range.mpr hrho)
  rw [List.all_eq_true] at h2
  have h3 := h2 eps (List.mem_range.mpr heps)
  simp only [Bool.or_eq_true, Bool.and_eq_true, decide_eq_true_eq] at h3
  rcases h3 with (h3 | h3) | h3
  · exact absurd hsub h3
  · exact absurd h3 hnz
  · unfold encSelect
    have hv : ¬ (eps &&& rho ≠ eps ∨ (rho = 0 ∧ cq = 0)) := by
      intro h; rcases h with h | h
      · exact h hsub
      · exact hnz h
    simp only [hv, if_false]
    unfold hasCand at h3
    by_cases he : eps ≠ 0
    · rw [if_pos he] at h3
      rw [if_pos he]
      rw [List.any_eq_true] at h3
      obtain ⟨r, hr, hp⟩ := h3
      simp only [Bool.and_eq_true, decide_eq_true_eq] at hp
      have hm := List.mem_filter.mp hr
      apply foldl_best_some
      exact Or.inr ⟨rfl, r, hm.1, by simpa using hm.2, hp.1.1, hp.1.2, hp.2⟩
    · rw [if_neg he] at h3
      rw [if_neg he]
      rw [List.any_eq_true] at h3
      obtain ⟨r, hr, hp⟩ := h3
      simp only [Bool.and_eq_true, decide_eq_true_eq] at hp
      have hm := List.mem_filter.mp hr
      rw [List.find?_isSome]
      have hcq' : r.cq = cq := by simpa using hm.2
      exact ⟨r, hm.1, by simp [hp.1, hp.2, hcq']⟩


/-! ## One sample: what MagSgn carries and what the decoder rebuilds -/

theorem bitLen_lt_iff (x k : Nat) : bitLen x ≤ k ↔ x < 2 ^ k := by
  constructor
  · intro h
    unfold bitLen at h
    by_cases hx : x = 0
    · subst hx; exact Nat.two_pow_pos k
    · simp only [hx, if_false] at h
      exact (Nat.log2_lt hx).mp (by omega)
  · exact bitLen_le x k

/-- `prepSample` on the sign-magnitude word of an admissible nonzero coefficient -/
theorem prepSample_signMag (kmax : Nat) (hk : 1 ≤ kmax ∧ kmax ≤ 30) (v : Int) (hv : v.natAbs < 2 ^ kmax) :
    prepSample kmax (toSignMag kmax v) =
      if v = 0 then (false, 0, 0)
      else (true, bitLen (2 * v.natAbs - 1), 2 * v.natAbs - 2 + (if v < 0 then 1 else 0)) := by
  unfold prepSample
  rw [sampleVal_signMag kmax hk v hv]
  by_cases h0 : v = 0
  · subst h0; simp
  · have hn : v.natAbs ≠ 0 := by omega
    have h2 : 2 * v.natAbs ≠ 0 := by omega
    simp only [h2, h0, if_false]
    -- the sign bit of the word
    have hsign : toSignMag kmax v / 2 ^ 31 % 2 = if v < 0 then 1 else 0 := by
      have hpow : 2 ^ kmax * 2 ^ (31 - kmax) = 2 ^ 31 := by rw [← Nat.pow_add]; congr 1; omega
      have hlt : v.natAbs * 2 ^ (31 - kmax) < 2 ^ 31 := by
        rw [← hpow]; exact Nat.mul_lt_mul_of_pos_right hv (Nat.two_pow_pos _)
      have hval : v.natAbs * 2 ^ (31 - kmax) % 2 ^ 32 = v.natAbs * 2 ^ (31 - kmax) :=
        Nat.mod_eq_of_lt (by have : (2 : Nat) ^ 31 < 2 ^ 32 := by decide
                             omega)
      unfold toSignMag
      simp only [hval]
      by_cases hneg : v < 0
      · simp only [hneg, if_true]
        have hor : 2 ^ 31 ||| v.natAbs * 2 ^ (31 - kmax) = 2 ^ 31 + v.natAbs * 2 ^ (31 - kmax) := by
          have := Nat.two_pow_add_eq_or_of_lt hlt 1
          rw [Nat.mul_one] at this
          exact this.symm
        rw [hor, Nat.add_div_left _ (Nat.two_pow_pos 31), Nat.div_eq_of_lt hlt]
      · simp only [hneg, if_false, Nat.zero_or]
        rw [Nat.div_eq_of_lt hlt]
    rw [hsign]

/-- the word `decodeOJPHSampleMS` rebuilds from the `mn` MagSgn bits of `s = 2|v| - 2 + sign`, given that the bits above
    `mn` are described by (e_k, e_1): it carries `v` (plus the half-LSB reconstruction bit that the final shift drops) -/
theorem sample_rebuild (kmax : Nat) (hk : 1 ≤ kmax ∧ kmax ≤ 30) (v : Int) (hv : v.natAbs < 2 ^ kmax) (hv0 : v ≠ 0)
    (mn ek e1 : Nat) (hmn : 1 ≤ mn)
    (hcase : (ek = 0 ∧ e1 = 0 ∧ 2 * v.natAbs - 1 < 2 ^ mn) ∨
             (ek = 1 ∧ e1 = 1 ∧ 2 ^ mn + 1 ≤ 2 * v.natAbs - 1 ∧ 2 * v.natAbs - 1 < 2 ^ (mn + 1)) ∨
             (ek = 1 ∧ e1 = 0 ∧ 2 * v.natAbs - 1 < 2 ^ mn)) :
    let s := 2 * v.natAbs - 2 + (if v < 0 then 1 else 0)
    let msVal := s % 2 ^ mn
    let vn := (msVal % 2 ^ mn + e1 * 2 ^ mn) / 2 * 2 + 1
    vn = 2 * v.natAbs - 1 ∧
    fromSignMag kmax (msVal % 2 * 2 ^ 31 + (vn + 2) * 2 ^ (30 - kmax) % 2 ^ 32) = v := by
  intro s msVal vn
  have hn : 1 ≤ v.natAbs := by omega
  have hsgn : (if v < 0 then 1 else 0 : Nat) ≤ 1 := by split <;> omega
  -- s with its top part
  have hs : s = msVal + e1 * 2 ^ mn := by
    show s = s % 2 ^ mn + e1 * 2 ^ mn
    rcases hcase with ⟨_, h1, h2⟩ | ⟨_, h1, h2, h3⟩ | ⟨_, h1, h2⟩
    · rw [h1, Nat.zero_mul, Nat.add_zero, Nat.mod_eq_of_lt]; show 2 * v.natAbs - 2 + _ < _; omega
    · rw [h1, Nat.one_mul]
      have hlo : 2 ^ mn ≤ s := by show 2 ^ mn ≤ 2 * v.natAbs - 2 + _; omega
      have hhi : s < 2 ^ mn + 2 ^ mn := by
        show 2 * v.natAbs - 2 + _ < _; rw [Nat.pow_succ] at h3; omega
      have : s % 2 ^ mn = s - 2 ^ mn := by
        rw [Nat.mod_eq_sub_mod hlo, Nat.mod_eq_of_lt (by omega)]
      omega
    · rw [h1, Nat.zero_mul, Nat.add_zero, Nat.mod_eq_of_lt]; show 2 * v.natAbs - 2 + _ < _; omega
  have hvn : vn = 2 * v.natAbs - 1 := by
    show (msVal % 2 ^ mn + e1 * 2 ^ mn) / 2 * 2 + 1 = _
    have : msVal % 2 ^ mn = msVal := Nat.mod_eq_of_lt (Nat.mod_lt _ (Nat.two_pow_pos mn))
    rw [this, ← hs]
    show (2 * v.natAbs - 2 + _) / 2 * 2 + 1 = _
    split <;> omega
  refine ⟨hvn, ?_⟩
  -- the sign bit: bit 0 of the fetched value
  have hbit0 : msVal % 2 = if v < 0 then 1 else 0 := by
    have h2 : 2 ∣ 2 ^ mn := by
      obtain ⟨j, hj⟩ : ∃ j, mn = j + 1 := ⟨mn - 1, by omega⟩
      rw [hj, Nat.pow_succ]; exact Nat.dvd_mul_left 2 _
    show s % 2 ^ mn % 2 = _
    rw [Nat.mod_mod_of_dvd _ h2]
    show (2 * v.natAbs - 2 + _) % 2 = _
    split <;> omega
  rw [hvn, hbit0]
  have e : 2 * v.natAbs - 1 + 2 = 2 * v.natAbs + 1 := by omega
  rw [e]
  -- (2m+1)·2^(30-k) = m·2^(31-k) + 2^(30-k)
  have hpow : 2 ^ (31 - kmax) = 2 * 2 ^ (30 - kmax) := by
    rw [show 31 - kmax = (30 - kmax) + 1 by omega, Nat.pow_succ]; omega
  have hprod : (2 * v.natAbs + 1) * 2 ^ (30 - kmax) = v.natAbs * 2 ^ (31 - kmax) + 2 ^ (30 - kmax) := by
    rw [hpow, Nat.add_mul, Nat.one_mul, Nat.mul_assoc, Nat.mul_comm 2 (v.natAbs * _), Nat.mul_assoc,
      Nat.mul_comm (2 ^ (30 - kmax)) 2]
  have hp31 : 2 ^ kmax * 2 ^ (31 - kmax) = 2 ^ 31 := by rw [← Nat.pow_add]; congr 1; omega
  have hle : (v.natAbs + 1) * 2 ^ (31 - kmax) ≤ 2 ^ 31 := by
    rw [← hp31]; exact Nat.mul_le_mul_right _ (by omega)
  have hq : 0 < 2 ^ (30 - kmax) := Nat.two_pow_pos _
  have hlt31 : v.natAbs * 2 ^ (31 - kmax) + 2 ^ (30 - kmax) < 2 ^ 31 := by
    rw [Nat.add_mul, Nat.one_mul] at hle; omega
  rw [hprod, Nat.mod_eq_of_lt (by have : (2 : Nat) ^ 31 < 2 ^ 32 := by decide
                                  omega)]
  unfold fromSignMag
  generalize hX : v.natAbs * 2 ^ (31 - kmax) + 2 ^ (30 - kmax) = X at hlt31
  have hmag : X / 2 ^ (31 - kmax) = v.natAbs := by
    rw [← hX, Nat.add_comm, Nat.add_mul_div_right _ _ (Nat.two_pow_pos _), Nat.div_eq_of_lt (by omega), Nat.zero_add]
  by_cases hneg : v < 0
  · simp only [hneg, if_true, Nat.one_mul]
    have h1 : (2 ^ 31 + X) % 2 ^ 31 = X := by rw [Nat.add_mod_left]; exact Nat.mod_eq_of_lt hlt31
    have h2 : (2 ^ 31 + X) / 2 ^ 31 % 2 = 1 := by
      rw [Nat.add_div_left _ (Nat.two_pow_pos 31), Nat.div_eq_of_lt hlt31]
    rw [h1, h2, hmag]; simp only [if_true]; omega
  · simp only [hneg, if_false, Nat.zero_mul, Nat.zero_add]
    have h1 : X % 2 ^ 31 = X := Nat.mod_eq_of_lt hlt31
    have h2 : X / 2 ^ 31 % 2 = 0 := by rw [Nat.div_eq_of_lt hlt31]
    rw [h1, h2, hmag]; simp only [Nat.zero_ne_one, if_false]; omega

theorem bitLen_ge (x k : Nat) (h : bitLen x = k + 1) : 2 ^ k ≤ x := by
  unfold bitLen at h
  by_cases hx : x = 0
  · simp [hx] at h
  · simp only [hx, if_false] at h
    have : x.log2 = k := by omega
    rw [← this]; exact Nat.log2_self_le hx

/-- exponent-max-bound case analysis for one significant sample: with `U_q ≥ e_q`, an e_k bit only when `U_q ≥ 2`,
    and the e_1 bit telling whether `e_q = U_q`, the `U_q - e_k` MagSgn bits plus (e_k, e_1) determine `2|v| - 1` -/
theorem emb_case (v : Int) (hv0 : v ≠ 0) (uq ekb e1b : Nat) (hek : ekb ≤ 1)
    (h1 : bitLen (2 * v.natAbs - 1) ≤ uq) (huq : 1 ≤ uq)
    (h2 : ekb = 1 → 2 ≤ uq ∧ (e1b = 1 ↔ bitLen (2 * v.natAbs - 1) = uq) ∧ e1b ≤ 1)
    (h3 : ekb = 0 → e1b = 0) :
    1 ≤ uq - ekb ∧
    ((ekb = 0 ∧ e1b = 0 ∧ 2 * v.natAbs - 1 < 2 ^ (uq - ekb)) ∨
     (ekb = 1 ∧ e1b = 1 ∧ 2 ^ (uq - ekb) + 1 ≤ 2 * v.natAbs - 1 ∧ 2 * v.natAbs - 1 < 2 ^ (uq - ekb + 1)) ∨
     (ekb = 1 ∧ e1b = 0 ∧ 2 * v.natAbs - 1 < 2 ^ (uq - ekb))) := by
  have hlt : 2 * v.natAbs - 1 < 2 ^ uq := (bitLen_lt_iff _ _).mp h1
  by_cases hz : ekb = 0
  · subst hz
    exact ⟨by omega, Or.inl ⟨rfl, h3 rfl, by simpa using hlt⟩⟩
  · have he1 : ekb = 1 := by omega
    subst he1
    obtain ⟨hu2, hiff, hle⟩ := h2 rfl
    refine ⟨by omega, ?_⟩
    obtain ⟨j, hj⟩ : ∃ j, uq = j + 2 := ⟨uq - 2, by omega⟩
    subst hj
    by_cases hb : e1b = 1
    · have hbl := hiff.mp hb
      have hge := bitLen_ge _ (j + 1) hbl
      have hpe : 2 ^ (j + 1) = 2 * 2 ^ j := by rw [Nat.pow_succ]; omega
      refine Or.inr (Or.inl ⟨rfl, hb, ?_, ?_⟩)
      · show 2 ^ (j + 2 - 1) + 1 ≤ _
        rw [show j + 2 - 1 = j + 1 by omega]
        have : 1 ≤ v.natAbs := by omega
        omega
      · rw [show j + 2 - 1 + 1 = j + 2 by omega]; exact hlt
    · have hb0 : e1b = 0 := by omega
      have hne : bitLen (2 * v.natAbs - 1) ≠ j + 2 := fun h => hb (hiff.mpr h)
      have : bitLen (2 * v.natAbs - 1) ≤ j + 1 := by omega
      have := (bitLen_lt_iff _ _).mp this
      exact Or.inr (Or.inr ⟨rfl, hb0, by rw [show j + 2 - 1 = j + 1 by omega]; exact this⟩)

/-- (sample round trip) encoder side `prepareOJPHSample` + `ojphEncodeMagSgn`, decoder side `decodeOJPHSampleMS` + final
    shift: for an admissible nonzero coefficient, from the `m = U_q - e_k` low bits of `s` and the (e_k, e_1) bits of the
    quad's VLC row the decoder rebuilds exactly `v`, and its `v_n` is `2|v| - 1` (the exponent source of the next row) -/
theorem sample_roundtrip' (kmax : Nat) (hk : 1 ≤ kmax ∧ kmax ≤ 30) (v : Int) (hv : v.natAbs < 2 ^ kmax) (hv0 : v ≠ 0)
    (uq ekb e1b : Nat) (hek : ekb ≤ 1)
    (h1 : (prepSample kmax (toSignMag kmax v)).2.1 ≤ uq) (huq : 1 ≤ uq)
    (h2 : ekb = 1 → 2 ≤ uq ∧ (e1b = 1 ↔ (prepSample kmax (toSignMag kmax v)).2.1 = uq) ∧ e1b ≤ 1)
    (h3 : ekb = 0 → e1b = 0) :
    let s := (prepSample kmax (toSignMag kmax v)).2.2
    let mn := uq - ekb
    let msVal := s % 2 ^ mn
    let vn := (msVal % 2 ^ mn + e1b * 2 ^ mn) / 2 * 2 + 1
    1 ≤ mn ∧ vn = 2 * v.natAbs - 1 ∧
    fromSignMag kmax (msVal % 2 * 2 ^ 31 + (vn + 2) * 2 ^ (30 - kmax) % 2 ^ 32) = v := by
  rw [prepSample_signMag kmax hk v hv] at h1 h2 ⊢
  simp only [hv0, if_false] at h1 h2 ⊢
  obtain ⟨hm, hc⟩ := emb_case v hv0 uq ekb e1b hek h1 huq h2 h3
  have := sample_rebuild kmax hk v hv hv0 (uq - ekb) ekb e1b hm hc
  exact ⟨hm, this.1, this.2⟩

/-! ## VLC bit window -/

/-- LSB-first window of a list of (codeword, length) items followed by `vr` -/
def winOf : List (Nat × Nat) → Nat → Nat
  | [], vr => vr
  | it :: l, vr => it.1 % 2 ^ it.2 + winOf l vr * 2 ^ it.2

theorem winOf_append (a b : List (Nat × Nat)) (vr : Nat) : winOf (a ++ b) vr = winOf a (winOf b vr) := by
  induction a with
  | nil => rfl
  | cons it l ih => simp [winOf, ih]

theorem winOf_concat (l : List (Nat × Nat)) (vr : Nat) :
    winOf l vr = (vlcConcat l).1 + vr * 2 ^ (vlcConcat l).2 := by
  induction l with
  | nil => simp [winOf, vlcConcat]
  | cons it l ih =>
    obtain ⟨c, n⟩ := it
    simp only [winOf, vlcConcat, ih]
    rw [Nat.add_mul, Nat.pow_add, Nat.add_assoc]
    congr 1
    rw [Nat.mul_assoc, Nat.mul_comm (2 ^ (vlcConcat l).2) (2 ^ n), Nat.mul_comm (2 ^ n) (2 ^ (vlcConcat l).2)]

theorem winOf_head_mod (c n X : Nat) (hc : c < 2 ^ n) : (c % 2 ^ n + X * 2 ^ n) / 2 ^ n = X := by
  rw [Nat.mod_eq_of_lt hc, Nat.add_mul_div_right _ _ (Nat.two_pow_pos n), Nat.div_eq_of_lt hc, Nat.zero_add]

/-! ## One quad: VLC codeword and MEL event -/

def rowsOf (initial : Bool) : List VlcRow := if initial then vlcRows0 else vlcRows1

theorem rowsOf_ok (initial : Bool) : rowsOk (rowsOf initial) = true ∧ encComplete (rowsOf initial) = true := by
  cases initial
  · exact ⟨rows1_ok.1, enc1_complete⟩
  · exact ⟨rows0_ok.1, enc0_complete⟩

/-- what the encoder hands to the VLC and MEL writers for one quad -/
def quadItem (initial : Bool) (cq rho eps : Nat) : Nat × Nat :=
  (encodeTuple initial cq rho eps / 256, encodeTuple initial cq rho eps / 16 % 8)
def quadMel (cq rho : Nat) : List Bool := if cq = 0 then [decide (rho ≠ 0)] else []

/-- the scratch entry the decoder must end up with -/
def quadRow (initial : Bool) (cq rho eps : Nat) : Option VlcRow :=
  if rho = 0 ∧ cq = 0 then none else encSelect (rowsOf initial) cq rho eps

theorem quad_vlc_roundtrip (initial : Bool) (cq rho eps : Nat) (hcq : cq < 8) (hrho : rho < 16) (heps : eps < 16)
    (hsub : eps &&& rho = eps) (mr : List Bool) (X : Nat) :
    decVlcQuad (rowsOf initial) cq true
      { mel := quadMel cq rho ++ mr, vlc := winOf [quadItem initial cq rho eps] X } =
      (quadRow initial cq rho eps, { mel := mr, vlc := X }) ∧
    rowRho (quadRow initial cq rho eps) = rho ∧
    rowUoff (quadRow initial cq rho eps) = (if eps = 0 then 0 else 1) ∧
    eps &&& rowEk (quadRow initial cq rho eps) = rowE1 (quadRow initial cq rho eps) ∧
    rowEk (quadRow initial cq rho eps) < 16 := by
  by_cases hz : rho = 0 ∧ cq = 0
  · -- all-zero quad in context 0: no codeword, MEL event 0
    obtain ⟨hr, hc⟩ := hz
    subst hr; subst hc
    have he : eps = 0 := by simpa using hsub.symm
    subst he
    simp [decVlcQuad, quadRow, quadMel, quadItem, encodeTuple, winOf, HtDecStreams.melNext, HtDecStreams.adv,
      rowLen, rowRho, rowUoff, rowEk, rowE1]
  · obtain ⟨hok, hcomp⟩ := rowsOf_ok initial
    have hsome := encSelect_isSome (rowsOf initial) hcomp cq rho eps hcq hrho heps hsub hz
    obtain ⟨r, hr⟩ := Option.isSome_iff_exists.mp hsome
    have hrt := vlc_cxt_roundtrip' (rowsOf initial) hok cq rho eps r hr X
    obtain ⟨hd, hrho', huoff, he1, hl1, hl7, hcwd, hek⟩ := hrt
    have htuple : encodeTuple initial cq rho eps = r.cwd * 256 + r.len * 16 + r.ek := by
      unfold encodeTuple encEntry
      simp only [hz, if_false]
      show (match encSelect (rowsOf initial) cq rho eps with | some r => _ | none => 0) = _
      rw [hr]
    have hitem : quadItem initial cq rho eps = (r.cwd, r.len) := by
      unfold quadItem; rw [htuple]
      have h1 : (r.cwd * 256 + r.len * 16 + r.ek) / 256 = r.cwd := by omega
      have h2 : (r.cwd * 256 + r.len * 16 + r.ek) / 16 % 8 = r.len := by omega
      rw [h1, h2]
    have hrow : quadRow initial cq rho eps = some r := by unfold quadRow; simp only [hz, if_false]; exact hr
    have hwin : winOf [(r.cwd, r.len)] X = r.cwd + X * 2 ^ r.len := by
      simp [winOf, Nat.mod_eq_of_lt hcwd]
    rw [hrow, hitem, hwin]
    refine ⟨?_, hrho', huoff, he1, hek⟩
    unfold decVlcQuad
    simp only [hd]
    by_cases hc0 : cq = 0
    · have hrne : rho ≠ 0 := fun h => hz ⟨h, hc0⟩
      simp [hc0, quadMel, hrne, HtDecStreams.melNext, HtDecStreams.adv, rowLen]
      rw [Nat.add_mul_div_right _ _ (Nat.two_pow_pos _), Nat.div_eq_of_lt hcwd, Nat.zero_add]
    · simp [hc0, quadMel, HtDecStreams.adv, rowLen]
      rw [Nat.add_mul_div_right _ _ (Nat.two_pow_pos _), Nat.div_eq_of_lt hcwd, Nat.zero_add]

/-! ## The first-row quad pair: VLC codewords, MEL events, U-VLC -/

theorem uvlcItems_initial (u0 u1 : Nat) : vlcConcat (uvlcItems true u0 u1) = encodeInitialUVLC u0 u1 := by
  unfold uvlcItems encodeInitialUVLC
  by_cases h1 : u0 > 2 ∧ u1 > 2
  · simp only [h1, and_self, true_and, if_true]
  · by_cases h2 : u0 > 2 ∧ u1 > 0
    · have h3 : ¬ u1 > 2 := fun h => h1 ⟨h2.1, h⟩
      simp only [h2, h3, and_self, true_and, if_true, if_false]
    · simp only [h1, h2, true_and, if_false]

theorem vlcConcat_lt (l : List (Nat × Nat)) : (vlcConcat l).1 < 2 ^ (vlcConcat l).2 := by
  induction l with
  | nil => simp [vlcConcat]
  | cons it l ih =>
    obtain ⟨c, n⟩ := it
    simp only [vlcConcat]
    exact lt_pow_add _ _ _ _ (Nat.mod_lt _ (Nat.two_pow_pos n)) ih

theorem winOf_div (l : List (Nat × Nat)) (X : Nat) : winOf l X / 2 ^ (vlcConcat l).2 = X := by
  rw [winOf_concat, Nat.add_mul_div_right _ _ (Nat.two_pow_pos _), Nat.div_eq_of_lt (vlcConcat_lt l), Nat.zero_add]

/-- one quad as the pair coder sees it: significance pattern, U_q - 1 and the exponent mask -/
structure QuadSig where
  rho : Nat
  u : Nat
  eps : Nat

def QuadSig.Valid (q : QuadSig) : Prop :=
  q.rho < 16 ∧ q.eps < 16 ∧ q.eps &&& q.rho = q.eps ∧ (q.eps = 0 ↔ q.u = 0) ∧ q.u ≤ 32

/-- VLC items and MEL events of one turn of `encodeOJPHInitialRows`, in writing order -/
def pairVlcItems (cq0 : Nat) (hasQ1 : Bool) (q0 q1 : QuadSig) : List (Nat × Nat) :=
  [quadItem true cq0 q0.rho q0.eps] ++
  (if hasQ1 then [quadItem true (q0.rho / 2 ||| q0.rho % 2) q1.rho q1.eps] else []) ++
  uvlcItems true q0.u (if hasQ1 then q1.u else 0)

def pairMel (cq0 : Nat) (hasQ1 : Bool) (q0 q1 : QuadSig) : List Bool :=
  quadMel cq0 q0.rho ++
  (if hasQ1 then quadMel (q0.rho / 2 ||| q0.rho % 2) q1.rho else []) ++
  (if hasQ1 ∧ q0.u > 0 ∧ q1.u > 0 then [decide (min q0.u q1.u > 2)] else [])

theorem ctx_lt8 (rho : Nat) (h : rho < 16) : rho / 2 ||| rho % 2 < 8 := by
  have : ∀ r : Fin 16, r.val / 2 ||| r.val % 2 < 8 := by decide
  exact this ⟨rho, h⟩

theorem uvlc_step (a b X : Nat) (ha : a ≤ 32) (hb : b ≤ 32) :
    decodeUVLC true (uvlcMode true a b) (winOf (uvlcItems true a b) X) = (a, b, (vlcConcat (uvlcItems true a b)).2) := by
  rw [winOf_concat, uvlcItems_initial]
  exact uvlc_initial_roundtrip' a b X ha hb

theorem initial_pair_roundtrip' (w x cq0 : Nat) (q0 q1 : QuadSig) (hcq : cq0 < 8) (h0 : q0.Valid) (h1 : q1.Valid)
    (mr : List Bool) (vr : Nat) :
    decInitialPair w x cq0 { mel := pairMel cq0 (decide (x + 2 < w)) q0 q1 ++ mr,
                             vlc := winOf (pairVlcItems cq0 (decide (x + 2 < w)) q0 q1) vr } =
      (((quadRow true cq0 q0.rho q0.eps, 1 + q0.u),
        (if x + 2 < w then quadRow true (q0.rho / 2 ||| q0.rho % 2) q1.rho q1.eps else none,
         1 + (if x + 2 < w then q1.u else 0))),
       (if x + 2 < w then q1.rho / 2 ||| q1.rho % 2 else 0), { mel := mr, vlc := vr }) := by
  obtain ⟨hr0, he0, hs0, hz0, hu0⟩ := h0
  obtain ⟨hr1, he1, hs1, hz1, hu1⟩ := h1
  have hcq1 : q0.rho / 2 ||| q0.rho % 2 < 8 := ctx_lt8 _ hr0
  have hrows : vlcRows0 = rowsOf true := rfl
  have huoff0 : (if q0.eps = 0 then 0 else 1 : Nat) = if q0.u > 0 then 1 else 0 := by
    by_cases h : q0.eps = 0
    · have := hz0.mp h; simp [h, this]
    · have : q0.u ≠ 0 := fun hh => h (hz0.mpr hh)
      have : q0.u > 0 := by omega
      simp [h, this]
  have huoff1 : (if q1.eps = 0 then 0 else 1 : Nat) = if q1.u > 0 then 1 else 0 := by
    by_cases h : q1.eps = 0
    · have := hz1.mp h; simp [h, this]
    · have : q1.u ≠ 0 := fun hh => h (hz1.mpr hh)
      have : q1.u > 0 := by omega
      simp [h, this]
  unfold decInitialPair
  by_cases hq : x + 2 < w
  · -- two quads
    simp only [hq, decide_true, if_true]
    obtain ⟨hq0, hrho0, hu0', _, _⟩ := quad_vlc_roundtrip true cq0 q0.rho q0.eps hcq hr0 he0 hs0
      (quadMel (q0.rho / 2 ||| q0.rho % 2) q1.rho ++
        ((if q0.u > 0 ∧ q1.u > 0 then [decide (min q0.u q1.u > 2)] else []) ++ mr))
      (winOf ([quadItem true (q0.rho / 2 ||| q0.rho % 2) q1.rho q1.eps] ++ uvlcItems true q0.u q1.u) vr)
    have e1 : pairMel cq0 true q0 q1 ++ mr = quadMel cq0 q0.rho ++
        (quadMel (q0.rho / 2 ||| q0.rho % 2) q1.rho ++
          ((if q0.u > 0 ∧ q1.u > 0 then [decide (min q0.u q1.u > 2)] else []) ++ mr)) := by
      simp [pairMel, List.append_assoc]
    have e2 : winOf (pairVlcItems cq0 true q0 q1) vr = winOf [quadItem true cq0 q0.rho q0.eps]
        (winOf ([quadItem true (q0.rho / 2 ||| q0.rho % 2) q1.rho q1.eps] ++ uvlcItems true q0.u q1.u) vr) := by
      simp only [pairVlcItems, if_true, List.append_assoc]; rw [winOf_append]
    rw [e1, e2, hrows, hq0]
    simp only [hrho0]
    obtain ⟨hq1, hrho1, hu1', _, _⟩ := quad_vlc_roundtrip true (q0.rho / 2 ||| q0.rho % 2) q1.rho q1.eps hcq1 hr1 he1 hs1
      ((if q0.u > 0 ∧ q1.u > 0 then [decide (min q0.u q1.u > 2)] else []) ++ mr)
      (winOf (uvlcItems true q0.u q1.u) vr)
    rw [winOf_append, hq1]
    simp only [hrho1, hu0', hu1', huoff0, huoff1]
    by_cases hb : q0.u > 0 ∧ q1.u > 0
    · obtain ⟨hb0, hb1⟩ := hb
      have hmode : uvlcMode true q0.u q1.u = 192 + (if min q0.u q1.u > 2 then 64 else 0) := by
        unfold uvlcMode
        by_cases hm : min q0.u q1.u > 2
        · have : q0.u > 2 ∧ q1.u > 2 := by omega
          simp [hb0, hb1, hm, this]
        · have : ¬ (q0.u > 2 ∧ q1.u > 2) := by omega
          simp [hb0, hb1, hm, this]
      simp only [hb0, hb1, and_self, if_true, Nat.one_mul, HtDecStreams.melNext, List.cons_append, List.nil_append]
      have hu := uvlc_step q0.u q1.u vr hu0 hu1
      rw [hmode] at hu
      by_cases hm : min q0.u q1.u > 2
      · simp only [hm, decide_true, if_true] at hu ⊢
        rw [hu]
        simp only [HtDecStreams.adv, winOf_div]
      · simp only [hm, decide_false, if_false, Nat.add_zero] at hu ⊢
        simp only [Bool.false_eq_true, if_false]
        rw [hu]
        simp only [HtDecStreams.adv, winOf_div]
    · have hmode : uvlcMode true q0.u q1.u = (if q0.u > 0 then 1 else 0) * 64 + (if q1.u > 0 then 1 else 0) * 128 := by
        unfold uvlcMode
        have : ¬ (q0.u > 2 ∧ q1.u > 2) := by omega
        by_cases a : q0.u > 0 <;> by_cases b : q1.u > 0 <;> simp [a, b, this]
      have hne : (if q0.u > 0 then 1 else 0) * 64 + (if q1.u > 0 then 1 else 0) * 128 ≠ 192 := by
        split <;> split <;> omega
      simp only [hb, if_false, List.nil_append, hne]
      have hu := uvlc_step q0.u q1.u vr hu0 hu1
      rw [hmode] at hu
      rw [hu]
      simp only [HtDecStreams.adv, winOf_div]
  · -- a single quad (last, narrow column pair)
    simp only [hq, decide_false, if_false, Bool.false_eq_true]
    obtain ⟨hq0, hrho0, hu0', _, _⟩ := quad_vlc_roundtrip true cq0 q0.rho q0.eps hcq hr0 he0 hs0 mr
      (winOf (uvlcItems true q0.u 0) vr)
    have e1 : pairMel cq0 false q0 q1 ++ mr = quadMel cq0 q0.rho ++ mr := by simp [pairMel]
    have e2 : winOf (pairVlcItems cq0 false q0 q1) vr = winOf [quadItem true cq0 q0.rho q0.eps]
        (winOf (uvlcItems true q0.u 0) vr) := by
      simp only [pairVlcItems, Bool.false_eq_true, if_false, List.append_nil]; rw [winOf_append]
    rw [e1, e2, hrows, hq0]
    simp only [hrho0, hu0', huoff0]
    have hmode : uvlcMode true q0.u 0 = (if q0.u > 0 then 1 else 0) * 64 := by
      unfold uvlcMode; by_cases a : q0.u > 0 <;> simp [a]
    have hne : (if q0.u > 0 then 1 else 0) * 64 ≠ 192 := by by_cases a : q0.u > 0 <;> simp [a]
    have hu := uvlc_step q0.u 0 vr hu0 (by omega)
    rw [hmode] at hu
    simp [decVlcQuad, rowLen, rowUoff, rowRho, HtDecStreams.adv, hne, hu, winOf_div]


/-! ## The prepared quad meets the pair lemma's hypotheses -/

theorem bits_and_sub : ∀ s0 s1 s2 s3 f0 f1 f2 f3 : Bool, (f0 → s0) → (f1 → s1) → (f2 → s2) → (f3 → s3) →
    (f0.toNat + 2 * f1.toNat + 4 * f2.toNat + 8 * f3.toNat) &&& (s0.toNat + 2 * s1.toNat + 4 * s2.toNat + 8 * s3.toNat) =
      f0.toNat + 2 * f1.toNat + 4 * f2.toNat + 8 * f3.toNat := by decide

/-- a quad of four prepared samples in closed form -/
theorem prepQuad_four (kmax : Nat) (t0 t1 t2 t3 : Nat) :
    let p := fun t => prepSample kmax t
    (prepQuad kmax [t0, t1, t2, t3]).rho =
      (p t0).1.toNat + 2 * (p t1).1.toNat + 4 * (p t2).1.toNat + 8 * (p t3).1.toNat ∧
    (prepQuad kmax [t0, t1, t2, t3]).eQ = [(p t0).2.1, (p t1).2.1, (p t2).2.1, (p t3).2.1] ∧
    (prepQuad kmax [t0, t1, t2, t3]).eQMax = max (max (max (max 0 (p t0).2.1) (p t1).2.1) (p t2).2.1) (p t3).2.1 := by
  intro p
  refine ⟨?_, rfl, rfl⟩
  simp only [prepQuad, List.map, List.zipIdx_cons, List.zipIdx_nil, List.sum_cons, List.sum_nil]
  cases (prepSample kmax t0).1 <;> cases (prepSample kmax t1).1 <;> cases (prepSample kmax t2).1 <;>
    cases (prepSample kmax t3).1 <;> simp

theorem epsOf_four (e0 e1 e2 e3 M : Nat) (u : Int) :
    epsOf [e0, e1, e2, e3] M u =
      if u ≤ 0 then 0
      else (decide (e0 = M)).toNat + 2 * (decide (e1 = M)).toNat + 4 * (decide (e2 = M)).toNat + 8 * (decide (e3 = M)).toNat := by
  unfold epsOf
  split
  · rfl
  · simp only [List.map, List.zipIdx_cons, List.zipIdx_nil, List.sum_cons, List.sum_nil]
    by_cases a0 : e0 = M <;> by_cases a1 : e1 = M <;> by_cases a2 : e2 = M <;> by_cases a3 : e3 = M <;> simp [a0, a1, a2, a3]

/-- the first-row quad the encoder prepares from four admissible coefficients meets the hypotheses of the pair lemma -/
theorem prepQuad_valid (kmax : Nat) (hk : 1 ≤ kmax ∧ kmax ≤ 30) (v0 v1 v2 v3 : Int)
    (h0 : v0.natAbs < 2 ^ kmax) (h1 : v1.natAbs < 2 ^ kmax) (h2 : v2.natAbs < 2 ^ kmax) (h3 : v3.natAbs < 2 ^ kmax) :
    let q := prepQuad kmax [toSignMag kmax v0, toSignMag kmax v1, toSignMag kmax v2, toSignMag kmax v3]
    QuadSig.Valid ⟨q.rho, max q.eQMax 1 - 1, epsOf q.eQ q.eQMax ((max q.eQMax 1 - 1 : Nat) : Int)⟩ := by
  intro q
  obtain ⟨hrho, heq, hmax⟩ := prepQuad_four kmax (toSignMag kmax v0) (toSignMag kmax v1) (toSignMag kmax v2) (toSignMag kmax v3)
  -- per-sample facts: not significant ⇒ exponent 0; exponent ≤ kmax+1
  have fact : ∀ v : Int, v.natAbs < 2 ^ kmax →
      ((prepSample kmax (toSignMag kmax v)).1 = false → (prepSample kmax (toSignMag kmax v)).2.1 = 0) ∧
      ((prepSample kmax (toSignMag kmax v)).1 = true → 1 ≤ (prepSample kmax (toSignMag kmax v)).2.1) ∧
      (prepSample kmax (toSignMag kmax v)).2.1 ≤ kmax + 1 := by
    intro v hv
    rw [prepSample_signMag kmax hk v hv]
    by_cases hz : v = 0
    · simp [hz]
    · simp only [hz, if_false]
      have hr := sampleEQ_range kmax hk v hv
      unfold sampleEQ at hr
      rw [sampleVal_signMag kmax hk v hv] at hr
      have h2 : 2 * v.natAbs ≠ 0 := by omega
      simp only [h2, if_false] at hr
      exact ⟨by simp, fun _ => hr.2.1 hz, hr.1⟩
  obtain ⟨a0, b0, c0⟩ := fact v0 h0
  obtain ⟨a1, b1, c1⟩ := fact v1 h1
  obtain ⟨a2, b2, c2⟩ := fact v2 h2
  obtain ⟨a3, b3, c3⟩ := fact v3 h3
  show QuadSig.Valid ⟨q.rho, max q.eQMax 1 - 1, epsOf q.eQ q.eQMax _⟩
  rw [show q.rho = _ from hrho, show q.eQ = _ from heq, show q.eQMax = _ from hmax, epsOf_four]
  generalize (prepSample kmax (toSignMag kmax v0)).1 = s0 at *
  generalize (prepSample kmax (toSignMag kmax v1)).1 = s1 at *
  generalize (prepSample kmax (toSignMag kmax v2)).1 = s2 at *
  generalize (prepSample kmax (toSignMag kmax v3)).1 = s3 at *
  generalize (prepSample kmax (toSignMag kmax v0)).2.1 = e0 at *
  generalize (prepSample kmax (toSignMag kmax v1)).2.1 = e1 at *
  generalize (prepSample kmax (toSignMag kmax v2)).2.1 = e2 at *
  generalize (prepSample kmax (toSignMag kmax v3)).2.1 = e3 at *
  generalize hM : max (max (max (max 0 e0) e1) e2) e3 = M
  have hMle : M ≤ kmax + 1 := by omega
  have hMge : e0 ≤ M ∧ e1 ≤ M ∧ e2 ≤ M ∧ e3 ≤ M := by omega
  have hMatt : M = 0 ∨ e0 = M ∨ e1 = M ∨ e2 = M ∨ e3 = M := by omega
  unfold QuadSig.Valid
  simp only
  by_cases hu : ((max M 1 - 1 : Nat) : Int) ≤ 0
  · have hu0 : max M 1 - 1 = 0 := by omega
    simp only [hu0]
    have h00 : ((0 : Nat) : Int) ≤ 0 := by simp
    simp only [h00, if_true]
    refine ⟨?_, by omega, by simp, by simp, by omega⟩
    cases s0 <;> cases s1 <;> cases s2 <;> cases s3 <;> simp
  · have hupos : max M 1 - 1 > 0 := by omega
    have hM2 : 2 ≤ M := by omega
    simp only [hu, if_false]
    -- a flagged sample has exponent M ≥ 2, hence is significant
    have f0 : (decide (e0 = M) = true → s0 = true) := by
      intro h; have : e0 = M := by simpa using h
      cases s0
      · have := a0 rfl; omega
      · rfl
    have f1 : (decide (e1 = M) = true → s1 = true) := by
      intro h; have : e1 = M := by simpa using h
      cases s1
      · have := a1 rfl; omega
      · rfl
    have f2 : (decide (e2 = M) = true → s2 = true) := by
      intro h; have : e2 = M := by simpa using h
      cases s2
      · have := a2 rfl; omega
      · rfl
    have f3 : (decide (e3 = M) = true → s3 = true) := by
      intro h; have : e3 = M := by simpa using h
      cases s3
      · have := a3 rfl; omega
      · rfl
    refine ⟨?_, ?_, bits_and_sub s0 s1 s2 s3 _ _ _ _ f0 f1 f2 f3, ?_, by omega⟩
    · cases s0 <;> cases s1 <;> cases s2 <;> cases s3 <;> simp
    · cases decide (e0 = M) <;> cases decide (e1 = M) <;> cases decide (e2 = M) <;> cases decide (e3 = M) <;> simp
    · constructor
      · intro h
        exfalso
        rcases hMatt with h' | h' | h' | h' | h'
        · omega
        all_goals (simp [h'] at h)
      · intro h; omega


end Htj2k
