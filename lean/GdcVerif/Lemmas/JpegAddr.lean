import GdcVerif.Model.JpegAddr
/-! Proofs for Props/C15. -/
namespace JpegAddr

theorem mem_walk_bounds (f : Frame) (c : Comp) (b : Nat × Nat) (hb : b ∈ walk f c) :
    b.1 < mcuCols f * c.H ∧ b.2 < mcuRows f * c.V := by
  simp only [walk, List.mem_flatMap, List.mem_map, List.mem_range] at hb
  obtain ⟨my, hmy, mx, hmx, v, hv, h, hh, rfl⟩ := hb
  constructor
  · calc mx * c.H + h < mx * c.H + c.H := by omega
      _ = (mx + 1) * c.H := by rw [Nat.add_mul, Nat.one_mul]
      _ ≤ mcuCols f * c.H := Nat.mul_le_mul_right _ hmx
  · calc my * c.V + v < my * c.V + c.V := by omega
      _ = (my + 1) * c.V := by rw [Nat.add_mul, Nat.one_mul]
      _ ≤ mcuRows f * c.V := Nat.mul_le_mul_right _ hmy

theorem walk_mem_of_bounds (f : Frame) (c : Comp) (bx by' : Nat) (hH : 0 < c.H) (hV : 0 < c.V)
    (h1 : bx < mcuCols f * c.H) (h2 : by' < mcuRows f * c.V) : (bx, by') ∈ walk f c := by
  simp only [walk, List.mem_flatMap, List.mem_map, List.mem_range, Prod.mk.injEq]
  refine ⟨by' / c.V, ?_, bx / c.H, ?_, by' % c.V, Nat.mod_lt _ hV, bx % c.H, Nat.mod_lt _ hH, ?_, ?_⟩
  · exact (Nat.div_lt_iff_lt_mul hV).2 h2
  · exact (Nat.div_lt_iff_lt_mul hH).2 h1
  · rw [Nat.mul_comm]; exact Nat.div_add_mod bx c.H
  · rw [Nat.mul_comm]; exact Nat.div_add_mod by' c.V

theorem offset_inj (cw bx by' bx' by'' : Nat) (h1 : bx < cw) (h2 : bx' < cw)
    (he : blockOffset cw bx by' = blockOffset cw bx' by'') : bx = bx' ∧ by' = by'' := by
  simp only [blockOffset] at he
  have he' : by' * cw + bx = by'' * cw + bx' := by omega
  have hcw : 0 < cw := by omega
  have a1 : (by' * cw + bx) / cw = by' := by
    rw [Nat.mul_comm, Nat.mul_add_div hcw, Nat.div_eq_of_lt h1]; rfl
  have a2 : (by'' * cw + bx') / cw = by'' := by
    rw [Nat.mul_comm, Nat.mul_add_div hcw, Nat.div_eq_of_lt h2]; rfl
  have : by' = by'' := by rw [← a1, ← a2, he']
  subst this
  exact ⟨by omega, rfl⟩

theorem div_lt_divCeil (a n d : Nat) (hd : 0 < d) (h : a < n) : a / d < divCeil n d := by
  simp only [divCeil]
  rw [Nat.div_lt_iff_lt_mul hd]
  have h1 := Nat.div_add_mod (n + d - 1) d
  have h2 := Nat.mod_lt (n + d - 1) hd
  have : (n + d - 1) / d * d = d * ((n + d - 1) / d) := Nat.mul_comm _ _
  omega

theorem writeOffset_some (cw len : Nat) (b : Nat × Nat) (h : blockOffset cw b.1 b.2 + 63 < len) :
    writeOffset cw len b = some (blockOffset cw b.1 b.2) := by
  unfold writeOffset
  simp only []
  rw [if_neg (by omega)]

theorem divCeil_mul_le (n v d : Nat) (hd : 0 < d) : divCeil (n * v) d ≤ divCeil n d * v := by
  have hK : n ≤ divCeil n d * d := by
    simp only [divCeil]
    have := Nat.div_add_mod (n + d - 1) d
    have := Nat.mod_lt (n + d - 1) hd
    rw [Nat.mul_comm]; omega
  generalize divCeil n d = K at *
  simp only [divCeil]
  apply Nat.le_of_lt_succ
  rw [Nat.div_lt_iff_lt_mul hd]
  have h1 : n * v ≤ K * d * v := Nat.mul_le_mul_right _ hK
  have e : (K * v).succ * d = K * d * v + d := by
    rw [Nat.succ_mul, Nat.mul_assoc, Nat.mul_comm v d, ← Nat.mul_assoc]
  rw [e]; omega

/-- fill bytes after an 0xFF are skipped -/
theorem scanFilterGo_fill (n : Nat) (s : List Nat) :
    scanFilterGo (List.replicate n 0xFF ++ s) true = scanFilterGo s true := by
  induction n with
  | zero => rfl
  | succ n ih => rw [List.replicate_succ, List.cons_append, scanFilterGo, if_pos rfl, ih]

theorem scanSplitGo_fill (n : Nat) (s cur : List Nat) (acc : List (List Nat)) :
    scanSplitGo (List.replicate n 0xFF ++ s) true cur acc = scanSplitGo s true cur acc := by
  induction n with
  | zero => rfl
  | succ n ih => rw [List.replicate_succ, List.cons_append, scanSplitGo, if_pos rfl, ih]

theorem sf_rst (k : Nat) (rest : List Nat) (hk : k < 8) : scanFilter (0xFF :: (0xD0 + k) :: rest) = scanFilter rest := by
  have h1 : isRST (0xD0 + k) = true := by simp [isRST]; omega
  have h2 : ¬ (0xD0 + k = 0) := by omega
  have h3 : ¬ (0xD0 + k = 0xFF) := by omega
  simp only [scanFilter, scanFilterGo, if_true, h2, h3, if_false, h1]

theorem sf_eoi (rest : List Nat) : scanFilter (0xFF :: 0xD9 :: rest) = [] := by
  simp [scanFilter, scanFilterGo, isRST]

theorem inblock_lt (cw ch bx by' : Nat) (h1 : bx < cw) (h2 : by' < ch) (r : Nat) (hr : r < 64) :
    blockOffset cw bx by' + r < cw * ch * 64 := by
  simp only [blockOffset]
  have : by' * cw + bx + 1 ≤ ch * cw := by
    calc by' * cw + bx + 1 ≤ by' * cw + cw := by omega
      _ = (by' + 1) * cw := by rw [Nat.add_mul, Nat.one_mul]
      _ ≤ ch * cw := Nat.mul_le_mul_right _ h2
  have e : cw * ch = ch * cw := Nat.mul_comm _ _
  rw [e]
  generalize by' * cw + bx = k at *
  generalize ch * cw = n at *
  omega

/-- scan filter: well-stuffed prefix is kept verbatim -/
theorem scanFilter_prefix : ∀ (pre rest : List Nat), wellStuffed pre = true → (∀ b ∈ pre.getLast?, b ≠ 0xFF) →
    scanFilter (pre ++ rest) = pre ++ scanFilter rest
  | [], rest, _, _ => by simp
  | [b], rest, _, hne => by
    have hb : b ≠ 0xFF := by simpa using hne
    simp [scanFilter, scanFilterGo, hb]
  | b :: b2 :: t, rest, hw, hne => by
    by_cases hb : b = 0xFF
    · subst hb
      simp only [wellStuffed, if_true, Bool.and_eq_true, beq_iff_eq] at hw
      obtain ⟨h0, hw'⟩ := hw
      subst h0
      have hl : ∀ x ∈ t.getLast?, x ≠ 0xFF := by
        intro x hx
        cases t with
        | nil => simp at hx
        | cons a as => exact hne x (by simpa [List.getLast?_cons_cons] using hx)
      have ih := scanFilter_prefix t rest hw' hl
      simp only [scanFilter] at ih
      simp [scanFilter, scanFilterGo, ih]
    · simp only [wellStuffed, hb, if_false] at hw
      have hl : ∀ x ∈ (b2 :: t).getLast?, x ≠ 0xFF := by
        intro x hx; exact hne x (by simpa [List.getLast?_cons_cons] using hx)
      have := scanFilter_prefix (b2 :: t) rest hw hl
      simp only [List.cons_append, scanFilter] at this ⊢
      rw [scanFilterGo, if_neg hb, this]

theorem pixLen_ge (w h : Nat) (h0 : 0 < w) (h1 : 0 < h) :
    w * h ≤ pixLen w h ∧ (pixLen w h = w * h → w % 8 = 0 ∧ h % 8 = 0) := by
  have hw : w ≤ 8 * divCeil w 8 := by simp only [divCeil]; omega
  have hh : h ≤ 8 * divCeil h 8 := by simp only [divCeil]; omega
  refine ⟨Nat.mul_le_mul hw hh, ?_⟩
  intro he
  simp only [pixLen] at he
  have e1 : 8 * divCeil w 8 = w := by
    rcases Nat.lt_or_ge w (8 * divCeil w 8) with hlt | hge
    · have : w * h < 8 * divCeil w 8 * (8 * divCeil h 8) :=
        Nat.lt_of_lt_of_le (Nat.mul_lt_mul_of_pos_right hlt h1) (Nat.mul_le_mul_left _ hh)
      omega
    · omega
  have e2 : 8 * divCeil h 8 = h := by
    rcases Nat.lt_or_ge h (8 * divCeil h 8) with hlt | hge
    · have : w * h < 8 * divCeil w 8 * (8 * divCeil h 8) := by
        rw [e1]; exact Nat.mul_lt_mul_of_pos_left hlt h0
      omega
    · omega
  omega


/-- without DRI the intervals joined are exactly the scan filter -/
theorem scanSplitGo_flatten : ∀ (s : List Nat) (ff : Bool) (cur : List Nat) (acc : List (List Nat)),
    (scanSplitGo s ff cur acc).flatten = acc.flatten ++ cur ++ scanFilterGo s ff
  | [], ff, cur, acc => by cases ff <;> simp [scanSplitGo, scanFilterGo]
  | b :: rest, false, cur, acc => by
    by_cases hb : b = 0xFF
    · simp [scanSplitGo, scanFilterGo, hb, scanSplitGo_flatten rest true]
    · simp [scanSplitGo, scanFilterGo, hb, scanSplitGo_flatten rest false]
  | b :: rest, true, cur, acc => by
    by_cases hb : b = 0xFF
    · simp [scanSplitGo, scanFilterGo, hb, scanSplitGo_flatten rest true]
    · by_cases h0 : b = 0
      · simp [scanSplitGo, scanFilterGo, h0, scanSplitGo_flatten rest false]
      · by_cases hr : isRST b = true
        · simp [scanSplitGo, scanFilterGo, hb, h0, hr, scanSplitGo_flatten rest false]
        · simp [scanSplitGo, scanFilterGo, hb, h0, hr]

theorem scanSplit_flatten (s cur : List Nat) (acc : List (List Nat)) :
    (scanSplitAux s cur acc).flatten = acc.flatten ++ cur ++ scanFilter s :=
  scanSplitGo_flatten s false cur acc

/-- a well-stuffed entropy-coded segment is appended verbatim to the current interval -/
theorem scanSplit_prefix : ∀ (pre rest cur : List Nat) (acc : List (List Nat)), wellStuffed pre = true →
    (∀ b ∈ pre.getLast?, b ≠ 0xFF) →
    scanSplitAux (pre ++ rest) cur acc = scanSplitAux rest (cur ++ pre) acc
  | [], rest, cur, acc, _, _ => by simp
  | [b], rest, cur, acc, _, hne => by
    have hb : b ≠ 0xFF := by simpa using hne
    simp [scanSplitAux, scanSplitGo, hb]
  | b :: b2 :: t, rest, cur, acc, hw, hne => by
    by_cases hb : b = 0xFF
    · subst hb
      simp only [wellStuffed, if_true, Bool.and_eq_true, beq_iff_eq] at hw
      obtain ⟨h0, hw'⟩ := hw
      subst h0
      have hl : ∀ x ∈ t.getLast?, x ≠ 0xFF := by
        intro x hx
        cases t with
        | nil => simp at hx
        | cons a as => exact hne x (by simpa [List.getLast?_cons_cons] using hx)
      have ih := scanSplit_prefix t rest (cur ++ [0xFF, 0]) acc hw' hl
      simp only [scanSplitAux] at ih
      simp [scanSplitAux, scanSplitGo, ih]
    · simp only [wellStuffed, hb, if_false] at hw
      have hl : ∀ x ∈ (b2 :: t).getLast?, x ≠ 0xFF := by
        intro x hx; exact hne x (by simpa [List.getLast?_cons_cons] using hx)
      have := scanSplit_prefix (b2 :: t) rest (cur ++ [b]) acc hw hl
      simp only [List.cons_append, scanSplitAux] at this ⊢
      rw [scanSplitGo, if_neg hb, this]
      simp

theorem mcuInterval_spec (ri : Nat) (hri : 0 < ri) : ∀ n, (mcuInterval ri n).1 = n / ri ∧
    ((mcuInterval ri n).2 = true ↔ (0 < n ∧ n % ri = 0))
  | 0 => by simp [mcuInterval]
  | n + 1 => by
    have ih := (mcuInterval_spec ri hri n).1
    by_cases h : (n + 1) % ri = 0
    · have hd : (n + 1) / ri = n / ri + 1 := by
        have := @Nat.succ_div n ri
        have hdvd : ri ∣ n + 1 := Nat.dvd_of_mod_eq_zero h
        simp [hdvd] at this; omega
      simp [mcuInterval, hri, h, ih, hd]
    · have hd : (n + 1) / ri = n / ri := by
        have := @Nat.succ_div n ri
        have hdvd : ¬ ri ∣ n + 1 := fun hd => h (Nat.mod_eq_zero_of_dvd hd)
        simp [hdvd] at this; omega
      simp [mcuInterval, hri, h, ih, hd]

end JpegAddr
