import GdcVerif.Model.Rct
/-! Lemmas about the generated RCT kernels (`Gen.J2kColor`). -/
namespace Rct
open Gen.J2kColor

theorem shr1 (x : Int) : Go.shr x 1 = x / 2 := by
  simp [Go.shr, Int.shiftRight_eq_div_pow]
theorem shr2 (x : Int) : Go.shr x 2 = x / 4 := by
  simp [Go.shr, Int.shiftRight_eq_div_pow]

/-- the inverse RCT undoes the forward RCT on all integers -/
theorem inverse_forward (r g b : Int) :
    RCTInverse (RCTForward r g b).1 (RCTForward r g b).2.1 (RCTForward r g b).2.2 = (r, g, b) := by
  simp only [RCTForward, RCTInverse, shr2]
  ext <;> simp <;> omega

/-- int32 range -/
def I32 (x : Int) : Prop := -2147483648 ≤ x ∧ x ≤ 2147483647

theorem wrap32_id {x : Int} (h : I32 x) : Go.wrap32 x = x := by
  unfold I32 at h; unfold Go.wrap32; omega

/-- with `|r|,|g|,|b| ≤ 2^28` no int32 operation of `RCTForward` wraps: the int32 reading equals the generated `Int` kernel -/
theorem forward32_eq {r g b : Int} (hr : -268435456 ≤ r ∧ r ≤ 268435456) (hg : -268435456 ≤ g ∧ g ≤ 268435456)
    (hb : -268435456 ≤ b ∧ b ≤ 268435456) : forward32 r g b = RCTForward r g b := by
  simp only [forward32, RCTForward, Go.wrap32, shr2]
  ext <;> simp <;> omega

/-- the forward outputs of in-range inputs: `|y| ≤ 2^28`, `|cb|,|cr| ≤ 2^29` -/
theorem forward_bounds {r g b : Int} (hr : -268435456 ≤ r ∧ r ≤ 268435456) (hg : -268435456 ≤ g ∧ g ≤ 268435456)
    (hb : -268435456 ≤ b ∧ b ≤ 268435456) :
    (-268435456 ≤ (RCTForward r g b).1 ∧ (RCTForward r g b).1 ≤ 268435456) ∧
    (-536870912 ≤ (RCTForward r g b).2.1 ∧ (RCTForward r g b).2.1 ≤ 536870912) ∧
    (-536870912 ≤ (RCTForward r g b).2.2 ∧ (RCTForward r g b).2.2 ≤ 536870912) := by
  simp only [RCTForward, shr2]
  omega

/-- with `|y| ≤ 2^28`, `|cb|,|cr| ≤ 2^29` no int32 operation of `RCTInverse` wraps -/
theorem inverse32_eq {y cb cr : Int} (hy : -268435456 ≤ y ∧ y ≤ 268435456) (hcb : -536870912 ≤ cb ∧ cb ≤ 536870912)
    (hcr : -536870912 ≤ cr ∧ cr ≤ 536870912) : inverse32 y cb cr = RCTInverse y cb cr := by
  simp only [inverse32, RCTInverse, Go.wrap32, shr2]
  ext <;> simp <;> omega

/-- the int32 code round-trips on `±2^28` -/
theorem inverse32_forward32 {r g b : Int} (hr : -268435456 ≤ r ∧ r ≤ 268435456) (hg : -268435456 ≤ g ∧ g ≤ 268435456)
    (hb : -268435456 ≤ b ∧ b ≤ 268435456) :
    inverse32 (forward32 r g b).1 (forward32 r g b).2.1 (forward32 r g b).2.2 = (r, g, b) := by
  rw [forward32_eq hr hg hb]
  have hbnd := forward_bounds hr hg hb
  rw [inverse32_eq hbnd.1 hbnd.2.1 hbnd.2.2]
  exact inverse_forward r g b

theorem zip3_map {α β γ δ : Type} (f1 : α → β) (f2 : α → γ) (f3 : α → δ) (t : List α) :
    (t.map f1).zip ((t.map f2).zip (t.map f3)) = t.map (fun x => (f1 x, f2 x, f3 x)) := by
  induction t with
  | nil => rfl
  | cons a t ih => simp [ih]

/-- the slice wrappers: `ApplyInverseRCTToComponents (ApplyRCTToComponents r g b)` returns the input triples -/
theorem apply_roundtrip (r g b : List Int) (hg : g.length = r.length) (hb : b.length = r.length) :
    (applyForward r g b).bind (fun t => applyInverse (t.map (·.1)) (t.map (·.2.1)) (t.map (·.2.2)))
      = some (r.zip (g.zip b)) := by
  simp only [applyForward, applyInverse, hg, hb, Nat.lt_irrefl, or_self, if_false, Option.bind_some,
    List.length_map]
  rw [zip3_map, List.map_map]
  congr 1
  conv => rhs; rw [← List.map_id (r.zip (g.zip b))]
  rw [List.map_map]
  apply List.map_congr_left
  intro x _
  simp only [Function.comp, id]
  exact inverse_forward x.1 x.2.1 x.2.2

end Rct
