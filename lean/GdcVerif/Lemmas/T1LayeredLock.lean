import GdcVerif.Lemmas.T1LockStyles
import GdcVerif.Lemmas.T1Termall
import GdcVerif.Lemmas.MqcSegDec
import GdcVerif.Lemmas.MqcErterm
import GdcVerif.Model.T1Layered
/-!
  Round trip of the layered T1 API (`EncodeLayered` / `DecodeLayeredWithMode`, `Model/T1Layered.lean`) for the
  styles with TERMALL (every pass its own MQ codeword segment), without LAZY and PTERM.
-/
namespace T1
open Gen

/-! ### the coder of one codeword segment -/

/-- the segment decoder, seen at absolute buffer positions, against the final buffer `B` -/
theorem coder_seg (B : Nat → Nat) (last LEN : Nat) (hB : Mqc.BOk B last LEN) (pre : Array Nat) :
    Coder (Mqc.FE B last) (fun e d => Mqc.Rel B last LEN e (Mqc.shiftDec pre d)) := by
  refine ⟨fun e e1 bit cx h hn hcx he hf => mq_back B last e e1 bit cx h hn hcx he hf, ?_⟩
  intro e e1 d bit cx h hn hbit hcx hr he hf
  obtain ⟨dv1, hd, hr1⟩ := mq_step B last LEN hB e e1 (Mqc.shiftDec pre d) bit cx h hn hbit hcx hr he hf
  rw [Mqc.decode_shift] at hd
  cases hdd : Mqc.decode d cx with
  | none => rw [hdd] at hd; exact absurd hd (by simp)
  | some r =>
    rw [hdd] at hd
    obtain ⟨b, d1⟩ := r
    simp only [Option.map_some, Option.some.injEq, Prod.mk.injEq] at hd
    exact ⟨d1, by rw [hd.1], by rw [hd.2]; exact hr1⟩

theorem coderCtx_seg (B : Nat → Nat) (last LEN : Nat) (pre : Array Nat) :
    CoderCtx (Mqc.FE B last) (fun e d => Mqc.Rel B last LEN e (Mqc.shiftDec pre d)) :=
  ⟨fun _ _ hF => hF, fun _ _ hr => by have := hr.ctx; exact congrArg Array.size this,
   fun _ _ _ hr => ⟨hr.a, rfl, hr.size, hr.data, hr.bple, hr.eos, hr.ctlo, hr.cthi, hr.ahead, hr.wdeq, hr.eq⟩⟩

/-- forward invariants of the encoder travel through the T1 functions as backward facts of their negation: a
"coder" without decoder -/
theorem coder_fwd (P : Mqc.Enc → Prop)
    (hP : ∀ (e e1 : Mqc.Enc) (bit cx : Nat), Mqc.RegOk e → 0x8000 ≤ e.a → cx < e.ctx.size →
      Mqc.encode e bit cx = some e1 → P e → P e1) :
    Coder (fun e => ¬ P e) (fun _ _ => False) :=
  ⟨fun e e1 bit cx h hn hcx he hf hp => hf (hP e e1 bit cx h hn hcx he hp), fun _ _ _ _ _ _ _ _ _ hr _ _ => hr.elim⟩

theorem coderCtx_fwd (P : Mqc.Enc → Prop) (hP : ∀ (e : Mqc.Enc) (c : Array Nat), P e → P { e with ctx := c }) :
    CoderCtx (fun e => ¬ P e) (fun _ _ => False) :=
  ⟨fun e c hf hp => hf (hP e c hp), fun _ _ hr => hr.elim, fun _ _ _ hr => hr.elim⟩

theorem encSignR_false (w : Nat) (data : Array Int) (st : EncSt) (f x y idx : Nat) :
    encSignR false w data st f x y idx = encSign w data st f x y idx := by
  unfold encSignR encSign
  simp only [Bool.false_eq_true, if_false, Option.bind_eq_bind, Option.bind_assoc]

theorem encSigPropR_false (w h orient bp : Nat) (data : Array Int) (st : EncSt) :
    encSigPropR false w h orient bp data st = encSigProp w h orient bp data st := by
  unfold encSigPropR encSigProp encBit
  simp only [Bool.false_eq_true, if_false, encSignR_false]

theorem encMagRefR_false (w h bp : Nat) (data : Array Int) (st : EncSt) :
    encMagRefR false w h bp data st = encMagRef w h bp data st := by
  unfold encMagRefR encMagRef encBit
  simp only [Bool.false_eq_true, if_false]

theorem decSignR_false (w bp : Nat) (st : DecSt) (f x y idx : Nat) :
    decSignR false w bp st f x y idx = decSign w bp st f x y idx := by
  unfold decSignR decSign
  simp only [Bool.false_eq_true, if_false, Option.bind_eq_bind, Option.bind_assoc, Option.bind_some]

theorem decSigPropR_false (w h orient bp : Nat) (st : DecSt) :
    decSigPropR false w h orient bp st = decSigProp w h orient bp st := by
  unfold decSigPropR decSigProp decBit
  simp only [Bool.false_eq_true, if_false, decSignR_false]

theorem decMagRefR_false (w h bp : Nat) (st : DecSt) :
    decMagRefR false w h bp st = decMagRef w h bp st := by
  unfold decMagRefR decMagRef decBit
  simp only [Bool.false_eq_true, if_false]

theorem notLazy (bp mb pt style : Int) (hL : Go.and style J2kT1.CblkStyleLazy = 0) :
    J2kT1.isLazyRawPass bp mb pt style = false := by
  unfold J2kT1.isLazyRawPass
  rw [hL]; rfl

/-- `RestartInitEnc()` if the previous pass was terminated -/
def restartIf (prevT : Bool) (st : EncSt) : EncSt :=
  if prevT then { st with mq := Mqc.restartInitEnc st.mq } else st

/-- one iteration of `EncodeLayered`'s loop under TERMALL (no LAZY, no PTERM) -/
theorem encLoopL_stepT (w h orient style : Nat) (V : Array Int) (mb np f : Nat) (st : EncSt) (n pi pt : Nat)
    (prevT : Bool) (acc : List PassRec)
    (hL : Go.and (style : Int) J2kT1.CblkStyleLazy = 0) (hT : Go.and (style : Int) J2kT1.CblkStyleTermAll ≠ 0)
    (hpt : pt ≤ 2) (hc : pi < np) :
    encLoopL w h orient style V mb np (f + 1) st (n : Int) pi pt prevT acc =
      (passE w h orient V n pt (restartIf prevT (cvE pi pt st))).bind fun st =>
        (segE style pt st).bind fun st =>
          (termMq style st.mq).bind fun m =>
            (resetE style { st with mq := m }).bind fun st =>
              if pt = 2 then encLoopL w h orient style V mb np f st ((n : Int) - 1) (pi + 1) 0 true
                (acc ++ [(numBytes st.mq, true)])
              else encLoopL w h orient style V mb np f st (n : Int) (pi + 1) (pt + 1) true
                (acc ++ [(numBytes st.mq, true)]) := by
  conv => lhs; unfold encLoopL
  rw [if_pos ⟨by omega, hc⟩]
  simp only [Int.toNat_natCast, notLazy _ _ _ _ hL, terminating_termall _ _ _ _ hT, Bool.false_eq_true, if_false, if_true]
  unfold termMq
  rcases (show pt = 0 ∨ pt = 1 ∨ pt = 2 by omega) with rfl | rfl | rfl
  · unfold passE segE cvE resetE restartIf
    simp only [true_or, if_true, show ¬(0 = 2 ∧ stySegsym style = true) from fun hh => absurd hh.1 (by decide), if_false,
      encSigPropR_false]
    cases encSigProp w h orient n V (if prevT = true then { flags := clearVisit st.flags, mq := Mqc.restartInitEnc st.mq } else { flags := clearVisit st.flags, mq := st.mq }) with
    | none => rfl
    | some st1 =>
      simp only [Option.bind_some]
      cases (if styPterm style = true then Mqc.ertermEnc st1.mq else Mqc.flushToOutput st1.mq) with
      | none => rfl
      | some m =>
        simp only [Option.map_some, Option.bind_some]
        cases (if styReset style = true then Option.map (fun m' => ({ flags := st1.flags, mq := m' } : EncSt)) (initCtx (Mqc.resetContexts m)) else some { flags := st1.flags, mq := m }) with
        | none => rfl
        | some st2 => rfl
  · unfold passE segE cvE resetE restartIf
    simp only [show ¬(1 = 0 ∨ 1 = 2 ∧ pi = 0) from by omega, if_false,
      show ¬(1 = 2 ∧ stySegsym style = true) from fun hh => absurd hh.1 (by decide), encMagRefR_false]
    cases encMagRef w h n V (if prevT = true then { flags := st.flags, mq := Mqc.restartInitEnc st.mq } else st) with
    | none => rfl
    | some st1 =>
      simp only [Option.bind_some]
      cases (if styPterm style = true then Mqc.ertermEnc st1.mq else Mqc.flushToOutput st1.mq) with
      | none => rfl
      | some m =>
        simp only [Option.map_some, Option.bind_some]
        cases (if styReset style = true then Option.map (fun m' => ({ flags := st1.flags, mq := m' } : EncSt)) (initCtx (Mqc.resetContexts m)) else some { flags := st1.flags, mq := m }) with
        | none => rfl
        | some st2 => rfl
  · unfold passE segE cvE resetE restartIf
    simp only []
    generalize (if prevT = true then
      ({ flags := (if 2 = 0 ∨ True ∧ pi = 0 then ({ flags := clearVisit st.flags, mq := st.mq } : EncSt) else st).flags,
         mq := Mqc.restartInitEnc (if 2 = 0 ∨ True ∧ pi = 0 then ({ flags := clearVisit st.flags, mq := st.mq } : EncSt) else st).mq } : EncSt)
      else (if 2 = 0 ∨ True ∧ pi = 0 then ({ flags := clearVisit st.flags, mq := st.mq } : EncSt) else st)) = st0
    cases encCleanup w h orient n V st0 with
    | none => rfl
    | some st1 =>
      simp only [Option.bind_some, true_and]
      cases (if stySegsym style = true then Option.map (fun m => ({ flags := st1.flags, mq := m } : EncSt)) (Mqc.segmarkEnc st1.mq) else some st1) with
      | none => rfl
      | some st1' =>
        simp only [Option.bind_some]
        cases (if styPterm style = true then Mqc.ertermEnc st1'.mq else Mqc.flushToOutput st1'.mq) with
        | none => rfl
        | some m =>
          simp only [Option.map_some, Option.bind_some]
          cases (if styReset style = true then Option.map (fun m' => ({ flags := st1'.flags, mq := m' } : EncSt)) (initCtx (Mqc.resetContexts m)) else some { flags := st1'.flags, mq := m }) with
          | none => rfl
          | some st2 => rfl

theorem segLast_term (term : Int → Nat → Bool) (np fuel last : Nat) (bp : Int) (pt : Nat) (h : term bp pt = true) :
    segLast term np fuel last bp pt = last := by
  cases fuel with
  | zero => rfl
  | succ f => unfold segLast; rw [if_neg (by rw [h]; simp)]

/-- the MQ decoder a new segment gets -/
def segDecoder (pi : Nat) (reset : Bool) (passData : List Nat) (prevCtx : Array Nat) : Option Mqc.Dec :=
  if pi = 0 ∨ reset = true then (Mqc.Dec.new passData NUMCONTEXTS).bind initCtxDec else decWithContexts passData prevCtx

/-- one iteration of `DecodeLayeredWithMode`'s loop under TERMALL (no LAZY): every pass opens a segment -/
theorem decLoopL_stepT (w h orient style : Nat) (reset : Bool) (mbI : Int) (PL : List Nat) (bytes : List Nat)
    (f : Nat) (s : LDec) (n pi pt : Nat) (hL : Go.and (style : Int) J2kT1.CblkStyleLazy = 0)
    (hpt : pt ≤ 2) (hc : pi < PL.length) (hns : s.newSegment = true) :
    decLoopL w h orient style true reset mbI PL bytes (f + 1) s (n : Int) pi pt =
      match PL[pi]? with
      | none => .panic
      | some currentEnd =>
        if currentEnd < s.prevEnd ∨ currentEnd > bytes.length then .err
        else
          match segDecoder pi reset ((bytes.take currentEnd).drop s.prevEnd) s.prevCtx with
          | none => .panic
          | some d =>
            match (passD w h orient n pt { cvD pi pt s.st with mq := d }).bind (segD style pt) with
            | none => .panic
            | some st' =>
              let s' : LDec := { st := st', prevEnd := currentEnd,
                                 prevCtx := if ¬ reset = true then st'.mq.ctx else s.prevCtx, newSegment := true }
              if pt = 2 then decLoopL w h orient style true reset mbI PL bytes f s' ((n : Int) - 1) (pi + 1) 0
              else decLoopL w h orient style true reset mbI PL bytes f s' (n : Int) (pi + 1) (pt + 1) := by
  conv => lhs; unfold decLoopL
  simp only []
  rw [if_pos ⟨by omega, hc⟩]
  simp only [Int.toNat_natCast, notLazy _ _ _ _ hL, Bool.true_or, hns, if_true, Bool.false_eq_true, if_false,
    not_false_eq_true, and_true, Bool.not_eq_true, true_and,
    show segLast (fun _ _ => true) PL.length PL.length pi (n : Int) pt = pi from segLast_term _ _ _ _ _ _ rfl]
  cases PL[pi]? with
  | none => rfl
  | some currentEnd =>
    simp only []
    by_cases hce : currentEnd < s.prevEnd ∨ currentEnd > bytes.length
    · rw [if_pos hce, if_pos hce]
    · rw [if_neg hce, if_neg hce]
      unfold segDecoder
      cases (if pi = 0 ∨ reset = true then
          (Mqc.Dec.new (List.drop s.prevEnd (List.take currentEnd bytes)) NUMCONTEXTS).bind initCtxDec
        else decWithContexts (List.drop s.prevEnd (List.take currentEnd bytes)) s.prevCtx) with
      | none => rfl
      | some d =>
        simp only []
        rcases (show pt = 0 ∨ pt = 1 ∨ pt = 2 by omega) with rfl | rfl | rfl
        · unfold passD segD cvD
          simp only [true_or, if_true, decSigPropR_false,
            show ¬(0 = 2 ∧ stySegsym style = true) from fun hh => absurd hh.1 (by decide), if_false]
          cases decSigProp w h orient n { flags := clearVisit s.st.flags, data := s.st.data, mq := d } with
          | none => rfl
          | some st' => rfl
        · unfold passD segD cvD
          simp only [show ¬(1 = 0 ∨ 1 = 2 ∧ pi = 0) from by omega, if_false, decMagRefR_false,
            show ¬(1 = 2 ∧ stySegsym style = true) from fun hh => absurd hh.1 (by decide)]
          cases decMagRef w h n { flags := s.st.flags, data := s.st.data, mq := d } with
          | none => rfl
          | some st' => rfl
        · unfold passD segD cvD
          simp only [true_and]
          generalize (if 2 = 0 ∨ True ∧ pi = 0 then ({ flags := clearVisit s.st.flags, data := s.st.data, mq := s.st.mq } : DecSt) else s.st) = s0
          cases decCleanup w h orient n { flags := s0.flags, data := s0.data, mq := d } with
          | none => rfl
          | some st1 =>
            try simp only [Option.bind_some]
            cases (if stySegsym style = true then Option.map (fun m => ({ flags := st1.flags, data := st1.data, mq := m } : DecSt)) (segmarkDec st1.mq) else some st1) with
            | none => rfl
            | some st' => rfl

theorem getBuffer_get (e : Mqc.Enc) (hsz : e.bp ≤ e.buf.size) (h1 : 1 ≤ e.bp) :
    (Mqc.getBuffer e).length = e.bp - 1 ∧ ∀ k, k < e.bp - 1 → (Mqc.getBuffer e)[k]? = some (Mqc.rd e.buf (k + 1)) := by
  unfold Mqc.getBuffer
  rw [if_neg (by unfold Mqc.start; omega)]
  constructor
  · simp [Array.size_extract, Mqc.start]; omega
  · intro k hk
    rw [Array.getElem?_toList, Array.getElem?_extract]
    have : min e.bp e.buf.size - Mqc.start = e.bp - 1 := by unfold Mqc.start; omega
    rw [this, if_pos hk]
    unfold Mqc.start
    rw [Mqc.rd_some e.buf (1 + k) (by omega), show 1 + k = k + 1 by omega]

/-- the final byte string agrees with the encoder's buffer below `bp` -/
def Agree (bytesF : List Nat) (e : Mqc.Enc) : Prop :=
  (∀ k, k + 1 < e.bp → bytesF[k]? = some (Mqc.rd e.buf (k + 1))) ∧ e.bp - 1 ≤ bytesF.length

/-- start state of a codeword segment -/
structure StartOk (e : Mqc.Enc) : Prop where
  a : e.a = 0x8000
  c : e.c = 0
  ct : e.ct = 12
  nf : Mqc.rd e.buf e.bp ≠ 255

theorem cv_restart (pi pt : Nat) (prevT : Bool) (es : EncSt) :
    restartIf prevT (cvE pi pt es) = cvE pi pt (restartIf prevT es) := by
  unfold restartIf cvE
  cases prevT <;> simp only [Bool.false_eq_true, if_false, if_true] <;> split <;> rfl

theorem bytein_setctx (d : Mqc.Dec) (C : Array Nat) :
    Mqc.bytein { d with ctx := C } = (Mqc.bytein d).map (fun r => { r with ctx := C }) := by
  unfold Mqc.bytein
  simp only []
  split
  · rfl
  · split
    · split
      · split <;> rfl
      · rfl
    · rfl

theorem init_setctx (d : Mqc.Dec) (C : Array Nat) :
    Mqc.Dec.init { d with ctx := C } = (Mqc.Dec.init d).map (fun r => { r with ctx := C }) := by
  unfold Mqc.Dec.init
  simp only []
  cases (if d.dataLen = 0 then some 255 else d.data[0]?) with
  | none => rfl
  | some b0 =>
    simp only []
    have := bytein_setctx { d with c := Mqc.u32 (b0 * 2 ^ 16) } C
    simp only [] at this
    rw [this]
    cases Mqc.bytein { d with c := Mqc.u32 (b0 * 2 ^ 16) } with
    | none => rfl
    | some d1 => rfl

theorem dec_init_fresh (seg : List Nat) :
    (Mqc.Dec.new seg NUMCONTEXTS).bind initCtxDec =
      Mqc.Dec.init (Mqc.Dec.mk (seg ++ [0xFF, 0xFF]).toArray 0 seg.length 0x8000 0 0 0 (ctx3 (Array.replicate 19 0))) := by
  have h := init_setctx (Mqc.Dec.mk (seg ++ [0xFF, 0xFF]).toArray 0 seg.length 0x8000 0 0 0 (Array.replicate 19 0))
    (ctx3 (Array.replicate 19 0))
  simp only [] at h
  rw [h]
  unfold Mqc.Dec.new
  obtain ⟨d, ed, _, _, hsz, _⟩ := Mqc.decNew_spec seg NUMCONTEXTS
  unfold Mqc.Dec.new at ed
  have ed' : Mqc.Dec.init (Mqc.Dec.mk (seg ++ [0xFF, 0xFF]).toArray 0 seg.length 0x8000 0 0 0 (Array.replicate 19 0)) = some d := ed
  rw [ed', ed]
  simp only [Option.bind_some, Option.map_some]
  rw [initCtxDec_eq d hsz]
  -- `init` does not touch the contexts
  have hctx : d.ctx = Array.replicate 19 0 := by
    have h2 := init_setctx (Mqc.Dec.mk (seg ++ [0xFF, 0xFF]).toArray 0 seg.length 0x8000 0 0 0 (Array.replicate 19 0)) (Array.replicate 19 0)
    simp only [] at h2
    rw [ed'] at h2
    have h3 : (some d : Option Mqc.Dec) = some { d with ctx := Array.replicate 19 0 } := h2
    have := Option.some.inj h3
    rw [this]
  rw [hctx]

theorem inSeg_ctx (p0 : Nat) (b0 : Array Nat) (e : Mqc.Enc) (c : Array Nat) (h : Mqc.InSeg p0 b0 e) :
    Mqc.InSeg p0 b0 { e with ctx := c } := h

theorem cvD_mq (pi pt : Nat) (ds : DecSt) (d : Mqc.Dec) :
    cvD pi pt { ds with mq := d } = { cvD pi pt ds with mq := d } := by
  unfold cvD; split <;> rfl

section Pass
variable (w h : Nat) (V : Array Int) (hV : ∀ j, (gi V j).natAbs < 2147483648)
include hV

/-- one pass of the TERMALL encoder = one codeword segment, against the decoder of that segment -/
theorem tpass_lock (orient style bp pi pt : Nat) (hpt : pt ≤ 2) (er : EncSt) (hs : EncOk w h V er)
    (hst : StartOk er.mq) :
    ∃ es3 ef es4, (passE w h orient V bp pt (cvE pi pt er)).bind (segE style pt) = some es3 ∧
      termMq style es3.mq = some ef ∧ resetE style { es3 with mq := ef } = some es4 ∧
      EncOk w h V es3 ∧ es4.flags = es3.flags ∧ es4.mq.buf = ef.buf ∧ es4.mq.bp = ef.bp ∧ TermOk es4.mq ∧
      es4.mq.ctx.size = 19 ∧
      (styReset style = true → es4.mq.ctx = ctx3 (Array.replicate 19 0)) ∧
      (styReset style = false → es4.mq.ctx = es3.mq.ctx) ∧
      (∀ j, j ≤ er.mq.bp → Mqc.rd ef.buf j = Mqc.rd er.mq.buf j) ∧ er.mq.bp + 1 ≤ ef.bp ∧
      (styPterm style = false → er.mq.bp + 2 ≤ ef.bp) ∧
      (∀ (bytesF : List Nat), Agree bytesF ef → ∀ (ds : DecSt), PInv w h V (fun _ _ => True) bp pi pt er ds →
        ∃ d0, Mqc.Dec.init (Mqc.Dec.mk (((bytesF.take (ef.bp - 1)).drop er.mq.bp) ++ [0xFF, 0xFF]).toArray 0
            ((bytesF.take (ef.bp - 1)).drop er.mq.bp).length 0x8000 0 0 0 er.mq.ctx) = some d0 ∧
          ∃ ds3, (passD w h orient bp pt { cvD pi pt ds with mq := d0 }).bind (segD style pt) = some ds3 ∧
            Post w h V (fun _ _ => True) bp pt es4 ds3 ∧ ds3.mq.ctx = es3.mq.ctx) := by
  -- the encoder side, with the segment invariant carried forward
  have hCf := coder_fwd (Mqc.InSeg er.mq.bp er.mq.buf) (fun e e1 bit cx h1 h2 h3 h4 h5 =>
    Mqc.seg_encode _ _ e e1 bit cx h1 h2 h3 h4 h5)
  have hXf := coderCtx_fwd (Mqc.InSeg er.mq.bp er.mq.buf) (fun e c hp => inSeg_ctx _ _ e c hp)
  obtain ⟨es2, he2, hok2, hfw2, _⟩ := step_lock w h V _ _ hCf hXf hV orient bp pi pt hpt er hs
  obtain ⟨es3, he3, hok3, hfw3, _⟩ := segE_lock w h V _ _ hCf hXf style bp pt pt es2 hok2
  have hseg0 : Mqc.InSeg er.mq.bp er.mq.buf er.mq :=
    ⟨fun _ _ => rfl, Or.inl ⟨rfl, by rw [hst.a, hst.c, hst.ct]; decide⟩⟩
  have hseg3 : Mqc.InSeg er.mq.bp er.mq.buf es3.mq := by
    rcases Classical.em (Mqc.InSeg er.mq.bp er.mq.buf es3.mq) with h' | h'
    · exact h'
    · exact absurd hseg0 (hfw2 (hfw3 h'))
  obtain ⟨ef, last, len, hef, hefctx, hterm, hB, hfe, hlen, hBk, hfroz, hbp2, hbp2'⟩ :=
    term_facts style es3.mq hok3.reg hok3.norm er.mq.bp er.mq.buf hseg3 hst.nf
  -- the reset after the termination
  obtain ⟨es4, he4, hfl4, hbuf4, hbp4, hctx4a, hctx4b, hcsz4, hcok4⟩ : ∃ es4, resetE style { es3 with mq := ef } = some es4 ∧
      es4.flags = es3.flags ∧ es4.mq.buf = ef.buf ∧ es4.mq.bp = ef.bp ∧
      (styReset style = true → es4.mq.ctx = ctx3 (Array.replicate 19 0)) ∧
      (styReset style = false → es4.mq.ctx = es3.mq.ctx) ∧ es4.mq.ctx.size = 19 ∧ Mqc.CtxOk es4.mq.ctx := by
    unfold resetE
    by_cases hr : styReset style = true
    · rw [if_pos hr]
      have hsz : (Mqc.resetContexts ef).ctx.size = 19 := by
        unfold Mqc.resetContexts; simp only [Array.size_replicate]; rw [hefctx]; exact hok3.nctx
      obtain ⟨m', em', hs', hb', hbp', _, _, _, hc'⟩ := resetInit_some ef (by rw [hefctx]; exact hok3.nctx)
      have hm'' := initCtx_eq (Mqc.resetContexts ef) hsz
      have hmm : m' = { Mqc.resetContexts ef with ctx := ctx3 (Mqc.resetContexts ef).ctx } :=
        Option.some.inj (em'.symm.trans hm'')
      rw [em']
      refine ⟨_, rfl, rfl, hb', hbp', fun _ => ?_, fun hh => absurd hr (by rw [hh]; simp), hs', hc'⟩
      show m'.ctx = _
      rw [hmm]
      show ctx3 (Array.replicate ef.ctx.size 0) = _
      rw [hefctx, hok3.nctx]
    · rw [if_neg hr]
      exact ⟨_, rfl, rfl, rfl, rfl, fun hh => absurd hh hr, fun _ => hefctx, by show ef.ctx.size = 19; rw [hefctx]; exact hok3.nctx,
        hterm.ctx⟩
  have hterm4 : TermOk es4.mq :=
    ⟨by rw [hbp4]; exact hterm.bp1, by rw [hbp4, hbuf4]; exact hterm.sz, by rw [hbuf4]; exact hterm.bytes,
     by rw [hbuf4, hbp4]; exact hterm.marker, by rw [hbuf4, hbp4]; exact hterm.last, hcok4⟩
  have hbind : (passE w h orient V bp pt (cvE pi pt er)).bind (segE style pt) = some es3 := by
    rw [he2]; exact he3
  refine ⟨es3, ef, es4, hbind, hef, he4, hok3, hfl4, hbuf4, hbp4, hterm4, hcsz4, hctx4a, hctx4b, hfroz, hbp2, hbp2', ?_⟩
  -- the decoder side
  intro bytesF hag ds hP
  have hFk : ∀ k, k < len → bytesF[k]? = some (Mqc.finalB ef.buf last (k + 1)) := by
    intro k hk
    rw [hBk k hk]; exact hag.1 k (by omega)
  have hbl : ef.bp - 1 ≤ bytesF.length := hag.2
  have hp0 : er.mq.bp ≤ len := by omega
  -- the bytes in front of the segment and the segment itself
  have hpre : (bytesF.take er.mq.bp).toArray.size = er.mq.bp := by
    simp only [List.size_toArray, List.length_take]; omega
  have hpd : ∀ k, k < er.mq.bp → Mqc.rd (bytesF.take er.mq.bp).toArray k = Mqc.finalB ef.buf last (k + 1) := by
    intro k hk
    unfold Mqc.rd
    rw [List.getElem?_toArray, List.getElem?_take, if_pos hk, hFk k (by omega)]; rfl
  have hsl : ((bytesF.take (ef.bp - 1)).drop er.mq.bp).length = len - er.mq.bp := by
    rw [List.length_drop, List.length_take]; omega
  have hseg : ∀ k, k < ((bytesF.take (ef.bp - 1)).drop er.mq.bp).length →
      ((bytesF.take (ef.bp - 1)).drop er.mq.bp)[k]? = some (Mqc.finalB ef.buf last (er.mq.bp + k + 1)) := by
    intro k hk
    rw [hsl] at hk
    rw [List.getElem?_drop, List.getElem?_take, if_pos (by omega), hFk (er.mq.bp + k) (by omega)]
  -- the real coder of this segment
  have hCr := coder_seg (Mqc.finalB ef.buf last) last len hB (bytesF.take er.mq.bp).toArray
  have hXr := coderCtx_seg (Mqc.finalB ef.buf last) last len (bytesF.take er.mq.bp).toArray
  obtain ⟨es2', he2', _, hb2, hl2⟩ := step_lock w h V _ _ hCr hXr hV orient bp pi pt hpt er hs
  have e22 : es2' = es2 := Option.some.inj (he2'.symm.trans he2)
  subst e22
  obtain ⟨es3', he3', _, hb3, hl3⟩ := segE_lock w h V _ _ hCr hXr style bp pt pt es2' hok2
  have e33 : es3' = es3 := Option.some.inj (he3'.symm.trans he3)
  subst e33
  have hF2 := hb3 hfe
  have hFr := hb2 hF2
  obtain ⟨d0, hd0, hrel⟩ := Mqc.decInit_rel _ last len hB er.mq er.mq.bp _ rfl hst.a hst.c hst.ct hst.nf
    (bytesF.take er.mq.bp).toArray hpre hpd (by rw [hsl]; omega) hseg hFr
  refine ⟨d0, hd0, ?_⟩
  obtain ⟨lev, hL, c0, c1, c2⟩ := hP
  obtain ⟨ds2, hd2, hP2⟩ := hl2 hF2 { ds with mq := d0 } ⟨lev, ⟨hL.fl, hL.dsz, hrel, hL.smp⟩, c0, c1, c2⟩
  obtain ⟨ds3, hd3, _, lev3, hL3, q0, q1, q2⟩ := hl3 hfe ds2 hP2
  refine ⟨ds3, ?_, ⟨lev3, ⟨by rw [hfl4]; exact hL3.fl, hL3.dsz, True.intro, by rw [hfl4]; exact hL3.smp⟩,
    by rw [hfl4]; exact q0, by rw [hfl4]; exact q1, q2⟩, ?_⟩
  · rw [← cvD_mq, hd2]; exact hd3
  · exact hL3.rel.ctx
end Pass

theorem restartIf_ok (w h : Nat) (V : Array Int) (es : EncSt) (prevT : Bool) (hin : EncOkT w h V es prevT) :
    EncOk w h V (restartIf prevT es) ∧ (restartIf prevT es).flags = es.flags ∧ (restartIf prevT es).mq.ctx = es.mq.ctx ∧
      (restartIf prevT es).mq.buf = es.mq.buf ∧
      (prevT = true → (restartIf prevT es).mq.bp = es.mq.bp - 1 ∧ 1 ≤ es.mq.bp ∧ StartOk (restartIf prevT es).mq) ∧
      (prevT = false → restartIf prevT es = es) := by
  obtain ⟨h1, h2, h3, h4⟩ := hin
  unfold restartIf
  cases prevT with
  | false =>
    simp only [Bool.false_eq_true, if_false] at h4
    simp only [Bool.false_eq_true, if_false, true_and, and_true, forall_const]
    exact ⟨⟨h1, h2, h4.1, h4.2, h3⟩, fun hh => absurd hh (by simp)⟩
  | true =>
    simp only [if_true] at h4
    rw [if_pos rfl]
    obtain ⟨hr, hn, hcx⟩ := restart_ok es.mq h4
    have hbp : (if es.mq.bp > Mqc.start - 1 then es.mq.bp - 1 else es.mq.bp) = es.mq.bp - 1 := by
      rw [if_pos (by have := h4.bp1; unfold Mqc.start; omega)]
    have hin' : es.mq.bp - 1 < es.mq.buf.size := by have := h4.bp1; have := h4.sz; omega
    have hnf : es.mq.buf[es.mq.bp - 1]? ≠ some 0xFF := by
      rw [Mqc.rd_some _ _ hin']
      intro hh
      exact h4.last (Option.some.inj hh)
    have hform : Mqc.restartInitEnc es.mq = { es.mq with a := 0x8000, c := 0, ct := 12, bp := es.mq.bp - 1 } := by
      unfold Mqc.restartInitEnc
      simp only [hbp, if_neg hnf]
    refine ⟨⟨h1, h2, hr, hn, by show (Mqc.restartInitEnc es.mq).ctx.size = 19; rw [hcx]; exact h3⟩, rfl, hcx,
      by show (Mqc.restartInitEnc es.mq).buf = _; rw [hform], fun _ => ?_, fun hh => absurd hh (by simp)⟩
    show (Mqc.restartInitEnc es.mq).bp = _ ∧ _ ∧ StartOk (Mqc.restartInitEnc es.mq)
    rw [hform]
    exact ⟨rfl, h4.bp1, ⟨rfl, rfl, rfl, h4.last⟩⟩

/-- what the decoder knows about the contexts when it opens the segment of pass `pi` -/
def CtxInv (reset : Bool) (pi : Nat) (ctxE prevCtx : Array Nat) : Prop :=
  (pi = 0 ∨ reset = true → ctxE = ctx3 (Array.replicate 19 0)) ∧ (¬(pi = 0 ∨ reset = true) → prevCtx = ctxE)

theorem encLoopL_exit (w h orient style : Nat) (V : Array Int) (mb np fuel : Nat) (st : EncSt) (bp : Int) (pi pt : Nat)
    (t : Bool) (acc : List PassRec) (hbp : bp < 0) :
    encLoopL w h orient style V mb np fuel st bp pi pt t acc = some (st, t, acc) := by
  cases fuel with
  | zero => rfl
  | succ f => unfold encLoopL; rw [if_neg (by omega)]

theorem decLoopL_exit (w h orient style : Nat) (u r : Bool) (mbI : Int) (PL bytes : List Nat) (fuel : Nat) (s : LDec)
    (bp : Int) (pi pt : Nat) (hbp : bp < 0) :
    decLoopL w h orient style u r mbI PL bytes fuel s bp pi pt = .ok s.st := by
  cases fuel with
  | zero => rfl
  | succ f => unfold decLoopL; simp only []; rw [if_neg (by omega)]

section Loop
variable (w h : Nat) (V : Array Int) (hV : ∀ j, (gi V j).natAbs < 2147483648)
include hV

theorem tloop_lock (orient style mb np : Nat) (mbI : Int)
    (hL : Go.and (style : Int) J2kT1.CblkStyleLazy = 0) (hT : Go.and (style : Int) J2kT1.CblkStyleTermAll ≠ 0) :
    ∀ (fuel : Nat) (es : EncSt) (prevT : Bool) (bp pi pt : Nat) (acc : List PassRec), EncOkT w h V es prevT →
      StartOk (restartIf prevT es).mq → pt ≤ 2 → 3 * bp + 3 - pt ≤ fuel → pi + (3 * bp + 3 - pt) ≤ np →
    ∃ esF recs, encLoopL w h orient style V mb np fuel es (bp : Int) pi pt prevT acc = some (esF, true, acc ++ recs) ∧
      TermOk esF.mq ∧ recs.length = 3 * bp + 3 - pt ∧ (restartIf prevT es).mq.bp + 1 ≤ esF.mq.bp ∧
      (styPterm style = false → (restartIf prevT es).mq.bp + 2 ≤ esF.mq.bp) ∧
      (∀ r, r ∈ recs.map (·.1) → (restartIf prevT es).mq.bp ≤ r ∧ r + 1 ≤ esF.mq.bp) ∧
      (recs.map (·.1)).Pairwise (· ≤ ·) ∧
      (∀ (bytesF : List Nat), Agree bytesF esF.mq →
        (∀ k, k + 1 ≤ (restartIf prevT es).mq.bp → bytesF[k]? = some (Mqc.rd es.mq.buf (k + 1))) ∧
        (∀ r, r ∈ recs.map (·.1) → 0 < r → bytesF.getD (r - 1) 0 ≠ 0xFF) ∧
        (∀ (PL : List Nat), (∀ k, k < recs.length → PL[pi + k]? = (recs.map (·.1))[k]?) → PL.length = pi + recs.length →
          ∀ (s : LDec), s.newSegment = true → s.prevEnd = (restartIf prevT es).mq.bp →
          CtxInv (styReset style) pi es.mq.ctx s.prevCtx → PInv w h V (fun _ _ => True) bp pi pt es s.st →
          ∃ dsF, decLoopL w h orient style true (styReset style) mbI PL bytesF fuel s (bp : Int) pi pt = .ok dsF ∧
            dsF.data.size = (w + 2) * (h + 2) ∧ ∀ j, InB w h j → gi dsF.data j = gi V j)) := by
  intro fuel
  induction fuel with
  | zero => intro es prevT bp pi pt acc _ _ hpt hf; omega
  | succ f ih =>
    intro es prevT bp pi pt acc hin hst hpt hf hnp
    obtain ⟨hser, hflr, hctxr, hbufr, hprT, hprF⟩ := restartIf_ok w h V es prevT hin
    obtain ⟨es3, ef, es4, hbind, hef, he4, hok3, hfl4, hbuf4, hbp4, hterm4, hcsz4, hctx4a, hctx4b, hfroz, hbp2, hbp2', hlock⟩ :=
      tpass_lock w h V hV orient style bp pi pt hpt (restartIf prevT es) hser hst
    have hrate : numBytes es4.mq = ef.bp - 1 := by
      unfold numBytes; rw [if_neg (by rw [hbp4]; unfold Mqc.start; omega), hbp4]; rfl
    have hin4 : EncOkT w h V es4 true :=
      ⟨by rw [hfl4]; exact hok3.fsz, hok3.dsz, hcsz4, by simp only [if_true]; exact hterm4⟩
    obtain ⟨hser4, _, hctxr4, hbufr4, hprT4, _⟩ := restartIf_ok w h V es4 true hin4
    obtain ⟨hbp4r, _, hst4⟩ := hprT4 rfl
    have henc : encLoopL w h orient style V mb np (f + 1) es (bp : Int) pi pt prevT acc =
        (if pt = 2 then encLoopL w h orient style V mb np f es4 ((bp : Int) - 1) (pi + 1) 0 true (acc ++ [(ef.bp - 1, true)])
         else encLoopL w h orient style V mb np f es4 (bp : Int) (pi + 1) (pt + 1) true (acc ++ [(ef.bp - 1, true)])) := by
      rw [encLoopL_stepT w h orient style V mb np f es bp pi pt prevT acc hL hT hpt (by omega), cv_restart]
      have hb := hbind
      cases hp : passE w h orient V bp pt (cvE pi pt (restartIf prevT es)) with
      | none => rw [hp] at hb; exact absurd hb (by simp)
      | some es2 =>
        rw [hp] at hb
        simp only [Option.bind_some] at hb ⊢
        rw [hb]; simp only [Option.bind_some]
        rw [hef]; simp only [Option.bind_some]
        rw [he4]; simp only [Option.bind_some]
        rw [hrate]
    -- agreement of the final bytes with this pass's buffer
    have hagree : ∀ (bytesF : List Nat), Agree bytesF es4.mq →
        Agree bytesF ef ∧ (∀ k, k + 1 ≤ (restartIf prevT es).mq.bp → bytesF[k]? = some (Mqc.rd es.mq.buf (k + 1))) ∧
          (0 < ef.bp - 1 → bytesF.getD (ef.bp - 1 - 1) 0 ≠ 0xFF) := by
      intro bytesF hag
      have hagf : Agree bytesF ef := ⟨fun k hk => by rw [← hbuf4]; exact hag.1 k (by rw [hbp4]; exact hk), by rw [← hbp4]; exact hag.2⟩
      refine ⟨hagf, ?_, ?_⟩
      · intro k hk
        rw [hagf.1 k (by omega), hfroz (k + 1) hk, hbufr]
      · intro hpos
        rw [List.getD_eq_getElem?_getD, hagf.1 (ef.bp - 1 - 1) (by omega)]
        have := hterm4.last
        rw [hbuf4, hbp4] at this
        rw [show ef.bp - 1 - 1 + 1 = ef.bp - 1 by omega]
        exact this
    -- the decoder's iteration for this pass
    have hdec : ∀ (bytesF PL : List Nat), Agree bytesF ef → PL[pi]? = some (ef.bp - 1) → pi < PL.length →
        ∀ (s : LDec), s.newSegment = true → s.prevEnd = (restartIf prevT es).mq.bp →
        CtxInv (styReset style) pi es.mq.ctx s.prevCtx → PInv w h V (fun _ _ => True) bp pi pt es s.st →
        ∃ ds3, Post w h V (fun _ _ => True) bp pt es4 ds3 ∧
          CtxInv (styReset style) (pi + 1) es4.mq.ctx (if ¬ styReset style = true then ds3.mq.ctx else s.prevCtx) ∧
          decLoopL w h orient style true (styReset style) mbI PL bytesF (f + 1) s (bp : Int) pi pt =
            (if pt = 2 then decLoopL w h orient style true (styReset style) mbI PL bytesF f
                { st := ds3, prevEnd := ef.bp - 1, prevCtx := if ¬ styReset style = true then ds3.mq.ctx else s.prevCtx, newSegment := true }
                ((bp : Int) - 1) (pi + 1) 0
             else decLoopL w h orient style true (styReset style) mbI PL bytesF f
                { st := ds3, prevEnd := ef.bp - 1, prevCtx := if ¬ styReset style = true then ds3.mq.ctx else s.prevCtx, newSegment := true }
                (bp : Int) (pi + 1) (pt + 1)) := by
      intro bytesF PL hagf hPL hpiL s hns hpe hci hP
      have hP' : PInv w h V (fun _ _ => True) bp pi pt (restartIf prevT es) s.st := by
        obtain ⟨lev, hLS, c0, c1, c2⟩ := hP
        exact ⟨lev, ⟨by rw [hflr]; exact hLS.fl, hLS.dsz, True.intro, by rw [hflr]; exact hLS.smp⟩,
          c0, by rw [hflr]; exact c1, by rw [hflr]; exact c2⟩
      obtain ⟨d0, hd0, ds3, hd3, hPost, hctx3⟩ := hlock bytesF hagf s.st hP'
      have hsd : segDecoder pi (styReset style) ((bytesF.take (ef.bp - 1)).drop s.prevEnd) s.prevCtx = some d0 := by
        unfold segDecoder
        rw [hpe]
        by_cases hc : pi = 0 ∨ styReset style = true
        · rw [if_pos hc, dec_init_fresh, ← hci.1 hc, ← hctxr]; exact hd0
        · rw [if_neg hc]
          unfold decWithContexts
          rw [hci.2 hc, ← hctxr]; exact hd0
      refine ⟨ds3, hPost, ?_, ?_⟩
      · constructor
        · intro hc
          rcases hc with hc | hc
          · omega
          · exact hctx4a hc
        · intro hc
          have hr : styReset style = false := by
            cases hh : styReset style with
            | false => rfl
            | true => exact absurd (Or.inr hh) hc
          rw [if_pos (by rw [hr]; simp), hctx3, hctx4b hr]
      · rw [decLoopL_stepT w h orient style (styReset style) mbI PL bytesF f s bp pi pt hL hpt hpiL hns, hPL]
        simp only []
        rw [if_neg (by rw [hpe]; have := hagf.2; omega), hsd]
        simp only []
        rw [hd3]
    by_cases hfin : pt = 2 ∧ bp = 0
    · -- the last pass
      obtain ⟨rfl, rfl⟩ := hfin
      refine ⟨es4, [(ef.bp - 1, true)], ?_, hterm4, rfl, by rw [hbp4]; exact hbp2, by rw [hbp4]; exact hbp2', ?_, ?_, ?_⟩
      · rw [henc, if_pos rfl, encLoopL_exit _ _ _ _ _ _ _ _ _ _ _ _ _ _ (by omega)]
      · intro r hr
        simp only [List.map_cons, List.map_nil, List.mem_singleton] at hr
        subst hr
        rw [hbp4]; omega
      · simp
      · intro bytesF hag
        obtain ⟨hagf, hback, hnff⟩ := hagree bytesF hag
        refine ⟨hback, ?_, ?_⟩
        · intro r hr
          simp only [List.map_cons, List.map_nil, List.mem_singleton] at hr
          subst hr; exact hnff
        · intro PL hPL hPLl s hns hpe hci hP
          have h0 := hPL 0 (by simp)
          simp only [Nat.add_zero, List.map_cons, List.map_nil, List.getElem?_cons_zero] at h0
          obtain ⟨ds3, hPost, _, hstep⟩ := hdec bytesF PL hagf h0 (by simp at hPLl; omega) s hns hpe hci hP
          obtain ⟨lev, hLS, _, _, q2⟩ := hPost
          refine ⟨ds3, ?_, hLS.dsz, ?_⟩
          · rw [hstep, if_pos rfl, decLoopL_exit _ _ _ _ _ _ _ _ _ _ _ _ _ _ (by omega)]
          · intro j hj
            rw [(hLS.smp j hj).d, q2 rfl j hj, tr_0]
    · -- more passes follow
      have hnext : ∃ bp' pt', (if pt = 2 then (bp' = bp - 1 ∧ pt' = 0 ∧ 1 ≤ bp) else (bp' = bp ∧ pt' = pt + 1)) ∧ pt' ≤ 2 ∧
          3 * bp' + 3 - pt' + 1 = 3 * bp + 3 - pt := by
        by_cases hp2 : pt = 2
        · exact ⟨bp - 1, 0, by rw [if_pos hp2]; exact ⟨rfl, rfl, by omega⟩, by omega, by omega⟩
        · exact ⟨bp, pt + 1, by rw [if_neg hp2]; exact ⟨rfl, rfl⟩, by omega, by omega⟩
      obtain ⟨bp', pt', hbpt, hpt', hR⟩ := hnext
      obtain ⟨esF, recs', hencF, htermF, hlenF, hbpF, hbpF', hratesF, hpwF, hdecF⟩ :=
        ih es4 true bp' (pi + 1) pt' (acc ++ [(ef.bp - 1, true)]) hin4 hst4 hpt' (by omega) (by omega)
      have hencI : encLoopL w h orient style V mb np (f + 1) es (bp : Int) pi pt prevT acc =
          some (esF, true, acc ++ (ef.bp - 1, true) :: recs') := by
        rw [henc]
        by_cases hp2 : pt = 2
        · rw [if_pos hp2] at hbpt ⊢
          obtain ⟨rfl, rfl, hb1⟩ := hbpt
          rw [show ((bp : Int) - 1) = ((bp - 1 : Nat) : Int) by omega, hencF, List.append_assoc]; rfl
        · rw [if_neg hp2] at hbpt ⊢
          obtain ⟨rfl, rfl⟩ := hbpt
          rw [hencF, List.append_assoc]; rfl
      refine ⟨esF, (ef.bp - 1, true) :: recs', hencI, htermF, by simp only [List.length_cons]; omega,
        by rw [hbp4r] at hbpF; omega, fun hp => by have := hbp2' hp; rw [hbp4r] at hbpF; omega, ?_, ?_, ?_⟩
      · intro r hr
        simp only [List.map_cons, List.mem_cons] at hr
        rcases hr with rfl | hr
        · rw [hbp4r] at hbpF; omega
        · have := hratesF r hr
          rw [hbp4r, hbp4] at this; omega
      · simp only [List.map_cons, List.pairwise_cons]
        refine ⟨?_, hpwF⟩
        intro r hr
        have := hratesF r hr
        rw [hbp4r, hbp4] at this; omega
      · intro bytesF hagF
        obtain ⟨hback', hnff', hdec'⟩ := hdecF bytesF hagF
        -- agreement with this pass's output state
        have hag4 : Agree bytesF es4.mq := by
          refine ⟨fun k hk => hback' k (by rw [hbp4r]; omega), ?_⟩
          have := hagF.2
          rw [hbp4r] at hbpF; omega
        obtain ⟨hagf, hback, hnff⟩ := hagree bytesF hag4
        refine ⟨hback, ?_, ?_⟩
        · intro r hr
          simp only [List.map_cons, List.mem_cons] at hr
          rcases hr with rfl | hr
          · exact hnff
          · exact hnff' r hr
        · intro PL hPL hPLl s hns hpe hci hP
          have h0 := hPL 0 (by simp)
          simp only [Nat.add_zero, List.map_cons, List.getElem?_cons_zero] at h0
          obtain ⟨ds3, hPost, hci', hstep⟩ := hdec bytesF PL hagf h0 (by simp at hPLl; omega) s hns hpe hci hP
          obtain ⟨lev, hLS, q0, q1, q2⟩ := hPost
          have hPnext : PInv w h V (fun _ _ => True) bp' (pi + 1) pt' es4 ds3 := by
            by_cases hp2 : pt = 2
            · rw [if_pos hp2] at hbpt
              obtain ⟨rfl, rfl, hb1⟩ := hbpt
              have hall := q2 hp2
              exact ⟨lev, hLS.replane hall hb1, fun _ j hj => by rw [hall j hj]; omega,
                fun hh => absurd hh (by decide), fun hh => absurd hh (by decide)⟩
            · rw [if_neg hp2] at hbpt
              obtain ⟨rfl, rfl⟩ := hbpt
              exact ⟨lev, hLS, fun hh => absurd hh (by omega), fun hh => q0 (by omega),
                fun hh => ⟨fun hh' => absurd hh' (by omega), fun _ => q1 (by omega)⟩⟩
          obtain ⟨dsF, hdF, hszF, hdataF⟩ := hdec' PL
            (by
              intro k hk
              have := hPL (k + 1) (by simp only [List.length_cons]; omega)
              simp only [List.map_cons, List.getElem?_cons_succ] at this
              rw [show pi + 1 + k = pi + (k + 1) by omega]; exact this)
            (by simp only [List.length_cons] at hPLl; omega)
            { st := ds3, prevEnd := ef.bp - 1, prevCtx := if ¬ styReset style = true then ds3.mq.ctx else s.prevCtx, newSegment := true }
            rfl (by show ef.bp - 1 = _; rw [hbp4r, hbp4]) hci' hPnext
          refine ⟨dsF, ?_, hszF, hdataF⟩
          rw [hstep]
          by_cases hp2 : pt = 2
          · rw [if_pos hp2] at hbpt ⊢
            obtain ⟨rfl, rfl, hb1⟩ := hbpt
            rw [show ((bp : Int) - 1) = ((bp - 1 : Nat) : Int) by omega]; exact hdF
          · rw [if_neg hp2] at hbpt ⊢
            obtain ⟨rfl, rfl⟩ := hbpt
            exact hdF
end Loop

/-- `normalizePassRates` leaves increasing, in-range rates that do not end on a 0xFF byte alone -/
theorem normalize_id (data : List Nat) : ∀ (rs : List Nat), rs.Pairwise (· ≤ ·) →
    (∀ r, r ∈ rs → r ≤ data.length ∧ (0 < r → data.getD (r - 1) 0 ≠ 0xFF)) →
    rs.foldr (fun rate (acc : List Nat × Nat) =>
      let lastRate := acc.2
      let (rate, lastRate) := if rate > lastRate then (lastRate, lastRate) else (rate, rate)
      let (rate, lastRate) :=
        if rate > 0 ∧ rate ≤ data.length ∧ data.getD (rate - 1) 0 = 0xFF then (rate - 1, rate - 1) else (rate, lastRate)
      (rate :: acc.1, lastRate)) (([] : List Nat), data.length) = (rs, rs.headD data.length) := by
  intro rs
  induction rs with
  | nil => intro _ _; rfl
  | cons r rs ih =>
    intro hpw hall
    rw [List.foldr_cons, ih (List.pairwise_cons.mp hpw).2 (fun x hx => hall x (List.mem_cons_of_mem _ hx))]
    have hr := hall r List.mem_cons_self
    have hle : ¬ r > rs.headD data.length := by
      cases rs with
      | nil => simp only [List.headD_nil]; omega
      | cons r' rs' =>
        simp only [List.headD_cons]
        have := (List.pairwise_cons.mp hpw).1 r' List.mem_cons_self
        omega
    simp only []
    rw [if_neg hle]
    simp only []
    rw [if_neg (fun hh => hr.2 hh.1 hh.2.2)]
    rfl

theorem normalizeRates_id (data rs : List Nat) (hpw : rs.Pairwise (· ≤ ·))
    (hall : ∀ r, r ∈ rs → r ≤ data.length ∧ (0 < r → data.getD (r - 1) 0 ≠ 0xFF)) : normalizeRates rs data = rs := by
  unfold normalizeRates
  rw [normalize_id data rs hpw hall]

/-- **layered T1 round trip under TERMALL** (every pass its own MQ codeword segment, terminated by `FlushToOutput` or — under PTERM —
`ErtermEnc`; no LAZY; RESET, VSC and SEGSYM arbitrary): `DecodeLayeredWithMode`, given the bytes and the cumulative pass lengths `EncodeLayered` reports,
returns the coefficients -/
theorem t1_layered_roundtrip_termall (w h orient style mb : Nat) (coeffs : List Int) (hlen : coeffs.length = w * h)
    (hbnd : ∀ c ∈ coeffs, c.natAbs < 2147483648) (hmb : findMaxBitplane (padBlock w h coeffs) = some mb)
    (hL : Go.and (style : Int) J2kT1.CblkStyleLazy = 0) (hT : Go.and (style : Int) J2kT1.CblkStyleTermAll ≠ 0)
    (hTs : styTermall style = true) :
    ∃ rates bytes, encodeLayered w h orient style coeffs (3 * mb + 1) = .ok (rates, (mb : Int), bytes) ∧
      (styPterm style = false → bytes ≠ []) ∧
      (bytes ≠ [] → decodeLayered w h orient style (mb : Int) rates bytes = .ok coeffs) := by
  obtain ⟨hVsz, hVget⟩ := padBlock_get w h coeffs
  have hVb := padBlock_bound w h coeffs hbnd
  have hz := maxbp_zero _ mb hmb
  obtain ⟨h0, n0, s0⟩ := Mqc.new_ok NUMCONTEXTS
  have hi0 := initCtx_eq (Mqc.Enc.new NUMCONTEXTS) s0
  obtain ⟨e0, he0, hr0, hn0, hsz0⟩ := initCtx_ok
  have hee : e0 = { Mqc.Enc.new NUMCONTEXTS with ctx := ctx3 (Mqc.Enc.new NUMCONTEXTS).ctx } :=
    Option.some.inj (he0.symm.trans hi0)
  subst hee
  have hin0 : EncOkT w h (padBlock w h coeffs)
      { flags := Array.replicate ((w + 2) * (h + 2)) 0,
        mq := { Mqc.Enc.new NUMCONTEXTS with ctx := ctx3 (Mqc.Enc.new NUMCONTEXTS).ctx } } false :=
    ⟨by simp, hVsz, hsz0, by simp only [Bool.false_eq_true, if_false]; exact ⟨hr0, hn0⟩⟩
  obtain ⟨esF, recs, henc, htermF, hlenR, hbpF, hbpF', hrates, hpw, hdec⟩ :=
    tloop_lock w h (padBlock w h coeffs) hVb orient style mb (3 * mb + 1) (mb : Int) hL hT (3 * mb + 1 + 1) _ false mb 0 2 []
      hin0 ⟨rfl, rfl, rfl, by show Mqc.rd (#[0] : Array Nat) 0 ≠ 255; decide⟩ (by omega) (by omega) (by omega)
  obtain ⟨hgl, hgg⟩ := getBuffer_get esF.mq htermF.sz htermF.bp1
  have hag : Agree (Mqc.getBuffer esF.mq) esF.mq := ⟨fun k hk => hgg k (by omega), by rw [hgl]; omega⟩
  obtain ⟨_, hnff, hdecode⟩ := hdec _ hag
  have hnorm : normalizeRates (recs.map (·.1)) (Mqc.getBuffer esF.mq) = recs.map (·.1) :=
    normalizeRates_id _ _ hpw (fun r hr => ⟨by rw [hgl]; have := (hrates r hr).2; omega, hnff r hr⟩)
  refine ⟨recs.map (·.1), Mqc.getBuffer esF.mq, ?_, ?_, ?_⟩
  · unfold encodeLayered
    rw [if_neg (by rw [hlen]; exact fun hc => hc rfl)]
    simp only []
    rw [hmb]
    simp only []
    rw [hi0]
    simp only []
    rw [henc]
    simp only [List.nil_append, if_true, hnorm]
  · intro hp hb
    have := hbpF' hp
    have h0 : (Mqc.getBuffer esF.mq).length = 0 := by rw [hb]; rfl
    rw [hgl] at h0
    have hb0 : (restartIf false ({ flags := Array.replicate ((w + 2) * (h + 2)) 0, mq := { Mqc.Enc.new NUMCONTEXTS with ctx := ctx3 (Mqc.Enc.new NUMCONTEXTS).ctx } } : EncSt)).mq.bp = 0 := rfl
    omega
  · intro hne
    have hrep : ∀ j, gi (Array.replicate ((w + 2) * (h + 2)) (0 : Int)) j = 0 := by
      intro j; unfold gi; rw [Array.getElem?_replicate]; split <;> rfl
    have hrepf : ∀ j, sigA (Array.replicate ((w + 2) * (h + 2)) (0 : Nat)) j = false := by
      intro j; unfold sigA gf; rw [Array.getElem?_replicate]; split <;> rfl
    obtain ⟨dsF, hdF, hdsz, hdata⟩ := hdecode (recs.map (·.1))
      (by intro k _; rw [Nat.zero_add]) (by rw [List.length_map]; omega)
      { st := { flags := Array.replicate ((w + 2) * (h + 2)) 0, data := Array.replicate ((w + 2) * (h + 2)) 0,
                mq := Mqc.Dec.newRaw [] },
        prevEnd := 0, prevCtx := #[], newSegment := true } rfl rfl
      ⟨fun _ => rfl, fun hh => absurd (Or.inl rfl) hh⟩
      ⟨fun _ => mb + 1, ⟨rfl, by simp, True.intro, fun j _ =>
          ⟨Or.inr rfl, by show gi (Array.replicate _ 0) j = _; rw [hrep, tr_zero _ _ (hz j)],
           by show sigA (Array.replicate _ 0) j = true ↔ _; rw [hrepf, hz j]; simp⟩⟩,
        fun hh => absurd hh (by decide), fun hh => absurd hh (by decide),
        fun _ => ⟨fun _ => ⟨fun j _ => rfl, fun j _ => hrepf j⟩, fun hh => absurd rfl hh⟩⟩
    unfold decodeLayered
    rw [if_neg (by intro h0; exact hne (List.length_eq_zero_iff.mp h0)), if_neg (by rw [List.length_map, hlenR]; omega)]
    simp only [hTs]
    rw [if_neg (fun hh => absurd hh.1 (by simp))]
    try simp only []
    rw [show (recs.map (·.1)).length + 1 = 3 * mb + 1 + 1 by rw [List.length_map, hlenR]; omega, hdF]
    simp only []
    rw [mapM_get dsF.data _ (by
      intro i hi
      simp only [List.mem_flatMap, List.mem_range, List.mem_map] at hi
      obtain ⟨y, hy, x, hx, rfl⟩ := hi
      rw [hdsz]; exact idx_lt w h x y hx hy)]
    simp only []
    congr 1
    rw [List.map_flatMap]
    rw [← rows_eq w h coeffs hlen]
    apply flatMap_congr'
    intro y hy
    rw [List.map_map]
    apply List.map_congr_left
    intro x hx
    have hy' := List.mem_range.mp hy
    have hx' := List.mem_range.mp hx
    show gi dsF.data (idxOf w x y) = _
    rw [hdata _ ⟨x, y, hx', hy', rfl⟩, hVget x y hx' hy']

/-- termination of a pass in `Encode` / `EncodeLayered` without raw passes -/
def termE (style : Nat) (term : Bool) (st : EncSt) : Option EncSt :=
  if term = true then
    (if styPterm style = true then Mqc.ertermEnc st.mq else Mqc.flushToOutput st.mq).map (fun m => ({ st with mq := m } : EncSt))
  else some st

/-- one iteration of `EncodeLayered`'s loop without LAZY -/
theorem encLoopL_stepN (w h orient style : Nat) (V : Array Int) (mb np f : Nat) (st : EncSt) (n pi pt : Nat)
    (prevT : Bool) (acc : List PassRec) (hL : Go.and (style : Int) J2kT1.CblkStyleLazy = 0) (hpt : pt ≤ 2) (hc : pi < np) :
    encLoopL w h orient style V mb np (f + 1) st (n : Int) pi pt prevT acc =
      (passE w h orient V n pt (restartIf prevT (cvE pi pt st))).bind fun st =>
        (segE style pt st).bind fun st =>
          (termE style (J2kT1.isTerminatingPass (n : Int) (mb : Int) (pt : Int) (style : Int)) st).bind fun st =>
            (resetE style st).bind fun st =>
              if pt = 2 then encLoopL w h orient style V mb np f st ((n : Int) - 1) (pi + 1) 0
                (J2kT1.isTerminatingPass (n : Int) (mb : Int) (pt : Int) (style : Int))
                (acc ++ [(if J2kT1.isTerminatingPass (n : Int) (mb : Int) (pt : Int) (style : Int) = true then numBytes st.mq
                          else numBytes st.mq + 3, J2kT1.isTerminatingPass (n : Int) (mb : Int) (pt : Int) (style : Int))])
              else encLoopL w h orient style V mb np f st (n : Int) (pi + 1) (pt + 1)
                (J2kT1.isTerminatingPass (n : Int) (mb : Int) (pt : Int) (style : Int))
                (acc ++ [(if J2kT1.isTerminatingPass (n : Int) (mb : Int) (pt : Int) (style : Int) = true then numBytes st.mq
                          else numBytes st.mq + 3, J2kT1.isTerminatingPass (n : Int) (mb : Int) (pt : Int) (style : Int))]) := by
  conv => lhs; unfold encLoopL
  rw [if_pos ⟨by omega, hc⟩]
  simp only [Int.toNat_natCast, notLazy _ _ _ _ hL, Bool.false_eq_true, if_false]
  generalize J2kT1.isTerminatingPass (n : Int) (mb : Int) (pt : Int) (style : Int) = term
  have tail : ∀ (st1 : EncSt),
      (match (if term = true then Option.map (fun m => ({ flags := st1.flags, mq := m } : EncSt))
            (if styPterm style = true then Mqc.ertermEnc st1.mq else Mqc.flushToOutput st1.mq) else some st1) with
        | none => none
        | some st =>
          match (if styReset style = true then Option.map (fun m => ({ flags := st.flags, mq := m } : EncSt)) (initCtx (Mqc.resetContexts st.mq)) else some st) with
          | none => none
          | some st =>
            match (if term = true then some (numBytes st.mq) else some (numBytes st.mq + 3)) with
            | none => none
            | some rate =>
              if pt = 2 then encLoopL w h orient style V mb np f st ((n : Int) - 1) (pi + 1) 0 term (acc ++ [(rate, term)])
              else encLoopL w h orient style V mb np f st (n : Int) (pi + 1) (pt + 1) term (acc ++ [(rate, term)])) =
      (termE style term st1).bind fun st =>
        (resetE style st).bind fun st =>
          if pt = 2 then encLoopL w h orient style V mb np f st ((n : Int) - 1) (pi + 1) 0 term
            (acc ++ [(if term = true then numBytes st.mq else numBytes st.mq + 3, term)])
          else encLoopL w h orient style V mb np f st (n : Int) (pi + 1) (pt + 1) term
            (acc ++ [(if term = true then numBytes st.mq else numBytes st.mq + 3, term)]) := by
    intro st1
    unfold termE resetE
    cases (if term = true then Option.map (fun m => ({ flags := st1.flags, mq := m } : EncSt))
            (if styPterm style = true then Mqc.ertermEnc st1.mq else Mqc.flushToOutput st1.mq) else some st1) with
    | none => rfl
    | some st2 =>
      simp only [Option.bind_some]
      cases (if styReset style = true then Option.map (fun m => ({ flags := st2.flags, mq := m } : EncSt)) (initCtx (Mqc.resetContexts st2.mq)) else some st2) with
      | none => rfl
      | some st3 =>
        simp only [Option.bind_some]
        cases term <;> rfl
  rcases (show pt = 0 ∨ pt = 1 ∨ pt = 2 by omega) with rfl | rfl | rfl
  · unfold passE segE cvE restartIf
    simp only [true_or, if_true, show ¬(0 = 2 ∧ stySegsym style = true) from fun hh => absurd hh.1 (by decide), if_false,
      encSigPropR_false]
    cases encSigProp w h orient n V (if prevT = true then { flags := clearVisit st.flags, mq := Mqc.restartInitEnc st.mq } else { flags := clearVisit st.flags, mq := st.mq }) with
    | none => rfl
    | some st1 =>
      simp only [Option.bind_some]
      exact tail st1
  · unfold passE segE cvE restartIf
    simp only [show ¬(1 = 0 ∨ 1 = 2 ∧ pi = 0) from by omega, if_false,
      show ¬(1 = 2 ∧ stySegsym style = true) from fun hh => absurd hh.1 (by decide), encMagRefR_false]
    cases encMagRef w h n V (if prevT = true then { flags := st.flags, mq := Mqc.restartInitEnc st.mq } else st) with
    | none => rfl
    | some st1 =>
      simp only [Option.bind_some]
      exact tail st1
  · unfold passE segE cvE restartIf
    simp only []
    generalize (if prevT = true then
      ({ flags := (if 2 = 0 ∨ True ∧ pi = 0 then ({ flags := clearVisit st.flags, mq := st.mq } : EncSt) else st).flags,
         mq := Mqc.restartInitEnc (if 2 = 0 ∨ True ∧ pi = 0 then ({ flags := clearVisit st.flags, mq := st.mq } : EncSt) else st).mq } : EncSt)
      else (if 2 = 0 ∨ True ∧ pi = 0 then ({ flags := clearVisit st.flags, mq := st.mq } : EncSt) else st)) = st0
    cases encCleanup w h orient n V st0 with
    | none => rfl
    | some st1 =>
      simp only [Option.bind_some, true_and]
      cases (if stySegsym style = true then Option.map (fun m => ({ flags := st1.flags, mq := m } : EncSt)) (Mqc.segmarkEnc st1.mq) else some st1) with
      | none => rfl
      | some st1' =>
        simp only [Option.bind_some]
        exact tail st1'

/-- one iteration of `Encode`'s loop, any `prevTerminated` -/
theorem encLoop_stepG (w h orient style : Nat) (V : Array Int) (mb np f : Nat) (st : EncSt) (n pi pt : Nat)
    (prevT : Bool) (hpt : pt ≤ 2) (hc : pi < np) :
    encLoop w h orient style V mb np (f + 1) st (n : Int) pi pt prevT =
      (passE w h orient V n pt (restartIf prevT (cvE pi pt st))).bind fun st =>
        (segE style pt st).bind fun st =>
          (termE style (J2kT1.isTerminatingPass (n : Int) (mb : Int) (pt : Int) (style : Int)) st).bind fun st =>
            (resetE style st).bind fun st =>
              if pt = 2 then encLoop w h orient style V mb np f st ((n : Int) - 1) (pi + 1) 0
                (J2kT1.isTerminatingPass (n : Int) (mb : Int) (pt : Int) (style : Int))
              else encLoop w h orient style V mb np f st (n : Int) (pi + 1) (pt + 1)
                (J2kT1.isTerminatingPass (n : Int) (mb : Int) (pt : Int) (style : Int)) := by
  cases prevT with
  | false =>
    rw [encLoop_step w h orient style V mb np f st n pi pt hpt hc]
    unfold restartIf termE
    simp only [Bool.false_eq_true, if_false]
  | true =>
    rw [encLoop_restart w h orient style V mb np f st n pi pt ⟨by omega, hc⟩,
      encLoop_step w h orient style V mb np f _ n pi pt hpt hc, cv_restart]
    unfold restartIf termE
    simp only [if_true]

/-- number of passes the loops execute -/
def nP (np : Nat) : Nat → Int → Nat → Nat → Nat
  | 0, _, _, _ => 0
  | f + 1, bp, pi, pt =>
    if bp ≥ 0 ∧ pi < np then 1 + (if pt = 2 then nP np f (bp - 1) (pi + 1) 0 else nP np f bp (pi + 1) (pt + 1)) else 0

theorem nP_full (np : Nat) : ∀ (f : Nat) (bp pi pt : Nat), pt ≤ 2 → 3 * bp + 3 - pt ≤ f → pi + (3 * bp + 3 - pt) ≤ np →
    nP np f (bp : Int) pi pt = 3 * bp + 3 - pt := by
  intro f
  induction f with
  | zero => intro bp pi pt hpt hf; omega
  | succ f ih =>
    intro bp pi pt hpt hf hnp
    unfold nP
    rw [if_pos ⟨by omega, by omega⟩]
    by_cases hp2 : pt = 2
    · rw [if_pos hp2]
      by_cases hb : bp = 0
      · subst hb hp2
        have : nP np f ((0 : Nat) - 1 : Int) (pi + 1) 0 = 0 := by
          cases f with
          | zero => rfl
          | succ f' => unfold nP; rw [if_neg (by omega)]
        rw [this]
      · rw [show ((bp : Int) - 1) = ((bp - 1 : Nat) : Int) by omega, ih (bp - 1) (pi + 1) 0 (by omega) (by omega) (by omega)]
        omega
    · rw [if_neg hp2, ih bp (pi + 1) (pt + 1) (by omega) (by omega) (by omega)]
      omega

/-- without LAZY, `EncodeLayered`'s loop is `Encode`'s loop plus one record per pass -/
theorem encLoopL_plain (w h orient style : Nat) (V : Array Int) (mb np : Nat)
    (hL : Go.and (style : Int) J2kT1.CblkStyleLazy = 0) :
    ∀ (fuel : Nat) (st : EncSt) (bp : Int) (pi pt : Nat) (prevT : Bool) (acc : List PassRec) (r : EncSt × Bool), pt ≤ 2 →
      encLoop w h orient style V mb np fuel st bp pi pt prevT = some r →
      ∃ recs, encLoopL w h orient style V mb np fuel st bp pi pt prevT acc = some (r.1, r.2, acc ++ recs) ∧
        recs.length = nP np fuel bp pi pt := by
  intro fuel
  induction fuel with
  | zero =>
    intro st bp pi pt prevT acc r _ he
    have : r = (st, prevT) := by
      have h2 : encLoop w h orient style V mb np 0 st bp pi pt prevT = some (st, prevT) := rfl
      rw [h2] at he; exact (Option.some.inj he).symm
    subst this
    exact ⟨[], by simp only [List.append_nil]; rfl, rfl⟩
  | succ f ih =>
    intro st bp pi pt prevT acc r hpt he
    by_cases hc : bp ≥ 0 ∧ pi < np
    · obtain ⟨n, rfl⟩ : ∃ n : Nat, bp = (n : Int) := ⟨bp.toNat, by omega⟩
      rw [encLoop_stepG w h orient style V mb np f st n pi pt prevT hpt hc.2] at he
      rw [encLoopL_stepN w h orient style V mb np f st n pi pt prevT acc hL hpt hc.2]
      cases h1 : passE w h orient V n pt (restartIf prevT (cvE pi pt st)) with
      | none => rw [h1] at he; exact absurd he (by simp)
      | some s1 =>
        rw [h1] at he; simp only [Option.bind_some] at he ⊢
        cases h2 : segE style pt s1 with
        | none => rw [h2] at he; exact absurd he (by simp)
        | some s2 =>
          rw [h2] at he; simp only [Option.bind_some] at he ⊢
          cases h3 : termE style (J2kT1.isTerminatingPass (n : Int) (mb : Int) (pt : Int) (style : Int)) s2 with
          | none => rw [h3] at he; exact absurd he (by simp)
          | some s3 =>
            rw [h3] at he; simp only [Option.bind_some] at he ⊢
            cases h4 : resetE style s3 with
            | none => rw [h4] at he; exact absurd he (by simp)
            | some s4 =>
              rw [h4] at he; simp only [Option.bind_some] at he ⊢
              unfold nP
              rw [if_pos hc]
              generalize ((if J2kT1.isTerminatingPass (n : Int) (mb : Int) (pt : Int) (style : Int) = true then numBytes s4.mq
                          else numBytes s4.mq + 3, J2kT1.isTerminatingPass (n : Int) (mb : Int) (pt : Int) (style : Int)) : PassRec) = rec0
              by_cases hp2 : pt = 2
              · rw [if_pos hp2] at he ⊢
                obtain ⟨recs, hr, hl⟩ := ih s4 _ _ _ _ (acc ++ [rec0]) r (by omega) he
                refine ⟨rec0 :: recs, ?_, by rw [if_pos hp2]; simp only [List.length_cons]; omega⟩
                rw [hr, List.append_assoc]; rfl
              · rw [if_neg hp2] at he ⊢
                obtain ⟨recs, hr, hl⟩ := ih s4 _ _ _ _ (acc ++ [rec0]) r (by omega) he
                refine ⟨rec0 :: recs, ?_, by rw [if_neg hp2]; simp only [List.length_cons]; omega⟩
                rw [hr, List.append_assoc]; rfl
    · have h1 : encLoop w h orient style V mb np (f + 1) st bp pi pt prevT = some (st, prevT) := by
        unfold encLoop; rw [if_neg hc]
      have h2 : encLoopL w h orient style V mb np (f + 1) st bp pi pt prevT acc = some (st, prevT, acc) := by
        unfold encLoopL; rw [if_neg hc]
      rw [h1] at he
      have : r = (st, prevT) := (Option.some.inj he).symm
      subst this
      exact ⟨[], by rw [h2]; simp, by unfold nP; rw [if_neg hc]; rfl⟩

theorem encLoopS_splitT (w h orient style : Nat) (V : Array Int) (mb np : Nat)
    (hT : Go.and (style : Int) J2kT1.CblkStyleTermAll = 0) (hL : Go.and (style : Int) J2kT1.CblkStyleLazy = 0) :
    ∀ (fuel : Nat) (es : EncSt) (bp pi pt : Nat),
    pt ≤ 2 → 3 * bp + 3 - pt ≤ fuel → pi + (3 * bp + 3 - pt) ≤ np →
    encLoop w h orient style V mb np fuel es (bp : Int) pi pt false =
      (encPassesS w h orient style V fuel es bp pi pt).bind fun stP =>
        (termMq style stP.mq).bind fun m =>
          (resetE style { stP with mq := m }).map fun st => (st, true) := by
  intro fuel
  induction fuel with
  | zero => intro es bp pi pt hpt hf _; omega
  | succ f ih =>
    intro es bp pi pt hpt hf hnp
    rw [encLoop_step w h orient style V mb np f es bp pi pt hpt (by omega)]
    unfold encPassesS
    cases passE w h orient V bp pt (cvE pi pt es) with
    | none => rfl
    | some st =>
      simp only [Option.bind_some]
      cases segE style pt st with
      | none => rfl
      | some st1 =>
        simp only [Option.bind_some]
        by_cases hfin : pt = 2 ∧ bp = 0
        · rw [if_pos hfin]
          obtain ⟨rfl, rfl⟩ := hfin
          rw [show J2kT1.isTerminatingPass ((0 : Nat) : Int) (mb : Int) ((2 : Nat) : Int) (style : Int) = true from
            terminating_last _ _]
          simp only [if_true, Option.bind_some]
          unfold termMq
          cases (if styPterm style = true then Mqc.ertermEnc st1.mq else Mqc.flushToOutput st1.mq) with
          | none => rfl
          | some m =>
            simp only [Option.map_some, Option.bind_some]
            cases resetE style { flags := st1.flags, mq := m } with
            | none => rfl
            | some st3 =>
              simp only [Option.bind_some, Option.map_some]
              rw [encLoop_exit _ _ _ _ _ _ _ _ _ _ _ _ _ (by omega)]
        · rw [if_neg hfin, nontermS _ _ _ _ hT hL (by omega)]
          simp only [Bool.false_eq_true, if_false, Option.bind_some]
          cases resetE style st1 with
          | none => rfl
          | some st2 =>
            simp only [Option.bind_some]
            by_cases hp2 : pt = 2
            · rw [if_pos hp2, if_pos hp2, show ((bp : Int) - 1) = ((bp - 1 : Nat) : Int) by omega]
              exact ih st2 (bp - 1) (pi + 1) 0 (by omega) (by omega) (by omega)
            · rw [if_neg hp2, if_neg hp2]
              exact ih st2 bp (pi + 1) (pt + 1) (by omega) (by omega) (by omega)


/-- **T1 block round trip without LAZY and TERMALL** (`Encode` / `DecodeWithBitplane`; RESET, VSC, PTERM, SEGSYM arbitrary):
under PTERM the stream may in principle be empty, which `DecodeWithBitplane` rejects -/
theorem t1_roundtrip_plainP (w h orient style mb : Nat) (coeffs : List Int) (hlen : coeffs.length = w * h)
    (hbnd : ∀ c ∈ coeffs, c.natAbs < 2147483648) (hmb : findMaxBitplane (padBlock w h coeffs) = some mb)
    (hT : Go.and (style : Int) J2kT1.CblkStyleTermAll = 0) (hL : Go.and (style : Int) J2kT1.CblkStyleLazy = 0) :
    ∃ bytes, encodeBlock w h orient style coeffs (3 * mb + 1) = .ok bytes ∧ (styPterm style = false → bytes ≠ []) ∧
      (bytes ≠ [] → decodeBlock w h orient style (3 * mb + 1) (mb : Int) bytes = .ok coeffs) := by
  obtain ⟨hVsz, hVget⟩ := padBlock_get w h coeffs
  have hVb := padBlock_bound w h coeffs hbnd
  have hz := maxbp_zero _ mb hmb
  obtain ⟨h0, n0, s0⟩ := Mqc.new_ok NUMCONTEXTS
  have hi0 := initCtx_eq (Mqc.Enc.new NUMCONTEXTS) s0
  obtain ⟨e0, he0, hr0, hn0, hsz0⟩ := initCtx_ok
  have hee : e0 = { Mqc.Enc.new NUMCONTEXTS with ctx := ctx3 (Mqc.Enc.new NUMCONTEXTS).ctx } :=
    Option.some.inj (he0.symm.trans hi0)
  subst hee
  have hs0 : EncOk w h (padBlock w h coeffs)
      { flags := Array.replicate ((w + 2) * (h + 2)) 0,
        mq := { Mqc.Enc.new NUMCONTEXTS with ctx := ctx3 (Mqc.Enc.new NUMCONTEXTS).ctx } } :=
    ⟨by simp, hVsz, hr0, hn0, hsz0⟩
  obtain ⟨esP, hP1, hokP, _, _⟩ := passesS_lock w h (padBlock w h coeffs) _ _ (coder_mq _ 1 1 bok_dummy) (coderCtx_mq _ 1 1) hVb orient style (3 * mb + 1)
    (3 * mb + 1 + 1) _ mb 0 2 hs0 (by omega) (by omega)
  -- the whole run is one codeword segment that starts at buffer position 0
  have hseg0 : Mqc.InSeg 0 (Mqc.Enc.new NUMCONTEXTS).buf
      ({ Mqc.Enc.new NUMCONTEXTS with ctx := ctx3 (Mqc.Enc.new NUMCONTEXTS).ctx } : Mqc.Enc) :=
    ⟨fun _ _ => rfl, Or.inl ⟨rfl, by decide⟩⟩
  have hsegP : Mqc.InSeg 0 (Mqc.Enc.new NUMCONTEXTS).buf esP.mq := by
    obtain ⟨esP2, hP2, _, hfw, _⟩ := passesS_lock w h (padBlock w h coeffs) _ _
      (coder_fwd (Mqc.InSeg 0 (Mqc.Enc.new NUMCONTEXTS).buf) (fun e e1 bit cx h1 h2 h3 h4 h5 => Mqc.seg_encode _ _ e e1 bit cx h1 h2 h3 h4 h5))
      (coderCtx_fwd (Mqc.InSeg 0 (Mqc.Enc.new NUMCONTEXTS).buf) (fun e c hp => inSeg_ctx _ _ e c hp)) hVb orient style (3 * mb + 1)
      (3 * mb + 1 + 1) _ mb 0 2 hs0 (by omega) (by omega)
    have : esP2 = esP := Option.some.inj (hP2.symm.trans hP1)
    subst this
    rcases Classical.em (Mqc.InSeg 0 (Mqc.Enc.new NUMCONTEXTS).buf esP2.mq) with h' | h'
    · exact h'
    · exact absurd hseg0 (hfw h')
  obtain ⟨ef, last, len, hterm, hefctx, htermok, hB, hfe, hlen', hBk, _, _, hbp2'⟩ :=
    term_facts style esP.mq hokP.reg hokP.norm 0 (Mqc.Enc.new NUMCONTEXTS).buf hsegP (by decide)
  obtain ⟨esP', hP', _, hbackP, hlockP⟩ := passesS_lock w h (padBlock w h coeffs) _ _ (coder_mq _ last len hB) (coderCtx_mq _ last len) hVb orient style (3 * mb + 1)
    (3 * mb + 1 + 1) _ mb 0 2 hs0 (by omega) (by omega)
  have hpp : esP' = esP := Option.some.inj (hP'.symm.trans hP1)
  subst hpp
  obtain ⟨hgl, hgg⟩ := getBuffer_get' ef htermok.sz htermok.bp1
  -- the reset after the final termination does not touch the buffer
  have hreset : ∃ st, resetE style { esP' with mq := ef } = some st ∧ Mqc.getBuffer st.mq = Mqc.getBuffer ef := by
    unfold resetE
    by_cases hr : styReset style = true
    · rw [if_pos hr]
      obtain ⟨m', em', _, hb, hbp, _⟩ := resetInit_some ef (by rw [hefctx]; exact hokP.nctx)
      rw [em']
      exact ⟨_, rfl, by unfold Mqc.getBuffer; simp only [hb, hbp]⟩
    · rw [if_neg hr]; exact ⟨_, rfl, rfl⟩
  obtain ⟨stR, hstR, hbufR⟩ := hreset
  refine ⟨Mqc.getBuffer ef, ?_, ?_, ?_⟩
  · unfold encodeBlock
    rw [if_neg (by rw [hlen]; exact fun hc => hc rfl)]
    simp only []
    rw [hmb]
    simp only []
    rw [hi0]
    simp only []
    rw [encLoopS_splitT w h orient style _ mb (3 * mb + 1) hT hL (3 * mb + 1 + 1) _ mb 0 2 (by omega) (by omega) (by omega), hP']
    simp only [Option.bind_some, hterm, hstR, Option.map_some, if_true]
    rw [hbufR]
  · intro hp hb
    have := hbp2' hp
    have h0 : (Mqc.getBuffer ef).length = 0 := by rw [hb]; rfl
    rw [hgl] at h0
    omega
  · intro hne
    have hl1 : 1 ≤ len := by
      rcases Nat.eq_zero_or_pos len with h0 | h0
      · exfalso; apply hne; apply List.length_eq_zero_iff.mp; rw [hgl]; omega
      · exact h0
    have hfe0 : Mqc.FE (Mqc.finalB ef.buf last) last (Mqc.Enc.new NUMCONTEXTS) := hbackP hfe
    obtain ⟨d0, hd0, hrel0⟩ := Mqc.decNew_rel _ last len hB NUMCONTEXTS (Mqc.getBuffer ef) (by rw [hgl]; omega)
      (fun k hk => by rw [hgg k (by omega), hBk k hk]) hl1 hfe0
    have hd0sz : d0.ctx.size = 19 := by rw [hrel0.ctx]; exact s0
    have hid0 := initCtxDec_eq d0 hd0sz
    have hrel1 : Mqc.Rel (Mqc.finalB ef.buf last) last len
        { Mqc.Enc.new NUMCONTEXTS with ctx := ctx3 (Mqc.Enc.new NUMCONTEXTS).ctx } { d0 with ctx := ctx3 d0.ctx } :=
      ⟨hrel0.a, congrArg ctx3 hrel0.ctx, hrel0.size, hrel0.data, hrel0.bple, hrel0.eos, hrel0.ctlo, hrel0.cthi,
        hrel0.ahead, hrel0.wdeq, hrel0.eq⟩
    have hrep : ∀ j, gi (Array.replicate ((w + 2) * (h + 2)) (0 : Int)) j = 0 := by
      intro j; unfold gi; rw [Array.getElem?_replicate]; split <;> rfl
    have hrepf : ∀ j, sigA (Array.replicate ((w + 2) * (h + 2)) (0 : Nat)) j = false := by
      intro j; unfold sigA gf; rw [Array.getElem?_replicate]; split <;> rfl
    obtain ⟨ds', hd', hdsz', hdata'⟩ := hlockP hfe
      { flags := Array.replicate ((w + 2) * (h + 2)) 0, data := Array.replicate ((w + 2) * (h + 2)) 0,
        mq := { d0 with ctx := ctx3 d0.ctx } }
      ⟨fun _ => mb + 1, ⟨rfl, by simp, hrel1, fun j _ =>
          ⟨Or.inr rfl, by show gi (Array.replicate _ 0) j = _; rw [hrep, tr_zero _ _ (hz j)],
           by show sigA (Array.replicate _ 0) j = true ↔ _; rw [hrepf, hz j]; simp⟩⟩,
        fun hh => absurd hh (by decide), fun hh => absurd hh (by decide),
        fun _ => ⟨fun _ => ⟨fun j _ => rfl, fun j _ => hrepf j⟩, fun hh => absurd rfl hh⟩⟩ (by omega)
    unfold decodeBlock
    rw [if_neg (by rw [hgl]; omega), hd0]
    simp only []
    rw [hid0]
    simp only []
    rw [hd']
    simp only []
    rw [mapM_get ds'.data _ (by
      intro i hi
      simp only [List.mem_flatMap, List.mem_range, List.mem_map] at hi
      obtain ⟨y, hy, x, hx, rfl⟩ := hi
      rw [hdsz']; exact idx_lt w h x y hx hy)]
    simp only []
    congr 1
    rw [List.map_flatMap]
    rw [← rows_eq w h coeffs hlen]
    apply flatMap_congr'
    intro y hy
    rw [List.map_map]
    apply List.map_congr_left
    intro x hx
    have hy' := List.mem_range.mp hy
    have hx' := List.mem_range.mp hx
    show gi ds'.data (idxOf w x y) = _
    rw [hdata' _ ⟨x, y, hx', hy', rfl⟩, hVget x y hx' hy']

theorem normalizeRates_length (rs data : List Nat) : (normalizeRates rs data).length = rs.length := by
  unfold normalizeRates
  induction rs with
  | nil => rfl
  | cons r rs ih =>
    rw [List.foldr_cons]
    simp only [List.length_cons]
    rw [← ih]

/-- **layered T1 round trip without TERMALL and LAZY** (one codeword segment; PTERM allowed): the layered encoder emits the bytes of
`Encode`, one rate per pass, and the layered decoder is `DecodeWithBitplane` on them -/
theorem t1_layered_roundtrip_plain (w h orient style mb : Nat) (coeffs : List Int) (hlen : coeffs.length = w * h)
    (hbnd : ∀ c ∈ coeffs, c.natAbs < 2147483648) (hmb : findMaxBitplane (padBlock w h coeffs) = some mb)
    (hT : Go.and (style : Int) J2kT1.CblkStyleTermAll = 0) (hL : Go.and (style : Int) J2kT1.CblkStyleLazy = 0)
    (hTs : styTermall style = false) (hLs : styLazy style = false) :
    ∃ rates bytes, encodeLayered w h orient style coeffs (3 * mb + 1) = .ok (rates, (mb : Int), bytes) ∧
      (styPterm style = false → bytes ≠ []) ∧
      (bytes ≠ [] → decodeLayered w h orient style (mb : Int) rates bytes = .ok coeffs) := by
  obtain ⟨bytes, henc, hnonempty, hdec⟩ := t1_roundtrip_plainP w h orient style mb coeffs hlen hbnd hmb hT hL
  -- read the encoder's loop result off `Encode`
  unfold encodeBlock at henc
  rw [if_neg (by rw [hlen]; exact fun hc => hc rfl)] at henc
  simp only [] at henc
  rw [hmb] at henc
  simp only [] at henc
  cases hi : initCtx (Mqc.Enc.new NUMCONTEXTS) with
  | none => rw [hi] at henc; exact absurd henc (by simp)
  | some mq =>
    rw [hi] at henc
    simp only [] at henc
    cases hl : encLoop w h orient style (padBlock w h coeffs) mb (3 * mb + 1) (3 * mb + 1 + 1)
        { flags := Array.replicate ((w + 2) * (h + 2)) 0, mq := mq } (mb : Int) 0 2 false with
    | none => rw [hl] at henc; exact absurd henc (by simp)
    | some r =>
      rw [hl] at henc
      obtain ⟨st, t⟩ := r
      simp only [] at henc
      obtain ⟨recs, hrl, hrn⟩ := encLoopL_plain w h orient style (padBlock w h coeffs) mb (3 * mb + 1) hL (3 * mb + 1 + 1)
        { flags := Array.replicate ((w + 2) * (h + 2)) 0, mq := mq } (mb : Int) 0 2 false [] (st, t) (by omega) hl
      rw [nP_full (3 * mb + 1) (3 * mb + 1 + 1) mb 0 2 (by omega) (by omega) (by omega)] at hrn
      have hb : (if t = true then some (Mqc.getBuffer st.mq) else (Mqc.flush st.mq).map (·.2)) = some bytes := by
        cases t with
        | true => simp only [if_true] at henc ⊢; injection henc with henc; rw [henc]
        | false =>
          simp only [Bool.false_eq_true, if_false] at henc ⊢
          cases hf : Mqc.flush st.mq with
          | none => rw [hf] at henc; exact absurd henc (by simp)
          | some fb =>
            rw [hf] at henc
            obtain ⟨e', b'⟩ := fb
            simp only [] at henc
            injection henc with henc
            rw [henc]; rfl
      refine ⟨normalizeRates (recs.map (·.1)) bytes, bytes, ?_, hnonempty, ?_⟩
      · unfold encodeLayered
        rw [if_neg (by rw [hlen]; exact fun hc => hc rfl)]
        simp only []
        rw [hmb]
        simp only []
        rw [hi]
        simp only []
        rw [hrl]
        simp only [List.nil_append, hb]
      · intro hnb
        have hdec := hdec hnb
        have hne : bytes.length ≠ 0 := fun h0 => hnb (List.length_eq_zero_iff.mp h0)
        unfold decodeLayered
        rw [if_neg hne, if_neg (by rw [normalizeRates_length, List.length_map, hrn]; omega)]
        simp only [hTs, hLs]
        rw [if_pos ⟨by simp, by simp⟩, normalizeRates_length, List.length_map, hrn]
        exact hdec

/-- the 32 code-block styles without LAZY -/
def stylesMq : List Nat := [0, 2, 4, 6, 8, 10, 12, 14, 16, 18, 20, 22, 24, 26, 28, 30,
  32, 34, 36, 38, 40, 42, 44, 46, 48, 50, 52, 54, 56, 58, 60, 62]

/-- **layered T1 round trip for every style without LAZY** (TERMALL, RESET, VSC, PTERM, SEGSYM arbitrary): without
PTERM the stream is never empty; under PTERM an empty stream (which the decoder rejects) is not excluded -/
theorem t1_layered_roundtrip_mq (w h orient style mb : Nat) (coeffs : List Int) (hlen : coeffs.length = w * h)
    (hbnd : ∀ c ∈ coeffs, c.natAbs < 2147483648) (hmb : findMaxBitplane (padBlock w h coeffs) = some mb)
    (hs : style ∈ stylesMq) :
    ∃ rates bytes, encodeLayered w h orient style coeffs (3 * mb + 1) = .ok (rates, (mb : Int), bytes) ∧
      (styPterm style = false → bytes ≠ []) ∧
      (bytes ≠ [] → decodeLayered w h orient style (mb : Int) rates bytes = .ok coeffs) := by
  unfold stylesMq at hs
  simp only [List.mem_cons, List.mem_nil_iff, or_false] at hs
  rcases hs with rfl | rfl | rfl | rfl | rfl | rfl | rfl | rfl | rfl | rfl | rfl | rfl | rfl | rfl | rfl | rfl |
    rfl | rfl | rfl | rfl | rfl | rfl | rfl | rfl | rfl | rfl | rfl | rfl | rfl | rfl | rfl | rfl
  all_goals first
    | exact t1_layered_roundtrip_plain w h orient _ mb coeffs hlen hbnd hmb (by decide) (by decide) (by decide) (by decide)
    | exact t1_layered_roundtrip_termall w h orient _ mb coeffs hlen hbnd hmb (by decide) (by decide) (by decide)
section NoPanicSeg
open Mqc

/-- loop state for the no-panic argument with segments -/
def EncOkS (w h : Nat) (V : Array Int) (st : EncSt) (prevT : Bool) : Prop :=
  st.flags.size = (w + 2) * (h + 2) ∧ V.size = (w + 2) * (h + 2) ∧ st.mq.ctx.size = 19 ∧
    (if prevT = true then TermOk st.mq
     else RegOk st.mq ∧ 0x8000 ≤ st.mq.a ∧ ∃ p0 b0, InSeg p0 b0 st.mq ∧ rd b0 p0 ≠ 255)

section NP
variable (w h : Nat) (V : Array Int) (hV : ∀ j, (gi V j).natAbs < 2147483648)
include hV

/-- the pass loop of `Encode` never index-panics for any style without LAZY (TERMALL and PTERM in any combination) -/
theorem encLoop_ok_seg (orient style mb np : Nat) (hL : Go.and (style : Int) J2kT1.CblkStyleLazy = 0) :
    ∀ (fuel : Nat) (st : EncSt) (bp : Int) (pi pt : Nat) (prevT : Bool), pt ≤ 2 → EncOkS w h V st prevT →
      ∃ r, encLoop w h orient style V mb np fuel st bp pi pt prevT = some r ∧
        (r.2 = false → RegOk r.1.mq ∧ 0x8000 ≤ r.1.mq.a) := by
  intro fuel
  induction fuel with
  | zero =>
    intro st bp pi pt prevT _ hs
    refine ⟨_, rfl, ?_⟩
    intro hp
    have hp' : prevT = false := hp
    obtain ⟨_, _, _, h4⟩ := hs
    rw [hp'] at h4
    exact ⟨h4.1, h4.2.1⟩
  | succ f ih =>
    intro st bp pi pt prevT hpt hs
    by_cases hc : bp ≥ 0 ∧ pi < np
    · obtain ⟨n, rfl⟩ : ∃ n : Nat, bp = (n : Int) := ⟨bp.toNat, by omega⟩
      have key : ∀ (st : EncSt), EncOk w h V st → (∃ p0 b0, InSeg p0 b0 st.mq ∧ rd b0 p0 ≠ 255) →
          ∃ r, encLoop w h orient style V mb np (f + 1) st (n : Int) pi pt false = some r ∧
            (r.2 = false → RegOk r.1.mq ∧ 0x8000 ≤ r.1.mq.a) := by
        intro st hs ⟨p0, b0, hseg, hnf⟩
        have hCf := coder_fwd (InSeg p0 b0) (fun e e1 bit cx h1 h2 h3 h4 h5 => seg_encode _ _ e e1 bit cx h1 h2 h3 h4 h5)
        have hXf := coderCtx_fwd (InSeg p0 b0) (fun e c hp => inSeg_ctx _ _ e c hp)
        rw [encLoop_step w h orient style V mb np f st n pi pt hpt hc.2]
        obtain ⟨st2, e2, hs2, hfw2, _⟩ := step_lock w h V _ _ hCf hXf hV orient n pi pt hpt st hs
        rw [e2]; simp only [Option.bind_some]
        obtain ⟨st3, e3, hs3, hfw3, _⟩ := segE_lock w h V _ _ hCf hXf style n pt pt st2 hs2
        rw [e3]; simp only [Option.bind_some]
        have hseg3 : InSeg p0 b0 st3.mq := by
          rcases Classical.em (InSeg p0 b0 st3.mq) with h' | h'
          · exact h'
          · exact absurd hseg (hfw2 (hfw3 h'))
        cases ht : J2kT1.isTerminatingPass (n : Int) (mb : Int) (pt : Int) (style : Int) with
        | false =>
          simp only [Bool.false_eq_true, if_false, Option.bind_some]
          obtain ⟨st4, e4, hs4, hfw4, _⟩ := resetE_lock w h V _ _ hXf style n pt st3 hs3
          rw [e4]; simp only [Option.bind_some]
          have hseg4 : InSeg p0 b0 st4.mq := by
            rcases Classical.em (InSeg p0 b0 st4.mq) with h' | h'
            · exact h'
            · exact absurd hseg3 (hfw4 h')
          split
          · exact ih st4 _ _ _ false (by omega) ⟨hs4.fsz, hs4.dsz, hs4.nctx, by
              simp only [Bool.false_eq_true, if_false]; exact ⟨hs4.reg, hs4.norm, p0, b0, hseg4, hnf⟩⟩
          · exact ih st4 _ _ _ false (by omega) ⟨hs4.fsz, hs4.dsz, hs4.nctx, by
              simp only [Bool.false_eq_true, if_false]; exact ⟨hs4.reg, hs4.norm, p0, b0, hseg4, hnf⟩⟩
        | true =>
          simp only [if_true]
          obtain ⟨ef, _, _, hef, hctx, hterm, _⟩ := term_facts style st3.mq hs3.reg hs3.norm p0 b0 hseg3 hnf
          unfold termMq at hef
          rw [hef]; simp only [Option.map_some, Option.bind_some]
          obtain ⟨st4, e4, hfl4, hterm4, hsz4⟩ : ∃ st4, resetE style { flags := st3.flags, mq := ef } = some st4 ∧
              st4.flags = st3.flags ∧ TermOk st4.mq ∧ st4.mq.ctx.size = 19 := by
            unfold resetE
            split
            · obtain ⟨m', em', hs', hb', hbp', _, _, _, hc'⟩ := resetInit_some ef (by rw [hctx]; exact hs3.nctx)
              rw [em']
              refine ⟨_, rfl, rfl, ⟨?_, ?_, ?_, ?_, ?_, hc'⟩, hs'⟩
              · show 1 ≤ m'.bp; rw [hbp']; exact hterm.bp1
              · show m'.bp ≤ m'.buf.size; rw [hbp', hb']; exact hterm.sz
              · show ∀ i, rd m'.buf i < 256; rw [hb']; exact hterm.bytes
              · show ∀ i, i + 1 < m'.bp → rd m'.buf i = 255 → rd m'.buf (i + 1) ≤ 143; rw [hb', hbp']; exact hterm.marker
              · show rd m'.buf (m'.bp - 1) ≠ 255; rw [hb', hbp']; exact hterm.last
            · exact ⟨_, rfl, rfl, hterm, by show ef.ctx.size = 19; rw [hctx]; exact hs3.nctx⟩
          rw [e4]; simp only [Option.bind_some]
          split
          · exact ih st4 _ _ _ true (by omega) ⟨by rw [hfl4]; exact hs3.fsz, hs3.dsz, hsz4, by simp only [if_true]; exact hterm4⟩
          · exact ih st4 _ _ _ true (by omega) ⟨by rw [hfl4]; exact hs3.fsz, hs3.dsz, hsz4, by simp only [if_true]; exact hterm4⟩
      cases prevT with
      | false =>
        obtain ⟨h1, h2, h3, h4⟩ := hs
        simp only [Bool.false_eq_true, if_false] at h4
        exact key st ⟨h1, h2, h4.1, h4.2.1, h3⟩ h4.2.2
      | true =>
        obtain ⟨h1, h2, h3, h4⟩ := hs
        simp only [if_true] at h4
        rw [encLoop_restart w h orient style V mb np f st n pi pt hc]
        obtain ⟨hr, hn, hcx⟩ := restart_ok st.mq h4
        have hin' : st.mq.bp - 1 < st.mq.buf.size := by have := h4.bp1; have := h4.sz; omega
        have hnf : st.mq.buf[st.mq.bp - 1]? ≠ some 0xFF := by
          rw [rd_some _ _ hin']
          intro hh
          exact h4.last (Option.some.inj hh)
        exact key _ ⟨h1, h2, hr, hn, by show (restartInitEnc st.mq).ctx.size = 19; rw [hcx]; exact h3⟩
          ⟨st.mq.bp - 1, st.mq.buf, seg_restart st.mq h4.bp1 hnf, h4.last⟩
    · refine ⟨(st, prevT), by unfold encLoop; rw [if_neg hc], ?_⟩
      intro hp
      have hp' : prevT = false := hp
      obtain ⟨_, _, _, h4⟩ := hs
      rw [hp'] at h4
      exact ⟨h4.1, h4.2.1⟩

/-- **the block encoder never index-panics, all 32 styles without LAZY** (coefficients in the `int32` range
`(-2^31, 2^31)`) -/
theorem encodeBlock_no_panic_mq (orient style : Nat) (coeffs : List Int) (np : Nat) (hlen : coeffs.length = w * h)
    (hVc : V = padBlock w h coeffs) (hL : Go.and (style : Int) J2kT1.CblkStyleLazy = 0) :
    ∃ bytes, encodeBlock w h orient style coeffs np = .ok bytes := by
  subst hVc
  unfold encodeBlock
  rw [if_neg (by rw [hlen]; exact fun hc => hc rfl)]
  simp only []
  split
  · obtain ⟨h0, n0, _⟩ := Mqc.new_ok NUMCONTEXTS
    obtain ⟨e', bytes, hf, _⟩ := Mqc.flush_spec _ h0 n0
    rw [hf]; exact ⟨_, rfl⟩
  · rename_i mb _
    obtain ⟨h0, n0, s0⟩ := Mqc.new_ok NUMCONTEXTS
    have hi0 := initCtx_eq (Mqc.Enc.new NUMCONTEXTS) s0
    obtain ⟨e0, he0, hr0, hn0, hsz0⟩ := initCtx_ok
    have hee : e0 = { Mqc.Enc.new NUMCONTEXTS with ctx := ctx3 (Mqc.Enc.new NUMCONTEXTS).ctx } :=
      Option.some.inj (he0.symm.trans hi0)
    subst hee
    rw [hi0]; simp only []
    obtain ⟨r, er, hr2⟩ := encLoop_ok_seg w h (padBlock w h coeffs) hV orient style mb np hL (np + 1)
      { flags := Array.replicate ((w + 2) * (h + 2)) 0,
        mq := { Mqc.Enc.new NUMCONTEXTS with ctx := ctx3 (Mqc.Enc.new NUMCONTEXTS).ctx } } mb 0 2 false (by omega)
      ⟨by simp, padBlock_size w h coeffs, hsz0, by
        simp only [Bool.false_eq_true, if_false]
        exact ⟨hr0, hn0, 0, (Mqc.Enc.new NUMCONTEXTS).buf, ⟨fun _ _ => rfl, Or.inl ⟨rfl, by decide⟩⟩, by decide⟩⟩
    rw [er]
    obtain ⟨st, t⟩ := r
    simp only []
    cases t with
    | true => exact ⟨_, rfl⟩
    | false =>
      simp only [Bool.false_eq_true, if_false]
      obtain ⟨hreg, hnorm⟩ := hr2 rfl
      obtain ⟨e', bytes, hf, _⟩ := Mqc.flush_spec _ hreg hnorm
      rw [hf]; exact ⟨_, rfl⟩
end NP
end NoPanicSeg
end T1
