import GdcVerif.Model.J2kQuant
/-! Proofs for Props/C12. -/
namespace J2kQuant
open Gen.J2kQuant

theorem unpack_pack' (e m : Nat) (he : e < 32) (hm : m < 2048) : unpack (pack e m) = (e, m) := by
  simp only [unpack, pack, Prod.mk.injEq]; omega

theorem pack_unpack' (w : Nat) (hw : w < 65536) : pack (unpack w).1 (unpack w).2 = w := by
  simp only [unpack, pack]; omega

theorem two_pow_split (l : Nat) (h : 11 ≤ l) : (2:Nat) ^ l = 2 ^ 11 * 2 ^ (l - 11) := by
  rw [← Nat.pow_add]; congr 1; omega

/-- mantissa of a step whose leading bit is at position l ≥ 11: the 11 bits below it, by truncation -/
theorem mant_trunc (fixed l : Nat) (hl : 11 ≤ l) (h1 : 2 ^ l ≤ fixed) (h2 : fixed < 2 ^ (l + 1)) :
    2048 + fixed / 2 ^ (l - 11) % 2048 = fixed / 2 ^ (l - 11) ∧
    (2048 + fixed / 2 ^ (l - 11) % 2048) * 2 ^ (l - 11) ≤ fixed ∧
    fixed < (2048 + fixed / 2 ^ (l - 11) % 2048 + 1) * 2 ^ (l - 11) := by
  have hp : 0 < 2 ^ (l - 11) := Nat.pow_pos (by decide)
  have e1 := two_pow_split l hl
  have e2 : (2:Nat) ^ (l + 1) = 4096 * 2 ^ (l - 11) := by
    rw [Nat.pow_succ, e1]; generalize (2:Nat) ^ (l - 11) = z; omega
  have lo : 2048 ≤ fixed / 2 ^ (l - 11) := by
    rw [Nat.le_div_iff_mul_le hp]; simpa [e1] using h1
  have hi : fixed / 2 ^ (l - 11) < 4096 := by
    rw [Nat.div_lt_iff_lt_mul hp]; simpa [e2] using h2
  have hq : 2048 + fixed / 2 ^ (l - 11) % 2048 = fixed / 2 ^ (l - 11) := by omega
  refine ⟨hq, ?_, ?_⟩
  · rw [hq]; exact Nat.div_mul_le_self _ _
  · rw [hq]; exact Nat.lt_succ_mul_of_div_lt' hp
where
  Nat.lt_succ_mul_of_div_lt' {a b : Nat} (hb : 0 < b) : a < (a / b + 1) * b := by
    have := Nat.div_add_mod a b
    have := Nat.mod_lt a hb
    rw [Nat.add_mul, Nat.one_mul, Nat.mul_comm]; omega

theorem mant_small (fixed l : Nat) (hl : l ≤ 11) (h1 : 2 ^ l ≤ fixed) (h2 : fixed < 2 ^ (l + 1)) :
    2048 + fixed * 2 ^ (11 - l) % 2048 = fixed * 2 ^ (11 - l) := by
  have e1 : (2:Nat) ^ 11 = 2 ^ l * 2 ^ (11 - l) := by rw [← Nat.pow_add]; congr 1; omega
  have e2 : (2:Nat) ^ 12 = 2 ^ (l + 1) * 2 ^ (11 - l) := by rw [← Nat.pow_add]; congr 1; omega
  have hp : 0 < 2 ^ (11 - l) := Nat.pow_pos (by decide)
  have lo : 2 ^ 11 ≤ fixed * 2 ^ (11 - l) := by rw [e1]; exact Nat.mul_le_mul_right _ h1
  have hi : fixed * 2 ^ (11 - l) < 2 ^ 12 := by rw [e2]; exact Nat.mul_lt_mul_of_pos_right h2 hp
  omega

theorem log2_bounds (x : Nat) (hx : x ≠ 0) : 2 ^ log2 x ≤ x ∧ x < 2 ^ (log2 x + 1) :=
  ⟨Nat.log2_self_le hx, Nat.lt_log2_self⟩

/-- dead-zone + mid-point: the reconstruction is within Δ/2 of x when the index is non-zero and x itself
    is inside the dead zone (|x| < Δ) when it is zero -/
theorem deadzone_midpoint' (x delta : Int) (hd : 0 < delta) :
    let q := deadzoneQ x delta
    (q ≠ 0 → (2 * x - midpoint2 q delta ≤ delta ∧ -delta ≤ 2 * x - midpoint2 q delta)) ∧
    (q = 0 → (-delta < x ∧ x < delta)) := by
  intro q
  by_cases hx : x < 0
  · have hq : q = -((-x) / delta) := by simp [q, deadzoneQ, hx]
    have h1 := Int.mul_ediv_add_emod (-x) delta
    have h2 := Int.emod_nonneg (-x) (Int.ne_of_gt hd)
    have h3 := Int.emod_lt_of_pos (-x) hd
    have h4 : 0 ≤ (-x) / delta := Int.ediv_nonneg (by omega) (by omega)
    generalize hk : (-x) / delta = k at *
    generalize hr : (-x) % delta = r at *
    generalize ht : delta * k = t at *
    constructor
    · intro hne
      have hk0 : 0 < k := by omega
      have : midpoint2 q delta = -((2 * k + 1) * delta) := by
        simp only [midpoint2, hq]
        have : ¬ (-k = 0) := by omega
        simp [this]; omega
      rw [this, Int.add_mul, Int.mul_assoc, Int.mul_comm k delta, ht]; omega
    · intro h0
      have : k = 0 := by omega
      subst this; simp at ht; omega
  · have hq : q = x / delta := by simp [q, deadzoneQ, hx]
    have h1 := Int.mul_ediv_add_emod x delta
    have h2 := Int.emod_nonneg x (Int.ne_of_gt hd)
    have h3 := Int.emod_lt_of_pos x hd
    have h4 : 0 ≤ x / delta := Int.ediv_nonneg (by omega) (by omega)
    generalize hk : x / delta = k at *
    generalize hr : x % delta = r at *
    generalize ht : delta * k = t at *
    constructor
    · intro hne
      have hk0 : 0 < k := by omega
      have : midpoint2 q delta = (2 * k + 1) * delta := by
        simp only [midpoint2, hq]
        have : ¬ (k = 0) := by omega
        have : ¬ (k < 0) := by omega
        simp [*]
      rw [this, Int.add_mul, Int.mul_assoc, Int.mul_comm k delta, ht]; omega
    · intro h0
      have : k = 0 := by omega
      subst this; simp at ht; omega

theorem pcases (P : Nat) (h : 1 ≤ P ∧ P ≤ 16) : P = 1 ∨ P = 2 ∨ P = 3 ∨ P = 4 ∨ P = 5 ∨ P = 6 ∨ P = 7 ∨ P = 8 ∨
     P = 9 ∨ P = 10 ∨ P = 11 ∨ P = 12 ∨ P = 13 ∨ P = 14 ∨ P = 15 ∨ P = 16 := by omega
theorem pcases8 (P : Nat) (h : 1 ≤ P ∧ P ≤ 8) : P = 1 ∨ P = 2 ∨ P = 3 ∨ P = 4 ∨ P = 5 ∨ P = 6 ∨ P = 7 ∨ P = 8 := by omega

theorem clampGrey16_spec (d : Decoder) (P : Nat) (hd : d.bitDepth = P) (hP : 1 ≤ P ∧ P ≤ 16)
    (v a b : Int) (hv : -2147483648 ≤ v ∧ v < 2147483648) :
    val16 (clampGrey16 d v a b) = clampSpec P d.isSigned v := by
  cases hs : d.isSigned <;>
  rcases pcases P hP with h|h|h|h|h|h|h|h|h|h|h|h|h|h|h|h <;>
  · subst h
    simp only [clampGrey16, clampSpec, hs, hd, val16, Go.shl, Go.wrap32, Go.uwrap8, Go.shr, Int.shiftRight_eq_div_pow]
    simp
    omega

theorem clampInter16_spec (d : Decoder) (P : Nat) (hd : d.bitDepth = P) (hP : 1 ≤ P ∧ P ≤ 16)
    (i c v a b : Int) (hv : -2147483648 ≤ v ∧ v < 2147483648) :
    val16 (clampInter16 d i c v a b) = clampSpec P d.isSigned v := by
  cases hs : d.isSigned <;>
  rcases pcases P hP with h|h|h|h|h|h|h|h|h|h|h|h|h|h|h|h <;>
  · subst h
    simp only [clampInter16, clampSpec, hs, hd, val16, Go.shl, Go.wrap32, Go.uwrap8, Go.shr, Int.shiftRight_eq_div_pow]
    simp
    omega

theorem clampGrey8_spec (d : Decoder) (P : Nat) (hd : d.bitDepth = P) (hP : 1 ≤ P ∧ P ≤ 8)
    (v a : Int) (hv : -2147483648 ≤ v ∧ v < 2147483648) :
    clampGrey8 d v a = clampSpec P d.isSigned v := by
  cases hs : d.isSigned <;>
  rcases pcases8 P hP with h|h|h|h|h|h|h|h <;>
  · subst h
    simp only [clampGrey8, clampSpec, hs, hd, Go.shl, Go.wrap32, Go.uwrap8]
    simp
    omega

theorem clampInter8_spec (d : Decoder) (P : Nat) (hd : d.bitDepth = P) (hP : 1 ≤ P ∧ P ≤ 8)
    (v a : Int) (hv : -2147483648 ≤ v ∧ v < 2147483648) :
    clampInter8 d v a = clampSpec P d.isSigned v := by
  cases hs : d.isSigned <;>
  rcases pcases8 P hP with h|h|h|h|h|h|h|h <;>
  · subst h
    simp only [clampInter8, clampSpec, hs, hd, Go.shl, Go.wrap32, Go.uwrap8]
    simp
    omega

theorem clampSpec_range (P : Nat) (hP : 1 ≤ P) (s : Bool) (v : Int) :
    0 ≤ clampSpec P s v ∧ clampSpec P s v < 2 ^ P := by
  have hp : (0:Int) < 2 ^ (P - 1) := Int.pow_pos (by decide)
  have e : (2:Int) ^ P = 2 * 2 ^ (P - 1) := by
    have : P = (P - 1) + 1 := by omega
    rw [this, Int.pow_succ]; simp; omega
  cases s <;> simp only [clampSpec] <;> simp <;> (try split) <;> omega

end J2kQuant

namespace J2kQuant

theorem fixedOfDyadic_ne_zero (m : Nat) (e : Int) : fixedOfDyadic m e ≠ 0 := by
  simp only [fixedOfDyadic]
  generalize (if 0 ≤ e + 13 then m * 2 ^ (e + 13).toNat else m / 2 ^ (-(e + 13)).toNat) = f
  split <;> omega

/-- requested (dyadic) step versus the fixed-point value: for e+13 < 0, fixed·2^k ≤ m < (fixed+1)·2^k (k = −e−13),
    unless the step is below 2^-13 (then fixed is forced to 1) -/
theorem fixed_floor (m : Nat) (e : Int) (he : e + 13 < 0) (hm : 2 ^ (-(e + 13)).toNat ≤ m) :
    fixedOfDyadic m e * 2 ^ (-(e + 13)).toNat ≤ m ∧ m < (fixedOfDyadic m e + 1) * 2 ^ (-(e + 13)).toNat := by
  have hp : 0 < 2 ^ (-(e + 13)).toNat := Nat.pow_pos (by decide)
  have hne : ¬ (0 ≤ e + 13) := by omega
  have hq : 1 ≤ m / 2 ^ (-(e + 13)).toNat := (Nat.le_div_iff_mul_le hp).2 (by simpa using hm)
  have hf : fixedOfDyadic m e = m / 2 ^ (-(e + 13)).toNat := by
    simp only [fixedOfDyadic, hne, if_false]
    rw [if_neg (by omega)]
  rw [hf]
  have h1 := Nat.div_add_mod m (2 ^ (-(e + 13)).toNat)
  have h2 := Nat.mod_lt m hp
  generalize 2 ^ (-(e + 13)).toNat = K at *
  generalize m / K = q at *
  constructor
  · rw [Nat.mul_comm]; omega
  · rw [Nat.add_mul, Nat.one_mul, Nat.mul_comm]; omega

end J2kQuant

namespace J2kQuant
open Gen.J2kQuant

theorem resLoop_spec (step : Int → Int) (hs : ∀ i, step i = i + 1) : ∀ (n res : Nat) (idx : Int) (L : Nat), 1 ≤ res → res + n = L + 1 →
    idx = 1 + ((res : Int) - 1) * 3 →
    ∀ t ∈ resLoopWith step n res idx, 1 ≤ t.1 ∧ t.1 ≤ L ∧ 1 ≤ t.2.1 ∧ t.2.1 ≤ 3 ∧
      t.2.2 = subbandIndex L t.1 t.2.1
  | 0, _, _, _, _, _, _ => by intro t ht; simp [resLoopWith] at ht
  | n + 1, res, idx, L, h1, h2, h3 => by
    intro t ht
    simp only [resLoopWith, List.mem_cons, hs] at ht
    have hsi : ∀ band : Nat, 1 ≤ band → band ≤ 3 → subbandIndex L res band = 1 + ((res : Int) - 1) * 3 + ((band : Int) - 1) := by
      intro band hb1 hb3
      simp only [subbandIndex]
      have a1 : ¬ ((res : Int) < 0 ∨ (L : Int) < res) := by omega
      have a2 : ¬ (res : Int) = 0 := by omega
      have a3 : ¬ ((band : Int) < 1 ∨ 3 < (band : Int)) := by omega
      simp [a2, a3]; omega
    rcases ht with rfl | rfl | rfl | ht
    · refine ⟨h1, by show res ≤ L; omega, by show 1 ≤ 1; omega, by show 1 ≤ 3; omega, ?_⟩
      show idx = subbandIndex L res (1 : Nat)
      rw [hsi 1 (by omega) (by omega)]; omega
    · refine ⟨h1, by show res ≤ L; omega, by show 1 ≤ 2; omega, by show 2 ≤ 3; omega, ?_⟩
      show idx + 1 = subbandIndex L res (2 : Nat)
      rw [hsi 2 (by omega) (by omega)]; omega
    · refine ⟨h1, by show res ≤ L; omega, by show 1 ≤ 3; omega, by show 3 ≤ 3; omega, ?_⟩
      show idx + 1 + 1 = subbandIndex L res (3 : Nat)
      rw [hsi 3 (by omega) (by omega)]; omega
    · exact resLoop_spec step hs n (res + 1) (idx + 1 + 1 + 1) L (by omega) (by omega) (by omega) t ht

theorem resLoop_length (step : Int → Int) : ∀ n res idx, (resLoopWith step n res idx).length = 3 * n
  | 0, _, _ => rfl
  | n + 1, res, idx => by simp [resLoopWith, resLoop_length step n]; omega

end J2kQuant
