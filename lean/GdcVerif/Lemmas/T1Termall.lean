import GdcVerif.Lemmas.T1Model
import GdcVerif.Lemmas.T1LockStyles
/-!
  The T1 block encoder never index-panics for ANY style without LAZY (TERMALL and PTERM included): the state
  after `FlushToOutput` / `ErtermEnc` is described by `TermOk`, and `RestartInitEnc` re-establishes the encoder
  invariant `Mqc.RegOk` from it (the case `ct = 13` — previous byte 0xFF — is unreachable: both terminations leave
  a non-0xFF byte in front of the next segment).
-/
namespace T1
open Gen
open Mqc

/-- encoder state after a termination: `buf[1 .. bp)` is the finished stream, its last byte is not 0xFF -/
structure TermOk (e : Enc) : Prop where
  bp1 : 1 ≤ e.bp
  sz : e.bp ≤ e.buf.size
  bytes : ∀ i, rd e.buf i < 256
  marker : ∀ i, i + 1 < e.bp → rd e.buf i = 255 → rd e.buf (i + 1) ≤ 143
  last : rd e.buf (e.bp - 1) ≠ 255
  ctx : CtxOk e.ctx

theorem termOk_of_bufOk (e4 : Enc) (hb : BufOk e4.buf e4.bp) (h1 : 1 ≤ e4.bp) (hc : CtxOk e4.ctx) :
    TermOk (if rd e4.buf e4.bp ≠ 255 then { e4 with bp := e4.bp + 1 } else e4) := by
  have hin := hb.inb
  by_cases hff : rd e4.buf e4.bp ≠ 255
  · rw [if_pos hff]
    exact ⟨by show 1 ≤ e4.bp + 1; omega, by show e4.bp + 1 ≤ e4.buf.size; omega, hb.bytes,
      fun i hi h255 => hb.marker i (by have : i + 1 < e4.bp + 1 := hi; omega) h255,
      by show rd e4.buf (e4.bp + 1 - 1) ≠ 255; rw [Nat.add_sub_cancel]; exact hff, hc⟩
  · rw [if_neg hff]
    have hff' : rd e4.buf e4.bp = 255 := by
      rcases Nat.lt_trichotomy (rd e4.buf e4.bp) 255 with h' | h' | h'
      · exact absurd (by omega) hff
      · exact h'
      · exact absurd (by omega) hff
    refine ⟨h1, by omega, hb.bytes, fun i hi h255 => hb.marker i (by omega) h255, ?_, hc⟩
    intro h255
    have := hb.marker (e4.bp - 1) (by omega) h255
    rw [show e4.bp - 1 + 1 = e4.bp by omega, hff'] at this
    omega

/-- `FlushToOutput()` from any reachable encoder state ends in a `TermOk` state with the same contexts -/
theorem flushToOutput_state (e : Enc) (h : RegOk e) (hn : 0x8000 ≤ e.a) :
    ∃ ef, flushToOutput e = some ef ∧ TermOk ef ∧ ef.ctx = e.ctx := by
  have hah := h.ahi; have hcl := h.ctlo; have hch := h.cthi
  have hK := pow_pos2 e.ct.toNat
  have hcA := c_lt_of_A hK h.A
  have htemp : u32 (e.c + e.a) = e.c + e.a := by unfold u32; omega
  obtain ⟨c2, hc2def, hc2lt⟩ : ∃ c2, (if e.c / 65536 * 65536 + 0xFFFF ≥ e.c + e.a
      then sub32 (e.c / 65536 * 65536 + 0xFFFF) 0x8000 else e.c / 65536 * 65536 + 0xFFFF) = c2 ∧ c2 + 1 ≤ e.c + e.a := by
    refine ⟨_, rfl, ?_⟩
    split
    · rw [sub32_eq _ _ (by omega) (by omega)]; omega
    · omega
  have hmono : (c2 + 1) * 2 ^ e.ct.toNat ≤ (e.c + e.a) * 2 ^ e.ct.toNat := Nat.mul_le_mul_right _ hc2lt
  have hA1 : c2 * 2 ^ e.ct.toNat + 1 ≤ 150994944 := mul_succ_le hK (Nat.le_trans hmono h.A)
  have hshl : shl32 c2 e.ct.toNat = c2 * 2 ^ e.ct.toNat := by
    unfold shl32 u32; rw [if_neg (by omega)]; omega
  obtain ⟨e2, he2, hbuf2, hbp2, ha2, hctx2, hct2, hA2, hB2⟩ :=
    byteout_spec { e with c := c2 * 2 ^ e.ct.toNat } 1 h.buf (by omega) (by omega) hA1
      (by
        intro h1 h255
        have hb := h.B h1 h255
        have : c2 * 2 ^ e.ct.toNat + 1 ≤ (e.c + e.a) * 2 ^ e.ct.toNat := mul_succ_le hK hmono
        show rd e.buf e.bp * 134217728 + c2 * 2 ^ e.ct.toNat + 1 ≤ 19327352832
        exact Nat.le_trans (by rw [Nat.add_assoc]; exact Nat.add_le_add_left this _) hb)
  simp only [] at hbp2
  have hK2 := pow_pos2 e2.ct.toNat
  have hA3 : e2.c * 2 ^ e2.ct.toNat + 1 ≤ 150994944 := mul_succ_le hK2 hA2
  have hshl2 : shl32 e2.c e2.ct.toNat = e2.c * 2 ^ e2.ct.toNat := by
    unfold shl32 u32; rw [if_neg (by omega)]; omega
  obtain ⟨e4, he4, hbuf4, hbp4, ha4, hctx4, hct4, hA4, hB4⟩ :=
    byteout_spec { e2 with c := e2.c * 2 ^ e2.ct.toNat } 1 hbuf2 (by omega) (by omega) hA3
      (by
        intro h1 h255
        have hb := hB2 h255
        have : e2.c * 2 ^ e2.ct.toNat + 1 ≤ (e2.c + 1) * 2 ^ e2.ct.toNat := mul_succ_le hK2 (Nat.le_refl _)
        show rd e2.buf e2.bp * 134217728 + e2.c * 2 ^ e2.ct.toNat + 1 ≤ 19327352832
        exact Nat.le_trans (by rw [Nat.add_assoc]; exact Nat.add_le_add_left this _) hb)
  simp only [] at hbp4
  have hfl : flushToOutput e = some (if rd e4.buf e4.bp ≠ 255 then { e4 with bp := e4.bp + 1 } else e4) := by
    unfold flushToOutput
    simp only [htemp, hc2def, hshl, he2, hshl2, he4, rd_some e4.buf e4.bp hbuf4.inb]
  have hc4 : e4.ctx = e.ctx := by rw [hctx4]; exact hctx2
  refine ⟨_, hfl, termOk_of_bufOk e4 hbuf4 (by omega) (by rw [hc4]; exact h.ctx), ?_⟩
  split
  · exact hc4
  · exact hc4

/-- a byte-out without carry into a non-0xFF byte leaves that byte alone -/
theorem byteout_keep (e : Enc) (hb : BufOk e.buf e.bp) (hnf : rd e.buf e.bp ≠ 255) (hc : e.c < 134217728) :
    ∀ e', byteout e = some e' → rd e'.buf e.bp = rd e.buf e.bp := by
  intro e' he
  unfold byteout at he
  simp only [if_neg (show ¬ e.bp ≥ e.buf.size from by have := hb.inb; omega), rd_some e.buf e.bp hb.inb] at he
  rw [if_neg hnf, if_pos (by omega)] at he
  injection he with he
  rw [← he]
  simp only []
  rw [rd_set _ _ _ _ (size_ensure _ _).1, if_neg (by omega), rd_ensure]

/-- `RestartInitEnc()` after a termination re-establishes the encoder invariant (always with `ct = 12`) -/
theorem restart_ok (ef : Enc) (h : TermOk ef) :
    RegOk (restartInitEnc ef) ∧ 0x8000 ≤ (restartInitEnc ef).a ∧ (restartInitEnc ef).ctx = ef.ctx := by
  have hbp : (if ef.bp > start - 1 then ef.bp - 1 else ef.bp) = ef.bp - 1 := by
    rw [if_pos (by have := h.bp1; unfold start; omega)]
  have hin : ef.bp - 1 < ef.buf.size := by have := h.bp1; have := h.sz; omega
  have hnf : ef.buf[ef.bp - 1]? ≠ some 0xFF := by
    rw [rd_some _ _ hin]
    intro hh
    exact h.last (Option.some.inj hh)
  have hform : restartInitEnc ef = { ef with a := 0x8000, c := 0, ct := 12, bp := ef.bp - 1 } := by
    unfold restartInitEnc
    simp only [hbp, if_neg hnf]
  rw [hform]
  refine ⟨⟨⟨hin, h.bytes, fun i hi h255 => h.marker i (by have : i < ef.bp - 1 := hi; omega) h255⟩,
    by show (0 : Nat) < 32768; decide, by show (32768 : Nat) < 65536; decide, by show (1 : Int) ≤ 12; decide,
    by show (12 : Int) ≤ 13; decide, by show (0 + 32768) * 2 ^ (12 : Int).toNat ≤ 150994944; decide, ?_, h.ctx⟩,
    by show (32768 : Nat) ≤ 32768; decide, rfl⟩
  intro h1 h255
  have h1' : 1 ≤ ef.bp - 1 := h1
  have h255' : rd ef.buf (ef.bp - 1 - 1) = 255 := h255
  have hm := h.marker (ef.bp - 1 - 1) (by omega) h255'
  rw [show ef.bp - 1 - 1 + 1 = ef.bp - 1 by omega] at hm
  show rd ef.buf (ef.bp - 1) * 134217728 + (0 + 32768) * 2 ^ (12 : Int).toNat ≤ 19327352832
  have e1 : (0 + 32768) * 2 ^ (12 : Int).toNat = 134217728 := by decide
  rw [e1]
  have : rd ef.buf (ef.bp - 1) * 134217728 ≤ 143 * 134217728 := Nat.mul_le_mul_right _ hm
  exact Nat.le_trans (Nat.add_le_add_right this _) (by decide)

/-- a pending restart is the same as starting the iteration from the restarted coder -/
theorem encLoop_restart (w h orient style : Nat) (V : Array Int) (mb np f : Nat) (es : EncSt) (bp : Int) (pi pt : Nat)
    (hc : bp ≥ 0 ∧ pi < np) :
    encLoop w h orient style V mb np (f + 1) es bp pi pt true =
      encLoop w h orient style V mb np (f + 1) { es with mq := restartInitEnc es.mq } bp pi pt false := by
  conv => lhs; unfold encLoop
  conv => rhs; unfold encLoop
  simp only [if_true, Bool.false_eq_true, if_false]
  rw [if_pos hc, if_pos hc]
  by_cases hs : pt = 0 ∨ pt = 2 ∧ pi = 0
  · simp only [hs, if_true]
  · simp only [hs, if_false]

theorem passE_ok (w h orient : Nat) (V : Array Int) (bp pi pt : Nat) (es : EncSt) (hs : EncOk w h V es) :
    ∃ es2, passE w h orient V bp pt (cvE pi pt es) = some es2 ∧ EncOk w h V es2 := by
  have hs1 : EncOk w h V (cvE pi pt es) := by
    unfold cvE; split
    · exact ⟨by show (clearVisit es.flags).size = _; unfold clearVisit; rw [Array.size_map]; exact hs.fsz, hs.dsz, hs.reg, hs.norm, hs.nctx⟩
    · exact hs
  unfold passE
  split
  · exact encSigProp_ok w h orient bp V _ hs1
  · exact encMagRef_ok w h bp V _ hs1
  · exact encCleanup_ok w h orient bp V _ hs1

theorem segE_ok (w h : Nat) (V : Array Int) (style pt : Nat) (es : EncSt) (hs : EncOk w h V es) :
    ∃ es', segE style pt es = some es' ∧ EncOk w h V es' := by
  unfold segE
  split
  · obtain ⟨m, em, hm⟩ := segmarkEnc_ok w h V es hs
    rw [em]; exact ⟨_, rfl, hm⟩
  · exact ⟨es, rfl, hs⟩

theorem resetE_ok (w h : Nat) (V : Array Int) (style : Nat) (es : EncSt) (hs : EncOk w h V es) :
    ∃ es', resetE style es = some es' ∧ EncOk w h V es' := by
  unfold resetE
  split
  · obtain ⟨m, em, hm⟩ := resetInit_ok w h V es hs
    rw [em]; exact ⟨_, rfl, hm⟩
  · exact ⟨es, rfl, hs⟩

/-- state of the pass loop, with or without a pending restart -/
def EncOkT (w h : Nat) (V : Array Int) (st : EncSt) (prevT : Bool) : Prop :=
  st.flags.size = (w + 2) * (h + 2) ∧ V.size = (w + 2) * (h + 2) ∧ st.mq.ctx.size = 19 ∧
    (if prevT = true then TermOk st.mq else RegOk st.mq ∧ 0x8000 ≤ st.mq.a)

/-- the pass loop of `Encode` never index-panics for any style without LAZY in which TERMALL and PTERM are not
combined -/
theorem encLoop_ok_all (w h orient style : Nat) (V : Array Int) (mb np : Nat)
    (hL : Go.and (style : Int) J2kT1.CblkStyleLazy = 0)
    (hTP : Go.and (style : Int) J2kT1.CblkStyleTermAll ≠ 0 → styPterm style = false) :
    ∀ (fuel : Nat) (st : EncSt) (bp : Int) (pi pt : Nat) (prevT : Bool), pt ≤ 2 → EncOkT w h V st prevT →
      ∃ r, encLoop w h orient style V mb np fuel st bp pi pt prevT = some r ∧
        (r.2 = false → RegOk r.1.mq ∧ 0x8000 ≤ r.1.mq.a) := by
  intro fuel
  induction fuel with
  | zero =>
    intro st bp pi pt prevT _ hs
    refine ⟨_, rfl, ?_⟩
    intro hp
    have hp' : prevT = false := hp
    obtain ⟨_, _, _, h4⟩ := hs
    rw [hp'] at h4
    exact h4
  | succ f ih =>
    intro st bp pi pt prevT hpt hs
    by_cases hc : bp ≥ 0 ∧ pi < np
    · obtain ⟨n, rfl⟩ : ∃ n : Nat, bp = (n : Int) := ⟨bp.toNat, by omega⟩
      -- a pending restart first
      have key : ∀ (st : EncSt), EncOk w h V st →
          ∃ r, encLoop w h orient style V mb np (f + 1) st (n : Int) pi pt false = some r ∧
            (r.2 = false → RegOk r.1.mq ∧ 0x8000 ≤ r.1.mq.a) := by
        intro st hs
        rw [encLoop_step w h orient style V mb np f st n pi pt hpt hc.2]
        obtain ⟨st2, e2, hs2⟩ := passE_ok w h orient V n pi pt st hs
        rw [e2]; simp only [Option.bind_some]
        obtain ⟨st3, e3, hs3⟩ := segE_ok w h V style pt st2 hs2
        rw [e3]; simp only [Option.bind_some]
        cases ht : J2kT1.isTerminatingPass (n : Int) (mb : Int) (pt : Int) (style : Int) with
        | false =>
          simp only [Bool.false_eq_true, if_false, Option.bind_some]
          obtain ⟨st4, e4, hs4⟩ := resetE_ok w h V style st3 hs3
          rw [e4]; simp only [Option.bind_some]
          split
          · exact ih st4 _ _ _ false (by omega) ⟨hs4.fsz, hs4.dsz, hs4.nctx, by simp only [Bool.false_eq_true, if_false]; exact ⟨hs4.reg, hs4.norm⟩⟩
          · exact ih st4 _ _ _ false (by omega) ⟨hs4.fsz, hs4.dsz, hs4.nctx, by simp only [Bool.false_eq_true, if_false]; exact ⟨hs4.reg, hs4.norm⟩⟩
        | true =>
          simp only [if_true]
          by_cases hP : styPterm style = true
          · -- predictable termination: only without TERMALL, i.e. at the very last pass
            have hT : Go.and (style : Int) J2kT1.CblkStyleTermAll = 0 := by
              rcases Decidable.em (Go.and (style : Int) J2kT1.CblkStyleTermAll = 0) with h0 | h0
              · exact h0
              · have := hTP h0; rw [hP] at this; exact absurd this (by simp)
            have h20 := terminating_plain _ _ _ _ hT hL ht
            rw [if_pos hP]
            obtain ⟨m, em, hmc⟩ := ertermEnc_ok st3.mq hs3.reg
            rw [em]; simp only [Option.map_some, Option.bind_some]
            obtain ⟨st4, e4⟩ : ∃ st4, resetE style { flags := st3.flags, mq := m } = some st4 := by
              unfold resetE
              split
              · obtain ⟨m', em', _⟩ := resetInit_some m (by rw [hmc]; exact hs3.nctx)
                rw [em']; exact ⟨_, rfl⟩
              · exact ⟨_, rfl⟩
            rw [e4]; simp only [Option.bind_some]
            rw [if_pos (by omega), encLoop_exit _ _ _ _ _ _ _ _ _ _ _ _ _ (by omega)]
            exact ⟨_, rfl, fun hh => absurd hh (by simp)⟩
          · rw [if_neg hP]
            obtain ⟨ef, ef_eq, hterm, hctx⟩ := flushToOutput_state st3.mq hs3.reg hs3.norm
            rw [ef_eq]; simp only [Option.map_some, Option.bind_some]
            obtain ⟨st4, e4, hfl4, hterm4, hsz4⟩ : ∃ st4, resetE style { flags := st3.flags, mq := ef } = some st4 ∧
                st4.flags = st3.flags ∧ TermOk st4.mq ∧ st4.mq.ctx.size = 19 := by
              unfold resetE
              split
              · obtain ⟨m', em', hs', hb', hbp', _, _, _, hc'⟩ := resetInit_some ef (by rw [hctx]; exact hs3.nctx)
                rw [em']
                refine ⟨_, rfl, rfl, ⟨?_, ?_, ?_, ?_, ?_, hc'⟩, hs'⟩
                · show 1 ≤ m'.bp; rw [hbp']; exact hterm.bp1
                · show m'.bp ≤ m'.buf.size; rw [hbp', hb']; exact hterm.sz
                · show ∀ i, rd m'.buf i < 256; rw [hb']; exact hterm.bytes
                · show ∀ i, i + 1 < m'.bp → rd m'.buf i = 255 → rd m'.buf (i + 1) ≤ 143; rw [hb', hbp']; exact hterm.marker
                · show rd m'.buf (m'.bp - 1) ≠ 255; rw [hb', hbp']; exact hterm.last
              · exact ⟨_, rfl, rfl, hterm, by show ef.ctx.size = 19; rw [hctx]; exact hs3.nctx⟩
            rw [e4]; simp only [Option.bind_some]
            split
            · exact ih st4 _ _ _ true (by omega) ⟨by rw [hfl4]; exact hs3.fsz, hs3.dsz, hsz4, by simp only [if_true]; exact hterm4⟩
            · exact ih st4 _ _ _ true (by omega) ⟨by rw [hfl4]; exact hs3.fsz, hs3.dsz, hsz4, by simp only [if_true]; exact hterm4⟩
      cases prevT with
      | false =>
        obtain ⟨h1, h2, h3, h4⟩ := hs
        simp only [Bool.false_eq_true, if_false] at h4
        exact key st ⟨h1, h2, h4.1, h4.2, h3⟩
      | true =>
        obtain ⟨h1, h2, h3, h4⟩ := hs
        simp only [if_true] at h4
        rw [encLoop_restart w h orient style V mb np f st n pi pt hc]
        obtain ⟨hr, hn, hcx⟩ := restart_ok st.mq h4
        exact key _ ⟨h1, h2, hr, hn, by show (restartInitEnc st.mq).ctx.size = 19; rw [hcx]; exact h3⟩
    · refine ⟨(st, prevT), by unfold encLoop; rw [if_neg hc], ?_⟩
      intro hp
      have hp' : prevT = false := hp
      obtain ⟨_, _, _, h4⟩ := hs
      rw [hp'] at h4
      exact h4

/-- **the block encoder never index-panics** for every style without LAZY in which TERMALL and PTERM are not combined
(28 of the 32 styles without LAZY) -/
theorem encodeBlock_no_panic_all (w h orient style : Nat) (coeffs : List Int) (np : Nat) (hlen : coeffs.length = w * h)
    (hL : Go.and (style : Int) J2kT1.CblkStyleLazy = 0)
    (hTP : Go.and (style : Int) J2kT1.CblkStyleTermAll ≠ 0 → styPterm style = false) :
    ∃ bytes, encodeBlock w h orient style coeffs np = .ok bytes := by
  unfold encodeBlock
  rw [if_neg (by rw [hlen]; exact fun hc => hc rfl)]
  simp only []
  split
  · obtain ⟨h0, n0, _⟩ := Mqc.new_ok NUMCONTEXTS
    obtain ⟨e', bytes, hf, _⟩ := Mqc.flush_spec _ h0 n0
    rw [hf]; exact ⟨_, rfl⟩
  · rename_i mb _
    obtain ⟨e, he, hr, hn, hsz⟩ := initCtx_ok
    rw [he]; simp only []
    obtain ⟨r, er, hr2⟩ := encLoop_ok_all w h orient style (padBlock w h coeffs) mb np hL hTP (np + 1)
      { flags := Array.replicate ((w + 2) * (h + 2)) 0, mq := e } mb 0 2 false (by omega)
      ⟨by simp, padBlock_size w h coeffs, hsz, by simp only [Bool.false_eq_true, if_false]; exact ⟨hr, hn⟩⟩
    rw [er]
    obtain ⟨st, t⟩ := r
    simp only []
    cases t with
    | true => exact ⟨_, rfl⟩
    | false =>
      simp only [Bool.false_eq_true, if_false]
      obtain ⟨hreg, hnorm⟩ := hr2 rfl
      obtain ⟨e', bytes, hf, _⟩ := Mqc.flush_spec _ hreg hnorm
      rw [hf]; exact ⟨_, rfl⟩
end T1
