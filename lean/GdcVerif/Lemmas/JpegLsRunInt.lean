import GdcVerif.Lemmas.JpegLsRun
import GdcVerif.Lemmas.JpegLs
import GdcVerif.Lemmas.JpegLsNear
/-!
  Run-interruption sample: `DecodeRunInterruption` inverts `EncodeRunInterruption`
  (same error value, same successor context, rest of the bits untouched) for both
  run-interruption contexts.
-/
namespace JpegLsRun
open Gen.JpegLs Golomb

theorem golombLoop_ge : ∀ (f : Nat) (n temp k : Int), k ≤ golombLoop f n temp k
  | 0, _, _, k => by simp [golombLoop]
  | f + 1, n, temp, k => by
    unfold golombLoop
    split
    · simp only []
      split
      · omega
      · have := golombLoop_ge f (n * 2) temp (k + 1); omega
    · omega

theorem getGolombCode_nonneg (ctx : RunModeContext) : 0 ≤ getGolombCode ctx := golombLoop_ge _ _ _ 0

/-- the decoder's sign/magnitude recovery inverts the encoder's map-bit rule (T.87 A.7.2) -/
theorem computeErrorValue_inv (ctx : RunModeContext) (e k : Int) :
    RunModeContext.ComputeErrorValue ctx
      ((if RunModeContext.ComputeMap ctx e k then 2 * Go.abs e - ctx.runInterruptionType - 1
        else 2 * Go.abs e - ctx.runInterruptionType) + ctx.runInterruptionType) k = e := by
  have ha : 0 ≤ Go.abs e := by unfold Go.abs; split <;> omega
  have key : ∀ (mp : Bool) (a r : Int), 0 ≤ a →
      ((if mp then 2 * a - r - 1 else 2 * a - r) + r) % 2 = (if mp then 1 else 0) ∧
      Int.tdiv ((if mp then 2 * a - r - 1 else 2 * a - r) + r + (if mp then 1 else 0)) 2 = a := by
    intro mp a r h0
    cases mp
    · simp only [Bool.false_eq_true, if_false]
      refine ⟨by omega, ?_⟩
      rw [JpegLsLemmas.tdiv_nonneg_eq (by omega)]; omega
    · simp only [if_true]
      refine ⟨by omega, ?_⟩
      rw [JpegLsLemmas.tdiv_nonneg_eq (by omega)]; omega
  obtain ⟨k1, k2⟩ := key (RunModeContext.ComputeMap ctx e k) (Go.abs e) ctx.runInterruptionType ha
  unfold RunModeContext.ComputeErrorValue
  simp only [Go.and_one]
  rw [k1, k2]
  -- now only the sign decision is left
  unfold RunModeContext.ComputeMap Go.abs
  by_cases hk : k = 0 <;> by_cases hn : 2 * ctx.NN < ctx.N <;> by_cases hpos : e > 0 <;> by_cases hneg : e < 0
  all_goals (try omega)
  all_goals
    have hge : (2 * ctx.NN ≥ ctx.N) = ¬ (2 * ctx.NN < ctx.N) := by simp
    simp [hk, hn, hpos, hneg, hge]
  all_goals (try omega)

theorem computeMap_ne (ctx : RunModeContext) (e k : Int) (h : RunModeContext.ComputeMap ctx e k = true) : e ≠ 0 := by
  unfold RunModeContext.ComputeMap at h
  intro h0; subst h0
  simp at h

/-- `DecodeRunInterruption` inverts `EncodeRunInterruption`: same error value, same successor
    context, following bits untouched — for either run-interruption context, any RUNindex -/
theorem run_interruption_roundtrip' (t : Traits) (idx : Int) (ctx : RunModeContext) (e : Int) (rest : List Bool)
    (hidx : 0 ≤ idx ∧ idx ≤ 31) (hq : 1 ≤ t.Qbpp ∧ t.Qbpp ≤ 16)
    (hl : t.Qbpp + 1 < t.Limit - Jv idx.toNat - 1 ∧ t.Limit - Jv idx.toNat - 1 ≤ 64)
    (hk : getGolombCode ctx ≤ 31)
    (hrit : ctx.runInterruptionType = 0 ∨ ctx.runInterruptionType = 1)
    (he0 : ctx.runInterruptionType = 1 → e ≠ 0)
    (hmag : 2 * Go.abs e ≤ 2 ^ t.Qbpp.toNat) :
    ∃ ws ctx', encodeRunInterruption t idx ctx e = .ok (ws, ctx') ∧
      decodeRunInterruption t idx ctx (writesBits ws ++ rest) = .ok (e, ctx', rest) := by
  have hJ := J?_eq idx hidx
  have ha : 0 ≤ Go.abs e := by unfold Go.abs; split <;> omega
  have ha0 : e ≠ 0 → 1 ≤ Go.abs e := by intro h; unfold Go.abs; split <;> omega
  generalize hm : (if RunModeContext.ComputeMap ctx e (getGolombCode ctx) then
      2 * Go.abs e - ctx.runInterruptionType - 1 else 2 * Go.abs e - ctx.runInterruptionType) = m
  have hm0 : 0 ≤ m ∧ m - 1 < 2 ^ t.Qbpp.toNat := by
    rw [← hm]
    by_cases hmap : RunModeContext.ComputeMap ctx e (getGolombCode ctx) = true
    · have := ha0 (computeMap_ne ctx e _ hmap)
      simp only [hmap, if_true]
      rcases hrit with h | h <;> rw [h] <;> omega
    · simp only [hmap, Bool.false_eq_true, if_false]
      rcases hrit with h | h
      · rw [h]; omega
      · have := ha0 (he0 h); rw [h]; omega
  have hcode := code_roundtrip (getGolombCode ctx) m (t.Limit - Jv idx.toNat - 1) t.Qbpp rest
    ⟨getGolombCode_nonneg ctx, hk⟩ hq hl hm0 (by
      intro hge
      rw [shr_eq' m _ (getGolombCode_nonneg ctx)] at hge
      by_cases h1 : 1 ≤ m
      · exact h1
      · have : m = 0 := by omega
        subst this; simp at hge; omega)
  have hinv := computeErrorValue_inv ctx e (getGolombCode ctx)
  rw [hm] at hinv
  have henc : encodeRunInterruption t idx ctx e = .ok (encodeWrites (getGolombCode ctx) m (t.Limit - Jv idx.toNat - 1) t.Qbpp,
      RunModeContext.UpdateVariables ctx e m t.Reset) := by
    unfold encodeRunInterruption
    simp only [hJ, bind, Except.bind]
    rw [← hm]
  refine ⟨_, _, henc, ?_⟩
  unfold decodeRunInterruption
  simp only [hJ, bind, Except.bind, hcode, hinv]

end JpegLsRun

namespace JpegLsRun
open Gen.JpegLs Golomb JpegLsNear

/-- for every admissible (P, NEAR) and every RUNindex the run-interruption limit
    `LIMIT − J[RUNindex] − 1` leaves room for the escape code -/
theorem run_limit_ok (P : Nat) (N : Int) (h : Admissible P N) (idx : Int) (hidx : 0 ≤ idx ∧ idx ≤ 31) :
    (1 ≤ (traits P N).Qbpp ∧ (traits P N).Qbpp ≤ 16) ∧
    ((traits P N).Qbpp + 1 < (traits P N).Limit - Jv idx.toNat - 1 ∧ (traits P N).Limit - Jv idx.toNat - 1 ≤ 64) := by
  obtain ⟨_, _, _, _, ⟨q, hQ, hq1, hqP, _, _⟩, _, hL, _, _⟩ := near_params_wf P N h
  have hj := Jv_range idx.toNat (by omega)
  have hP := h.1
  rw [hQ, hL]
  omega

/-- run-interruption round trip for the parameter objects the codecs build: every admissible
    (P, NEAR), RUNindex, either context, every error value of the modulo range -/
theorem run_interruption_roundtrip_traits (P : Nat) (N : Int) (h : Admissible P N) (idx : Int)
    (ctx : RunModeContext) (e : Int) (rest : List Bool) (hidx : 0 ≤ idx ∧ idx ≤ 31)
    (hk : getGolombCode ctx ≤ 31)
    (hrit : ctx.runInterruptionType = 0 ∨ ctx.runInterruptionType = 1)
    (he0 : ctx.runInterruptionType = 1 → e ≠ 0)
    (he : ((traits P N).Range + 1) / 2 - (traits P N).Range ≤ e ∧ e < ((traits P N).Range + 1) / 2) :
    ∃ ws ctx', encodeRunInterruption (traits P N) idx ctx e = .ok (ws, ctx') ∧
      decodeRunInterruption (traits P N) idx ctx (writesBits ws ++ rest) = .ok (e, ctx', rest) := by
  obtain ⟨hq, hl⟩ := run_limit_ok P N h idx hidx
  obtain ⟨_, _, _, _, ⟨q, hQ, _, _, _, hq4⟩, _⟩ := near_params_wf P N h
  refine run_interruption_roundtrip' (traits P N) idx ctx e rest hidx hq hl hk hrit he0 ?_
  have : (2 : Int) ^ (traits P N).Qbpp.toNat = 2 ^ q := by rw [hQ]; simp
  rw [this]
  unfold Go.abs
  split <;> omega

end JpegLsRun
