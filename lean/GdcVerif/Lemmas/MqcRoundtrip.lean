import GdcVerif.Lemmas.MqcDec
/-!
  MQ coder: `decode (encode ds) = ds` for the code-shaped encoder and decoder of `Model/Mqc.lean`.

  Fix the FINAL byte buffer `B` of an encoder run (`B i = 0xFF` beyond the last emitted byte `last`: the two
  sentinel bytes and the 0xFF00 feeds of the decoder).  Byte `j` is `wd j` bits wide: 7 if it follows a 0xFF
  inside the real stream (bit stuffing: its top bit is the carry slot), else 8.  For an encoder state with
  current byte `bp` let `R n` be the exact value of the not-yet-final suffix `B[bp+1 .. bp+n]` plus the carry
  `δ = B bp − buf[bp] ∈ {0,1}` that will still reach the current byte (units: LSB of byte `bp+n`).

  Encoder facts (`FA`, proved BACKWARDS from the end of the run): for every `n ≥ 1`
      c·2^ct·2^(Wd n) < (R n + 1)·2^27          (lower: the low end is below the next representable value)
      R n·2^27 < (c + a)·2^ct·2^(Wd n)          (upper: the stream stays below the upper end)
  Decoder relation (`Rel`, proved FORWARDS in lock-step): with the decoder having consumed `n` bytes more
  than the encoder has emitted and `Wd n = 27 − ct_e + ct_d`,
      R n · 2^16 = c_e · 2^(16+ct_d) + c_d · 2^ct_d        (an exact equation, no inequality on Chigh)
  The decision test `c_d < Qe·2^16` then follows from the facts at the encoder's post-decision state.
-/
set_option linter.unusedVariables false
namespace Mqc
open Gen.J2kMqc

/-! ### the final stream as a weighted digit string -/

/-- width in bits of byte `j ≥ 1` of the final buffer `B` whose last emitted byte is `last` -/
def wd (B : Nat → Nat) (last j : Nat) : Nat := if B (j - 1) = 255 ∧ j ≤ last then 7 else 8

/-- total width of bytes `b+1 .. b+n` -/
def Wd (B : Nat → Nat) (last b : Nat) : Nat → Nat
  | 0 => 0
  | n + 1 => Wd B last b n + wd B last (b + n + 1)

/-- value of bytes `b+1 .. b+n` in units of the last one's LSB -/
def Seg (B : Nat → Nat) (last b : Nat) : Nat → Nat
  | 0 => 0
  | n + 1 => Seg B last b n * 2 ^ wd B last (b + n + 1) + B (b + n + 1)

theorem Wd_front (B : Nat → Nat) (last b : Nat) : ∀ n, Wd B last b (n + 1) = wd B last (b + 1) + Wd B last (b + 1) n := by
  intro n
  induction n with
  | zero => simp [Wd]
  | succ n ih =>
    rw [Wd, ih, Wd]
    have : b + (n + 1) + 1 = b + 1 + n + 1 := by omega
    rw [this]; omega

theorem Seg_front (B : Nat → Nat) (last b : Nat) :
    ∀ n, Seg B last b (n + 1) = B (b + 1) * 2 ^ Wd B last (b + 1) n + Seg B last (b + 1) n := by
  intro n
  induction n with
  | zero => simp [Seg, Wd]
  | succ n ih =>
    rw [Seg, ih, Seg, Wd]
    have e : b + (n + 1) + 1 = b + 1 + n + 1 := by omega
    rw [e, Nat.add_mul, Nat.mul_assoc, ← Nat.pow_add]
    omega

/-- suffix value including the carry `δ` still to reach byte `b` -/
def Rv (B : Nat → Nat) (last δ b n : Nat) : Nat := δ * 2 ^ Wd B last b n + Seg B last b n

theorem Rv_front (B : Nat → Nat) (last δ b n : Nat) :
    Rv B last δ b (n + 1) = Rv B last (δ * 2 ^ wd B last (b + 1) + B (b + 1)) (b + 1) n := by
  unfold Rv
  rw [Wd_front, Seg_front, Nat.pow_add, Nat.add_mul, Nat.mul_assoc, Nat.add_assoc]

/-- lower fact: the scaled low end `q` (units 2^-27 of byte `b`'s LSB) is below the next value after the suffix -/
def Lo (B : Nat → Nat) (last q δ b n : Nat) : Prop := q * 2 ^ Wd B last b n < (Rv B last δ b n + 1) * 134217728
/-- upper fact: the suffix value is below the scaled upper end `u` -/
def Up (B : Nat → Nat) (last u δ b n : Nat) : Prop := Rv B last δ b n * 134217728 < u * 2 ^ Wd B last b n

theorem Lo_front (B : Nat → Nat) (last q δ b n : Nat) :
    Lo B last q δ b (n + 1) ↔ Lo B last (q * 2 ^ wd B last (b + 1)) (δ * 2 ^ wd B last (b + 1) + B (b + 1)) (b + 1) n := by
  unfold Lo
  rw [Rv_front, Wd_front, Nat.pow_add, Nat.mul_assoc]

theorem Up_front (B : Nat → Nat) (last u δ b n : Nat) :
    Up B last u δ b (n + 1) ↔ Up B last (u * 2 ^ wd B last (b + 1)) (δ * 2 ^ wd B last (b + 1) + B (b + 1)) (b + 1) n := by
  unfold Up
  rw [Rv_front, Wd_front, Nat.pow_add, Nat.mul_assoc]

theorem Rv_add (B : Nat → Nat) (last A δ b n : Nat) :
    Rv B last (A + δ) b n = A * 2 ^ Wd B last b n + Rv B last δ b n := by
  unfold Rv; rw [Nat.add_mul, Nat.add_assoc]

/-- a common leading part `A` cancels -/
theorem Lo_cancel (B : Nat → Nat) (last A q δ b n : Nat) :
    Lo B last (A * 134217728 + q) (A + δ) b n ↔ Lo B last q δ b n := by
  unfold Lo
  rw [Rv_add, Nat.add_mul, Nat.add_assoc (A * 2 ^ Wd B last b n), Nat.add_mul (A * 2 ^ Wd B last b n)]
  have e : A * 134217728 * 2 ^ Wd B last b n = A * 2 ^ Wd B last b n * 134217728 := by
    rw [Nat.mul_assoc, Nat.mul_comm 134217728, ← Nat.mul_assoc]
  rw [e]
  omega

theorem Up_cancel (B : Nat → Nat) (last A u δ b n : Nat) :
    Up B last (A * 134217728 + u) (A + δ) b n ↔ Up B last u δ b n := by
  unfold Up
  rw [Rv_add, Nat.add_mul, Nat.add_mul (A * 134217728)]
  have e : A * 134217728 * 2 ^ Wd B last b n = A * 2 ^ Wd B last b n * 134217728 := by
    rw [Nat.mul_assoc, Nat.mul_comm 134217728, ← Nat.mul_assoc]
  rw [e]
  omega

/-! ### encoder facts w.r.t. the final buffer, proved backwards -/

/-- facts about an encoder state `(buf, bp)` with scaled low end `q = c·2^ct` and upper end `u = (c+a)·2^ct`
relative to the final buffer `B` -/
structure FA (B : Nat → Nat) (last : Nat) (buf : Array Nat) (bp q u : Nat) : Prop where
  le : bp ≤ last
  stable : ∀ j, j < bp → rd buf j = B j
  cur : B bp = rd buf bp ∨ B bp = rd buf bp + 1
  lo : ∀ n, Lo B last q (B bp - rd buf bp) bp (n + 1)
  up : ∀ n, Up B last u (B bp - rd buf bp) bp n

/-- one emitted byte, backwards: `c = δ·2^27 + nb·2^(27-w) + c1` splits into the carry `δ` into the current
byte, the new byte `nb` of width `w`, and the remainder `c1` -/
theorem FA_back (B : Nat → Nat) (last : Nat) (buf buf1 : Array Nat) (bp c c1 x w W nb δ : Nat)
    (hw : wd B last (bp + 1) = w) (hW : 2 ^ w = W)
    (hM : c * W = (δ * W + nb) * 134217728 + c1 * W)
    (hc1 : c1 * W < 134217728)
    (hδ : δ * 134217728 < c + x)
    (h1 : rd buf1 (bp + 1) = nb) (h2 : rd buf1 bp = rd buf bp + δ) (hδ1 : δ ≤ 1)
    (h3 : ∀ j, j < bp → rd buf1 j = rd buf j)
    (hf : FA B last buf1 (bp + 1) (c1 * W) ((c1 + x) * W)) :
    FA B last buf bp c (c + x) := by
  have hBbp : B bp = rd buf bp + δ := by rw [← hf.stable bp (by omega), h2]
  have hδe : B bp - rd buf bp = δ := by omega
  have hB1 : B (bp + 1) = nb + (B (bp + 1) - rd buf1 (bp + 1)) := by
    rcases hf.cur with h | h <;> rw [h1] at h ⊢ <;> omega
  refine ⟨by have := hf.le; omega, ?_, ?_, ?_, ?_⟩
  · intro j hj; rw [← h3 j hj]; exact hf.stable j (by omega)
  · rcases Nat.eq_zero_or_pos δ with h0 | h0
    · left; omega
    · right; omega
  · intro n
    rw [hδe, Lo_front, hw, hW, hM, hB1, ← Nat.add_assoc, Lo_cancel]
    cases n with
    | zero =>
      unfold Lo Rv Wd Seg
      have : B (bp + 1) - rd buf1 (bp + 1) ≤ 1 := by rcases hf.cur with h | h <;> omega
      simp only [Nat.pow_zero, Nat.mul_one, Nat.add_zero]
      omega
    | succ m => exact hf.lo m
  · intro n
    rw [hδe]
    cases n with
    | zero =>
      unfold Up Rv Wd Seg
      simp only [Nat.pow_zero, Nat.mul_one, Nat.add_zero]
      exact hδ
    | succ m =>
      rw [Up_front, hw, hW, hB1, ← Nat.add_assoc]
      have e : (c + x) * W = (δ * W + nb) * 134217728 + (c1 + x) * W := by
        rw [Nat.add_mul, hM, Nat.add_mul c1 x, Nat.add_assoc]
      rw [e, Up_cancel]
      exact hf.up m

theorem wd_ff (B : Nat → Nat) (last b : Nat) (h : B b = 255) (hl : b + 1 ≤ last) : wd B last (b + 1) = 7 := by
  unfold wd; rw [Nat.add_sub_cancel, if_pos ⟨h, hl⟩]
theorem wd_nff (B : Nat → Nat) (last b : Nat) (h : B b ≠ 255) : wd B last (b + 1) = 8 := by
  unfold wd; rw [Nat.add_sub_cancel, if_neg (fun hh => h hh.1)]

theorem split7 (c : Nat) : c * 128 = (0 * 128 + c / 2 ^ 20) * 134217728 + c % 2 ^ 20 * 128 ∧ c % 2 ^ 20 * 128 < 134217728 := by omega
theorem split8 (c : Nat) : c * 256 = (0 * 256 + c / 2 ^ 19) * 134217728 + c % 2 ^ 19 * 256 ∧ c % 2 ^ 19 * 256 < 134217728 := by omega
theorem split7c (c : Nat) (h1 : 134217728 ≤ c) (h2 : c < 268435456) :
    c * 128 = (1 * 128 + c % 2 ^ 27 / 2 ^ 20) * 134217728 + c % 2 ^ 27 % 2 ^ 20 * 128 ∧
    c % 2 ^ 27 % 2 ^ 20 * 128 < 134217728 := by omega
theorem split8c (c : Nat) (h1 : 134217728 ≤ c) (h2 : c < 268435456) :
    c * 256 = (1 * 256 + c / 2 ^ 19 % 256) * 134217728 + c % 2 ^ 19 * 256 ∧ c % 2 ^ 19 * 256 < 134217728 := by omega

/-- `byteout()` backwards: facts at the state after the emitted byte give the facts before it
(`x` = width of the interval at the current scale, as in `byteout_spec`) -/
theorem byteout_back (B : Nat → Nat) (last : Nat) (e : Enc) (x : Nat) (hb : BufOk e.buf e.bp) (hx1 : 1 ≤ x)
    (hA : e.c + x ≤ 150994944)
    (hB : 1 ≤ e.bp → rd e.buf (e.bp - 1) = 255 → rd e.buf e.bp * 134217728 + e.c + x ≤ 19327352832) :
    ∀ e1, byteout e = some e1 →
      FA B last e1.buf e1.bp (e1.c * 2 ^ e1.ct.toNat) ((e1.c + x) * 2 ^ e1.ct.toNat) →
      FA B last e.buf e.bp e.c (e.c + x) := by
  have hb256 := hb.bytes e.bp
  have h128 : (2 : Nat) ^ 7 = 128 := by decide
  have h256 : (2 : Nat) ^ 8 = 256 := by decide
  intro e1 he1 hf
  unfold byteout at he1
  simp only [if_neg (show ¬ e.bp ≥ e.buf.size from by have := hb.inb; omega), rd_some e.buf e.bp hb.inb] at he1
  by_cases hff : rd e.buf e.bp = 255
  · rw [if_pos hff] at he1
    injection he1 with he1; subst he1
    have hnb : u8 (e.c / 2 ^ 20) = e.c / 2 ^ 20 := by unfold u8; omega
    obtain ⟨hok, hlast, hpre⟩ := push_ok e.buf e.bp (u8 (e.c / 2 ^ 20)) hb (by unfold u8; omega)
      (by intro _; rw [hnb]; omega)
    simp only [pow7] at hf
    have hBbp : B e.bp = 255 := by rw [← hf.stable e.bp (by show e.bp < e.bp + 1; omega), hpre e.bp (Nat.le_refl _), hff]
    exact FA_back B last e.buf _ e.bp e.c (e.c % 2 ^ 20) x 7 128 (e.c / 2 ^ 20) 0 (wd_ff B last e.bp hBbp hf.le) h128
      (split7 e.c).1 (split7 e.c).2 (by rw [Nat.zero_mul]; exact Nat.lt_of_lt_of_le hx1 (Nat.le_add_left _ _))
      (by rw [hlast, hnb]) (by rw [hpre e.bp (Nat.le_refl _)]; rfl) (by omega) (fun j hj => hpre j (by omega)) hf
  · rw [if_neg hff] at he1
    by_cases hc : e.c / 2 ^ 27 % 2 = 0
    · rw [if_pos hc] at he1
      injection he1 with he1; subst he1
      have hnb : u8 (e.c / 2 ^ 19) = e.c / 2 ^ 19 := by unfold u8; omega
      obtain ⟨hok, hlast, hpre⟩ := push_ok e.buf e.bp (u8 (e.c / 2 ^ 19)) hb (by unfold u8; omega)
        (by intro h; exact absurd h hff)
      simp only [pow8] at hf
      have hBbp : B e.bp ≠ 255 := by rw [← hf.stable e.bp (by show e.bp < e.bp + 1; omega), hpre e.bp (Nat.le_refl _)]; exact hff
      exact FA_back B last e.buf _ e.bp e.c (e.c % 2 ^ 19) x 8 256 (e.c / 2 ^ 19) 0 (wd_nff B last e.bp hBbp) h256
        (split8 e.c).1 (split8 e.c).2 (by rw [Nat.zero_mul]; exact Nat.lt_of_lt_of_le hx1 (Nat.le_add_left _ _))
        (by rw [hlast, hnb]) (by rw [hpre e.bp (Nat.le_refl _)]; rfl) (by omega) (fun j hj => hpre j (by omega)) hf
    · rw [if_neg hc] at he1
      have hb1 : u8 (rd e.buf e.bp + 1) = rd e.buf e.bp + 1 := by unfold u8; omega
      obtain ⟨hok1, hcur1, hpre1⟩ := inc_ok e.buf e.bp (u8 (rd e.buf e.bp + 1)) hb (by unfold u8; omega)
        (by intro h1 h255; have := hB h1 h255; rw [hb1]; omega)
      by_cases hff1 : u8 (rd e.buf e.bp + 1) = 255
      · rw [if_pos hff1] at he1
        injection he1 with he1; subst he1
        have hnb : u8 (e.c % 2 ^ 27 / 2 ^ 20) = e.c % 2 ^ 27 / 2 ^ 20 := by unfold u8; omega
        obtain ⟨hok, hlast, hpre⟩ := push_ok _ e.bp (u8 (e.c % 2 ^ 27 / 2 ^ 20)) hok1 (by unfold u8; omega)
          (by intro _; rw [hnb]; omega)
        simp only [pow7] at hf
        have hBbp : B e.bp = 255 := by
          rw [← hf.stable e.bp (by show e.bp < e.bp + 1; omega), hpre e.bp (Nat.le_refl _), hcur1, hff1]
        have hc27 : 134217728 ≤ e.c ∧ e.c < 268435456 := by clear hB; omega
        exact FA_back B last e.buf _ e.bp e.c (e.c % 2 ^ 27 % 2 ^ 20) x 7 128 (e.c % 2 ^ 27 / 2 ^ 20) 1
          (wd_ff B last e.bp hBbp hf.le) h128
          (split7c e.c hc27.1 hc27.2).1 (split7c e.c hc27.1 hc27.2).2 (by clear hB; omega) (by rw [hlast, hnb])
          (by rw [hpre e.bp (Nat.le_refl _), hcur1, hb1])
          (by omega) (fun j hj => by rw [hpre j (by omega), hpre1 j hj]) hf
      · rw [if_neg hff1] at he1
        injection he1 with he1; subst he1
        obtain ⟨hok, hlast, hpre⟩ := push_ok _ e.bp (u8 (e.c / 2 ^ 19)) hok1 (by unfold u8; omega)
          (by intro h; rw [hcur1] at h; exact absurd h hff1)
        simp only [pow8] at hf
        have hBbp : B e.bp ≠ 255 := by
          rw [← hf.stable e.bp (by show e.bp < e.bp + 1; omega), hpre e.bp (Nat.le_refl _), hcur1]; exact hff1
        have hc27 : 134217728 ≤ e.c ∧ e.c < 268435456 := by clear hB; omega
        exact FA_back B last e.buf _ e.bp e.c (e.c % 2 ^ 19) x 8 256 (e.c / 2 ^ 19 % 256) 1
          (wd_nff B last e.bp hBbp) h256
          (split8c e.c hc27.1 hc27.2).1 (split8c e.c hc27.1 hc27.2).2 (by clear hB; omega) (by rw [hlast]; rfl)
          (by rw [hpre e.bp (Nat.le_refl _), hcur1, hb1])
          (by omega) (fun j hj => by rw [hpre j (by omega), hpre1 j hj]) hf

/-- the facts for an encoder state -/
def FE (B : Nat → Nat) (last : Nat) (e : Enc) : Prop :=
  FA B last e.buf e.bp (e.c * 2 ^ e.ct.toNat) ((e.c + e.a) * 2 ^ e.ct.toNat)

theorem FA_mono (B : Nat → Nat) (last : Nat) (buf : Array Nat) (bp q u q' u' : Nat) (hq : q' ≤ q) (hu : u ≤ u')
    (h : FA B last buf bp q u) : FA B last buf bp q' u' := by
  refine ⟨h.le, h.stable, h.cur, ?_, ?_⟩
  · intro n
    have := h.lo n
    unfold Lo at this ⊢
    exact Nat.lt_of_le_of_lt (Nat.mul_le_mul_right _ hq) this
  · intro n
    have := h.up n
    unfold Up at this ⊢
    exact Nat.lt_of_lt_of_le this (Nat.mul_le_mul_right _ hu)

/-- `renorme()` backwards -/
theorem renormeLoop_back (B : Nat → Nat) (last : Nat) : ∀ (fuel : Nat) (e e' : Enc), RegOk e →
    renormeLoop fuel e = some e' → FE B last e' → FE B last e := by
  intro fuel
  induction fuel with
  | zero =>
    intro e e' h he hf
    rw [renormeLoop] at he
    split at he
    · exact absurd he (by simp)
    · injection he with he; subst he; exact hf
  | succ fuel ih =>
    intro e e' h he hf
    have hap := h.apos; have hah := h.ahi; have hcl := h.ctlo; have hch := h.cthi
    rw [renormeLoop] at he
    by_cases hlt : e.a < 0x8000
    · rw [if_pos hlt] at he
      have hcA := c_lt_of_A (pow_pos2 _) h.A
      have ha2 : u32 (e.a * 2) = e.a * 2 := by unfold u32; omega
      have hc2 : u32 (e.c * 2) = e.c * 2 := by unfold u32; omega
      have hA1 : (e.c * 2 + e.a * 2) * 2 ^ (e.ct - 1).toNat ≤ 150994944 := by
        rw [scale_step _ _ _ h.ctlo]; exact h.A
      simp only [ha2, hc2] at he
      -- the shifted state carries the same scaled numbers
      have hsame : ∀ (f1 : FA B last e.buf e.bp (e.c * 2 * 2 ^ (e.ct - 1).toNat) ((e.c * 2 + e.a * 2) * 2 ^ (e.ct - 1).toNat)),
          FE B last e := by
        intro f1
        unfold FE
        have h1 : e.ct.toNat = (e.ct - 1).toNat + 1 := by omega
        have e1 : e.c * 2 ^ e.ct.toNat = e.c * 2 * 2 ^ (e.ct - 1).toNat := by
          rw [h1, Nat.pow_succ, Nat.mul_assoc, Nat.mul_comm 2]
        have e2 : (e.c + e.a) * 2 ^ e.ct.toNat = (e.c * 2 + e.a * 2) * 2 ^ (e.ct - 1).toNat := by
          rw [scale_step _ _ _ h.ctlo]
        rw [e1, e2]; exact f1
      by_cases hz : e.ct - 1 = 0
      · rw [if_pos hz] at he
        have hA0 : e.c * 2 + e.a * 2 ≤ 150994944 := by
          rw [hz, show (2:Nat) ^ (0:Int).toNat = 1 from rfl, Nat.mul_one] at hA1; exact hA1
        have hB0 : 1 ≤ e.bp → rd e.buf (e.bp - 1) = 255 →
            rd e.buf e.bp * 134217728 + e.c * 2 + e.a * 2 ≤ 19327352832 := by
          intro h1 h255
          have := h.B h1 h255
          rw [← scale_step _ _ _ h.ctlo, hz, show (2:Nat) ^ (0:Int).toNat = 1 from rfl, Nat.mul_one] at this
          rw [Nat.add_assoc]; exact this
        obtain ⟨e2, he2, hbuf2, hbp2, ha2', hctx2, hct2, hA2, hB2⟩ :=
          byteout_spec { e with a := e.a * 2, c := e.c * 2, ct := e.ct - 1 } (e.a * 2) h.buf
            (by omega) (by omega) hA0 hB0
        rw [he2] at he
        simp only [] at hbp2 ha2' hctx2 he
        have hr2 : RegOk e2 := by
          refine ⟨hbuf2, by omega, by omega, by omega, by omega, ?_, ?_, ?_⟩
          · rw [ha2']; exact hA2
          · intro _ h255; rw [ha2']; exact hB2 h255
          · rw [hctx2]; exact h.ctx
        have hf2 : FE B last e2 := ih e2 e' hr2 he hf
        unfold FE at hf2
        rw [ha2'] at hf2
        have hb1 := byteout_back B last { e with a := e.a * 2, c := e.c * 2, ct := e.ct - 1 } (e.a * 2) h.buf
          (by omega) hA0 hB0 e2 he2 hf2
        apply hsame
        simp only [] at hb1
        rw [hz, show (2:Nat) ^ (0:Int).toNat = 1 from rfl, Nat.mul_one, Nat.mul_one]
        exact hb1
      · rw [if_neg hz] at he
        have hr1 : RegOk { e with a := e.a * 2, c := e.c * 2, ct := e.ct - 1 } := by
          refine ⟨h.buf, ?_, ?_, ?_, ?_, hA1, ?_, h.ctx⟩
          · show 0 < e.a * 2; omega
          · show e.a * 2 < 65536; omega
          · show 1 ≤ e.ct - 1; omega
          · show e.ct - 1 ≤ 13; omega
          · intro h1 h255
            have := h.B h1 h255
            rw [← scale_step _ _ _ h.ctlo] at this
            exact this
        have := ih _ e' hr1 he hf
        exact hsame this
    · rw [if_neg hlt] at he
      injection he with he; subst he; exact hf

/-! ### the decoder in lock-step -/

/-- the final buffer as the decoder sees it: `len` real bytes `B 1 .. B len` then 0xFF for ever -/
structure BOk (B : Nat → Nat) (last len : Nat) : Prop where
  pad : ∀ j, len + 1 ≤ j → B j = 255
  lastle : last ≤ len + 1
  lenle : len ≤ last
  marker : ∀ j, j + 1 ≤ last → B j = 255 → B (j + 1) ≤ 143
  nolast : B len ≠ 255
  bytes : ∀ j, B j < 256

/-- lock-step relation between an encoder state and the decoder state at the same decision:
same `a` and contexts; the decoder has consumed `n = bp_d + 1 + eos − bp_e ≥ 1` bytes more than the encoder
has emitted; and the exact equation `R n · 2^(16 − ct_d) = c_e · 2^16 + c_d`. -/
structure Rel (B : Nat → Nat) (last len : Nat) (e : Enc) (d : Dec) : Prop where
  a : d.a = e.a
  ctx : d.ctx = e.ctx
  size : d.data.size = len + 2
  data : ∀ k, k < len + 2 → rd d.data k = B (k + 1)
  bple : d.bp ≤ len
  eos : 0 < d.eos → d.bp = len
  ctlo : 0 ≤ d.ct
  cthi : d.ct ≤ 8
  ahead : e.bp < d.bp + 1 + d.eos
  wdeq : Wd B last e.bp (d.bp + 1 + d.eos - e.bp) + e.ct.toNat = 27 + d.ct.toNat
  eq : Rv B last (B e.bp - rd e.buf e.bp) e.bp (d.bp + 1 + d.eos - e.bp) * 2 ^ (16 - d.ct.toNat) =
        e.c * 65536 + d.c

theorem Rv_back (B : Nat → Nat) (last δ b n : Nat) :
    Rv B last δ b (n + 1) = Rv B last δ b n * 2 ^ wd B last (b + n + 1) + B (b + n + 1) := by
  unfold Rv
  simp only [Wd, Seg]
  rw [Nat.pow_add, Nat.add_mul, Nat.mul_assoc, Nat.add_assoc]
  omega

theorem pow_split (t : Nat) (ht : t ≤ 16) : 2 ^ t * 2 ^ (16 - t) = 65536 := by
  rw [← Nat.pow_add, show t + (16 - t) = 16 by omega]

/-- scaled numbers of an encoder state against a suffix of total width `Wd` with `Wd + ct = 27 + t` -/
theorem scale_eq (x ct W t : Nat) (h : W + ct = 27 + t) : x * 2 ^ ct * 2 ^ W = x * 2 ^ t * 134217728 := by
  rw [Nat.mul_assoc, ← Nat.pow_add, show ct + W = t + 27 by omega, Nat.pow_add, ← Nat.mul_assoc]

/-- from the upper fact: the decoder register has not wrapped, `c_d < a·2^16` -/
theorem rel_nowrap (R ce cd a T K : Nat) (hTK : T * K = 65536) (heq : R * K = ce * 65536 + cd)
    (hup : R * 134217728 < (ce + a) * T * 134217728) : cd < a * 65536 := by
  have h1 : R < (ce + a) * T := Nat.lt_of_mul_lt_mul_right hup
  have hK : 0 < K := by
    rcases Nat.eq_zero_or_pos K with h | h
    · rw [h] at hTK; omega
    · exact h
  have h2 : R * K < (ce + a) * T * K := Nat.mul_lt_mul_of_pos_right h1 hK
  rw [Nat.mul_assoc, hTK, heq] at h2
  clear hup h1 heq hTK hK
  omega

/-- from the lower fact at the encoder's post-decision state (upper sub-interval chosen): `c_d ≥ Qe·2^16` -/
theorem rel_upper (R ce cd qe T K : Nat) (hTK : T * K = 65536) (heq : R * K = ce * 65536 + cd)
    (hlo : (ce + qe) * T * 134217728 < (R + 1) * 134217728) : qe * 65536 ≤ cd := by
  have h1 : (ce + qe) * T < R + 1 := Nat.lt_of_mul_lt_mul_right hlo
  have h2 : (ce + qe) * T * K ≤ R * K := Nat.mul_le_mul_right _ (Nat.le_of_lt_succ h1)
  rw [Nat.mul_assoc, hTK, heq, Nat.add_mul] at h2
  exact Nat.le_of_add_le_add_left h2

/-- from the upper fact at the encoder's post-decision state (lower sub-interval chosen): `c_d < Qe·2^16` -/
theorem rel_lower (R ce cd qe T K : Nat) (hTK : T * K = 65536) (heq : R * K = ce * 65536 + cd)
    (hup : R * 134217728 < (ce + qe) * T * 134217728) : cd < qe * 65536 :=
  rel_nowrap R ce cd qe T K hTK heq hup

theorem u32_id (x : Nat) (h : x < 4294967296) : u32 x = x := by unfold u32; omega

/-- `bytein()` in lock-step: the decoder consumes byte `j = bp_e + n + 1` of the final buffer with exactly the
width `wd j` the encoder gave it; the exact equation is kept and the register does not wrap -/
theorem bytein_rel (B : Nat → Nat) (last len : Nat) (hB : BOk B last len) (e : Enc) (d : Dec)
    (hr : Rel B last len e d) (hct : d.ct = 0) (ha : e.a < 65536)
    (hup : ∀ n, Up B last ((e.c + e.a) * 2 ^ e.ct.toNat) (B e.bp - rd e.buf e.bp) e.bp n) :
    ∃ d1, bytein d = some d1 ∧ Rel B last len e d1 ∧ (d1.ct = 7 ∨ d1.ct = 8) := by
  obtain ⟨n, hn, hn1⟩ : ∃ n, d.bp + 1 + d.eos = e.bp + n ∧ 1 ≤ n := ⟨d.bp + 1 + d.eos - e.bp, by have := hr.ahead; omega, by have := hr.ahead; omega⟩
  have hnn : d.bp + 1 + d.eos - e.bp = n := by omega
  have hwd := hr.wdeq; have heq := hr.eq
  rw [hnn] at hwd heq
  rw [hct] at hwd heq
  simp only [Int.toNat_zero, Nat.add_zero, Nat.sub_zero] at hwd heq
  have hbple := hr.bple
  have hsz := hr.size
  -- the byte consumed next and its width
  have hcur : rd d.data d.bp = B (d.bp + 1) := hr.data d.bp (by omega)
  have hnext : rd d.data (d.bp + 1) = B (d.bp + 2) := hr.data (d.bp + 1) (by omega)
  have hj : e.bp + n + 1 = d.bp + 2 + d.eos := by omega
  -- generic closing step: given the consumed value `B j`, its width `w` with `wd j = w`, the new state
  have close : ∀ (w : Nat) (d1 : Dec), (w = 7 ∨ w = 8) → wd B last (e.bp + n + 1) = w →
      d1.a = d.a → d1.ctx = d.ctx → d1.data = d.data → d1.ct = (w : Int) →
      d1.bp + 1 + d1.eos = e.bp + (n + 1) → d1.bp ≤ len → (0 < d1.eos → d1.bp = len) →
      d1.c = u32 (d.c + B (e.bp + n + 1) * 2 ^ (16 - w)) →
      Rel B last len e d1 := by
    intro w d1 hw hwdj h1 h2 h3 h4 h5 h6 h7 h8
    have hnn1 : d1.bp + 1 + d1.eos - e.bp = n + 1 := by omega
    have hct1 : d1.ct.toNat = w := by rw [h4]; omega
    have hRv := Rv_back B last (B e.bp - rd e.buf e.bp) e.bp n
    rw [hwdj] at hRv
    -- the exact (unwrapped) register value
    have hex : Rv B last (B e.bp - rd e.buf e.bp) e.bp (n + 1) * 2 ^ (16 - w) =
        e.c * 65536 + (d.c + B (e.bp + n + 1) * 2 ^ (16 - w)) := by
      rw [hRv, Nat.add_mul, Nat.mul_assoc, ← Nat.pow_add, show w + (16 - w) = 16 by omega]
      have : (2 : Nat) ^ 16 = 65536 := by decide
      rw [this] at heq ⊢
      rw [heq, Nat.add_assoc]
    have hwd1 : Wd B last e.bp (n + 1) + e.ct.toNat = 27 + w := by
      simp only [Wd]; rw [hwdj]; omega
    have hnw : d.c + B (e.bp + n + 1) * 2 ^ (16 - w) < e.a * 65536 := by
      have hu := hup (n + 1)
      unfold Up at hu
      rw [scale_eq _ _ _ _ hwd1] at hu
      exact rel_nowrap _ e.c _ e.a (2 ^ w) (2 ^ (16 - w)) (pow_split w (by omega)) hex hu
    refine ⟨by rw [h1]; exact hr.a, by rw [h2]; exact hr.ctx, by rw [h3]; exact hr.size,
      by rw [h3]; exact hr.data, h6, h7, by rw [h4]; omega, by rw [h4]; omega, by omega, ?_, ?_⟩
    · rw [hnn1, hct1]; exact hwd1
    · rw [hnn1, hct1, h8, u32_id _ (by omega)]; exact hex
  unfold bytein
  rw [if_neg (by omega), rd_some d.data (d.bp + 1) (by omega), rd_some d.data d.bp (by omega)]
  simp only []
  by_cases heos : 0 < d.eos
  · -- already feeding sentinel bytes
    have hbp := hr.eos heos
    have h1 : rd d.data d.bp = 255 := by rw [hcur]; exact hB.pad _ (by omega)
    have h2 : rd d.data (d.bp + 1) = 255 := by rw [hnext]; exact hB.pad _ (by omega)
    rw [if_pos h1, if_pos (by omega)]
    refine ⟨_, rfl, ?_, Or.inr rfl⟩
    refine close 8 _ (Or.inr rfl) ?_ rfl rfl rfl rfl (by show d.bp + 1 + (d.eos + 1) = e.bp + (n + 1); omega) hbple
      (fun _ => hbp) ?_
    · unfold wd; rw [if_neg (by have := hB.lastle; omega)]
    · show u32 (d.c + 0xFF00) = _
      rw [hB.pad (e.bp + n + 1) (by omega)]
  · have he0 : d.eos = 0 := by omega
    have hjj : e.bp + n + 1 = d.bp + 2 := by omega
    by_cases hff : rd d.data d.bp = 255
    · rw [if_pos hff]
      by_cases hnx : rd d.data (d.bp + 1) > 143
      · -- 0xFF followed by a byte > 0x8F: that byte is the padding
        rw [if_pos hnx]
        have hpadj : last < d.bp + 2 := by
          rcases Nat.lt_or_ge last (d.bp + 2) with h | h
          · exact h
          · have := hB.marker (d.bp + 1) h (by rw [← hcur]; exact hff)
            rw [← hnext] at this; omega
        have hbplen : d.bp = len := by
          rcases Nat.lt_or_ge d.bp len with h | h
          · exfalso
            have h1 : d.bp + 1 = len := by have := hB.lenle; omega
            exact hB.nolast (by rw [← h1, ← hcur]; exact hff)
          · omega
        refine ⟨_, rfl, ?_, Or.inr rfl⟩
        refine close 8 _ (Or.inr rfl) ?_ rfl rfl rfl rfl (by show d.bp + 1 + (d.eos + 1) = e.bp + (n + 1); omega) hbple
          (fun _ => hbplen) ?_
        · unfold wd; rw [if_neg (by omega)]
        · show u32 (d.c + 0xFF00) = _
          rw [hB.pad (e.bp + n + 1) (by omega)]
      · -- stuffed byte: 7 bits
        rw [if_neg hnx]
        have hreal : d.bp + 2 ≤ len := by
          rcases Nat.lt_or_ge len (d.bp + 2) with h | h
          · have := hB.pad (d.bp + 2) (by omega); rw [← hnext] at this; omega
          · exact h
        refine ⟨_, rfl, ?_, Or.inl rfl⟩
        refine close 7 _ (Or.inl rfl) ?_ rfl rfl rfl rfl (by show d.bp + 1 + 1 + d.eos = e.bp + (n + 1); omega)
          (by show d.bp + 1 ≤ len; omega) (fun h => by have : 0 < d.eos := h; omega) ?_
        · unfold wd
          rw [hjj, show d.bp + 2 - 1 = d.bp + 1 by omega, if_pos ⟨by rw [← hcur]; exact hff, by have := hB.lenle; omega⟩]
        · show u32 (d.c + u32 (rd d.data (d.bp + 1) * 2 ^ 9)) = _
          rw [hjj, ← hnext, u32_id (rd d.data (d.bp + 1) * 2 ^ 9) (by omega)]
    · rw [if_neg hff]
      have hlt : d.bp < len := by
        rcases Nat.lt_or_ge d.bp len with h | h
        · exact h
        · exfalso; apply hff; rw [hcur]; exact hB.pad _ (by omega)
      have hb256 : rd d.data (d.bp + 1) < 256 ∨ True := Or.inr trivial
      refine ⟨_, rfl, ?_, Or.inr rfl⟩
      refine close 8 _ (Or.inr rfl) ?_ rfl rfl rfl rfl (by show d.bp + 1 + 1 + d.eos = e.bp + (n + 1); omega)
        (by show d.bp + 1 ≤ len; omega) (fun h => by have : 0 < d.eos := h; omega) ?_
      · unfold wd
        rw [hjj, show d.bp + 2 - 1 = d.bp + 1 by omega, if_neg (fun h => hff (by rw [hcur]; exact h.1))]
      · show u32 (d.c + u32 (rd d.data (d.bp + 1) * 2 ^ 8)) = _
        have hb := hB.bytes (d.bp + 2)
        rw [hjj, ← hnext, u32_id (rd d.data (d.bp + 1) * 2 ^ 8) (by rw [hnext]; omega)]

/-- what `byteout()` does, abstractly: `c = δ·2^27 + nb·2^(27-w) + c'` -/
theorem byteout_decomp (e : Enc) (x : Nat) (hb : BufOk e.buf e.bp) (hx1 : 1 ≤ x)
    (hA : e.c + x ≤ 150994944)
    (hB : 1 ≤ e.bp → rd e.buf (e.bp - 1) = 255 → rd e.buf e.bp * 134217728 + e.c + x ≤ 19327352832) :
    ∀ e2, byteout e = some e2 → ∃ (w W nb δ : Nat), (w = 7 ∧ W = 128 ∨ w = 8 ∧ W = 256) ∧ e2.bp = e.bp + 1 ∧ e2.ct = (w : Int) ∧
      e.c * W = (δ * W + nb) * 134217728 + e2.c * W ∧ e2.c * W < 134217728 ∧ δ ≤ 1 ∧
      rd e2.buf (e.bp + 1) = nb ∧ rd e2.buf e.bp = rd e.buf e.bp + δ ∧ (∀ j, j < e.bp → rd e2.buf j = rd e.buf j) ∧
      (w = 7 ↔ rd e2.buf e.bp = 255) ∧ e2.a = e.a ∧ e2.ctx = e.ctx := by
  have hb256 := hb.bytes e.bp
  intro e1 he1
  unfold byteout at he1
  simp only [if_neg (show ¬ e.bp ≥ e.buf.size from by have := hb.inb; omega), rd_some e.buf e.bp hb.inb] at he1
  by_cases hff : rd e.buf e.bp = 255
  · rw [if_pos hff] at he1
    injection he1 with he1; subst he1
    have hnb : u8 (e.c / 2 ^ 20) = e.c / 2 ^ 20 := by unfold u8; omega
    obtain ⟨hok, hlast, hpre⟩ := push_ok e.buf e.bp (u8 (e.c / 2 ^ 20)) hb (by unfold u8; omega)
      (by intro _; rw [hnb]; omega)
    refine ⟨7, 128, e.c / 2 ^ 20, 0, Or.inl ⟨rfl, rfl⟩, rfl, rfl, (split7 e.c).1, (split7 e.c).2, by omega,
      by rw [hlast, hnb], by rw [hpre e.bp (Nat.le_refl _)]; rfl, fun j hj => hpre j (by omega), ?_, rfl, rfl⟩
    constructor
    · intro _; show rd _ e.bp = 255; rw [hpre e.bp (Nat.le_refl _)]; exact hff
    · intro _; rfl
  · rw [if_neg hff] at he1
    by_cases hc : e.c / 2 ^ 27 % 2 = 0
    · rw [if_pos hc] at he1
      injection he1 with he1; subst he1
      have hnb : u8 (e.c / 2 ^ 19) = e.c / 2 ^ 19 := by unfold u8; omega
      obtain ⟨hok, hlast, hpre⟩ := push_ok e.buf e.bp (u8 (e.c / 2 ^ 19)) hb (by unfold u8; omega)
        (by intro h; exact absurd h hff)
      refine ⟨8, 256, e.c / 2 ^ 19, 0, Or.inr ⟨rfl, rfl⟩, rfl, rfl, (split8 e.c).1, (split8 e.c).2, by omega,
        by rw [hlast, hnb], by rw [hpre e.bp (Nat.le_refl _)]; rfl, fun j hj => hpre j (by omega), ?_, rfl, rfl⟩
      constructor
      · intro h; exact absurd h (by decide)
      · intro h; exfalso; apply hff; rw [← hpre e.bp (Nat.le_refl _)]; exact h
    · rw [if_neg hc] at he1
      have hb1 : u8 (rd e.buf e.bp + 1) = rd e.buf e.bp + 1 := by unfold u8; omega
      obtain ⟨hok1, hcur1, hpre1⟩ := inc_ok e.buf e.bp (u8 (rd e.buf e.bp + 1)) hb (by unfold u8; omega)
        (by intro h1 h255; have := hB h1 h255; rw [hb1]; omega)
      have hc27 : 134217728 ≤ e.c ∧ e.c < 268435456 := by clear hB; omega
      by_cases hff1 : u8 (rd e.buf e.bp + 1) = 255
      · rw [if_pos hff1] at he1
        injection he1 with he1; subst he1
        have hnb : u8 (e.c % 2 ^ 27 / 2 ^ 20) = e.c % 2 ^ 27 / 2 ^ 20 := by unfold u8; omega
        obtain ⟨hok, hlast, hpre⟩ := push_ok _ e.bp (u8 (e.c % 2 ^ 27 / 2 ^ 20)) hok1 (by unfold u8; omega)
          (by intro _; rw [hnb]; omega)
        refine ⟨7, 128, e.c % 2 ^ 27 / 2 ^ 20, 1, Or.inl ⟨rfl, rfl⟩, rfl, rfl, (split7c e.c hc27.1 hc27.2).1,
          (split7c e.c hc27.1 hc27.2).2, by omega, by rw [hlast, hnb],
          by rw [hpre e.bp (Nat.le_refl _), hcur1, hb1], fun j hj => by rw [hpre j (by omega), hpre1 j hj], ?_, rfl, rfl⟩
        constructor
        · intro _; show rd _ e.bp = 255; rw [hpre e.bp (Nat.le_refl _), hcur1]; exact hff1
        · intro _; rfl
      · rw [if_neg hff1] at he1
        injection he1 with he1; subst he1
        obtain ⟨hok, hlast, hpre⟩ := push_ok _ e.bp (u8 (e.c / 2 ^ 19)) hok1 (by unfold u8; omega)
          (by intro h; rw [hcur1] at h; exact absurd h hff1)
        refine ⟨8, 256, e.c / 2 ^ 19 % 256, 1, Or.inr ⟨rfl, rfl⟩, rfl, rfl, (split8c e.c hc27.1 hc27.2).1,
          (split8c e.c hc27.1 hc27.2).2, by omega, by rw [hlast]; rfl,
          by rw [hpre e.bp (Nat.le_refl _), hcur1, hb1], fun j hj => by rw [hpre j (by omega), hpre1 j hj], ?_, rfl, rfl⟩
        constructor
        · intro h; exact absurd h (by decide)
        · intro h; exfalso; apply hff1; rw [← hcur1, ← hpre e.bp (Nat.le_refl _)]; exact h

theorem Wd_le (B : Nat → Nat) (last b : Nat) : ∀ n, Wd B last b n ≤ 8 * n := by
  intro n
  induction n with
  | zero => simp [Wd]
  | succ n ih =>
    simp only [Wd]
    have : wd B last (b + n + 1) ≤ 8 := by unfold wd; split <;> omega
    omega

/-- both coders shift one bit -/
theorem shift_rel (B : Nat → Nat) (last len : Nat) (e : Enc) (d : Dec) (a' : Nat) (hr : Rel B last len e d)
    (hce : 1 ≤ e.ct) (hcd : 1 ≤ d.ct) :
    Rel B last len { e with a := a', c := e.c * 2, ct := e.ct - 1 } { d with a := a', c := d.c * 2, ct := d.ct - 1 } := by
  have hwd := hr.wdeq; have heq := hr.eq; have hhi := hr.cthi
  refine ⟨rfl, hr.ctx, hr.size, hr.data, hr.bple, hr.eos, ?_, ?_, hr.ahead, ?_, ?_⟩
  · show 0 ≤ d.ct - 1; omega
  · show d.ct - 1 ≤ 8; omega
  · show Wd B last e.bp (d.bp + 1 + d.eos - e.bp) + (e.ct - 1).toNat = 27 + (d.ct - 1).toNat
    omega
  · show Rv B last (B e.bp - rd e.buf e.bp) e.bp (d.bp + 1 + d.eos - e.bp) * 2 ^ (16 - (d.ct - 1).toNat) =
        e.c * 2 * 65536 + d.c * 2
    have h1 : 16 - (d.ct - 1).toNat = (16 - d.ct.toNat) + 1 := by omega
    rw [h1, Nat.pow_succ, ← Nat.mul_assoc, heq]
    omega

/-- the encoder emits a byte (the decoder state is unchanged) -/
theorem byteout_rel (B : Nat → Nat) (last len : Nat) (e : Enc) (d : Dec) (x : Nat) (hb : BufOk e.buf e.bp)
    (hx1 : 1 ≤ x) (hx2 : x ≤ 65536) (hA : e.c + x ≤ 150994944)
    (hB : 1 ≤ e.bp → rd e.buf (e.bp - 1) = 255 → rd e.buf e.bp * 134217728 + e.c + x ≤ 19327352832)
    (hct : e.ct = 0) (hr : Rel B last len e d) (e2 : Enc) (he2 : byteout e = some e2)
    (hf : FA B last e2.buf e2.bp (e2.c * 2 ^ e2.ct.toNat) ((e2.c + x) * 2 ^ e2.ct.toNat)) :
    Rel B last len e2 d := by
  obtain ⟨w, W, nb, δ, hwW, hbp2, hct2, hM, hc1, hδ, hnb, hcur, hpre, hw7, ha2, hctx2⟩ :=
    byteout_decomp e x hb hx1 hA hB e2 he2
  obtain ⟨n, hn⟩ : ∃ n, d.bp + 1 + d.eos = e.bp + n := ⟨d.bp + 1 + d.eos - e.bp, by have := hr.ahead; omega⟩
  have hnn : d.bp + 1 + d.eos - e.bp = n := by omega
  have hwd := hr.wdeq; have heq := hr.eq; have hhi := hr.cthi; have hlo := hr.ctlo
  rw [hnn] at hwd heq
  rw [hct] at hwd
  have hn4 : 2 ≤ n := by have := Wd_le B last e.bp n; omega
  obtain ⟨m, rfl⟩ : ∃ m, n = m + 1 := ⟨n - 1, by omega⟩
  have hle2 := hf.le
  have hBbp : B e.bp = rd e2.buf e.bp := (hf.stable e.bp (by omega)).symm
  have hwdw : wd B last (e.bp + 1) = w := by
    rcases hwW with ⟨rfl, _⟩ | ⟨rfl, _⟩
    · exact wd_ff B last e.bp (by rw [hBbp]; exact hw7.mp rfl) (by omega)
    · exact wd_nff B last e.bp (by rw [hBbp]; intro h; have := hw7.mpr h; omega)
  have hδe : B e.bp - rd e.buf e.bp = δ := by rw [hBbp, hcur]; omega
  have hB1 : B (e.bp + 1) = nb + (B e2.bp - rd e2.buf e2.bp) := by
    rw [hbp2]; rcases hf.cur with h | h <;> rw [hbp2] at h <;> rw [hnb] at h ⊢ <;> omega
  have hW : 2 ^ w = W := by rcases hwW with ⟨rfl, rfl⟩ | ⟨rfl, rfl⟩ <;> decide
  have hnn2 : d.bp + 1 + d.eos - e2.bp = m := by omega
  have hct2n : e2.ct.toNat = w := by rw [hct2]; omega
  have hWdf := Wd_front B last e.bp m
  rw [hwdw] at hWdf
  refine ⟨by rw [ha2]; exact hr.a, by rw [hctx2]; exact hr.ctx, hr.size, hr.data, hr.bple, hr.eos, hr.ctlo, hr.cthi,
    by omega, ?_, ?_⟩
  · rw [hnn2, hct2n, hbp2]; simp only [Int.toNat_zero] at hwd; omega
  · rw [hnn2, hbp2]
    rw [hδe, Rv_front, hwdw, hW, hB1, ← Nat.add_assoc, Rv_add, Nat.add_mul] at heq
    -- 2^Wd' · 2^(16-t) = 2^(27-w) · 65536
    have hpow : 2 ^ Wd B last (e.bp + 1) m * 2 ^ (16 - d.ct.toNat) = 2 ^ (27 - w) * 65536 := by
      rw [← Nat.pow_add, show (65536 : Nat) = 2 ^ 16 by decide, ← Nat.pow_add]
      congr 1
      simp only [Int.toNat_zero] at hwd
      rcases hwW with ⟨rfl, _⟩ | ⟨rfl, _⟩ <;> omega
    rw [Nat.mul_assoc, hpow, hbp2] at heq
    -- c = (δW+nb)·2^(27-w) + c'
    have hc : e.c = (δ * W + nb) * 2 ^ (27 - w) + e2.c := by
      rcases hwW with ⟨rfl, rfl⟩ | ⟨rfl, rfl⟩
      · have : (2 : Nat) ^ (27 - 7) = 1048576 := by decide
        rw [this]; omega
      · have : (2 : Nat) ^ (27 - 8) = 524288 := by decide
        rw [this]; omega
    generalize δ * W + nb = A at heq hc
    have hx : (A * 2 ^ (27 - w) + e2.c) * 65536 = A * (2 ^ (27 - w) * 65536) + e2.c * 65536 := by
      rw [Nat.add_mul, Nat.mul_assoc]
    rw [hc, hx, Nat.add_assoc] at heq
    exact Nat.add_left_cancel heq

/-- the decoder register has not wrapped: `c_d < a·2^16` -/
theorem rel_c_lt (B : Nat → Nat) (last len : Nat) (e : Enc) (d : Dec) (hr : Rel B last len e d) (hf : FE B last e) :
    d.c < e.a * 65536 := by
  have hu := hf.up (d.bp + 1 + d.eos - e.bp)
  unfold Up at hu
  rw [scale_eq _ _ _ _ hr.wdeq] at hu
  have hcd := hr.cthi; have hcl := hr.ctlo
  exact rel_nowrap _ e.c d.c e.a (2 ^ d.ct.toNat) (2 ^ (16 - d.ct.toNat)) (pow_split _ (by omega)) hr.eq hu

/-- `renormd()` follows `renorme()` -/
theorem renorm_rel (B : Nat → Nat) (last len : Nat) (hB : BOk B last len) : ∀ (fuel : Nat) (e : Enc) (d : Dec) (e' : Enc),
    RegOk e → Rel B last len e d → renormeLoop fuel e = some e' → FE B last e' →
    ∃ d', renormdLoop fuel d = some d' ∧ Rel B last len e' d' := by
  intro fuel
  induction fuel with
  | zero =>
    intro e d e' h hr he hf
    rw [renormeLoop] at he
    split at he
    · exact absurd he (by simp)
    · next hge =>
      injection he with he; subst he
      refine ⟨d, ?_, hr⟩
      rw [renormdLoop, if_neg (by rw [hr.a]; exact hge)]
  | succ fuel ih =>
    intro e d e' h hr he hf
    have hap := h.apos; have hah := h.ahi; have hcl := h.ctlo; have hch := h.cthi
    have hfe : FE B last e := renormeLoop_back B last (fuel + 1) e e' h he hf
    rw [renormeLoop] at he
    rw [renormdLoop]
    by_cases hlt : e.a < 0x8000
    · rw [if_pos hlt] at he
      rw [if_pos (by rw [hr.a]; exact hlt)]
      have hcA := c_lt_of_A (pow_pos2 _) h.A
      have ha2 : u32 (e.a * 2) = e.a * 2 := by unfold u32; omega
      have hc2 : u32 (e.c * 2) = e.c * 2 := by unfold u32; omega
      simp only [ha2, hc2] at he
      -- decoder: optional bytein
      obtain ⟨d0, hd0, hr0, hct0⟩ : ∃ d0, (if d.ct = 0 then bytein d else some d) = some d0 ∧ Rel B last len e d0 ∧ 1 ≤ d0.ct := by
        by_cases hz : d.ct = 0
        · rw [if_pos hz]
          obtain ⟨d1, hb1, hr1, hc1⟩ := bytein_rel B last len hB e d hr hz h.ahi hfe.up
          exact ⟨d1, hb1, hr1, by omega⟩
        · rw [if_neg hz]; exact ⟨d, rfl, hr, by have := hr.ctlo; omega⟩
      rw [hd0]
      simp only []
      have hclt := rel_c_lt B last len e d0 hr0 hfe
      have hda : u32 (d0.a * 2) = e.a * 2 := by rw [hr0.a]; exact ha2
      have hdc : u32 (d0.c * 2) = d0.c * 2 := by unfold u32; omega
      rw [hda, hdc]
      have hr1 := shift_rel B last len e d0 (e.a * 2) hr0 h.ctlo hct0
      have hA1 : (e.c * 2 + e.a * 2) * 2 ^ (e.ct - 1).toNat ≤ 150994944 := by
        rw [scale_step _ _ _ h.ctlo]; exact h.A
      by_cases hz : e.ct - 1 = 0
      · rw [if_pos hz] at he
        have hA0 : e.c * 2 + e.a * 2 ≤ 150994944 := by
          rw [hz, show (2:Nat) ^ (0:Int).toNat = 1 from rfl, Nat.mul_one] at hA1; exact hA1
        have hB0 : 1 ≤ e.bp → rd e.buf (e.bp - 1) = 255 →
            rd e.buf e.bp * 134217728 + e.c * 2 + e.a * 2 ≤ 19327352832 := by
          intro h1 h255
          have := h.B h1 h255
          rw [← scale_step _ _ _ h.ctlo, hz, show (2:Nat) ^ (0:Int).toNat = 1 from rfl, Nat.mul_one] at this
          rw [Nat.add_assoc]; exact this
        obtain ⟨e2, he2, hbuf2, hbp2, ha2', hctx2, hct2, hA2, hB2⟩ :=
          byteout_spec { e with a := e.a * 2, c := e.c * 2, ct := e.ct - 1 } (e.a * 2) h.buf
            (by omega) (by omega) hA0 hB0
        rw [he2] at he
        simp only [] at hbp2 ha2' hctx2 he
        have hr2 : RegOk e2 := by
          refine ⟨hbuf2, by omega, by omega, by omega, by omega, ?_, ?_, ?_⟩
          · rw [ha2']; exact hA2
          · intro _ h255; rw [ha2']; exact hB2 h255
          · rw [hctx2]; exact h.ctx
        have hf2 : FE B last e2 := renormeLoop_back B last fuel e2 e' hr2 he hf
        have hf2' := hf2
        unfold FE at hf2'
        rw [ha2'] at hf2'
        have hrel2 := byteout_rel B last len { e with a := e.a * 2, c := e.c * 2, ct := e.ct - 1 }
          { d0 with a := e.a * 2, c := d0.c * 2, ct := d0.ct - 1 } (e.a * 2) h.buf (by omega) (by omega) hA0 hB0 hz hr1 e2 he2 hf2'
        exact ih e2 _ e' hr2 hrel2 he hf
      · rw [if_neg hz] at he
        have hreg1 : RegOk { e with a := e.a * 2, c := e.c * 2, ct := e.ct - 1 } := by
          refine ⟨h.buf, ?_, ?_, ?_, ?_, hA1, ?_, h.ctx⟩
          · show 0 < e.a * 2; omega
          · show e.a * 2 < 65536; omega
          · show 1 ≤ e.ct - 1; omega
          · show e.ct - 1 ≤ 13; omega
          · intro h1 h255
            have := h.B h1 h255
            rw [← scale_step _ _ _ h.ctlo] at this
            exact this
        exact ih _ _ e' hreg1 hr1 he hf
    · rw [if_neg hlt] at he
      injection he with he; subst he
      rw [if_neg (by rw [hr.a]; exact hlt)]
      exact ⟨d, rfl, hr⟩

theorem regok_sub (e : Enc) (h : RegOk e) (a' c' : Nat) (ctx' : Array Nat) (ha0 : 0 < a') (ha1 : a' < 65536)
    (hsum : c' + a' ≤ e.c + e.a) (hctx : CtxOk ctx') : RegOk { e with a := a', c := c', ctx := ctx' } := by
  have hmono : (c' + a') * 2 ^ e.ct.toNat ≤ (e.c + e.a) * 2 ^ e.ct.toNat := Nat.mul_le_mul_right _ hsum
  refine ⟨h.buf, ha0, ha1, h.ctlo, h.cthi, Nat.le_trans hmono h.A, ?_, hctx⟩
  intro h1 h255
  have := h.B h1 h255
  show rd e.buf e.bp * 134217728 + (c' + a') * 2 ^ e.ct.toNat ≤ 19327352832
  omega

/-- the encoder keeps the LOWER sub-interval `[c, c + qe)`: the decoder sees `c_d < qe·2^16`, and renormalises in step -/
theorem lower_case (B : Nat → Nat) (last len : Nat) (hB : BOk B last len) (e : Enc) (d : Dec) (qe : Nat)
    (ctx' : Array Nat) (h : RegOk e) (hr : Rel B last len e d) (q1 : 1 ≤ qe) (q2 : qe ≤ 0x5601) (hqa : qe ≤ e.a)
    (hctx : CtxOk ctx') (e1 : Enc) (he : renorme { e with a := qe, ctx := ctx' } = some e1) (hf : FE B last e1) :
    d.c < qe * 65536 ∧ ∃ d1, renormd { d with a := qe, ctx := ctx' } = some d1 ∧ Rel B last len e1 d1 := by
  have hreg := regok_sub e h qe e.c ctx' (by omega) (by omega) (by omega) hctx
  have hfs : FE B last { e with a := qe, ctx := ctx' } := renormeLoop_back B last 16 _ e1 hreg he hf
  have hrs : Rel B last len { e with a := qe, ctx := ctx' } { d with a := qe, ctx := ctx' } :=
    ⟨rfl, rfl, hr.size, hr.data, hr.bple, hr.eos, hr.ctlo, hr.cthi, hr.ahead, hr.wdeq, hr.eq⟩
  refine ⟨?_, ?_⟩
  · have := rel_c_lt B last len _ _ hrs hfs
    exact this
  · exact renorm_rel B last len hB 16 _ _ e1 hreg hrs he hf

/-- the encoder takes the UPPER sub-interval `[c + qe, c + a)`: the decoder sees `c_d ≥ qe·2^16` -/
theorem upper_ge (B : Nat → Nat) (last len : Nat) (e : Enc) (d : Dec) (qe : Nat) (es : Enc)
    (hr : Rel B last len e d) (hbuf : es.buf = e.buf) (hbp : es.bp = e.bp) (hc : es.c = e.c + qe) (hct : es.ct = e.ct)
    (hfs : FE B last es) : qe * 65536 ≤ d.c := by
  obtain ⟨m, hm⟩ : ∃ m, d.bp + 1 + d.eos - e.bp = m + 1 := ⟨d.bp + 1 + d.eos - e.bp - 1, by have := hr.ahead; omega⟩
  have hl := hfs.lo m
  unfold Lo at hl
  rw [hbuf, hbp, hc, hct] at hl
  have hwd := hr.wdeq; have heq := hr.eq
  rw [hm] at hwd heq
  rw [scale_eq _ _ _ _ hwd] at hl
  have hcd := hr.cthi; have hcl := hr.ctlo
  exact rel_upper _ e.c d.c qe (2 ^ d.ct.toNat) (2 ^ (16 - d.ct.toNat)) (pow_split _ (by omega)) heq hl

theorem upper_rel (B : Nat → Nat) (last len : Nat) (e : Enc) (d : Dec) (qe a' : Nat) (ctx' : Array Nat)
    (hr : Rel B last len e d) (hge : qe * 65536 ≤ d.c) :
    Rel B last len { e with a := a', c := e.c + qe, ctx := ctx' } { d with a := a', c := d.c - qe * 65536, ctx := ctx' } := by
  refine ⟨rfl, rfl, hr.size, hr.data, hr.bple, hr.eos, hr.ctlo, hr.cthi, hr.ahead, hr.wdeq, ?_⟩
  show _ = (e.c + qe) * 65536 + (d.c - qe * 65536)
  rw [hr.eq, Nat.add_mul]
  omega

theorem FE_of_sub (B : Nat → Nat) (last : Nat) (e es : Enc) (hbuf : es.buf = e.buf) (hbp : es.bp = e.bp)
    (hct : es.ct = e.ct) (hc : e.c ≤ es.c) (hs : es.c + es.a ≤ e.c + e.a) (hf : FE B last es) : FE B last e := by
  unfold FE at hf ⊢
  rw [hbuf, hbp, hct] at hf
  exact FA_mono B last e.buf e.bp _ _ _ _ (Nat.mul_le_mul_right _ hc) (Nat.mul_le_mul_right _ hs) hf

/-- **one decision**: if the encoder coded `bit` and the facts hold afterwards, the decoder returns `bit`
and the lock-step relation is re-established -/
theorem step_rel (B : Nat → Nat) (last len : Nat) (hB : BOk B last len) (e : Enc) (d : Dec)
    (bit cx cxv qe nmps nlps sw : Nat) (h : RegOk e) (hn : 0x8000 ≤ e.a) (hbit : bit ≤ 1)
    (hcxv : cxv < 256) (q1 : 1 ≤ qe) (q2 : qe ≤ 0x5601) (m2 : nmps < 47) (l2 : nlps < 47)
    (hr : Rel B last len e d) (e1 : Enc) (he : encodeCore e bit cx cxv qe nmps nlps sw = some e1)
    (hf : FE B last e1) :
    ∃ d1, decodeCore d cx cxv qe nmps nlps sw = some (bit, d1) ∧ Rel B last len e1 d1 := by
  have hah := h.ahi
  have hcA := c_lt_of_A (pow_pos2 _) h.A
  have hsub : sub32 e.a qe = e.a - qe := sub32_eq _ _ (by omega) (by omega)
  have hcq : u32 (e.c + qe) = e.c + qe := by unfold u32; omega
  have hda : sub32 d.a qe = e.a - qe := by rw [hr.a]; exact hsub
  have hq16 : u32 (qe * 2 ^ 16) = qe * 65536 := by unfold u32; omega
  have hmC := ctxOk_set e.ctx cx _ h.ctx (mpsCx_ok cxv nmps hcxv m2)
  have hlC := ctxOk_set e.ctx cx _ h.ctx (lpsCx_ok cxv nlps sw hcxv l2)
  -- the two context words written by the decoder are the ones the encoder writes
  have hmpsCx : u8 (nmps + u8 (cxv / 128 * 128)) = mpsCx cxv nmps := rfl
  have hlpsCx : u8 (nlps + u8 ((if sw = 1 then 1 - cxv / 128 else cxv / 128) * 128)) = lpsCx cxv nlps sw := rfl
  -- upper sub-interval with renormalisation
  have upperR : ∀ (ctx' : Array Nat), CtxOk ctx' → e.a - qe < 0x8000 →
      renorme { e with a := e.a - qe, c := e.c + qe, ctx := ctx' } = some e1 →
      qe * 65536 ≤ d.c ∧ d.c < 4294967296 ∧
      ∃ d1, renormd { d with a := e.a - qe, c := d.c - qe * 65536, ctx := ctx' } = some d1 ∧ Rel B last len e1 d1 := by
    intro ctx' hctx' _ hren
    have hreg := regok_sub e h (e.a - qe) (e.c + qe) ctx' (by omega) (by omega) (by omega) hctx'
    have hfs : FE B last { e with a := e.a - qe, c := e.c + qe, ctx := ctx' } := renormeLoop_back B last 16 _ e1 hreg hren hf
    have hge := upper_ge B last len e d qe { e with a := e.a - qe, c := e.c + qe, ctx := ctx' } hr rfl rfl rfl rfl hfs
    have hfe : FE B last e := FE_of_sub B last e { e with a := e.a - qe, c := e.c + qe, ctx := ctx' } rfl rfl rfl
      (by show e.c ≤ e.c + qe; omega) (by show e.c + qe + (e.a - qe) ≤ e.c + e.a; omega) hfs
    have hlt := rel_c_lt B last len e d hr hfe
    refine ⟨hge, by omega, ?_⟩
    exact renorm_rel B last len hB 16 _ _ e1 hreg (upper_rel B last len e d qe (e.a - qe) ctx' hr hge) hren hf
  unfold encodeCore at he
  rw [hsub, hcq] at he
  unfold decodeCore
  rw [hda, hq16]
  by_cases hb : bit = cxv / 128
  · rw [if_pos hb] at he
    by_cases hren : (e.a - qe) / 0x8000 % 2 = 0
    · rw [if_pos hren] at he
      by_cases hx : e.a - qe < qe
      · -- MPS with conditional exchange: lower sub-interval
        rw [if_pos hx] at he
        rw [hmpsCx] at he
        obtain ⟨hlt, d1, hd1, hr1⟩ := lower_case B last len hB e d qe _ h hr q1 q2 (by omega) hmC e1 he hf
        rw [if_pos (by omega), if_pos hx, hr.ctx, hd1]
        exact ⟨d1, by rw [hb]; rfl, hr1⟩
      · rw [if_neg hx] at he
        rw [hmpsCx] at he
        obtain ⟨hge, hlt, d1, hd1, hr1⟩ := upperR _ hmC (by omega) he
        rw [if_neg (by omega), if_neg (by omega), if_neg hx, sub32_eq _ _ hge hlt, hr.ctx, hd1]
        exact ⟨d1, by rw [hb]; rfl, hr1⟩
    · -- MPS without renormalisation
      rw [if_neg hren] at he
      injection he with he; subst he
      have hge := upper_ge B last len e d qe { e with a := e.a - qe, c := e.c + qe } hr rfl rfl rfl rfl hf
      have hfe : FE B last e := FE_of_sub B last e { e with a := e.a - qe, c := e.c + qe } rfl rfl rfl
        (by show e.c ≤ e.c + qe; omega) (by show e.c + qe + (e.a - qe) ≤ e.c + e.a; omega) hf
      have hlt := rel_c_lt B last len e d hr hfe
      rw [if_neg (by omega), if_pos hren, sub32_eq _ _ hge (by omega)]
      refine ⟨_, by rw [hb], ?_⟩
      have := upper_rel B last len e d qe (e.a - qe) e.ctx hr hge
      exact ⟨this.a, hr.ctx, this.size, this.data, this.bple, this.eos, this.ctlo, this.cthi, this.ahead, this.wdeq, this.eq⟩
  · rw [if_neg hb] at he
    have hbit' : bit = 1 - cxv / 128 := by omega
    by_cases hx : e.a - qe < qe
    · -- LPS, upper sub-interval
      rw [if_pos hx] at he
      rw [hlpsCx] at he
      obtain ⟨hge, hlt, d1, hd1, hr1⟩ := upperR _ hlC (by omega) he
      rw [if_neg (by omega), if_neg (by omega), if_pos hx, sub32_eq _ _ hge hlt, hr.ctx, hd1]
      exact ⟨d1, by rw [hbit']; rfl, hr1⟩
    · -- LPS with conditional exchange: lower sub-interval
      rw [if_neg hx] at he
      rw [hlpsCx] at he
      obtain ⟨hlt, d1, hd1, hr1⟩ := lower_case B last len hB e d qe _ h hr q1 q2 (by omega) hlC e1 he hf
      rw [if_pos (by omega), if_neg hx, hr.ctx, hd1]
      exact ⟨d1, by rw [hbit']; rfl, hr1⟩

/-! ### whole decision sequences -/

/-- `Encode` backwards: facts after the decision give facts before it -/
theorem encodeCore_back (B : Nat → Nat) (last : Nat) (e : Enc) (bit cx cxv qe nmps nlps sw : Nat) (h : RegOk e)
    (hn : 0x8000 ≤ e.a) (hcxv : cxv < 256) (q1 : 1 ≤ qe) (q2 : qe ≤ 0x5601) (m2 : nmps < 47) (l2 : nlps < 47)
    (e1 : Enc) (he : encodeCore e bit cx cxv qe nmps nlps sw = some e1) (hf : FE B last e1) : FE B last e := by
  have hah := h.ahi
  have hcA := c_lt_of_A (pow_pos2 _) h.A
  have hsub : sub32 e.a qe = e.a - qe := sub32_eq _ _ (by omega) (by omega)
  have hcq : u32 (e.c + qe) = e.c + qe := by unfold u32; omega
  have hmC := ctxOk_set e.ctx cx _ h.ctx (mpsCx_ok cxv nmps hcxv m2)
  have hlC := ctxOk_set e.ctx cx _ h.ctx (lpsCx_ok cxv nlps sw hcxv l2)
  have lowerB : ∀ (ctx' : Array Nat), CtxOk ctx' → renorme { e with a := qe, ctx := ctx' } = some e1 → FE B last e := by
    intro ctx' hctx' hren
    have hreg := regok_sub e h qe e.c ctx' (by omega) (by omega) (by omega) hctx'
    have hfs := renormeLoop_back B last 16 _ e1 hreg hren hf
    exact FE_of_sub B last e { e with a := qe, ctx := ctx' } rfl rfl rfl (Nat.le_refl _) (by show e.c + qe ≤ e.c + e.a; omega) hfs
  have upperB : ∀ (ctx' : Array Nat), CtxOk ctx' →
      renorme { e with a := e.a - qe, c := e.c + qe, ctx := ctx' } = some e1 → FE B last e := by
    intro ctx' hctx' hren
    have hreg := regok_sub e h (e.a - qe) (e.c + qe) ctx' (by omega) (by omega) (by omega) hctx'
    have hfs := renormeLoop_back B last 16 _ e1 hreg hren hf
    exact FE_of_sub B last e { e with a := e.a - qe, c := e.c + qe, ctx := ctx' } rfl rfl rfl
      (by show e.c ≤ e.c + qe; omega) (by show e.c + qe + (e.a - qe) ≤ e.c + e.a; omega) hfs
  unfold encodeCore at he
  rw [hsub, hcq] at he
  by_cases hb : bit = cxv / 128
  · rw [if_pos hb] at he
    by_cases hren : (e.a - qe) / 0x8000 % 2 = 0
    · rw [if_pos hren] at he
      by_cases hx : e.a - qe < qe
      · rw [if_pos hx] at he; exact lowerB _ hmC he
      · rw [if_neg hx] at he; exact upperB _ hmC he
    · rw [if_neg hren] at he
      injection he with he; subst he
      exact FE_of_sub B last e { e with a := e.a - qe, c := e.c + qe } rfl rfl rfl
        (by show e.c ≤ e.c + qe; omega) (by show e.c + qe + (e.a - qe) ≤ e.c + e.a; omega) hf
  · rw [if_neg hb] at he
    by_cases hx : e.a - qe < qe
    · rw [if_pos hx] at he; exact upperB _ hlC he
    · rw [if_neg hx] at he; exact lowerB _ hlC he

theorem encodeAll_back (B : Nat → Nat) (last : Nat) : ∀ (ds : List (Nat × Nat)) (e ef : Enc), RegOk e → 0x8000 ≤ e.a →
    (∀ d ∈ ds, d.2 < e.ctx.size) → encodeAll e ds = some ef → FE B last ef → FE B last e := by
  intro ds
  induction ds with
  | nil => intro e ef _ _ _ he hf; rw [encodeAll] at he; injection he with he; subst he; exact hf
  | cons d ds ih =>
    intro e ef h hn hds he hf
    obtain ⟨bit, cx⟩ := d
    have hcx := hds (bit, cx) List.mem_cons_self
    obtain ⟨hst, hcx256⟩ := h.ctx cx
    obtain ⟨qe, nmps, nlps, sw, hlk, q2, q3, m2, l2, s2⟩ := lookup_wf (rd e.ctx cx % 128) hst
    have heq := encode_eq e bit cx _ qe nmps nlps sw (rd_some e.ctx cx hcx) hlk
    obtain ⟨e1, he1, hr1, hn1, hs1, _⟩ := encodeCore_spec e bit cx (rd e.ctx cx) qe nmps nlps sw h hn hcx256 q2 q3 m2 l2 s2
    rw [encodeAll, heq, he1] at he
    have hf1 := ih e1 ef hr1 hn1 (by intro d hd; rw [hs1]; exact hds d (List.mem_cons_of_mem _ hd)) he hf
    exact encodeCore_back B last e bit cx (rd e.ctx cx) qe nmps nlps sw h hn hcx256 q2 q3 m2 l2 e1 he1 hf1

/-- **lock-step over a whole decision sequence** -/
theorem decodeAll_rel (B : Nat → Nat) (last len : Nat) (hB : BOk B last len) :
    ∀ (ds : List (Nat × Nat)) (e : Enc) (d : Dec) (ef : Enc), RegOk e → 0x8000 ≤ e.a →
      (∀ x ∈ ds, x.1 ≤ 1 ∧ x.2 < e.ctx.size) → Rel B last len e d → encodeAll e ds = some ef → FE B last ef →
      ∃ d', decodeAll d (ds.map (·.2)) = some (ds.map (·.1), d') ∧ Rel B last len ef d' := by
  intro ds
  induction ds with
  | nil =>
    intro e d ef _ _ _ hr he _
    rw [encodeAll] at he; injection he with he; subst he
    exact ⟨d, rfl, hr⟩
  | cons x ds ih =>
    intro e d ef h hn hds hr he hf
    obtain ⟨bit, cx⟩ := x
    have hx := hds (bit, cx) List.mem_cons_self
    obtain ⟨hst, hcx256⟩ := h.ctx cx
    obtain ⟨qe, nmps, nlps, sw, hlk, q2, q3, m2, l2, s2⟩ := lookup_wf (rd e.ctx cx % 128) hst
    have heq := encode_eq e bit cx _ qe nmps nlps sw (rd_some e.ctx cx hx.2) hlk
    obtain ⟨e1, he1, hr1, hn1, hs1, _⟩ := encodeCore_spec e bit cx (rd e.ctx cx) qe nmps nlps sw h hn hcx256 q2 q3 m2 l2 s2
    rw [encodeAll, heq, he1] at he
    have hds1 : ∀ x ∈ ds, x.1 ≤ 1 ∧ x.2 < e1.ctx.size := by
      intro x hx'; rw [hs1]; exact hds x (List.mem_cons_of_mem _ hx')
    have hf1 : FE B last e1 := encodeAll_back B last ds e1 ef hr1 hn1 (fun x hx' => (hds1 x hx').2) he hf
    obtain ⟨d1, hd1, hrel1⟩ := step_rel B last len hB e d bit cx (rd e.ctx cx) qe nmps nlps sw h hn hx.1 hcx256 q2 q3 m2 l2
      hr e1 he1 hf1
    obtain ⟨d', hd', hrel'⟩ := ih e1 d1 ef hr1 hn1 hds1 hrel1 he hf
    refine ⟨d', ?_, hrel'⟩
    have hdeq : decode d cx = decodeCore d cx (rd e.ctx cx) qe nmps nlps sw :=
      decode_eq d cx _ qe nmps nlps sw (by rw [hr.ctx]; exact rd_some e.ctx cx hx.2) hlk
    simp only [List.map_cons, decodeAll, hdeq, hd1, hd', Option.map_some]

end Mqc
