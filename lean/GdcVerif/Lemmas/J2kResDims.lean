import GdcVerif.Lemmas.J2kTiles
/-! resolutionDimsWithOrigin: closed form, and agreement/disagreement with the encoder's tile-local split. -/
namespace J2k
open Gen.J2kTiles

theorem kernels_t2_eq : Gen.J2kT2.splitLengths = splitLengths ∧ Gen.J2kT2.isEven = isEven ∧
    Gen.J2kT2.nextCoord = nextCoord ∧ Gen.J2kT2.ceilDivPow2 = ceilDivPow2 ∧ Gen.J2kT2.ceilDiv = ceilDiv :=
  ⟨rfl, rfl, rfl, rfl, rfl⟩

theorem resDimsT2_eq (len x0 : Int) (n : Nat) : resDimsT2 len x0 n = resDims len x0 n := by
  induction n generalizing len x0 with
  | zero => rfl
  | succ n ih => unfold resDimsT2 resDims; rw [ih]; rfl

/-- ceil-halving nests: ⌈⌈a/2⌉ / m⌉ = ⌈a / 2m⌉ -/
theorem ceil_half_nest (a m : Int) (hm : 0 < m) :
    ((a + 1) / 2 + m - 1) / m = (a + 2 * m - 1) / (2 * m) := by
  have h1 : (a + 1) / 2 + m - 1 = (a + 2 * m - 1) / 2 := by
    have : a + 2 * m - 1 = (a + 1) + (m - 1) * 2 := by omega
    rw [this, Int.add_mul_ediv_right _ _ (by decide : (2 : Int) ≠ 0)]; omega
  rw [h1, Int.ediv_ediv_of_nonneg (by decide : (0 : Int) ≤ 2)]

theorem splitLengths_eq (len x0 : Int) (hl : 0 ≤ len) :
    splitLengths len (isEven x0) = (x0 + len + 1) / 2 - (x0 + 1) / 2 := by
  unfold splitLengths
  rw [isEven_eq]
  by_cases h : x0 % 2 = 0
  · simp only [h, decide_true, if_true]
    rw [tdiv_eq_ediv (by omega)]; omega
  · simp only [h, decide_false]
    rw [tdiv_eq_ediv hl]; simp; omega

/-- closed form: after `n` splits the tile-component occupies the canvas interval
    [⌈x0/2ⁿ⌉, ⌈(x0+len)/2ⁿ⌉) — ISO/IEC 15444-1 (B-15) -/
theorem resDims_closed (len x0 : Int) (n : Nat) (hl : 0 ≤ len) :
    resDims len x0 n =
      ((x0 + len + 2 ^ n - 1) / 2 ^ n - (x0 + 2 ^ n - 1) / 2 ^ n, (x0 + 2 ^ n - 1) / 2 ^ n) := by
  induction n generalizing len x0 with
  | zero => unfold resDims; simp; omega
  | succ n ih =>
    unfold resDims
    have hs := splitLengths_eq len x0 hl
    have hl' : 0 ≤ splitLengths len (isEven x0) := by rw [hs]; omega
    rw [ih _ _ hl', nextCoord_eq, hs]
    have hp : (0 : Int) < 2 ^ n := Int.pow_pos (by decide)
    have e1 : (x0 + 1) / 2 + ((x0 + len + 1) / 2 - (x0 + 1) / 2) = (x0 + len + 1) / 2 := by omega
    have hpow : (2 : Int) ^ (n + 1) = 2 * 2 ^ n := by rw [Int.pow_succ]; omega
    rw [e1, ceil_half_nest (x0 + len) _ hp, ceil_half_nest x0 _ hp, hpow]

theorem ceilDivPow2_eq (len : Int) (n : Nat) (hl : 0 ≤ len) :
    ceilDivPow2 len n = (len + 2 ^ n - 1) / 2 ^ n := by
  unfold ceilDivPow2 Go.shl
  have hp : (0 : Int) < 2 ^ n := Int.pow_pos (by decide)
  by_cases h : n = 0
  · subst h; simp
  · have : ¬ ((n : Int) ≤ 0) := by omega
    simp only [this, decide_false, Bool.false_eq_true, if_false, Int.toNat_natCast, Int.one_mul]
    exact tdiv_eq_ediv (by omega)

/-- aligned tile origin: the OLD encoder's tile-local ceil split was the canvas split (why aligned tilings worked) -/
theorem aligned_agree (len x0 : Int) (n : Nat) (hl : 0 ≤ len) (hal : x0 % 2 ^ n = 0) :
    (resDims len x0 n).1 = encLowLenOld len n := by
  unfold encLowLenOld
  rw [resDims_closed len x0 n hl, ceilDivPow2_eq len n hl]
  simp only []
  have hp : (0 : Int) < 2 ^ n := Int.pow_pos (by decide)
  have hx : x0 = x0 / 2 ^ n * 2 ^ n := by
    have := Int.mul_ediv_add_emod x0 (2 ^ n); rw [Int.mul_comm] at this; omega
  have e1 : x0 + len + 2 ^ n - 1 = (len + 2 ^ n - 1) + x0 / 2 ^ n * 2 ^ n := by omega
  have e2 : x0 + 2 ^ n - 1 = (2 ^ n - 1) + x0 / 2 ^ n * 2 ^ n := by omega
  rw [e1, e2, Int.add_mul_ediv_right _ _ (by omega), Int.add_mul_ediv_right _ _ (by omega)]
  have : ((2 : Int) ^ n - 1) / 2 ^ n = 0 := Int.ediv_eq_zero_of_lt (by omega) (by omega)
  omega

end J2k

namespace J2k
open Gen.J2kTiles

/-- live encoder code and decoder count the same number of precinct columns (rows), for every origin -/
theorem numPrecinct_agree (x0 resW pw : Int) (h0 : 0 ≤ x0) (hw : 0 ≤ resW) (hpw : 1 ≤ pw) :
    encNumPrecinct x0 resW pw = decNumPrecinct x0 resW pw := by
  unfold encNumPrecinct decNumPrecinct Gen.J2kT2.floorDiv Gen.J2kT2.ceilDiv
  have c1 : ¬ pw ≤ 0 := by omega
  have c2 : x0 + resW ≥ 0 := by omega
  simp only [c1, decide_false, Bool.false_eq_true, if_false, ge_iff_le, h0, decide_true, if_true, c2]

/-- with origin 0 the count is ⌈resW/pw⌉ -/
theorem decNumPrecinct_zero (resW pw : Int) (hw : 1 ≤ resW) (hpw : 1 ≤ pw) :
    decNumPrecinct 0 resW pw = (resW + pw - 1) / pw := by
  unfold decNumPrecinct Gen.J2kT2.floorDiv Gen.J2kT2.ceilDiv
  have c1 : ¬ pw ≤ 0 := by omega
  have c2 : (0 : Int) + resW ≥ 0 := by omega
  simp only [c1, decide_false, Bool.false_eq_true, if_false, ge_iff_le, Int.le_refl, decide_true, if_true, c2]
  simp only [Int.zero_add, Int.tdiv_zero, Int.zero_mul, Int.sub_zero]
  rw [tdiv_eq_ediv (by omega : 0 ≤ resW + pw - 1)]
  have hq : 1 ≤ (resW + pw - 1) / pw := by
    have := numTiles_pos (by omega : 0 < pw) hw; omega
  have hq0 : 0 ≤ (resW + pw - 1) / pw * pw := Int.mul_nonneg (by omega) (by omega)
  have ez : Int.tdiv 0 pw * pw = 0 := by simp
  rw [ez, Int.sub_zero, tdiv_eq_ediv hq0, Int.mul_ediv_cancel _ (by omega : pw ≠ 0)]
  have : ¬ ((resW + pw - 1) / pw < 1) := by omega
  simp [this]

end J2k
