import GdcVerif.Lemmas.J2kTiles
/-! resolutionDimsWithOrigin: closed form, and agreement/disagreement with the encoder's tile-local split. -/
namespace J2k
open Gen.J2kTiles

theorem kernels_t2_eq : Gen.J2kT2.splitLengths = splitLengths ∧ Gen.J2kT2.isEven = isEven ∧
    Gen.J2kT2.nextCoord = nextCoord ∧ Gen.J2kT2.ceilDivPow2 = ceilDivPow2 ∧ Gen.J2kT2.ceilDiv = ceilDiv :=
  ⟨rfl, rfl, rfl, rfl, rfl⟩

theorem resDimsT2_eq (len x0 : Int) (n : Nat) : resDimsT2 len x0 n = resDims len x0 n := by
  induction n generalizing len x0 with
  | zero => rfl
  | succ n ih => unfold resDimsT2 resDims; rw [ih]; rfl

/-- ceil-halving nests: ⌈⌈a/2⌉ / m⌉ = ⌈a / 2m⌉ -/
theorem ceil_half_nest (a m : Int) (hm : 0 < m) :
    ((a + 1) / 2 + m - 1) / m = (a + 2 * m - 1) / (2 * m) := by
  have h1 : (a + 1) / 2 + m - 1 = (a + 2 * m - 1) / 2 := by
    have : a + 2 * m - 1 = (a + 1) + (m - 1) * 2 := by omega
    rw [this, Int.add_mul_ediv_right _ _ (by decide : (2 : Int) ≠ 0)]; omega
  rw [h1, Int.ediv_ediv_of_nonneg (by decide : (0 : Int) ≤ 2)]

theorem splitLengths_eq (len x0 : Int) (hl : 0 ≤ len) :
    splitLengths len (isEven x0) = (x0 + len + 1) / 2 - (x0 + 1) / 2 := by
  unfold splitLengths
  rw [isEven_eq]
  by_cases h : x0 % 2 = 0
  · simp only [h, decide_true, if_true]
    rw [tdiv_eq_ediv (by omega)]; omega
  · simp only [h, decide_false]
    rw [tdiv_eq_ediv hl]; simp; omega

/-- closed form: after `n` splits the tile-component occupies the canvas interval
    [⌈x0/2ⁿ⌉, ⌈(x0+len)/2ⁿ⌉) — ISO/IEC 15444-1 (B-15) -/
theorem resDims_closed (len x0 : Int) (n : Nat) (hl : 0 ≤ len) :
    resDims len x0 n =
      ((x0 + len + 2 ^ n - 1) / 2 ^ n - (x0 + 2 ^ n - 1) / 2 ^ n, (x0 + 2 ^ n - 1) / 2 ^ n) := by
  induction n generalizing len x0 with
  | zero => unfold resDims; simp; omega
  | succ n ih =>
    unfold resDims
    have hs := splitLengths_eq len x0 hl
    have hl' : 0 ≤ splitLengths len (isEven x0) := by rw [hs]; omega
    rw [ih _ _ hl', nextCoord_eq, hs]
    have hp : (0 : Int) < 2 ^ n := Int.pow_pos (by decide)
    have e1 : (x0 + 1) / 2 + ((x0 + len + 1) / 2 - (x0 + 1) / 2) = (x0 + len + 1) / 2 := by omega
    have hpow : (2 : Int) ^ (n + 1) = 2 * 2 ^ n := by rw [Int.pow_succ]; omega
    rw [e1, ceil_half_nest (x0 + len) _ hp, ceil_half_nest x0 _ hp, hpow]

theorem ceilDivPow2_eq (len : Int) (n : Nat) (hl : 0 ≤ len) :
    ceilDivPow2 len n = (len + 2 ^ n - 1) / 2 ^ n := by
  unfold ceilDivPow2 Go.shl
  have hp : (0 : Int) < 2 ^ n := Int.pow_pos (by decide)
  by_cases h : n = 0
  · subst h; simp
  · have : ¬ ((n : Int) ≤ 0) := by omega
    simp only [this, decide_false, Bool.false_eq_true, if_false, Int.toNat_natCast, Int.one_mul]
    exact tdiv_eq_ediv (by omega)

/-- aligned tile origin: the OLD encoder's tile-local ceil split was the canvas split (why aligned tilings worked) -/
theorem aligned_agree (len x0 : Int) (n : Nat) (hl : 0 ≤ len) (hal : x0 % 2 ^ n = 0) :
    (resDims len x0 n).1 = encLowLenOld len n := by
  unfold encLowLenOld
  rw [resDims_closed len x0 n hl, ceilDivPow2_eq len n hl]
  simp only []
  have hp : (0 : Int) < 2 ^ n := Int.pow_pos (by decide)
  have hx : x0 = x0 / 2 ^ n * 2 ^ n := by
    have := Int.mul_ediv_add_emod x0 (2 ^ n); rw [Int.mul_comm] at this; omega
  have e1 : x0 + len + 2 ^ n - 1 = (len + 2 ^ n - 1) + x0 / 2 ^ n * 2 ^ n := by omega
  have e2 : x0 + 2 ^ n - 1 = (2 ^ n - 1) + x0 / 2 ^ n * 2 ^ n := by omega
  rw [e1, e2, Int.add_mul_ediv_right _ _ (by omega), Int.add_mul_ediv_right _ _ (by omega)]
  have : ((2 : Int) ^ n - 1) / 2 ^ n = 0 := Int.ediv_eq_zero_of_lt (by omega) (by omega)
  omega

end J2k
