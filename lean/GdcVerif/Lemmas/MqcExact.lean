import GdcVerif.Lemmas.Mqc
/-!
  MQ encoder, exact-value semantics ("carry propagation and bit stuffing are value preserving").

  `val buf bp` is the exact integer denoted by the bytes `buf[0..bp]` in units of the last byte's least
  significant bit, where a byte that follows a 0xFF weighs 2^7 (its top bit is the carry slot) and every
  other byte 2^8.  The ideal low end of the coding interval, `L` (unbounded: `+= Qe` on the upper
  sub-interval, `*= 2` on every renormalisation shift), satisfies at every point of every run

      val buf bp · 2^27 + c · 2^ct = L · 2^ct                                   (`Exact`)

  i.e. emitted bytes + code register are exactly `L`, whatever carries were propagated (`buffer[bp]++`)
  or parked in a stuffed byte.
-/
set_option linter.unusedVariables false
namespace Mqc
open Gen.J2kMqc

/-- exact value of `buf[0..i]` in units of `buf[i]`'s LSB -/
def val (buf : Array Nat) : Nat → Nat
  | 0 => rd buf 0
  | i + 1 => rd buf (i + 1) + val buf i * (if rd buf i = 255 then 128 else 256)

theorem val_congr (b b' : Array Nat) : ∀ i, (∀ j, j ≤ i → rd b' j = rd b j) → val b' i = val b i := by
  intro i
  induction i with
  | zero => intro h; simp only [val]; exact h 0 (Nat.le_refl _)
  | succ i ih =>
    intro h
    simp only [val]
    rw [h (i + 1) (Nat.le_refl _), h i (by omega), ih (fun j hj => h j (by omega))]

theorem val_push (buf buf' : Array Nat) (bp nb : Nat) (hlast : rd buf' (bp + 1) = nb)
    (hpre : ∀ i, i ≤ bp → rd buf' i = rd buf i) :
    val buf' (bp + 1) = nb + val buf bp * (if rd buf bp = 255 then 128 else 256) := by
  simp only [val]
  rw [hlast, hpre bp (Nat.le_refl _), val_congr buf buf' bp hpre]

theorem val_inc (buf buf' : Array Nat) (bp : Nat) (hcur : rd buf' bp = rd buf bp + 1)
    (hpre : ∀ i, i < bp → rd buf' i = rd buf i) : val buf' bp = val buf bp + 1 := by
  cases bp with
  | zero => simp only [val]; exact hcur
  | succ k =>
    simp only [val]
    rw [hcur, hpre k (by omega), val_congr buf buf' k (fun j hj => hpre j (by omega))]
    omega

/-- the encoder state denotes the ideal low end `L` exactly -/
def Exact (e : Enc) (L : Nat) : Prop :=
  val e.buf e.bp * 134217728 + e.c * 2 ^ e.ct.toNat = L * 2 ^ e.ct.toNat

/-- `byteout()` is value preserving: with `Q = val·2^27 + c` before (scale `ct = 0`), afterwards
`val'·2^27 + c'·2^ct' = Q·2^ct'` — in all four branches (after 0xFF, plain, carry, carry making 0xFF). -/
theorem byteout_val (e : Enc) (x : Nat) (hb : BufOk e.buf e.bp) (hx1 : 1 ≤ x) (hx2 : x ≤ 65536)
    (hA : e.c + x ≤ 150994944)
    (hB : 1 ≤ e.bp → rd e.buf (e.bp - 1) = 255 → rd e.buf e.bp * 134217728 + e.c + x ≤ 19327352832) :
    ∀ e', byteout e = some e' →
      val e'.buf e'.bp * 134217728 + e'.c * 2 ^ e'.ct.toNat =
        (val e.buf e.bp * 134217728 + e.c) * 2 ^ e'.ct.toNat := by
  have hb256 := hb.bytes e.bp
  intro e' he'
  unfold byteout at he'
  simp only [if_neg (show ¬ e.bp ≥ e.buf.size from by have := hb.inb; omega), rd_some e.buf e.bp hb.inb] at he'
  by_cases hff : rd e.buf e.bp = 255
  · rw [if_pos hff] at he'
    injection he' with he'; subst he'
    have hnb : u8 (e.c / 2 ^ 20) = e.c / 2 ^ 20 := by unfold u8; omega
    obtain ⟨hok, hlast, hpre⟩ := push_ok e.buf e.bp (u8 (e.c / 2 ^ 20)) hb (by unfold u8; omega)
      (by intro _; rw [hnb]; omega)
    have hv := val_push e.buf _ e.bp _ hlast hpre
    rw [if_pos hff] at hv
    show val _ (e.bp + 1) * 134217728 + e.c % 2 ^ 20 * 2 ^ (7 : Int).toNat = _ * 2 ^ (7 : Int).toNat
    rw [hv, pow7, hnb]; omega
  · rw [if_neg hff] at he'
    by_cases hc : e.c / 2 ^ 27 % 2 = 0
    · rw [if_pos hc] at he'
      injection he' with he'; subst he'
      have hnb : u8 (e.c / 2 ^ 19) = e.c / 2 ^ 19 := by unfold u8; omega
      obtain ⟨hok, hlast, hpre⟩ := push_ok e.buf e.bp (u8 (e.c / 2 ^ 19)) hb (by unfold u8; omega)
        (by intro h; exact absurd h hff)
      have hv := val_push e.buf _ e.bp _ hlast hpre
      rw [if_neg hff] at hv
      show val _ (e.bp + 1) * 134217728 + e.c % 2 ^ 19 * 2 ^ (8 : Int).toNat = _ * 2 ^ (8 : Int).toNat
      rw [hv, pow8, hnb]; omega
    · rw [if_neg hc] at he'
      have hb1 : u8 (rd e.buf e.bp + 1) = rd e.buf e.bp + 1 := by unfold u8; omega
      obtain ⟨hok1, hcur1, hpre1⟩ := inc_ok e.buf e.bp (u8 (rd e.buf e.bp + 1)) hb (by unfold u8; omega)
        (by intro h1 h255; have := hB h1 h255; rw [hb1]; omega)
      -- the incremented byte adds exactly one unit of its LSB
      have hvinc := val_inc e.buf _ e.bp (by rw [hcur1, hb1]) hpre1
      by_cases hff1 : u8 (rd e.buf e.bp + 1) = 255
      · rw [if_pos hff1] at he'
        injection he' with he'; subst he'
        have hnb : u8 (e.c % 2 ^ 27 / 2 ^ 20) = e.c % 2 ^ 27 / 2 ^ 20 := by unfold u8; omega
        obtain ⟨hok, hlast, hpre⟩ := push_ok _ e.bp (u8 (e.c % 2 ^ 27 / 2 ^ 20)) hok1 (by unfold u8; omega)
          (by intro _; rw [hnb]; omega)
        have hv := val_push _ _ e.bp _ hlast hpre
        rw [hcur1, if_pos hff1, hvinc] at hv
        show val _ (e.bp + 1) * 134217728 + e.c % 2 ^ 27 % 2 ^ 20 * 2 ^ (7 : Int).toNat = _ * 2 ^ (7 : Int).toNat
        rw [hv, pow7, hnb]; omega
      · rw [if_neg hff1] at he'
        injection he' with he'; subst he'
        obtain ⟨hok, hlast, hpre⟩ := push_ok _ e.bp (u8 (e.c / 2 ^ 19)) hok1 (by unfold u8; omega)
          (by intro h; rw [hcur1] at h; exact absurd h hff1)
        have hv := val_push _ _ e.bp _ hlast hpre
        rw [hcur1, if_neg hff1, hvinc] at hv
        show val _ (e.bp + 1) * 134217728 + e.c % 2 ^ 19 * 2 ^ (8 : Int).toNat = _ * 2 ^ (8 : Int).toNat
        rw [hv, pow8]; unfold u8; omega

/-! ### the ideal (unbounded-precision) encoder and the exactness of the code-shaped one -/

/-- ideal encoder state: exact low end `L` and width `a` of the current interval, in current units -/
structure IEnc where
  L : Nat
  a : Nat

/-- ideal renormalisation: double until `a ≥ 0x8000` (fuel as in `renormeLoop`) -/
def irenorm : Nat → IEnc → IEnc
  | 0, i => i
  | f + 1, i => if i.a < 0x8000 then irenorm f { L := i.L * 2, a := i.a * 2 } else i

/-- ideal coding step for a decision with LPS probability `qe`; `m` = "the decision is the MPS".
Same sub-interval choice and conditional exchange as `encodeCore`: the LPS sub-interval is the lower one. -/
def iencStep (i : IEnc) (qe : Nat) (m : Bool) : IEnc :=
  if m then
    if (i.a - qe) / 0x8000 % 2 = 0 then
      if i.a - qe < qe then irenorm 16 { L := i.L, a := qe } else irenorm 16 { L := i.L + qe, a := i.a - qe }
    else { L := i.L + qe, a := i.a - qe }
  else
    if i.a - qe < qe then irenorm 16 { L := i.L + qe, a := i.a - qe } else irenorm 16 { L := i.L, a := qe }

theorem exact_shift (e : Enc) (L : Nat) (a' : Nat) (h : Exact e L) (hct : 1 ≤ e.ct) :
    Exact { e with a := a', c := e.c * 2, ct := e.ct - 1 } (L * 2) := by
  unfold Exact at h ⊢
  have h1 : e.ct.toNat = (e.ct - 1).toNat + 1 := by omega
  rw [h1, Nat.pow_succ] at h
  show val e.buf e.bp * 134217728 + e.c * 2 * 2 ^ (e.ct - 1).toNat = L * 2 * 2 ^ (e.ct - 1).toNat
  rw [Nat.mul_assoc e.c, Nat.mul_assoc L, Nat.mul_comm 2]
  exact h

/-- `renorme()` keeps the state exact: it performs the ideal renormalisation on `(L, a)` -/
theorem renormeLoop_exact : ∀ (fuel : Nat) (e : Enc) (L : Nat), RegOk e → Exact e L →
    ∀ e', renormeLoop fuel e = some e' →
      Exact e' (irenorm fuel { L := L, a := e.a }).L ∧ e'.a = (irenorm fuel { L := L, a := e.a }).a := by
  intro fuel
  induction fuel with
  | zero =>
    intro e L h hx e' he'
    rw [renormeLoop] at he'
    split at he'
    · exact absurd he' (by simp)
    · injection he' with he'; subst he'; exact ⟨hx, rfl⟩
  | succ fuel ih =>
    intro e L h hx e' he'
    have hap := h.apos; have hah := h.ahi; have hcl := h.ctlo; have hch := h.cthi
    rw [renormeLoop] at he'
    rw [irenorm]
    by_cases hlt : e.a < 0x8000
    · rw [if_pos hlt] at he'
      simp only [if_pos hlt]
      have hcA := c_lt_of_A (pow_pos2 _) h.A
      have ha2 : u32 (e.a * 2) = e.a * 2 := by unfold u32; omega
      have hc2 : u32 (e.c * 2) = e.c * 2 := by unfold u32; omega
      have hA1 : (e.c * 2 + e.a * 2) * 2 ^ (e.ct - 1).toNat ≤ 150994944 := by
        rw [scale_step _ _ _ h.ctlo]; exact h.A
      have hx1 := exact_shift e L (e.a * 2) hx h.ctlo
      simp only [ha2, hc2] at he'
      by_cases hz : e.ct - 1 = 0
      · rw [if_pos hz] at he'
        have hA0 : e.c * 2 + e.a * 2 ≤ 150994944 := by
          rw [hz, show (2:Nat) ^ (0:Int).toNat = 1 from rfl, Nat.mul_one] at hA1; exact hA1
        have hB0 : 1 ≤ e.bp → rd e.buf (e.bp - 1) = 255 →
            rd e.buf e.bp * 134217728 + e.c * 2 + e.a * 2 ≤ 19327352832 := by
          intro h1 h255
          have := h.B h1 h255
          rw [← scale_step _ _ _ h.ctlo, hz, show (2:Nat) ^ (0:Int).toNat = 1 from rfl, Nat.mul_one] at this
          rw [Nat.add_assoc]; exact this
        obtain ⟨e2, he2, hbuf2, hbp2, ha2', hctx2, hct2, hA2, hB2⟩ :=
          byteout_spec { e with a := e.a * 2, c := e.c * 2, ct := e.ct - 1 } (e.a * 2) h.buf
            (by omega) (by omega) hA0 hB0
        have hv2 := byteout_val { e with a := e.a * 2, c := e.c * 2, ct := e.ct - 1 } (e.a * 2) h.buf
            (by omega) (by omega) hA0 hB0 e2 he2
        rw [he2] at he'
        simp only [] at hbp2 ha2' hctx2 he' hv2
        have hr2 : RegOk e2 := by
          refine ⟨hbuf2, by omega, by omega, by omega, by omega, ?_, ?_, ?_⟩
          · rw [ha2']; exact hA2
          · intro _ h255; rw [ha2']; exact hB2 h255
          · rw [hctx2]; exact h.ctx
        have hx2 : Exact e2 (L * 2) := by
          unfold Exact at hx1 ⊢
          rw [hv2]
          have : val e.buf e.bp * 134217728 + e.c * 2 = L * 2 := by
            have h0 := hx1
            simp only [] at h0
            rw [hz, show (2:Nat) ^ (0:Int).toNat = 1 from rfl, Nat.mul_one, Nat.mul_one] at h0
            exact h0
          rw [this]
        have := ih e2 (L * 2) hr2 hx2 e' he'
        rw [ha2'] at this
        exact this
      · rw [if_neg hz] at he'
        have hr1 : RegOk { e with a := e.a * 2, c := e.c * 2, ct := e.ct - 1 } := by
          refine ⟨h.buf, ?_, ?_, ?_, ?_, hA1, ?_, h.ctx⟩
          · show 0 < e.a * 2; omega
          · show e.a * 2 < 65536; omega
          · show 1 ≤ e.ct - 1; omega
          · show e.ct - 1 ≤ 13; omega
          · intro h1 h255
            have := h.B h1 h255
            rw [← scale_step _ _ _ h.ctlo] at this
            exact this
        exact ih _ (L * 2) hr1 hx1 e' he'
    · rw [if_neg hlt] at he'
      simp only [if_neg hlt]
      injection he' with he'; subst he'; exact ⟨hx, rfl⟩

/-- replacing `(a, c)` by a sub-interval whose exact low end is `L'`, then renormalising -/
theorem renorm_after_exact (e : Enc) (h : RegOk e) (a' c' L' : Nat) (ctx' : Array Nat) (ha0 : 0 < a') (ha1 : a' < 65536)
    (hsum : c' + a' ≤ e.c + e.a) (hctx : CtxOk ctx')
    (hx : val e.buf e.bp * 134217728 + c' * 2 ^ e.ct.toNat = L' * 2 ^ e.ct.toNat) :
    ∀ e', renorme { e with a := a', c := c', ctx := ctx' } = some e' →
      Exact e' (irenorm 16 { L := L', a := a' }).L ∧ e'.a = (irenorm 16 { L := L', a := a' }).a := by
  have hmono : (c' + a') * 2 ^ e.ct.toNat ≤ (e.c + e.a) * 2 ^ e.ct.toNat := Nat.mul_le_mul_right _ hsum
  have hr : RegOk { e with a := a', c := c', ctx := ctx' } := by
    refine ⟨h.buf, ha0, ha1, h.ctlo, h.cthi, Nat.le_trans hmono h.A, ?_, hctx⟩
    intro h1 h255
    have := h.B h1 h255
    show rd e.buf e.bp * 134217728 + (c' + a') * 2 ^ e.ct.toNat ≤ 19327352832
    omega
  intro e' he'
  exact renormeLoop_exact 16 _ L' hr hx e' he'

theorem exact_add (e : Enc) (L q : Nat) (hx : Exact e L) :
    val e.buf e.bp * 134217728 + (e.c + q) * 2 ^ e.ct.toNat = (L + q) * 2 ^ e.ct.toNat := by
  unfold Exact at hx
  rw [Nat.add_mul, Nat.add_mul, ← Nat.add_assoc, hx]

/-- **one `Encode` is exact**: it performs the ideal step on `(L, a)` -/
theorem encodeCore_exact (e : Enc) (bit cx cxv qe nmps nlps sw L : Nat) (h : RegOk e) (hn : 0x8000 ≤ e.a)
    (hcxv : cxv < 256) (q2 : 1 ≤ qe) (q3 : qe ≤ 0x5601) (m2 : nmps < 47) (l2 : nlps < 47) (hx : Exact e L) :
    ∀ e', encodeCore e bit cx cxv qe nmps nlps sw = some e' →
      Exact e' (iencStep { L := L, a := e.a } qe (decide (bit = cxv / 128))).L ∧
      e'.a = (iencStep { L := L, a := e.a } qe (decide (bit = cxv / 128))).a := by
  have hah := h.ahi
  have hcA := c_lt_of_A (pow_pos2 _) h.A
  have hsub : sub32 e.a qe = e.a - qe := sub32_eq _ _ (by omega) (by omega)
  have hcq : u32 (e.c + qe) = e.c + qe := by unfold u32; omega
  have hadd := exact_add e L qe hx
  intro e' he'
  unfold encodeCore at he'
  rw [hsub, hcq] at he'
  unfold iencStep
  by_cases hbit : bit = cxv / 128
  · rw [if_pos hbit] at he'
    simp only [hbit, decide_true, if_true]
    have hctx' : CtxOk (e.ctx.setIfInBounds cx (u8 (nmps + u8 (cxv / 128 * 128)))) :=
      ctxOk_set _ _ _ h.ctx (by unfold u8; omega)
    by_cases hren : (e.a - qe) / 0x8000 % 2 = 0
    · rw [if_pos hren] at he'
      simp only [if_pos hren]
      by_cases hxq : e.a - qe < qe
      · rw [if_pos hxq] at he'
        simp only [if_pos hxq]
        exact renorm_after_exact e h qe e.c L _ (by omega) (by omega) (by omega) hctx' hx e' he'
      · rw [if_neg hxq] at he'
        simp only [if_neg hxq]
        exact renorm_after_exact e h (e.a - qe) (e.c + qe) (L + qe) _ (by omega) (by omega) (by omega) hctx' hadd e' he'
    · rw [if_neg hren] at he'
      simp only [if_neg hren]
      injection he' with he'; subst he'
      exact ⟨hadd, rfl⟩
  · rw [if_neg hbit] at he'
    simp only [hbit, decide_false]
    have hctx' : CtxOk (e.ctx.setIfInBounds cx
        (u8 (nlps + u8 ((if sw = 1 then 1 - cxv / 128 else cxv / 128) * 128)))) :=
      ctxOk_set _ _ _ h.ctx (by unfold u8; split <;> omega)
    by_cases hxq : e.a - qe < qe
    · rw [if_pos hxq] at he'
      simp only [if_pos hxq]
      exact renorm_after_exact e h (e.a - qe) (e.c + qe) (L + qe) _ (by omega) (by omega) (by omega) hctx' hadd e' he'
    · rw [if_neg hxq] at he'
      simp only [if_neg hxq]
      exact renorm_after_exact e h qe e.c L _ (by omega) (by omega) (by omega) hctx' hx e' he'

/-- the probability `qe` and the MPS-ness of a decision, read from the encoder's context state
(the same reads as `encode`) -/
def stepOf (ctx : Array Nat) (bit cx : Nat) : Option (Nat × Bool) :=
  match ctx[cx]? with
  | none => none
  | some v =>
    match lookup (v % 128) with
    | none => none
    | some (qe, _, _, _) => some (qe, decide (bit = v / 128))

/-- the ideal encoder run next to the code-shaped one (which supplies the adaptive contexts) -/
def idealRun : Enc → IEnc → List (Nat × Nat) → Option IEnc
  | _, i, [] => some i
  | e, i, (bit, cx) :: ds =>
    match stepOf e.ctx bit cx, encode e bit cx with
    | some (qe, m), some e' => idealRun e' (iencStep i qe m) ds
    | _, _ => none

theorem encode_exact (e : Enc) (bit cx L : Nat) (h : RegOk e) (hn : 0x8000 ≤ e.a) (hcx : cx < e.ctx.size)
    (hx : Exact e L) :
    ∃ e' qe m, encode e bit cx = some e' ∧ stepOf e.ctx bit cx = some (qe, m) ∧
      RegOk e' ∧ 0x8000 ≤ e'.a ∧ e'.ctx.size = e.ctx.size ∧
      Exact e' (iencStep { L := L, a := e.a } qe m).L ∧ e'.a = (iencStep { L := L, a := e.a } qe m).a := by
  obtain ⟨hst, hcx256⟩ := h.ctx cx
  obtain ⟨qe, nmps, nlps, sw, hlk, q2, q3, m2, l2, s2⟩ := lookup_wf (rd e.ctx cx % 128) hst
  have heq := encode_eq e bit cx _ qe nmps nlps sw (rd_some e.ctx cx hcx) hlk
  obtain ⟨e', he', hr', ha', hs', _⟩ := encodeCore_spec e bit cx (rd e.ctx cx) qe nmps nlps sw h hn hcx256 q2 q3 m2 l2 s2
  have hex := encodeCore_exact e bit cx (rd e.ctx cx) qe nmps nlps sw L h hn hcx256 q2 q3 m2 l2 hx e' he'
  refine ⟨e', qe, decide (bit = rd e.ctx cx / 128), by rw [heq]; exact he', ?_, hr', ha', hs', hex.1, hex.2⟩
  unfold stepOf
  rw [rd_some e.ctx cx hcx]
  simp only [hlk]

/-- **every run of the encoder is exact**: after any decision sequence the emitted bytes plus the code
register denote exactly the ideal low end, and `a` is the ideal width -/
theorem encodeAll_exact : ∀ (ds : List (Nat × Nat)) (e : Enc) (L : Nat), RegOk e → 0x8000 ≤ e.a → Exact e L →
    (∀ d ∈ ds, d.2 < e.ctx.size) →
    ∃ e' i', encodeAll e ds = some e' ∧ idealRun e { L := L, a := e.a } ds = some i' ∧
      RegOk e' ∧ 0x8000 ≤ e'.a ∧ Exact e' i'.L ∧ e'.a = i'.a := by
  intro ds
  induction ds with
  | nil => intro e L h hn hx _; exact ⟨e, _, rfl, rfl, h, hn, hx, rfl⟩
  | cons d ds ih =>
    intro e L h hn hx hds
    obtain ⟨bit, cx⟩ := d
    obtain ⟨e1, qe, m, he1, hst, hr1, hn1, hs1, hx1, ha1⟩ :=
      encode_exact e bit cx L h hn (hds (bit, cx) List.mem_cons_self) hx
    obtain ⟨e2, i2, he2, hi2, hr2, hn2, hx2, ha2⟩ := ih e1 _ hr1 hn1 hx1
      (by intro d hd; rw [hs1]; exact hds d (List.mem_cons_of_mem _ hd))
    refine ⟨e2, i2, ?_, ?_, hr2, hn2, hx2, ha2⟩
    · rw [encodeAll, he1]; exact he2
    · rw [idealRun, hst, he1]
      simp only []
      rw [ha1] at hi2
      exact hi2

theorem exact_new (n : Nat) : Exact (Enc.new n) 0 := by
  unfold Exact Enc.new
  simp only [val]
  show rd #[0] 0 * 134217728 + 0 * 2 ^ (12 : Int).toNat = 0 * 2 ^ (12 : Int).toNat
  simp [rd]

end Mqc
