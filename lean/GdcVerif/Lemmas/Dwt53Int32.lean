import GdcVerif.Lemmas.Dwt53Levels
/-!
  int32 reading of the 2D / multilevel 5/3 transform: under a magnitude bound that grows by
  `M ↦ 4M+3` per level no int32 operation wraps, so the `Go.wrap32` model (= the Go code) equals the
  integer model level by level, and therefore round-trips.
-/
namespace Dwt53

/-- two 1D transforms agree on every row of the window ⇒ the horizontal passes agree -/
theorem rowPass_congr {n : Nat} (f f' : Xf) (data : Vector Int n) (width height stride : Nat) (even : Bool)
    (hfit : 0 < height → (height - 1) * stride + width ≤ n) (hw : 1 < width) (hws : width ≤ stride)
    (h : ∀ y, y < height → f (rowFn data width stride y) even (by omega) = f' (rowFn data width stride y) even (by omega)) :
    rowPass f data width height stride even hfit hw = rowPass f' data width height stride even hfit hw := by
  have h1 := rowPass_spec f data width height stride even hfit hw hws
  have h2 := rowPass_spec f' data width height stride even hfit hw hws
  apply ext_toFn
  intro p _
  by_cases hex : ∃ y, y < height ∧ ∃ x, x < width ∧ p = y * stride + x
  · obtain ⟨y, hy, x, hx, rfl⟩ := hex
    rw [h1.1 y hy x hx, h2.1 y hy x hx, get_congr (h y hy)]
  · have hne : ∀ y, y < height → ∀ x, x < width → p ≠ y * stride + x :=
      fun y hy x hx heq => hex ⟨y, hy, x, hx, heq⟩
    rw [h1.2 p hne, h2.2 p hne]

theorem colPass_congr {n : Nat} (f f' : Xf) (data : Vector Int n) (width height stride : Nat) (even : Bool)
    (hfit : 0 < width → (height - 1) * stride + width ≤ n) (hh : 1 < height) (hws : width ≤ stride)
    (h : ∀ x, x < width → f (colFn data height stride x) even (by omega) = f' (colFn data height stride x) even (by omega)) :
    colPass f data width height stride even hfit hh = colPass f' data width height stride even hfit hh := by
  have h1 := colPass_spec f data width height stride even hfit hh hws
  have h2 := colPass_spec f' data width height stride even hfit hh hws
  apply ext_toFn
  intro p _
  by_cases hex : ∃ x, x < width ∧ ∃ y, y < height ∧ p = y * stride + x
  · obtain ⟨x, hx, y, hy, rfl⟩ := hex
    rw [h1.1 x hx y hy, h2.1 x hx y hy, get_congr (h x hx)]
  · have hne : ∀ x, x < width → ∀ y, y < height → p ≠ y * stride + x :=
      fun x hx y hy heq => hex ⟨x, hx, y, hy, heq⟩
    rw [h1.2 p hne, h2.2 p hne]

/-- a pass whose 1D outputs are bounded by `B ≥ M` keeps a buffer bounded by `M` within `B` -/
theorem rowPass_bnd {n : Nat} (f : Xf) (data : Vector Int n) (width height stride : Nat) (even : Bool)
    (hfit : 0 < height → (height - 1) * stride + width ≤ n) (hw : 1 < width) (hws : width ≤ stride)
    {M B : Int} (hMB : M ≤ B) (hd : Bnd M (toFn data))
    (h : ∀ y, y < height → Bnd B (toFn (f (rowFn data width stride y) even (by omega)))) :
    Bnd B (toFn (rowPass f data width height stride even hfit hw)) := by
  have h1 := rowPass_spec f data width height stride even hfit hw hws
  intro p
  by_cases hex : ∃ y, y < height ∧ ∃ x, x < width ∧ p = y * stride + x
  · obtain ⟨y, hy, x, hx, rfl⟩ := hex
    rw [h1.1 y hy x hx, get_eq_toFn]
    exact h y hy x
  · have hne : ∀ y, y < height → ∀ x, x < width → p ≠ y * stride + x :=
      fun y hy x hx heq => hex ⟨y, hy, x, hx, heq⟩
    rw [h1.2 p hne]
    have := hd p; omega

theorem colPass_bnd {n : Nat} (f : Xf) (data : Vector Int n) (width height stride : Nat) (even : Bool)
    (hfit : 0 < width → (height - 1) * stride + width ≤ n) (hh : 1 < height) (hws : width ≤ stride)
    {M B : Int} (hMB : M ≤ B) (hd : Bnd M (toFn data))
    (h : ∀ x, x < width → Bnd B (toFn (f (colFn data height stride x) even (by omega)))) :
    Bnd B (toFn (colPass f data width height stride even hfit hh)) := by
  have h1 := colPass_spec f data width height stride even hfit hh hws
  intro p
  by_cases hex : ∃ x, x < width ∧ ∃ y, y < height ∧ p = y * stride + x
  · obtain ⟨x, hx, y, hy, rfl⟩ := hex
    rw [h1.1 x hx y hy, get_eq_toFn]
    exact h x hx y
  · have hne : ∀ x, x < width → ∀ y, y < height → p ≠ y * stride + x :=
      fun x hx y hy heq => hex ⟨x, hx, y, hy, heq⟩
    rw [h1.2 p hne]
    have := hd p; omega

theorem rowFn_bnd {n : Nat} (data : Vector Int n) (width stride y : Nat) {M : Int} (hd : Bnd M (toFn data)) :
    ∀ k (h : k < width), -M ≤ (rowFn data width stride y)[k] ∧ (rowFn data width stride y)[k] ≤ M := by
  intro k h; rw [rowFn_get]; exact hd _

theorem colFn_bnd {n : Nat} (data : Vector Int n) (height stride x : Nat) {M : Int} (hd : Bnd M (toFn data)) :
    ∀ k (h : k < height), -M ≤ (colFn data height stride x)[k] ∧ (colFn data height stride x)[k] ≤ M := by
  intro k h; rw [colFn_get]; exact hd _

/-- one forward 2D level in int32 arithmetic = the integer model, for `|data| ≤ M`, `4M+3 ≤ 2^29-1`;
the result is bounded by `4M+3` -/
theorem forward53_2d_int32 {n : Nat} (data : Vector Int n) (width height stride : Nat) (evenRow evenCol : Bool)
    (hws : width ≤ stride) {M : Int} (hM0 : 0 ≤ M) (hM : 4 * M + 3 ≤ 536870911) (hd : Bnd M (toFn data)) :
    forward53_2d Go.wrap32 data width height stride evenRow evenCol =
      forward53_2d id data width height stride evenRow evenCol ∧
    ∀ d, forward53_2d id data width height stride evenRow evenCol = some d → Bnd (4 * M + 3) (toFn d) := by
  unfold forward53_2d
  by_cases hsmall : width ≤ 1 ∧ height ≤ 1
  · simp only [if_pos hsmall, true_and]
    intro d hdd; injection hdd with hdd; subst hdd
    intro p; have := hd p; omega
  · simp only [if_neg hsmall]
    by_cases hf : fits n width height stride
    · simp only [dif_pos hf]
      -- vertical pass
      have hcolEq : ∀ (hh : 1 < height),
          colPass (forward53_1d' Go.wrap32) data width height stride evenCol (fun _ => by unfold fits at hf; omega) hh =
          colPass (forward53_1d' id) data width height stride evenCol (fun _ => by unfold fits at hf; omega) hh := by
        intro hh
        apply colPass_congr _ _ _ _ _ _ _ _ hh hws
        intro x hx
        exact (forward53_1d_int32 _ evenCol (by omega) hM0 (by omega) (colFn_bnd data height stride x hd)).1
      have hcolB : ∀ (hh : 1 < height), Bnd (2 * M + 1)
          (toFn (colPass (forward53_1d' id) data width height stride evenCol (fun _ => by unfold fits at hf; omega) hh)) := by
        intro hh
        apply colPass_bnd _ _ _ _ _ _ _ hh hws (by omega) hd
        intro x hx
        exact (forward53_1d_int32 _ evenCol (by omega) hM0 (by omega) (colFn_bnd data height stride x hd)).2
      -- the buffer after the vertical pass (integer model) and its bound
      obtain ⟨d1, hd1w, hd1i, hd1B⟩ : ∃ d1 : Vector Int n,
          (if hh : 1 < height then colPass (forward53_1d' Go.wrap32) data width height stride evenCol
              (fun _ => by unfold fits at hf; omega) hh else data) = d1 ∧
          (if hh : 1 < height then colPass (forward53_1d' id) data width height stride evenCol
              (fun _ => by unfold fits at hf; omega) hh else data) = d1 ∧ Bnd (2 * M + 1) (toFn d1) := by
        by_cases hh : 1 < height
        · exact ⟨_, by rw [dif_pos hh, hcolEq hh], by rw [dif_pos hh], hcolB hh⟩
        · exact ⟨data, by rw [dif_neg hh], by rw [dif_neg hh], by intro p; have := hd p; omega⟩
      simp only [hd1w, hd1i]
      by_cases hw : 1 < width
      · simp only [dif_pos hw]
        have hrowEq : rowPass (forward53_1d' Go.wrap32) d1 width height stride evenRow (fun _ => by unfold fits at hf; omega) hw =
            rowPass (forward53_1d' id) d1 width height stride evenRow (fun _ => by unfold fits at hf; omega) hw := by
          apply rowPass_congr _ _ _ _ _ _ _ _ hw hws
          intro y hy
          exact (forward53_1d_int32 _ evenRow (by omega) (by omega) (by omega) (rowFn_bnd d1 width stride y hd1B)).1
        refine ⟨by rw [hrowEq], ?_⟩
        intro d hdd; injection hdd with hdd; subst hdd
        have := rowPass_bnd (forward53_1d' id) d1 width height stride evenRow (fun _ => by unfold fits at hf; omega) hw hws
          (M := 2 * M + 1) (B := 2 * (2 * M + 1) + 1) (by omega) hd1B
          (by
            intro y hy
            exact (forward53_1d_int32 _ evenRow (by omega) (by omega) (by omega) (rowFn_bnd d1 width stride y hd1B)).2)
        intro p; have := this p; omega
      · simp only [dif_neg hw, true_and]
        intro d hdd; injection hdd with hdd; subst hdd
        intro p; have := hd1B p; omega
    · simp only [dif_neg hf, true_and]
      intro d hdd; exact absurd hdd (by simp)

/-- one inverse 2D level in int32 arithmetic undoes the (integer = int32) forward level -/
theorem inverse53_2d_int32 {n : Nat} (data d2 : Vector Int n) (width height stride : Nat) (evenRow evenCol : Bool)
    (hws : width ≤ stride) {M : Int} (hM0 : 0 ≤ M) (hM : 4 * M + 3 ≤ 536870911) (hd : Bnd M (toFn data))
    (hfw : forward53_2d id data width height stride evenRow evenCol = some d2) :
    inverse53_2d Go.wrap32 d2 width height stride evenRow evenCol = some data := by
  have hB2 := (forward53_2d_int32 data width height stride evenRow evenCol hws hM0 hM hd).2 d2 hfw
  -- the integer inverse restores `data`
  have hid := inverse53_forward53_2d data width height stride evenRow evenCol hws
  rw [hfw, Option.bind_some] at hid
  unfold forward53_2d at hfw
  unfold inverse53_2d at hid ⊢
  by_cases hsmall : width ≤ 1 ∧ height ≤ 1
  · rw [if_pos hsmall] at hfw hid ⊢
    rw [if_pos (Or.inl hsmall)] at hid
    exact hid
  · rw [if_neg hsmall] at hfw hid ⊢
    by_cases hf : fits n width height stride
    · rw [dif_pos hf] at hfw hid ⊢
      rw [if_pos (Or.inr hf)] at hid
      injection hfw with hfw
      -- D1 := buffer after the forward vertical pass
      obtain ⟨d1, hd1, hd1B⟩ : ∃ d1 : Vector Int n,
          (if hh : 1 < height then colPass (forward53_1d' id) data width height stride evenCol
              (fun _ => by unfold fits at hf; omega) hh else data) = d1 ∧ Bnd (2 * M + 1) (toFn d1) := by
        by_cases hh : 1 < height
        · refine ⟨_, by rw [dif_pos hh], ?_⟩
          apply colPass_bnd _ _ _ _ _ _ _ hh hws (by omega) hd
          intro x hx
          exact (forward53_1d_int32 _ evenCol (by omega) hM0 (by omega) (colFn_bnd data height stride x hd)).2
        · exact ⟨data, by rw [dif_neg hh], by intro p; have := hd p; omega⟩
      simp only [hd1] at hfw
      -- horizontal inverse pass: wrap32 = id on `d2`, and it restores `d1`
      have hr1 : (if hw : 1 < width then rowPass (inverse53_1d' Go.wrap32) d2 width height stride evenRow
            (fun _ => by unfold fits at hf; omega) hw else d2) = d1 := by
        by_cases hw : 1 < width
        · rw [dif_pos hw]
          rw [dif_pos hw] at hfw
          have heq : rowPass (inverse53_1d' Go.wrap32) d2 width height stride evenRow (fun _ => by unfold fits at hf; omega) hw =
              rowPass (inverse53_1d' id) d2 width height stride evenRow (fun _ => by unfold fits at hf; omega) hw := by
            apply rowPass_congr _ _ _ _ _ _ _ _ hw hws
            intro y hy
            exact inverse53_1d_int32 _ evenRow (by omega) (B := 4 * M + 3) (by omega) hM
              (bnd_toFn _ (by omega) (rowFn_bnd d2 width stride y hB2))
          rw [heq, ← hfw]
          exact rowPass_cancel _ _ cancels_id d1 width height stride evenRow _ hw hws
        · rw [dif_neg hw]
          rw [dif_neg hw] at hfw
          exact hfw.symm
      simp only [hr1]
      -- vertical inverse pass on `d1`
      by_cases hh : 1 < height
      · simp only [dif_pos hh]
        rw [dif_pos hh] at hd1
        have heq : colPass (inverse53_1d' Go.wrap32) d1 width height stride evenCol (fun _ => by unfold fits at hf; omega) hh =
            colPass (inverse53_1d' id) d1 width height stride evenCol (fun _ => by unfold fits at hf; omega) hh := by
          apply colPass_congr _ _ _ _ _ _ _ _ hh hws
          intro x hx
          exact inverse53_1d_int32 _ evenCol (by omega) (B := 2 * M + 1) (by omega) (by omega)
            (bnd_toFn _ (by omega) (colFn_bnd d1 height stride x hd1B))
        rw [heq, ← hd1]
        congr 1
        exact colPass_cancel _ _ cancels_id data width height stride evenCol _ hh hws
      · simp only [dif_neg hh]
        rw [dif_neg hh] at hd1
        rw [hd1]
    · rw [dif_neg hf] at hfw
      exact absurd hfw (by simp)

/-- magnitude bound after `L` levels starting from `M`: `M ↦ 4M+3` per level (`= 4^L·(M+1) - 1`) -/
def bndL : Nat → Int → Int
  | 0, M => M
  | L + 1, M => bndL L (4 * M + 3)

theorem bndL_mono : ∀ (L : Nat) (M : Int), 0 ≤ M → M ≤ bndL L M := by
  intro L
  induction L with
  | zero => intro M _; exact Int.le_refl _
  | succ L ih => intro M h; have := ih (4 * M + 3) (by omega); simp only [bndL]; omega

/-- the forward level loop in int32 arithmetic = the integer model, while `bndL levels M ≤ 2^29 - 1` -/
theorem forwardLevels_int32 {n : Nat} (stride : Nat) (levels : Nat) :
    ∀ (win : Window) (data : Vector Int n) (M : Int), WinOk n stride win → 0 ≤ M → bndL levels M ≤ 536870911 →
      Bnd M (toFn data) →
      forwardLevels Go.wrap32 stride levels data win = forwardLevels id stride levels data win := by
  induction levels with
  | zero => intro win data M _ _ _ _; rfl
  | succ L ih =>
    intro win data M hok hM0 hML hd
    obtain ⟨cw, ch, cx, cy⟩ := win
    have hmono := bndL_mono L (4 * M + 3) (by omega)
    simp only [bndL] at hML
    rw [forwardLevels, forwardLevels]
    by_cases hs : cw ≤ 1 ∧ ch ≤ 1
    · rw [if_pos hs, if_pos hs]
    · rw [if_neg hs, if_neg hs]
      have h2 := forward53_2d_int32 data cw.toNat ch.toNat stride (Gen.J2kWavelet.isEven cx) (Gen.J2kWavelet.isEven cy)
        hok.2.1 hM0 (by omega) hd
      rw [h2.1]
      cases hfw : forward53_2d id data cw.toNat ch.toNat stride (Gen.J2kWavelet.isEven cx) (Gen.J2kWavelet.isEven cy) with
      | none => rfl
      | some d1 =>
        exact ih (nextWindow (cw, ch, cx, cy)) d1 (4 * M + 3) (winOk_next hok) (by omega) hML (h2.2 d1 hfw)

/-- the inverse level loop in int32 arithmetic undoes the forward level loop -/
theorem inverseLevels_int32 {n : Nat} (stride : Nat) (levels : Nat) :
    ∀ (win : Window) (data dF : Vector Int n) (M : Int), WinOk n stride win → 0 ≤ M → bndL levels M ≤ 536870911 →
      Bnd M (toFn data) → forwardLevels id stride levels data win = some dF →
      inverseLevels Go.wrap32 stride (windows levels win) dF = some data := by
  induction levels with
  | zero =>
    intro win data dF M _ _ _ _ hfw
    rw [forwardLevels] at hfw; injection hfw with hfw; subst hfw; rfl
  | succ L ih =>
    intro win data dF M hok hM0 hML hd hfw
    obtain ⟨cw, ch, cx, cy⟩ := win
    have hmono := bndL_mono L (4 * M + 3) (by omega)
    simp only [bndL] at hML
    rw [forwardLevels] at hfw
    by_cases hs : cw ≤ 1 ∧ ch ≤ 1
    · rw [if_pos hs] at hfw
      injection hfw with hfw; subst hfw
      exact inverseLevels_small_wr Go.wrap32 stride (L + 1) (cw, ch, cx, cy) data hs
    · rw [if_neg hs] at hfw
      have h2 := forward53_2d_int32 data cw.toNat ch.toNat stride (Gen.J2kWavelet.isEven cx) (Gen.J2kWavelet.isEven cy)
        hok.2.1 hM0 (by omega) hd
      cases hfw2 : forward53_2d id data cw.toNat ch.toNat stride (Gen.J2kWavelet.isEven cx) (Gen.J2kWavelet.isEven cy) with
      | none => rw [hfw2] at hfw; exact absurd hfw (by simp)
      | some d1 =>
        rw [hfw2] at hfw
        simp only [] at hfw
        have hrest := ih (nextWindow (cw, ch, cx, cy)) d1 dF (4 * M + 3) (winOk_next hok) (by omega) hML
          (h2.2 d1 hfw2) hfw
        rw [windows, inverseLevels, hrest]
        exact inverse53_2d_int32 data d1 cw.toNat ch.toNat stride (Gen.J2kWavelet.isEven cx) (Gen.J2kWavelet.isEven cy)
          hok.2.1 hM0 (by omega) hd hfw2

/-- **int32 reading of the multilevel round trip**: for `|data| ≤ M` with `bndL levels M ≤ 2^29 - 1`
(i.e. `4^levels·(M+1) ≤ 2^29`) the transform computed in Go's int32 arithmetic round-trips -/
theorem inverse53_forward53_multilevel_int32 {n : Nat} (data : Vector Int n) (width height levels : Nat) (x0 y0 : Int)
    (hn : height * width ≤ n) {M : Int} (hM0 : 0 ≤ M) (hML : bndL levels M ≤ 536870911) (hd : Bnd M (toFn data)) :
    (forwardMultilevel Go.wrap32 data width height levels x0 y0).bind
        (fun d => inverseMultilevel Go.wrap32 d width height levels x0 y0) = some data := by
  have hok : WinOk n width ((width : Int), (height : Int), x0, y0) := ⟨by simp, by simp, by simp, by simpa using hn⟩
  have hid := inverseLevels_forwardLevels width levels (width, height, x0, y0) data hok
  unfold forwardMultilevel inverseMultilevel
  rw [forwardLevels_int32 width levels _ data M hok hM0 hML hd]
  cases hfw : forwardLevels id width levels data (width, height, x0, y0) with
  | none => rw [hfw] at hid; exact absurd hid (by simp)
  | some dF =>
    rw [Option.bind_some]
    exact inverseLevels_int32 width levels _ data dF M hok hM0 hML hd hfw

/-- 16-bit signed samples survive 6 levels, 12-bit ones 8 levels, without int32 overflow -/
theorem bndL_examples : bndL 6 32768 ≤ 536870911 ∧ bndL 8 2048 ≤ 536870911 ∧ bndL 5 65535 ≤ 536870911 := by decide

end Dwt53
