import GdcVerif.Spec.T81H
import GdcVerif.Model.JpegLossless
import GdcVerif.Lemmas.JpegLossless
/-! Lemmas relating the code model (`JLL`, `Gen.JpegLossless`) to the Annex H spec (`T81H`). -/
namespace T81H

theorem two_pow_succ (c : Nat) : (2:Nat) ^ (c + 1) = 2 * 2 ^ c := by
  rw [Nat.pow_succ]; omega

/-- Table H.2: for a ≥ 1 (and enough fuel) SSSS is the bit length -/
theorem ssssAux_spec : ∀ (fuel a : Nat), 1 ≤ a → a < 2 ^ fuel →
    1 ≤ ssssAux a fuel ∧ 2 ^ (ssssAux a fuel - 1) ≤ a ∧ a < 2 ^ (ssssAux a fuel) := by
  intro fuel
  induction fuel with
  | zero => intro a h1 h2; simp at h2; omega
  | succ f ih =>
    intro a h1 h2
    unfold ssssAux
    rw [if_neg (by omega)]
    by_cases h : a / 2 = 0
    · have ha : a = 1 := by omega
      subst ha
      cases f <;> simp [ssssAux]
    · rw [two_pow_succ] at h2
      obtain ⟨k1, k2, k3⟩ := ih (a / 2) (by omega) (by omega)
      generalize ssssAux (a / 2) f = s at *
      refine ⟨by omega, ?_, ?_⟩
      · have : 1 + s - 1 = (s - 1) + 1 := by omega
        rw [this, two_pow_succ]; omega
      · have : 1 + s = s + 1 := by omega
        rw [this, two_pow_succ]; omega

theorem ssss_zero : ssss 0 = 0 := by decide

/-- EXTEND ∘ (additional bits) is the identity on the differences of Table H.2 -/
theorem extend_extraBits (d : Int) (hlo : -32767 ≤ d) (hhi : d ≤ 32768) :
    extend (extraBits d).1 (ssss d) = d ∧ ssss d ≤ 16 ∧ (extraBits d).1 < 2 ^ (extraBits d).2 ∧
    (ssss d = 16 ↔ d = 32768) := by
  by_cases h0 : d = 0
  · subst h0; decide
  by_cases hm : d = 32768
  · subst hm; decide
  have habs : 1 ≤ d.natAbs ∧ d.natAbs < 2 ^ 17 ∧ d.natAbs ≤ 32767 := by omega
  obtain ⟨k1, k2, k3⟩ := ssssAux_spec 17 d.natAbs habs.1 habs.2.1
  have hs : ssss d = ssssAux d.natAbs 17 := rfl
  have hle : ssss d ≤ 15 := by
    rw [hs]
    refine Decidable.byContradiction fun hn => ?_
    have : (2:Nat) ^ 15 ≤ 2 ^ (ssssAux d.natAbs 17 - 1) := Nat.pow_le_pow_right (by decide) (by omega)
    omega
  rw [← hs] at k1 k2 k3
  generalize hsd : ssss d = s at *
  -- N = 2^(s-1), 2^s = 2N, as naturals and as integers
  obtain ⟨N, hN⟩ : ∃ N : Nat, N = 2 ^ (s - 1) := ⟨_, rfl⟩
  have hp : (2:Nat) ^ s = 2 * N := by
    rw [hN, ← two_pow_succ]; congr 1; omega
  have hpi : ((2:Int) ^ s) = 2 * (N : Int) := by
    have : ((2:Int) ^ s) = ((2 ^ s : Nat) : Int) := by simp
    rw [this, hp]; simp
  rw [← hN] at k2
  rw [hp] at k3
  have hs0 : ¬ (s = 0 ∨ s = 16) := by omega
  have hx : extraBits d = (if d > 0 then ((d % 2 ^ s).toNat, s) else (((d - 1) % 2 ^ s).toNat, s)) := by
    unfold extraBits; simp only [hsd]; rw [if_neg hs0]
  rw [hx]
  by_cases hpos : d > 0
  · rw [if_pos hpos]
    simp only
    have e : d % (2:Int) ^ s = d := by rw [hpi]; exact Int.emod_eq_of_lt (by omega) (by omega)
    rw [e]
    refine ⟨?_, by omega, by rw [hp]; omega, by omega⟩
    unfold extend
    rw [if_neg (by omega), if_neg (by omega), ← hN, if_neg (by omega)]
    omega
  · rw [if_neg hpos]
    simp only
    have e : (d - 1) % (2:Int) ^ s = d - 1 + 2 * (N : Int) := by
      rw [hpi, ← Int.add_emod_right]
      exact Int.emod_eq_of_lt (by omega) (by omega)
    rw [e]
    refine ⟨?_, by omega, by rw [hp]; omega, by omega⟩
    unfold extend
    rw [if_neg (by omega), if_neg (by omega), ← hN, if_pos (by omega), hpi]
    omega

/-- the spec's per-sample round trip: any prediction, any sample below 2^16 -/
theorem sample_roundtrip (x p : Int) (hx : 0 ≤ x ∧ x < 65536) :
    decodeSample p (encodeSample x p).1 (encodeSample x p).2.1 = x := by
  unfold decodeSample encodeSample
  simp only
  have hr := diff_range x p
  rw [(extend_extraBits (diff x p) hr.1 hr.2).1]
  exact recon_diff x p hx

/-! ### code vs spec: predictor table -/

theorem predictor_agrees (sel : Nat) (ra rb rc : Int) (h : 1 ≤ sel ∧ sel ≤ 7) :
    Gen.JpegLossless.Predictor (sel : Int) ra rb rc = predictor sel ra rb rc := by
  have : sel = 1 ∨ sel = 2 ∨ sel = 3 ∨ sel = 4 ∨ sel = 5 ∨ sel = 6 ∨ sel = 7 := by omega
  rcases this with h|h|h|h|h|h|h <;> subst h <;>
    simp [Gen.JpegLossless.Predictor, predictor, JLL.shr1]

theorem shl_pow (P : Nat) (hP : 1 ≤ P) : Go.shl 1 ((P : Int) - 1) = (2:Int) ^ (P - 0 - 1) := by
  have : ((P : Int) - 1) = ((P - 1 : Nat) : Int) := by omega
  rw [this]; simp [Go.shl]

/-- the code's prediction (jpeg/lossless since fix 946feeb) equals the standard's H.1.2.1 prediction at
    EVERY position, for every predictor 1..7 -/
theorem encPredicted_conforms (P sel row col : Nat) (nb : JLL.Nb) (hP : 1 ≤ P) (hs : 1 ≤ sel ∧ sel ≤ 7) :
    JLL.encPredicted P sel row col nb = px P 0 sel row col nb.left nb.up nb.upLeft := by
  unfold JLL.encPredicted px
  simp only
  rw [shl_pow P hP]
  generalize (2:Int) ^ (P - 0 - 1) = H
  by_cases hr : row = 0 <;> by_cases hc : col = 0
  · subst hr; subst hc; simp
  · subst hr
    have hc' : (col : Int) > 0 := by omega
    have hc'' : ¬ ((col : Int) = 0) := by omega
    simp [hc, hc', hc'']
  · subst hc
    have hr' : (row : Int) > 0 := by omega
    have hr'' : ¬ ((row : Int) = 0) := by omega
    simp [hr, hr', hr'']
  · have hr' : (row : Int) > 0 := by omega
    have hc' : (col : Int) > 0 := by omega
    have hr'' : ¬ ((row : Int) = 0) := by omega
    have hc'' : ¬ ((col : Int) = 0) := by omega
    simp only [hr, hc, hr', hc', hr'', hc'', if_true, if_false, and_self, true_and, false_and]
    exact predictor_agrees sel _ _ _ hs

/-- SV1 (selection value 1) follows the standard's rule at every position -/
theorem sv1Predicted_conforms (P row col : Nat) (nb : JLL.Nb) (hP : 1 ≤ P) :
    JLL.sv1Predicted P row col nb = px P 0 1 row col nb.left nb.up nb.upLeft := by
  rw [JLL.sv1Predicted_eq_enc P row col nb (by omega) (by omega)]
  have := encPredicted_conforms P 1 row col nb hP (by omega)
  simpa using this

end T81H
