import GdcVerif.Lemmas.T1LazySeg
/-!
  C20 — the pass loops of `EncodeLayered` / `DecodeLayeredWithMode` under LAZY, segment by segment.
-/
namespace T1
open Gen

theorem passG_false (w h orient : Nat) (V : Array Int) (n pt : Nat) (st : EncSt) :
    passG false w h orient V n pt st = passE w h orient V n pt st := by
  unfold passG passE
  match pt with
  | 0 => exact encSigPropR_false _ _ _ _ _ _
  | 1 => exact encMagRefR_false _ _ _ _ _
  | _ + 2 => rfl

theorem passDG_false (w h orient : Nat) (n pt : Nat) (st : DecSt) :
    passDG false w h orient n pt st = passD w h orient n pt st := by
  unfold passDG passD
  match pt with
  | 0 => exact decSigPropR_false _ _ _ _ _
  | 1 => exact decMagRefR_false _ _ _ _
  | _ + 2 => rfl

theorem passG_true (w h orient : Nat) (V : Array Int) (n pt : Nat) (hpt : pt ≤ 1) (st : EncSt) :
    passG true w h orient V n pt st = passER w h orient V n pt st := by
  rcases (show pt = 0 ∨ pt = 1 by omega) with rfl | rfl <;> rfl

theorem passDG_true (w h orient : Nat) (n pt : Nat) (hpt : pt ≤ 1) (st : DecSt) :
    passDG true w h orient n pt st = passDR w h orient n pt st := by
  rcases (show pt = 0 ∨ pt = 1 by omega) with rfl | rfl <;> rfl

theorem startG_false (prevT : Bool) (st : EncSt) : startG false prevT st = restartIf prevT st := by
  unfold startG restartIf; simp

theorem segE_low (style pt : Nat) (hpt : pt ≤ 1) (st : EncSt) : segE style pt st = some st := by
  unfold segE; rw [if_neg (fun hh => by omega)]

theorem segD_low (style pt : Nat) (hpt : pt ≤ 1) (st : DecSt) : segD style pt st = some st := by
  unfold segD; rw [if_neg (fun hh => by omega)]

/-- an MQ pass that ends its codeword segment -/
theorem encLoopL_stepM (w h orient style : Nat) (V : Array Int) (mb np f : Nat) (st : EncSt) (n pi pt : Nat)
    (prevT : Bool) (acc : List PassRec) (hpt : pt ≤ 2) (hc : pi < np)
    (hraw : J2kT1.isLazyRawPass (n : Int) (mb : Int) (pt : Int) (style : Int) = false)
    (hterm : J2kT1.isTerminatingPass (n : Int) (mb : Int) (pt : Int) (style : Int) = true) :
    encLoopL w h orient style V mb np (f + 1) st (n : Int) pi pt prevT acc =
      (passE w h orient V n pt (restartIf prevT (cvE pi pt st))).bind fun st =>
        (segE style pt st).bind fun st =>
          (termMq style st.mq).bind fun m =>
            (resetE style { st with mq := m }).bind fun st =>
              if pt = 2 then encLoopL w h orient style V mb np f st ((n : Int) - 1) (pi + 1) 0 true
                (acc ++ [(numBytes st.mq, true)])
              else encLoopL w h orient style V mb np f st (n : Int) (pi + 1) (pt + 1) true
                (acc ++ [(numBytes st.mq, true)]) := by
  rw [encLoopL_stepG w h orient style V mb np f st n pi pt prevT acc hpt hc, hraw, hterm, passG_false, startG_false]
  unfold termG rateG
  simp only [if_true]
  cases passE w h orient V n pt (restartIf prevT (cvE pi pt st)) with
  | none => rfl
  | some st1 =>
    simp only [Option.bind_some]
    cases segE style pt st1 with
    | none => rfl
    | some st2 =>
      simp only [Option.bind_some, Bool.false_eq_true, if_false]
      cases termMq style st2.mq with
      | none => rfl
      | some m => rfl

/-- a raw pass that ends its codeword segment -/
theorem encLoopL_stepR1 (w h orient style : Nat) (V : Array Int) (mb np f : Nat) (st : EncSt) (n pi pt : Nat)
    (prevT : Bool) (acc : List PassRec) (hpt : pt ≤ 1) (hc : pi < np)
    (hraw : J2kT1.isLazyRawPass (n : Int) (mb : Int) (pt : Int) (style : Int) = true)
    (hterm : J2kT1.isTerminatingPass (n : Int) (mb : Int) (pt : Int) (style : Int) = true) :
    encLoopL w h orient style V mb np (f + 1) st (n : Int) pi pt prevT acc =
      (passER w h orient V n pt (cvE pi pt (startG true prevT st))).bind fun st =>
        (Mqc.bypassFlushEnc st.mq (styPterm style)).bind fun m =>
          (resetE style { st with mq := m }).bind fun st =>
            encLoopL w h orient style V mb np f st (n : Int) (pi + 1) (pt + 1) true (acc ++ [(numBytes st.mq, true)]) := by
  rw [encLoopL_stepG w h orient style V mb np f st n pi pt prevT acc (by omega) hc, hraw, hterm, passG_true _ _ _ _ _ _ hpt,
    cv_startG]
  unfold termG rateG
  simp only [if_true]
  cases passER w h orient V n pt (cvE pi pt (startG true prevT st)) with
  | none => rfl
  | some st1 =>
    simp only [Option.bind_some, segE_low style pt hpt]
    cases Mqc.bypassFlushEnc st1.mq (styPterm style) with
    | none => rfl
    | some m =>
      simp only [Option.map_some, Option.bind_some]
      cases resetE style { flags := st1.flags, mq := m } with
      | none => rfl
      | some st3 =>
        simp only [Option.bind_some]
        rw [if_neg (by omega)]

/-- the raw significance pass in front of the raw refinement pass of the same segment -/
theorem encLoopL_stepR0 (w h orient style : Nat) (V : Array Int) (mb np f : Nat) (st : EncSt) (n pi : Nat)
    (prevT : Bool) (acc : List PassRec) (hc : pi < np)
    (hraw : J2kT1.isLazyRawPass (n : Int) (mb : Int) ((0 : Nat) : Int) (style : Int) = true)
    (hterm : J2kT1.isTerminatingPass (n : Int) (mb : Int) ((0 : Nat) : Int) (style : Int) = false) :
    encLoopL w h orient style V mb np (f + 1) st (n : Int) pi 0 prevT acc =
      (passER w h orient V n 0 (cvE pi 0 (startG true prevT st))).bind fun st =>
        (resetE style st).bind fun st =>
          (bypassExtraBytes st.mq (styPterm style)).bind fun x =>
            encLoopL w h orient style V mb np f st (n : Int) (pi + 1) 1 false (acc ++ [(numBytes st.mq + x, false)]) := by
  rw [encLoopL_stepG w h orient style V mb np f st n pi 0 prevT acc (by omega) hc, hraw, hterm, passG_true _ _ _ _ _ _ (by omega),
    cv_startG]
  unfold termG rateG
  simp only [Bool.false_eq_true, if_false, if_true]
  cases passER w h orient V n 0 (cvE pi 0 (startG true prevT st)) with
  | none => rfl
  | some st1 =>
    simp only [Option.bind_some, segE_low style 0 (by omega)]
    cases resetE style st1 with
    | none => rfl
    | some st3 =>
      simp only [Option.bind_some]
      cases bypassExtraBytes st3.mq (styPterm style) with
      | none => rfl
      | some x =>
        simp only [Option.map_some, Option.bind_some]
        rfl

/-- the decoder at an MQ pass that is a codeword segment of its own -/
theorem decLoopL_stepM (w h orient style : Nat) (u reset : Bool) (mbI : Int) (PL : List Nat) (bytes : List Nat)
    (f : Nat) (s : LDec) (n pi pt : Nat) (hpt : pt ≤ 2) (hc : pi < PL.length) (hns : s.newSegment = true)
    (hraw : J2kT1.isLazyRawPass (n : Int) mbI (pt : Int) (style : Int) = false)
    (hterm : (u || J2kT1.isTerminatingPass (n : Int) mbI (pt : Int) (style : Int)) = true) :
    decLoopL w h orient style u reset mbI PL bytes (f + 1) s (n : Int) pi pt =
      match PL[pi]? with
      | none => .panic
      | some currentEnd =>
        if currentEnd < s.prevEnd ∨ currentEnd > bytes.length then .err
        else
          match segDecoder pi reset ((bytes.take currentEnd).drop s.prevEnd) s.prevCtx with
          | none => .panic
          | some d =>
            match (passD w h orient n pt { cvD pi pt s.st with mq := d }).bind (segD style pt) with
            | none => .panic
            | some st' =>
              let s' : LDec := { st := st', prevEnd := currentEnd,
                                 prevCtx := if ¬ reset = true then st'.mq.ctx else s.prevCtx, newSegment := true }
              if pt = 2 then decLoopL w h orient style u reset mbI PL bytes f s' ((n : Int) - 1) (pi + 1) 0
              else decLoopL w h orient style u reset mbI PL bytes f s' (n : Int) (pi + 1) (pt + 1) := by
  rw [decLoopL_stepG w h orient style u reset mbI PL bytes f s n pi pt hpt hc, hraw, hterm]
  unfold coderG
  rw [if_pos hns, segLast_term _ _ _ _ _ _ hterm]
  cases PL[pi]? with
  | none => rfl
  | some ce =>
    simp only []
    by_cases hce : ce < s.prevEnd ∨ ce > bytes.length
    · rw [if_pos hce, if_pos hce]
    · rw [if_neg hce, if_neg hce]
      simp only [Bool.false_eq_true, if_false]
      cases segDecoder pi reset (List.drop s.prevEnd (List.take ce bytes)) s.prevCtx with
      | none => rfl
      | some d =>
        simp only [passDG_false, not_false_eq_true, true_and]
        rfl

/-- the decoder at a raw pass that is a codeword segment of its own -/
theorem decLoopL_stepR1 (w h orient style : Nat) (u reset : Bool) (mbI : Int) (PL : List Nat) (bytes : List Nat)
    (f : Nat) (s : LDec) (n pi pt : Nat) (hpt : pt ≤ 1) (hc : pi < PL.length) (hns : s.newSegment = true)
    (hraw : J2kT1.isLazyRawPass (n : Int) mbI (pt : Int) (style : Int) = true)
    (hterm : (u || J2kT1.isTerminatingPass (n : Int) mbI (pt : Int) (style : Int)) = true) :
    decLoopL w h orient style u reset mbI PL bytes (f + 1) s (n : Int) pi pt =
      match PL[pi]? with
      | none => .panic
      | some currentEnd =>
        if currentEnd < s.prevEnd ∨ currentEnd > bytes.length then .err
        else
          match passDR w h orient n pt { cvD pi pt s.st with mq := Mqc.Dec.newRaw ((bytes.take currentEnd).drop s.prevEnd) } with
          | none => .panic
          | some st' =>
            decLoopL w h orient style u reset mbI PL bytes f
              { st := st', prevEnd := currentEnd, prevCtx := s.prevCtx, newSegment := true } (n : Int) (pi + 1) (pt + 1) := by
  rw [decLoopL_stepG w h orient style u reset mbI PL bytes f s n pi pt (by omega) hc, hraw, hterm]
  unfold coderG
  rw [if_pos hns, segLast_term _ _ _ _ _ _ hterm]
  cases PL[pi]? with
  | none => rfl
  | some ce =>
    simp only []
    by_cases hce : ce < s.prevEnd ∨ ce > bytes.length
    · rw [if_pos hce, if_pos hce]
    · rw [if_neg hce, if_neg hce]
      simp only [if_true, passDG_true _ _ _ _ _ hpt]
      cases passDR w h orient n pt { flags := (cvD pi pt s.st).flags, data := (cvD pi pt s.st).data, mq := Mqc.Dec.newRaw (List.drop s.prevEnd (List.take ce bytes)) } with
      | none => rfl
      | some st' =>
        simp only [Option.bind_some, segD_low style pt hpt, not_true_eq_false, false_and, if_false]
        rw [if_neg (by omega)]

/-- the decoder at the raw significance pass that opens a two-pass raw segment -/
theorem decLoopL_stepR0 (w h orient style : Nat) (u reset : Bool) (mbI : Int) (PL : List Nat) (bytes : List Nat)
    (f : Nat) (s : LDec) (n pi : Nat) (hc : pi + 1 < PL.length) (hns : s.newSegment = true)
    (hraw : J2kT1.isLazyRawPass (n : Int) mbI ((0 : Nat) : Int) (style : Int) = true)
    (hterm0 : (u || J2kT1.isTerminatingPass (n : Int) mbI ((0 : Nat) : Int) (style : Int)) = false)
    (hterm1 : (u || J2kT1.isTerminatingPass (n : Int) mbI ((1 : Nat) : Int) (style : Int)) = true) :
    decLoopL w h orient style u reset mbI PL bytes (f + 1) s (n : Int) pi 0 =
      match PL[pi + 1]? with
      | none => .panic
      | some currentEnd =>
        if currentEnd < s.prevEnd ∨ currentEnd > bytes.length then .err
        else
          match passDR w h orient n 0 { cvD pi 0 s.st with mq := Mqc.Dec.newRaw ((bytes.take currentEnd).drop s.prevEnd) } with
          | none => .panic
          | some st' =>
            decLoopL w h orient style u reset mbI PL bytes f
              { st := st', prevEnd := currentEnd, prevCtx := s.prevCtx, newSegment := false } (n : Int) (pi + 1) 1 := by
  rw [decLoopL_stepG w h orient style u reset mbI PL bytes f s n pi 0 (by omega) (by omega), hraw, hterm0]
  unfold coderG
  rw [if_pos hns]
  have hsl : segLast (fun b p => u || J2kT1.isTerminatingPass b mbI (p : Int) (style : Int)) PL.length PL.length pi (n : Int) 0 = pi + 1 := by
    obtain ⟨L, hL⟩ : ∃ L, PL.length = L + 1 := ⟨PL.length - 1, by omega⟩
    rw [hL]
    conv => lhs; unfold segLast
    rw [if_pos ⟨by omega, by rw [hterm0]; simp⟩, if_neg (by omega)]
    exact segLast_term _ _ _ _ _ _ hterm1
  rw [hsl]
  cases PL[pi + 1]? with
  | none => rfl
  | some ce =>
    simp only []
    by_cases hce : ce < s.prevEnd ∨ ce > bytes.length
    · rw [if_pos hce, if_pos hce]
    · rw [if_neg hce, if_neg hce]
      simp only [if_true, passDG_true _ _ _ _ _ (show 0 ≤ 1 by omega)]
      cases passDR w h orient n 0 { flags := (cvD pi 0 s.st).flags, data := (cvD pi 0 s.st).data, mq := Mqc.Dec.newRaw (List.drop s.prevEnd (List.take ce bytes)) } with
      | none => rfl
      | some st' =>
        simp only [Option.bind_some, segD_low style 0 (by omega), not_true_eq_false, false_and, if_false]
        rfl

/-- the decoder at the raw refinement pass that continues a raw segment -/
theorem decLoopL_stepRc (w h orient style : Nat) (u reset : Bool) (mbI : Int) (PL : List Nat) (bytes : List Nat)
    (f : Nat) (s : LDec) (n pi : Nat) (hc : pi < PL.length) (hns : s.newSegment = false)
    (hraw : J2kT1.isLazyRawPass (n : Int) mbI ((1 : Nat) : Int) (style : Int) = true)
    (hterm : (u || J2kT1.isTerminatingPass (n : Int) mbI ((1 : Nat) : Int) (style : Int)) = true) :
    decLoopL w h orient style u reset mbI PL bytes (f + 1) s (n : Int) pi 1 =
      match passDR w h orient n 1 s.st with
      | none => .panic
      | some st' =>
        decLoopL w h orient style u reset mbI PL bytes f
          { st := st', prevEnd := s.prevEnd, prevCtx := s.prevCtx, newSegment := true } (n : Int) (pi + 1) 2 := by
  rw [decLoopL_stepG w h orient style u reset mbI PL bytes f s n pi 1 (by omega) hc, hraw, hterm]
  unfold coderG
  rw [if_neg (by rw [hns]; simp), if_neg (by simp)]
  simp only [passDG_true _ _ _ _ _ (show 1 ≤ 1 by omega)]
  have hcv : ({ cvD pi 1 s.st with mq := s.st.mq } : DecSt) = s.st := by
    unfold cvD; rw [if_neg (by omega)]
  rw [hcv]
  cases passDR w h orient n 1 s.st with
  | none => rfl
  | some st' =>
    simp only [Option.bind_some, segD_low style 1 (by omega), not_true_eq_false, false_and, if_false]
    rfl

end T1
