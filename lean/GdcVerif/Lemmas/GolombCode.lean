import GdcVerif.Model.Golomb
import GdcVerif.Lemmas.GoBits
/-!
  Bit-level lemmas for the limited-length Golomb code model (`Model/Golomb.lean`):
  what `WriteBits(v, n)` appends is read back by `takeBits`, unary prefixes by `countZeros`,
  and the round trip `decodeValue ∘ encodeWrites` (incl. the >31-bit prefix split and the escape path).
-/
namespace JpegLsLemmasAux
theorem two_pow_mono' {a b : Nat} (h : a ≤ b) : (2 : Int) ^ a ≤ 2 ^ b := by
  have := Nat.pow_le_pow_right (by decide : 0 < 2) h
  exact_mod_cast this
end JpegLsLemmasAux

namespace Golomb

theorem length_bitsOf (v : Nat) : ∀ n, (bitsOf v n).length = n
  | 0 => rfl
  | n + 1 => by simp [bitsOf, length_bitsOf v n]

theorem foldl_bitsOf (v : Nat) : ∀ (n a : Nat),
    (bitsOf v n).foldl (fun a b => 2 * a + (if b then 1 else 0)) a = a * 2 ^ n + v % 2 ^ n
  | 0, a => by simp [bitsOf, Nat.mod_one]
  | n + 1, a => by
    simp only [bitsOf, List.foldl_cons]
    rw [foldl_bitsOf v n]
    rw [Nat.mod_pow_succ, Nat.testBit_eq_decide_div_mod_eq]
    have h2 : v / 2 ^ n % 2 = 0 ∨ v / 2 ^ n % 2 = 1 := by omega
    rcases h2 with h | h <;> simp [h, Nat.pow_succ, Nat.add_mul, Nat.mul_assoc, Nat.mul_comm, Nat.add_comm, Nat.add_left_comm]
    all_goals omega

theorem natOfBits_bitsOf (v n : Nat) : natOfBits (bitsOf v n) = v % 2 ^ n := by
  unfold natOfBits; rw [foldl_bitsOf]; simp

theorem takeBits_bitsOf (v n : Nat) (rest : List Bool) :
    takeBits n (bitsOf v n ++ rest) = some (v % 2 ^ n, rest) := by
  unfold takeBits
  have hl := length_bitsOf v n
  have : ¬ (bitsOf v n ++ rest).length < n := by simp [hl]
  simp only [this, if_false]
  rw [List.take_left' hl, List.drop_left' hl, natOfBits_bitsOf]

theorem bitsOf_zero : ∀ n, bitsOf 0 n = List.replicate n false
  | 0 => rfl
  | n + 1 => by simp [bitsOf, bitsOf_zero n, List.replicate_succ]

/-- `WriteBits(1, n+1)`: n zeros then a one -/
theorem bitsOf_one : ∀ n, bitsOf 1 (n + 1) = List.replicate n false ++ [true]
  | 0 => by decide
  | n + 1 => by
    have ih := bitsOf_one n
    show Nat.testBit 1 (n + 1) :: bitsOf 1 (n + 1) = _
    rw [ih]
    have : Nat.testBit 1 (n + 1) = false := by
      rw [Nat.testBit_eq_decide_div_mod_eq]
      have : 1 / 2 ^ (n + 1) = 0 := Nat.div_eq_of_lt (Nat.one_lt_two_pow (by omega))
      simp [this]
    rw [this]; rfl

theorem countZeros_replicate : ∀ (z a : Nat) (rest : List Bool), a + z ≤ 1000 →
    countZeros (List.replicate z false ++ true :: rest) a = some (a + z, rest)
  | 0, a, rest, _ => by simp [countZeros]
  | z + 1, a, rest, h => by
    simp only [List.replicate_succ, List.cons_append, countZeros]
    have : ¬ a + 1 > 1000 := by omega
    simp only [this, if_false]
    rw [countZeros_replicate z (a + 1) rest (by omega)]
    congr 2; omega

end Golomb

namespace Golomb

theorem writesBits_append (a b : List (Nat × Int)) : writesBits (a ++ b) = writesBits a ++ writesBits b := by
  simp [writesBits, List.flatMap_append]

theorem writesBits_single (v : Nat) (n : Int) : writesBits [(v, n)] = bitsOf v n.toNat := by
  simp [writesBits]

theorem writesBits_nil : writesBits [] = [] := rfl

/-- `WriteZeros(n)` appends n zero bits -/
theorem writesBits_zeros : ∀ (f : Nat) (n : Int), n.toNat ≤ f →
    writesBits (zerosWrites f n) = List.replicate n.toNat false
  | 0, n, h => by
    have : n.toNat = 0 := by omega
    simp [zerosWrites, writesBits, this]
  | f + 1, n, h => by
    unfold zerosWrites
    by_cases hn : n > 0
    · simp only [hn, if_true]
      have hc : (0 : Int) < (if n > 31 then 31 else n) ∧ (if n > 31 then 31 else n) ≤ n := by
        split <;> omega
      generalize (if n > 31 then (31 : Int) else n) = chunk at *
      have e : (0, chunk) :: zerosWrites f (n - chunk) = [(0, chunk)] ++ zerosWrites f (n - chunk) := rfl
      rw [e, writesBits_append, writesBits_single, bitsOf_zero, writesBits_zeros f (n - chunk) (by omega),
        List.replicate_append_replicate]
      congr 1; omega
    · simp only [hn, if_false]
      have : n.toNat = 0 := by omega
      simp [writesBits, this]

theorem shr_eq' (x : Int) (k : Int) (hk : 0 ≤ k) : Go.shr x k = x / 2 ^ k.toNat := by
  unfold Go.shr; simp [Int.shiftRight_eq_div_pow]

/-- unary prefix written by `EncodeMappedValue` in the normal case: `h` zeros and a one, whether or
    not the prefix is split (> 31 bits) -/
theorem unary_bits (h : Int) (h0 : 0 ≤ h) :
    writesBits ((if h + 1 > 31 then zerosWrites (Int.tdiv h 2).toNat (Int.tdiv h 2) else []) ++
      [(1, (if h + 1 > 31 then h - Int.tdiv h 2 else h) + 1)]) = List.replicate h.toNat false ++ [true] := by
  rw [writesBits_append, writesBits_single]
  by_cases hs : h + 1 > 31
  · simp only [hs, if_true]
    rw [writesBits_zeros _ _ (Nat.le_refl _)]
    have ht : Int.tdiv h 2 = h / 2 := Int.tdiv_eq_ediv_of_nonneg h0
    rw [ht]
    have e : (h - h / 2 + 1).toNat = (h - h / 2).toNat + 1 := by omega
    rw [e, bitsOf_one, ← List.append_assoc, List.replicate_append_replicate]
    congr 2; omega
  · simp only [hs, if_false, writesBits_nil, List.nil_append]
    have e : (h + 1).toNat = h.toNat + 1 := by omega
    rw [e, bitsOf_one]

/-- the limited-length Golomb code round trip at bit level: `DecodeValue` reads back what
    `EncodeMappedValue` wrote and leaves the rest of the bit stream untouched -/
theorem code_roundtrip (k m limit qbpp : Int) (rest : List Bool)
    (hk : 0 ≤ k ∧ k ≤ 31) (hq : 1 ≤ qbpp ∧ qbpp ≤ 16) (hl : qbpp + 1 < limit ∧ limit ≤ 64)
    (hm : 0 ≤ m ∧ m - 1 < 2 ^ qbpp.toNat)
    (hesc : Go.shr m k ≥ limit - (qbpp + 1) → 1 ≤ m) :
    decodeValue k limit qbpp (writesBits (encodeWrites k m limit qbpp) ++ rest) = some (m, rest) := by
  have hshr := shr_eq' m k hk.1
  have hpk : (0 : Int) < 2 ^ k.toNat := Int.pow_pos (by decide)
  have hh0 : 0 ≤ m / 2 ^ k.toNat := Int.ediv_nonneg hm.1 (by omega)
  unfold encodeWrites
  simp only []
  rw [hshr] at hesc ⊢
  generalize hH : m / 2 ^ k.toNat = h at *
  by_cases hn : h < limit - (qbpp + 1)
  · -- normal case
    simp only [hn, if_true]
    rw [writesBits_append, unary_bits h hh0]
    unfold decodeValue
    rw [List.append_assoc, List.append_assoc, List.singleton_append,
      countZeros_replicate h.toNat 0 _ (by omega)]
    have hcast : ((0 + h.toNat : Nat) : Int) = h := by omega
    simp only [hcast]
    have : ¬ h ≥ limit - (qbpp + 1) := by omega
    simp only [this, if_false]
    by_cases hk0 : k = 0
    · subst hk0
      simp only [Int.lt_irrefl, if_false, writesBits_nil, List.nil_append, if_true]
      have : m = h := by rw [← hH]; simp
      rw [this]
    · have hkp : k > 0 := by omega
      simp only [hkp, if_true, hk0, if_false, writesBits_single]
      have hr0 := Int.emod_nonneg m (by omega : (2 : Int) ^ k.toNat ≠ 0)
      have hr1 := Int.emod_lt_of_pos m hpk
      have hk16 : (2 : Int) ^ k.toNat ≤ 2 ^ 31 := JpegLsLemmasAux.two_pow_mono' (by omega)
      have hlt : (m % 2 ^ k.toNat).toNat < M32 := by
        unfold M32; simp only [Int.reducePow] at hk16; omega
      rw [Nat.mod_eq_of_lt hlt, takeBits_bitsOf]
      have hmod : ((m % 2 ^ k.toNat).toNat % 2 ^ k.toNat : Nat) = (m % 2 ^ k.toNat).toNat := by
        apply Nat.mod_eq_of_lt
        have : (((m % 2 ^ k.toNat).toNat : Nat) : Int) < ((2 ^ k.toNat : Nat) : Int) := by
          rw [Int.toNat_of_nonneg hr0]; simpa using hr1
        exact Int.ofNat_lt.mp this
      simp only [hmod]
      rw [Int.toNat_of_nonneg hr0, ← hH]
      congr 2
      have := Int.mul_ediv_add_emod m (2 ^ k.toNat)
      rw [Int.mul_comm] at this
      exact this
  · -- escape
    simp only [hn, if_false]
    have hm1 : 1 ≤ m := hesc (by omega)
    rw [writesBits_append, writesBits_single]
    have hun : writesBits (if limit - qbpp > 31 then zerosWrites 31 31 ++ [(1, limit - qbpp - 31 - 1 + 1)]
        else [(1, limit - qbpp - 1 + 1)]) = List.replicate (limit - qbpp - 1).toNat false ++ [true] := by
      by_cases he : limit - qbpp > 31
      · simp only [he, if_true]
        rw [writesBits_append, writesBits_single, writesBits_zeros 31 31 (by decide)]
        have e : (limit - qbpp - 31 - 1 + 1).toNat = (limit - qbpp - 32).toNat + 1 := by omega
        rw [e, bitsOf_one, ← List.append_assoc, List.replicate_append_replicate]
        congr 2; omega
      · simp only [he, if_false, writesBits_single]
        have e : (limit - qbpp - 1 + 1).toNat = (limit - qbpp - 1).toNat + 1 := by omega
        rw [e, bitsOf_one]
    rw [hun]
    unfold decodeValue
    rw [List.append_assoc, List.append_assoc, List.singleton_append,
      countZeros_replicate (limit - qbpp - 1).toNat 0 _ (by omega)]
    have hcast : ((0 + (limit - qbpp - 1).toNat : Nat) : Int) = limit - qbpp - 1 := by omega
    simp only [hcast]
    have : limit - qbpp - 1 ≥ limit - (qbpp + 1) := by omega
    simp only [this, if_true]
    have hpq : (0 : Int) < 2 ^ qbpp.toNat := Int.pow_pos (by decide)
    have hmm : (m - 1) % 2 ^ qbpp.toNat = m - 1 := Int.emod_eq_of_lt (by omega) hm.2
    rw [hmm]
    have hq16 : (2 : Int) ^ qbpp.toNat ≤ 2 ^ 16 := JpegLsLemmasAux.two_pow_mono' (by omega)
    have hlt : (m - 1).toNat < M32 := by
      unfold M32; simp only [Int.reducePow] at hq16; omega
    rw [Nat.mod_eq_of_lt hlt, takeBits_bitsOf]
    have hmod : ((m - 1).toNat % 2 ^ qbpp.toNat : Nat) = (m - 1).toNat := by
      apply Nat.mod_eq_of_lt
      have : (((m - 1).toNat : Nat) : Int) < ((2 ^ qbpp.toNat : Nat) : Int) := by
        rw [Int.toNat_of_nonneg (by omega)]; simpa using hm.2
      exact Int.ofNat_lt.mp this
    simp only [hmod]
    congr 2
    omega

end Golomb
