import GdcVerif.Lemmas.T1LazyLoop
namespace T1
open Gen

theorem numBytes_eq (e : Mqc.Enc) (h1 : 1 ≤ e.bp) : numBytes e = e.bp - 1 := by
  unfold numBytes; rw [if_neg (by unfold Mqc.start; omega)]; rfl

section Step
variable (w h : Nat) (V : Array Int) (hV : ∀ j, (gi V j).natAbs < 2147483648)
include hV

/-- one MQ pass that is a codeword segment of its own, both loops -/
theorem mstep_lock (orient style mb np : Nat) (u : Bool) (f : Nat) (es : EncSt) (prevT : Bool) (bp pi pt : Nat)
    (hin : EncOkT w h V es prevT) (hst : StartOk (restartIf prevT es).mq) (hpt : pt ≤ 2) (hc : pi < np)
    (hraw : J2kT1.isLazyRawPass (bp : Int) (mb : Int) (pt : Int) (style : Int) = false)
    (hterm : J2kT1.isTerminatingPass (bp : Int) (mb : Int) (pt : Int) (style : Int) = true) :
    ∃ ef es4,
      (∀ acc, encLoopL w h orient style V mb np (f + 1) es (bp : Int) pi pt prevT acc =
        (if pt = 2 then encLoopL w h orient style V mb np f es4 ((bp : Int) - 1) (pi + 1) 0 true (acc ++ [(ef.bp - 1, true)])
         else encLoopL w h orient style V mb np f es4 (bp : Int) (pi + 1) (pt + 1) true (acc ++ [(ef.bp - 1, true)]))) ∧
      EncOkT w h V es4 true ∧ es4.mq.bp = ef.bp ∧ TermOk es4.mq ∧ (restartIf prevT es).mq.bp + 1 ≤ ef.bp ∧
      (styPterm style = false → (restartIf prevT es).mq.bp + 2 ≤ ef.bp) ∧
      (∀ (bytesF : List Nat), Agree bytesF es4.mq →
        Agree bytesF ef ∧ (∀ k, k + 1 ≤ (restartIf prevT es).mq.bp → bytesF[k]? = some (Mqc.rd es.mq.buf (k + 1))) ∧
          (0 < ef.bp - 1 → bytesF.getD (ef.bp - 1 - 1) 0 ≠ 0xFF)) ∧
      (∀ (bytesF PL : List Nat), Agree bytesF ef → PL[pi]? = some (ef.bp - 1) → pi < PL.length →
        ∀ (s : LDec), s.newSegment = true → s.prevEnd = (restartIf prevT es).mq.bp →
        CtxInv (styReset style) pi es.mq.ctx s.prevCtx → PInv w h V (fun _ _ => True) bp pi pt es s.st →
        ∃ ds3, Post w h V (fun _ _ => True) bp pt es4 ds3 ∧
          CtxInv (styReset style) (pi + 1) es4.mq.ctx (if ¬ styReset style = true then ds3.mq.ctx else s.prevCtx) ∧
          decLoopL w h orient style u (styReset style) (mb : Int) PL bytesF (f + 1) s (bp : Int) pi pt =
            (if pt = 2 then decLoopL w h orient style u (styReset style) (mb : Int) PL bytesF f
                { st := ds3, prevEnd := ef.bp - 1, prevCtx := if ¬ styReset style = true then ds3.mq.ctx else s.prevCtx, newSegment := true }
                ((bp : Int) - 1) (pi + 1) 0
             else decLoopL w h orient style u (styReset style) (mb : Int) PL bytesF f
                { st := ds3, prevEnd := ef.bp - 1, prevCtx := if ¬ styReset style = true then ds3.mq.ctx else s.prevCtx, newSegment := true }
                (bp : Int) (pi + 1) (pt + 1))) := by
  obtain ⟨hser, hflr, hctxr, hbufr, hprT, hprF⟩ := restartIf_ok w h V es prevT hin
  obtain ⟨es3, ef, es4, hbind, hef, he4, hok3, hfl4, hbuf4, hbp4, hterm4, hcsz4, hctx4a, hctx4b, hfroz, hbp2, hbp2', hlock⟩ :=
    tpass_lock w h V hV orient style bp pi pt hpt (restartIf prevT es) hser hst
  have hrate : numBytes es4.mq = ef.bp - 1 := by
    unfold numBytes; rw [if_neg (by rw [hbp4]; unfold Mqc.start; omega), hbp4]; rfl
  have hin4 : EncOkT w h V es4 true :=
    ⟨by rw [hfl4]; exact hok3.fsz, hok3.dsz, hcsz4, by simp only [if_true]; exact hterm4⟩
  refine ⟨ef, es4, ?_, hin4, hbp4, hterm4, hbp2, hbp2', ?_, ?_⟩
  · intro acc
    rw [encLoopL_stepM w h orient style V mb np f es bp pi pt prevT acc hpt hc hraw hterm, cv_restart]
    have hb := hbind
    cases hp : passE w h orient V bp pt (cvE pi pt (restartIf prevT es)) with
    | none => rw [hp] at hb; exact absurd hb (by simp)
    | some es2 =>
      rw [hp] at hb
      simp only [Option.bind_some] at hb ⊢
      rw [hb]; simp only [Option.bind_some]
      rw [hef]; simp only [Option.bind_some]
      rw [he4]; simp only [Option.bind_some]
      rw [hrate]
  · intro bytesF hag
    have hagf : Agree bytesF ef := ⟨fun k hk => by rw [← hbuf4]; exact hag.1 k (by rw [hbp4]; exact hk), by rw [← hbp4]; exact hag.2⟩
    refine ⟨hagf, ?_, ?_⟩
    · intro k hk
      rw [hagf.1 k (by omega), hfroz (k + 1) hk, hbufr]
    · intro hpos
      rw [List.getD_eq_getElem?_getD, hagf.1 (ef.bp - 1 - 1) (by omega)]
      have := hterm4.last
      rw [hbuf4, hbp4] at this
      rw [show ef.bp - 1 - 1 + 1 = ef.bp - 1 by omega]
      exact this
  · intro bytesF PL hagf hPL hpiL s hns hpe hci hP
    have hP' : PInv w h V (fun _ _ => True) bp pi pt (restartIf prevT es) s.st := by
      obtain ⟨lev, hLS, c0, c1, c2⟩ := hP
      exact ⟨lev, ⟨by rw [hflr]; exact hLS.fl, hLS.dsz, True.intro, by rw [hflr]; exact hLS.smp⟩,
        c0, by rw [hflr]; exact c1, by rw [hflr]; exact c2⟩
    obtain ⟨d0, hd0, ds3, hd3, hPost, hctx3⟩ := hlock bytesF hagf s.st hP'
    have hsd : segDecoder pi (styReset style) ((bytesF.take (ef.bp - 1)).drop s.prevEnd) s.prevCtx = some d0 := by
      unfold segDecoder
      rw [hpe]
      by_cases hc' : pi = 0 ∨ styReset style = true
      · rw [if_pos hc', dec_init_fresh, ← hci.1 hc', ← hctxr]; exact hd0
      · rw [if_neg hc']
        unfold decWithContexts
        rw [hci.2 hc', ← hctxr]; exact hd0
    refine ⟨ds3, hPost, ?_, ?_⟩
    · constructor
      · intro hc'
        rcases hc' with hc' | hc'
        · omega
        · exact hctx4a hc'
      · intro hc'
        have hr : styReset style = false := by
          cases hh : styReset style with
          | false => rfl
          | true => exact absurd (Or.inr hh) hc'
        rw [if_pos (by rw [hr]; simp), hctx3, hctx4b hr]
    · rw [decLoopL_stepM w h orient style u (styReset style) (mb : Int) PL bytesF f s bp pi pt hpt hpiL hns hraw (by rw [hterm]; simp), hPL]
      simp only []
      rw [if_neg (by rw [hpe]; have := hagf.2; omega), hsd]
      simp only []
      rw [hd3]

/-- one raw pass that is a codeword segment of its own, both loops -/
theorem rstep1_lock (orient style mb np : Nat) (u : Bool) (f : Nat) (es : EncSt) (bp pi pt : Nat)
    (hin : EncOkT w h V es true) (hpt : pt ≤ 1) (hc : pi < np) (hpi : 0 < pi)
    (hraw : J2kT1.isLazyRawPass (bp : Int) (mb : Int) (pt : Int) (style : Int) = true)
    (hterm : J2kT1.isTerminatingPass (bp : Int) (mb : Int) (pt : Int) (style : Int) = true) :
    ∃ ef es4,
      (∀ acc, encLoopL w h orient style V mb np (f + 1) es (bp : Int) pi pt true acc =
        encLoopL w h orient style V mb np f es4 (bp : Int) (pi + 1) (pt + 1) true (acc ++ [(ef.bp - 1, true)])) ∧
      EncOkT w h V es4 true ∧ es4.mq.bp = ef.bp ∧ TermOk es4.mq ∧ es.mq.bp ≤ ef.bp ∧
      (∀ (bytesF : List Nat), Agree bytesF es4.mq →
        Agree bytesF ef ∧ (∀ k, k + 1 ≤ es.mq.bp - 1 → bytesF[k]? = some (Mqc.rd es.mq.buf (k + 1))) ∧
          (0 < ef.bp - 1 → bytesF.getD (ef.bp - 1 - 1) 0 ≠ 0xFF)) ∧
      (∀ (bytesF PL : List Nat), Agree bytesF ef → PL[pi]? = some (ef.bp - 1) → pi < PL.length →
        ∀ (s : LDec), s.newSegment = true → s.prevEnd = es.mq.bp - 1 →
        CtxInv (styReset style) pi es.mq.ctx s.prevCtx → PInv w h V (fun _ _ => True) bp pi pt es s.st →
        ∃ ds3, Post w h V (fun _ _ => True) bp pt es4 ds3 ∧
          CtxInv (styReset style) (pi + 1) es4.mq.ctx s.prevCtx ∧
          decLoopL w h orient style u (styReset style) (mb : Int) PL bytesF (f + 1) s (bp : Int) pi pt =
            decLoopL w h orient style u (styReset style) (mb : Int) PL bytesF f
              { st := ds3, prevEnd := ef.bp - 1, prevCtx := s.prevCtx, newSegment := true } (bp : Int) (pi + 1) (pt + 1)) := by
  obtain ⟨hfs, hds, hcs, hT⟩ := hin
  simp only [if_true] at hT
  obtain ⟨es2, ef, es4, he2, hfl, hre, hfs4, hbuf4, hbp4, hterm4, hcsz4, hctx4a, hctx4b, hfroz, hle, hlock⟩ :=
    rseg1_lock w h V hV orient style bp pi pt hpt es hfs hds hT hcs
  have hin4 : EncOkT w h V es4 true := ⟨hfs4, hds, hcsz4, by simp only [if_true]; exact hterm4⟩
  refine ⟨ef, es4, ?_, hin4, hbp4, hterm4, hle, ?_, ?_⟩
  · intro acc
    rw [encLoopL_stepR1 w h orient style V mb np f es bp pi pt true acc hpt hc hraw hterm, he2]
    simp only [Option.bind_some]
    rw [hfl]; simp only [Option.bind_some]
    rw [hre]; simp only [Option.bind_some]
    rw [numBytes_eq es4.mq hterm4.bp1, hbp4]
  · intro bytesF hag
    have hagf : Agree bytesF ef := ⟨fun k hk => by rw [← hbuf4]; exact hag.1 k (by rw [hbp4]; exact hk), by rw [← hbp4]; exact hag.2⟩
    refine ⟨hagf, ?_, ?_⟩
    · intro k hk
      rw [hagf.1 k (by omega), hfroz (k + 1) (by omega)]
    · intro hpos
      rw [List.getD_eq_getElem?_getD, hagf.1 (ef.bp - 1 - 1) (by omega)]
      have := hterm4.last
      rw [hbuf4, hbp4] at this
      rw [show ef.bp - 1 - 1 + 1 = ef.bp - 1 by omega]
      exact this
  · intro bytesF PL hagf hPL hpiL s hns hpe hci hP
    obtain ⟨ds3, hd3, hPost⟩ := hlock bytesF hagf s.st hP
    refine ⟨ds3, hPost, ?_, ?_⟩
    · constructor
      · intro hc'
        rcases hc' with hc' | hc'
        · omega
        · exact hctx4a hc'
      · intro hc'
        have hr : styReset style = false := by
          cases hh : styReset style with
          | false => rfl
          | true => exact absurd (Or.inr hh) hc'
        rw [hctx4b hr]
        exact hci.2 (fun hh => by rcases hh with hh | hh; omega; rw [hr] at hh; exact absurd hh (by simp))
    · rw [decLoopL_stepR1 w h orient style u (styReset style) (mb : Int) PL bytesF f s bp pi pt hpt hpiL hns hraw (by rw [hterm]; simp), hPL]
      simp only []
      rw [if_neg (by rw [hpe]; have := hagf.2; omega), hpe, hd3]

/-- the two raw passes of a plane in one codeword segment, both loops -/
theorem rstep2_lock (orient style mb np : Nat) (u : Bool) (f : Nat) (es : EncSt) (bp pi : Nat)
    (hin : EncOkT w h V es true) (hc : pi + 1 < np) (hpi : 0 < pi)
    (hraw0 : J2kT1.isLazyRawPass (bp : Int) (mb : Int) ((0 : Nat) : Int) (style : Int) = true)
    (hterm0 : J2kT1.isTerminatingPass (bp : Int) (mb : Int) ((0 : Nat) : Int) (style : Int) = false)
    (hraw1 : J2kT1.isLazyRawPass (bp : Int) (mb : Int) ((1 : Nat) : Int) (style : Int) = true)
    (hterm1 : J2kT1.isTerminatingPass (bp : Int) (mb : Int) ((1 : Nat) : Int) (style : Int) = true)
    (hu : u = false) :
    ∃ r1 ef es5,
      (∀ acc, encLoopL w h orient style V mb np (f + 1 + 1) es (bp : Int) pi 0 true acc =
        encLoopL w h orient style V mb np f es5 (bp : Int) (pi + 1 + 1) 2 true (acc ++ [(r1, false)] ++ [(ef.bp - 1, true)])) ∧
      es.mq.bp - 1 ≤ r1 ∧
      EncOkT w h V es5 true ∧ es5.mq.bp = ef.bp ∧ TermOk es5.mq ∧ es.mq.bp ≤ ef.bp ∧
      (∀ (bytesF : List Nat), Agree bytesF es5.mq →
        Agree bytesF ef ∧ (∀ k, k + 1 ≤ es.mq.bp - 1 → bytesF[k]? = some (Mqc.rd es.mq.buf (k + 1))) ∧
          (0 < ef.bp - 1 → bytesF.getD (ef.bp - 1 - 1) 0 ≠ 0xFF)) ∧
      (∀ (bytesF PL : List Nat), Agree bytesF ef → PL[pi + 1]? = some (ef.bp - 1) → pi + 1 < PL.length →
        ∀ (s : LDec), s.newSegment = true → s.prevEnd = es.mq.bp - 1 →
        CtxInv (styReset style) pi es.mq.ctx s.prevCtx → PInv w h V (fun _ _ => True) bp pi 0 es s.st →
        ∃ ds4, Post w h V (fun _ _ => True) bp 1 es5 ds4 ∧
          CtxInv (styReset style) (pi + 1 + 1) es5.mq.ctx s.prevCtx ∧
          decLoopL w h orient style u (styReset style) (mb : Int) PL bytesF (f + 1 + 1) s (bp : Int) pi 0 =
            decLoopL w h orient style u (styReset style) (mb : Int) PL bytesF f
              { st := ds4, prevEnd := ef.bp - 1, prevCtx := s.prevCtx, newSegment := true } (bp : Int) (pi + 1 + 1) 2) := by
  obtain ⟨hfs, hds, hcs, hT⟩ := hin
  simp only [if_true] at hT
  obtain ⟨es2, es3, x1, es4, ef, es5, he2, hre1, hx1, hx1le, hle3, he4, hfl, hre, hfs5, hbuf5, hbp5, hterm5, hcsz5,
    hctx5a, hctx5b, hfroz, hle, hlock⟩ := rseg2_lock w h V hV orient style bp pi es hfs hds hT hcs
  have hin5 : EncOkT w h V es5 true := ⟨hfs5, hds, hcsz5, by simp only [if_true]; exact hterm5⟩
  have hp1 := hT.bp1
  refine ⟨numBytes es3.mq + x1, ef, es5, ?_, by rw [numBytes_eq es3.mq (by omega)]; omega, hin5, hbp5, hterm5, hle, ?_, ?_⟩
  · intro acc
    rw [encLoopL_stepR0 w h orient style V mb np (f + 1) es bp pi true acc (by omega) hraw0 hterm0, he2]
    simp only [Option.bind_some]
    rw [hre1]; simp only [Option.bind_some]
    rw [hx1]; simp only [Option.bind_some]
    rw [encLoopL_stepR1 w h orient style V mb np f es3 bp (pi + 1) 1 false _ (by omega) hc hraw1 hterm1]
    have hst : cvE (pi + 1) 1 (startG true false es3) = es3 := by
      unfold cvE startG; simp
    rw [hst, he4]; simp only [Option.bind_some]
    rw [hfl]; simp only [Option.bind_some]
    rw [hre]; simp only [Option.bind_some]
    rw [numBytes_eq es5.mq hterm5.bp1, hbp5]
  · intro bytesF hag
    have hagf : Agree bytesF ef := ⟨fun k hk => by rw [← hbuf5]; exact hag.1 k (by rw [hbp5]; exact hk), by rw [← hbp5]; exact hag.2⟩
    refine ⟨hagf, ?_, ?_⟩
    · intro k hk
      rw [hagf.1 k (by omega), hfroz (k + 1) (by omega)]
    · intro hpos
      rw [List.getD_eq_getElem?_getD, hagf.1 (ef.bp - 1 - 1) (by omega)]
      have := hterm5.last
      rw [hbuf5, hbp5] at this
      rw [show ef.bp - 1 - 1 + 1 = ef.bp - 1 by omega]
      exact this
  · intro bytesF PL hagf hPL hpiL s hns hpe hci hP
    obtain ⟨ds2, ds4, hd2, hd4, hPost⟩ := hlock bytesF hagf s.st hP
    refine ⟨ds4, hPost, ?_, ?_⟩
    · constructor
      · intro hc'
        rcases hc' with hc' | hc'
        · omega
        · exact hctx5a hc'
      · intro hc'
        have hr : styReset style = false := by
          cases hh : styReset style with
          | false => rfl
          | true => exact absurd (Or.inr hh) hc'
        rw [hctx5b hr]
        exact hci.2 (fun hh => by rcases hh with hh | hh; omega; rw [hr] at hh; exact absurd hh (by simp))
    · rw [decLoopL_stepR0 w h orient style u (styReset style) (mb : Int) PL bytesF (f + 1) s bp pi hpiL hns hraw0
        (by rw [hterm0, hu]; rfl) (by rw [hterm1]; simp), hPL]
      simp only []
      rw [if_neg (by rw [hpe]; have := hagf.2; omega), hpe, hd2]
      simp only []
      rw [decLoopL_stepRc w h orient style u (styReset style) (mb : Int) PL bytesF f _ bp (pi + 1) (by omega) rfl hraw1
        (by rw [hterm1]; simp)]
      simp only []
      rw [hd4]
end Step

end T1
