import GdcVerif.Model.Golomb
/-!
  Lemmas about the JPEG-LS bit writer model (`Model/Golomb.lean`):
  the byte-stuffing invariant "no 0xFF is followed by a byte ≥ 0x80" for EVERY sequence of
  `WriteBits` calls (any values, any counts — also counts outside 0..32) and the final `Flush`.
  Shared with C16 (no marker can appear inside a JPEG-LS scan).
-/
namespace Golomb

theorem stuffed_snoc : ∀ (l : List Nat) (b : Nat),
    Stuffed l → (l.getLast? = some 255 → b < 128) → Stuffed (l ++ [b])
  | [], b, _, _ => trivial
  | [a], b, _, h => by
    show (a = 255 → b < 128) ∧ Stuffed [b]
    exact ⟨fun ha => h (by simp [ha]), trivial⟩
  | a :: c :: rest, b, hs, h => by
    obtain ⟨h1, h2⟩ := hs
    show (a = 255 → c < 128) ∧ Stuffed ((c :: rest) ++ [b])
    refine ⟨h1, stuffed_snoc (c :: rest) b h2 ?_⟩
    intro hl; apply h
    simpa [List.getLast?_cons_cons] using hl

/-- writer invariant: 32-bit buffer, stuffed output, and `isFFWritten` set whenever the last byte is 0xFF -/
def Inv (w : Writer) : Prop :=
  w.buf < M32 ∧ Stuffed w.out ∧ (w.out.getLast? = some 255 → w.ff = true) ∧ (∀ b ∈ w.out, b < 256)

theorem inv_new : Inv Writer.new := ⟨by decide, trivial, by simp [Writer.new], by simp [Writer.new]⟩

theorem shr25_lt (b : Nat) (h : b < M32) : (b >>> 25) % 256 < 128 := by
  unfold M32 at h
  rw [Nat.shiftRight_eq_div_pow]
  have : b / 2 ^ 25 < 128 := by
    apply Nat.div_lt_of_lt_mul
    simp only [Nat.reducePow]; omega
  omega

theorem inv_flushStep (w : Writer) (h : Inv w) : Inv (flushStep w).1 := by
  obtain ⟨hb, hs, hf, hy⟩ := h
  have hbyte : ∀ (x : Nat), ∀ b ∈ w.out ++ [x % 256], b < 256 := by
    intro x b hb'
    simp only [List.mem_append, List.mem_singleton] at hb'
    rcases hb' with h1 | rfl
    · exact hy b h1
    · exact Nat.mod_lt _ (by decide)
  unfold flushStep
  split
  · exact ⟨hb, hs, hf, hy⟩
  · split
    · rename_i _ hff
      have hlt := shr25_lt w.buf hb
      refine ⟨Nat.mod_lt _ (by decide), stuffed_snoc _ _ hs (fun _ => hlt), ?_, hbyte _⟩
      intro hl
      simp only [List.getLast?_append, List.getLast?_singleton] at hl
      simp at hl
      simp [hl]
    · rename_i _ hff
      refine ⟨Nat.mod_lt _ (by decide), stuffed_snoc _ _ hs (fun hl => ?_), ?_, hbyte _⟩
      · exact absurd (hf hl) hff
      · intro hl
        simp only [List.getLast?_append, List.getLast?_singleton] at hl
        simp at hl
        simp [hl]

theorem inv_flush (w : Writer) (h : Inv w) : Inv (flush w) := by
  unfold flush
  have h1 := inv_flushStep w h
  have h2 := inv_flushStep _ h1
  have h3 := inv_flushStep _ h2
  have h4 := inv_flushStep _ h3
  simp only []
  split
  · exact h1
  · split
    · exact h2
    · split
      · exact h3
      · exact h4

theorem shl32_lt (b : Nat) (k : Int) : shl32 b k < M32 := by
  unfold shl32; split
  · decide
  · exact Nat.mod_lt _ (by decide)

theorem shr32_lt (b : Nat) (k : Int) (h : b < M32) : shr32 b k < M32 := by
  unfold shr32; split
  · decide
  · exact Nat.lt_of_le_of_lt (Nat.shiftRight_le _ _) h

theorem or_lt (a b : Nat) (ha : a < M32) (hb : b < M32) : a ||| b < M32 := by
  have : M32 = 2 ^ 32 := by decide
  rw [this] at *
  exact Nat.or_lt_two_pow ha hb

theorem inv_orBuf (w : Writer) (h : Inv w) (x : Nat) (hx : x < M32) : Inv (orBuf w x) :=
  ⟨or_lt _ _ h.1 hx, h.2.1, h.2.2⟩

theorem inv_setFree (w : Writer) (h : Inv w) (f : Int) : Inv (setFree w f) := ⟨h.1, h.2.1, h.2.2⟩

/-- `WriteBits` keeps the invariant for every value below 2^32 (uint32) and EVERY count -/
theorem inv_writeBits (w : Writer) (h : Inv w) (bits : Nat) (n : Int) (hb : bits < M32) :
    Inv (writeBits w bits n) := by
  unfold writeBits
  have h0 := inv_setFree w h (w.free - n)
  have h1 := inv_flush _ (inv_orBuf _ h0 _ (shr32_lt bits (-(setFree w (w.free - n)).free) hb))
  dsimp only
  split
  · exact inv_orBuf _ h0 _ (shl32_lt _ _)
  · split
    · exact inv_orBuf _ (inv_flush _ (inv_orBuf _ h1 _ (shr32_lt bits _ hb))) _ (shl32_lt _ _)
    · exact inv_orBuf _ h1 _ (shl32_lt _ _)

theorem inv_writeAll : ∀ (ws : List (Nat × Int)) (w : Writer), Inv w → (∀ p ∈ ws, p.1 < M32) →
    Inv (writeAll w ws)
  | [], w, h, _ => h
  | p :: rest, w, h, hv => by
    show Inv (writeAll (writeBits w p.1 p.2) rest)
    exact inv_writeAll rest _ (inv_writeBits w h p.1 p.2 (hv p (by simp))) (fun q hq => hv q (by simp [hq]))

theorem inv_finish (w : Writer) (h : Inv w) : Inv (finish w) := by
  unfold finish
  simp only []
  have h1 := inv_flush w h
  split
  · exact inv_flush _ (inv_writeBits _ h1 0 _ (by decide))
  · exact inv_flush _ h1

/-- every value `EncodeMappedValue` hands to `WriteBits` is a uint32 -/
theorem zerosWrites_lt : ∀ (f : Nat) (n : Int), ∀ p ∈ zerosWrites f n, p.1 < M32
  | 0, _, p, hp => by simp [zerosWrites] at hp
  | f + 1, n, p, hp => by
    unfold zerosWrites at hp
    split at hp
    · simp only [List.mem_cons] at hp
      rcases hp with rfl | hp
      · show (0 : Nat) < M32; decide
      · exact zerosWrites_lt f _ p hp
    · simp at hp

theorem encodeWrites_lt (k m limit qbpp : Int) : ∀ p ∈ encodeWrites k m limit qbpp, p.1 < M32 := by
  intro p hp
  unfold encodeWrites at hp
  simp only [] at hp
  split at hp
  · simp only [List.mem_append, List.mem_singleton] at hp
    rcases hp with (hp | rfl) | hp
    · split at hp
      · exact zerosWrites_lt _ _ p hp
      · simp at hp
    · show (1 : Nat) < M32; decide
    · split at hp
      · simp only [List.mem_singleton] at hp; subst hp; exact Nat.mod_lt _ (by decide)
      · simp at hp
  · simp only [List.mem_append, List.mem_singleton] at hp
    rcases hp with hp | rfl
    · split at hp
      · simp only [List.mem_append, List.mem_singleton] at hp
        rcases hp with hp | rfl
        · exact zerosWrites_lt _ _ p hp
        · show (1 : Nat) < M32; decide
      · simp only [List.mem_singleton] at hp; subst hp; show (1 : Nat) < M32; decide
    · exact Nat.mod_lt _ (by decide)

end Golomb

namespace Golomb

theorem inv_encodeMappedValue (w : Writer) (h : Inv w) (k m limit qbpp : Int) :
    Inv (encodeMappedValue w k m limit qbpp) :=
  inv_writeAll _ w h (encodeWrites_lt k m limit qbpp)

theorem inv_encodeAll : ∀ (calls : List (Int × Int × Int × Int)) (w : Writer), Inv w →
    Inv (calls.foldl (fun w q => encodeMappedValue w q.1 q.2.1 q.2.2.1 q.2.2.2) w)
  | [], _, h => h
  | q :: rest, w, h => inv_encodeAll rest _ (inv_encodeMappedValue w h q.1 q.2.1 q.2.2.1 q.2.2.2)

end Golomb
