import GdcVerif.Lemmas.T1LazyStepLock
namespace T1
open Gen

/-- every rate is at least the latest terminated rate in front of it (`lo` at the start) -/
def RecsOk : Nat → List PassRec → Prop
  | _, [] => True
  | lo, (r, t) :: rest => lo ≤ r ∧ RecsOk (if t = true then r else lo) rest

section Loop
variable (w h : Nat) (V : Array Int) (hV : ∀ j, (gi V j).natAbs < 2147483648)
include hV

/-- the pass loops under LAZY from a codeword-segment start on, for positions where every segment is a single MQ
pass, a single raw pass or the raw pair of a plane (all positions under TERMALL; planes below `mb - 3` otherwise) -/
theorem lloop_lock (orient style mb np : Nat)
    (hLz : Go.and (style : Int) J2kT1.CblkStyleLazy ≠ 0)
    (hTA : (Go.and (style : Int) J2kT1.CblkStyleTermAll ≠ 0 ∧ styTermall style = true) ∨
           (Go.and (style : Int) J2kT1.CblkStyleTermAll = 0 ∧ styTermall style = false)) :
    ∀ (N fuel : Nat) (es : EncSt) (prevT : Bool) (bp pi pt : Nat) (acc : List PassRec), 3 * bp + 3 - pt ≤ N →
      EncOkT w h V es prevT → StartOk (restartIf prevT es).mq → (prevT = false → pt = 2) → (pi = 0 → pt = 2) →
      (Go.and (style : Int) J2kT1.CblkStyleTermAll = 0 → bp + 3 < mb) →
      pt ≤ 2 → 3 * bp + 3 - pt ≤ fuel → pi + (3 * bp + 3 - pt) ≤ np →
    ∃ esF recs, encLoopL w h orient style V mb np fuel es (bp : Int) pi pt prevT acc = some (esF, true, acc ++ recs) ∧
      TermOk esF.mq ∧ recs.length = 3 * bp + 3 - pt ∧ (restartIf prevT es).mq.bp + 1 ≤ esF.mq.bp ∧
      (styPterm style = false → pt = 2 → (restartIf prevT es).mq.bp + 2 ≤ esF.mq.bp) ∧
      RecsOk (restartIf prevT es).mq.bp recs ∧
      (∀ r, (r, true) ∈ recs → r + 1 ≤ esF.mq.bp) ∧
      (∀ (bytesF : List Nat), Agree bytesF esF.mq →
        (∀ k, k + 1 ≤ (restartIf prevT es).mq.bp → bytesF[k]? = some (Mqc.rd es.mq.buf (k + 1))) ∧
        (∀ r, (r, true) ∈ recs → 0 < r → bytesF.getD (r - 1) 0 ≠ 0xFF) ∧
        (∀ (PL : List Nat), (∀ k r, recs[k]? = some (r, true) → PL[pi + k]? = some r) → PL.length = pi + recs.length →
          ∀ (s : LDec), s.newSegment = true → s.prevEnd = (restartIf prevT es).mq.bp →
          CtxInv (styReset style) pi es.mq.ctx s.prevCtx → PInv w h V (fun _ _ => True) bp pi pt es s.st →
          ∃ dsF, decLoopL w h orient style (styTermall style) (styReset style) (mb : Int) PL bytesF fuel s (bp : Int) pi pt = .ok dsF ∧
            dsF.data.size = (w + 2) * (h + 2) ∧ ∀ j, InB w h j → gi dsF.data j = gi V j)) := by
  intro N
  induction N with
  | zero => intro fuel es prevT bp pi pt acc hN _ _ _ _ _ hpt; omega
  | succ N ih =>
    intro fuel es prevT bp pi pt acc hN hin hst hprF hpi0 hpos hpt hf hnp
    obtain ⟨f, rfl⟩ : ∃ f, fuel = f + 1 := ⟨fuel - 1, by omega⟩
    obtain ⟨hser, hflr, hctxr, hbufr, hprT, hprF'⟩ := restartIf_ok w h V es prevT hin
    -- the two pass predicates at this position
    have hrawv := lazyRaw_eq bp mb pt (style : Int) hLz
    have htermv : J2kT1.isTerminatingPass (bp : Int) (mb : Int) (pt : Int) (style : Int) = true ∨
        (Go.and (style : Int) J2kT1.CblkStyleTermAll = 0 ∧ pt = 0 ∧ bp + 3 < mb ∧
          J2kT1.isTerminatingPass (bp : Int) (mb : Int) (pt : Int) (style : Int) = false) := by
      rcases hTA with ⟨hT, _⟩ | ⟨hT, _⟩
      · exact Or.inl (terminating_termall _ _ _ _ hT)
      · have hb := hpos hT
        rw [term_lazy bp mb pt (style : Int) hLz hT]
        by_cases hp0 : pt = 0
        · right; refine ⟨hT, hp0, hb, ?_⟩
          rw [decide_eq_false_iff_not]; omega
        · left; rw [decide_eq_true_iff]; right; right; omega
    by_cases hraw : pt < 2 ∧ bp + 3 < mb
    · -- a raw pass opens the segment
      have hrawE : J2kT1.isLazyRawPass (bp : Int) (mb : Int) (pt : Int) (style : Int) = true := by
        rw [hrawv, decide_eq_true_iff]; exact hraw
      have hpT : prevT = true := by
        cases prevT with
        | false => exact absurd (hprF rfl) (by omega)
        | true => rfl
      subst hpT
      have hpi : 0 < pi := by
        rcases Nat.eq_zero_or_pos pi with h0 | h0
        · exact absurd (hpi0 h0) (by omega)
        · exact h0
      obtain ⟨hbpr, hbp1, _⟩ := hprT rfl
      rcases htermv with hterm | ⟨hT0, hp0, hb, hterm⟩
      · -- one raw pass
        obtain ⟨ef, es4, henc, hin4, hbp4, hterm4, hle, hagree, hdec⟩ :=
          rstep1_lock w h V hV orient style mb np (styTermall style) f es bp pi pt hin (by omega) (by omega) hpi hrawE hterm
        obtain ⟨_, _, _, _, hprT4, _⟩ := restartIf_ok w h V es4 true hin4
        obtain ⟨hbp4r, _, hst4⟩ := hprT4 rfl
        obtain ⟨esF, recs', hencF, htermF, hlenF, hbpF, _, hrokF, hrtF, hdecF⟩ :=
          ih f es4 true bp (pi + 1) (pt + 1) (acc ++ [(ef.bp - 1, true)]) (by omega) hin4 hst4
            (fun hh => absurd hh (by simp)) (fun hh => by omega) hpos (by omega) (by omega) (by omega)
        rw [hbp4r, hbp4] at hbpF hrokF
        refine ⟨esF, (ef.bp - 1, true) :: recs', ?_, htermF, by simp only [List.length_cons]; omega, by rw [hbpr]; omega,
          fun _ hh => by omega,
          ⟨by rw [hbpr]; omega, by simp only [if_true]; exact hrokF⟩, ?_, ?_⟩
        · rw [henc, hencF, List.append_assoc]; rfl
        · intro r hr
          rcases List.mem_cons.mp hr with hr | hr
          · have : r = ef.bp - 1 := by injection hr
            omega
          · exact hrtF r hr
        · intro bytesF hagF
          obtain ⟨hback', hnff', hdec'⟩ := hdecF bytesF hagF
          have hag4 : Agree bytesF es4.mq := by
            refine ⟨fun k hk => hback' k (by rw [hbp4r]; omega), ?_⟩
            have := hagF.2
            omega
          obtain ⟨hagf, hback, hnff⟩ := hagree bytesF hag4
          refine ⟨by rw [hbpr]; exact hback, ?_, ?_⟩
          · intro r hr hpos'
            rcases List.mem_cons.mp hr with hr | hr
            · have : r = ef.bp - 1 := by injection hr
              subst this; exact hnff hpos'
            · exact hnff' r hr hpos'
          · intro PL hPL hPLl s hns hpe hci hP
            have h0 := hPL 0 (ef.bp - 1) rfl
            rw [Nat.add_zero] at h0
            obtain ⟨ds3, hPost, hci', hstep⟩ := hdec bytesF PL hagf h0 (by simp only [List.length_cons] at hPLl; omega) s hns
              (by rw [hpe, hbpr]) hci hP
            obtain ⟨lev, hLS, q0, q1, q2⟩ := hPost
            have hPnext : PInv w h V (fun _ _ => True) bp (pi + 1) (pt + 1) es4 ds3 :=
              ⟨lev, hLS, fun hh => absurd hh (by omega), fun hh => q0 (by omega),
                fun hh => ⟨fun hh' => absurd hh' (by omega), fun _ => q1 (by omega)⟩⟩
            obtain ⟨dsF, hdF, hszF, hdataF⟩ := hdec' PL
              (by
                intro k r hk
                have := hPL (k + 1) r (by rw [List.getElem?_cons_succ]; exact hk)
                rw [show pi + 1 + k = pi + (k + 1) by omega]; exact this)
              (by simp only [List.length_cons] at hPLl; omega)
              { st := ds3, prevEnd := ef.bp - 1, prevCtx := s.prevCtx, newSegment := true }
              rfl (by show ef.bp - 1 = _; rw [hbp4r, hbp4]) hci' hPnext
            exact ⟨dsF, by rw [hstep]; exact hdF, hszF, hdataF⟩
      · -- the raw pair of a plane
        subst hp0
        obtain ⟨f', rfl⟩ : ∃ f', f = f' + 1 := ⟨f - 1, by omega⟩
        have hraw1 : J2kT1.isLazyRawPass (bp : Int) (mb : Int) ((1 : Nat) : Int) (style : Int) = true := by
          rw [lazyRaw_eq bp mb 1 (style : Int) hLz, decide_eq_true_iff]; omega
        have hterm1 : J2kT1.isTerminatingPass (bp : Int) (mb : Int) ((1 : Nat) : Int) (style : Int) = true := by
          rw [term_lazy bp mb 1 (style : Int) hLz hT0, decide_eq_true_iff]; right; right; omega
        have hu : styTermall style = false := by
          rcases hTA with ⟨hT, _⟩ | ⟨_, hu⟩
          · exact absurd hT0 hT
          · exact hu
        obtain ⟨r1, ef, es5, henc, hr1, hin5, hbp5, hterm5, hle, hagree, hdec⟩ :=
          rstep2_lock w h V hV orient style mb np (styTermall style) f' es bp pi hin (by omega) hpi hrawE hterm hraw1 hterm1 hu
        obtain ⟨_, _, _, _, hprT5, _⟩ := restartIf_ok w h V es5 true hin5
        obtain ⟨hbp5r, _, hst5⟩ := hprT5 rfl
        obtain ⟨esF, recs', hencF, htermF, hlenF, hbpF, _, hrokF, hrtF, hdecF⟩ :=
          ih f' es5 true bp (pi + 1 + 1) 2 (acc ++ [(r1, false)] ++ [(ef.bp - 1, true)]) (by omega) hin5 hst5
            (fun hh => absurd hh (by simp)) (fun hh => by omega) hpos (by omega) (by omega) (by omega)
        rw [hbp5r, hbp5] at hbpF hrokF
        refine ⟨esF, (r1, false) :: (ef.bp - 1, true) :: recs', ?_, htermF, by simp only [List.length_cons]; omega,
          by rw [hbpr]; omega, fun _ hh => absurd hh (by decide),
          ⟨by rw [hbpr]; exact hr1, by
            simp only [Bool.false_eq_true, if_false]
            exact ⟨by rw [hbpr]; omega, by simp only [if_true]; exact hrokF⟩⟩, ?_, ?_⟩
        · rw [henc, hencF, List.append_assoc, List.append_assoc]; rfl
        · intro r hr
          rcases List.mem_cons.mp hr with hr | hr
          · exact absurd hr (by intro hh; injection hh with _ h2; exact absurd h2 (by decide))
          · rcases List.mem_cons.mp hr with hr | hr
            · have : r = ef.bp - 1 := by injection hr
              omega
            · exact hrtF r hr
        · intro bytesF hagF
          obtain ⟨hback', hnff', hdec'⟩ := hdecF bytesF hagF
          have hag5 : Agree bytesF es5.mq := by
            refine ⟨fun k hk => hback' k (by rw [hbp5r]; omega), ?_⟩
            have := hagF.2
            omega
          obtain ⟨hagf, hback, hnff⟩ := hagree bytesF hag5
          refine ⟨by rw [hbpr]; exact hback, ?_, ?_⟩
          · intro r hr hpos'
            rcases List.mem_cons.mp hr with hr | hr
            · exact absurd hr (by intro hh; injection hh with _ h2; exact absurd h2 (by decide))
            · rcases List.mem_cons.mp hr with hr | hr
              · have : r = ef.bp - 1 := by injection hr
                subst this; exact hnff hpos'
              · exact hnff' r hr hpos'
          · intro PL hPL hPLl s hns hpe hci hP
            have h1 := hPL 1 (ef.bp - 1) rfl
            obtain ⟨ds4, hPost, hci', hstep⟩ := hdec bytesF PL hagf h1 (by simp only [List.length_cons] at hPLl; omega) s hns
              (by rw [hpe, hbpr]) hci hP
            obtain ⟨lev, hLS, q0, q1, q2⟩ := hPost
            have hPnext : PInv w h V (fun _ _ => True) bp (pi + 1 + 1) 2 es5 ds4 :=
              ⟨lev, hLS, fun hh => absurd hh (by omega), fun hh => absurd hh (by omega),
                fun _ => ⟨fun hh' => absurd hh' (by omega), fun _ => q1 rfl⟩⟩
            obtain ⟨dsF, hdF, hszF, hdataF⟩ := hdec' PL
              (by
                intro k r hk
                have := hPL (k + 1 + 1) r (by rw [List.getElem?_cons_succ, List.getElem?_cons_succ]; exact hk)
                rw [show pi + 1 + 1 + k = pi + (k + 1 + 1) by omega]; exact this)
              (by simp only [List.length_cons] at hPLl; omega)
              { st := ds4, prevEnd := ef.bp - 1, prevCtx := s.prevCtx, newSegment := true }
              rfl (by show ef.bp - 1 = _; rw [hbp5r, hbp5]) hci' hPnext
            exact ⟨dsF, by rw [hstep]; exact hdF, hszF, hdataF⟩
    · -- an MQ pass that is a segment of its own
      have hrawE : J2kT1.isLazyRawPass (bp : Int) (mb : Int) (pt : Int) (style : Int) = false := by
        rw [hrawv, decide_eq_false_iff_not]; exact hraw
      have hterm : J2kT1.isTerminatingPass (bp : Int) (mb : Int) (pt : Int) (style : Int) = true := by
        rcases htermv with h1 | ⟨_, hp0, hb, _⟩
        · exact h1
        · exact absurd ⟨by omega, hb⟩ hraw
      obtain ⟨ef, es4, henc, hin4, hbp4, hterm4, hbp2, hbp2', hagree, hdec⟩ :=
        mstep_lock w h V hV orient style mb np (styTermall style) f es prevT bp pi pt hin hst hpt (by omega) hrawE hterm
      obtain ⟨_, _, _, _, hprT4, _⟩ := restartIf_ok w h V es4 true hin4
      obtain ⟨hbp4r, _, hst4⟩ := hprT4 rfl
      by_cases hfin : pt = 2 ∧ bp = 0
      · obtain ⟨rfl, rfl⟩ := hfin
        refine ⟨es4, [(ef.bp - 1, true)], ?_, hterm4, rfl, by rw [hbp4]; exact hbp2,
          fun hp _ => by rw [hbp4]; exact hbp2' hp,
          ⟨by omega, True.intro⟩, ?_, ?_⟩
        · rw [henc, if_pos rfl, encLoopL_exit _ _ _ _ _ _ _ _ _ _ _ _ _ _ (by omega)]
        · intro r hr
          rcases List.mem_cons.mp hr with hr | hr
          · have : r = ef.bp - 1 := by injection hr
            rw [hbp4]; omega
          · exact absurd hr (by simp)
        · intro bytesF hag
          obtain ⟨hagf, hback, hnff⟩ := hagree bytesF hag
          refine ⟨hback, ?_, ?_⟩
          · intro r hr hpos'
            rcases List.mem_cons.mp hr with hr | hr
            · have : r = ef.bp - 1 := by injection hr
              subst this; exact hnff hpos'
            · exact absurd hr (by simp)
          · intro PL hPL hPLl s hns hpe hci hP
            have h0 := hPL 0 (ef.bp - 1) rfl
            rw [Nat.add_zero] at h0
            obtain ⟨ds3, hPost, _, hstep⟩ := hdec bytesF PL hagf h0 (by simp only [List.length_cons, List.length_nil] at hPLl; omega) s hns hpe hci hP
            obtain ⟨lev, hLS, _, _, q2⟩ := hPost
            refine ⟨ds3, ?_, hLS.dsz, ?_⟩
            · rw [hstep, if_pos rfl, decLoopL_exit _ _ _ _ _ _ _ _ _ _ _ _ _ _ (by omega)]
            · intro j hj
              rw [(hLS.smp j hj).d, q2 rfl j hj, tr_0]
      · have hnext : ∃ bp' pt', (if pt = 2 then (bp' = bp - 1 ∧ pt' = 0 ∧ 1 ≤ bp) else (bp' = bp ∧ pt' = pt + 1)) ∧ pt' ≤ 2 ∧
            3 * bp' + 3 - pt' + 1 = 3 * bp + 3 - pt := by
          by_cases hp2 : pt = 2
          · exact ⟨bp - 1, 0, by rw [if_pos hp2]; exact ⟨rfl, rfl, by omega⟩, by omega, by omega⟩
          · exact ⟨bp, pt + 1, by rw [if_neg hp2]; exact ⟨rfl, rfl⟩, by omega, by omega⟩
        obtain ⟨bp', pt', hbpt, hpt', hR⟩ := hnext
        have hpos' : Go.and (style : Int) J2kT1.CblkStyleTermAll = 0 → bp' + 3 < mb := by
          intro hT0
          have := hpos hT0
          by_cases hp2 : pt = 2
          · rw [if_pos hp2] at hbpt; omega
          · rw [if_neg hp2] at hbpt; omega
        obtain ⟨esF, recs', hencF, htermF, hlenF, hbpF, _, hrokF, hrtF, hdecF⟩ :=
          ih f es4 true bp' (pi + 1) pt' (acc ++ [(ef.bp - 1, true)]) (by omega) hin4 hst4
            (fun hh => absurd hh (by simp)) (fun hh => by omega) hpos' hpt' (by omega) (by omega)
        rw [hbp4r, hbp4] at hbpF hrokF
        have hencI : encLoopL w h orient style V mb np (f + 1) es (bp : Int) pi pt prevT acc =
            some (esF, true, acc ++ (ef.bp - 1, true) :: recs') := by
          rw [henc]
          by_cases hp2 : pt = 2
          · rw [if_pos hp2] at hbpt ⊢
            obtain ⟨rfl, rfl, hb1⟩ := hbpt
            rw [show ((bp : Int) - 1) = ((bp - 1 : Nat) : Int) by omega, hencF, List.append_assoc]; rfl
          · rw [if_neg hp2] at hbpt ⊢
            obtain ⟨rfl, rfl⟩ := hbpt
            rw [hencF, List.append_assoc]; rfl
        refine ⟨esF, (ef.bp - 1, true) :: recs', hencI, htermF, by simp only [List.length_cons]; omega, by omega,
          fun hp _ => by have := hbp2' hp; omega,
          ⟨by omega, by simp only [if_true]; exact hrokF⟩, ?_, ?_⟩
        · intro r hr
          rcases List.mem_cons.mp hr with hr | hr
          · have : r = ef.bp - 1 := by injection hr
            omega
          · exact hrtF r hr
        · intro bytesF hagF
          obtain ⟨hback', hnff', hdec'⟩ := hdecF bytesF hagF
          have hag4 : Agree bytesF es4.mq := by
            refine ⟨fun k hk => hback' k (by rw [hbp4r]; omega), ?_⟩
            have := hagF.2
            omega
          obtain ⟨hagf, hback, hnff⟩ := hagree bytesF hag4
          refine ⟨hback, ?_, ?_⟩
          · intro r hr hpos''
            rcases List.mem_cons.mp hr with hr | hr
            · have : r = ef.bp - 1 := by injection hr
              subst this; exact hnff hpos''
            · exact hnff' r hr hpos''
          · intro PL hPL hPLl s hns hpe hci hP
            have h0 := hPL 0 (ef.bp - 1) rfl
            rw [Nat.add_zero] at h0
            obtain ⟨ds3, hPost, hci', hstep⟩ := hdec bytesF PL hagf h0 (by simp only [List.length_cons] at hPLl; omega) s hns hpe hci hP
            obtain ⟨lev, hLS, q0, q1, q2⟩ := hPost
            have hPnext : PInv w h V (fun _ _ => True) bp' (pi + 1) pt' es4 ds3 := by
              by_cases hp2 : pt = 2
              · rw [if_pos hp2] at hbpt
                obtain ⟨rfl, rfl, hb1⟩ := hbpt
                have hall := q2 hp2
                exact ⟨lev, hLS.replane hall hb1, fun _ j hj => by rw [hall j hj]; omega,
                  fun hh => absurd hh (by decide), fun hh => absurd hh (by decide)⟩
              · rw [if_neg hp2] at hbpt
                obtain ⟨rfl, rfl⟩ := hbpt
                exact ⟨lev, hLS, fun hh => absurd hh (by omega), fun hh => q0 (by omega),
                  fun hh => ⟨fun hh' => absurd hh' (by omega), fun _ => q1 (by omega)⟩⟩
            obtain ⟨dsF, hdF, hszF, hdataF⟩ := hdec' PL
              (by
                intro k r hk
                have := hPL (k + 1) r (by rw [List.getElem?_cons_succ]; exact hk)
                rw [show pi + 1 + k = pi + (k + 1) by omega]; exact this)
              (by simp only [List.length_cons] at hPLl; omega)
              { st := ds3, prevEnd := ef.bp - 1, prevCtx := if ¬ styReset style = true then ds3.mq.ctx else s.prevCtx, newSegment := true }
              rfl (by show ef.bp - 1 = _; rw [hbp4r, hbp4]) hci' hPnext
            refine ⟨dsF, ?_, hszF, hdataF⟩
            rw [hstep]
            by_cases hp2 : pt = 2
            · rw [if_pos hp2] at hbpt ⊢
              obtain ⟨rfl, rfl, hb1⟩ := hbpt
              rw [show ((bp : Int) - 1) = ((bp - 1 : Nat) : Int) by omega]; exact hdF
            · rw [if_neg hp2] at hbpt ⊢
              obtain ⟨rfl, rfl⟩ := hbpt
              exact hdF
end Loop
end T1
