import GdcVerif.Model.J2kBandState
namespace J2kBand

variable {S : Type}

/-- the expected result: every non-empty band of the packet gets `p` applied to its state (fresh if absent),
    every other key is untouched -/
def expected (nonEmpty : Nat → Bool) (fresh : S) (p : S → S) (bands : List Nat) (c : Ctx S) : Ctx S :=
  fun b => if b ∈ bands ∧ nonEmpty b = true then some (p ((c b).getD fresh)) else c b

theorem gather_ctx (nonEmpty : Nat → Bool) (fresh : S) : ∀ (bands : List Nat) (c : Ctx S) (x : Nat),
    (gather nonEmpty fresh bands c).1 x =
      if x ∈ bands ∧ nonEmpty x = true then some ((c x).getD fresh) else c x := by
  intro bands
  induction bands with
  | nil => intro c x; simp [gather]
  | cons b bs ih =>
    intro c x
    cases hb : nonEmpty b with
    | true =>
      have e : gather nonEmpty fresh (b :: bs) c =
          ((gather nonEmpty fresh bs (setCtx c b ((c b).getD fresh))).1,
           (c b).getD fresh :: (gather nonEmpty fresh bs (setCtx c b ((c b).getD fresh))).2) := by
        simp [gather, hb]
      rw [e]
      simp only []
      rw [ih]
      by_cases hxb : x = b
      · subst hxb
        by_cases hm : x ∈ bs <;> simp [hm, hb, setCtx]
      · simp [hxb, setCtx]
    | false =>
      have e : gather nonEmpty fresh (b :: bs) c = gather nonEmpty fresh bs c := by simp [gather, hb]
      rw [e, ih]
      by_cases hxb : x = b
      · subst hxb; simp [hb]
      · simp [hxb]

theorem setCtx_comm (c : Ctx S) (a b : Nat) (u v : S) (hab : a ≠ b) :
    setCtx (setCtx c b v) a u = setCtx (setCtx c a u) b v := by
  funext y
  simp only [setCtx]
  by_cases h1 : y = a
  · subst h1; simp [hab]
  · by_cases h2 : y = b
    · subst h2; simp [h1]
    · simp [h1, h2]

/-- the states gathered from `bs` do not depend on the context entry of a band outside `bs` -/
theorem gather_states_indep (nonEmpty : Nat → Bool) (fresh : S) (b : Nat) (v : S) :
    ∀ (bs : List Nat) (c : Ctx S), b ∉ bs →
      (gather nonEmpty fresh bs (setCtx c b v)).2 = (gather nonEmpty fresh bs c).2 := by
  intro bs
  induction bs with
  | nil => intro c _; rfl
  | cons a as iha =>
    intro c hnb
    have hab : a ≠ b := by intro h; subst h; simp at hnb
    have hnb' : b ∉ as := by intro h; exact hnb (by simp [h])
    cases ha : nonEmpty a with
    | true =>
      have e1 : ∀ c' : Ctx S, gather nonEmpty fresh (a :: as) c' =
          ((gather nonEmpty fresh as (setCtx c' a ((c' a).getD fresh))).1,
           (c' a).getD fresh :: (gather nonEmpty fresh as (setCtx c' a ((c' a).getD fresh))).2) := by
        intro c'; simp [gather, ha]
      rw [e1, e1]
      simp only []
      have hca : (setCtx c b v) a = c a := by simp [setCtx, hab]
      rw [hca, setCtx_comm c a b _ v hab, iha _ hnb']
    | false =>
      have e1 : ∀ c' : Ctx S, gather nonEmpty fresh (a :: as) c' = gather nonEmpty fresh as c' := by
        intro c'; simp [gather, ha]
      rw [e1, e1]; exact iha c hnb'

/-- write-back with the separate counter: processing `bands` against the states gathered from the same list -/
theorem writeBack_gather (nonEmpty : Nat → Bool) (fresh : S) (p : S → S) :
    ∀ (bands : List Nat) (c0 c : Ctx S), bands.Nodup →
      (∀ b ∈ bands, c b = if nonEmpty b = true then some ((c0 b).getD fresh) else none) →
      ∀ x, writeBack bands ((gather nonEmpty fresh bands c0).2.map p) c x =
        if x ∈ bands ∧ nonEmpty x = true then some (p ((c0 x).getD fresh)) else c x := by
  intro bands
  induction bands with
  | nil => intro c0 c _ _ x; simp [writeBack]
  | cons b bs ih =>
    intro c0 c hnd hc x
    have hb := hc b (by simp)
    have hnd' := (List.nodup_cons.mp hnd)
    cases hne : nonEmpty b with
    | true =>
      simp only [hne, if_true] at hb
      have e1 : gather nonEmpty fresh (b :: bs) c0 =
          ((gather nonEmpty fresh bs (setCtx c0 b ((c0 b).getD fresh))).1,
           (c0 b).getD fresh :: (gather nonEmpty fresh bs (setCtx c0 b ((c0 b).getD fresh))).2) := by
        simp [gather, hne]
      rw [e1]
      simp only [List.map_cons]
      rw [gather_states_indep nonEmpty fresh b _ bs c0 hnd'.1]
      have e2 : writeBack (b :: bs) (p ((c0 b).getD fresh) :: List.map p (gather nonEmpty fresh bs c0).2) c =
          writeBack bs (List.map p (gather nonEmpty fresh bs c0).2) (setCtx c b (p ((c0 b).getD fresh))) := by
        simp [writeBack, hb]
      rw [e2, ih c0 (setCtx c b _) hnd'.2 ?_ x]
      · by_cases hxb : x = b
        · subst hxb
          have : x ∉ bs := hnd'.1
          simp [this, hne, setCtx]
        · simp [hxb, setCtx]
      · intro a ha
        have hab : a ≠ b := by intro h; subst h; exact hnd'.1 ha
        simp only [setCtx, hab, if_false]
        exact hc a (by simp [ha])
    | false =>
      simp only [hne, Bool.false_eq_true, if_false] at hb
      have e1 : gather nonEmpty fresh (b :: bs) c0 = gather nonEmpty fresh bs c0 := by simp [gather, hne]
      rw [e1]
      have e2 : ∀ st : List S, writeBack (b :: bs) st c = writeBack bs st c := by
        intro st; simp [writeBack, hb]
      rw [e2, ih c0 c hnd'.2 (fun a ha => hc a (by simp [ha])) x]
      by_cases hxb : x = b
      · subst hxb; simp [hne, hb]
      · simp [hxb]

theorem packetStep_eq (nonEmpty : Nat → Bool) (fresh : S) (p : S → S) (bands : List Nat) (c : Ctx S)
    (hnd : bands.Nodup) (hempty : ∀ b ∈ bands, nonEmpty b = false → c b = none) :
    packetStep nonEmpty fresh p bands c = expected nonEmpty fresh p bands c := by
  funext x
  unfold packetStep expected
  rw [writeBack_gather nonEmpty fresh p bands c _ hnd ?_ x]
  · rw [gather_ctx]
    by_cases hx : x ∈ bands ∧ nonEmpty x = true <;> simp [hx]
  · intro b hb
    rw [gather_ctx]
    by_cases hne : nonEmpty b = true
    · simp [hb, hne]
    · have hne' : nonEmpty b = false := by simpa using hne
      simp [hne', hempty b hb hne']

end J2kBand
