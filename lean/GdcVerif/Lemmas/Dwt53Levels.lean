import GdcVerif.Lemmas.Dwt53
/-!
  5/3 DWT in 2D with stride and over the multilevel window sequence: the inverse passes undo the
  forward passes, for any pair of 1D transforms `f`, `g` with `g ∘ f = id`.
-/
namespace Dwt53

theorem grid_lt {s x y y' : Nat} (hx : x < s) (h : y < y') (x' : Nat) : y * s + x < y' * s + x' := by
  have : (y + 1) * s ≤ y' * s := Nat.mul_le_mul_right _ (by omega)
  have e : (y + 1) * s = y * s + s := by rw [Nat.add_mul, Nat.one_mul]
  omega

/-- cells of a window with `width ≤ stride` are distinct -/
theorem grid_inj {s x x' y y' : Nat} (hx : x < s) (hx' : x' < s) (h : y * s + x = y' * s + x') :
    y = y' ∧ x = x' := by
  have hy : y = y' := by
    rcases Nat.lt_trichotomy y y' with hlt | heq | hgt
    · have := grid_lt hx hlt x'; omega
    · exact heq
    · have := grid_lt hx' hgt x; omega
  subst hy
  exact ⟨rfl, by omega⟩

/-! ### write-back loops -/

theorem putRow_spec {n width : Nat} (data : Vector Int n) (row : Vector Int width) (stride y : Nat)
    (h : ∀ x, x < width → y * stride + x < n) :
    (∀ x (hx : x < width), toFn (putRow data row stride y h) (y * stride + x) = row[x]) ∧
    (∀ p, (∀ x, x < width → p ≠ y * stride + x) → toFn (putRow data row stride y h) p = toFn data p) := by
  unfold putRow
  have := Go.forLoop_inv
    (P := fun i (d : Vector Int n) =>
      (∀ x (hx : x < width), x < i → toFn d (y * stride + x) = row[x]) ∧
      (∀ p, (∀ x, x < width → x < i → p ≠ y * stride + x) → toFn d p = toFn data p))
    0 width (fun x _ hx data => data.set (y * stride + x) row[x] (h x hx)) data
    ⟨by intro x _ hx0; omega, by intro p _; rfl⟩
    (by
      intro i _ h2 d ⟨ha, hb⟩
      refine ⟨?_, ?_⟩
      · intro x hx hlt
        rw [toFn_set]
        split
        · next heq => have : i = x := by omega
                      subst this; rfl
        · next hne => exact ha x hx (by omega)
      · intro p hp
        rw [toFn_set, if_neg (by intro heq; exact hp i h2 (by omega) heq.symm)]
        exact hb p (fun x hx hlt => hp x hx (by omega)))
  have hm : max 0 width = width := by omega
  rw [hm] at this
  exact ⟨fun x hx => this.1 x hx hx, fun p hp => this.2 p (fun x hx _ => hp x hx)⟩

theorem putCol_spec {n height : Nat} (data : Vector Int n) (col : Vector Int height) (stride x : Nat)
    (hxs : x < stride) (h : ∀ y, y < height → y * stride + x < n) :
    (∀ y (hy : y < height), toFn (putCol data col stride x h) (y * stride + x) = col[y]) ∧
    (∀ p, (∀ y, y < height → p ≠ y * stride + x) → toFn (putCol data col stride x h) p = toFn data p) := by
  unfold putCol
  have := Go.forLoop_inv
    (P := fun i (d : Vector Int n) =>
      (∀ y (hy : y < height), y < i → toFn d (y * stride + x) = col[y]) ∧
      (∀ p, (∀ y, y < height → y < i → p ≠ y * stride + x) → toFn d p = toFn data p))
    0 height (fun y _ hy data => data.set (y * stride + x) col[y] (h y hy)) data
    ⟨by intro y _ hy0; omega, by intro p _; rfl⟩
    (by
      intro i _ h2 d ⟨ha, hb⟩
      refine ⟨?_, ?_⟩
      · intro y hy hlt
        rw [toFn_set]
        split
        · next heq => have := (grid_inj hxs hxs heq).1
                      subst this; rfl
        · next hne => exact ha y hy (by
            rcases Nat.lt_or_ge y i with h' | h'
            · exact h'
            · exfalso; apply hne; have : y = i := by omega
              subst this; rfl)
      · intro p hp
        rw [toFn_set, if_neg (by intro heq; exact hp i h2 (by omega) heq.symm)]
        exact hb p (fun y hy hlt => hp y hy (by omega)))
  have hm : max 0 height = height := by omega
  rw [hm] at this
  exact ⟨fun y hy => this.1 y hy hy, fun p hp => this.2 p (fun y hy _ => hp y hy)⟩

/-! ### one row / one column -/

/-- row `y` of the window, read through `toFn` -/
def rowFn {n : Nat} (data : Vector Int n) (width stride y : Nat) : Vector Int width :=
  Vector.ofFn fun x => toFn data (y * stride + x.val)

/-- column `x` of the window, read through `toFn` -/
def colFn {n : Nat} (data : Vector Int n) (height stride x : Nat) : Vector Int height :=
  Vector.ofFn fun y => toFn data (y.val * stride + x)

theorem get_congr {w : Nat} {v v' : Vector Int w} (h : v = v') (x : Nat) (hx : x < w) : v[x] = v'[x] := by
  subst h; rfl

theorem rowFn_get {n : Nat} (data : Vector Int n) (width stride y x : Nat) (hx : x < width) :
    (rowFn data width stride y)[x] = toFn data (y * stride + x) := by
  simp only [rowFn, Vector.getElem_ofFn]

theorem colFn_get {n : Nat} (data : Vector Int n) (height stride x y : Nat) (hy : y < height) :
    (colFn data height stride x)[y] = toFn data (y * stride + x) := by
  simp only [colFn, Vector.getElem_ofFn]

theorem getRow_eq {n : Nat} (data : Vector Int n) (width stride y : Nat) (h : ∀ x, x < width → y * stride + x < n) :
    getRow data width stride y h = rowFn data width stride y := by
  apply Vector.ext; intro x hx
  simp only [getRow, rowFn, Vector.getElem_ofFn, get_eq_toFn]

theorem getCol_eq {n : Nat} (data : Vector Int n) (height stride x : Nat) (h : ∀ y, y < height → y * stride + x < n) :
    getCol data height stride x h = colFn data height stride x := by
  apply Vector.ext; intro y hy
  simp only [getCol, colFn, Vector.getElem_ofFn, get_eq_toFn]

theorem rowFn_congr {n : Nat} (d d' : Vector Int n) (width stride y : Nat)
    (h : ∀ x, x < width → toFn d (y * stride + x) = toFn d' (y * stride + x)) :
    rowFn d width stride y = rowFn d' width stride y := by
  apply Vector.ext; intro x hx
  simp only [rowFn, Vector.getElem_ofFn]; exact h x hx

theorem colFn_congr {n : Nat} (d d' : Vector Int n) (height stride x : Nat)
    (h : ∀ y, y < height → toFn d (y * stride + x) = toFn d' (y * stride + x)) :
    colFn d height stride x = colFn d' height stride x := by
  apply Vector.ext; intro y hy
  simp only [colFn, Vector.getElem_ofFn]; exact h y hy

theorem onRow_spec {n : Nat} (f : Xf) (data : Vector Int n) (width height stride : Nat) (even : Bool)
    (hfit : (height - 1) * stride + width ≤ n) (hw : 1 < width) (y : Nat) (hy : y < height) :
    (∀ x (hx : x < width), toFn (onRow f data width height stride even hfit hw y hy) (y * stride + x) =
        (f (rowFn data width stride y) even (by omega))[x]) ∧
    (∀ p, (∀ x, x < width → p ≠ y * stride + x) →
        toFn (onRow f data width height stride even hfit hw y hy) p = toFn data p) := by
  unfold onRow
  simp only [getRow_eq]
  exact putRow_spec data _ stride y _

theorem onCol_spec {n : Nat} (f : Xf) (data : Vector Int n) (width height stride : Nat) (even : Bool)
    (hfit : (height - 1) * stride + width ≤ n) (hh : 1 < height) (x : Nat) (hx : x < width) (hws : width ≤ stride) :
    (∀ y (hy : y < height), toFn (onCol f data width height stride even hfit hh x hx) (y * stride + x) =
        (f (colFn data height stride x) even (by omega))[y]) ∧
    (∀ p, (∀ y, y < height → p ≠ y * stride + x) →
        toFn (onCol f data width height stride even hfit hh x hx) p = toFn data p) := by
  unfold onCol
  simp only [getCol_eq]
  exact putCol_spec data _ stride x (by omega) _

/-! ### the passes -/

theorem rowPass_spec {n : Nat} (f : Xf) (data : Vector Int n) (width height stride : Nat) (even : Bool)
    (hfit : 0 < height → (height - 1) * stride + width ≤ n) (hw : 1 < width) (hws : width ≤ stride) :
    (∀ y, y < height → ∀ x (hx : x < width),
        toFn (rowPass f data width height stride even hfit hw) (y * stride + x) =
          (f (rowFn data width stride y) even (by omega))[x]) ∧
    (∀ p, (∀ y, y < height → ∀ x, x < width → p ≠ y * stride + x) →
        toFn (rowPass f data width height stride even hfit hw) p = toFn data p) := by
  unfold rowPass
  have := Go.forLoop_inv
    (P := fun i (d : Vector Int n) =>
      (∀ y, y < height → y < i → ∀ x (hx : x < width),
        toFn d (y * stride + x) = (f (rowFn data width stride y) even (by omega))[x]) ∧
      (∀ p, (∀ y, y < height → y < i → ∀ x, x < width → p ≠ y * stride + x) → toFn d p = toFn data p))
    0 height (fun y _ hy data => onRow f data width height stride even (hfit (by omega)) hw y hy) data
    ⟨by intro y _ h0; omega, by intro p _; rfl⟩
    (by
      intro i _ h2 d ⟨ha, hb⟩
      have hspec := onRow_spec f d width height stride even (hfit (by omega)) hw i h2
      have hrow : rowFn d width stride i = rowFn data width stride i := by
        apply rowFn_congr
        intro x hx
        apply hb
        intro y _ hlt x' hx' heq
        have := (grid_inj (by omega) (by omega) heq).1
        omega
      refine ⟨?_, ?_⟩
      · intro y hy hlt x hx
        by_cases hyi : y = i
        · subst hyi
          rw [hspec.1 x hx]
          simp only [hrow]
        · rw [hspec.2 _ (by
            intro x' hx' heq
            exact hyi (grid_inj (by omega) (by omega) heq).1)]
          exact ha y hy (by omega) x hx
      · intro p hp
        rw [hspec.2 p (fun x hx => hp i h2 (by omega) x hx)]
        exact hb p (fun y hy hlt x hx => hp y hy (by omega) x hx))
  have hm : max 0 height = height := by omega
  rw [hm] at this
  exact ⟨fun y hy x hx => this.1 y hy hy x hx, fun p hp => this.2 p (fun y hy _ x hx => hp y hy x hx)⟩

theorem colPass_spec {n : Nat} (f : Xf) (data : Vector Int n) (width height stride : Nat) (even : Bool)
    (hfit : 0 < width → (height - 1) * stride + width ≤ n) (hh : 1 < height) (hws : width ≤ stride) :
    (∀ x, x < width → ∀ y (hy : y < height),
        toFn (colPass f data width height stride even hfit hh) (y * stride + x) =
          (f (colFn data height stride x) even (by omega))[y]) ∧
    (∀ p, (∀ x, x < width → ∀ y, y < height → p ≠ y * stride + x) →
        toFn (colPass f data width height stride even hfit hh) p = toFn data p) := by
  unfold colPass
  have := Go.forLoop_inv
    (P := fun i (d : Vector Int n) =>
      (∀ x, x < width → x < i → ∀ y (hy : y < height),
        toFn d (y * stride + x) = (f (colFn data height stride x) even (by omega))[y]) ∧
      (∀ p, (∀ x, x < width → x < i → ∀ y, y < height → p ≠ y * stride + x) → toFn d p = toFn data p))
    0 width (fun x _ hx data => onCol f data width height stride even (hfit (by omega)) hh x hx) data
    ⟨by intro x _ h0; omega, by intro p _; rfl⟩
    (by
      intro i _ h2 d ⟨ha, hb⟩
      have hspec := onCol_spec f d width height stride even (hfit (by omega)) hh i h2 hws
      have hcol : colFn d height stride i = colFn data height stride i := by
        apply colFn_congr
        intro y hy
        apply hb
        intro x _ hlt y' hy' heq
        have := (grid_inj (by omega) (by omega) heq).2
        omega
      refine ⟨?_, ?_⟩
      · intro x hx hlt y hy
        by_cases hxi : x = i
        · subst hxi
          rw [hspec.1 y hy]
          simp only [hcol]
        · rw [hspec.2 _ (by
            intro y' hy' heq
            exact hxi (grid_inj (by omega) (by omega) heq).2)]
          exact ha x hx (by omega) y hy
      · intro p hp
        rw [hspec.2 p (fun y hy => hp i h2 (by omega) y hy)]
        exact hb p (fun x hx hlt y hy => hp x hx (by omega) y hy))
  have hm : max 0 width = width := by omega
  rw [hm] at this
  exact ⟨fun x hx y hy => this.1 x hx hx y hy, fun p hp => this.2 p (fun x hx _ y hy => hp x hx y hy)⟩

/-- `g` undoes `f` on every vector the passes hand to them -/
def Cancels (f g : Xf) : Prop :=
  ∀ {w : Nat} (v : Vector Int w) (even : Bool) (h : w ≠ 0 ∨ even = true), g (f v even h) even h = v

theorem rowPass_cancel {n : Nat} (f g : Xf) (hgf : Cancels f g) (data : Vector Int n) (width height stride : Nat)
    (even : Bool) (hfit : 0 < height → (height - 1) * stride + width ≤ n) (hw : 1 < width) (hws : width ≤ stride) :
    rowPass g (rowPass f data width height stride even hfit hw) width height stride even hfit hw = data := by
  have h1 := rowPass_spec f data width height stride even hfit hw hws
  have h2 := rowPass_spec g (rowPass f data width height stride even hfit hw) width height stride even hfit hw hws
  apply ext_toFn
  intro p _
  by_cases hex : ∃ y, y < height ∧ ∃ x, x < width ∧ p = y * stride + x
  · obtain ⟨y, hy, x, hx, rfl⟩ := hex
    rw [h2.1 y hy x hx]
    have hrow : rowFn (rowPass f data width height stride even hfit hw) width stride y =
        f (rowFn data width stride y) even (by omega) := by
      apply Vector.ext; intro x' hx'
      rw [rowFn_get, h1.1 y hy x' hx']
    have e1 : g (rowFn (rowPass f data width height stride even hfit hw) width stride y) even (by omega) =
        rowFn data width stride y := by
      rw [hrow]; exact hgf (rowFn data width stride y) even (by omega)
    rw [get_congr e1, rowFn_get]
  · have hne : ∀ y, y < height → ∀ x, x < width → p ≠ y * stride + x :=
      fun y hy x hx heq => hex ⟨y, hy, x, hx, heq⟩
    rw [h2.2 p hne, h1.2 p hne]

theorem colPass_cancel {n : Nat} (f g : Xf) (hgf : Cancels f g) (data : Vector Int n) (width height stride : Nat)
    (even : Bool) (hfit : 0 < width → (height - 1) * stride + width ≤ n) (hh : 1 < height) (hws : width ≤ stride) :
    colPass g (colPass f data width height stride even hfit hh) width height stride even hfit hh = data := by
  have h1 := colPass_spec f data width height stride even hfit hh hws
  have h2 := colPass_spec g (colPass f data width height stride even hfit hh) width height stride even hfit hh hws
  apply ext_toFn
  intro p _
  by_cases hex : ∃ x, x < width ∧ ∃ y, y < height ∧ p = y * stride + x
  · obtain ⟨x, hx, y, hy, rfl⟩ := hex
    rw [h2.1 x hx y hy]
    have hcol : colFn (colPass f data width height stride even hfit hh) height stride x =
        f (colFn data height stride x) even (by omega) := by
      apply Vector.ext; intro y' hy'
      rw [colFn_get, h1.1 x hx y' hy']
    have e1 : g (colFn (colPass f data width height stride even hfit hh) height stride x) even (by omega) =
        colFn data height stride x := by
      rw [hcol]; exact hgf (colFn data height stride x) even (by omega)
    rw [get_congr e1, colFn_get]
  · have hne : ∀ x, x < width → ∀ y, y < height → p ≠ y * stride + x :=
      fun x hx y hy heq => hex ⟨x, hx, y, hy, heq⟩
    rw [h2.2 p hne, h1.2 p hne]

/-! ### 2D -/

theorem cancels_id : Cancels (forward53_1d' id) (inverse53_1d' id) :=
  fun v even h => inverse53_forward53_1d' v even h

/-- `Inverse53_2DWithParity ∘ Forward53_2DWithParity = id` on every window with `width ≤ stride`
(both panic when the window does not fit into `data`) -/
theorem inverse53_forward53_2d {n : Nat} (data : Vector Int n) (width height stride : Nat) (evenRow evenCol : Bool)
    (hws : width ≤ stride) :
    (forward53_2d id data width height stride evenRow evenCol).bind
        (fun d => inverse53_2d id d width height stride evenRow evenCol) =
      if (width ≤ 1 ∧ height ≤ 1) ∨ fits n width height stride then some data else none := by
  unfold forward53_2d inverse53_2d
  by_cases hsmall : width ≤ 1 ∧ height ≤ 1
  · simp only [if_pos hsmall, Option.bind_some, if_pos (Or.inl hsmall)]
  · simp only [if_neg hsmall]
    by_cases hf : fits n width height stride
    · simp only [dif_pos hf, Option.bind_some, if_pos (Or.inr hf)]
      congr 1
      by_cases hw : 1 < width
      · simp only [dif_pos hw]
        rw [rowPass_cancel _ _ cancels_id _ width height stride evenRow _ hw hws]
        by_cases hh : 1 < height
        · simp only [dif_pos hh]
          exact colPass_cancel _ _ cancels_id data width height stride evenCol _ hh hws
        · simp only [dif_neg hh]
      · simp only [dif_neg hw]
        by_cases hh : 1 < height
        · simp only [dif_pos hh]
          exact colPass_cancel _ _ cancels_id data width height stride evenCol _ hh hws
        · simp only [dif_neg hh]
    · have hno : ¬ ((width ≤ 1 ∧ height ≤ 1) ∨ fits n width height stride) := by
        intro h; rcases h with h | h
        · exact hsmall h
        · exact hf h
      simp only [dif_neg hf, Option.bind_none, if_neg hno]

/-! ### the window sequence (generated `nextLowpassWindow`) -/

theorem splitLengths_bounds (n : Int) (e : Bool) (h : 0 ≤ n) :
    0 ≤ Gen.J2kWavelet.splitLengths n e ∧ Gen.J2kWavelet.splitLengths n e ≤ n := by
  unfold Gen.J2kWavelet.splitLengths
  split
  · rw [Int.tdiv_eq_ediv_of_nonneg (by omega)]; omega
  · rw [Int.tdiv_eq_ediv_of_nonneg h]; omega

theorem nextWindow_fst (win : Window) :
    (nextWindow win).1 = Gen.J2kWavelet.splitLengths win.1 (Gen.J2kWavelet.isEven win.2.2.1) := rfl
theorem nextWindow_snd (win : Window) :
    (nextWindow win).2.1 = Gen.J2kWavelet.splitLengths win.2.1 (Gen.J2kWavelet.isEven win.2.2.2) := rfl

/-- what the multilevel loops need of a window: non-negative, no wider than the stride, inside `data` -/
def WinOk (n stride : Nat) (win : Window) : Prop :=
  0 ≤ win.1 ∧ win.1.toNat ≤ stride ∧ 0 ≤ win.2.1 ∧ win.2.1.toNat * stride ≤ n

theorem winOk_next {n stride : Nat} {win : Window} (h : WinOk n stride win) : WinOk n stride (nextWindow win) := by
  obtain ⟨h1, h2, h3, h4⟩ := h
  have b1 := splitLengths_bounds win.1 (Gen.J2kWavelet.isEven win.2.2.1) h1
  have b2 := splitLengths_bounds win.2.1 (Gen.J2kWavelet.isEven win.2.2.2) h3
  refine ⟨?_, ?_, ?_, ?_⟩
  · rw [nextWindow_fst]; exact b1.1
  · rw [nextWindow_fst]; omega
  · rw [nextWindow_snd]; exact b2.1
  · rw [nextWindow_snd]
    have : (Gen.J2kWavelet.splitLengths win.2.1 (Gen.J2kWavelet.isEven win.2.2.2)).toNat ≤ win.2.1.toNat := by omega
    exact Nat.le_trans (Nat.mul_le_mul_right _ this) h4

theorem winOk_fits {n stride : Nat} {win : Window} (h : WinOk n stride win) :
    fits n win.1.toNat win.2.1.toNat stride := by
  obtain ⟨_, h2, _, h4⟩ := h
  unfold fits
  rcases Nat.eq_zero_or_pos win.2.1.toNat with h0 | hpos
  · exact Or.inr (Or.inl h0)
  · refine Or.inr (Or.inr ?_)
    obtain ⟨k, hk⟩ : ∃ k, win.2.1.toNat = k + 1 := ⟨win.2.1.toNat - 1, by omega⟩
    rw [hk] at h4 ⊢
    rw [Nat.add_mul, Nat.one_mul] at h4
    simp only [Nat.add_sub_cancel]
    omega

theorem small_next {win : Window} (hs : win.1 ≤ 1 ∧ win.2.1 ≤ 1) :
    (nextWindow win).1 ≤ 1 ∧ (nextWindow win).2.1 ≤ 1 := by
  rw [nextWindow_fst, nextWindow_snd]
  unfold Gen.J2kWavelet.splitLengths
  simp only []
  have t1 := tdiv2 (win.1 + 1); have t2 := tdiv2 win.1
  have t3 := tdiv2 (win.2.1 + 1); have t4 := tdiv2 win.2.1
  refine ⟨?_, ?_⟩
  · split <;> omega
  · split <;> omega

/-- below a 1×1 window every remaining inverse level is the identity (for any arithmetic `wr`) -/
theorem inverseLevels_small_wr (wr : Int → Int) {n : Nat} (stride : Nat) (levels : Nat) :
    ∀ (win : Window) (data : Vector Int n), win.1 ≤ 1 ∧ win.2.1 ≤ 1 →
      inverseLevels wr stride (windows levels win) data = some data := by
  induction levels with
  | zero => intro win data _; rfl
  | succ L ih =>
    intro win data hs
    rw [windows, inverseLevels, ih (nextWindow win) data (small_next hs)]
    simp only [inverse53_2d]
    rw [if_pos (by omega)]

theorem inverseLevels_small {n : Nat} (stride : Nat) (levels : Nat) :
    ∀ (win : Window) (data : Vector Int n), win.1 ≤ 1 ∧ win.2.1 ≤ 1 →
      inverseLevels id stride (windows levels win) data = some data :=
  inverseLevels_small_wr id stride levels

/-- `InverseMultilevelWithParity ∘ ForwardMultilevelWithParity = id`: the level loops -/
theorem inverseLevels_forwardLevels {n : Nat} (stride : Nat) (levels : Nat) :
    ∀ (win : Window) (data : Vector Int n), WinOk n stride win →
      (forwardLevels id stride levels data win).bind (inverseLevels id stride (windows levels win)) = some data := by
  induction levels with
  | zero => intro win data _; rfl
  | succ L ih =>
    intro win data hok
    obtain ⟨cw, ch, cx, cy⟩ := win
    rw [forwardLevels]
    by_cases hs : cw ≤ 1 ∧ ch ≤ 1
    · rw [if_pos hs, Option.bind_some]
      exact inverseLevels_small stride (L + 1) (cw, ch, cx, cy) data hs
    · rw [if_neg hs]
      have h2d := inverse53_forward53_2d data cw.toNat ch.toNat stride
        (Gen.J2kWavelet.isEven cx) (Gen.J2kWavelet.isEven cy) hok.2.1
      rw [if_pos (Or.inr (winOk_fits hok))] at h2d
      cases hfw : forward53_2d id data cw.toNat ch.toNat stride (Gen.J2kWavelet.isEven cx) (Gen.J2kWavelet.isEven cy) with
      | none => rw [hfw] at h2d; simp at h2d
      | some d1 =>
        rw [hfw, Option.bind_some] at h2d
        simp only []
        have hih := ih (nextWindow (cw, ch, cx, cy)) d1 (winOk_next hok)
        cases hrest : forwardLevels id stride L d1 (nextWindow (cw, ch, cx, cy)) with
        | none => rw [hrest] at hih; simp at hih
        | some dfin =>
          rw [hrest, Option.bind_some] at hih
          rw [Option.bind_some, windows, inverseLevels, hih]
          exact h2d

/-- `InverseMultilevelWithParity(ForwardMultilevelWithParity(data)) = data` for every width, height,
level count and origin, on any buffer holding the `height × width` samples -/
theorem inverse53_forward53_multilevel {n : Nat} (data : Vector Int n) (width height levels : Nat) (x0 y0 : Int)
    (hn : height * width ≤ n) :
    (forwardMultilevel id data width height levels x0 y0).bind
        (fun d => inverseMultilevel id d width height levels x0 y0) = some data := by
  unfold forwardMultilevel inverseMultilevel
  exact inverseLevels_forwardLevels width levels (width, height, x0, y0) data
    ⟨by simp, by simp, by simp, by simpa using hn⟩

end Dwt53
