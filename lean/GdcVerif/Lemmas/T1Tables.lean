import GdcVerif.Gen.J2kT1
/-!
  EBCOT T1 (no code-shaped model of the passes): facts about the regenerated context tables and the
  regenerated pass predicates `isLazyRawPass` / `isTerminatingPass` of `t1/encoder.go`.
-/
set_option linter.unusedVariables false
namespace T1
open Gen.J2kT1

/-! ### context tables -/

set_option maxRecDepth 100000 in
theorem zc_all : lutCtxnoZc.size = 2048 ∧ lutCtxnoZc.toList.all (fun x => decide (0 ≤ x ∧ x ≤ 8)) = true := by decide
set_option maxRecDepth 100000 in
theorem sc_all : lutCtxnoSc.size = 256 ∧ lutCtxnoSc.toList.all (fun x => decide (9 ≤ x ∧ x ≤ 13)) = true := by decide
set_option maxRecDepth 100000 in
theorem spb_all : lutSpb.size = 256 ∧ lutSpb.toList.all (fun x => decide (0 ≤ x ∧ x ≤ 1)) = true := by decide

theorem all_get (t : Array Int) (p : Int → Bool) (h : t.toList.all p = true) (i : Nat) (hi : i < t.size) :
    p t[i] = true := by
  rw [List.all_eq_true] at h
  exact h t[i] (by simp [Array.mem_toList_iff])

/-- zero-coding contexts are `0..8` (CTXZCSTART..CTXZCEND) for every orientation and neighbourhood -/
theorem zc_range (i : Nat) (hi : i < lutCtxnoZc.size) : CTXZCSTART ≤ lutCtxnoZc[i] ∧ lutCtxnoZc[i] ≤ CTXZCEND := by
  have := all_get _ _ zc_all.2 i hi
  simpa [CTXZCSTART, CTXZCEND] using this

/-- sign-coding contexts are `9..13` -/
theorem sc_range (i : Nat) (hi : i < lutCtxnoSc.size) : CTXSCSTART ≤ lutCtxnoSc[i] ∧ lutCtxnoSc[i] ≤ CTXSCEND := by
  have := all_get _ _ sc_all.2 i hi
  simpa [CTXSCSTART, CTXSCEND] using this

/-- sign predictions are bits -/
theorem spb_range (i : Nat) (hi : i < lutSpb.size) : 0 ≤ lutSpb[i] ∧ lutSpb[i] ≤ 1 := by
  have := all_get _ _ spb_all.2 i hi
  simpa using this

/-- magnitude-refinement contexts are `14..16` for every flag word -/
theorem mr_range (flags : Int) :
    CTXMRSTART ≤ getMagRefinementContext flags ∧ getMagRefinementContext flags ≤ CTXMREND := by
  unfold getMagRefinementContext
  have h14 : Go.uwrap8 14 = 14 := by decide
  simp only [CTXMRSTART, CTXMREND, h14]
  split
  · omega
  · split <;> omega

/-- every context label the three passes can hand to the MQ coder is `< NUMCONTEXTS = 19` -/
theorem context_ids_lt :
    CTXZCEND < NUMCONTEXTS ∧ CTXSCEND < NUMCONTEXTS ∧ CTXMREND < NUMCONTEXTS ∧ CTXRL < NUMCONTEXTS ∧
    CTXUNI < NUMCONTEXTS := by decide

/-! ### pass structure -/

/-- the pass after `(bitplane, passType)`: SPP(0) → MRP(1) → CUP(2) → next lower bit-plane -/
def next (bp pt : Int) : Int × Int := if pt = 2 then (bp - 1, 0) else (bp, pt + 1)

/-- pass schedule of a block with `planes` coded bit-planes: cleanup of the top plane, then three passes per plane -/
def schedule : Nat → List (Int × Int)
  | 0 => []
  | 1 => [(0, 2)]
  | n + 2 => (((n : Int) + 1, 2)) :: ((n : Int), 0) :: ((n : Int), 1) :: schedule' n
where
  schedule' : Nat → List (Int × Int)
  | 0 => [(0, 2)]
  | n + 1 => ((n : Int) + 1, 2) :: ((n : Int), 0) :: ((n : Int), 1) :: schedule' n

theorem schedule'_length (n : Nat) : (schedule.schedule' n).length = 3 * n + 1 := by
  induction n with
  | zero => rfl
  | succ n ih => simp only [schedule.schedule', List.length_cons, ih]; omega

/-- a block with `planes ≥ 1` bit-planes has `3·planes − 2` coding passes -/
theorem schedule_length (planes : Nat) (h : 1 ≤ planes) : (schedule planes).length = 3 * planes - 2 := by
  match planes, h with
  | 1, _ => rfl
  | n + 2, _ => simp only [schedule, List.length_cons, schedule'_length]; omega

/-- a raw (bypass) pass is a significance-propagation or magnitude-refinement pass of a LAZY block, at least
four bit-planes below the top one -/
theorem raw_pass (bp mb pt style : Int) (h : isLazyRawPass bp mb pt style = true) :
    Go.and style CblkStyleLazy ≠ 0 ∧ pt < 2 ∧ bp < mb - 3 := by
  unfold isLazyRawPass at h
  generalize Go.and style CblkStyleLazy = lz at h ⊢
  split at h
  · exact absurd h (by simp)
  · next hl =>
    split at h
    · exact absurd h (by simp)
    · next hp => exact ⟨by simpa using hl, by simpa using hp, by simpa using h⟩

/-- under TERMALL every pass is terminated; the cleanup pass of bit-plane 0 always is -/
theorem terminating_termall (bp mb pt style : Int) (h : Go.and style CblkStyleTermAll ≠ 0) :
    isTerminatingPass bp mb pt style = true := by
  unfold isTerminatingPass
  generalize Go.and style CblkStyleTermAll = ta at h ⊢
  split
  · rfl
  · simp [h]

theorem terminating_last (mb style : Int) : isTerminatingPass 0 mb 2 style = true := by
  unfold isTerminatingPass; simp

/-- **the MQ/raw coder changes only at a terminated pass**: if the pass after `(bp, pt)` uses the other coder
(MQ ↔ raw bypass), then `(bp, pt)` is terminated — so a decoder that starts a new MQ/raw decoder exactly at
codeword-segment starts (the repair of `DecodeLayeredWithMode`, /repo 9151147) never has to switch coders
inside a segment -/
theorem coder_switch_terminated (bp mb pt style : Int) (hpt : 0 ≤ pt ∧ pt ≤ 2)
    (h : isLazyRawPass (next bp pt).1 mb (next bp pt).2 style ≠ isLazyRawPass bp mb pt style) :
    isTerminatingPass bp mb pt style = true := by
  unfold isLazyRawPass isTerminatingPass next at *
  generalize Go.and style CblkStyleLazy = lz at h ⊢
  generalize Go.and style CblkStyleTermAll = ta at h ⊢
  by_cases hlz : lz = 0
  · subst hlz; simp at h
  · by_cases hta : ta = 0
    · subst hta
      have hp : pt = 0 ∨ pt = 1 ∨ pt = 2 := by omega
      rcases hp with rfl | rfl | rfl
      · simp [hlz] at h
      · simp [hlz] at h ⊢
        omega
      · simp [hlz] at h ⊢
        omega
    · simp [hta]

end T1
