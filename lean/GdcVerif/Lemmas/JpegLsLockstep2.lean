import GdcVerif.Lemmas.JpegLsLockstep
/-! Lock-step composition, part 2: the run-segment step, lines, images. -/
namespace JpegLsScanL
open Gen.JpegLs JpegLsLemmas JpegLsNear JpegLsRun Golomb Lockstep

theorem step_run (P : Nat) (N : Int) (h : Admissible P N) (comps : Nat) (hc : 1 ≤ comps) (line : List Pixel) (s : LSt)
    (xi : Pixel) (rest : List Pixel) (hinv : LInv comps ((2 : Int) ^ P - 1) N line s (xi :: rest))
    (hq : ((ids (traits P N) s (List.range comps)).all (fun i => i.1 == 0)) = true) :
    ∃ ws s' todo', encStep (traits P N) (List.range comps) s (xi :: rest) = .ok (ws, s', todo') ∧
      todo'.length < (xi :: rest).length ∧ LInv comps ((2 : Int) ^ P - 1) N line s' todo' ∧
      (∀ tl, decStep (traits P N) (List.range comps) s (xi :: rest).length (writesBits ws ++ tl) =
        .ok (s', todo'.length, tl)) ∧ WritesFit ws := by
  obtain ⟨hS, hline, hle, htodo, hclose⟩ := hinv
  obtain ⟨_, hM, hNear, _, _⟩ := traits_run_facts P N h
  have hlen_todo : (line.drop s.done.length).length = rest.length + 1 := by rw [← htodo]; simp
  simp only [List.length_drop] at hlen_todo
  have hw : 0 < line.length := by omega
  have hleft := leftPixel_ok hS hw
  have htodo_ok : ∀ p ∈ xi :: rest, PixOk comps ((2 : Int) ^ P - 1) p := by
    intro p hp
    rw [htodo] at hp
    exact hline p (List.mem_of_mem_drop hp)
  -- the run
  generalize hf : (fun p => isRun (traits P N).Near (leftPixel s) p (List.range comps)) = f
  have htd : (xi :: rest).takeWhile f ++ (xi :: rest).dropWhile f = xi :: rest := List.takeWhile_append_dropWhile
  have hrun_close : ∀ p ∈ (xi :: rest).takeWhile f, PixClose N (leftPixel s) p := by
    intro p hp
    have h1 := mem_takeWhile_true f _ p hp
    rw [← hf, hNear] at h1
    have hpm : p ∈ xi :: rest := by rw [← htd]; exact List.mem_append_left _ hp
    exact isRun_close hleft (htodo_ok p hpm) h1
  obtain ⟨hidx, hi0, hr0, hi1, hr1⟩ := hS.2.2.2.2
  have hlens : ((xi :: rest).takeWhile f).length + ((xi :: rest).dropWhile f).length = rest.length + 1 := by
    have := congrArg List.length htd
    rw [List.length_append, List.length_cons] at this
    exact this
  obtain ⟨idx', ws, he, hi', hd, hfw⟩ := runlength_rt s.run.runIndex ((xi :: rest).takeWhile f).length
    ((xi :: rest).length : Nat) hidx (by constructor <;> simp <;> omega) (by simp; omega)
  have hflag : ((xi :: rest).dropWhile f).isEmpty =
      ((((xi :: rest).takeWhile f).length : Int) == (((xi :: rest).length : Nat) : Int)) := by
    cases hdw : (xi :: rest).dropWhile f with
    | nil => rw [hdw] at hlens; simp at hlens ⊢; omega
    | cons a r => rw [hdw] at hlens; simp at hlens ⊢; omega
  unfold encStep decStep
  have hne : (xi :: rest).length ≠ 0 := by simp
  simp only [hq, if_true, hne, if_false, hf]
  rw [hflag, he]
  simp only []
  generalize hrp : (xi :: rest).takeWhile f = runPx at *
  cases hafter : (xi :: rest).dropWhile f with
  | nil =>
    -- the run reaches the line end
    rw [hafter] at htd hlens
    simp only [List.append_nil, List.length_nil, Nat.add_zero] at htd hlens
    have hsplit := take_drop_split line s.done.length runPx [] (by rw [← htodo, List.append_nil, htd]) hle
    refine ⟨ws, LSt.mk s.prev (List.replicate runPx.length (leftPixel s) ++ s.done) s.pplf s.ctxs
        (St.mk idx' s.run.ctx0 s.run.ctx1), [], rfl, by simp, ?_, ?_, hfw⟩
    · refine ⟨⟨hS.1, ?_, hS.2.2.1, hS.2.2.2.1, hi', hi0, hr0, hi1, hr1⟩, hline, ?_, ?_, ?_⟩
      · intro p hp
        simp only [List.mem_append, List.mem_replicate] at hp
        rcases hp with ⟨_, rfl⟩ | hp
        · exact hleft
        · exact hS.2.1 p hp
      · simp only [List.length_append, List.length_replicate]; omega
      · simp only [List.length_append, List.length_replicate]
        rw [Nat.add_comm]; exact hsplit.2.symm
      · simp only [List.length_append, List.length_replicate, List.reverse_append, List.reverse_replicate]
        rw [Nat.add_comm runPx.length, hsplit.1]
        exact AllRel.append hclose (allRel_replicate _ runPx hrun_close)
    · intro tl
      rw [hd tl]
      have hge : ((runPx.length : Nat) : Int) ≥ (((xi :: rest).length : Nat) : Int) := by simp; omega
      simp only [hge, if_true, Int.toNat_natCast, List.length_nil]
  | cons xj rest' =>
    rw [hafter] at htd hlens
    simp only [List.length_cons] at hlens
    have hxj_not : f xj = false := dropWhile_head_false f _ xj rest' hafter
    have hxj_ok : PixOk comps ((2 : Int) ^ P - 1) xj := htodo_ok xj (by rw [← htd]; simp)
    have habove : PixOk comps ((2 : Int) ^ P - 1) (pixAt s.prev (s.done.length + runPx.length)) :=
      pixAt_ok hS _ (by omega)
    have hsplit := take_drop_split line s.done.length (runPx ++ [xj]) rest'
      (by rw [← htodo, ← htd]; simp) hle
    simp only [List.length_append, List.length_singleton] at hsplit
    have hlt : ¬ (((runPx.length : Nat) : Int) ≥ (((xi :: rest).length : Nat) : Int)) := by simp; omega
    by_cases hcomps : (List.range comps).length > 1
    · -- sample-interleaved: every component with context 0
      simp only [hcomps, if_true]
      obtain ⟨w1, ctx0', rec, he1, hinv1, hrit1, hlen1, hc1, ho1, hd1, hf1⟩ :=
        ints_roundtrip P N h comps idx' (leftPixel s) (pixAt s.prev (s.done.length + runPx.length)) xj hi'
          hleft habove hxj_ok (List.range comps) s.run.ctx0 (fun k hk => by simpa using hk) hi0 hr0
      rw [he1]
      refine ⟨ws ++ w1, LSt.mk s.prev (rec :: (List.replicate runPx.length (leftPixel s) ++ s.done)) s.pplf s.ctxs
          (St.mk (decRunIndex idx') ctx0' s.run.ctx1), rest', rfl, by simp; omega, ?_, ?_, fit_append hfw hf1⟩
      · refine ⟨⟨hS.1, ?_, hS.2.2.1, hS.2.2.2.1, dec_range idx' hi', hinv1, hrit1, hi1, hr1⟩, hline, ?_, ?_, ?_⟩
        · intro p hp
          simp only [List.mem_cons, List.mem_append, List.mem_replicate] at hp
          rcases hp with rfl | ⟨_, rfl⟩ | hp
          · exact ⟨by rw [hlen1]; simp, ho1⟩
          · exact hleft
          · exact hS.2.1 p hp
        · simp only [List.length_cons, List.length_append, List.length_replicate]; omega
        · simp only [List.length_cons, List.length_append, List.length_replicate]
          have : runPx.length + s.done.length + 1 = s.done.length + (runPx.length + 1) := by omega
          rw [this]; exact hsplit.2.symm
        · simp only [List.length_cons, List.length_append, List.length_replicate, List.reverse_cons,
            List.reverse_append, List.reverse_replicate]
          have : runPx.length + s.done.length + 1 = s.done.length + (runPx.length + 1) := by omega
          rw [this, hsplit.1, ← List.append_assoc]
          refine AllRel.append (AllRel.append hclose (allRel_replicate _ runPx hrun_close)) (AllRel.cons ?_ AllRel.nil)
          have : (List.range comps).map (cmp xj) = xj := by
            have := map_cmp_range xj; rw [hxj_ok.1] at this; exact this
          rw [this] at hc1; exact hc1
      · intro tl
        rw [writesBits_append, List.append_assoc, hd (writesBits w1 ++ tl)]
        simp only [hlt, if_false, Int.toNat_natCast, hcomps, if_true, hd1 tl]
        simp; omega
    · -- one component
      simp only [hcomps, if_false]
      have hc1' : comps = 1 := by simp at hcomps; omega
      subst hc1'
      have hout : Go.abs (cmp xj 0 - cmp (leftPixel s) 0) > N := by
        apply not_isRun_one
        have hx' : isRun N (leftPixel s) xj (List.range 1) = false := by
          rw [← hf, hNear] at hxj_not; exact hxj_not
        rw [hx']; decide
      obtain ⟨w1, run', r, he1, hinv1, hcl1, ho1, hd1, hf1⟩ :=
        int0_roundtrip P N h idx' (cmp (leftPixel s) 0) (cmp (pixAt s.prev (s.done.length + runPx.length)) 0)
          (cmp xj 0) s.run hi' ⟨hidx, hi0, hr0, hi1, hr1⟩ (cmp_ok hleft 0 (by decide)) (cmp_ok habove 0 (by decide))
          (cmp_ok hxj_ok 0 (by decide)) hout
      rw [he1]
      refine ⟨ws ++ w1, LSt.mk s.prev ([r] :: (List.replicate runPx.length (leftPixel s) ++ s.done)) s.pplf s.ctxs run',
        rest', rfl, by simp; omega, ?_, ?_, fit_append hfw hf1⟩
      · refine ⟨⟨hS.1, ?_, hS.2.2.1, hS.2.2.2.1, hinv1⟩, hline, ?_, ?_, ?_⟩
        · intro p hp
          simp only [List.mem_cons, List.mem_append, List.mem_replicate] at hp
          rcases hp with rfl | ⟨_, rfl⟩ | hp
          · exact ⟨rfl, by intro v hv; simp at hv; subst hv; exact ho1⟩
          · exact hleft
          · exact hS.2.1 p hp
        · simp only [List.length_cons, List.length_append, List.length_replicate]; omega
        · simp only [List.length_cons, List.length_append, List.length_replicate]
          have : runPx.length + s.done.length + 1 = s.done.length + (runPx.length + 1) := by omega
          rw [this]; exact hsplit.2.symm
        · simp only [List.length_cons, List.length_append, List.length_replicate, List.reverse_cons,
            List.reverse_append, List.reverse_replicate]
          have : runPx.length + s.done.length + 1 = s.done.length + (runPx.length + 1) := by omega
          rw [this, hsplit.1, ← List.append_assoc]
          refine AllRel.append (AllRel.append hclose (allRel_replicate _ runPx hrun_close)) (AllRel.cons ?_ AllRel.nil)
          have hx1 : xj = [cmp xj 0] := by
            have := map_cmp_range xj; rw [hxj_ok.1] at this
            simpa using this.symm
          rw [hx1]
          exact AllRel.cons (by simpa [cmp] using hcl1) AllRel.nil
      · intro tl
        rw [writesBits_append, List.append_assoc, hd (writesBits w1 ++ tl)]
        simp only [hlt, if_false, Int.toNat_natCast, hcomps, hd1 tl]
        simp; omega

end JpegLsScanL
