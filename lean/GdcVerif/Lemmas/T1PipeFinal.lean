import GdcVerif.Lemmas.T1PipeEnc
import GdcVerif.Lemmas.T1LockOJ
import GdcVerif.Lemmas.T1ZeroDec
/-!
  C20 — the T1 configuration of the reversible pipeline, assembled: fractional bits on the encoder side, OpenJPEG
  reconstruction at `maxBitplane = numbps` and halving on the decoder side.
-/
namespace T1
open Gen

theorem flush_fresh : (Mqc.flush (Mqc.Enc.new NUMCONTEXTS)).map (·.2) = some [255, 127] := by
  unfold Mqc.flush Mqc.flushToOutput Mqc.Enc.new NUMCONTEXTS
  simp [Mqc.byteout, Mqc.u32, Mqc.u8, Mqc.sub32, Mqc.shl32, Mqc.ensureIndex, Mqc.getBuffer, Mqc.start]

/-- the all-zero block: both encoder configurations emit FF 7F -/
theorem encode_zero_bytes (fb w h orient style : Nat) (coeffs : List Int) (np : Nat) (hlen : coeffs.length = w * h)
    (hz : findMaxBitplane (padBlock w h coeffs) = none) :
    encodeBlockF fb w h orient style coeffs np = .ok [255, 127] ∧ encodeBlock w h orient style coeffs np = .ok [255, 127] := by
  have hf := flush_fresh
  unfold encodeBlockF encodeBlock
  rw [if_neg (by rw [hlen]; exact fun hc => hc rfl), if_neg (by rw [hlen]; exact fun hc => hc rfl)]
  simp only []
  rw [hz]
  simp only []
  cases hfl : Mqc.flush (Mqc.Enc.new NUMCONTEXTS) with
  | none => rw [hfl] at hf; exact absurd hf (by simp)
  | some r =>
    rw [hfl] at hf
    obtain ⟨e, b⟩ := r
    simp only [Option.map_some, Option.some.injEq] at hf
    subst hf
    exact ⟨rfl, rfl⟩

/-- **the T1 round trip in the pipeline's configuration** (style 0, all passes, `fb ≥ 1` fractional bits): the block
scaled by `2^fb` through `Encode` with `SetNMSEDecFractionalBits(fb)`, then `DecodeWithBitplane` with OpenJPEG
reconstruction at `maxBitplane = numbps = mb + 1`, then `/= 2` -/
theorem t1_pipeline_roundtrip (fb w h orient mb : Nat) (coeffs : List Int) (hfb : 1 ≤ fb) (hlen : coeffs.length = w * h)
    (hbnd : ∀ c ∈ coeffs, c.natAbs < 536870912) (hmb : findMaxBitplane (padBlock w h coeffs) = some mb) :
    ∃ bytes out, encodeBlockF fb w h orient 0 (coeffs.map (fun c => c * ((2 ^ fb : Nat) : Int))) (3 * mb + 1) = .ok bytes ∧
      decodeBlockOJ w h orient 0 (3 * mb + 1) ((mb + 1 : Nat) : Int) bytes = .ok out ∧ out.map halveT = coeffs := by
  obtain ⟨bytes, out, he, hd, ho⟩ := t1_roundtrip_oj w h orient mb coeffs hlen hbnd hmb
  refine ⟨bytes, out, ?_, hd, ho⟩
  rw [encodeBlockF_scale fb w h orient 0 coeffs (3 * mb + 1) hfb (by decide) (by decide) (by decide) (by decide)]
  exact he

end T1
