import GdcVerif.Lemmas.J2kAlloc
/-!
  C09, decomposition levels: since the guard `numLevels > 32` of `parseCodingStyleParams`
  (T.800 Table A.15), every COD and COC segment the parser accepts declares at most 32 decomposition
  levels, so every per-resolution loop of the tile and packet decoders (`for res := 0; res <= numLevels`)
  makes at most 33 turns per component.  The level byte is the first of the coding-style parameters:
  element 4 of the canonical COD content `[scod, prog, layers, mct, levels, …]`, element 1 of the COC
  content `[scoc, levels, …]`.
-/
namespace J2kH
open PC

theorem codingParams_levels {bs : Bytes} {i scod : Nat} {ps : List Nat} {k : Nat}
    (h : codingParams bs i scod = some (ps, k)) : ∃ lv rest, ps = lv :: rest ∧ lv ≤ 32 ∧ u8 bs i = some lv := by
  unfold codingParams at h
  split at h
  · rename_i levels cbw cbh style transform h1 h2 h3 h4 h5
    repeat' split at h
    all_goals first
      | (cases h; done)
      | (injection h with h; injection h with ha hb; subst ha
         exact ⟨levels, _, rfl, by omega, h1⟩)
  · cases h

theorem parseCOD_levels {bs : Bytes} {c : List Nat} {k : Nat} (h : parseCOD bs = some (c, k)) :
    ∃ lv, c[4]? = some lv ∧ lv ≤ 32 := by
  unfold parseCOD at h
  split at h
  · split at h
    · cases h
    · rename_i ps kk hp
      obtain ⟨lv, rest, hps, hle, _⟩ := codingParams_levels hp
      simp only at h
      split at h
      · cases h
      · injection h with h; injection h with h1 h2; subst h1; subst hps
        exact ⟨lv, by simp, hle⟩
  · cases h

theorem parseCOC_levels {csiz : Nat} {bs : Bytes} {comp : Nat} {c : List Nat} {k : Nat}
    (h : parseCOC csiz bs = some (comp, c, k)) : ∃ lv, c[1]? = some lv ∧ lv ≤ 32 := by
  unfold parseCOC at h
  split at h
  · split at h
    · cases h
    · rename_i ps kk hp
      obtain ⟨lv, rest, hps, hle, _⟩ := codingParams_levels hp
      simp only at h
      split at h
      · cases h
      · injection h with h; injection h with _ h; injection h with h1 h2; subst h1; subst hps
        exact ⟨lv, by simp, hle⟩
  · cases h

end J2kH
