import GdcVerif.Lemmas.RleFrame
/-! Plane geometry (segment start / stride), plane reads and strided writes. -/
namespace Rle

/-! ### index arithmetic, by cases on the 12 sample layouts -/


def gStart (ba pc planar s : Nat) : Nat :=
  (if planar = 0 then s / ba * ba else s / ba * ba * pc) + (ba - s % ba - 1)
def gStride (ba spp planar : Nat) : Nat := if planar = 0 then ba * spp else ba

theorem geo_inb (ba spp planar pc s q : Nat) (hba : ba = 1 ∨ ba = 2 ∨ ba = 4)
    (hspp : spp = 1 ∨ spp = 3) (hpl : planar = 0 ∨ planar = 1) (hs : s < ba * spp) (hq : q < pc) :
    gStart ba pc planar s + q * gStride ba spp planar < ba * spp * pc := by
  unfold gStart gStride
  rcases hba with rfl | rfl | rfl <;> rcases hspp with rfl | rfl <;> rcases hpl with rfl | rfl <;>
    simp only [↓reduceIte, Nat.reduceMul, Nat.one_ne_zero] at hs ⊢ <;>
    (generalize ha : s / _ = a at *
     have : a = 0 ∨ a = 1 ∨ a = 2 := by omega
     rcases this with rfl | rfl | rfl <;> omega)

theorem geo_plane (ba spp planar pc s q : Nat) (hba : ba = 1 ∨ ba = 2 ∨ ba = 4)
    (hspp : spp = 1 ∨ spp = 3) (hpl : planar = 0 ∨ planar = 1) (hs : s < ba * spp) :
    (if planar = 0 then q * spp + s / ba else s / ba * pc + q) * ba + (ba - 1 - s % ba) =
      gStart ba pc planar s + q * gStride ba spp planar := by
  unfold gStart gStride
  rcases hba with rfl | rfl | rfl <;> rcases hspp with rfl | rfl <;> rcases hpl with rfl | rfl <;>
    simp only [↓reduceIte, Nat.reduceMul, Nat.one_ne_zero] at hs ⊢ <;>
    (generalize ha : s / _ = a at *
     have : a = 0 ∨ a = 1 ∨ a = 2 := by omega
     rcases this with rfl | rfl | rfl <;> omega)


theorem geo_cover0 (ba spp pc j : Nat) (hba : ba = 1 ∨ ba = 2 ∨ ba = 4)
    (hspp : spp = 1 ∨ spp = 3) (hj : j < ba * spp * pc) :
    ∃ s q, s < ba * spp ∧ q < pc ∧ gStart ba pc 0 s + q * gStride ba spp 0 = j := by
  refine ⟨(j % (ba * spp) / ba) * ba + (ba - 1 - j % (ba * spp) % ba), j / (ba * spp), ?_⟩
  unfold gStart gStride
  rcases hba with rfl | rfl | rfl <;> rcases hspp with rfl | rfl <;>
    simp only [↓reduceIte, Nat.reduceMul] at hj ⊢ <;> omega

theorem geo_cover1_aux (ba a pc j : Nat) (hba : ba = 1 ∨ ba = 2 ∨ ba = 4)
    (ha : a = 0 ∨ a = 1 ∨ a = 2) (h1 : a * ba * pc ≤ j) (h2 : j < (a + 1) * ba * pc) :
    ∃ s q, s < (a + 1) * ba ∧ q < pc ∧ s / ba * ba * pc + (ba - s % ba - 1) + q * ba = j := by
  obtain ⟨s, hs⟩ : ∃ s, s = a * ba + (ba - 1 - (j - a * ba * pc) % ba) := ⟨_, rfl⟩
  refine ⟨s, (j - a * ba * pc) / ba, ?_⟩
  rcases hba with rfl | rfl | rfl <;> rcases ha with rfl | rfl | rfl <;>
    simp only [Nat.reduceMul, Nat.reduceAdd, Nat.zero_mul, Nat.one_mul] at h1 h2 hs ⊢ <;>
    (refine ⟨by omega, by omega, ?_⟩
     generalize hc : s / _ = c
     have : c = 0 ∨ c = 1 ∨ c = 2 := by omega
     rcases this with rfl | rfl | rfl <;> omega)

theorem geo_cover1 (ba spp pc j : Nat) (hba : ba = 1 ∨ ba = 2 ∨ ba = 4)
    (hspp : spp = 1 ∨ spp = 3) (hj : j < ba * spp * pc) :
    ∃ s q, s < ba * spp ∧ q < pc ∧ gStart ba pc 1 s + q * gStride ba spp 1 = j := by
  have key : ∃ a, (a = 0 ∨ a = 1 ∨ a = 2) ∧ a < spp ∧ a * ba * pc ≤ j ∧ j < (a + 1) * ba * pc := by
    rcases hspp with rfl | rfl
    · exact ⟨0, by simp, by omega, by simp, by simpa using hj⟩
    · by_cases c1 : j < ba * pc
      · exact ⟨0, by simp, by omega, by simp, by simpa using c1⟩
      · by_cases c2 : j < 2 * ba * pc
        · exact ⟨1, by simp, by omega, by simp; omega, by simpa using c2⟩
        · refine ⟨2, by simp, by omega, by omega, ?_⟩
          rw [Nat.mul_comm ba 3] at hj
          exact hj
  obtain ⟨a, ha, has, h1, h2⟩ := key
  obtain ⟨s, q, hs, hq, he⟩ := geo_cover1_aux ba a pc j hba ha h1 h2
  refine ⟨s, q, ?_, hq, ?_⟩
  · have : (a + 1) * ba ≤ spp * ba := Nat.mul_le_mul_right _ has
    rw [Nat.mul_comm ba spp]; omega
  · simpa [gStart, gStride] using he


/-! ### reads and writes -/


/-- total read of an array cell -/
def cell (a : Array Byte) (j : Nat) : Byte := a[j]?.getD 0

theorem cell_set (a : Array Byte) (p j : Nat) (b : Byte) (hp : p < a.size) :
    cell (a.setIfInBounds p b) j = if j = p then b else cell a j := by
  unfold cell
  rw [Array.getElem?_setIfInBounds]
  by_cases h : p = j
  · subst h; simp [hp]
  · have : ¬ j = p := fun e => h e.symm
    simp [h, this]

theorem readPlane_eq (src : Array Byte) (stride : Nat) : ∀ (n pos : Nat),
    (∀ k, k < n → pos + k * stride < src.size) →
    readPlane src pos stride n = some ((List.range n).map fun k => cell src (pos + k * stride)) := by
  intro n
  induction n with
  | zero => intro pos _; rfl
  | succ n ih =>
    intro pos h
    have h0 : pos < src.size := by simpa using h 0 (by omega)
    have h' : ∀ k, k < n → pos + stride + k * stride < src.size := by
      intro k hk
      have := h (k + 1) (by omega)
      rw [Nat.add_mul, Nat.one_mul] at this
      omega
    rw [readPlane, dif_pos h0, ih _ h']
    simp only [List.range_succ_eq_map, List.map_cons, List.map_map]
    congr 2
    · simp [cell, h0]
    · apply List.map_congr_left
      intro k _
      simp only [Function.comp, Nat.succ_mul]
      congr 1; omega

/-- `Upd v b b'`: `b'` differs from `b` only at cells that now hold the target value `v j` -/
def Upd (v : Nat → Byte) (b b' : Array Byte) : Prop :=
  b'.size = b.size ∧ ∀ j, cell b' j = cell b j ∨ cell b' j = v j

theorem Upd.refl (v : Nat → Byte) (b : Array Byte) : Upd v b b := ⟨rfl, fun _ => Or.inl rfl⟩

theorem Upd.trans {v : Nat → Byte} {a b c : Array Byte} (h1 : Upd v a b) (h2 : Upd v b c) :
    Upd v a c := by
  refine ⟨h2.1.trans h1.1, fun j => ?_⟩
  rcases h2.2 j with h | h
  · rw [h]; exact h1.2 j
  · exact Or.inr h

theorem Upd.keep {v : Nat → Byte} {a b : Array Byte} (h : Upd v a b) {j : Nat}
    (hj : cell a j = v j) : cell b j = v j := by
  rcases h.2 j with h' | h'
  · rw [h', hj]
  · exact h'

theorem writeStrided_upd (v : Nat → Byte) (stride : Nat) (l : List Byte) :
    ∀ (buf : Array Byte) (pos : Nat),
    (∀ k (hk : k < l.length), l[k] = v (pos + k * stride) ∧ pos + k * stride < buf.size) →
    Upd v buf (writeStrided buf pos stride l) ∧
      ∀ k, k < l.length → cell (writeStrided buf pos stride l) (pos + k * stride) =
        v (pos + k * stride) := by
  induction l with
  | nil => intro buf pos _; exact ⟨Upd.refl _ _, fun k hk => by simp at hk⟩
  | cons b bs ih =>
    intro buf pos h
    have h0 := h 0 (by simp)
    simp only [List.getElem_cons_zero, Nat.zero_mul, Nat.add_zero] at h0
    obtain ⟨hb, hp⟩ := h0
    have hstep : Upd v buf (buf.setIfInBounds pos b) := by
      refine ⟨by simp, fun j => ?_⟩
      rw [cell_set _ _ _ _ hp]
      by_cases hj : j = pos
      · subst hj; simp [hb]
      · simp [hj]
    have h' : ∀ k (hk : k < bs.length), bs[k] = v (pos + stride + k * stride) ∧
        pos + stride + k * stride < (buf.setIfInBounds pos b).size := by
      intro k hk
      have := h (k + 1) (by simpa using hk)
      simp only [List.getElem_cons_succ, Nat.add_mul, Nat.one_mul] at this
      rw [show pos + stride + k * stride = pos + (k * stride + stride) by omega]
      simpa using this
    obtain ⟨hu, hd⟩ := ih (buf.setIfInBounds pos b) (pos + stride) h'
    refine ⟨hstep.trans hu, fun k hk => ?_⟩
    cases k with
    | zero =>
      simp only [Nat.zero_mul, Nat.add_zero, writeStrided]
      apply hu.keep
      rw [cell_set _ _ _ _ hp]; simp [hb]
    | succ k =>
      have := hd k (by simpa using hk)
      rw [show pos + (k + 1) * stride = pos + stride + k * stride by
        rw [Nat.add_mul, Nat.one_mul]; omega]
      exact this


theorem decodeSegments_upd (i : Info) (v : Nat → Byte) (data : List Byte) (n : Nat)
    (offs : List Nat) (P : Nat → List Byte) :
    ∀ (k s : Nat) (buf : Array Byte),
    (∀ t, s ≤ t → t < s + k → ∀ b : Array Byte, b.size = buf.size →
      decodeLoop i.segStride b (i.segStart t) (segmentSlice data n offs t) =
        .ok (writeStrided b (i.segStart t) i.segStride (P t))) →
    (∀ t, s ≤ t → t < s + k → ∀ q (hq : q < (P t).length),
      (P t)[q] = v (i.segStart t + q * i.segStride) ∧ i.segStart t + q * i.segStride < buf.size) →
    ∃ F, decodeSegments i data n offs k s buf = .ok F ∧ Upd v buf F ∧
      ∀ t, s ≤ t → t < s + k → ∀ q, q < (P t).length →
        cell F (i.segStart t + q * i.segStride) = v (i.segStart t + q * i.segStride) := by
  intro k
  induction k with
  | zero =>
    intro s buf _ _
    exact ⟨buf, rfl, Upd.refl _ _, fun t h1 h2 => by omega⟩
  | succ k ih =>
    intro s buf hdec hP
    obtain ⟨hu1, hd1⟩ := writeStrided_upd v i.segStride (P s) buf (i.segStart s)
      (hP s (Nat.le_refl _) (by omega))
    obtain ⟨F, hF, huF, hdF⟩ := ih (s + 1) (writeStrided buf (i.segStart s) i.segStride (P s))
      (fun t h1 h2 b hb => hdec t (by omega) (by omega) b (by rw [hb, hu1.1]))
      (fun t h1 h2 q hq => by rw [hu1.1]; exact hP t (by omega) (by omega) q hq)
    refine ⟨F, ?_, hu1.trans huF, ?_⟩
    · rw [decodeSegments, hdec s (Nat.le_refl _) (by omega) buf rfl]
      exact hF
    · intro t h1 h2 q hq
      by_cases hts : t = s
      · subst hts
        exact huF.keep (hd1 q hq)
      · exact hdF t (by omega) (by omega) q hq

end Rle
