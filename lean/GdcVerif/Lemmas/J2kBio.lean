import GdcVerif.Model.J2kSample
/-! bioWriter / bioReader byte-level round trip, including flush and alignToByte. -/
namespace J2k

/-- usable bits of the byte that follows byte `p` -/
def cap (p : Nat) : Nat := if p == 255 then 7 else 8

/-- writer state at the start of a fresh byte, `hi` being the byte emitted last (0 initially) -/
def wStart (buf : List Nat) (hi : Nat) : BioW := { buf := buf, out := hi * 256, ct := cap hi }

theorem wStart_new : BioW.new = wStart [] 0 := rfl

theorem or_pow (x k : Nat) (h : x % 2 ^ (k + 1) = 0) : x ||| 2 ^ k = x + 2 ^ k := by
  have hx : x = (x / 2 ^ (k + 1)) <<< (k + 1) := by
    rw [Nat.shiftLeft_eq]
    have := Nat.div_add_mod x (2 ^ (k + 1))
    rw [Nat.mul_comm] at this; omega
  have hlt : 2 ^ k < 2 ^ (k + 1) := Nat.pow_lt_pow_right (by decide) (by omega)
  rw [hx, ← Nat.shiftLeft_add_eq_or_of_lt hlt]

theorem byteOut_eq (w : BioW) (h lo : Nat) (ho : w.out = h * 256 + lo) (hl : lo < 256) :
    w.byteOut = wStart (w.buf ++ [lo]) lo := by
  unfold BioW.byteOut wStart cap
  rw [ho]
  have e1 : (h * 256 + lo) * 256 % 65536 = lo * 256 := by omega
  rw [e1]
  have e2 : lo * 256 / 256 % 256 = lo := by omega
  simp only [e2]
  by_cases h255 : lo = 255
  · subst h255; rfl
  · have : (lo * 256 == 0xff00) = false := by simp; omega
    have h2 : (lo == 255) = false := by simp; exact h255
    simp [this, h2]

/-- low byte and free-bit count while a chunk is written into a byte -/
def wlo : Nat → Nat → List Bool → Nat × Nat
  | ct, lo, [] => (lo, ct)
  | 0, lo, _ :: _ => (lo, 0)
  | k + 1, lo, b :: bs => wlo k (lo + if b then 2 ^ k else 0) bs

theorem step_inv (k lo : Nat) (b : Bool) (hk : k < 8) (h0 : lo % 2 ^ (k + 1) = 0) (hl : lo < 256) :
    (lo + if b then 2 ^ k else 0) % 2 ^ k = 0 ∧ (lo + if b then 2 ^ k else 0) < 256 := by
  have : k = 0 ∨ k = 1 ∨ k = 2 ∨ k = 3 ∨ k = 4 ∨ k = 5 ∨ k = 6 ∨ k = 7 := by omega
  rcases this with h | h | h | h | h | h | h | h <;> subst h <;> cases b <;> simp at h0 ⊢ <;> omega

theorem pow_dvd_256 (k : Nat) (hk : k ≤ 8) : 256 % 2 ^ k = 0 := by
  have : k = 0 ∨ k = 1 ∨ k = 2 ∨ k = 3 ∨ k = 4 ∨ k = 5 ∨ k = 6 ∨ k = 7 ∨ k = 8 := by omega
  rcases this with h | h | h | h | h | h | h | h | h <;> subst h <;> decide

/-- writing a chunk that fits into the current byte only touches the low byte -/
theorem wchunk : ∀ (c : List Bool) (buf : List Nat) (h lo ct : Nat), c.length ≤ ct → ct ≤ 8 →
    lo % 2 ^ ct = 0 → lo < 256 →
    BioW.writeBitsList { buf := buf, out := h * 256 + lo, ct := ct } c =
      { buf := buf, out := h * 256 + (wlo ct lo c).1, ct := ct - c.length } ∧
    (wlo ct lo c).1 < 256 ∧ (wlo ct lo c).2 = ct - c.length := by
  intro c
  induction c with
  | nil => intro buf h lo ct _ _ _ hl; simp [BioW.writeBitsList, wlo, hl]
  | cons b bs ih =>
    intro buf h lo ct hlen hct h0 hl
    cases ct with
    | zero => simp at hlen
    | succ k =>
      have hk : k < 8 := by omega
      obtain ⟨i1, i2⟩ := step_inv k lo b hk h0 hl
      have hw : BioW.writeBit { buf := buf, out := h * 256 + lo, ct := k + 1 } b =
          { buf := buf, out := h * 256 + (lo + if b then 2 ^ k else 0), ct := k } := by
        unfold BioW.writeBit
        simp only [Nat.add_one_ne_zero, beq_iff_eq, if_false, Nat.add_sub_cancel]
        cases b with
        | false => simp
        | true =>
          simp only [if_true]
          have hm : (h * 256 + lo) % 2 ^ (k + 1) = 0 := by
            have h256 := pow_dvd_256 (k + 1) (by omega)
            have : (h * 256) % 2 ^ (k + 1) = 0 := by
              rw [Nat.mul_mod, h256]; simp
            rw [Nat.add_mod, this, h0]; simp
          rw [or_pow _ _ hm]; simp [Nat.add_assoc]
      unfold BioW.writeBitsList wlo
      rw [hw]
      have := ih buf h (lo + if b then 2 ^ k else 0) k (by simp at hlen; omega) (by omega) i1 i2
      obtain ⟨e1, e2, e3⟩ := this
      refine ⟨by rw [e1]; simp, e2, by rw [e3]; simp⟩

/-! ### reader -/

/-- the top `j` bits read from a byte `v` of which `ct` bits are unread -/
def rlo : Nat → Nat → Nat → List Bool
  | _, _, 0 => []
  | 0, _, _ + 1 => []
  | k + 1, v, j + 1 => (v / 2 ^ k % 2 == 1) :: rlo k v j

theorem bit_of_low (g v k : Nat) (hk : k < 8) : (g * 256 + v) / 2 ^ k % 2 = v / 2 ^ k % 2 := by
  have : k = 0 ∨ k = 1 ∨ k = 2 ∨ k = 3 ∨ k = 4 ∨ k = 5 ∨ k = 6 ∨ k = 7 := by omega
  rcases this with h | h | h | h | h | h | h | h <;> subst h <;> simp <;> omega

theorem rchunk : ∀ (j ct : Nat) (data : List Nat) (g v : Nat), j ≤ ct → ct ≤ 8 →
    BioR.readBitsList { data := data, buf := g * 256 + v, ct := ct } j =
      some (rlo ct v j, { data := data, buf := g * 256 + v, ct := ct - j }) := by
  intro j
  induction j with
  | zero => intro ct data g v _ _; simp [BioR.readBitsList, rlo]
  | succ j ih =>
    intro ct data g v hj hct
    cases ct with
    | zero => omega
    | succ k =>
      unfold BioR.readBitsList BioR.readBit
      simp only [Nat.add_one_ne_zero, beq_iff_eq, if_false, Nat.add_sub_cancel]
      rw [bit_of_low g v k (by omega)]
      rw [ih k data g v (by omega) (by omega)]
      simp [rlo]

theorem byteIn_eq (data : List Nat) (g p d ct : Nat) (hp : p < 256) (hd : d < 256) :
    BioR.byteIn { data := d :: data, buf := g * 256 + p, ct := ct } =
      some { data := data, buf := p * 256 + d, ct := cap p } := by
  unfold BioR.byteIn cap
  have e1 : (g * 256 + p) * 256 % 65536 = p * 256 := by omega
  simp only [e1]
  have e2 : p * 256 ||| d = p * 256 + d := by
    have : p * 256 = p <<< 8 := by rw [Nat.shiftLeft_eq]
    rw [this, ← Nat.shiftLeft_add_eq_or_of_lt (by omega : d < 2 ^ 8)]
  rw [e2]
  by_cases h255 : p = 255
  · subst h255; rfl
  · have : (p * 256 == 0xff00) = false := by simp; omega
    have h2 : (p == 255) = false := by simp; exact h255
    simp [this, h2]

theorem cap_bounds (p : Nat) : 7 ≤ cap p ∧ cap p ≤ 8 := by unfold cap; split <;> omega

/-- reading ≥ 1 bits from a reader that stands on a byte boundary loads the next byte first -/
theorem read_from_boundary (j : Nat) (data : List Nat) (g p d : Nat) (hp : p < 256) (hd : d < 256)
    (hj : j + 1 ≤ cap p) :
    BioR.readBitsList { data := d :: data, buf := g * 256 + p, ct := 0 } (j + 1) =
      some (rlo (cap p) d (j + 1), { data := data, buf := p * 256 + d, ct := cap p - (j + 1) }) := by
  have hc := cap_bounds p
  have h1 := rchunk (j + 1) (cap p) data p d hj hc.2
  unfold BioR.readBitsList at h1 ⊢
  unfold BioR.readBit at h1 ⊢
  have hne : (cap p == 0) = false := by simp; omega
  simp only [hne] at h1
  simp only [BEq.rfl, if_true, byteIn_eq data g p d 0 hp hd]
  exact h1

theorem readBitsList_succ (r : BioR) (n : Nat) :
    r.readBitsList (n + 1) = (match r.readBit with
      | none => none
      | some (b, r) => match r.readBitsList n with
        | none => none
        | some (bs, r) => some (b :: bs, r)) := rfl

theorem readBitsList_append (a b : Nat) (r : BioR) :
    r.readBitsList (a + b) = (match r.readBitsList a with
      | none => none
      | some (xs, r') => match r'.readBitsList b with
        | none => none
        | some (ys, r'') => some (xs ++ ys, r'')) := by
  induction a generalizing r with
  | zero =>
    have : r.readBitsList 0 = some ([], r) := rfl
    rw [Nat.zero_add, this]
    simp only []
    cases hb : r.readBitsList b with
    | none => rfl
    | some q => obtain ⟨ys, r''⟩ := q; simp
  | succ a ih =>
    have : a + 1 + b = (a + b) + 1 := by omega
    rw [this, readBitsList_succ r (a + b), readBitsList_succ r a]
    cases hrb : r.readBit with
    | none => rfl
    | some q =>
      obtain ⟨x, r1⟩ := q
      simp only []
      rw [ih r1]
      cases r1.readBitsList a with
      | none => rfl
      | some q2 =>
        obtain ⟨xs, r2⟩ := q2
        simp only []
        cases r2.readBitsList b with
        | none => rfl
        | some q3 => obtain ⟨ys, r3⟩ := q3; simp

/-! ### the finite facts about one byte, by evaluation -/

theorem mem_allBits : ∀ c : List Bool, c ∈ allBits c.length := by
  intro c
  induction c with
  | nil => simp [allBits]
  | cons b bs ih =>
    simp only [List.length_cons, allBits, List.mem_flatMap]
    exact ⟨bs, ih, by cases b <;> simp⟩

set_option maxRecDepth 100000 in
set_option maxHeartbeats 4000000 in
/-- what was written into a fresh byte is what is read from it; a byte is 0xFF only when all 8 bits are ones -/
theorem byte_facts : ([7, 8].all fun c0 => (List.range (c0 + 1)).all fun j => (allBits j).all fun c =>
    rlo c0 (wlo c0 0 c).1 j == c && ((wlo c0 0 c).1 != 255 || (c0 == 8 && j == 8))) = true := by decide

theorem byte_fact (p : Nat) (c : List Bool) (hc : c.length ≤ cap p) :
    rlo (cap p) (wlo (cap p) 0 c).1 c.length = c ∧ ((wlo (cap p) 0 c).1 = 255 → cap p = 8 ∧ c.length = 8) := by
  have hb := cap_bounds p
  have hcap : cap p ∈ [7, 8] := by
    have : cap p = 7 ∨ cap p = 8 := by omega
    rcases this with h | h <;> simp [h]
  have h1 := List.all_eq_true.mp byte_facts (cap p) hcap
  have h2 := List.all_eq_true.mp h1 c.length (by simp; omega)
  have h3 := List.all_eq_true.mp h2 c (mem_allBits c)
  simp only [Bool.and_eq_true, beq_iff_eq, Bool.or_eq_true, bne_iff_ne, ne_eq] at h3
  refine ⟨h3.1, fun h255 => ?_⟩
  rcases h3.2 with h | h
  · exact absurd h255 h
  · exact h

/-! ### the stream as a function of the bits, and the two inductions -/

/-- bytes produced for the bits `bs` (non-empty) after byte `p`; `fuel ≥ bs.length` -/
def pack : Nat → Nat → List Bool → List Nat
  | 0, _, _ => []
  | f + 1, p, bs =>
    if bs.length ≤ cap p then
      let v := (wlo (cap p) 0 bs).1
      if v == 255 then [v, 0] else [v]
    else
      let v := (wlo (cap p) 0 (bs.take (cap p))).1
      v :: pack f v (bs.drop (cap p))

theorem writeBitsList_append (w : BioW) (a b : List Bool) :
    w.writeBitsList (a ++ b) = (w.writeBitsList a).writeBitsList b := by
  induction a generalizing w with
  | nil => rfl
  | cons x xs ih => simp only [List.cons_append, BioW.writeBitsList]; exact ih _

theorem wStart_chunk (buf : List Nat) (p : Nat) (c : List Bool) (hc : c.length ≤ cap p) :
    (wStart buf p).writeBitsList c =
      { buf := buf, out := p * 256 + (wlo (cap p) 0 c).1, ct := cap p - c.length } ∧ (wlo (cap p) 0 c).1 < 256 := by
  have hb := cap_bounds p
  have := wchunk c buf p 0 (cap p) hc hb.2 (by simp) (by decide)
  simp only [Nat.add_zero] at this
  exact ⟨this.1, this.2.1⟩

/-- a full byte is emitted by the next writeBit: the writer is then at the start of a fresh byte -/
theorem write_after_full (buf : List Nat) (h lo : Nat) (hl : lo < 256) (b : Bool) (r : List Bool) :
    BioW.writeBitsList { buf := buf, out := h * 256 + lo, ct := 0 } (b :: r) =
      (wStart (buf ++ [lo]) lo).writeBitsList (b :: r) := by
  have hc := cap_bounds lo
  unfold BioW.writeBitsList
  congr 1
  unfold BioW.writeBit
  have e := byteOut_eq { buf := buf, out := h * 256 + lo, ct := 0 } h lo rfl hl
  simp only [BEq.rfl, if_true, e]
  have hne : ((wStart (buf ++ [lo]) lo).ct == 0) = false := by unfold wStart; simp; omega
  simp only [hne]
  rfl

theorem flush_eq (buf : List Nat) (h lo ct : Nat) (hl : lo < 256) :
    BioW.flush { buf := buf, out := h * 256 + lo, ct := ct } = buf ++ (if lo == 255 then [lo, 0] else [lo]) := by
  unfold BioW.flush
  rw [byteOut_eq _ h lo rfl hl]
  by_cases h255 : lo = 255
  · subst h255
    have : (wStart (buf ++ [255]) 255).ct = 7 := rfl
    simp only [this, BEq.rfl, if_true]
    have e := byteOut_eq (wStart (buf ++ [255]) 255) 255 0 (by unfold wStart; rfl) (by decide)
    rw [e]; simp [wStart]
  · have h2 : (lo == 255) = false := by simp; exact h255
    have hc8 : cap lo = 8 := by unfold cap; simp [h2]
    simp [h2, wStart, hc8]

/-- the writer produces `pack` -/
theorem writer_pack : ∀ (fuel : Nat) (buf : List Nat) (p : Nat) (bs : List Bool), bs ≠ [] → bs.length ≤ fuel →
    ((wStart buf p).writeBitsList bs).flush = buf ++ pack fuel p bs := by
  intro fuel
  induction fuel with
  | zero => intro buf p bs hne hl; cases bs <;> simp at hne hl
  | succ f ih =>
    intro buf p bs hne hl
    have hb := cap_bounds p
    unfold pack
    by_cases hlast : bs.length ≤ cap p
    · simp only [hlast, if_true]
      obtain ⟨e, hv⟩ := wStart_chunk buf p bs hlast
      rw [e, flush_eq buf p _ _ hv]
    · simp only [hlast, if_false]
      have hsplit : bs = bs.take (cap p) ++ bs.drop (cap p) := (List.take_append_drop _ _).symm
      have htl : (bs.take (cap p)).length = cap p := by rw [List.length_take]; omega
      have hdl : (bs.drop (cap p)).length = bs.length - cap p := List.length_drop
      obtain ⟨e, hv⟩ := wStart_chunk buf p (bs.take (cap p)) (by omega)
      rw [htl, Nat.sub_self] at e
      rw [hsplit, writeBitsList_append, e]
      cases hd : bs.drop (cap p) with
      | nil => rw [hd] at hdl; simp at hdl; omega
      | cons b r =>
        rw [write_after_full buf p _ hv b r, ← hd]
        have := ih (buf ++ [(wlo (cap p) 0 (List.take (cap p) bs)).1]) (wlo (cap p) 0 (List.take (cap p) bs)).1
          (bs.drop (cap p)) (by rw [hd]; simp) (by omega)
        rw [this, ← hsplit]; simp

/-- the reader, standing on a byte boundary after byte `p`, reads `bs` back from `pack … ++ rest` and
    alignToByte leaves it in front of `rest` -/
theorem reader_pack : ∀ (fuel : Nat) (g p : Nat) (bs : List Bool) (rest : List Nat), bs ≠ [] → bs.length ≤ fuel →
    p < 256 →
    ∃ r, BioR.readBitsList { data := pack fuel p bs ++ rest, buf := g * 256 + p, ct := 0 } bs.length = some (bs, r) ∧
      ∃ r', r.alignToByte = some r' ∧ r'.data = rest := by
  intro fuel
  induction fuel with
  | zero => intro g p bs rest hne hl; cases bs <;> simp at hne hl
  | succ f ih =>
    intro g p bs rest hne hl hp
    have hb := cap_bounds p
    unfold pack
    by_cases hlast : bs.length ≤ cap p
    · simp only [hlast, if_true]
      obtain ⟨_, hv⟩ := wStart_chunk [] p bs hlast
      obtain ⟨f1, f2⟩ := byte_fact p bs hlast
      obtain ⟨j, hj⟩ : ∃ j, bs.length = j + 1 := by
        cases bs with
        | nil => exact absurd rfl hne
        | cons b t => exact ⟨t.length, rfl⟩
      by_cases h255 : (wlo (cap p) 0 bs).1 = 255
      · have hb255 : ((wlo (cap p) 0 bs).1 == 255) = true := by simp [h255]
        simp only [hb255, if_true, List.cons_append, List.nil_append]
        rw [hj, read_from_boundary j (0 :: rest) g p _ hp hv (by omega), ← hj, f1]
        refine ⟨_, rfl, ?_⟩
        unfold BioR.alignToByte
        have e : (p * 256 + (wlo (cap p) 0 bs).1) % 256 = 255 := by omega
        simp only [e, BEq.rfl, if_true]
        rw [byteIn_eq rest p _ 0 _ hv (by decide)]
        exact ⟨_, rfl, rfl⟩
      · have hb255 : ((wlo (cap p) 0 bs).1 == 255) = false := by simp; exact h255
        simp only [hb255, Bool.false_eq_true, if_false, List.cons_append, List.nil_append]
        rw [hj, read_from_boundary j rest g p _ hp hv (by omega), ← hj, f1]
        refine ⟨_, rfl, ?_⟩
        unfold BioR.alignToByte
        have e : ((p * 256 + (wlo (cap p) 0 bs).1) % 256 == 255) = false := by simp; omega
        simp only [e, Bool.false_eq_true, if_false]
        exact ⟨_, rfl, rfl⟩
    · simp only [hlast, if_false, List.cons_append]
      have hsplit : bs = bs.take (cap p) ++ bs.drop (cap p) := (List.take_append_drop _ _).symm
      have htl : (bs.take (cap p)).length = cap p := by rw [List.length_take]; omega
      have hdl : (bs.drop (cap p)).length = bs.length - cap p := List.length_drop
      obtain ⟨_, hv⟩ := wStart_chunk [] p (bs.take (cap p)) (by omega)
      obtain ⟨f1, _⟩ := byte_fact p (bs.take (cap p)) (by omega)
      rw [htl] at f1
      have hlen : bs.length = cap p + (bs.length - cap p) := by omega
      obtain ⟨c1, hc1⟩ : ∃ c1, cap p = c1 + 1 := ⟨cap p - 1, by omega⟩
      have hdne : bs.drop (cap p) ≠ [] := by
        intro h; rw [h] at hdl; simp at hdl; omega
      obtain ⟨r2, hr2, r3, hr3, hr4⟩ := ih p (wlo (cap p) 0 (List.take (cap p) bs)).1 (bs.drop (cap p)) rest hdne (by omega) hv
      rw [hlen, readBitsList_append]
      have hfirst := read_from_boundary c1 (pack f (wlo (cap p) 0 (List.take (cap p) bs)).1 (List.drop (cap p) bs) ++ rest)
        g p _ hp hv (by omega)
      rw [← hc1, f1, Nat.sub_self] at hfirst
      rw [hfirst]
      simp only []
      rw [← hdl, hr2]
      simp only []
      refine ⟨r2, by rw [← hsplit], r3, hr3, hr4⟩

/-- packet-header bit I/O, full statement: every non-empty bit string written by bioWriter and flushed is read
    back by bioReader bit for bit from `stream ++ rest`, and alignToByte leaves the reader exactly at `rest` -/
theorem bio_roundtrip' (bits : List Bool) (rest : List Nat) (hne : bits ≠ []) :
    headerRoundTrip BioR.alignToByte bits rest = some (bits, rest) := by
  unfold headerRoundTrip
  rw [wStart_new, writer_pack bits.length [] 0 bits hne (Nat.le_refl _)]
  obtain ⟨r, hr, r', hr', hd⟩ := reader_pack bits.length 0 0 bits rest hne (Nat.le_refl _) (by decide)
  have : BioR.new ([] ++ pack bits.length 0 bits ++ rest) =
      { data := pack bits.length 0 bits ++ rest, buf := 0 * 256 + 0, ct := 0 } := by simp [BioR.new]
  rw [this, hr]
  simp only [hr', hd]

end J2k
