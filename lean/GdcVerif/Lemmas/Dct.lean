import GdcVerif.Model.Dct
import GdcVerif.Spec.T81ZigZag
/-! Proofs for Props/C11. -/
namespace Dct
open Gen.JpegStd Gen.JpegBaseline Gen.JpegExtended

/-- rounding division of a non-negative numerator: r = (a + d/2)/d is within d/2 of a/d -/
theorem round_div (a d : Int) (ha : 0 ≤ a) (hd : 0 < d) :
    0 ≤ Int.tdiv (a + Int.tdiv d 2) d ∧ 2 * (a - d * Int.tdiv (a + Int.tdiv d 2) d) ≤ d ∧
      -d ≤ 2 * (a - d * Int.tdiv (a + Int.tdiv d 2) d) := by
  have e1 : Int.tdiv d 2 = d / 2 := Int.tdiv_eq_ediv_of_nonneg (by omega)
  have hh : 0 ≤ d / 2 := by omega
  have e2 : Int.tdiv (a + Int.tdiv d 2) d = (a + d / 2) / d := by
    simp only [e1]; exact Int.tdiv_eq_ediv_of_nonneg (by omega)
  have h1 := Int.mul_ediv_add_emod (a + d / 2) d
  have h2 := Int.emod_nonneg (a + d / 2) (Int.ne_of_gt hd)
  have h3 := Int.emod_lt_of_pos (a + d / 2) hd
  have h4 : 0 ≤ (a + d / 2) / d := Int.ediv_nonneg (by omega) (by omega)
  rw [e2]
  generalize (a + d / 2) / d = k at *
  generalize (a + d / 2) % d = m at *
  generalize d * k = t at *
  omega

/-- the symmetric quantiser `c < 0 ? -((-c + d/2)/d) : (c + d/2)/d` -/
def symQuant (c d : Int) : Int :=
  if c < 0 then -(Int.tdiv (-c + Int.tdiv d 2) d) else Int.tdiv (c + Int.tdiv d 2) d

theorem symQuant_bound (c d : Int) (hd : 0 < d) :
    2 * (c - d * symQuant c d) ≤ d ∧ -d ≤ 2 * (c - d * symQuant c d) := by
  by_cases hc : c < 0
  · have := round_div (-c) d (by omega) hd
    simp only [symQuant, hc, if_true]
    generalize Int.tdiv (-c + Int.tdiv d 2) d = r at *
    rw [Int.mul_neg]
    generalize d * r = t at *
    omega
  · have := round_div c d (by omega) hd
    simp only [symQuant, hc, if_false]
    generalize Int.tdiv (c + Int.tdiv d 2) d = r at *
    generalize d * r = t at *
    omega

theorem seq12_is_symQuant (c d : Int) : sequential12Quantize c d = symQuant c d := by
  simp [sequential12Quantize, symQuant]

theorem quant8_is_symQuant (enc : Encoder) (bx bY s t i q c : Int) : quantizeBlock.entry enc bx bY s t i q c = symQuant c (q * 8) := by
  simp [quantizeBlock.entry, symQuant]

theorem quant12_entry (bx bY i c q r : Int) : quantizeBlock12.entry bx bY i c q r = symQuant c (q * 8) := by
  simp [quantizeBlock12.entry, seq12_is_symQuant, Go.shl]

/-- ScaleQuantTable's per-entry expression -/
theorem scale_entry_range (quality i b r : Int) :
    1 ≤ ScaleQuantTable.entry quality i b r ∧ ScaleQuantTable.entry quality i b r ≤ 255 := by
  simp only [ScaleQuantTable.entry]
  constructor <;> (repeat' split) <;> simp_all <;> omega

/-- for quality 1..100 and 8-bit base entries no int32 operation of the entry expression wraps, and the value
    is the IJG formula clamp((b*scale + 50)/100, 1, 255) with scale = 5000/q (q < 50), 200 − 2q otherwise -/
theorem scale_entry_formula (quality i b r : Int) (hq : 1 ≤ quality ∧ quality ≤ 100) (hb : 0 ≤ b ∧ b ≤ 255) :
    let scale := if quality < 50 then 5000 / quality else 200 - 2 * quality
    0 ≤ scale ∧ scale ≤ 5000 ∧ Go.wrap32 scale = scale ∧ b * scale + 50 < 2147483648 ∧
    ScaleQuantTable.entry quality i b r = max 1 (min 255 ((b * scale + 50) / 100)) := by
  intro scale
  have hs : 0 ≤ scale ∧ scale ≤ 5000 := by
    simp only [scale]; split
    · constructor
      · exact Int.ediv_nonneg (by omega) (by omega)
      · exact Int.ediv_le_self quality (by omega : (0:Int) ≤ 5000)
    · omega
  have hw : Go.wrap32 scale = scale := by simp only [Go.wrap32]; omega
  have hprod : 0 ≤ b * scale ∧ b * scale ≤ 255 * 5000 := by
    constructor
    · exact Int.mul_nonneg hb.1 hs.1
    · exact Int.mul_le_mul hb.2 hs.2 hs.1 (by omega)
  refine ⟨hs.1, hs.2, hw, by omega, ?_⟩
  have e5 : Int.tdiv 5000 quality = 5000 / quality := Int.tdiv_eq_ediv_of_nonneg (by omega)
  have esc : (if quality < 50 then Int.tdiv 5000 quality else 200 - quality * 2) = scale := by
    simp only [scale, e5]; split <;> omega
  simp only [ScaleQuantTable.entry, decide_eq_true_eq, esc, hw]
  have ed : Int.tdiv (b * scale + 50) 100 = (b * scale + 50) / 100 := Int.tdiv_eq_ediv_of_nonneg (by omega)
  rw [ed]
  generalize (b * scale + 50) / 100 = v
  (repeat' split) <;> omega

theorem edge_idx (b x w : Int) (hb : 0 ≤ b) (hx : 0 ≤ x) (hw : 1 ≤ w) :
    0 ≤ edgeIdx b x w ∧ edgeIdx b x w < w ∧ (b * 8 + x < w → edgeIdx b x w = b * 8 + x) := by
  simp only [edgeIdx]; omega

end Dct
